(* Props.v (C09) — statements only; proofs live in C09/Lemmas.v.

   Property C09: "tracking does not raise, returns every input detection whose
   score exceeds the new-track threshold exactly once and with a track, never
   returns a detection twice or one it was not given, and never gives two
   detections of the same frame the same track — for both candidate methods,
   both matching algorithms and every feature/score combination".

   The model (C09/Tracker.v) is a state machine `step cfg st frame` for both
   candidate methods; a frame carries the detections (uid, score > threshold),
   the score matrix returned by get_scores and the matcher's answer.  All
   theorems quantify over EVERY configuration (method, matcher, window size,
   reduction), EVERY history (no bound on frames, detections, tracks) and
   EVERY sequence of score matrices and matcher answers; where an answer is
   constrained it is only by the matcher's contract (`contract_step`).
   `trace cfg init h` lists the executed calls (state before, frame, outcome);
   `run cfg h = map t_out (trace cfg init h)`.

   The three switches fix_i/fix_ii/fix_iii select the PINNED tree (false:
   before the fixes 0429c9b / 7f6adbc / 141de51) or the repaired behaviour
   (true) for the three defects of finding F4; TrackerX.v adds fix_cap
   (6da44fb) and fix_iv (afd312c).  The CURRENT tree (/repo HEAD) has all five
   repairs; the harness detects this by replaying the corpus witnesses and
   evaluates the model with all switches true.

   OPERATIVE theorems for the current tree (everything else documents a
   historic variant and keeps the check able to report a regression):
     c09x_outputs_subset_nodup            clause (a), every configuration
     c09x_repaired_full_any_matcher       clauses (b), (c), (d): hypothesis =
                                          `valid_ans`, evaluated exactly inside
                                          Coq on every recorded call
     c09x_repaired_full (corollary: matcher contract), ..._no_cap,
     c09x_repaired_exactly_once           "exactly once" in one statement
     c09x_step_conservative_any_fix, c09x_round1_carries_over
                                          round 1's theorems about `Tracker.step`
                                          speak about the current configuration.

   On the PINNED tree completeness and absence of exceptions are refuted (three
   minimal histories, replayed on the implementation by harness/props/c09.py);
   the general theorem `complete_no_raise_partial` has as its only extra
   hypothesis that no F4 selector fires, and becomes `complete_no_raise_repaired`
   when F4 i-iii are repaired (F4iv not: hypothesis `finite_step`). *)
From Coq Require Import List Arith Bool ZArith QArith.
Import ListNotations.
From SV Require Import C09.Tracker C09.Lemmas C09.TrackerX C09.LemmasX C09.LemmasR C09.GreedyAll.
Close Scope Q_scope.
Open Scope nat_scope.

(* --- smoke examples: the model on the witness histories ------------------ *)

Example ex_one_animal_fixed_window :
  run (cfg_now false false 3 false) wit_one_animal = [Ok [(10, Some 0)]; Ok []; Ok []].
Proof. exact wit_one_animal_fw. Qed.

Example ex_one_animal_local_queues :
  run (cfg_now true false 3 false) wit_one_animal
  = [Ok [(10, Some 0)]; Ok [(20, None)]; Ok [(30, None)]].
Proof. exact wit_one_animal_lq. Qed.

Example ex_one_animal_repaired : forall l,
  run (mkConfig l false 3 false true true true) wit_one_animal
  = [Ok [(10, Some 0)]; Ok [(20, Some 0)]; Ok [(30, Some 0)]].
Proof. exact wit_one_animal_repaired. Qed.

Example ex_third_appears_repaired :
  run (mkConfig true false 3 false true true true) wit_third_appears
  = [Ok [(10, Some 0); (11, Some 1)]; Ok [(20, Some 0); (21, Some 1); (22, Some 2)]].
Proof. exact wit_third_appears_repaired. Qed.

Example ex_stale_track_max_raises :
  run (cfg_now false true 1 true)
      (firstn 2 wit_stale_track ++ [([(30, true); (31, true); (32, true)], [], AFail)])
  = [Ok [(10, Some 0); (11, Some 1); (12, Some 2)]; Ok [(21, Some 1); (22, Some 2)]; Raise ValueErr].
Proof. exact wit_stale_track_max. Qed.

(* --- the definitions used below, restated -------------------------------- *)

(* one-to-one partial assignment inside an n x m matrix *)
Lemma matching_def : forall n m p,
  matching n m p =
  (NoDup (map fst p) /\ NoDup (map snd p) /\
   (forall r, In r (map fst p) -> r < n) /\ (forall c, In c (map snd p) -> c < m)).
Proof. reflexivity. Qed.
Print Assumptions matching_def.

(* contract of hungarian_matching (scipy linear_sum_assignment on cost = -score,
   NaN -> inf): optimal finite assignment of size min(n,m), failure iff none
   exists; the repaired function (fix3) never fails and returns a finite
   assignment of maximal size *)
Lemma hungarian_contract_def : forall fix3 M n m a,
  hungarian_contract fix3 M n m a =
  match a with
  | APairs p =>
      matching n m p /\ finite_on M p /\
      (if fix3 then forall q, matching n m q -> finite_on M q -> length q <= length p
       else length p = Nat.min n m) /\
      (forall q, matching n m q -> finite_on M q -> length q = length p ->
                 (tot M q <= tot M p)%Q)
  | AFail => fix3 = false /\
             forall q, matching n m q -> finite_on M q -> length q <> Nat.min n m
  end.
Proof. reflexivity. Qed.
Print Assumptions hungarian_contract_def.

(* contract of greedy_matching: an admissible greedy run (Tracker.greedy_runb) *)
Lemma matcher_contract_def : forall cfg M n m a,
  matcher_contract cfg M n m a =
  if greedy cfg then exists p, a = APairs p /\ greedy_runb M n m [] [] p = true
  else hungarian_contract (fix_iii cfg) M n m a.
Proof. reflexivity. Qed.
Print Assumptions matcher_contract_def.

(* hypothesis on an executed call: if the matcher was called, its answer
   satisfies the contract for the recorded matrix (detections x current tracks) *)
Lemma contract_step_def : forall cfg x,
  contract_step cfg x =
  (negb (is_init cfg (t_state x)) &&
   negb (scores_raise cfg (t_state x) (length (f_dets (t_frame x)))) = true ->
   matcher_contract cfg (f_matrix (t_frame x)) (length (f_dets (t_frame x)))
                    (length (cur (t_state x))) (f_answer (t_frame x))).
Proof. reflexivity. Qed.
Print Assumptions contract_step_def.

(* the call returns, and every detection above the threshold is in the result with a track *)
Lemma ok_complete_def : forall x,
  ok_complete x =
  (exists out, t_out x = Ok out /\
     forall u, In (u, true) (f_dets (t_frame x)) -> exists t, In (u, Some t) out).
Proof. reflexivity. Qed.
Print Assumptions ok_complete_def.

(* no F4 defect fires at this call: get_scores does not raise, the matcher
   answers, and (unless repaired) the answer is not "only index 0" [F4 i] and
   leaves no detection unmatched under local queues [F4 ii] *)
Lemma no_defect_fires_def : forall cfg x,
  no_defect_fires cfg x =
  (is_init cfg (t_state x) = false ->
   scores_raise cfg (t_state x) (length (f_dets (t_frame x))) = false /\
   exists p, f_answer (t_frame x) = APairs p /\
     (fix_i cfg = true \/ sel_F4i p = false) /\
     (fix_ii cfg = true \/ sel_F4ii cfg (length (f_dets (t_frame x))) p = false)).
Proof. reflexivity. Qed.
Print Assumptions no_defect_fires_def.

(* only for the repaired Hungarian matcher: some cell of a non-empty matrix is finite *)
Lemma finite_step_def : forall cfg x,
  finite_step cfg x =
  (answer_used cfg (t_state x) (t_frame x) = true -> greedy cfg = false -> fix_iii cfg = true ->
   let M := f_matrix (t_frame x) in
   let n := length (f_dets (t_frame x)) in let m := length (cur (t_state x)) in
   0 < n -> 0 < m -> exists r c, r < n /\ c < m /\ cell M r c <> None).
Proof. reflexivity. Qed.
Print Assumptions finite_step_def.

Lemma tracks_ok_def : forall cfg x,
  tracks_ok cfg x =
  (let st := t_state x in
   let st' := fst (step cfg st (t_frame x)) in
   cur st = seq 0 (length (cur st)) /\
   (exists k, cur st' = cur st ++ seq (length (cur st)) k) /\
   NoDup (cur st') /\
   forall out, t_out x = Ok out -> NoDup (tracks_of out) /\ incl (tracks_of out) (cur st')).
Proof. reflexivity. Qed.
Print Assumptions tracks_ok_def.

Lemma run_is_trace : forall cfg h, run cfg h = map t_out (trace cfg init h).
Proof. intros; apply run_trace. Qed.
Print Assumptions run_is_trace.

(* --- (a) never invented, never duplicated -------------------------------- *)

(* For every configuration, every history and ANY matrices and answers
   whatsoever: what a call returns is a sub-list of the detections it was
   given, without repetition. *)
Theorem c09_outputs_subset_nodup : forall cfg h x out,
  In x (trace cfg init h) -> t_out x = Ok out ->
  incl (uids_of out) (uids (f_dets (t_frame x))) /\
  (NoDup (uids (f_dets (t_frame x))) -> NoDup (uids_of out)).
Proof. exact outputs_subset_nodup. Qed.
Print Assumptions c09_outputs_subset_nodup.

(* --- (b) no two detections of a frame share a track; ids are fresh ------- *)

(* For every configuration and history whose matcher answers satisfy the
   contract: current_tracks is always [0..n), only grows by appending ids it
   does not contain (ids are never reused), the tracks returned for one frame
   are pairwise distinct and are current tracks.  Proved by induction over the
   history with the invariant `Inv`. *)
Theorem c09_distinct_tracks_fresh_ids : forall cfg h,
  Forall (contract_step cfg) (trace cfg init h) -> Forall (tracks_ok cfg) (trace cfg init h).
Proof. exact distinct_tracks_fresh_ids. Qed.
Print Assumptions c09_distinct_tracks_fresh_ids.

(* --- (c) completeness and (d) no exception ------------------------------- *)

(* PINNED tree (historic: fix_i = fix_ii = fix_iii = false, before 0429c9b /
   7f6adbc / 141de51; no code implements it any more): refuted.  A lone animal
   loses its track from the second frame on (dropped by the fixed window,
   returned without track by local queues); both candidate methods. *)
Theorem c09_completeness_refuted : forall l,
  let cfg := cfg_now l false 3 false in
  Forall (contract_step cfg) (trace cfg init wit_one_animal) /\
  ~ Forall ok_complete (trace cfg init wit_one_animal).
Proof. exact completeness_refuted_now. Qed.
Print Assumptions c09_completeness_refuted.

(* local queues: a third animal appears -> TypeError *)
Theorem c09_no_exception_refuted_type_error :
  let cfg := cfg_now true false 3 false in
  Forall (contract_step cfg) (trace cfg init wit_third_appears) /\
  In (Raise TypeErr) (run cfg wit_third_appears).
Proof. exact type_error_refuted_now. Qed.
Print Assumptions c09_no_exception_refuted_type_error.

(* fixed window + Hungarian: a track without candidate -> infeasible -> ValueError *)
Theorem c09_no_exception_refuted_value_error :
  let cfg := cfg_now false false 1 false in
  Forall (contract_step cfg) (trace cfg init wit_stale_track) /\
  In (Raise ValueErr) (run cfg wit_stale_track).
Proof. exact value_error_refuted_now. Qed.
Print Assumptions c09_no_exception_refuted_value_error.

(* ANY setting of the switches: if no F4 selector fires along the run, every
   call returns and is complete, and the run has the length of the history
   (no exception).  The hypothesis is exactly the complement of the selectors
   the harness uses. *)
Theorem c09_complete_no_raise_partial : forall cfg h,
  Forall (contract_step cfg) (trace cfg init h) ->
  Forall (finite_step cfg) (trace cfg init h) ->
  Forall (no_defect_fires cfg) (trace cfg init h) ->
  Forall ok_complete (trace cfg init h) /\ length (run cfg h) = length h.
Proof. exact complete_no_raise_general. Qed.
Print Assumptions c09_complete_no_raise_partial.

(* fix_i and fix_ii applied: the only remaining hypothesis is that no
   ValueError of F4(iii) occurs *)
Theorem c09_complete_no_raise_fix_i_ii : forall cfg h, fix_i cfg = true -> fix_ii cfg = true ->
  Forall (contract_step cfg) (trace cfg init h) ->
  Forall (finite_step cfg) (trace cfg init h) ->
  Forall (no_value_error cfg) (trace cfg init h) ->
  Forall ok_complete (trace cfg init h) /\ length (run cfg h) = length h.
Proof. exact complete_no_raise_fix_i_ii. Qed.
Print Assumptions c09_complete_no_raise_fix_i_ii.

(* F4 i-iii repaired, F4iv NOT (the tree between 141de51 and afd312c; `step`'s
   no-pair branch is the one before afd312c): every call of every history
   returns, complete, provided the repaired Hungarian matcher never sees an
   all-NaN matrix (`finite_step` = complement of F4iv's selector).  It speaks
   about the CURRENT tree through `c09x_round1_carries_over` below; the statement
   without `finite_step` is `c09x_repaired_full_any_matcher`. *)
Theorem c09_complete_no_raise_repaired : forall cfg h, repaired cfg ->
  Forall (contract_step cfg) (trace cfg init h) ->
  Forall (finite_step cfg) (trace cfg init h) ->
  Forall ok_complete (trace cfg init h) /\ length (run cfg h) = length h.
Proof. exact complete_no_raise_repaired. Qed.
Print Assumptions c09_complete_no_raise_repaired.

(* ======================================================================== *)
(* ROUND 2 — the widened model C09/TrackerX.v: `max_tracks`, the name checks of
   get_features / get_scores / assign_tracks, FlowShiftTracker (same state
   machine; its score matrices may be NaN everywhere), and the two findings
   this uncovered:
     F4cap  local queues + max_tracks: Exception("Exceeding max tracks") escapes
            from Tracker.track (and max_tracks + 1 tracks can exist);
     F4iv   the matcher returns no pair on a non-empty matrix (every score NaN):
            update_tracks does nothing, detections dropped / without track.
   xconfig = (base config, max_tracks, fix_cap, fix_iv, four name-validity
   flags); `x_now` = the tree before 6da44fb / afd312c (historic), `x_rep` = the
   CURRENT tree (both repairs are in /repo). *)

(* the widened model restricted to round 1's configuration space (fix_iv =
   false: historic) IS round 1's model; for the current configuration see
   `c09x_step_conservative_any_fix` / `c09x_round1_carries_over` below *)
Theorem c09x_widened_model_conservative : forall cfg h,
  Forall (contract_step cfg) (trace cfg init h) ->
  xtrace (xplain cfg) init h = trace cfg init h /\ xrun (xplain cfg) h = run cfg h.
Proof. exact xrun_plain. Qed.
Print Assumptions c09x_widened_model_conservative.

(* (a) for EVERY widened configuration, history, matrices and answers: what a
   call returns is a sub-list of what it was given, without repetition *)
Theorem c09x_outputs_subset_nodup : forall X h x out,
  In x (xtrace X init h) -> t_out x = Ok out ->
  incl (uids_of out) (uids (f_dets (t_frame x))) /\
  (NoDup (uids (f_dets (t_frame x))) -> NoDup (uids_of out)).
Proof. exact xoutputs_subset_nodup. Qed.
Print Assumptions c09x_outputs_subset_nodup.

(* --- definitions restated ------------------------------------------------- *)

Lemma cap_of_def : forall X, cap_of X = if lq (base X) then max_tr X else None.
Proof. reflexivity. Qed.
Print Assumptions cap_of_def.

(* selector of F4cap at a call: the call needs `need` > 0 new tracks and
   current_tracks would grow beyond max_tracks + 1 *)
Lemma sel_cap_def : forall X st f,
  sel_cap X st f =
  (negb (fix_cap X) &&
   match cap_of X with
   | Some k => (0 <? need X st f) && (k + 1 <? length (cur st) + need X st f)
   | None => false
   end).
Proof. reflexivity. Qed.
Print Assumptions sel_cap_def.

Lemma cap_silent_def : forall X x, cap_silent X x = (sel_cap X (t_state x) (t_frame x) = false).
Proof. reflexivity. Qed.
Print Assumptions cap_silent_def.

Lemma cap_asis_or_none_def : forall X, cap_asis_or_none X = (cap_of X = None \/ fix_cap X = false).
Proof. reflexivity. Qed.
Print Assumptions cap_asis_or_none_def.

Lemma xrepaired_def : forall X,
  xrepaired X = (names_ok X = true /\ repaired (base X) /\ fix_cap X = true /\ fix_iv X = true).
Proof. reflexivity. Qed.
Print Assumptions xrepaired_def.

Lemma cap_inv_def : forall X m, cap_inv X m = (forall K, cap_of X = Some K -> m <= K).
Proof. reflexivity. Qed.
Print Assumptions cap_inv_def.

Lemma cap_full_def : forall X m, cap_full X m = (exists K, cap_of X = Some K /\ K <= m).
Proof. reflexivity. Qed.
Print Assumptions cap_full_def.

(* what a call of the repaired tracker guarantees: current_tracks = [0..m) grows
   by fresh ids and never beyond max_tracks; the call returns; the returned
   tracks are pairwise distinct current tracks; every detection above the
   threshold is returned — with a track, or, only if max_tracks tracks exist
   after the call, without one *)
Lemma xok_def : forall X x,
  xok X x =
  (let st := t_state x in
   let st' := fst (xstep X st (t_frame x)) in
   cur st = seq 0 (length (cur st)) /\
   (exists k, cur st' = cur st ++ seq (length (cur st)) k) /\
   cap_inv X (length (cur st')) /\
   exists out, t_out x = Ok out /\
     NoDup (tracks_of out) /\ incl (tracks_of out) (cur st') /\
     forall u, In (u, true) (f_dets (t_frame x)) ->
       (exists t, In (u, Some t) out) \/
       (cap_full X (length (cur st')) /\ exists o, In (u, o) out)).
Proof. reflexivity. Qed.
Print Assumptions xok_def.

(* --- HISTORIC tree (before 6da44fb / afd312c): every theorem of this section
   assumes fix_iv X = false and/or fix_cap X = false, which no code implements
   any more; they document the two defects F4cap / F4iv and their exact
   selectors, and keep the check able to report a regression -------------- *)

(* F4cap: local queues, max_tracks = 1, three detections in the first frame:
   Exception; every matcher, window, reduction *)
Theorem c09x_no_exception_refuted_max_tracks : forall g w r,
  let X := x_now (cfg_rep true g w r) (Some 1) in
  Forall (contract_step (base X)) (xtrace X init wit_cap) /\
  Forall (finite_step (base X)) (xtrace X init wit_cap) /\
  In (Raise ExcErr) (xrun X wit_cap).
Proof. exact cap_refuted_now. Qed.
Print Assumptions c09x_no_exception_refuted_max_tracks.

(* F4iv: one animal, then a frame whose only score is NaN; the Hungarian
   contract (repaired matcher) holds for the empty answer; the detection is
   dropped (fixed window) / returned without a track (local queues) *)
Theorem c09x_completeness_refuted_all_nan : forall l r,
  let X := x_now (cfg_rep l false 3 r) None in
  Forall (contract_step (base X)) (xtrace X init wit_all_nan) /\
  Forall (cap_silent X) (xtrace X init wit_all_nan) /\
  ~ Forall ok_complete (xtrace X init wit_all_nan).
Proof. exact all_nan_refuted_now. Qed.
Print Assumptions c09x_completeness_refuted_all_nan.

(* the strongest true statement on the historic tree: valid names, F4 i-iii
   repaired, ANY max_tracks, every history: if neither selector fires —
   `finite_step` = not every cell of a non-empty matrix given to the Hungarian
   matcher is NaN [F4iv], `cap_silent` = no call needs an id > max_tracks
   [F4cap] — every call returns and is complete *)
Theorem c09x_complete_no_raise_partial : forall X h,
  names_ok X = true -> fix_iv X = false -> cap_asis_or_none X -> repaired (base X) ->
  Forall (contract_step (base X)) (xtrace X init h) ->
  Forall (finite_step (base X)) (xtrace X init h) ->
  Forall (cap_silent X) (xtrace X init h) ->
  Forall ok_complete (xtrace X init h) /\ length (xrun X h) = length h.
Proof. exact xcomplete_no_raise_partial. Qed.
Print Assumptions c09x_complete_no_raise_partial.

(* clause (b) on the historic tree, for every max_tracks and history, with NO
   selector hypothesis: every executed call either raises "Exceeding max
   tracks" or satisfies `tracks_ok` (current_tracks = [0..m) grows by fresh ids,
   returned tracks pairwise distinct current tracks) *)
Theorem c09x_distinct_tracks_fresh_ids : forall X h,
  names_ok X = true -> fix_iv X = false -> cap_asis_or_none X ->
  Forall (contract_step (base X)) (xtrace X init h) ->
  Forall (fun x => t_out x = Raise ExcErr \/ tracks_ok (base X) x) (xtrace X init h).
Proof. exact xdistinct_tracks_asis. Qed.
Print Assumptions c09x_distinct_tracks_fresh_ids.

(* the two selectors are EXACT on the historic tree (valid names, F4 i-iii
   repaired): a call raises "Exceeding max tracks" iff `sel_cap` fires, and —
   where it does not — the call is complete iff `sel_iv` does not fire (the
   matcher answered "no pair" although a detection is above the threshold) *)
Theorem c09x_selector_max_tracks_exact : forall X st f m,
  names_ok X = true -> fix_iv X = false -> fix_cap X = false -> repaired (base X) -> cur st = seq 0 m ->
  (sel_cap X st f = true <-> xstep X st f = (st, Raise ExcErr)).
Proof. exact sel_cap_exact. Qed.
Print Assumptions c09x_selector_max_tracks_exact.

Lemma sel_iv_def : forall X st f,
  sel_iv X st f =
  (negb (fix_iv X) && negb (is_init (base X) st) &&
   negb (scores_raise (base X) st (length (f_dets f))) &&
   match f_answer f with APairs [] => existsb snd (f_dets f) | _ => false end).
Proof. reflexivity. Qed.
Print Assumptions sel_iv_def.

Theorem c09x_selector_no_pair_exact : forall X st f,
  names_ok X = true -> fix_iv X = false -> cap_asis_or_none X -> repaired (base X) ->
  Inv (base X) st -> sel_cap X st f = false ->
  contract_step (base X) (st, f, snd (xstep X st f)) ->
  (sel_iv X st f = false <-> ok_complete (st, f, snd (xstep X st f))).
Proof. exact sel_iv_exact. Qed.
Print Assumptions c09x_selector_no_pair_exact.

(* non-vacuity of the partial theorem with a cap that is reached but not exceeded *)
Example ex_cap_reached_not_exceeded : forall g w r,
  xrun (x_now (cfg_rep true g w r) (Some 1)) [ ([(10, true); (11, true)], [], AFail) ]
  = [Ok [(10, Some 0); (11, Some 1)]].
Proof. exact wit_cap_off_by_one. Qed.

(* --- CURRENT tree (all five repairs): the full statement ---------------- *)

(* hypothesis at an executed call: if the matcher was consulted it returned an
   answer and the answer is a one-to-one assignment inside the matrix — nothing
   about optimality or greediness *)
Lemma valid_ans_def : forall X x,
  valid_ans X x =
  (is_init (base X) (t_state x) = false ->
   exists p, f_answer (t_frame x) = APairs p /\
             matching (length (f_dets (t_frame x))) (length (cur (t_state x))) p).
Proof. reflexivity. Qed.
Print Assumptions valid_ans_def.

(* ... and it is exactly the boolean `TrackerX.valid_ansb` that the harness
   evaluates inside Coq on every recorded call (xstep_checks, index 10) *)
Theorem c09x_valid_ans_is_checked : forall X st f o,
  valid_ansb X st f = true <-> valid_ans X (st, f, o).
Proof. exact valid_ansb_spec. Qed.
Print Assumptions c09x_valid_ans_is_checked.

(* OPERATIVE: every call returns and satisfies `xok` (fresh ids, |cur| <=
   max_tracks, distinct tracks, every above-threshold detection returned, without
   a track only if max_tracks tracks exist) for ANY matcher answering one-to-one
   assignments *)
Theorem c09x_repaired_full_any_matcher : forall X h, xrepaired X ->
  Forall (valid_ans X) (xtrace X init h) ->
  Forall (xok X) (xtrace X init h) /\ length (xrun X h) = length h.
Proof. exact xrepaired_full_any_matcher. Qed.
Print Assumptions c09x_repaired_full_any_matcher.

(* corollary: under the matchers' contracts (optimal finite assignment / greedy run) *)
Theorem c09x_repaired_full : forall X h, xrepaired X ->
  Forall (contract_step (base X)) (xtrace X init h) ->
  Forall (xok X) (xtrace X init h) /\ length (xrun X h) = length h.
Proof. exact xrepaired_full_contract. Qed.
Print Assumptions c09x_repaired_full.

Theorem c09x_repaired_full_any_matcher_no_cap : forall X h, xrepaired X -> cap_of X = None ->
  Forall (valid_ans X) (xtrace X init h) ->
  Forall ok_complete (xtrace X init h) /\ length (xrun X h) = length h.
Proof. exact xrepaired_full_any_matcher_nocap. Qed.
Print Assumptions c09x_repaired_full_any_matcher_no_cap.

(* "exactly once" as one statement: (a) + (c) *)
Theorem c09x_repaired_exactly_once : forall X h x, xrepaired X ->
  Forall (valid_ans X) (xtrace X init h) -> In x (xtrace X init h) ->
  NoDup (uids (f_dets (t_frame x))) ->
  exists out, t_out x = Ok out /\
    forall u, In (u, true) (f_dets (t_frame x)) -> count_occ Nat.eq_dec (uids_of out) u = 1.
Proof. exact xrepaired_exactly_once. Qed.
Print Assumptions c09x_repaired_exactly_once.

(* non-vacuity on calls where the matcher returns pairs: greedy, local queues,
   max_tracks 2 binding (a third animal stays track-less) ... *)
Example ex_rep_hyp_greedy_cap :
  let X := x_rep (cfg_rep true true 3 false) (Some 2) in
  xrun X wit_third_appears
    = [Ok [(10, Some 0); (11, Some 1)]; Ok [(20, Some 0); (21, Some 1); (22, None)]] /\
  Forall (contract_step (base X)) (xtrace X init wit_third_appears) /\
  Forall (valid_ans X) (xtrace X init wit_third_appears).
Proof. exact (conj ex_greedy_cap_run (conj ex_greedy_cap_contract ex_greedy_cap_valid)). Qed.

(* ... and the repaired Hungarian contract, both candidate methods *)
Example ex_rep_hyp_hungarian : forall l,
  let X := x_rep (cfg_rep l false 3 false) None in
  xrun X wit_one_animal = [Ok [(10, Some 0)]; Ok [(20, Some 0)]; Ok [(30, Some 0)]] /\
  Forall (contract_step (base X)) (xtrace X init wit_one_animal).
Proof. exact ex_hungarian_rep_contract. Qed.

Theorem c09x_repaired_full_no_cap : forall X h, xrepaired X -> cap_of X = None ->
  Forall (contract_step (base X)) (xtrace X init h) ->
  Forall ok_complete (xtrace X init h) /\ length (xrun X h) = length h.
Proof. exact xrepaired_full_nocap. Qed.
Print Assumptions c09x_repaired_full_no_cap.

Example ex_cap_repaired : forall g w r,
  xrun (x_rep (cfg_rep true g w r) (Some 1)) wit_cap = [Ok [(10, Some 0); (11, None); (12, None)]].
Proof. exact wit_cap_rep. Qed.

Example ex_all_nan_repaired : forall l r,
  xrun (x_rep (cfg_rep l false 3 r) None) wit_all_nan = [Ok [(10, Some 0)]; Ok [(20, Some 1)]].
Proof. exact wit_all_nan_rep. Qed.

(* --- round 1's model `Tracker.step` against the CURRENT configuration ----- *)

(* the branch afd312c added to update_tracks (no pair although a detection is
   above the threshold), and room under the cap, as predicates on a call *)
Lemma iv_branch_def : forall X st f,
  iv_branch X st f =
  (fix_iv X && negb (is_init (base X) st) &&
   negb (scores_raise (base X) st (length (f_dets f))) &&
   match f_answer f with
   | APairs p => negb (guard (base X) p) && existsb snd (f_dets f)
   | AFail => false
   end).
Proof. reflexivity. Qed.
Print Assumptions iv_branch_def.

Lemma cap_room_def : forall X x,
  cap_room X x =
  (forall K, cap_of X = Some K ->
     length (cur (t_state x)) + need X (t_state x) (t_frame x) <= K).
Proof. reflexivity. Qed.
Print Assumptions cap_room_def.

(* for ANY fix_cap / fix_iv: one call of the widened tracker IS one call of
   round 1's model unless afd312c's branch is taken or the cap is in the way *)
Theorem c09x_step_conservative_any_fix : forall X st f m,
  names_ok X = true -> cur st = seq 0 m ->
  (forall K, cap_of X = Some K -> m + need X st f <= K) ->
  iv_branch X st f = false ->
  xstep X st f = step (base X) st f.
Proof. exact xstep_room. Qed.
Print Assumptions c09x_step_conservative_any_fix.

(* hence round 1's theorems (about `trace (base X)`), under their own hypotheses
   contract + `finite_step`, speak about the widened tracker in every
   configuration with valid names and room under the cap — incl. `x_rep` *)
Theorem c09x_round1_carries_over : forall X h, names_ok X = true -> fix_i (base X) = true ->
  Forall (contract_step (base X)) (trace (base X) init h) ->
  Forall (finite_step (base X)) (trace (base X) init h) ->
  Forall (cap_room X) (trace (base X) init h) ->
  xtrace X init h = trace (base X) init h /\ xrun X h = run (base X) h.
Proof. exact round1_carries_over. Qed.
Print Assumptions c09x_round1_carries_over.

Theorem c09x_round1_complete_current : forall cfg mt h, repaired cfg -> cap_of (x_rep cfg mt) = None ->
  Forall (contract_step cfg) (trace cfg init h) ->
  Forall (finite_step cfg) (trace cfg init h) ->
  xrun (x_rep cfg mt) h = run cfg h /\
  Forall ok_complete (xtrace (x_rep cfg mt) init h) /\ length (xrun (x_rep cfg mt) h) = length h.
Proof. exact round1_complete_current. Qed.
Print Assumptions c09x_round1_complete_current.

(* the hypothesis is needed: on the all-NaN witness afd312c's branch is taken and
   the two models differ (round 1's drops the detection, the current code does not) *)
Example ex_iv_branch_differs : forall l r,
  let X := x_rep (cfg_rep l false 3 r) None in
  exists x, In x (xtrace X init wit_all_nan) /\ iv_branch X (t_state x) (t_frame x) = true /\
            xrun X wit_all_nan <> run (base X) wit_all_nan.
Proof. exact ex_iv_branch_taken. Qed.

(* --- names that are no key of the tracker's tables: ValueError ---------- *)

Theorem c09x_invalid_feature_raises : forall X st f,
  feat_ok X = false -> xstep X st f = (st, Raise ValueErr).
Proof. exact xinvalid_feature_raises. Qed.
Print Assumptions c09x_invalid_feature_raises.

Theorem c09x_invalid_scoring_raises : forall X st f,
  feat_ok X = true -> is_init (base X) st = false -> score_ok X && red_ok X = false ->
  xstep X st f = (st, Raise ValueErr).
Proof. exact xinvalid_scoring_raises. Qed.
Print Assumptions c09x_invalid_scoring_raises.

Theorem c09x_invalid_matching_raises : forall X st f,
  feat_ok X = true -> is_init (base X) st = false -> match_ok X = false ->
  snd (xstep X st f) = Raise ValueErr.
Proof. exact xinvalid_matching_raises. Qed.
Print Assumptions c09x_invalid_matching_raises.

(* --- round 6: the greedy matcher for ALL matrices (C09/GreedyAll.v) ------ *)

(* `greedy_runb` recognises exactly the runs utils.greedy_matching can return (ties
   free); `greedy_ref` is the executable reference (row-major among equal costs).
   Until round 5 "the reference is an admissible run" was sampled by the harness
   (check_matchers).  Now, for EVERY matrix (any shape, ragged rows, NaN cells) and
   every n, m: the reference IS an admissible greedy run ... *)
Theorem c09_greedy_reference_is_a_greedy_run_all_matrices : forall M n m,
  greedy_runb M n m [] [] (greedy_ref M n m) = true.
Proof. exact greedy_ref_is_run. Qed.
Print Assumptions c09_greedy_reference_is_a_greedy_run_all_matrices.

(* ... so the greedy contract (premise `contract_step` of the round-1 theorems and of
   C10) is satisfiable for every matrix ... *)
Theorem c09_greedy_contract_satisfiable_all_matrices : forall M n m,
  greedy_contract M n m (APairs (greedy_ref M n m)).
Proof. exact greedy_contract_satisfiable. Qed.
Print Assumptions c09_greedy_contract_satisfiable_all_matrices.

(* ... its answer is a one-to-one assignment inside the matrix, empty only when the
   matrix is (the booleans `validb`, `matchb` the harness evaluates) ... *)
Theorem c09_greedy_reference_answer_valid_all_matrices : forall M n m,
  matching n m (greedy_ref M n m) /\
  (greedy_ref M n m = [] -> n = 0 \/ m = 0) /\
  validb n m (greedy_ref M n m) = true /\ matchb n m (greedy_ref M n m) = true.
Proof. exact greedy_ref_matching. Qed.
Print Assumptions c09_greedy_reference_answer_valid_all_matrices.

(* ... and so is EVERY admissible run, whatever order numpy gave to equal costs. *)
Theorem c09_every_greedy_run_valid_all_matrices : forall M n m p,
  greedy_runb M n m [] [] p = true ->
  matching n m p /\ (p = [] -> n = 0 \/ m = 0) /\ validb n m p = true /\ matchb n m p = true.
Proof. exact greedy_run_valid. Qed.
Print Assumptions c09_every_greedy_run_valid_all_matrices.

(* The answer contract `valid_ans` (premise of c09x_repaired_full_any_matcher) at a call
   answered by the greedy model: for every configuration, state, detections, matrix. *)
Theorem c09x_greedy_answer_meets_valid_ans : forall X st ds M o p,
  greedy_runb M (length ds) (length (cur st)) [] [] p = true ->
  valid_ans X (st, (ds, M, APairs p), o).
Proof. exact greedy_answer_valid_ans. Qed.
Print Assumptions c09x_greedy_answer_meets_valid_ans.

Theorem c09x_greedy_reference_meets_valid_ans : forall X st ds M o,
  valid_ans X (st, (ds, M, APairs (greedy_ref M (length ds) (length (cur st)))), o) /\
  valid_ansb X st (ds, M, APairs (greedy_ref M (length ds) (length (cur st)))) = true.
Proof. exact greedy_ref_answer_valid_ans. Qed.
Print Assumptions c09x_greedy_reference_meets_valid_ans.

(* non-vacuity / shape: a ragged 3 x 2 matrix with a NaN column entry and a tie *)
Example ex_greedy_ref_ragged_nan_tie :
  greedy_ref [[Some 1%Q; None]; [Some 1%Q]; [None; Some (1#2)%Q]] 3 2 = [(0, 0); (2, 1)] /\
  greedy_runb [[Some 1%Q; None]; [Some 1%Q]; [None; Some (1#2)%Q]] 3 2 [] [] [(1, 0); (2, 1)] = true.
Proof. vm_compute. auto. Qed.

(* --- round 7: the brute-force Hungarian reference for ALL matrices (C09/HungarianAll.v) --- *)
From SV Require Import C09.HungarianAll.

(* `hungarian_contract false` is the contract the harness checks scipy's answers against
   (check_matchers: one-to-one, in range, no NaN/inf-cost pair, size min(n,m), total score
   not beaten by ANY such assignment; failure iff none exists) and `hungarian_ref` is the
   executable brute-force reference it compares with.  Until round 6 "the reference meets
   the contract" was sampled.  Now, for EVERY matrix (any shape, ragged rows, NaN cells)
   and every n, m: the reference's answer satisfies the contract — optimality is over ALL
   assignments `q` with `matching n m q`, `finite_on M q`, not only the enumerated ones. *)
Theorem c09_hungarian_reference_meets_contract_all_matrices : forall M n m,
  hungarian_contract false M n m (hungarian_ref M n m).
Proof. exact hungarian_ref_contract. Qed.
Print Assumptions c09_hungarian_reference_meets_contract_all_matrices.

(* spelled out: an answer is one of the enumerated assignments, one-to-one and inside the
   matrix, uses no NaN cell, has size min(n,m) and the largest total score (= least cost) *)
Theorem c09_hungarian_reference_answer_optimal_all_matrices : forall M n m p,
  hungarian_ref M n m = APairs p ->
  In p (full_matchings n m) /\ matching n m p /\ finite_on M p /\ length p = Nat.min n m /\
  forall q, matching n m q -> finite_on M q -> length q = length p -> (tot M q <= tot M p)%Q.
Proof. exact hungarian_ref_answer. Qed.
Print Assumptions c09_hungarian_reference_answer_optimal_all_matrices.

(* the reference fails EXACTLY when no all-finite assignment of size min(n,m) exists
   (scipy: "cost matrix is infeasible"); it answers whenever the block has no NaN *)
Theorem c09_hungarian_reference_fails_iff_infeasible : forall M n m,
  hungarian_ref M n m = AFail <->
  ~ exists q, matching n m q /\ finite_on M q /\ length q = Nat.min n m.
Proof. exact hungarian_ref_fails_iff. Qed.
Print Assumptions c09_hungarian_reference_fails_iff_infeasible.

Theorem c09_hungarian_reference_defined_on_finite : forall M n m,
  (forall r c, r < n -> c < m -> cell M r c <> None) -> hungarian_ref M n m <> AFail.
Proof. exact hungarian_ref_defined. Qed.
Print Assumptions c09_hungarian_reference_defined_on_finite.

(* whenever it answers, the answer also meets the contract of the REPAIRED
   hungarian_matching (fix_iii = true: largest all-finite assignment, optimal) *)
Theorem c09_hungarian_reference_answer_meets_repaired_contract : forall M n m p,
  hungarian_ref M n m = APairs p -> hungarian_contract true M n m (APairs p).
Proof. exact hungarian_ref_contract_repaired. Qed.
Print Assumptions c09_hungarian_reference_answer_meets_repaired_contract.

(* the booleans the harness evaluates on an answer *)
Theorem c09_hungarian_reference_answer_valid_all_matrices : forall M n m p,
  hungarian_ref M n m = APairs p ->
  matching n m p /\ (p = [] -> n = 0 \/ m = 0) /\ validb n m p = true /\ matchb n m p = true.
Proof. exact hungarian_ref_valid. Qed.
Print Assumptions c09_hungarian_reference_answer_valid_all_matrices.

(* The answer contract `valid_ans` (premise of c09x_repaired_full_any_matcher) at a call
   answered by the Hungarian reference: every configuration, state, detections, matrix.
   (The hypothesis is needed: on an infeasible matrix the reference — like scipy — fails,
   and `valid_ans` demands an answer; see c09_hungarian_reference_fails_iff_infeasible.) *)
Theorem c09x_hungarian_reference_meets_valid_ans : forall X st ds M o p,
  hungarian_ref M (length ds) (length (cur st)) = APairs p ->
  valid_ans X (st, (ds, M, APairs p), o) /\ valid_ansb X st (ds, M, APairs p) = true.
Proof. exact hungarian_ref_answer_valid_ans. Qed.
Print Assumptions c09x_hungarian_reference_meets_valid_ans.

(* non-vacuity / shape: a ragged 3 x 2 matrix with NaN cells and a tie (answer, and the
   theorem instantiated on a competitor outside the enumeration order); a 2 x 3 matrix;
   an infeasible 2 x 2 matrix (NaN column) where the reference fails; an empty matrix *)
Example ex_hungarian_ref_ragged_nan_tie :
  let M := [[Some 1%Q; None]; [Some 1%Q]; [None; Some (1#2)%Q]] in
  hungarian_ref M 3 2 = APairs [(0, 0); (2, 1)] /\
  Qle (tot M [(2, 1); (1, 0)]) (tot M [(0, 0); (2, 1)]) /\
  hungarian_ref [[Some 1%Q; None; Some 3%Q]; [Some 2%Q; Some (1#2)%Q]] 2 3 = APairs [(0, 2); (1, 0)] /\
  hungarian_ref [[None; Some 1%Q]; [None; Some 1%Q]] 2 2 = AFail /\
  hungarian_ref [] 0 3 = APairs [].
Proof.
  intros M. split; [vm_compute; reflexivity|]. split.
  - assert (E : hungarian_ref M 3 2 = APairs [(0, 0); (2, 1)]) by (vm_compute; reflexivity).
    destruct (c09_hungarian_reference_answer_optimal_all_matrices M 3 2 _ E) as (_ & _ & _ & _ & Opt).
    apply Opt; [| |reflexivity].
    + apply matchb_matching. vm_compute. reflexivity.
    + intros r c [H|[H|[]]]; inversion H; subst; vm_compute; discriminate.
  - repeat split; vm_compute; reflexivity.
Qed.
