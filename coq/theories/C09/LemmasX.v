(* LemmasX.v (C09, round 2) — proofs about the widened model C09/TrackerX.v. *)
From Coq Require Import List Arith Bool ZArith QArith Lia.
Import ListNotations.
From SV Require Import C09.Tracker C09.Lemmas C09.TrackerX.
Close Scope Q_scope.
Open Scope nat_scope.

(* ====================================================================== *)
(* add_new_x against add_new *)

Lemma add_new_x_nocap : forall X, cap_of X = None ->
  forall want tids c, add_new_x X want tids c = Some (add_new want tids c).
Proof.
  intros X Hc. induction want as [|w want IH]; intros tids c; [reflexivity|].
  destruct tids as [|t tids]; [reflexivity|].
  simpl. unfold new_id_x, cap_allows. rewrite Hc.
  destruct w.
  - assert (E : match c with [] => Some (new_id c) | _ :: _ => Some (new_id c) end = Some (new_id c))
      by (destruct c; reflexivity).
    rewrite E. rewrite IH. destruct (add_new want tids (c ++ [new_id c])). reflexivity.
  - rewrite IH. destruct (add_new want tids c). reflexivity.
Qed.

Lemma new_id_x_seq_asis : forall X k m, cap_of X = Some k -> fix_cap X = false ->
  new_id_x X (seq 0 m) = if (0 <? m) && (k <? m) then None else Some m.
Proof.
  intros X k m Hc Hf. unfold new_id_x. rewrite Hc, Hf, new_id_seq.
  destruct m; reflexivity.
Qed.

Lemma bool_case : forall b : bool, b = true \/ b = false.
Proof. destruct b; auto. Qed.

Lemma add_new_x_asis : forall X k, cap_of X = Some k -> fix_cap X = false ->
  forall want tids m,
  add_new_x X want tids (seq 0 m) =
  if (0 <? cnt want tids) && (k + 1 <? m + cnt want tids) then None
  else Some (add_new want tids (seq 0 m)).
Proof.
  intros X k Hc Hf. induction want as [|w want IH]; intros tids m; [reflexivity|].
  destruct tids as [|t tids]; [reflexivity|].
  destruct w.
  - cbn [add_new_x add_new cnt]. rewrite (new_id_x_seq_asis X k m Hc Hf), new_id_seq.
    unfold cap_allows. rewrite Hc, Hf. cbn [negb orb].
    destruct ((0 <? m) && (k <? m)) eqn:E1.
    + apply andb_true_iff in E1. destruct E1 as [A B].
      apply Nat.ltb_lt in A. apply Nat.ltb_lt in B.
      assert (C1 : (0 <? 1 + cnt want tids) = true) by (apply Nat.ltb_lt; lia).
      assert (C2 : (k + 1 <? m + (1 + cnt want tids)) = true) by (apply Nat.ltb_lt; lia).
      rewrite C1, C2. reflexivity.
    + rewrite seq_snoc, IH.
      assert (C : ((0 <? 1 + cnt want tids) && (k + 1 <? m + (1 + cnt want tids))) =
                  ((0 <? cnt want tids) && (k + 1 <? S m + cnt want tids))).
      { apply andb_false_iff in E1.
        destruct (Nat.ltb_spec 0 (cnt want tids)); destruct (Nat.ltb_spec (k + 1) (S m + cnt want tids));
          destruct (Nat.ltb_spec (k + 1) (m + (1 + cnt want tids))); cbn; try reflexivity; try lia.
        destruct E1 as [E1|E1]; apply Nat.ltb_ge in E1; lia. }
      rewrite C.
      destruct ((0 <? cnt want tids) && (k + 1 <? S m + cnt want tids)); [reflexivity|].
      destruct (add_new want tids (seq 0 (S m))). reflexivity.
  - cbn [add_new_x add_new cnt]. rewrite IH. cbn [Nat.add].
    destruct ((0 <? cnt want tids) && (k + 1 <? m + cnt want tids)); [reflexivity|].
    destruct (add_new want tids (seq 0 m)). reflexivity.
Qed.

Lemma cnt_count_true : forall want tids, length want = length tids ->
  cnt want tids = count_true want.
Proof.
  induction want as [|w want IH]; intros [|t tids] L; simpl in *; try discriminate; auto.
  unfold count_true in *. destruct w; simpl; rewrite IH by lia; reflexivity.
Qed.

(* no exception at a site of add_new_tracks *)
Definition site_silent (X : xconfig) (m : nat) (want : list bool) : Prop :=
  cap_of X = None \/
  (fix_cap X = false /\ exists k, cap_of X = Some k /\
     (0 <? count_true want) && (k + 1 <? m + count_true want) = false).

Lemma add_new_x_silent : forall X m want tids, length want = length tids ->
  site_silent X m want ->
  add_new_x X want tids (seq 0 m) = Some (add_new want tids (seq 0 m)).
Proof.
  intros X m want tids L [H|(Hf & k & Hc & E)].
  - apply add_new_x_nocap; auto.
  - rewrite (add_new_x_asis X k Hc Hf), (cnt_count_true _ _ L), E. reflexivity.
Qed.

Lemma want_lq_length : forall ds rows, length (want_lq ds rows) = length ds.
Proof.
  intros. unfold want_lq. rewrite map_length, combine_length, seq_length. lia.
Qed.

Lemma want_fw_length : forall ds tids, length tids = length ds -> length (want_fw ds tids) = length ds.
Proof.
  intros. unfold want_fw. rewrite map_length, combine_length. lia.
Qed.

(* ====================================================================== *)
(* xstep IS step when the names are valid, fix_iv is off and the cap does not
   fire at this call *)

Lemma names_ok_split : forall X, names_ok X = true ->
  feat_ok X = true /\ score_ok X = true /\ red_ok X = true /\ match_ok X = true.
Proof.
  intros X H. unfold names_ok in H. repeat (apply andb_true_iff in H; destruct H as [H ?]). auto.
Qed.

Definition cap_asis_or_none (X : xconfig) : Prop := cap_of X = None \/ fix_cap X = false.

Lemma sel_cap_site : forall X st f m want,
  cap_asis_or_none X -> cur st = seq 0 m -> sel_cap X st f = false ->
  need X st f = count_true want -> site_silent X m want.
Proof.
  intros X st f m want [Hn|Hf] Hc Hs Hneed; [left; auto|].
  destruct (cap_of X) as [k|] eqn:Ek; [|left; auto].
  right. split; auto. exists k. split; auto.
  unfold sel_cap in Hs. rewrite Hf, Ek, Hneed, Hc, seq_length in Hs. exact Hs.
Qed.

Lemma xstep_silent : forall X st f m,
  names_ok X = true -> fix_iv X = false -> cap_asis_or_none X ->
  cur st = seq 0 m -> sel_cap X st f = false ->
  xstep X st f = step (base X) st f.
Proof.
  intros X st [[ds M] ans] m Hn Hiv Hcap Hc Hs.
  destruct (names_ok_split X Hn) as (N1 & N2 & N3 & N4).
  pose proof (sel_cap_site X st (ds, M, ans) m) as Site.
  specialize (fun want => Site want Hcap Hc Hs).
  unfold xstep, step. rewrite N1, N2, N3, N4, Hiv. cbn [negb andb].
  set (n := length ds). set (none := repeat (@None nat) n).
  assert (Ln : length none = n) by (subst none; apply repeat_length).
  destruct (is_init (base X) st) eqn:Ei.
  - (* first frame *)
    rewrite Hc.
    rewrite add_new_x_silent.
    + destruct (add_new _ none (seq 0 m)) as [tids c']. reflexivity.
    + destruct (lq (base X)); [rewrite map_length; auto | rewrite want_fw_length; auto].
    + apply Site. unfold need. rewrite Ei. reflexivity.
  - destruct (scores_raise (base X) st n); [reflexivity|].
    destruct ans as [|p]; [reflexivity|].
    destruct (guard (base X) p) eqn:Eg; [|reflexivity].
    destruct (lq (base X)) eqn:El.
    + destruct (fix_ii (base X)); [|reflexivity].
      rewrite Hc. rewrite add_new_x_silent.
      * destruct (add_new _ _ (seq 0 m)) as [tids c']. reflexivity.
      * rewrite want_lq_length, assign_length. auto.
      * apply Site. unfold need. rewrite Ei, Eg, El. reflexivity.
    + destruct (unmatched n p) eqn:Eu; [reflexivity|].
      rewrite Hc. rewrite add_new_x_silent.
      * destruct (add_new _ _ (seq 0 m)) as [tids c']. reflexivity.
      * rewrite want_fw_length; rewrite assign_length; auto.
      * apply Site. unfold need. rewrite Ei, Eg, El. reflexivity.
Qed.

(* the configuration space of Tracker.v *)
Lemma xstep_plain : forall cfg st f, Inv cfg st -> xstep (xplain cfg) st f = step cfg st f.
Proof.
  intros cfg st f [Hc _].
  apply (xstep_silent (xplain cfg) st f (length (cur st))); auto.
  - left. unfold cap_of. simpl. destruct (lq cfg); reflexivity.
  - unfold sel_cap, cap_of. simpl. destruct (lq cfg); reflexivity.
Qed.

(* ====================================================================== *)
(* histories of the widened model *)

Lemma xrun_trace : forall X h st, xrun_from X st h = map t_out (xtrace X st h).
Proof.
  induction h as [|f r IH]; intros st; simpl; auto.
  destruct (xstep X st f) as [st' o] eqn:E. simpl. unfold t_out at 1. simpl.
  f_equal. destruct o; auto.
Qed.

Lemma xtrace_In_step : forall X h st x, In x (xtrace X st h) ->
  t_out x = snd (xstep X (t_state x) (t_frame x)).
Proof.
  induction h as [|f r IH]; intros st x H; simpl in H; [destruct H|].
  destruct H as [H|H]; [subst x; reflexivity|].
  destruct (snd (xstep X st f)); [eapply IH; eauto | destruct H].
Qed.

Definition cap_silent (X : xconfig) (x : state * frame * outcome) : Prop :=
  sel_cap X (t_state x) (t_frame x) = false.

Lemma xtrace_eq_trace : forall X,
  names_ok X = true -> fix_iv X = false -> cap_asis_or_none X ->
  forall h st, Inv (base X) st ->
  Forall (contract_step (base X)) (xtrace X st h) -> Forall (cap_silent X) (xtrace X st h) ->
  xtrace X st h = trace (base X) st h.
Proof.
  intros X Hn Hiv Hcap. induction h as [|f r IH]; intros st Hi HC HS; simpl in *; auto.
  inversion HC as [|? ? C0 CR]; subst. inversion HS as [|? ? S0 SR]; subst.
  assert (E : xstep X st f = step (base X) st f).
  { destruct Hi as [Hc _]. eapply xstep_silent; eauto. }
  rewrite E in *. f_equal.
  destruct (snd (step (base X) st f)) eqn:Eo; auto.
  apply IH; auto.
  pose proof (step_spec (base X) st f Hi (contract_valid _ _ _ _ C0)) as (I1 & _). exact I1.
Qed.

(* the widened model restricted to Tracker.v's configuration space is Tracker.v's model *)
Theorem xrun_plain : forall cfg h,
  Forall (contract_step cfg) (trace cfg init h) ->
  xtrace (xplain cfg) init h = trace cfg init h /\ xrun (xplain cfg) h = run cfg h.
Proof.
  intros cfg h HC.
  assert (E : forall h st, Inv cfg st -> Forall (contract_step cfg) (trace cfg st h) ->
                           xtrace (xplain cfg) st h = trace cfg st h).
  { clear. induction h as [|f r IH]; intros st Hi HC; simpl in *; auto.
    inversion HC as [|? ? C0 CR]; subst.
    rewrite (xstep_plain cfg st f Hi). f_equal.
    destruct (snd (step cfg st f)) eqn:Eo; auto.
    apply IH; auto.
    pose proof (step_spec cfg st f Hi (contract_valid _ _ _ _ C0)) as (I1 & _). exact I1. }
  split; [apply E; auto; apply Inv_init|].
  unfold xrun, run. rewrite xrun_trace, run_trace, E; auto. apply Inv_init.
Qed.

(* --- historic tree (before 6da44fb / afd312c), beside the two selectors: complete, no exception --- *)

Theorem xcomplete_no_raise_partial : forall X h,
  names_ok X = true -> fix_iv X = false -> cap_asis_or_none X -> repaired (base X) ->
  Forall (contract_step (base X)) (xtrace X init h) ->
  Forall (finite_step (base X)) (xtrace X init h) ->
  Forall (cap_silent X) (xtrace X init h) ->
  Forall ok_complete (xtrace X init h) /\ length (xrun X h) = length h.
Proof.
  intros X h Hn Hiv Hcap R HC HF HS.
  pose proof (xtrace_eq_trace X Hn Hiv Hcap h init (Inv_init _) HC HS) as E.
  unfold xrun. rewrite xrun_trace. rewrite E in *.
  rewrite <- run_trace. apply complete_no_raise_repaired; auto.
Qed.

(* --- outputs are sub-lists of the inputs, for EVERY widened configuration --- *)

Lemma xstep_shape : forall X st f out, snd (xstep X st f) = Ok out ->
  exists tids, out = output (base X) (f_dets f) tids.
Proof.
  intros X st [[ds M] ans] out. unfold xstep, f_dets. simpl fst.
  set (fresh := match add_new_x X _ _ (cur st) with None => _ | Some _ => _ end).
  assert (HF : snd fresh = Ok out -> exists tids, out = output (base X) ds tids).
  { subst fresh. destruct (add_new_x X _ _ (cur st)) as [[tids c']|]; simpl; [|discriminate].
    intros H; inversion H; eauto. }
  clearbody fresh.
  destruct (negb (feat_ok X)); [simpl; discriminate|].
  destruct (is_init (base X) st); [exact HF|].
  destruct (negb (score_ok X && red_ok X)); [simpl; discriminate|].
  destruct (scores_raise _ _ _); [simpl; discriminate|].
  destruct (negb (match_ok X)); [simpl; discriminate|].
  destruct ans as [|p]; [simpl; discriminate|].
  destruct (guard (base X) p).
  - destruct (lq (base X)).
    + destruct (fix_ii (base X)).
      * destruct (add_new_x X _ _ _) as [[tids c']|]; simpl; [|discriminate]. intros H; inversion H; eauto.
      * destruct (unmatched _ _); simpl; [intros H; inversion H; eauto | discriminate].
    + destruct (unmatched _ _).
      * simpl. intros H; inversion H. eauto.
      * destruct (add_new_x X _ _ _) as [[tids c']|]; simpl; [|discriminate]. intros H; inversion H; eauto.
  - destruct (fix_iv X); [exact HF|]. simpl. intros H; inversion H; eauto.
Qed.

Theorem xoutputs_subset_nodup : forall X h x out,
  In x (xtrace X init h) -> t_out x = Ok out ->
  incl (uids_of out) (uids (f_dets (t_frame x))) /\
  (NoDup (uids (f_dets (t_frame x))) -> NoDup (uids_of out)).
Proof.
  intros X h x out Hx Ho.
  rewrite (xtrace_In_step _ _ _ _ Hx) in Ho.
  apply xstep_shape in Ho. destruct Ho as [tids ->].
  split; [apply output_uids_incl | apply output_uids_nodup].
Qed.

(* --- invalid names: ValueError at a definite point ------------------------ *)

Theorem xinvalid_feature_raises : forall X st f,
  feat_ok X = false -> xstep X st f = (st, Raise ValueErr).
Proof. intros X st [[ds M] ans] H. unfold xstep. rewrite H. reflexivity. Qed.

Theorem xinvalid_scoring_raises : forall X st f,
  feat_ok X = true -> is_init (base X) st = false -> score_ok X && red_ok X = false ->
  xstep X st f = (st, Raise ValueErr).
Proof. intros X st [[ds M] ans] H1 H2 H3. unfold xstep. rewrite H1, H2, H3. reflexivity. Qed.

Theorem xinvalid_matching_raises : forall X st f,
  feat_ok X = true -> is_init (base X) st = false -> match_ok X = false ->
  snd (xstep X st f) = Raise ValueErr.
Proof.
  intros X st [[ds M] ans] H1 H2 H3. unfold xstep. rewrite H1, H2, H3. simpl.
  destruct (negb (score_ok X && red_ok X)); [reflexivity|].
  destruct (scores_raise _ _ _); reflexivity.
Qed.

(* ====================================================================== *)
(* the two findings F4cap / F4iv on the historic tree (before 6da44fb / afd312c): witnesses *)

Definition cfg_rep (l g : bool) (w : nat) (rmax : bool) : config := mkConfig l g w rmax true true true.

(* HISTORIC tree (between 141de51 and 6da44fb): F4 i-iii repaired, F4cap and F4iv not; no code implements it any more *)
Definition x_now (cfg : config) (mt : option nat) : xconfig := mkX cfg mt false false true true true true.
(* the CURRENT tree (/repo HEAD): both repairs are in (6da44fb, afd312c) *)
Definition x_rep (cfg : config) (mt : option nat) : xconfig := mkX cfg mt true true true true true true.

(* three animals in the first frame, max_tracks = 1 *)
Definition wit_cap : list frame := [ ([(10, true); (11, true); (12, true)], [], AFail) ].

Lemma wit_cap_now : forall g w r, xrun (x_now (cfg_rep true g w r) (Some 1)) wit_cap = [Raise ExcErr].
Proof. intros; reflexivity. Qed.

Lemma wit_cap_rep : forall g w r,
  xrun (x_rep (cfg_rep true g w r) (Some 1)) wit_cap = [Ok [(10, Some 0); (11, None); (12, None)]].
Proof. intros; reflexivity. Qed.

(* max_tracks = 1 and two animals: the historic code handed out ids 0 and 1 — two tracks *)
Lemma wit_cap_off_by_one : forall g w r,
  xrun (x_now (cfg_rep true g w r) (Some 1)) [ ([(10, true); (11, true)], [], AFail) ]
  = [Ok [(10, Some 0); (11, Some 1)]].
Proof. intros; reflexivity. Qed.

Lemma cap_refuted_now : forall g w r,
  let X := x_now (cfg_rep true g w r) (Some 1) in
  Forall (contract_step (base X)) (xtrace X init wit_cap) /\
  Forall (finite_step (base X)) (xtrace X init wit_cap) /\
  In (Raise ExcErr) (xrun X wit_cap).
Proof.
  intros g w r X. split; [|split].
  - constructor; [|constructor]. intros U. discriminate U.
  - constructor; [|constructor]. intros U. discriminate U.
  - left. reflexivity.
Qed.

(* one animal; in the second frame every score is NaN (flow lost the candidate's points) *)
Definition wit_all_nan : list frame :=
  [ ([(10, true)], [], AFail); ([(20, true)], [[None]], APairs []) ].

Lemma wit_all_nan_now_fw : forall r,
  xrun (x_now (cfg_rep false false 3 r) None) wit_all_nan = [Ok [(10, Some 0)]; Ok []].
Proof. destruct r; reflexivity. Qed.

Lemma wit_all_nan_now_lq : forall r,
  xrun (x_now (cfg_rep true false 3 r) None) wit_all_nan = [Ok [(10, Some 0)]; Ok [(20, None)]].
Proof. destruct r; reflexivity. Qed.

Lemma wit_all_nan_rep : forall l r,
  xrun (x_rep (cfg_rep l false 3 r) None) wit_all_nan = [Ok [(10, Some 0)]; Ok [(20, Some 1)]].
Proof. destruct l, r; reflexivity. Qed.

Lemma cell_1x1_none : forall r c, cell [[None]] r c = None.
Proof.
  intros r c. unfold cell. destruct r as [|r]; simpl.
  - destruct c as [|c]; [reflexivity|]. destruct c; reflexivity.
  - destruct r; simpl; destruct c; reflexivity.
Qed.

Lemma contract_all_nan_1x1 : hungarian_contract true [[None]] 1 1 (APairs []).
Proof.
  split; [|split; [|split]].
  - split; [constructor|split; [constructor|split; intros x []]].
  - intros r c [].
  - intros q _ Fin. destruct q as [|[r c] q]; [simpl; lia|].
    exfalso. apply (Fin r c); [left; reflexivity | apply cell_1x1_none].
  - intros q _ _ L. destruct q; [apply Qle_refl | discriminate].
Qed.

Lemma all_nan_refuted_now : forall l r,
  let X := x_now (cfg_rep l false 3 r) None in
  Forall (contract_step (base X)) (xtrace X init wit_all_nan) /\
  Forall (cap_silent X) (xtrace X init wit_all_nan) /\
  ~ Forall ok_complete (xtrace X init wit_all_nan).
Proof.
  intros l r X. subst X. split; [|split].
  - destruct l, r; (constructor; [intros U; discriminate U|]);
      (constructor; [|constructor]); intros _;
      unfold matcher_contract; simpl; apply contract_all_nan_1x1.
  - destruct l, r; repeat constructor.
  - intros H.
    assert (K : exists x, In x (xtrace (x_now (cfg_rep l false 3 r) None) init wit_all_nan) /\
                          f_dets (t_frame x) = [(20, true)] /\
                          (t_out x = Ok [] \/ t_out x = Ok [(20, None)])).
    { destruct l, r; eexists; (split; [right; left; reflexivity|]); split; simpl; auto. }
    destruct K as (x & Hx & Hd & Ho).
    rewrite Forall_forall in H. destruct (H x Hx) as (out & Eo & Hc).
    rewrite Hd in Hc. destruct (Hc 20 (or_introl eq_refl)) as [t Ht].
    destruct Ho as [Ho|Ho]; rewrite Ho in Eo; inversion Eo; subst out; simpl in Ht.
    + destruct Ht.
    + destruct Ht as [E|[]]. discriminate.
Qed.

(* ====================================================================== *)
(* the REPAIRED tree (F4cap and F4iv repaired on top of F4 i-iii): the full
   statement, for every max_tracks *)

(* which wanted detections do get a new track under the cap *)
Fixpoint eff (X : xconfig) (m : nat) (want : list bool) : list bool :=
  match want with
  | [] => []
  | w :: r => if w && cap_allows X m then true :: eff X (S m) r else false :: eff X m r
  end.

Lemma new_id_x_rep : forall X m, fix_cap X = true -> new_id_x X (seq 0 m) = Some m.
Proof.
  intros X m Hf. unfold new_id_x. rewrite Hf, new_id_seq. cbn [negb andb].
  destruct (seq 0 m); destruct (cap_of X); reflexivity.
Qed.

Lemma add_new_x_rep : forall X, fix_cap X = true -> forall want tids m,
  add_new_x X want tids (seq 0 m) =
  Some (fill (eff X m want) tids m, seq 0 (m + cnt (eff X m want) tids)).
Proof.
  intros X Hf. induction want as [|w want IH]; intros tids m.
  - simpl. rewrite Nat.add_0_r. reflexivity.
  - destruct tids as [|t tids].
    { simpl. destruct (w && cap_allows X m); simpl; rewrite Nat.add_0_r; reflexivity. }
    cbn [add_new_x eff]. destruct w; cbn [andb].
    + rewrite (new_id_x_rep X m Hf). destruct (cap_allows X m).
      * rewrite seq_snoc, IH. cbn [fill cnt]. do 3 f_equal. lia.
      * rewrite IH. cbn [fill cnt]. reflexivity.
    + rewrite IH. cbn [fill cnt]. reflexivity.
Qed.

Lemma eff_length : forall X want m, length (eff X m want) = length want.
Proof.
  induction want as [|w want IH]; intros m; simpl; auto.
  destruct (w && cap_allows X m); simpl; rewrite IH; reflexivity.
Qed.

(* the cap is respected *)
Lemma eff_cap : forall X K, cap_of X = Some K -> fix_cap X = true ->
  forall want tids m, m <= K -> m + cnt (eff X m want) tids <= K.
Proof.
  intros X K Hc Hf. induction want as [|w want IH]; intros tids m L; simpl; [lia|].
  destruct tids as [|t tids]; [destruct (w && cap_allows X m); simpl; lia|].
  destruct (w && cap_allows X m) eqn:E; cbn [cnt].
  - apply andb_true_iff in E. destruct E as [_ E]. unfold cap_allows in E. rewrite Hc, Hf in E.
    cbn [negb orb] in E. apply Nat.ltb_lt in E.
    specialize (IH tids (S m)). lia.
  - specialize (IH tids m L). lia.
Qed.

(* a wanted detection gets a track unless the cap is exhausted by then *)
Lemma eff_want : forall X want tids m i,
  length want = length tids -> nth_error want i = Some true ->
  some_at (fill (eff X m want) tids m) i \/
  (exists K, cap_of X = Some K /\ K <= m + cnt (eff X m want) tids).
Proof.
  induction want as [|w want IH]; intros tids m i L H; [destruct i; discriminate|].
  destruct tids as [|t tids]; [discriminate|]. simpl in L.
  destruct i as [|i]; simpl in H.
  - inversion H; subst w. cbn [eff andb].
    destruct (cap_allows X m) eqn:E.
    + left. exists m. reflexivity.
    + right. unfold cap_allows in E. destruct (cap_of X) as [K|]; [|discriminate].
      exists K. split; auto. apply orb_false_iff in E. destruct E as [_ E].
      apply Nat.ltb_ge in E. cbn [cnt]. lia.
  - cbn [eff]. destruct (w && cap_allows X m); cbn [fill cnt].
    + assert (L' : length want = length tids) by lia.
      destruct (IH tids (S m) i L' H) as [[c Hc]|(K & HK & LK)]; [left; exists c; auto|].
      right. exists K. split; auto. lia.
    + assert (L' : length want = length tids) by lia.
      destruct (IH tids m i L' H) as [[c Hc]|(K & HK & LK)]; [left; exists c; auto|].
      right. exists K. split; auto.
Qed.

Lemma eff_nocap : forall X, cap_of X = None -> forall want m, eff X m want = want.
Proof.
  intros X Hc. induction want as [|w want IH]; intros m; simpl; auto.
  unfold cap_allows. rewrite Hc. destruct w; simpl; rewrite IH; reflexivity.
Qed.

Definition xrepaired (X : xconfig) : Prop :=
  names_ok X = true /\ repaired (base X) /\ fix_cap X = true /\ fix_iv X = true.

(* within the cap (or no cap) *)
Definition cap_inv (X : xconfig) (m : nat) : Prop := forall K, cap_of X = Some K -> m <= K.
(* the cap is exhausted *)
Definition cap_full (X : xconfig) (m : nat) : Prop := exists K, cap_of X = Some K /\ K <= m.

(* every detection above the threshold: returned, with a track unless the cap is exhausted *)
Definition complete_x (X : xconfig) (m' : nat) (ds : list det) (tids : list (option nat)) : Prop :=
  forall i u, nth_error ds i = Some (u, true) -> some_at tids i \/ cap_full X m'.

Definition xpost (X : xconfig) (m : nat) (ds : list det) (r : state * outcome) : Prop :=
  exists tids m',
    snd r = Ok (output (base X) ds tids) /\ cur (fst r) = seq 0 m' /\ m <= m' /\ cap_inv X m' /\
    (is_init (base X) (fst r) = false -> 0 < m') /\
    length tids = length ds /\ NoDup (somes tids) /\ (forall x, In x (somes tids) -> x < m') /\
    complete_x X m' ds tids.

(* add_new_tracks on a frame, repaired: all the facts in one place *)
Lemma site_rep : forall X m want tids (ds : list det),
  fix_cap X = true -> cap_inv X m ->
  length want = length tids -> length tids = length ds ->
  NoDup (somes tids) -> (forall x, In x (somes tids) -> x < m) ->
  (forall i u, nth_error ds i = Some (u, true) -> some_at tids i \/ nth_error want i = Some true) ->
  exists tids' m', add_new_x X want tids (seq 0 m) = Some (tids', seq 0 m') /\
    m' = m + cnt (eff X m want) tids /\ tids' = fill (eff X m want) tids m /\
    m <= m' /\ cap_inv X m' /\ length tids' = length ds /\ NoDup (somes tids') /\
    (forall x, In x (somes tids') -> x < m') /\ complete_x X m' ds tids'.
Proof.
  intros X m want tids ds Hf Hcap L1 L2 ND B C.
  exists (fill (eff X m want) tids m), (m + cnt (eff X m want) tids).
  split; [apply add_new_x_rep; auto|]. split; [reflexivity|]. split; [reflexivity|].
  split; [lia|]. split; [|split; [|split; [|split]]].
  - intros K HK. apply (eff_cap X K HK Hf). apply Hcap; auto.
  - rewrite fill_length. auto.
  - apply nodup_somes_fill; auto.
  - intros x H. apply in_somes_fill in H. destruct H as [H|H]; [apply B in H|]; lia.
  - intros i u H. destruct (C i u H) as [S|W].
    + left. apply fill_some_keep. auto.
    + destruct (eff_want X want tids m i L1 W) as [S|(K & HK & LK)]; [left; auto|].
      right. exists K. auto.
Qed.

Lemma want_lq_nil : forall ds, want_lq ds [] = map snd ds.
Proof.
  intros ds. unfold want_lq.
  assert (G : forall (l : list det) a, map (fun id : nat * det => snd (snd id) && negb (memb (fst id) []))
                         (combine (seq a (length l)) l) = map snd l).
  { induction l as [|d l IH]; intros a; simpl; auto. rewrite IH, andb_true_r. reflexivity. }
  apply G.
Qed.

Lemma guard_fix_i : forall cfg p, fix_i cfg = true -> guard cfg p = (0 <? length p).
Proof. intros cfg p H. unfold guard. rewrite H. reflexivity. Qed.

Lemma xstep_rep_m : forall X fq lqs m f, xrepaired X ->
  let st := mkState fq lqs (seq 0 m) in
  (is_init (base X) st = false -> 0 < m) -> cap_inv X m ->
  (is_init (base X) st = false ->
   exists p, f_answer f = APairs p /\ matching (length (f_dets f)) m p) ->
  xpost X m (f_dets f) (xstep X st f).
Proof.
  intros X fq lqs m [[ds M] ans] (Hn & (F1 & F2 & F3) & Hfc & Hiv) st Hi Hcap Hans.
  destruct (names_ok_split X Hn) as (N1 & N2 & N3 & N4).
  unfold f_dets, f_answer in *. simpl fst in *. simpl snd in *.
  unfold xstep. rewrite N1, N2, N3, N4, Hiv. cbn [negb andb].
  set (n := length ds) in *. set (none := repeat (@None nat) n).
  assert (Ln : length none = n) by (subst none; apply repeat_length).
  assert (Sn : somes none = []) by (subst none; apply somes_repeat_none).
  assert (Nn : forall i, i < n -> nth_error none i = Some None)
    by (intros; subst none; apply nth_error_repeat_none; auto).
  assert (Lt : forall i u a, nth_error ds i = Some (u, a) -> i < n).
  { intros i u a H. apply nth_error_Some. congruence. }
  set (W1 := if lq (base X) then map snd ds else want_fw ds none).
  assert (LW1 : length W1 = length none).
  { subst W1. destruct (lq (base X)); [rewrite map_length; auto | rewrite want_fw_length; auto]. }
  assert (CW1 : forall i u, nth_error ds i = Some (u, true) -> some_at none i \/ nth_error W1 i = Some true).
  { intros i u H. right. subst W1. destruct (lq (base X)).
    - erewrite map_nth_error; eauto. reflexivity.
    - rewrite (want_fw_nth ds none i u true None H (Nn i (Lt _ _ _ H))). reflexivity. }
  (* the `fresh` branch: first frame, or no pair matched *)
  assert (Fresh : forall fq', (lq (base X) = false -> is_init (base X) st = false -> fq' = fwq st /\ fq' <> []) ->
            (lq (base X) = false -> is_init (base X) st = true -> fq' = []) ->
            xpost X m ds
              match add_new_x X W1 none (cur st) with
              | None => (st, Raise ExcErr)
              | Some (tids, c') =>
                  (if lq (base X)
                   then mkState (fwq st) (lq_append (window (base X)) (lqq st) (combine (uids ds) tids)) c'
                   else mkState (if length (cur st) <? length c'
                                 then push (window (base X)) fq' (combine (uids ds) tids) else fq')
                                (lqq st) c',
                   Ok (output (base X) ds tids))
              end).
  { intros fq' Hq1 Hq2.
    destruct (site_rep X m W1 none ds Hfc Hcap LW1 Ln) as (tids' & m' & E & _ & _ & Lm & Cm & Lt' & ND & B & C);
      [rewrite Sn; constructor | rewrite Sn; intros x [] | exact CW1 |].
    subst st. simpl cur. rewrite E.
    exists tids', m'. split; [reflexivity|].
    destruct (lq (base X)) eqn:El; simpl fst; simpl cur.
    - repeat (split; auto). intros H. unfold is_init in H. rewrite El in H. simpl in H.
      destruct m'; [simpl in H; discriminate | lia].
    - repeat (split; auto). unfold is_init. rewrite El. simpl fwq. rewrite !seq_length.
      destruct (is_init (base X) (mkState fq lqs (seq 0 m))) eqn:Ei.
      + specialize (Hq2 eq_refl eq_refl). subst fq'.
        destruct (m <? m') eqn:Eg; [intros _; apply Nat.ltb_lt in Eg; lia | discriminate].
      + intros _. specialize (Hi eq_refl). lia. }
  destruct (is_init (base X) st) eqn:Ei.
  - (* first frame *)
    apply (Fresh (fwq st)); [intros _ H; discriminate | intros El _].
    unfold is_init in Ei. rewrite El in Ei. simpl in Ei. destruct fq; [reflexivity | discriminate].
  - assert (Hm : 0 < m) by (apply Hi; reflexivity).
    assert (Er : scores_raise (base X) st n = false).
    { unfold scores_raise. rewrite F3. destruct (red_max (base X)); reflexivity. }
    rewrite Er.
    destruct (Hans eq_refl) as (p & -> & NDr & NDc & Rr & Rc).
    rewrite (guard_fix_i _ _ F1).
    destruct p as [|rc p'] eqn:Ep.
    + (* no pair: repaired, like a first frame *)
      cbn [length Nat.ltb Nat.leb].
      apply (Fresh (fwq st)); [|intros _ H; discriminate].
      intros El _. split; [reflexivity|]. unfold is_init in Ei. rewrite El in Ei. simpl in *.
      destruct fq; [discriminate | discriminate].
    + rewrite <- Ep in *. assert (Lp : (0 <? length p) = true) by (subst p; reflexivity).
      rewrite Lp. clear Fresh.
      set (tids0 := assign p none).
      assert (L0 : length tids0 = n) by (subst tids0; rewrite assign_length; auto).
      assert (ND0 : NoDup (somes tids0)).
      { subst tids0. apply nodup_somes_assign; auto; rewrite Sn; [constructor | intros x []]. }
      assert (B0 : forall x, In x (somes tids0) -> x < m).
      { subst tids0. intros x H. apply in_somes_assign in H. rewrite Sn in H.
        destruct H as [[]|H]. auto. }
      assert (Row : forall i, In i (map fst p) -> i < n -> some_at tids0 i).
      { intros i H L. subst tids0. apply assign_some_row; auto. rewrite Ln; auto. }
      destruct (lq (base X)) eqn:El.
      * rewrite F2.
        destruct (site_rep X m (want_lq ds (map fst p)) tids0 ds Hfc Hcap) as
            (tids' & m' & E & _ & _ & Lm & Cm & Lt' & ND & B & C); auto.
        { rewrite want_lq_length. auto. }
        { intros i u H. destruct (memb i (map fst p)) eqn:Em.
          - left. apply Row; eauto. apply memb_In; auto.
          - right. erewrite want_lq_nth; eauto. rewrite Em. reflexivity. }
        subst st. simpl cur. rewrite E.
        exists tids', m'. simpl fst. simpl snd. simpl cur.
        repeat (split; auto). intros _. lia.
      * destruct (unmatched n p) eqn:Eu.
        -- exists tids0, m. simpl fst. simpl snd. subst st. simpl cur.
           repeat (split; auto).
           intros i u H. left. apply Row; eauto. eapply unmatched_nil; eauto.
        -- destruct (site_rep X m (want_fw ds tids0) tids0 ds Hfc Hcap) as
               (tids' & m' & E & _ & _ & Lm & Cm & Lt' & ND & B & C); auto.
           { rewrite want_fw_length; auto. }
           { intros i u H.
             assert (Li : i < length tids0) by (rewrite L0; eauto).
             apply nth_error_Some in Li.
             destruct (nth_error tids0 i) as [[t|]|] eqn:Et; [| |congruence].
             - left. exists t. auto.
             - right. rewrite (want_fw_nth ds tids0 i u true None H Et). reflexivity. }
           subst st. simpl cur. rewrite E.
           exists tids', m'. simpl fst. simpl snd. simpl cur.
           repeat (split; auto). intros _. lia.
Qed.

Lemma xstep_rep : forall X st f, xrepaired X ->
  Inv (base X) st -> cap_inv X (length (cur st)) ->
  contract_step (base X) (st, f, snd (xstep X st f)) ->
  xpost X (length (cur st)) (f_dets f) (xstep X st f).
Proof.
  intros X [fq lqs c] f R [Hc Hi] Hcap C. simpl in Hc, Hcap.
  remember (length c) as m eqn:Em. subst c.
  change (length (cur (mkState fq lqs (seq 0 m)))) with (length (seq 0 m)). rewrite seq_length.
  apply xstep_rep_m; auto.
  - intros H. specialize (Hi H). simpl in Hi. destruct m; [simpl in Hi; congruence | lia].
  - intros Ei. destruct R as (_ & (F1 & F2 & F3) & _).
    unfold contract_step, answer_used, t_state, t_frame in C. simpl fst in C. simpl snd in C.
    assert (Er : scores_raise (base X) (mkState fq lqs (seq 0 m)) (length (f_dets f)) = false).
    { unfold scores_raise. rewrite F3. destruct (red_max (base X)); reflexivity. }
    rewrite Ei, Er in C. specialize (C eq_refl). simpl cur in C. rewrite seq_length in C.
    destruct (f_answer f) as [|p] eqn:Ea.
    + exfalso. eapply matcher_no_fail; eauto.
    + exists p. split; auto. apply matcher_matching_ok in C. exact C.
Qed.

Lemma xtrace_induct : forall X (I : state -> Prop) (P Q : state * frame * outcome -> Prop),
  (forall st f, I st -> P (st, f, snd (xstep X st f)) ->
                Q (st, f, snd (xstep X st f)) /\ I (fst (xstep X st f))) ->
  forall h st, I st -> Forall P (xtrace X st h) -> Forall Q (xtrace X st h).
Proof.
  intros X I P Q HS. induction h as [|f r IH]; intros st Hi HP; simpl in *; [constructor|].
  inversion HP as [|? ? P0 PR]; subst.
  destruct (HS st f Hi P0) as [Q0 I1].
  constructor; auto.
  destruct (snd (xstep X st f)); [apply IH; auto | constructor].
Qed.

Lemma xtrace_all_ok_length : forall X h st,
  Forall (fun x => exists out, t_out x = Ok out) (xtrace X st h) ->
  length (xtrace X st h) = length h.
Proof.
  induction h as [|f r IH]; intros st H; simpl in *; auto.
  inversion H as [|? ? [out Ho] HR]; subst. unfold t_out in Ho; simpl in Ho.
  rewrite Ho in *. f_equal. apply IH; auto.
Qed.

(* what a call of the repaired tracker guarantees *)
Definition xok (X : xconfig) (x : state * frame * outcome) : Prop :=
  let st := t_state x in
  let st' := fst (xstep X st (t_frame x)) in
  cur st = seq 0 (length (cur st)) /\
  (exists k, cur st' = cur st ++ seq (length (cur st)) k) /\
  cap_inv X (length (cur st')) /\
  exists out, t_out x = Ok out /\
    NoDup (tracks_of out) /\ incl (tracks_of out) (cur st') /\
    forall u, In (u, true) (f_dets (t_frame x)) ->
      (exists t, In (u, Some t) out) \/
      (cap_full X (length (cur st')) /\ exists o, In (u, o) out).

Lemma cap_full_lq : forall X m, cap_full X m -> lq (base X) = true.
Proof.
  intros X m (K & H & _). unfold cap_of in H. destruct (lq (base X)); [reflexivity | discriminate].
Qed.

Theorem xrepaired_full : forall X h, xrepaired X ->
  Forall (contract_step (base X)) (xtrace X init h) ->
  Forall (xok X) (xtrace X init h) /\ length (xrun X h) = length h.
Proof.
  intros X h R HC.
  assert (F : Forall (xok X) (xtrace X init h)).
  { apply (xtrace_induct X (fun st => Inv (base X) st /\ cap_inv X (length (cur st)))
             (contract_step (base X))); auto.
    2:{ split; [apply Inv_init|]. intros K _. simpl. lia. }
    intros st f [Hi Hcap] C.
    destruct (xstep_rep X st f R Hi Hcap C) as
        (tids & m' & Eo & Ec & Lm & Cm & Hi' & Lt & ND & B & Cp).
    destruct Hi as [Hc Hi0].
    split.
    - unfold xok, t_state, t_frame, t_out. simpl fst. simpl snd.
      split; [exact Hc|]. split; [|split].
      + exists (m' - length (cur st)). rewrite Ec.
        remember (length (cur st)) as m0 eqn:Em0. rewrite Hc.
        replace m' with (m0 + (m' - m0)) at 1 by lia. rewrite seq_app. reflexivity.
      + rewrite Ec, seq_length. exact Cm.
      + exists (output (base X) (f_dets f) tids). split; [exact Eo|].
        rewrite output_tracks by auto. split; [exact ND|]. split.
        * intros t Ht. apply B in Ht. rewrite Ec. apply in_seq. lia.
        * intros u Hu. apply In_nth_error in Hu. destruct Hu as [i Hd].
          rewrite Ec, seq_length.
          destruct (Cp i u Hd) as [[t Ht]|Full].
          -- left. exists t. eapply output_complete_at; eauto.
          -- right. split; [exact Full|].
             assert (Li : i < length tids).
             { rewrite Lt. apply nth_error_Some. intro Hx.
               pose proof (eq_trans (eq_sym Hd) Hx) as Hy. discriminate Hy. }
             apply nth_error_Some in Li.
             destruct (nth_error tids i) as [o|] eqn:Et; [|congruence].
             exists o. unfold output. rewrite (cap_full_lq _ _ Full).
             eapply nth_error_In. apply nth_error_combine; eauto.
             unfold uids. erewrite map_nth_error; eauto. reflexivity.
    - split.
      + split; [rewrite Ec, seq_length; reflexivity|].
        intros H. specialize (Hi' H). rewrite Ec. destruct m'; [lia | discriminate].
      + rewrite Ec, seq_length. exact Cm. }
  split; auto.
  unfold xrun. rewrite xrun_trace, map_length. apply xtrace_all_ok_length.
  eapply Forall_impl; [|exact F]. intros x (_ & _ & _ & out & Ho & _). eauto.
Qed.

(* without a cap (max_tracks = None, or the fixed window): plainly complete *)
Corollary xrepaired_full_nocap : forall X h, xrepaired X -> cap_of X = None ->
  Forall (contract_step (base X)) (xtrace X init h) ->
  Forall ok_complete (xtrace X init h) /\ length (xrun X h) = length h.
Proof.
  intros X h R Hc HC. destruct (xrepaired_full X h R HC) as [F L]. split; auto.
  eapply Forall_impl; [|exact F].
  intros x (_ & _ & _ & out & Ho & _ & _ & Cp). exists out. split; auto.
  intros u Hu. destruct (Cp u Hu) as [H|[(K & HK & _) _]]; auto. congruence.
Qed.

(* ====================================================================== *)
(* clause (b) on the historic tree, for every max_tracks: a call either is the
   call of Tracker.v's model, or it raises "Exceeding max tracks" *)

Lemma site_cases : forall X m want tids, cap_asis_or_none X ->
  add_new_x X want tids (seq 0 m) = Some (add_new want tids (seq 0 m)) \/
  add_new_x X want tids (seq 0 m) = None.
Proof.
  intros X m want tids [H|H]; [left; apply add_new_x_nocap; auto|].
  destruct (cap_of X) as [k|] eqn:Ek; [|left; apply add_new_x_nocap; auto].
  rewrite (add_new_x_asis X k Ek H).
  destruct ((0 <? cnt want tids) && (k + 1 <? m + cnt want tids)); auto.
Qed.

Lemma xstep_asis_cases : forall X st f m,
  names_ok X = true -> fix_iv X = false -> cap_asis_or_none X -> cur st = seq 0 m ->
  xstep X st f = step (base X) st f \/ xstep X st f = (st, Raise ExcErr).
Proof.
  intros X st [[ds M] ans] m Hn Hiv Hcap Hc.
  destruct (names_ok_split X Hn) as (N1 & N2 & N3 & N4).
  unfold xstep, step. rewrite N1, N2, N3, N4, Hiv. cbn [negb andb].
  set (n := length ds). set (none := repeat (@None nat) n).
  destruct (is_init (base X) st) eqn:Ei.
  - rewrite Hc.
    destruct (site_cases X m (if lq (base X) then map snd ds else want_fw ds none) none Hcap) as [E|E];
      rewrite E; [left | right; reflexivity].
    destruct (add_new _ none (seq 0 m)) as [tids c']. reflexivity.
  - destruct (scores_raise (base X) st n); [left; reflexivity|].
    destruct ans as [|p]; [left; reflexivity|].
    destruct (guard (base X) p) eqn:Eg; [|left; reflexivity].
    destruct (lq (base X)) eqn:El.
    + destruct (fix_ii (base X)); [|left; reflexivity].
      rewrite Hc.
      destruct (site_cases X m (want_lq ds (map fst p)) (assign p none) Hcap) as [E|E];
        rewrite E; [left | right; reflexivity].
      destruct (add_new _ _ (seq 0 m)) as [tids c']. reflexivity.
    + destruct (unmatched n p) eqn:Eu; [left; reflexivity|].
      rewrite Hc.
      destruct (site_cases X m (want_fw ds (assign p none)) (assign p none) Hcap) as [E|E];
        rewrite E; [left | right; reflexivity].
      destruct (add_new _ _ (seq 0 m)) as [tids c']. reflexivity.
Qed.

Lemma step_tracks_ok : forall cfg st f, Inv cfg st -> contract_step cfg (st, f, snd (step cfg st f)) ->
  tracks_ok cfg (st, f, snd (step cfg st f)) /\ Inv cfg (fst (step cfg st f)).
Proof.
  intros cfg st f Hi HP.
  pose proof (step_spec cfg st f Hi (contract_valid _ _ _ _ HP)) as (I1 & [k Hk] & Post).
  split; auto.
  unfold tracks_ok, t_state, t_frame, t_out. simpl fst. simpl snd.
  destruct Hi as [Hc _].
  split; [exact Hc|]. split; [|split].
  - exists k. rewrite Hk. rewrite Hc at 2. rewrite seq_app. reflexivity.
  - rewrite Hk. apply seq_NoDup.
  - intros out Ho. rewrite Ho in Post. destruct Post as (tids & -> & L & ND & B).
    rewrite output_tracks by auto. split; auto.
    intros t Ht. apply B in Ht. destruct I1 as [Hc' _]. rewrite Hc'. apply in_seq. lia.
Qed.

Theorem xdistinct_tracks_asis : forall X h,
  names_ok X = true -> fix_iv X = false -> cap_asis_or_none X ->
  Forall (contract_step (base X)) (xtrace X init h) ->
  Forall (fun x => t_out x = Raise ExcErr \/ tracks_ok (base X) x) (xtrace X init h).
Proof.
  intros X h Hn Hiv Hcap. apply (xtrace_induct X (Inv (base X))); [|apply Inv_init].
  intros st f Hi C.
  destruct (xstep_asis_cases X st f (length (cur st)) Hn Hiv Hcap (proj1 Hi)) as [E|E]; rewrite E in *.
  - destruct (step_tracks_ok (base X) st f Hi C) as [T I1]. split; auto.
  - split; [left; reflexivity | exact Hi].
Qed.

(* the same with the hypotheses stated on Tracker.v's trace *)
Lemma xtrace_eq_trace_base : forall X,
  names_ok X = true -> fix_iv X = false -> cap_asis_or_none X ->
  forall h st, Inv (base X) st ->
  Forall (contract_step (base X)) (trace (base X) st h) -> Forall (cap_silent X) (trace (base X) st h) ->
  xtrace X st h = trace (base X) st h.
Proof.
  intros X Hn Hiv Hcap. induction h as [|f r IH]; intros st Hi HC HS; simpl in *; auto.
  inversion HC as [|? ? C0 CR]; subst. inversion HS as [|? ? S0 SR]; subst.
  assert (E : xstep X st f = step (base X) st f).
  { destruct Hi as [Hc _]. eapply xstep_silent; eauto. }
  rewrite E. f_equal.
  destruct (snd (step (base X) st f)) eqn:Eo; auto.
  apply IH; auto.
  pose proof (step_spec (base X) st f Hi (contract_valid _ _ _ _ C0)) as (I1 & _). exact I1.
Qed.

(* ====================================================================== *)
(* exactness of the two selectors *)

(* the selector of F4cap is exact: on the historic tree (F4 i-iii repaired, valid
   names) a call raises "Exceeding max tracks" if and only if the selector fires *)
Lemma add_new_x_fires : forall X m want tids k, length want = length tids ->
  cap_of X = Some k -> fix_cap X = false ->
  (0 <? count_true want) && (k + 1 <? m + count_true want) = true ->
  add_new_x X want tids (seq 0 m) = None.
Proof.
  intros X m want tids k L Hc Hf E.
  rewrite (add_new_x_asis X k Hc Hf), (cnt_count_true _ _ L), E. reflexivity.
Qed.

Theorem sel_cap_exact : forall X st f m,
  names_ok X = true -> fix_iv X = false -> fix_cap X = false -> repaired (base X) -> cur st = seq 0 m ->
  (sel_cap X st f = true <-> xstep X st f = (st, Raise ExcErr)).
Proof.
  intros X st f m Hn Hiv Hf (F1 & F2 & F3) Hc. split.
  - intros Hs.
    destruct (cap_of X) as [k|] eqn:Ek.
    2:{ unfold sel_cap in Hs. rewrite Ek, andb_false_r in Hs. discriminate. }
    unfold sel_cap in Hs. rewrite Hf, Ek, Hc, seq_length in Hs. cbn [negb andb] in Hs.
    destruct f as [[ds M] ans].
    destruct (names_ok_split X Hn) as (N1 & N2 & N3 & N4).
    unfold xstep. rewrite N1, N2, N3, N4, Hiv. cbn [negb andb].
    set (n := length ds) in *. set (none := repeat (@None nat) n) in *.
    assert (Ln : length none = n) by (subst none; apply repeat_length).
    assert (Er : scores_raise (base X) st n = false).
    { unfold scores_raise. rewrite F3. destruct (red_max (base X)); reflexivity. }
    unfold need in Hs. fold n in Hs. fold none in Hs.
    destruct (is_init (base X) st) eqn:Ei.
    + rewrite Hc. rewrite (add_new_x_fires X m _ none k); auto.
      destruct (lq (base X)); [rewrite map_length; auto | rewrite want_fw_length; auto].
    + rewrite Er.
      destruct ans as [|p]; [simpl in Hs; discriminate Hs|].
      destruct (guard (base X) p) eqn:Eg; [|rewrite Hiv in Hs; simpl in Hs; discriminate Hs].
      assert (El : lq (base X) = true).
      { unfold cap_of in Ek. destruct (lq (base X)); [reflexivity | discriminate]. }
      rewrite El in *. rewrite F2. rewrite Hc.
      rewrite (add_new_x_fires X m _ (assign p none) k); auto.
      rewrite want_lq_length, assign_length. auto.
  - intros E.
    destruct (sel_cap X st f) eqn:Hs; [reflexivity|]. exfalso.
    assert (Hcap : cap_asis_or_none X) by (right; exact Hf).
    rewrite (xstep_silent X st f m Hn Hiv Hcap Hc Hs) in E.
    destruct f as [[ds M] ans]. unfold step in E.
    destruct (is_init (base X) st).
    + destruct (add_new _ _ _). inversion E.
    + destruct (scores_raise _ _ _); [inversion E|].
      destruct ans; [inversion E|].
      destruct (guard _ _); [|inversion E].
      destruct (lq (base X)).
      * destruct (fix_ii (base X)); [destruct (add_new _ _ _); inversion E|].
        destruct (unmatched _ _); inversion E.
      * destruct (unmatched _ _); [inversion E|]. destruct (add_new _ _ _). inversion E.
Qed.

(* the selector of F4iv is exact too: where the cap is silent, a call is complete
   if and only if the matcher did not answer "no pair" on a frame holding a
   detection above the threshold *)
Lemma in_combine_repeat_none : forall (us : list nat) n u t,
  In (u, Some t) (combine us (repeat (@None nat) n)) -> False.
Proof.
  induction us as [|x us IH]; intros [|n] u t H; simpl in H; try contradiction.
  destruct H as [H|H]; [discriminate | eapply IH; eauto].
Qed.

Lemma output_none_no_track : forall cfg ds n u t,
  In (u, Some t) (output cfg ds (repeat None n)) -> False.
Proof.
  intros cfg ds n u t H. unfold output in H. destruct (lq cfg).
  - eapply in_combine_repeat_none; eauto.
  - apply filter_In in H. destruct H as [H _]. eapply in_combine_repeat_none; eauto.
Qed.

Theorem sel_iv_exact : forall X st f,
  names_ok X = true -> fix_iv X = false -> cap_asis_or_none X -> repaired (base X) ->
  Inv (base X) st -> sel_cap X st f = false ->
  contract_step (base X) (st, f, snd (xstep X st f)) ->
  (sel_iv X st f = false <-> ok_complete (st, f, snd (xstep X st f))).
Proof.
  intros X st f Hn Hiv Hcap R Hi Hs C.
  pose proof R as (F1 & F2 & F3).
  rewrite (xstep_silent X st f (length (cur st)) Hn Hiv Hcap (proj1 Hi) Hs) in *.
  assert (Er : scores_raise (base X) st (length (f_dets f)) = false).
  { unfold scores_raise. rewrite F3. destruct (red_max (base X)); reflexivity. }
  pose proof (contract_valid _ _ _ _ C) as V.
  pose proof (repaired_no_defect _ _ R C) as Q.
  unfold no_defect_fires, t_state, t_frame in Q. simpl fst in Q. simpl snd in Q.
  unfold ok_complete, t_out, t_frame. simpl fst. simpl snd.
  unfold sel_iv. rewrite Hiv, Er. cbn [negb andb].
  destruct (is_init (base X) st) eqn:Ei.
  - cbn [negb andb]. split; [intros _|reflexivity].
    apply step_complete; [exact Hi | exact V | |].
    + intros U. unfold answer_used in U. rewrite Ei in U. discriminate U.
    + intros U. rewrite Ei in U. discriminate U.
  - cbn [negb andb].
    destruct (Q Ei) as (_ & p & Ea & _). rewrite Ea.
    destruct p as [|rc p'].
    + (* no pair *)
      destruct f as [[ds M] ans]. unfold f_answer in Ea. simpl in Ea. subst ans.
      unfold f_dets. simpl fst.
      unfold step. rewrite Ei. unfold f_dets in Er. simpl fst in Er. rewrite Er.
      rewrite (guard_fix_i _ _ F1). cbn [length Nat.ltb Nat.leb snd].
      split.
      * intros Hx. eexists. split; [reflexivity|]. intros u Hu. exfalso.
        assert (K : existsb snd ds = true) by (apply existsb_exists; exists (u, true); auto).
        congruence.
      * intros (out & Eo & Cp). inversion Eo; subst out.
        destruct (existsb snd ds) eqn:Ex; [|reflexivity]. exfalso.
        apply existsb_exists in Ex. destruct Ex as [[u a] [Hu Ha]]. simpl in Ha. subst a.
        destruct (Cp u Hu) as [t Ht]. eapply output_none_no_track; eauto.
    + split; [intros _|reflexivity].
      apply step_complete; [exact Hi | exact V | | exact Q].
      intros U q Eq Eq0. rewrite Ea, Eq0 in Eq. discriminate Eq.
Qed.
