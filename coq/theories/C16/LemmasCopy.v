(* LemmasCopy.v (C16, proof extension) — clause (a) from the LABELS: when the prediction labels are the gt labels
   with a score attached to every instance (`is_copy_l` = Props.is_copy), video keys are pairwise different, no
   two gt frames share (video, frame index) and every gt instance takes part, then `find_pairs` pairs every gt
   frame with the prediction frame at the same position and the predicted poses are the gt poses in order
   (round 4 assumed this per frame pair: `copy_frame`).  Composed with the complement of the two executable
   selectors: the perfect report. *)
From Coq Require Import List Arith ZArith QArith Bool Permutation Lia Lqa.
Import ListNotations.
From SV Require Import C15.Oks C15.Lemmas C16.Metrics C16.Lemmas C16.LemmasPairs C16.LemmasState C16.LemmasDelete
  C16.LemmasDelete2 C16.LemmasRound C16.LemmasReport.
Local Open Scope Q_scope.

Definition is_copy_l (gtL prL : labels) : Prop :=
  fst prL = fst gtL /\
  map (fun f => (lf_video f, lf_idx f, map fst (lf_insts f))) (snd prL) =
  map (fun f => (lf_video f, lf_idx f, map fst (lf_insts f))) (snd gtL).
Definition distinct_videos (vs : list vkey) : Prop :=
  forall a b ka kb, nth_error vs a = Some ka -> nth_error vs b = Some kb -> vkey_eqb ka kb = true -> a = b.
Definition distinct_frames (fs : list lframe) : Prop := NoDup (map (fun f => (lf_video f, lf_idx f)) fs).
Definition all_take_part (ulo : bool) (fs : list lframe) : Prop :=
  Forall (fun f => Forall (fun b => b = true) (gt_flags ulo f)) fs.

Lemma copy_pairs_structure ulo db gtL prL i j fp :
  is_copy_l gtL prL -> distinct_videos (fst gtL) -> distinct_frames (snd gtL) -> all_take_part ulo (snd gtL) ->
  In ((i, j), fp) (find_pairs_pos ulo db gtL prL) ->
  j = i /\ (let '((_, gts, _), (_, prs, scores)) := fp in prs = gts /\ length scores = length gts).
Proof.
  intros [Hv Hf] Hdv Hdf Hall Hin. apply in_find_pairs_pos in Hin.
  destruct Hin as [f [vk [vp [pf [Hi [Hvk [Hfv [Hg [_ ->]]]]]]]]].
  apply find_video_first in Hfv. destruct Hfv as [[k' [Hk' Heq]] _]. rewrite Hv in Hk'.
  assert (Evp : vp = lf_video f) by (eapply Hdv; eassumption). subst vp.
  apply get_frame_some in Hg. destruct Hg as [Hj [Hm _]].
  unfold frame_matches in Hm. apply andb_true_iff in Hm. destruct Hm as [Hm1 Hm2].
  apply Nat.eqb_eq in Hm1, Hm2.
  pose proof (map_nth_error (fun f => (lf_video f, lf_idx f, map fst (lf_insts f))) _ _ Hj) as Hj'.
  rewrite Hf, nth_error_map in Hj'.
  destruct (nth_error (snd gtL) j) as [f'|] eqn:Ef'; [|discriminate]. cbn in Hj'. inversion Hj' as [[E1 E2 E3]].
  assert (Eij : j = i).
  { unfold distinct_frames in Hdf. rewrite NoDup_nth_error in Hdf. apply Hdf.
    - rewrite map_length. apply nth_error_Some. congruence.
    - rewrite (map_nth_error (fun f => (lf_video f, lf_idx f)) _ _ Ef'),
              (map_nth_error (fun f => (lf_video f, lf_idx f)) _ _ Hi). congruence. }
  subst j. rewrite Hi in Ef'. inversion Ef'; subst f'. split; [reflexivity|].
  unfold the_pair, gt_poses. unfold all_take_part in Hall. rewrite Forall_forall in Hall.
  rewrite (keep_rows_all_true (gt_flags ulo f) (map fst (lf_insts f))).
  - split; [symmetry; exact E3|]. rewrite E3, !map_length. reflexivity.
  - apply Hall. eapply nth_error_In. exact Hi.
  - unfold gt_flags. rewrite !map_length. apply le_n.
Qed.

(* the diagonal of every paired matrix is 1 wherever the gt instance has a visible keypoint: C15's
   c15_oks_identical for the real values; the float64 matrices are an oracle input *)
Definition diag_one (fps : list (gframe * pframe)) : Prop :=
  forall fp i g, In fp fps -> nth_error (frame_gts fp) i = Some g -> (1 <= n_visible g)%nat ->
                 mget (frame_M fp) i i = Some 1.

Theorem copy_labels_copy_frames ulo db gtL prL :
  is_copy_l gtL prL -> distinct_videos (fst gtL) -> distinct_frames (snd gtL) -> all_take_part ulo (snd gtL) ->
  diag_one (find_pairs ulo db gtL prL) ->
  Forall copy_frame (find_pairs ulo db gtL prL).
Proof.
  intros Hc Hdv Hdf Hall Hd. apply Forall_forall. intros fp Hfp.
  pose proof Hfp as Hfp0. unfold find_pairs in Hfp. apply in_map_iff in Hfp.
  destruct Hfp as [[[i j] fp'] [E Hin]]. cbn in E. subst fp'.
  destruct (copy_pairs_structure ulo db gtL prL i j fp Hc Hdv Hdf Hall Hin) as [_ Hs].
  specialize (Hd fp). destruct fp as [[[gi gts] M] [[pj prs] scores]]. cbn [copy_frame].
  destruct Hs as [H1 H2]. split; [exact H1|]. split; [exact H2|].
  intros a g Ha Hv. apply (Hd a g Hfp0 Ha Hv).
Qed.

Lemma existsb_false_forall {A} (f : A -> bool) l : existsb f l = false -> forall x, In x l -> f x = false.
Proof.
  intros H x Hx. destruct (f x) eqn:E; [|reflexivity].
  assert (existsb f l = true) by (apply existsb_exists; exists x; split; assumption). congruence.
Qed.

Theorem copy_labels_perfect_frames ulo db gtL prL :
  is_copy_l gtL prL -> distinct_videos (fst gtL) -> distinct_frames (snd gtL) -> all_take_part ulo (snd gtL) ->
  diag_one (find_pairs ulo db gtL prL) ->
  labels_selector_F16x ulo db gtL prL = (false, false) ->
  Forall perfect_frame (find_pairs ulo db gtL prL).
Proof.
  intros Hc Hdv Hdf Hall Hd Hsel. unfold labels_selector_F16x in Hsel. inversion Hsel as [[H160 H161]].
  pose proof (copy_labels_copy_frames ulo db gtL prL Hc Hdv Hdf Hall Hd) as Hcf.
  rewrite Forall_forall in Hcf. apply Forall_forall. intros fp Hfp.
  apply perfect_frame_of_selectors; [apply Hcf; exact Hfp| |].
  - exact (existsb_false_forall _ _ H160 fp Hfp).
  - rewrite H160 in H161. exact (existsb_false_forall _ _ H161 fp Hfp).
Qed.

Theorem copy_labels_perfect_report fx ulo thr n db gtL prL mthrs rthrs pthrs :
  is_copy_l gtL prL -> distinct_videos (fst gtL) -> distinct_frames (snd gtL) -> all_take_part ulo (snd gtL) ->
  diag_one (find_pairs ulo db gtL prL) ->
  labels_selector_F16x ulo db gtL prL = (false, false) ->
  concat (map frame_gts (find_pairs ulo db gtL prL)) <> [] ->
  thr < 1 -> mthrs <> [] -> rthrs <> [] ->
  Forall (fun t => t <= 1) mthrs -> Forall (fun r => r <= 1) rthrs ->
  exists rep v q,
    evaluate round_f64 fx ulo thr n db gtL prL mthrs rthrs pthrs = Ok rep /\
    r_nfn rep = 0%nat /\
    r_moks rep = Some q /\ q == 1 /\
    Forall (Forall (fun d => match d with None => True | Some x => x == 0 end)) (r_d2 rep) /\
    r_voc rep = Some v /\
    Forall (fun row => vr_recall row == 1 /\ / (1 + eps) <= vr_ap row <= 1) (voc_rows v) /\
    / (1 + eps) <= voc_map v <= 1 /\ voc_mar v == 1.
Proof.
  intros Hc Hdv Hdf Hall Hd Hsel. apply (perfect_report round_f64 round_f64_mono round_f64_1).
  apply copy_labels_perfect_frames; assumption.
Qed.
