(* LemmasDelLabels.v (C16, proof extension) — the step that notes/C16.md listed as "not proved": deleting
   predicted instance k of the prediction frame at position j of the prediction Labels (`del_inst`; the
   OKS table loses that column in every entry of frame j: `del_db`) changes `find_pairs_pos` only by
   `del_pred k` in the frame pairs that hold frame j.  Hence clause (e) for the labels themselves:
   outside `labels_selector_F6` (the executable selector the harness evaluates) no reported recall of
   `evaluate round_f64` grows. *)
From Coq Require Import List Arith ZArith QArith Bool Permutation Lia Lqa.
Import ListNotations.
From SV Require Import C15.Oks C15.Lemmas C16.Metrics C16.Lemmas C16.LemmasPairs C16.LemmasDelete
  C16.LemmasDelete2 C16.LemmasRound C16.LemmasReport.
Local Open Scope Q_scope.

Fixpoint upd_at {A} (j : nat) (h : A -> A) (l : list A) : list A :=
  match l, j with
  | [], _ => []
  | x :: t, O => h x :: t
  | x :: t, S j' => x :: upd_at j' h t
  end.
Definition del_inst_frame (k : nat) (f : lframe) : lframe :=
  LF (lf_video f) (lf_idx f) (pop_at k (lf_insts f)).
Definition del_inst (j k : nat) (prL : labels) : labels := (fst prL, upd_at j (del_inst_frame k) (snd prL)).
Definition del_db (j k : nat) (db : oksdb) : oksdb :=
  map (fun e : nat * nat * smatrix =>
         let '(a, b, M) := e in if (b =? j)%nat then (a, b, pop_col k M) else e) db.
(* what happens to a positioned frame pair *)
Definition del_in_pair (j k : nat) (x : (nat * nat) * (gframe * pframe)) : (nat * nat) * (gframe * pframe) :=
  if (snd (fst x) =? j)%nat then (fst x, del_pred k (snd x)) else x.

Section Scan.
  Variables (vi idx : nat) (h : lframe -> lframe).
  Hypothesis Hh : forall f, frame_matches vi idx (h f) = frame_matches vi idx f.
  Definition tr (J : nat) (o : option (nat * lframe)) : option (nat * lframe) :=
    match o with Some (a, f) => Some (a, if (a =? J)%nat then h f else f) | None => None end.

  Lemma scan_tr_later J : forall t s acc, (J < s)%nat ->
    fold_left (scan_step vi idx) t (s, tr J acc) =
    (fst (fold_left (scan_step vi idx) t (s, acc)), tr J (snd (fold_left (scan_step vi idx) t (s, acc)))).
  Proof.
    induction t as [|x t IH]; intros s acc Hs; [reflexivity|].
    cbn [fold_left]. unfold scan_step at 2 4 6. cbn [fst snd].
    replace (if frame_matches vi idx x then Some (s, x) else tr J acc)
      with (tr J (if frame_matches vi idx x then Some (s, x) else acc)).
    - apply IH. lia.
    - destruct (frame_matches vi idx x); [|reflexivity]. cbn [tr].
      destruct (s =? J)%nat eqn:E; [apply Nat.eqb_eq in E; lia|reflexivity].
  Qed.

  Lemma scan_upd : forall fs j s acc,
    fold_left (scan_step vi idx) (upd_at j h fs) (s, tr (s + j) acc) =
    (fst (fold_left (scan_step vi idx) fs (s, acc)), tr (s + j) (snd (fold_left (scan_step vi idx) fs (s, acc)))).
  Proof.
    induction fs as [|x t IH]; intros j s acc; [destruct j; reflexivity|].
    destruct j as [|j]; cbn [upd_at fold_left].
    - unfold scan_step at 2 4 6. cbn [fst snd]. rewrite Hh, Nat.add_0_r.
      replace (if frame_matches vi idx x then Some (s, h x) else tr s acc)
        with (tr s (if frame_matches vi idx x then Some (s, x) else acc)).
      + apply scan_tr_later. lia.
      + destruct (frame_matches vi idx x); [|reflexivity]. cbn [tr]. rewrite Nat.eqb_refl. reflexivity.
    - unfold scan_step at 2 4 6. cbn [fst snd].
      replace (s + S j)%nat with (S s + j)%nat by lia.
      replace (if frame_matches vi idx x then Some (s, x) else tr (S s + j) acc)
        with (tr (S s + j) (if frame_matches vi idx x then Some (s, x) else acc)).
      + apply IH.
      + destruct (frame_matches vi idx x); [|reflexivity]. cbn [tr].
        destruct (s =? S s + j)%nat eqn:E; [apply Nat.eqb_eq in E; lia|reflexivity].
  Qed.

  Lemma get_frame_upd fs j : get_frame vi idx (upd_at j h fs) = tr j (get_frame vi idx fs).
  Proof.
    unfold get_frame. pose proof (scan_upd fs j 0%nat None) as H. cbn [tr Nat.add] in H.
    rewrite H. reflexivity.
  Qed.
End Scan.

Lemma pop_at_map {A B} (g : A -> B) k : forall l, pop_at k (map g l) = map g (pop_at k l).
Proof. intros l. unfold pop_at. rewrite map_app, firstn_map, skipn_map. reflexivity. Qed.

Lemma keep_rows_map {A B} (g : A -> B) : forall flags (l : list A),
  keep_rows flags (map g l) = map g (keep_rows flags l).
Proof.
  unfold keep_rows. induction flags as [|b fl IH]; intros l; [reflexivity|].
  destruct l as [|x l]; [reflexivity|]. cbn [map zip filter fst]. destruct b; cbn [map snd]; rewrite IH; reflexivity.
Qed.

Lemma db_get_del j k i j' : forall db,
  db_get (del_db j k db) i j' = if (j' =? j)%nat then pop_col k (db_get db i j') else db_get db i j'.
Proof.
  induction db as [|[[a b] M] db IH]; [cbn; destruct (j' =? j)%nat; reflexivity|].
  cbn [del_db map db_get]. fold (del_db j k db).
  destruct (b =? j)%nat eqn:Eb; cbn [db_get]; destruct (a =? i)%nat eqn:Ea, (b =? j')%nat eqn:Eb'; cbn [andb];
    try exact IH.
  - apply Nat.eqb_eq in Eb, Eb'. subst. rewrite Nat.eqb_refl. reflexivity.
  - apply Nat.eqb_neq in Eb. apply Nat.eqb_eq in Eb'. subst.
    destruct (j' =? j)%nat eqn:E; [apply Nat.eqb_eq in E; congruence|reflexivity].
Qed.

Lemma frame_matches_del vi idx k f : frame_matches vi idx (del_inst_frame k f) = frame_matches vi idx f.
Proof. reflexivity. Qed.

Lemma pair_frame_del ulo db vp prfs j k gi :
  pair_frame ulo (del_db j k db) vp (upd_at j (del_inst_frame k) prfs) gi =
  map (del_in_pair j k) (pair_frame ulo db vp prfs gi).
Proof.
  destruct gi as [i f]. unfold pair_frame.
  destruct (ulo && (length (keep_rows (gt_flags ulo f) (map fst (lf_insts f))) =? 0)%nat); [reflexivity|].
  rewrite (get_frame_upd vp (lf_idx f) (del_inst_frame k) (frame_matches_del vp (lf_idx f) k)).
  destruct (get_frame vp (lf_idx f) prfs) as [[j' pf]|]; [|reflexivity].
  cbn [tr map]. unfold del_in_pair. cbn [fst snd]. rewrite db_get_del.
  destruct (j' =? j)%nat; [|reflexivity].
  cbn [del_pred del_inst_frame lf_idx lf_insts]. unfold pop_col.
  rewrite (keep_rows_map (pop_at k) (gt_flags ulo f) (db_get db i j')), !pop_at_map. reflexivity.
Qed.

Lemma flat_map_map_ext {A B} (F : B -> B) (g g' : A -> list B) : forall l,
  (forall a, g' a = map F (g a)) -> flat_map g' l = map F (flat_map g l).
Proof.
  induction l as [|a l IH]; intros H; [reflexivity|]. cbn [flat_map]. rewrite map_app, H, IH; auto.
Qed.

Theorem find_pairs_pos_del ulo db gtL prL j k :
  find_pairs_pos ulo (del_db j k db) gtL (del_inst j k prL) =
  map (del_in_pair j k) (find_pairs_pos ulo db gtL prL).
Proof.
  unfold find_pairs_pos, del_inst. cbn [fst snd]. apply flat_map_map_ext. intros vk.
  destruct (find_video (snd vk) (fst prL) 0) as [vp|]; [|reflexivity].
  apply flat_map_map_ext. intros gi. apply pair_frame_del.
Qed.

(* the frame pairs that hold prediction frame j carry exactly that frame's instances *)
Lemma pair_at_j_length ulo db gtL prL i j fp pf :
  In ((i, j), fp) (find_pairs_pos ulo db gtL prL) -> nth_error (snd prL) j = Some pf ->
  length (snd (snd fp)) = length (lf_insts pf).
Proof.
  intros Hin Hn. apply in_find_pairs_pos in Hin.
  destruct Hin as [f [vk [vp [pf' [_ [_ [_ [Hg [_ ->]]]]]]]]].
  apply get_frame_some in Hg. destruct Hg as [Hg _]. rewrite Hn in Hg. inversion Hg; subst pf'.
  unfold the_pair. cbn [snd]. apply map_length.
Qed.

Theorem find_pairs_deleted_in ulo thr db gtL prL j k pf :
  nth_error (snd prL) j = Some pf -> (k < length (lf_insts pf))%nat ->
  labels_selector_F6 ulo thr db gtL prL j k = false ->
  Forall2 (deleted_in thr) (find_pairs ulo db gtL prL) (find_pairs ulo (del_db j k db) gtL (del_inst j k prL)).
Proof.
  intros Hn Hk Hsel. unfold find_pairs. rewrite find_pairs_pos_del.
  unfold labels_selector_F6 in Hsel.
  assert (Hall : forall x, In x (find_pairs_pos ulo db gtL prL) ->
                 ((snd (fst x) =? j)%nat && frame_selector_F6 thr (snd x) k) = false).
  { intros x Hx. destruct ((snd (fst x) =? j)%nat && frame_selector_F6 thr (snd x) k) eqn:E; [|reflexivity].
    assert (existsb (fun x : (nat * nat) * (gframe * pframe) =>
                       (snd (fst x) =? j)%nat && frame_selector_F6 thr (snd x) k)
                    (find_pairs_pos ulo db gtL prL) = true) by (apply existsb_exists; exists x; split; assumption).
    congruence. }
  assert (Hlen : forall x, In x (find_pairs_pos ulo db gtL prL) -> snd (fst x) = j ->
                 length (snd (snd (snd x))) = length (lf_insts pf)).
  { intros [[i j'] fp] Hx Hj. cbn [fst snd] in Hj. subst j'. cbn [snd]. eapply pair_at_j_length; eassumption. }
  clear Hsel. induction (find_pairs_pos ulo db gtL prL) as [|x l IH]; cbn [map]; constructor.
  - unfold del_in_pair. destruct (snd (fst x) =? j)%nat eqn:E; [|left; reflexivity].
    right. exists k. pose proof (Hall x (or_introl eq_refl)) as Hs. rewrite E in Hs. cbn [andb] in Hs.
    apply Nat.eqb_eq in E. split; [rewrite (Hlen x (or_introl eq_refl) E); exact Hk|].
    split; [exact Hs|reflexivity].
  - apply IH; intros y Hy; [apply Hall|apply Hlen]; right; exact Hy.
Qed.

(* clause (e) for the labels: delete one predicted instance outside the executable selector; no recall of the
   report grows, pairs + false negatives are conserved *)
Theorem evaluate_delete_labels fx ulo thr n db gtL prL j k pf m r kk rep rep' v v' :
  nth_error (snd prL) j = Some pf -> (k < length (lf_insts pf))%nat ->
  labels_selector_F6 ulo thr db gtL prL j k = false ->
  evaluate round_f64 fx ulo thr n db gtL prL m r kk = Ok rep ->
  evaluate round_f64 fx ulo thr n (del_db j k db) gtL (del_inst j k prL) m r kk = Ok rep' ->
  r_voc rep = Some v -> r_voc rep' = Some v' ->
  Forall2 (fun row' row => vr_recall row' <= vr_recall row) (voc_rows v') (voc_rows v).
Proof.
  intros Hn Hk Hsel. apply (evaluate_delete round_f64 round_f64_mono).
  eapply find_pairs_deleted_in; eassumption.
Qed.

(* the deletion never makes the Evaluator fail or succeed differently: the same gt frames are paired *)
Theorem find_pairs_del_same_frames ulo db gtL prL j k :
  map fst (find_pairs_pos ulo (del_db j k db) gtL (del_inst j k prL)) = map fst (find_pairs_pos ulo db gtL prL) /\
  map (fun x : (nat * nat) * (gframe * pframe) => fst (snd x))
      (find_pairs_pos ulo (del_db j k db) gtL (del_inst j k prL)) =
  map (fun x : (nat * nat) * (gframe * pframe) => let '(i, g, M) := fst (snd x) in
         (i, g, if (snd (fst x) =? j)%nat then pop_col k M else M)) (find_pairs_pos ulo db gtL prL).
Proof.
  rewrite find_pairs_pos_del, !map_map. split; apply map_ext; intros [[i j'] [[[gi gts] M] [[pj prs] sc]]];
    unfold del_in_pair; cbn [fst snd]; destruct (j' =? j)%nat; reflexivity.
Qed.
