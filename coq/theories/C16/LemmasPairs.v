(* LemmasPairs.v (C16) — proofs about the labels-level part of the model: find_frame_pairs over
   several videos (find_video, frames_of, get_frame, find_pairs_pos) and the conservation of gt
   instances through match_frames / process. *)
From Coq Require Import List Arith ZArith QArith Bool Permutation Lia.
Import ListNotations.
From SV Require Import C15.Oks C15.Lemmas C16.Metrics C16.Lemmas.

(* ---- enum ---- *)
Lemma in_zip_seq {A} (l : list A) : forall s i x,
  In (i, x) (zip (seq s (length l)) l) <-> (s <= i)%nat /\ nth_error l (i - s) = Some x.
Proof.
  induction l as [|a l IH]; intros s i x; cbn [length seq zip].
  - split; [intros []|]. intros [_ H]. destruct (i - s)%nat; discriminate.
  - cbn [In]. rewrite IH. split.
    + intros [H|[H1 H2]].
      * inversion H; subst. split; [lia|]. rewrite Nat.sub_diag. reflexivity.
      * split; [lia|]. replace (i - s)%nat with (S (i - S s)) by lia. exact H2.
    + intros [H1 H2]. destruct (Nat.eq_dec i s) as [E|E].
      * left. subst. rewrite Nat.sub_diag in H2. cbn in H2. inversion H2. reflexivity.
      * right. split; [lia|]. replace (i - s)%nat with (S (i - S s)) in H2 by lia. exact H2.
Qed.

Lemma in_enum {A} (l : list A) i x : In (i, x) (enum l) <-> nth_error l i = Some x.
Proof. unfold enum. rewrite in_zip_seq, Nat.sub_0_r. split; [intros [_ H]; exact H|intros H; split; [lia|exact H]]. Qed.

Lemma map_fst_zip_seq {A} (l : list A) : forall s, map fst (zip (seq s (length l)) l) = seq s (length l).
Proof. induction l as [|a l IH]; intros s; cbn [length seq zip map]; [reflexivity|]. rewrite IH. reflexivity. Qed.

Lemma enum_fst_nodup {A} (l : list A) : NoDup (map fst (enum l)).
Proof. unfold enum. rewrite map_fst_zip_seq. apply seq_NoDup. Qed.

(* ---- find_video: the FIRST video with an equal key ---- *)
Lemma find_video_spec k : forall vs pos p,
  find_video k vs pos = Some p <->
  (pos <= p)%nat /\ (exists k', nth_error vs (p - pos) = Some k' /\ vkey_eqb k' k = true) /\
  (forall q k', (q < p - pos)%nat -> nth_error vs q = Some k' -> vkey_eqb k' k = false).
Proof.
  induction vs as [|v vs IH]; intros pos p; cbn [find_video].
  - split; [discriminate|]. intros [_ [[k' [H _]] _]]. destruct (p - pos)%nat; discriminate.
  - destruct (vkey_eqb v k) eqn:E.
    + split.
      * intros H. inversion H; subst. rewrite Nat.sub_diag. split; [lia|]. split; [exists v; split; [reflexivity|exact E]|].
        intros q k' Hq. lia.
      * intros [H1 [[k' [H2 H3]] H4]]. destruct (p - pos)%nat as [|d] eqn:Ed; [f_equal; lia|].
        specialize (H4 0%nat v ltac:(lia) eq_refl). congruence.
    + rewrite IH. split.
      * intros [H1 [[k' [H2 H3]] H4]]. split; [lia|]. replace (p - pos)%nat with (S (p - S pos)) by lia. split.
        -- exists k'. split; [exact H2|exact H3].
        -- intros [|q] k'' Hq Hn; [cbn in Hn; inversion Hn; subst; exact E|]. apply (H4 q); [lia|exact Hn].
      * intros [H1 [[k' [H2 H3]] H4]]. destruct (p - pos)%nat as [|d] eqn:Ed.
        -- cbn in H2. inversion H2; subst. congruence.
        -- split; [lia|]. replace (p - S pos)%nat with d by lia. split; [exists k'; split; [exact H2|exact H3]|].
           intros q k'' Hq Hn. apply (H4 (S q)); [lia|exact Hn].
Qed.

(* ---- get_frame: the LAST frame of the video with that index ---- *)
Lemma scan_fst vi idx : forall fs st, fst (fold_left (scan_step vi idx) fs st) = (fst st + length fs)%nat.
Proof. induction fs as [|f fs IH]; intros st; cbn [fold_left length]; [lia|]. rewrite IH. cbn [scan_step fst]. lia. Qed.

Lemma get_frame_snoc vi idx fs f :
  get_frame vi idx (fs ++ [f]) = if frame_matches vi idx f then Some (length fs, f) else get_frame vi idx fs.
Proof.
  unfold get_frame. rewrite fold_left_app. cbn [fold_left scan_step snd].
  rewrite scan_fst. cbn [fst]. reflexivity.
Qed.

Lemma get_frame_some vi idx : forall fs j x, get_frame vi idx fs = Some (j, x) ->
  nth_error fs j = Some x /\ frame_matches vi idx x = true /\
  (forall j' x', (j < j')%nat -> nth_error fs j' = Some x' -> frame_matches vi idx x' = false).
Proof.
  induction fs as [|f fs IH] using rev_ind; intros j x H; [discriminate|].
  rewrite get_frame_snoc in H. destruct (frame_matches vi idx f) eqn:E.
  - inversion H; subst. split; [rewrite nth_error_app2 by lia; rewrite Nat.sub_diag; reflexivity|].
    split; [exact E|]. intros j' x' Hj Hn.
    assert (Hs : nth_error (fs ++ [x]) j' <> None) by congruence. apply nth_error_Some in Hs.
    rewrite app_length in Hs. cbn in Hs. lia.
  - destruct (IH j x H) as [H1 [H2 H3]].
    assert (Hj : (j < length fs)%nat) by (apply nth_error_Some; congruence).
    split; [rewrite nth_error_app1 by exact Hj; exact H1|]. split; [exact H2|].
    intros j' x' Hlt Hn. destruct (Nat.lt_ge_cases j' (length fs)) as [Hl|Hl].
    + rewrite nth_error_app1 in Hn by exact Hl. apply (H3 j' x' Hlt Hn).
    + rewrite nth_error_app2 in Hn by exact Hl. destruct (j' - length fs)%nat as [|d]; [|destruct d; discriminate].
      cbn in Hn. inversion Hn; subst. exact E.
Qed.

Lemma get_frame_none vi idx : forall fs, get_frame vi idx fs = None ->
  forall j x, nth_error fs j = Some x -> frame_matches vi idx x = false.
Proof.
  induction fs as [|f fs IH] using rev_ind; intros H j x Hn; [destruct j; discriminate|].
  rewrite get_frame_snoc in H. destruct (frame_matches vi idx f) eqn:E; [discriminate|].
  destruct (Nat.lt_ge_cases j (length fs)) as [Hl|Hl].
  - rewrite nth_error_app1 in Hn by exact Hl. apply (IH H j x Hn).
  - rewrite nth_error_app2 in Hn by exact Hl. destruct (j - length fs)%nat as [|d]; [|destruct d; discriminate].
    cbn in Hn. inversion Hn; subst. exact E.
Qed.

(* ---- frames_of ---- *)
Lemma in_frames_of vi fs i f :
  In (i, f) (frames_of vi fs) <-> nth_error fs i = Some f /\ lf_video f = vi.
Proof.
  unfold frames_of. rewrite filter_In, in_enum. cbn [snd]. rewrite Nat.eqb_eq. reflexivity.
Qed.

(* ---- find_pairs_pos: exactly the pairs find_frame_pairs forms ---- *)
Definition gt_poses (ulo : bool) (f : lframe) : list pose := keep_rows (gt_flags ulo f) (map fst (lf_insts f)).
Definition the_pair (ulo : bool) (db : oksdb) (i j : nat) (f pf : lframe) : gframe * pframe :=
  ((lf_idx f, gt_poses ulo f, keep_rows (gt_flags ulo f) (db_get db i j)),
   (lf_idx pf, map fst (lf_insts pf), map score_of (lf_insts pf))).

Lemma in_pair_frame ulo db vp prfs i f i' j fp :
  In ((i', j), fp) (pair_frame ulo db vp prfs (i, f)) <->
  i' = i /\ (ulo = true -> gt_poses ulo f <> []) /\
  exists pf, get_frame vp (lf_idx f) prfs = Some (j, pf) /\ fp = the_pair ulo db i j f pf.
Proof.
  unfold pair_frame. fold (gt_poses ulo f).
  destruct (ulo && (length (gt_poses ulo f) =? 0)%nat) eqn:E.
  - split; [intros []|]. intros [_ [H _]]. apply andb_true_iff in E. destruct E as [E1 E2].
    apply Nat.eqb_eq in E2. destruct (gt_poses ulo f); [exfalso; apply (H E1); reflexivity|discriminate].
  - assert (Hne : ulo = true -> gt_poses ulo f <> []).
    { intros Hu. subst ulo. cbn [andb] in E. apply Nat.eqb_neq in E. intros Hn. rewrite Hn in E. apply E. reflexivity. }
    destruct (get_frame vp (lf_idx f) prfs) as [[j0 pf]|] eqn:G.
    + cbn [In]. split.
      * intros [H|[]]. inversion H; subst. split; [reflexivity|]. split; [exact Hne|].
        exists pf. split; reflexivity.
      * intros [Hi [_ [pf' [Hg Hfp]]]]. inversion Hg; subst. left. reflexivity.
    + split; [intros []|]. intros [_ [_ [pf [Hg _]]]]. discriminate.
Qed.

Theorem in_find_pairs_pos ulo db gtL prL i j fp :
  In ((i, j), fp) (find_pairs_pos ulo db gtL prL) <->
  exists f vk vp pf,
    nth_error (snd gtL) i = Some f /\ nth_error (fst gtL) (lf_video f) = Some vk /\
    find_video vk (fst prL) 0 = Some vp /\ get_frame vp (lf_idx f) (snd prL) = Some (j, pf) /\
    (ulo = true -> gt_poses ulo f <> []) /\ fp = the_pair ulo db i j f pf.
Proof.
  unfold find_pairs_pos. rewrite in_flat_map. split.
  - intros [[vi vk] [Hv Hin]]. apply in_enum in Hv. cbn [fst snd] in Hin.
    destruct (find_video vk (fst prL) 0) as [vp|] eqn:Fv; [|destruct Hin].
    apply in_flat_map in Hin. destruct Hin as [[i0 f] [Hf Hp]].
    apply in_frames_of in Hf. destruct Hf as [Hn Hvid].
    apply in_pair_frame in Hp. destruct Hp as [Hi [Hne [pf [Hg Hfp]]]]. subst i0.
    exists f, vk, vp, pf. rewrite Hvid. repeat split; assumption.
  - intros [f [vk [vp [pf [Hn [Hv [Fv [Hg [Hne Hfp]]]]]]]]].
    exists (lf_video f, vk). split; [apply in_enum; exact Hv|]. cbn [fst snd]. rewrite Fv.
    apply in_flat_map. exists (i, f). split; [apply in_frames_of; split; [exact Hn|reflexivity]|].
    apply in_pair_frame. split; [reflexivity|]. split; [exact Hne|]. exists pf. split; assumption.
Qed.

(* every gt frame is used at most once (a frame belongs to one Video object) *)
Lemma pair_frame_fst ulo db vp prfs gi x : In x (pair_frame ulo db vp prfs gi) -> fst (fst x) = fst gi.
Proof.
  destruct gi as [i f]. destruct x as [[i' j] fp]. intros H. apply in_pair_frame in H. destruct H as [H _]. exact H.
Qed.

Lemma pair_frame_length ulo db vp prfs gi : (length (pair_frame ulo db vp prfs gi) <= 1)%nat.
Proof.
  destruct gi as [i f]. unfold pair_frame. destruct (ulo && _); [cbn; lia|].
  destruct (get_frame vp (lf_idx f) prfs) as [[j pf]|]; cbn; lia.
Qed.

Lemma nodup_flat_map_keys {A B} (key : B -> nat) (ka : A -> nat) (g : A -> list B) : forall l,
  NoDup (map ka l) ->
  (forall a, In a l -> NoDup (map key (g a))) ->
  (forall a b, In a l -> In b (g a) -> key b = ka a) ->
  NoDup (map key (flat_map g l)).
Proof.
  induction l as [|a l IH]; intros Hnd Hin Hk; [constructor|].
  cbn [flat_map]. rewrite map_app. inversion Hnd as [|x xs Hnot Hnd']; subst.
  assert (Hrest : NoDup (map key (flat_map g l))).
  { apply IH; [exact Hnd'|intros a' Ha'; apply Hin; right; exact Ha'|intros a' b Ha' Hb; apply (Hk a' b); [right; exact Ha'|exact Hb]]. }
  assert (Hhead : NoDup (map key (g a))) by (apply Hin; left; reflexivity).
  assert (Hka : forall b, In b (g a) -> key b = ka a) by (intros b Hb; apply (Hk a b); [left; reflexivity|exact Hb]).
  assert (Hkl : forall a' b, In a' l -> In b (g a') -> key b = ka a') by (intros a' b Ha' Hb; apply (Hk a' b); [right; exact Ha'|exact Hb]).
  clear IH Hnd Hnd' Hin Hk. induction (g a) as [|b bs IHb]; [exact Hrest|].
  cbn [map app]. inversion Hhead as [|y ys Hnb Hbs]; subst. constructor.
  - intros Hc. apply in_app_or in Hc. destruct Hc as [Hc|Hc]; [exact (Hnb Hc)|].
    apply in_map_iff in Hc. destruct Hc as [b' [Hkb Hb']]. apply in_flat_map in Hb'. destruct Hb' as [a' [Ha' Hb']].
    apply Hnot. apply in_map_iff. exists a'. split; [|exact Ha'].
    rewrite <- (Hkl a' b' Ha' Hb'), Hkb. apply Hka. left. reflexivity.
  - apply IHb; [exact Hbs|]. intros b0 Hb0. apply Hka. right. exact Hb0.
Qed.

Lemma frames_of_fst_nodup vi fs : NoDup (map fst (frames_of vi fs)).
Proof.
  unfold frames_of. generalize (enum_fst_nodup fs). induction (enum fs) as [|x l IH]; intros H; [constructor|].
  cbn [filter]. inversion H as [|y ys Hn Hl]; subst. destruct (lf_video (snd x) =? vi)%nat.
  - cbn [map]. constructor; [|apply IH; exact Hl]. intros Hc. apply Hn.
    apply in_map_iff in Hc. destruct Hc as [z [Hz Hin]]. apply filter_In in Hin. apply in_map_iff. exists z. tauto.
  - apply IH. exact Hl.
Qed.

Theorem find_pairs_gt_once ulo db gtL prL :
  NoDup (map (fun x : (nat * nat) * (gframe * pframe) => fst (fst x)) (find_pairs_pos ulo db gtL prL)).
Proof.
  unfold find_pairs_pos.
  (* frames of different videos are different frames: key the outer level by the gt frame position too *)
  assert (H : forall vks : list (nat * vkey), NoDup (map fst vks) ->
    NoDup (map (fun x : (nat * nat) * (gframe * pframe) => fst (fst x))
      (flat_map (fun vk : nat * vkey =>
         match find_video (snd vk) (fst prL) 0 with
         | None => []
         | Some vp => flat_map (pair_frame ulo db vp (snd prL)) (frames_of (fst vk) (snd gtL))
         end) vks))).
  { induction vks as [|vk vks IH]; intros Hnd; [constructor|].
    cbn [flat_map]. rewrite map_app. inversion Hnd as [|y ys Hnot Hnd']; subst.
    specialize (IH Hnd').
    set (here := match find_video (snd vk) (fst prL) 0 with
                 | None => []
                 | Some vp => flat_map (pair_frame ulo db vp (snd prL)) (frames_of (fst vk) (snd gtL))
                 end).
    assert (Hhere : NoDup (map (fun x : (nat * nat) * (gframe * pframe) => fst (fst x)) here)).
    { unfold here. destruct (find_video (snd vk) (fst prL) 0) as [vp|]; [|constructor].
      apply (nodup_flat_map_keys (fun x : (nat * nat) * (gframe * pframe) => fst (fst x)) fst).
      - apply frames_of_fst_nodup.
      - intros gi _. pose proof (pair_frame_length ulo db vp (snd prL) gi) as Hl.
        destruct (pair_frame ulo db vp (snd prL) gi) as [|a [|b r]]; cbn in Hl; try lia; cbn; repeat constructor; intros [].
      - intros gi x _ Hx. apply (pair_frame_fst _ _ _ _ _ _ Hx). }
    (* an element of `here` is a frame of video (fst vk); the rest are frames of other videos *)
    assert (Hvid : forall x, In x here -> exists f, nth_error (snd gtL) (fst (fst x)) = Some f /\ lf_video f = fst vk).
    { unfold here. intros x Hx. destruct (find_video (snd vk) (fst prL) 0) as [vp|]; [|destruct Hx].
      apply in_flat_map in Hx. destruct Hx as [[i f] [Hf Hp]]. apply pair_frame_fst in Hp. cbn [fst] in Hp.
      apply in_frames_of in Hf. exists f. rewrite Hp. exact Hf. }
    clearbody here. induction here as [|b bs IHb]; [exact IH|].
    cbn [map app]. inversion Hhere as [|z zs Hnb Hbs]; subst. constructor.
    - intros Hc. apply in_app_or in Hc. destruct Hc as [Hc|Hc]; [exact (Hnb Hc)|].
      apply in_map_iff in Hc. destruct Hc as [b' [Hkb Hb']]. apply in_flat_map in Hb'. destruct Hb' as [vk' [Hvk' Hb']].
      destruct (find_video (snd vk') (fst prL) 0) as [vp'|]; [|destruct Hb'].
      apply in_flat_map in Hb'. destruct Hb' as [[i' f'] [Hf' Hp']]. apply pair_frame_fst in Hp'. cbn [fst] in Hp'.
      apply in_frames_of in Hf'. destruct Hf' as [Hn' Hv'].
      destruct (Hvid b (or_introl eq_refl)) as [f [Hn Hv]].
      rewrite <- Hkb, Hp', Hn' in Hn. inversion Hn; subst f'. apply Hnot. rewrite <- Hv, Hv'.
      apply in_map. exact Hvk'.
    - apply IHb; [exact Hbs|]. intros x Hx. apply Hvid. right. exact Hx. }
  apply H. apply enum_fst_nodup.
Qed.

(* ---- conservation: pairs + false negatives = every participating gt instance of the paired frames ---- *)
Lemma pairs_of_frame_count fx thr fp ps fn :
  pairs_of_frame fx thr fp = Some (ps, fn) -> (length ps + fn = length (frame_gts fp))%nat.
Proof.
  destruct fp as [[[gi gts] M] [[pi prs] scores]]. unfold pairs_of_frame, frame_gts. cbn [fst snd].
  destruct (match_instances fx (length gts) scores M thr) as [[ms missed]|] eqn:E; [|discriminate].
  intros H. inversion H; subst. rewrite map_length.
  apply match_instances_spec in E. destruct E as [_ [_ [Hperm _]]].
  apply Permutation_length in Hperm. rewrite app_length, map_length, seq_length in Hperm. exact Hperm.
Qed.

Lemma match_frames_count fx thr : forall fps pps nfn,
  match_frames fx thr fps = Some (pps, nfn) ->
  (length pps + nfn = fold_right Nat.add 0 (map (fun fp => length (frame_gts fp)) fps))%nat.
Proof.
  induction fps as [|fp fps IH]; intros pps nfn H; cbn [match_frames] in H.
  - inversion H; subst. reflexivity.
  - destruct (pairs_of_frame fx thr fp) as [[ps fn]|] eqn:E1; [|discriminate].
    destruct (match_frames fx thr fps) as [[ps' fn']|] eqn:E2; [|discriminate].
    inversion H; subst. cbn [map fold_right]. rewrite app_length.
    rewrite <- (IH ps' fn' eq_refl), <- (pairs_of_frame_count _ _ _ _ _ E1). lia.
Qed.

Theorem process_conservation fx ulo thr db gtL prL pps nfn :
  process fx ulo thr db gtL prL = Ok (pps, nfn) ->
  find_pairs ulo db gtL prL <> [] /\
  (length pps + nfn =
   fold_right Nat.add 0 (map (fun fp => length (frame_gts fp)) (find_pairs ulo db gtL prL)))%nat.
Proof.
  unfold process. destruct (find_pairs ulo db gtL prL) as [|fp fps] eqn:E; [discriminate|].
  destruct (match_frames fx thr (fp :: fps)) as [[ps fn]|] eqn:M; [|discriminate].
  intros H. inversion H; subst. split; [discriminate|]. apply (match_frames_count _ _ _ _ _ M).
Qed.

(* ... and the error cases: no frame pair at all <-> "Empty Frame Pairs"; with F51 repaired matching never fails *)
Lemma match_frames_total thr : forall fps, exists r, match_frames true thr fps = Some r.
Proof.
  induction fps as [|fp fps [r IH]]; [eexists; reflexivity|]. cbn [match_frames]. rewrite IH.
  destruct fp as [[[gi gts] M] [[pi prs] scores]]. unfold pairs_of_frame.
  assert (H : exists r, match_instances true (length gts) scores M thr = Some r).
  { unfold match_instances. destruct (length gts); [destruct scores|]; eexists; reflexivity. }
  destruct H as [[ms missed] H]. rewrite H. destruct r as [ps' fn']. eexists; reflexivity.
Qed.

Theorem process_outcome ulo thr db gtL prL :
  (find_pairs ulo db gtL prL = [] /\ process true ulo thr db gtL prL = ErrEmpty) \/
  (find_pairs ulo db gtL prL <> [] /\ exists r, process true ulo thr db gtL prL = Ok r).
Proof.
  unfold process. destruct (find_pairs ulo db gtL prL) as [|fp fps] eqn:E.
  - left. split; reflexivity.
  - right. split; [discriminate|]. destruct (match_frames_total thr (fp :: fps)) as [r Hr]. rewrite Hr.
    exists r. reflexivity.
Qed.

Lemma find_video_first : forall k vs p,
  find_video k vs 0 = Some p <->
  (exists k', nth_error vs p = Some k' /\ vkey_eqb k' k = true) /\
  (forall q k', (q < p)%nat -> nth_error vs q = Some k' -> vkey_eqb k' k = false).
Proof.
  intros k vs p. rewrite (find_video_spec k vs 0 p), Nat.sub_0_r. split.
  - intros [_ H]. exact H.
  - intros H. split; [lia|exact H].
Qed.

Lemma get_frame_last : forall vi idx fs,
  match get_frame vi idx fs with
  | Some (j, x) => nth_error fs j = Some x /\ lf_video x = vi /\ lf_idx x = idx /\
                   (forall j' x', (j < j')%nat -> nth_error fs j' = Some x' -> ~ (lf_video x' = vi /\ lf_idx x' = idx))
  | None => forall j x, nth_error fs j = Some x -> ~ (lf_video x = vi /\ lf_idx x = idx)
  end.
Proof.
  intros vi idx fs.
  assert (Hm : forall x, frame_matches vi idx x = true <-> lf_video x = vi /\ lf_idx x = idx).
  { intros x. unfold frame_matches. rewrite Bool.andb_true_iff, !Nat.eqb_eq. reflexivity. }
  destruct (get_frame vi idx fs) as [[j x]|] eqn:E.
  - destruct (get_frame_some vi idx fs j x E) as [H1 [H2 H3]]. apply Hm in H2. destruct H2 as [H2 H2'].
    repeat split; try assumption. intros j' x' Hlt Hn Hc. apply Hm in Hc. rewrite (H3 j' x' Hlt Hn) in Hc. discriminate.
  - intros j x Hn Hc. apply Hm in Hc. rewrite (get_frame_none vi idx fs E j x Hn) in Hc. discriminate.
Qed.
