(* LemmasDelete2.v (C16) — clause (e), from the index-preserving deletion of LemmasDelete.v to the deletion
   the labels see (Metrics.del_pred): the column of the OKS matrix and the score of the deleted prediction
   disappear, later predictions move down by one and the processing order (argsort_desc) is recomputed. *)
From Coq Require Import List Arith ZArith QArith Bool Permutation Lia Lqa.
Import ListNotations.
From SV Require Import C15.Oks C15.Lemmas C16.Metrics C16.Lemmas C16.LemmasPairs C16.LemmasDelete.
Local Open Scope Q_scope.

(* ---- 1. the executable selector is the selector of LemmasDelete ---- *)
Lemma selector_F6b_iff M thr p o2 ms : selector_F6b M thr p o2 ms = true <-> selector_F6 M thr p o2 ms.
Proof.
  unfold selector_F6b, selector_F6. rewrite existsb_exists. split.
  - intros [[[g p'] v] [Hin H]]. cbn [fst snd] in H. apply andb_true_iff in H. destruct H as [Hp H].
    apply Nat.eqb_eq in Hp. subst p'. apply existsb_exists in H. destruct H as [q [Hq H]].
    destruct (mget M g q) as [x|] eqn:Ex; [|discriminate]. apply andb_true_iff in H. destruct H as [Hlt Hall].
    apply Qltb_true in Hlt. rewrite forallb_forall in Hall.
    exists g, v, q, x. split; [exact Hin|]. split; [exact Hq|]. split; [exact Ex|]. split; [exact Hlt|].
    intros g' v' Hin'. specialize (Hall _ Hin'). cbn [fst snd] in Hall. rewrite Nat.eqb_refl in Hall.
    cbn [negb orb] in Hall. apply Qle_bool_iff. exact Hall.
  - intros [g [v [q [x [Hin [Hq [Ex [Hlt Hall]]]]]]]]. exists (g, p, v). split; [exact Hin|]. cbn [fst snd].
    rewrite Nat.eqb_refl. cbn [andb]. apply existsb_exists. exists q. split; [exact Hq|]. rewrite Ex.
    rewrite (Qltb_true_intro _ _ Hlt). cbn [andb]. apply forallb_forall. intros [[g' q'] v'] Hin'. cbn [fst snd].
    destruct (q' =? q)%nat eqn:E; [|reflexivity]. apply Nat.eqb_eq in E. subst q'. cbn [negb orb].
    apply Qle_bool_iff. apply (Hall g' v' Hin').
Qed.

(* ---- 2. argsort_desc after the removal of one score ---- *)
Definition ren (f : nat -> nat) (x : Q * nat) : Q * nat := (fst x, f (snd x)).

Lemma insert_desc_map f x l : map (ren f) (insert_desc x l) = insert_desc (ren f x) (map (ren f) l).
Proof.
  induction l as [|y t IH]; cbn [insert_desc map]; [reflexivity|].
  change (fst (ren f x)) with (fst x). change (fst (ren f y)) with (fst y).
  destruct (Qltb (fst x) (fst y)); cbn [map]; [rewrite IH|]; reflexivity.
Qed.

Lemma sort_desc_map f l : map (ren f) (sort_desc l) = sort_desc (map (ren f) l).
Proof.
  unfold sort_desc. induction l as [|x l IH]; [reflexivity|]. cbn [fold_right map].
  rewrite insert_desc_map, IH. reflexivity.
Qed.

Fixpoint sorted_desc (l : list (Q * nat)) : Prop :=
  match l with [] => True | y :: t => Forall (fun z => fst z <= fst y) t /\ sorted_desc t end.

Lemma insert_desc_sorted x l : sorted_desc l -> sorted_desc (insert_desc x l).
Proof.
  induction l as [|y t IH]; cbn [insert_desc sorted_desc]; intros H.
  - split; [constructor|exact I].
  - destruct H as [Hall Hs]. destruct (Qltb (fst x) (fst y)) eqn:E.
    + cbn [sorted_desc]. split; [|apply IH; exact Hs].
      apply Qltb_true in E. apply Forall_forall. intros z Hz.
      apply (Permutation_in _ (insert_desc_perm x t)) in Hz. destruct Hz as [Hz|Hz]; [subst z; lra|].
      rewrite Forall_forall in Hall. apply Hall. exact Hz.
    + apply Qltb_false in E. cbn [sorted_desc]. split; [|split; assumption].
      constructor; [exact E|]. eapply Forall_impl; [|exact Hall]. intros z Hz. cbn beta in Hz. lra.
Qed.

Lemma sort_desc_sorted l : sorted_desc (sort_desc l).
Proof.
  unfold sort_desc. induction l as [|x l IH]; [exact I|]. cbn [fold_right]. apply insert_desc_sorted. exact IH.
Qed.

Lemma insert_desc_head x l : Forall (fun z => fst z <= fst x) l -> insert_desc x l = x :: l.
Proof.
  destruct l as [|y t]; [reflexivity|]. intros H. inversion H as [|? ? Hy Ht]; subst. cbn [insert_desc].
  rewrite (Qltb_false_intro _ _ Hy). reflexivity.
Qed.

Lemma insert_desc_filter (P : Q * nat -> bool) x l : sorted_desc l ->
  filter P (insert_desc x l) = if P x then insert_desc x (filter P l) else filter P l.
Proof.
  induction l as [|y t IH]; intros Hs.
  - cbn [insert_desc filter]. destruct (P x); reflexivity.
  - destruct Hs as [Hall Hs]. cbn [insert_desc]. destruct (Qltb (fst x) (fst y)) eqn:E.
    + cbn [filter]. rewrite (IH Hs). destruct (P x) eqn:Px; destruct (P y) eqn:Py; try reflexivity.
      cbn [insert_desc]. rewrite E. reflexivity.
    + change (filter P (x :: y :: t)) with (if P x then x :: filter P (y :: t) else filter P (y :: t)).
      destruct (P x); [|reflexivity]. symmetry. apply insert_desc_head.
      apply Qltb_false in E. apply Forall_forall. intros z Hz. apply filter_In in Hz. destruct Hz as [Hz _].
      destruct Hz as [Hz|Hz]; [subst z; exact E|]. rewrite Forall_forall in Hall. specialize (Hall z Hz).
      cbn beta in Hall. lra.
Qed.

Lemma sort_desc_filter P l : filter P (sort_desc l) = sort_desc (filter P l).
Proof.
  induction l as [|x l IH]; [reflexivity|].
  change (sort_desc (x :: l)) with (insert_desc x (sort_desc l)).
  rewrite insert_desc_filter by apply sort_desc_sorted. cbn [filter]. rewrite IH.
  destruct (P x); reflexivity.
Qed.

Lemma zip_seq_up c : forall (t : list Q) n s, (c <= s)%nat ->
  map (ren (down c)) (filter (fun x : Q * nat => negb (snd x =? c)%nat) (zip t (seq (S s) n))) = zip t (seq s n).
Proof.
  induction t as [|a t IH]; intros n s Hc; [reflexivity|].
  destruct n as [|n]; [reflexivity|].
  change (seq (S s) (S n)) with (S s :: seq (S (S s)) n). change (seq s (S n)) with (s :: seq (S s) n).
  cbn [zip filter snd].
  assert (E : (S s =? c)%nat = false) by (apply Nat.eqb_neq; lia). rewrite E. cbn [negb map].
  rewrite (IH n (S s)) by lia.
  assert (Eh : ren (down c) (a, S s) = (a, s)).
  { unfold ren, down. cbn [fst snd]. assert (E2 : (S s <? c)%nat = false) by (apply Nat.ltb_ge; lia).
    rewrite E2. reflexivity. }
  rewrite Eh. reflexivity.
Qed.

Lemma pop_at_cons {A} p (x : A) t : pop_at (S p) (x :: t) = x :: pop_at p t.
Proof. reflexivity. Qed.

Lemma pop_at_nil {A} p : pop_at p (@nil A) = [].
Proof. destruct p; reflexivity. Qed.

Lemma zip_pop_at : forall p (scores : list Q) s n, length scores = S n -> (p <= n)%nat ->
  zip (pop_at p scores) (seq s n) =
  map (ren (down (s + p))) (filter (fun x : Q * nat => negb (snd x =? s + p)%nat) (zip scores (seq s (S n)))).
Proof.
  induction p as [|p IH]; intros scores s n Hl Hp.
  - destruct scores as [|x t]; [discriminate|]. rewrite Nat.add_0_r.
    change (pop_at 0 (x :: t)) with t. change (seq s (S n)) with (s :: seq (S s) n).
    cbn [zip filter snd]. rewrite Nat.eqb_refl. cbn [negb].
    symmetry. apply zip_seq_up. lia.
  - destruct scores as [|x t]; [discriminate|]. cbn [length] in Hl.
    destruct n as [|n]; [lia|]. rewrite pop_at_cons.
    change (seq s (S (S n))) with (s :: seq (S s) (S n)). change (seq s (S n)) with (s :: seq (S s) n).
    cbn [zip filter snd].
    assert (E : (s =? s + S p)%nat = false) by (apply Nat.eqb_neq; lia). rewrite E. cbn [negb map].
    rewrite (IH t (S s) n) by lia. replace (S s + p)%nat with (s + S p)%nat by lia.
    assert (Eh : ren (down (s + S p)) (x, s) = (x, s)).
    { unfold ren, down. cbn [fst snd]. assert (E2 : (s <? s + S p)%nat = true) by (apply Nat.ltb_lt; lia).
      rewrite E2. reflexivity. }
    rewrite Eh. reflexivity.
Qed.

Lemma pop_at_length {A} p (l : list A) : (p < length l)%nat -> length (pop_at p l) = Nat.pred (length l).
Proof. intros H. unfold pop_at. rewrite app_length, firstn_length, skipn_length. lia. Qed.

Lemma map_snd_filter (f : nat -> bool) (l : list (Q * nat)) :
  map snd (filter (fun x => f (snd x)) l) = filter f (map snd l).
Proof.
  induction l as [|a l IH]; [reflexivity|]. cbn [filter map]. destruct (f (snd a)); cbn [map]; rewrite IH; reflexivity.
Qed.

Lemma argsort_desc_pop_at scores p : (p < length scores)%nat ->
  argsort_desc (pop_at p scores) = map (down p) (filter (fun q => negb (q =? p)%nat) (argsort_desc scores)).
Proof.
  intros Hp. unfold argsort_desc. rewrite (pop_at_length p scores Hp).
  destruct (length scores) as [|n] eqn:El; [lia|]. cbn [Nat.pred].
  rewrite (zip_pop_at p scores 0 n El) by lia. cbn [Nat.add].
  rewrite <- sort_desc_map, <- sort_desc_filter.
  rewrite <- (map_snd_filter (fun q => negb (q =? p)%nat)). rewrite !map_map. reflexivity.
Qed.

Lemma filter_neq_notin p l : ~ In p l -> filter (fun q => negb (q =? p)%nat) l = l.
Proof.
  induction l as [|a l IH]; intros H; [reflexivity|]. cbn [filter].
  assert (E : (a =? p)%nat = false) by (apply Nat.eqb_neq; intros E; apply H; left; exact E).
  rewrite E. cbn [negb]. rewrite IH; [reflexivity|]. intros Hc. apply H. right. exact Hc.
Qed.

Lemma argsort_split_facts scores p o1 o2 : argsort_desc scores = o1 ++ p :: o2 ->
  NoDup (o1 ++ p :: o2) /\ (p < length scores)%nat /\ ~ In p (o1 ++ o2).
Proof.
  intros H.
  assert (Hnd : NoDup (o1 ++ p :: o2)).
  { rewrite <- H. eapply Permutation_NoDup; [apply Permutation_sym; apply argsort_desc_perm|apply seq_NoDup]. }
  split; [exact Hnd|]. split.
  - assert (Hin : In p (argsort_desc scores)) by (rewrite H; apply in_or_app; right; left; reflexivity).
    eapply Permutation_in in Hin; [|apply argsort_desc_perm]. apply in_seq in Hin. lia.
  - apply NoDup_remove_2. exact Hnd.
Qed.

Lemma argsort_desc_pop_at_split scores p o1 o2 : argsort_desc scores = o1 ++ p :: o2 ->
  argsort_desc (pop_at p scores) = map (down p) (o1 ++ o2).
Proof.
  intros H. destruct (argsort_split_facts scores p o1 o2 H) as [_ [Hp Hnot]].
  rewrite (argsort_desc_pop_at scores p Hp), H. rewrite filter_app. cbn [filter]. rewrite Nat.eqb_refl. cbn [negb].
  rewrite <- filter_app. rewrite (filter_neq_notin p _ Hnot). reflexivity.
Qed.

Lemma after_split p o1 o2 : NoDup (o1 ++ p :: o2) -> after p (o1 ++ p :: o2) = o2.
Proof.
  intros Hnd. apply NoDup_remove_2 in Hnd.
  assert (H1 : ~ In p o1) by (intros Hc; apply Hnd; apply in_or_app; left; exact Hc). clear Hnd.
  induction o1 as [|a o1 IH]; cbn [app after].
  - rewrite Nat.eqb_refl. reflexivity.
  - assert (E : (a =? p)%nat = false) by (apply Nat.eqb_neq; intros E; apply H1; left; exact E).
    rewrite E. apply IH. intros Hc. apply H1. right. exact Hc.
Qed.

(* ---- 3. the matching loop on the matrix without column p ---- *)
Lemma down_S p q : q <> p -> down (S p) (S q) = S (down p q).
Proof.
  intros H. unfold down. change (S q <? S p)%nat with (q <? p)%nat.
  destruct (q <? p)%nat eqn:E; [reflexivity|]. apply Nat.ltb_ge in E. destruct q; [lia|reflexivity].
Qed.

Lemma nth_pop_at {A} (d : A) : forall p l q, q <> p -> nth (down p q) (pop_at p l) d = nth q l d.
Proof.
  induction p as [|p IH]; intros l q Hq.
  - destruct q as [|q]; [congruence|]. change (down 0 (S q)) with q.
    destruct l as [|x t]; [destruct q; reflexivity|reflexivity].
  - destruct l as [|x t].
    + rewrite pop_at_nil. destruct (down (S p) q); destruct q; reflexivity.
    + rewrite pop_at_cons. destruct q as [|q]; [reflexivity|]. rewrite down_S by congruence. cbn [nth].
      apply IH. congruence.
Qed.

Lemma mget_pop_col p M g q : q <> p -> mget (pop_col p M) g (down p q) = mget M g q.
Proof.
  intros Hq. unfold mget, pop_col.
  assert (E : nth g (map (pop_at p) M) [] = pop_at p (nth g M [])).
  { transitivity (nth g (map (pop_at p) M) (pop_at p [])); [f_equal; symmetry; apply pop_at_nil|apply map_nth]. }
  rewrite E. apply nth_pop_at. exact Hq.
Qed.

Lemma match_loop_pop_col M thr p : forall order avail, ~ In p order ->
  match_loop (pop_col p M) thr (map (down p) order) avail =
  (map (fun m : mpair => (gt_of m, down p (pr_of m), oks_of m)) (fst (match_loop M thr order avail)),
   snd (match_loop M thr order avail)).
Proof.
  induction order as [|q rest IH]; intros avail Hp; [reflexivity|].
  assert (Hq : q <> p) by (intros E; apply Hp; left; exact E).
  assert (Hrest : ~ In p rest) by (intros E; apply Hp; right; exact E).
  cbn [map match_loop]. destruct avail as [|a0 av] eqn:Eav; [reflexivity|]. rewrite <- Eav. clear Eav a0 av.
  rewrite (map_ext (fun g => mget (pop_col p M) g (down p q)) (fun g => mget M g q))
    by (intros g; apply mget_pop_col; exact Hq).
  destruct (best_pos thr (map (fun g => mget M g q) avail)) as [[pos v]|]; [|apply IH; exact Hrest].
  rewrite (IH _ Hrest). destruct (match_loop M thr rest (pop_at pos avail)) as [ms missed]. reflexivity.
Qed.

(* ---- 4. match_instances on the frame pair without prediction p ---- *)
Lemma match_instances_del_pred fx n scores M thr p o1 o2 ms missed ms' missed' :
  argsort_desc scores = o1 ++ p :: o2 -> (p < length scores)%nat ->
  match_instances fx n scores M thr = Some (ms, missed) ->
  match_instances fx n (pop_at p scores) (pop_col p M) thr = Some (ms', missed') ->
  exists ms0 missed0,
    match_loop M thr (o1 ++ o2) (seq 0 n) = (ms0, missed0) /\
    ms' = map (fun m : mpair => (gt_of m, down p (pr_of m), oks_of m)) ms0 /\
    missed' = missed0 /\
    match_loop M thr (o1 ++ p :: o2) (seq 0 n) = (ms, missed).
Proof.
  intros Ho Hp H H'. destruct n as [|n].
  - exists [], []. cbn [seq]. rewrite !match_loop_nil_avail.
    assert (E : ms = [] /\ missed = []).
    { unfold match_instances in H. destruct scores as [|s0 sc]; [cbn [length] in Hp; lia|].
      destruct fx; [|discriminate]. inversion H; auto. }
    assert (E' : ms' = [] /\ missed' = []).
    { unfold match_instances in H'. destruct (pop_at p scores) as [|s0 sc].
      - cbn [seq] in H'. rewrite match_loop_nil_avail in H'. inversion H'; auto.
      - destruct fx; [|discriminate]. inversion H'; auto. }
    destruct E as [E1 E2]. destruct E' as [E3 E4]. subst. repeat split; reflexivity.
  - assert (Hl : forall sc MM, match_instances fx (S n) sc MM thr =
                               Some (match_loop MM thr (argsort_desc sc) (seq 0 (S n)))) by reflexivity.
    rewrite Hl in H, H'.
    assert (H1 : match_loop M thr (argsort_desc scores) (seq 0 (S n)) = (ms, missed)) by congruence.
    assert (H1' : match_loop (pop_col p M) thr (argsort_desc (pop_at p scores)) (seq 0 (S n)) = (ms', missed'))
      by congruence.
    clear H H' Hl.
    destruct (argsort_split_facts scores p o1 o2 Ho) as [_ [_ Hnotin]].
    rewrite (argsort_desc_pop_at_split scores p o1 o2 Ho) in H1'.
    rewrite (match_loop_pop_col M thr p (o1 ++ o2) _ Hnotin) in H1'.
    destruct (match_loop M thr (o1 ++ o2) (seq 0 (S n))) as [ms0 missed0] eqn:E0.
    exists ms0, missed0. try rewrite E0 in H1'. cbn [fst snd] in H1'. rewrite <- Ho.
    split; [reflexivity|]. split; [congruence|]. split; [congruence|]. exact H1.
Qed.

(* ---- 5. frame pairs, lists of frame pairs, recall ---- *)
Lemma map_pp_oks_pairs (scores : list Q) (gts prs : list pose) (ms : list mpair) :
  map pp_oks (map (fun m : mpair =>
                     let '(g, p, v) := m in PP v (nth p scores 0) (nth g gts []) (nth p prs [])) ms)
  = map oks_of ms.
Proof. rewrite map_map. apply map_ext. intros [[g q] v]. reflexivity. Qed.

Lemma pairs_of_frame_del_pred fx thr fp p t ps fn ps' fn' :
  (p < length (snd (snd fp)))%nat ->
  frame_selector_F6 thr fp p = false ->
  pairs_of_frame fx thr fp = Some (ps, fn) ->
  pairs_of_frame fx thr (del_pred p fp) = Some (ps', fn') ->
  (count_ge t (map pp_oks ps') <= count_ge t (map pp_oks ps))%nat /\
  (length ps' + fn' = length ps + fn)%nat.
Proof.
  destruct fp as [[[gi gts] M] [[pi prs] scores]]. cbn [snd]. intros Hp Hsel H H'.
  unfold del_pred in H'. unfold pairs_of_frame in H, H'. unfold frame_selector_F6 in Hsel.
  cbn beta iota in H, H', Hsel.
  destruct (match_instances fx (length gts) scores M thr) as [[ms missed]|] eqn:E; [|discriminate].
  destruct (match_instances fx (length gts) (pop_at p scores) (pop_col p M) thr) as [[ms' missed']|] eqn:E';
    [|discriminate].
  inversion H; subst ps fn. inversion H'; subst ps' fn'. clear H H'.
  assert (Hin : In p (argsort_desc scores)).
  { eapply Permutation_in; [apply Permutation_sym; apply argsort_desc_perm|]. apply in_seq. lia. }
  apply in_split in Hin. destruct Hin as [o1 [o2 Ho]].
  destruct (match_instances_del_pred fx (length gts) scores M thr p o1 o2 ms missed ms' missed' Ho Hp E E')
    as [ms0 [missed0 [E0 [Hms' [Hmissed' Efull]]]]].
  destruct (argsort_split_facts scores p o1 o2 Ho) as [Hnd _].
  rewrite Ho in Hsel. rewrite (after_split p o1 o2 Hnd), Efull in Hsel. cbn [fst] in Hsel.
  assert (Hns : ~ selector_F6 M thr p o2 ms).
  { intros Hc. apply selector_F6b_iff in Hc. congruence. }
  destruct (delete_prediction_selector M thr o1 p o2 (seq 0 (length gts)) t ms missed ms0 missed0
              Hnd Efull E0 Hns) as [Hc [Hl _]].
  rewrite !map_pp_oks_pairs, !map_length. subst ms' missed'.
  assert (Em : map oks_of (map (fun m : mpair => (gt_of m, down p (pr_of m), oks_of m)) ms0) = map oks_of ms0).
  { rewrite map_map. apply map_ext. intros m. reflexivity. }
  rewrite Em, map_length. split; [exact Hc|exact Hl].
Qed.

(* fp' is fp, or fp without one predicted instance that the selector of F6 does not flag *)
Definition deleted_in (thr : Q) (fp fp' : gframe * pframe) : Prop :=
  fp' = fp \/
  exists p, (p < length (snd (snd fp)))%nat /\ frame_selector_F6 thr fp p = false /\ fp' = del_pred p fp.

Theorem match_frames_delete fx thr t : forall fps fps' pps nfn pps' nfn',
  Forall2 (deleted_in thr) fps fps' ->
  match_frames fx thr fps = Some (pps, nfn) ->
  match_frames fx thr fps' = Some (pps', nfn') ->
  (count_ge t (map pp_oks pps') <= count_ge t (map pp_oks pps))%nat /\
  (length pps' + nfn' = length pps + nfn)%nat.
Proof.
  intros fps fps' pps nfn pps' nfn' HF. revert pps nfn pps' nfn'.
  induction HF as [|fp fp' fps fps' Hd HF IH]; intros pps nfn pps' nfn' H H'.
  - cbn [match_frames] in H, H'. inversion H; inversion H'; subst. split; lia.
  - cbn [match_frames] in H, H'.
    destruct (pairs_of_frame fx thr fp) as [[ps fn]|] eqn:E1; [|discriminate].
    destruct (match_frames fx thr fps) as [[qs gn]|] eqn:E2; [|discriminate].
    destruct (pairs_of_frame fx thr fp') as [[ps' fn']|] eqn:E1'; [|discriminate].
    destruct (match_frames fx thr fps') as [[qs' gn']|] eqn:E2'; [|discriminate].
    inversion H; inversion H'; subst. clear H H'.
    destruct (IH _ _ _ _ eq_refl eq_refl) as [Hc Hl].
    assert (Hf : (count_ge t (map pp_oks ps') <= count_ge t (map pp_oks ps))%nat /\
                 (length ps' + fn' = length ps + fn)%nat).
    { destruct Hd as [Hd|[p [Hp [Hsel Hd]]]]; subst fp'.
      - rewrite E1 in E1'. inversion E1'; subst. split; lia.
      - apply (pairs_of_frame_del_pred fx thr fp p t ps fn ps' fn' Hp Hsel E1 E1'). }
    destruct Hf as [Hc1 Hl1]. rewrite !map_app, !count_ge_app, !app_length. lia.
Qed.

Theorem recall_after_delete (rnd : Q -> Q) : (forall a b, a <= b -> rnd a <= rnd b) ->
  forall fx thr t fps fps' pps nfn pps' nfn',
  Forall2 (deleted_in thr) fps fps' ->
  match_frames fx thr fps = Some (pps, nfn) ->
  match_frames fx thr fps' = Some (pps', nfn') ->
  recall_of rnd t pps' nfn' <= recall_of rnd t pps nfn.
Proof.
  intros Hm fx thr t fps fps' pps nfn pps' nfn' HF H H'.
  destruct (match_frames_delete fx thr t fps fps' pps nfn pps' nfn' HF H H') as [Hc Hl].
  apply (recall_of_mono rnd Hm); assumption.
Qed.

Print Assumptions match_frames_delete.
Print Assumptions recall_after_delete.
