(* Lemmas.v (C16) — proofs about Metrics.v.  Everything is over Q / nat and
   closed under the global context; the float64 rounding of tp/npig is the
   Section variable `rnd` with the contract (monotone, rnd 0 == 0, rnd 1 == 1). *)
From Coq Require Import List Arith ZArith QArith Lra Lia Psatz Bool Permutation.
Import ListNotations.
From SV Require Import C15.Oks C15.Lemmas C16.Metrics.
Local Open Scope Q_scope.

(* ------------------------------------------------------------------ *)
(* sums and means *)
Lemma qadd_eq a b : qadd a b == a + b.
Proof. unfold qadd. apply Qred_correct. Qed.

Lemma nq_nonneg n : 0 <= nq n.
Proof. unfold nq. change 0 with (inject_Z 0). rewrite <- Zle_Qle. lia. Qed.

Lemma nq_pos n : (0 < n)%nat -> 0 < nq n.
Proof. intros H. unfold nq. change 0 with (inject_Z 0). rewrite <- Zlt_Qlt. lia. Qed.

Lemma nq_le a b : (a <= b)%nat -> nq a <= nq b.
Proof. intros H. unfold nq. rewrite <- Zle_Qle. lia. Qed.

Lemma nq_S n : nq (S n) == nq n + 1.
Proof. unfold nq. rewrite Nat2Z.inj_succ. unfold Z.succ. rewrite inject_Z_plus. reflexivity. Qed.

Lemma nq_plus a b : nq (a + b) == nq a + nq b.
Proof. unfold nq. rewrite Nat2Z.inj_add, inject_Z_plus. reflexivity. Qed.

Lemma nq_0 : nq 0 == 0.
Proof. reflexivity. Qed.

Lemma qsum_bounds lo hi l :
  Forall (fun x => lo <= x <= hi) l -> nq (length l) * lo <= qsum l <= nq (length l) * hi.
Proof.
  induction 1 as [|x l [Hx1 Hx2] _ IH]; cbn [qsum fold_right length].
  - rewrite nq_0. lra.
  - fold (qsum l). rewrite qadd_eq, nq_S. lra.
Qed.

Lemma div_nq_le a b n : a <= b -> a / nq n <= b / nq n.
Proof.
  intros H. destruct n as [|n].
  - unfold Qdiv. change (/ nq 0) with 0. lra.
  - pose proof (nq_pos (S n) ltac:(lia)) as Hp. pose proof (Qinv_lt_0_compat _ Hp). unfold Qdiv. nra.
Qed.

Lemma qmean_bounds lo hi l :
  lo <= 0 <= hi -> Forall (fun x => lo <= x <= hi) l -> lo <= qmean l <= hi.
Proof.
  intros H0 Hl. unfold qmean. destruct l as [|x l].
  - cbn. unfold Qdiv. change (/ nq 0) with 0. lra.
  - pose proof (qsum_bounds lo hi _ Hl) as [H1 H2].
    pose proof (nq_pos (length (x :: l)) ltac:(simpl; lia)) as Hp.
    split; [apply Qle_shift_div_l|apply Qle_shift_div_r]; try exact Hp; lra.
Qed.

Lemma qmean_bounds_ne lo hi l :
  l <> [] -> Forall (fun x => lo <= x <= hi) l -> lo <= qmean l <= hi.
Proof.
  intros Hne Hl. unfold qmean. destruct l as [|x l]; [contradiction|].
  pose proof (qsum_bounds lo hi _ Hl) as [H1 H2].
  pose proof (nq_pos (length (x :: l)) ltac:(simpl; lia)) as Hp.
  split; [apply Qle_shift_div_l|apply Qle_shift_div_r]; try exact Hp; lra.
Qed.

Lemma qsum_mono l1 l2 : Forall2 Qle l1 l2 -> qsum l1 <= qsum l2.
Proof.
  induction 1 as [|x y l1 l2 Hxy _ IH]; cbn [qsum fold_right]; [lra|].
  fold (qsum l1) (qsum l2). rewrite !qadd_eq. lra.
Qed.

Lemma Forall2_len {A B} (R : A -> B -> Prop) l1 l2 : Forall2 R l1 l2 -> length l1 = length l2.
Proof. induction 1; cbn [length]; congruence. Qed.

Lemma qmean_mono l1 l2 : Forall2 Qle l1 l2 -> qmean l1 <= qmean l2.
Proof.
  intros H. unfold qmean. rewrite (Forall2_len _ _ _ H). apply div_nq_le. apply qsum_mono. exact H.
Qed.

Lemma qmean_const {A} c (l : list A) : l <> [] -> qmean (map (fun _ : A => c) l) == c.
Proof.
  intros Hne. unfold qmean. rewrite map_length.
  assert (Hs : qsum (map (fun _ : A => c) l) == nq (length l) * c).
  { clear Hne. induction l as [|x l IH]; cbn [map qsum fold_right length]; [rewrite nq_0; ring|].
    fold (qsum (map (fun _ : A => c) l)). rewrite qadd_eq, IH, nq_S. ring. }
  rewrite Hs. destruct l as [|x l]; [contradiction|].
  pose proof (nq_pos (length (x :: l)) ltac:(simpl; lia)) as Hp. field. lra.
Qed.

Lemma Forall2_map_same {A} (f g : A -> Q) l :
  (forall x, In x l -> f x <= g x) -> Forall2 Qle (map f l) (map g l).
Proof.
  induction l as [|x l IH]; intros H; cbn [map]; constructor.
  - apply H. left. reflexivity.
  - apply IH. intros y Hy. apply H. right. exact Hy.
Qed.

(* ------------------------------------------------------------------ *)
(* cumulative counts *)
Lemma cumcount_length f l a : length (cumcount f l a) = length l.
Proof. revert a. induction l as [|x l IH]; intros a; cbn [cumcount length]; [reflexivity|]. rewrite IH. reflexivity. Qed.

Lemma cumcount_mono (f g : Q -> bool) : (forall x, f x = true -> g x = true) ->
  forall l a b, (a <= b)%nat -> Forall2 le (cumcount f l a) (cumcount g l b).
Proof.
  intros Hfg. induction l as [|x l IH]; intros a b Hab; cbn [cumcount]; constructor.
  - destruct (f x) eqn:E; [rewrite (Hfg x E); lia|destruct (g x); lia].
  - apply IH. destruct (f x) eqn:E; [rewrite (Hfg x E); lia|destruct (g x); lia].
Qed.

Lemma cumcount_upper f : forall l a, Forall (fun c => (c <= a + length l)%nat) (cumcount f l a).
Proof.
  induction l as [|x l IH]; intros a; cbn [cumcount length]; constructor.
  - destruct (f x); lia.
  - eapply Forall_impl; [|apply IH]. intros c Hc. cbv beta in Hc. destruct (f x); lia.
Qed.

Lemma last_default {A} (l : list A) d d' : l <> [] -> last l d = last l d'.
Proof.
  induction l as [|x l IH]; intros H; [contradiction|]. destruct l as [|y l]; [reflexivity|].
  change (last (y :: l) d = last (y :: l) d'). apply IH. discriminate.
Qed.

Lemma cumcount_last f : forall l a,
  last (cumcount f l a) a = (a + length (filter f l))%nat.
Proof.
  induction l as [|x l IH]; intros a; [cbn; lia|].
  cbn [cumcount filter]. set (a' := if f x then S a else a).
  assert (E : last (a' :: cumcount f l a') a = last (cumcount f l a') a').
  { destruct l as [|y l]; [reflexivity|].
    change (last (cumcount f (y :: l) a') a = last (cumcount f (y :: l) a') a').
    apply last_default. cbn [cumcount]. discriminate. }
  rewrite E, IH. unfold a'. destruct (f x); cbn [length]; lia.
Qed.

Lemma cumcount_all_true f : (forall x, f x = true) ->
  forall l a, cumcount f l a = map (fun k => (a + S k)%nat) (seq 0 (length l)).
Proof.
  intros Hf. induction l as [|x l IH]; intros a; [reflexivity|].
  cbn [cumcount length seq map]. rewrite Hf. f_equal; [lia|].
  rewrite IH. rewrite <- seq_shift, map_map. apply map_ext. intros k. lia.
Qed.

Lemma cumcount_all_false f : (forall x, f x = false) ->
  forall l a, cumcount f l a = map (fun _ => a) l.
Proof.
  intros Hf. induction l as [|x l IH]; intros a; [reflexivity|].
  cbn [cumcount map]. rewrite Hf. f_equal. apply IH.
Qed.

(* ------------------------------------------------------------------ *)
(* the precision envelope and searchsorted *)
Lemma Qmax2_ge_l a b : a <= Qmax2 a b.
Proof. destruct (Qmax2_cases a b) as [[E L]|[E L]]; rewrite E; lra. Qed.
Lemma Qmax2_ge_r a b : b <= Qmax2 a b.
Proof. destruct (Qmax2_cases a b) as [[E L]|[E L]]; rewrite E; lra. Qed.
Lemma Qmax2_mono a b a' b' : a <= a' -> b <= b' -> Qmax2 a b <= Qmax2 a' b'.
Proof.
  intros. destruct (Qmax2_cases a b) as [[E L]|[E L]]; rewrite E;
  destruct (Qmax2_cases a' b') as [[E' L']|[E' L']]; rewrite E'; lra.
Qed.

Lemma envelope_length l : length (envelope l) = length l.
Proof.
  induction l as [|x l IH]; [reflexivity|]. cbn [envelope].
  destruct (envelope l) as [|y r] eqn:E; destruct l; cbn [length] in *; try lia; discriminate.
Qed.

Lemma envelope_in l x : In x (envelope l) -> In x l.
Proof.
  revert x. induction l as [|a l IH]; intros x; [intros []|]. cbn [envelope].
  destruct (envelope l) as [|y r] eqn:E.
  - intros [H|[]]. left. exact H.
  - intros [H|H].
    + destruct (Qmax2_cases a y) as [[E1 _]|[E1 _]]; rewrite E1 in H.
      * right. apply IH. left. exact H.
      * left. exact H.
    + right. apply IH. exact H.
Qed.

Lemma envelope_mono l1 l2 : Forall2 Qle l1 l2 -> Forall2 Qle (envelope l1) (envelope l2).
Proof.
  induction 1 as [|x y l1 l2 Hxy Hl IH]; [constructor|]. cbn [envelope].
  destruct (envelope l1) as [|a r]; destruct (envelope l2) as [|b s]; inversion IH; subst.
  - constructor; [exact Hxy|constructor].
  - constructor; [apply Qmax2_mono; assumption|]. constructor; assumption.
Qed.

(* non-increasing, stated through nth with the default 0 (valid for non-negative lists) *)
Definition descending (l : list Q) : Prop :=
  forall i j, (i <= j)%nat -> nth j l 0 <= nth i l 0.

Lemma envelope_head_ge l : Forall (fun x => 0 <= x) l ->
  forall j, nth j (envelope l) 0 <= nth 0 (envelope l) 0.
Proof.
  induction l as [|x l IH]; intros Hl j.
  - destruct j; cbn; lra.
  - inversion Hl as [|? ? Hx Hl']; subst. specialize (IH Hl'). cbn [envelope].
    destruct (envelope l) as [|y r] eqn:E.
    + destruct j as [|[|j]]; cbn; lra.
    + destruct j as [|j]; [lra|]. cbn [nth].
      specialize (IH j). cbn [nth] in IH.
      pose proof (Qmax2_ge_r x y). destruct j; cbn [nth] in *; lra.
Qed.

Lemma envelope_descending l : Forall (fun x => 0 <= x) l -> descending (envelope l).
Proof.
  induction l as [|x l IH]; intros Hl i j Hij.
  - destruct i, j; cbn; lra.
  - destruct i as [|i].
    + apply envelope_head_ge. exact Hl.
    + destruct j as [|j]; [lia|]. inversion Hl as [|? ? Hx Hl']; subst.
      cbn [envelope]. destruct (envelope l) as [|y r] eqn:E.
      * destruct i, j; cbn; lra.
      * cbn [nth]. apply (IH Hl' i j). lia.
Qed.

Lemma envelope_nonneg l : Forall (fun x => 0 <= x) l -> Forall (fun x => 0 <= x) (envelope l).
Proof.
  intros H. apply Forall_forall. intros x Hx. apply envelope_in in Hx.
  rewrite Forall_forall in H. apply H. exact Hx.
Qed.

Lemma searchsorted_le_length rc r : (searchsorted rc r <= length rc)%nat.
Proof. induction rc as [|x t IH]; cbn [searchsorted length]; [lia|]. destruct (Qle_bool r x); lia. Qed.

Lemma searchsorted_mono rc1 rc2 r : Forall2 Qle rc2 rc1 -> (searchsorted rc1 r <= searchsorted rc2 r)%nat.
Proof.
  induction 1 as [|x2 x1 l2 l1 Hx _ IH]; cbn [searchsorted]; [lia|].
  destruct (Qle_bool r x2) eqn:E2.
  - apply Qle_bool_iff in E2. assert (H : r <= x1) by lra. apply Qle_bool_iff in H. rewrite H. lia.
  - destruct (Qle_bool r x1); lia.
Qed.

Lemma searchsorted_found rc r x : In x rc -> r <= x -> (searchsorted rc r < length rc)%nat.
Proof.
  induction rc as [|y t IH]; intros Hin Hr; [contradiction|]. cbn [searchsorted length].
  destruct (Qle_bool r y) eqn:E; [lia|]. destruct Hin as [Hin|Hin].
  - subst y. apply Qle_bool_iff in Hr. congruence.
  - specialize (IH Hin Hr). lia.
Qed.

Lemma nth_nonneg l i : Forall (fun x => 0 <= x) l -> 0 <= nth i l 0.
Proof.
  intros H. destruct (Nat.lt_ge_cases i (length l)) as [Hi|Hi].
  - rewrite Forall_forall in H. apply H. apply nth_In. exact Hi.
  - rewrite nth_overflow by exact Hi. lra.
Qed.

Lemma Forall2_nth_le l1 l2 i : Forall2 Qle l1 l2 -> nth i l1 0 <= nth i l2 0.
Proof.
  intros H. revert i. induction H as [|x y l1 l2 Hxy _ IH]; intros [|i]; cbn [nth]; try lra. apply IH.
Qed.

Lemma precision_at_mono env1 env2 rc1 rc2 r :
  Forall2 Qle env2 env1 -> Forall2 Qle rc2 rc1 ->
  descending env2 -> Forall (fun x => 0 <= x) env1 ->
  precision_at env2 rc2 r <= precision_at env1 rc1 r.
Proof.
  intros He Hr Hd Hn. unfold precision_at.
  pose proof (searchsorted_mono rc1 rc2 r Hr) as Hi.
  eapply Qle_trans; [apply (Hd _ _ Hi)|]. apply Forall2_nth_le. exact He.
Qed.

(* ------------------------------------------------------------------ *)
(* voc_metrics *)
Lemma Qdiv_le_cross a b c d : 0 < b -> 0 < d -> a * d <= c * b -> a / b <= c / d.
Proof.
  intros Hb Hd H. apply Qle_shift_div_l; [exact Hd|].
  setoid_replace (a / b * d) with ((a * d) / b) by (field; lra).
  apply Qle_shift_div_r; [exact Hb|exact H].
Qed.

Lemma Qltb_intro a b : a < b -> Qltb a b = true.
Proof.
  intros H. unfold Qltb. apply negb_true_iff. destruct (Qle_bool b a) eqn:E; [|reflexivity].
  apply Qle_bool_iff in E. lra.
Qed.

Lemma pr_ratio_mono tp2 tp1 fp2 fp1 : (tp2 <= tp1)%nat -> (fp1 <= fp2)%nat ->
  nq tp2 / (nq fp2 + nq tp2 + eps) <= nq tp1 / (nq fp1 + nq tp1 + eps).
Proof.
  intros Ht Hf. pose proof eps_pos as He.
  pose proof (nq_le _ _ Ht). pose proof (nq_le _ _ Hf).
  pose proof (nq_nonneg tp2). pose proof (nq_nonneg fp1).
  set (e := eps) in *. clearbody e.
  set (a := nq tp2) in *. set (b := nq tp1) in *. set (c := nq fp2) in *. set (d := nq fp1) in *.
  clearbody a b c d. apply Qdiv_le_cross; nra.
Qed.

Lemma pr_ratio_bounds tp fp : 0 <= nq tp / (nq fp + nq tp + eps) <= 1.
Proof.
  pose proof eps_pos as He. pose proof (nq_nonneg tp). pose proof (nq_nonneg fp).
  set (e := eps) in *. clearbody e. set (a := nq tp) in *. set (c := nq fp) in *. clearbody a c.
  split; [apply Qle_shift_div_l|apply Qle_shift_div_r]; lra.
Qed.

Lemma map2_length {A B C} (f : A -> B -> C) : forall l m, length (map2 f l m) = Nat.min (length l) (length m).
Proof. induction l as [|a l IH]; intros [|b m]; cbn [map2 length Nat.min]; try reflexivity. rewrite IH. reflexivity. Qed.

Lemma pr_list_mono : forall tps2 tps1, Forall2 le tps2 tps1 ->
  forall fps1 fps2, Forall2 le fps1 fps2 -> Forall2 Qle (pr_list tps2 fps2) (pr_list tps1 fps1).
Proof.
  unfold pr_list. induction 1 as [|a b l2 l1 Hab _ IH]; intros fps1 fps2 Hf; inversion Hf; subst;
    cbn [map2]; constructor.
  - apply pr_ratio_mono; assumption.
  - apply IH. assumption.
Qed.

Lemma pr_list_bounds : forall tps fps, Forall (fun x => 0 <= x <= 1) (pr_list tps fps).
Proof.
  unfold pr_list. induction tps as [|a tps IH]; intros [|b fps]; cbn [map2]; constructor.
  - apply pr_ratio_bounds.
  - apply IH.
Qed.

Lemma last_mono l2 l1 : Forall2 Qle l2 l1 -> last l2 0 <= last l1 0.
Proof.
  induction 1 as [|x y l2 l1 Hxy Hl IH]; [cbn; lra|].
  destruct Hl as [|x' y' l2' l1' Hxy' Hl']; [cbn; exact Hxy|]. exact IH.
Qed.

Lemma last_map {A B} (F : A -> B) l d d' : l <> [] -> last (map F l) d = F (last l d').
Proof.
  induction l as [|x l IH]; intros H; [contradiction|]. destruct l as [|y l]; [reflexivity|].
  change (last (map F (y :: l)) d = F (last (y :: l) d')). apply IH. discriminate.
Qed.

Lemma last_in_or_default {A} (l : list A) d : l <> [] -> In (last l d) l.
Proof.
  induction l as [|x l IH]; intros H; [contradiction|]. destruct l as [|y l]; [left; reflexivity|].
  right. change (In (last (y :: l) d) (y :: l)). apply IH. discriminate.
Qed.

Lemma Forall_le_to_Q l1 l2 : Forall2 le l1 l2 -> Forall2 (fun a b => (a <= b)%nat) l1 l2.
Proof. exact (fun H => H). Qed.

Lemma tp_list_mono t1 t2 ms : t1 <= t2 -> Forall2 le (tp_list t2 ms) (tp_list t1 ms).
Proof.
  intros Ht. unfold tp_list. apply cumcount_mono; [|lia].
  intros x Hx. apply Qle_bool_iff in Hx. apply Qle_bool_iff. lra.
Qed.

Lemma fp_list_mono t1 t2 ms : t1 <= t2 -> Forall2 le (fp_list t1 ms) (fp_list t2 ms).
Proof.
  intros Ht. unfold fp_list. apply cumcount_mono; [|lia].
  intros x Hx. apply Qltb_true in Hx. apply Qltb_intro. lra.
Qed.

Section Voc.
  Variable rnd : Q -> Q.
  Hypothesis rnd_mono : forall a b, a <= b -> rnd a <= rnd b.
  Hypothesis rnd_0 : rnd 0 == 0.
  Hypothesis rnd_1 : rnd 1 == 1.

  Lemma rnd_qeq a b : a == b -> rnd a == rnd b.
  Proof. intros H. apply Qle_antisym; apply rnd_mono; lra. Qed.

  Lemma rnd_unit a : 0 <= a <= 1 -> 0 <= rnd a <= 1.
  Proof. intros [H0 H1]. pose proof (rnd_mono _ _ H0). pose proof (rnd_mono _ _ H1). lra. Qed.

  Lemma rc_list_mono npig tps2 tps1 :
    Forall2 le tps2 tps1 -> Forall2 Qle (rc_list rnd npig tps2) (rc_list rnd npig tps1).
  Proof.
    unfold rc_list. induction 1 as [|a b l2 l1 Hab _ IH]; cbn [map]; constructor; [|exact IH].
    apply rnd_mono, div_nq_le, nq_le. exact Hab.
  Qed.

  Lemma rc_list_bounds npig tps :
    Forall (fun tp => (tp <= npig)%nat) tps -> Forall (fun x => 0 <= x <= 1) (rc_list rnd npig tps).
  Proof.
    unfold rc_list. induction 1 as [|tp tps Htp _ IH]; cbn [map]; constructor; [|exact IH].
    apply rnd_unit. destruct npig as [|n].
    - unfold Qdiv. change (/ nq 0) with 0. lra.
    - pose proof (nq_pos (S n) ltac:(lia)) as Hp. pose proof (nq_nonneg tp). pose proof (nq_le _ _ Htp).
      split; [apply Qle_shift_div_l|apply Qle_shift_div_r]; lra.
  Qed.

  (* (c) AP and recall are non-increasing in the match-score threshold *)
  Lemma voc_row_mono npig ms rthrs t1 t2 :
    t1 <= t2 ->
    vr_recall (voc_row_of rnd npig ms rthrs t2) <= vr_recall (voc_row_of rnd npig ms rthrs t1) /\
    Forall2 Qle (vr_precisions (voc_row_of rnd npig ms rthrs t2))
                (vr_precisions (voc_row_of rnd npig ms rthrs t1)) /\
    vr_ap (voc_row_of rnd npig ms rthrs t2) <= vr_ap (voc_row_of rnd npig ms rthrs t1).
  Proof.
    intros Ht. unfold vr_ap, voc_row_of. cbn [vr_recall vr_precisions].
    pose proof (tp_list_mono t1 t2 ms Ht) as Htp. pose proof (fp_list_mono t1 t2 ms Ht) as Hfp.
    pose proof (rc_list_mono npig _ _ Htp) as Hrc.
    pose proof (envelope_mono _ _ (pr_list_mono _ _ Htp _ _ Hfp)) as Henv.
    assert (Hprec : Forall2 Qle
      (map (precision_at (envelope (pr_list (tp_list t2 ms) (fp_list t2 ms))) (rc_list rnd npig (tp_list t2 ms))) rthrs)
      (map (precision_at (envelope (pr_list (tp_list t1 ms) (fp_list t1 ms))) (rc_list rnd npig (tp_list t1 ms))) rthrs)).
    { apply Forall2_map_same. intros r _. apply precision_at_mono; try assumption.
      - apply envelope_descending. eapply Forall_impl; [|apply pr_list_bounds]. intros x [Hx _]. exact Hx.
      - apply envelope_nonneg. eapply Forall_impl; [|apply pr_list_bounds]. intros x [Hx _]. exact Hx. }
    split; [apply last_mono; exact Hrc|]. split; [exact Hprec|apply qmean_mono; exact Hprec].
  Qed.

  (* (b) every entry of a voc row is a ratio in [0,1] *)
  Lemma tp_list_upper t ms npig : (length ms <= npig)%nat -> Forall (fun tp => (tp <= npig)%nat) (tp_list t ms).
  Proof.
    intros H. unfold tp_list. eapply Forall_impl; [|apply cumcount_upper]. intros c Hc. cbv beta in Hc. lia.
  Qed.

  Lemma voc_row_bounds npig ms rthrs t :
    (length ms <= npig)%nat ->
    0 <= vr_recall (voc_row_of rnd npig ms rthrs t) <= 1 /\
    Forall (fun x => 0 <= x <= 1) (vr_precisions (voc_row_of rnd npig ms rthrs t)) /\
    0 <= vr_ap (voc_row_of rnd npig ms rthrs t) <= 1.
  Proof.
    intros Hn. unfold vr_ap, voc_row_of. cbn [vr_recall vr_precisions].
    pose proof (rc_list_bounds npig _ (tp_list_upper t ms npig Hn)) as Hrc.
    assert (Hprec : Forall (fun x => 0 <= x <= 1)
      (map (precision_at (envelope (pr_list (tp_list t ms) (fp_list t ms))) (rc_list rnd npig (tp_list t ms))) rthrs)).
    { apply Forall_forall. intros x Hx. apply in_map_iff in Hx. destruct Hx as [r [Hx _]]. subst x.
      unfold precision_at.
      set (env := envelope (pr_list (tp_list t ms) (fp_list t ms))).
      set (i := searchsorted (rc_list rnd npig (tp_list t ms)) r).
      destruct (Nat.lt_ge_cases i (length env)) as [Hi|Hi].
      - pose proof (pr_list_bounds (tp_list t ms) (fp_list t ms)) as Hb. rewrite Forall_forall in Hb.
        apply Hb. apply envelope_in. apply nth_In. exact Hi.
      - rewrite nth_overflow by exact Hi. lra. }
    split.
    - destruct (rc_list rnd npig (tp_list t ms)) as [|x l] eqn:E; [cbn; lra|].
      rewrite Forall_forall in Hrc. apply Hrc. apply last_in_or_default. discriminate.
    - split; [exact Hprec|]. apply qmean_bounds; [lra|exact Hprec].
  Qed.

  (* recall of a row is rnd (number of match scores >= t / npig) *)
  Lemma voc_row_recall npig ms rthrs t :
    ms <> [] ->
    vr_recall (voc_row_of rnd npig ms rthrs t) = rnd (nq (count_ge t ms) / nq npig).
  Proof.
    intros Hne. unfold voc_row_of. cbn [vr_recall]. unfold rc_list.
    rewrite (last_map _ _ 0 0%nat).
    - unfold tp_list. rewrite cumcount_last. reflexivity.
    - unfold tp_list. destruct ms; [contradiction|]. cbn [cumcount]. discriminate.
  Qed.

  (* (a) all match scores equal to 1, no false negative *)
  Lemma cumcount_ext f g : forall l a, (forall x, In x l -> f x = g x) -> cumcount f l a = cumcount g l a.
  Proof.
    induction l as [|x l IH]; intros a H; [reflexivity|]. cbn [cumcount].
    rewrite (H x (or_introl eq_refl)). f_equal. apply IH. intros y Hy. apply H. right. exact Hy.
  Qed.

  Lemma perfect_pr_bounds k : / (1 + eps) <= nq (S k) / (nq 0 + nq (S k) + eps) <= 1.
  Proof.
    split; [|apply pr_ratio_bounds].
    pose proof eps_pos as He. pose proof (nq_nonneg k). rewrite nq_S, nq_0.
    set (e := eps) in *. clearbody e. set (a := nq k) in *. clearbody a.
    setoid_replace (/ (1 + e)) with (1 / (1 + e)) by (field; lra).
    apply Qdiv_le_cross; nra.
  Qed.

  Lemma perfect_pr_in : forall (l : list Q) s x,
    In x (map2 (fun tp fp : nat => nq tp / (nq fp + nq tp + eps))
               (map (fun k => S k) (seq s (length l))) (map (fun _ : Q => 0%nat) l)) ->
    / (1 + eps) <= x <= 1.
  Proof.
    induction l as [|y l IH]; intros s x Hx; [contradiction|].
    cbn [length seq map map2] in Hx. destruct Hx as [Hx|Hx].
    - subst x. apply perfect_pr_bounds.
    - apply (IH (S s)). exact Hx.
  Qed.

  Lemma voc_row_perfect ms rthrs t :
    ms <> [] -> Forall (fun m => m == 1) ms -> t <= 1 ->
    vr_recall (voc_row_of rnd (length ms) ms rthrs t) == 1 /\
    (Forall (fun r => r <= 1) rthrs ->
     Forall (fun x => / (1 + eps) <= x <= 1) (vr_precisions (voc_row_of rnd (length ms) ms rthrs t))).
  Proof.
    intros Hne Hall Ht.
    assert (Htp : tp_list t ms = map (fun k => S k) (seq 0 (length ms))).
    { unfold tp_list. rewrite (cumcount_ext _ (fun _ => true)).
      - rewrite cumcount_all_true by reflexivity. apply map_ext. intros k. lia.
      - intros x Hx. rewrite Forall_forall in Hall. specialize (Hall x Hx). apply Qle_bool_iff. lra. }
    assert (Hfp : fp_list t ms = map (fun _ => 0%nat) ms).
    { unfold fp_list. rewrite (cumcount_ext _ (fun _ => false)).
      - apply cumcount_all_false. reflexivity.
      - intros x Hx. rewrite Forall_forall in Hall. specialize (Hall x Hx).
        unfold Qltb. apply negb_false_iff. apply Qle_bool_iff. lra. }
    assert (Hrec : vr_recall (voc_row_of rnd (length ms) ms rthrs t) == 1).
    { rewrite voc_row_recall by exact Hne.
      assert (Hc : count_ge t ms = length ms).
      { unfold count_ge. f_equal. clear - Hall Ht. induction ms as [|x l IH]; [reflexivity|].
        inversion Hall as [|? ? Hx Hl]; subst. cbn [filter].
        assert (E : Qle_bool t x = true) by (apply Qle_bool_iff; lra). rewrite E. f_equal. apply IH. exact Hl. }
      rewrite Hc. rewrite <- rnd_1. apply rnd_qeq.
      assert (0 < nq (length ms)) by (apply nq_pos; destruct ms; [contradiction|simpl; lia]).
      field. lra. }
    split; [exact Hrec|]. intros Hr.
    unfold voc_row_of. cbn [vr_precisions]. apply Forall_forall. intros x Hx.
    apply in_map_iff in Hx. destruct Hx as [r [Hx Hin]]. subst x. unfold precision_at.
    set (rc := rc_list rnd (length ms) (tp_list t ms)).
    set (env := envelope (pr_list (tp_list t ms) (fp_list t ms))).
    assert (Hrc_ne : rc <> []).
    { unfold rc, rc_list. rewrite Htp. destruct ms; [contradiction|]. cbn. discriminate. }
    assert (Hlast : last rc 0 == 1) by exact Hrec.
    assert (Hi : (searchsorted rc r < length rc)%nat).
    { apply (searchsorted_found rc r (last rc 0)); [apply last_in_or_default; exact Hrc_ne|].
      rewrite Forall_forall in Hr. specialize (Hr r Hin). lra. }
    assert (Hlen : length env = length rc).
    { unfold env, rc, rc_list, pr_list. rewrite envelope_length, map_length, map2_length.
      rewrite Htp, Hfp, !map_length, seq_length. apply Nat.min_id. }
    assert (Hin_env : In (nth (searchsorted rc r) env 0) env) by (apply nth_In; lia).
    apply envelope_in in Hin_env. revert Hin_env. generalize (nth (searchsorted rc r) env 0). intros x Hx.
    rewrite Htp, Hfp in Hx. unfold pr_list in Hx. eapply perfect_pr_in; eauto.
  Qed.
End Voc.

(* ------------------------------------------------------------------ *)
(* sorting the pairs by detection score only permutes the match scores *)
Lemma map_nth_seq {A} (l : list A) d : map (fun i => nth i l d) (seq 0 (length l)) = l.
Proof.
  induction l as [|x l IH]; [reflexivity|]. cbn [length seq map nth]. f_equal.
  rewrite <- seq_shift, map_map. exact IH.
Qed.

Lemma sort_by_score_perm det ms : length det = length ms -> Permutation (sort_by_score det ms) ms.
Proof.
  intros H. unfold sort_by_score.
  etransitivity; [apply Permutation_map; apply argsort_desc_perm|].
  rewrite H, map_nth_seq. reflexivity.
Qed.

Lemma sort_by_score_length det ms : length (sort_by_score det ms) = length det.
Proof.
  unfold sort_by_score. rewrite map_length.
  rewrite (Permutation_length (argsort_desc_perm det)). apply seq_length.
Qed.

Lemma count_ge_perm t l l' : Permutation l l' -> count_ge t l = count_ge t l'.
Proof.
  unfold count_ge. induction 1 as [|x l l' _ IH|x y l|l l' l'' _ IH1 _ IH2]; cbn [filter].
  - reflexivity.
  - destruct (Qle_bool t x); cbn [length]; congruence.
  - destruct (Qle_bool t x), (Qle_bool t y); reflexivity.
  - congruence.
Qed.

Lemma voc_metrics_rows rnd mscores pps n_fn mthrs rthrs v :
  voc_metrics rnd mscores pps n_fn mthrs rthrs = Some v ->
  voc_rows v = map (voc_row_of rnd (length pps + n_fn) (sort_by_score (map pp_score pps) mscores) rthrs) mthrs /\
  voc_map v = qmean (concat (map vr_precisions (voc_rows v))) /\
  voc_mar v = qmean (map vr_recall (voc_rows v)) /\ pps <> [].
Proof.
  unfold voc_metrics. destruct pps as [|pp pps]; [discriminate|]. intros H; inversion H; subst; clear H.
  unfold voc_map, voc_mar. cbn [voc_rows]. repeat split; discriminate.
Qed.

(* ------------------------------------------------------------------ *)
(* mOKS, PCK, visibility *)
Lemma moks_bounds pps q :
  Forall (fun pp => 0 <= pp_oks pp <= 1) pps -> moks pps = Some q -> 0 <= q <= 1.
Proof.
  intros H. unfold moks, omean. destruct (map pp_oks pps) as [|x l] eqn:E; [discriminate|].
  intros Hq; inversion Hq; subst. apply qmean_bounds; [lra|]. rewrite <- E.
  apply Forall_forall. intros y Hy. apply in_map_iff in Hy. destruct Hy as [pp [Hy Hin]]. subst y.
  rewrite Forall_forall in H. apply H. exact Hin.
Qed.

Lemma moks_perfect pps q :
  Forall (fun pp => pp_oks pp == 1) pps -> moks pps = Some q -> q == 1.
Proof.
  intros H. unfold moks, omean. destruct (map pp_oks pps) as [|x l] eqn:E; [discriminate|].
  intros Hq; inversion Hq; subst.
  assert (1 <= qmean (x :: l) <= 1); [|lra].
  apply qmean_bounds_ne; [discriminate|]. rewrite <- E.
  apply Forall_forall. intros y Hy. apply in_map_iff in Hy. destruct Hy as [pp [Hy Hin]]. subst y.
  rewrite Forall_forall in H. specialize (H pp Hin). lra.
Qed.

Lemma b2q_bounds b : 0 <= b2q b <= 1.
Proof. destruct b; cbn; lra. Qed.

Lemma qmean_b2q_bounds {A} (f : A -> bool) l : 0 <= qmean (map (fun a => b2q (f a)) l) <= 1.
Proof.
  apply qmean_bounds; [lra|]. apply Forall_forall. intros x Hx. apply in_map_iff in Hx.
  destruct Hx as [a [Hx _]]. subst x. apply b2q_bounds.
Qed.

Lemma pck_part_bounds pps thrs k : 0 <= pck_part pps thrs k <= 1.
Proof.
  unfold pck_part. apply qmean_bounds; [lra|]. apply Forall_forall. intros x Hx.
  apply in_map_iff in Hx. destruct Hx as [t [Hx _]]. subst x.
  apply (qmean_b2q_bounds (fun pp => within t (nth k (pair_d2 pp) None))).
Qed.

Lemma mpck_bounds n pps thrs q : mpck n pps thrs = Some q -> 0 <= q <= 1.
Proof.
  unfold mpck. destruct pps as [|pp pps]; [discriminate|]. intros H; inversion H; subst.
  apply qmean_bounds; [lra|]. unfold mpck_parts. apply Forall_forall. intros x Hx.
  apply in_map_iff in Hx. destruct Hx as [k [Hx _]]. subst x. apply pck_part_bounds.
Qed.

Lemma pck_at_bounds n pps t : 0 <= pck_at n pps t <= 1.
Proof.
  unfold pck_at. apply qmean_bounds; [lra|]. apply Forall_forall. intros x Hx.
  apply in_map_iff in Hx. destruct Hx as [k [Hx _]]. subst x.
  apply (qmean_b2q_bounds (fun pp => within t (nth k (pair_d2 pp) None))).
Qed.

Lemma ratio_bounds a b q : ratio a b = Some q -> 0 <= q <= 1.
Proof.
  unfold ratio. destruct (a + b)%nat as [|n] eqn:E; [discriminate|]. intros H; inversion H; subst.
  pose proof (nq_pos (S n) ltac:(lia)) as Hp. pose proof (nq_nonneg a).
  assert (nq a <= nq (S n)) by (apply nq_le; lia).
  split; [apply Qle_shift_div_l|apply Qle_shift_div_r]; lra.
Qed.

(* (d) PCK is non-decreasing in the pixel threshold *)
Lemma within_mono t t' d : t <= t' -> within t d = true -> within t' d = true.
Proof.
  intros Ht. unfold within. destruct d as [d|]; [|discriminate]. intros H.
  apply andb_true_iff in H. destruct H as [H0 H1]. apply Qltb_true in H0, H1.
  apply andb_true_iff. split; apply Qltb_intro; [lra|nra].
Qed.

Lemma b2q_within_mono t t' d : t <= t' -> b2q (within t d) <= b2q (within t' d).
Proof.
  intros Ht. destruct (within t d) eqn:E; [rewrite (within_mono t t' d Ht E); lra|].
  cbn [b2q]. apply b2q_bounds.
Qed.

Lemma pck_at_mono n pps t t' : t <= t' -> pck_at n pps t <= pck_at n pps t'.
Proof.
  intros Ht. unfold pck_at. apply qmean_mono. apply Forall2_map_same. intros k _.
  apply qmean_mono. apply Forall2_map_same. intros pp _. apply b2q_within_mono. exact Ht.
Qed.

Lemma Forall2_map_rel {A} (f : A -> Q) (R : A -> A -> Prop) l l' :
  Forall2 R l l' -> (forall a b, R a b -> f a <= f b) -> Forall2 Qle (map f l) (map f l').
Proof. intros H Hf. induction H; cbn [map]; constructor; auto. Qed.

Lemma mpck_mono n pps thrs thrs' q q' :
  Forall2 Qle thrs thrs' -> mpck n pps thrs = Some q -> mpck n pps thrs' = Some q' -> q <= q'.
Proof.
  intros Ht. unfold mpck. destruct pps as [|pp pps]; [discriminate|].
  intros H H'; inversion H; inversion H'; subst. apply qmean_mono. unfold mpck_parts.
  apply Forall2_map_same. intros k _. unfold pck_part. apply qmean_mono.
  apply (Forall2_map_rel _ Qle _ _ Ht). intros t t' Htt.
  apply qmean_mono. apply Forall2_map_same. intros x _. apply b2q_within_mono. exact Htt.
Qed.

(* (a) perfect pairs: prediction = ground truth *)
Definition vis_bit (k : nat) (pp : ppair) : bool :=
  match nth_error (pp_g pp) k with Some gk => negb (missing gk) | None => false end.

Lemma within_self t : 0 < t -> forall g k,
  within t (nth k (map2 node_d2 g g) None) =
  match nth_error g k with Some gk => negb (missing gk) | None => false end.
Proof.
  intros Ht. induction g as [|a g IH]; intros k; [destruct k; reflexivity|].
  destruct k as [|k]; cbn [map2 nth nth_error]; [|apply IH].
  unfold node_d2. rewrite orb_diag. destruct (missing a); [reflexivity|]. cbn [within negb].
  apply andb_true_iff. split; apply Qltb_intro; [exact Ht|]. rewrite dist2_refl. nra.
Qed.

Lemma within_perfect t k pp : 0 < t -> pp_p pp = pp_g pp ->
  within t (nth k (pair_d2 pp) None) = vis_bit k pp.
Proof. intros Ht Hp. unfold pair_d2, vis_bit. rewrite Hp. apply within_self. exact Ht. Qed.

Lemma pair_d2_perfect pp : pp_p pp = pp_g pp ->
  Forall (fun d => match d with None => True | Some q => q == 0 end) (pair_d2 pp).
Proof.
  intros Hp. unfold pair_d2. rewrite Hp. clear Hp. generalize (pp_g pp). intros g0.
  induction g0 as [|a g IH]; cbn [map2]; constructor; [|exact IH].
  unfold node_d2. rewrite orb_diag. destruct (missing a); [exact I|apply dist2_refl].
Qed.

Lemma pck_part_perfect pps thrs k :
  thrs <> [] -> Forall (fun t => 0 < t) thrs -> Forall (fun pp => pp_p pp = pp_g pp) pps ->
  pck_part pps thrs k == qmean (map (fun pp => b2q (vis_bit k pp)) pps).
Proof.
  intros Hne Ht Hp. unfold pck_part.
  rewrite (map_ext_in _ (fun _ => qmean (map (fun pp => b2q (vis_bit k pp)) pps))).
  - apply qmean_const. exact Hne.
  - intros t Hin. rewrite Forall_forall in Ht. specialize (Ht t Hin). f_equal.
    apply map_ext_in. intros pp Hpp. rewrite Forall_forall in Hp. rewrite within_perfect; auto.
Qed.

Lemma mpck_perfect_all_visible n pps thrs q :
  thrs <> [] -> Forall (fun t => 0 < t) thrs -> (0 < n)%nat ->
  Forall (fun pp => pp_p pp = pp_g pp /\ length (pp_g pp) = n /\ n_visible (pp_g pp) = n) pps ->
  mpck n pps thrs = Some q -> q == 1.
Proof.
  intros Hne Ht Hn Hp. unfold mpck. destruct pps as [|pp0 pps0] eqn:Epps; [discriminate|]. rewrite <- Epps in *.
  intros H; inversion H; subst q; clear H.
  assert (1 <= qmean (mpck_parts n pps thrs) <= 1); [|lra].
  apply qmean_bounds_ne.
  { unfold mpck_parts. destruct n; [lia|]. cbn. discriminate. }
  unfold mpck_parts. apply Forall_forall. intros x Hx. apply in_map_iff in Hx.
  destruct Hx as [k [Hx Hk]]. subst x. apply in_seq in Hk.
  rewrite pck_part_perfect; try assumption.
  2:{ eapply Forall_impl; [|exact Hp]. intros pp [H1 _]. exact H1. }
  assert (Hall : forall pp, In pp pps -> vis_bit k pp = true).
  { intros pp Hin. rewrite Forall_forall in Hp. destruct (Hp pp Hin) as [_ [Hl Hv]].
    unfold vis_bit. destruct (nth_error (pp_g pp) k) as [gk|] eqn:E.
    - apply nth_error_In in E. unfold n_visible in Hv.
      assert (Hf : filter (fun p => negb (missing p)) (pp_g pp) = pp_g pp).
      { clear - Hv Hl. rewrite <- Hl in Hv. clear Hl. induction (pp_g pp) as [|a g IH]; [reflexivity|].
        cbn [filter length] in *. destruct (negb (missing a)).
        - f_equal. apply IH. cbn [length] in Hv. lia.
        - exfalso. pose proof (filter_len_le (fun p => negb (missing p)) g). lia. }
      rewrite <- Hf in E. apply filter_In in E. tauto.
    - apply nth_error_None in E. lia. }
  rewrite (map_ext_in _ (fun _ => 1)).
  - rewrite qmean_const; [lra|]. rewrite Epps. discriminate.
  - intros pp Hin. rewrite (Hall pp Hin). reflexivity.
Qed.

(* ------------------------------------------------------------------ *)
(* (a) perfect predictions: every gt instance is matched to its own copy *)
Definition perfect_M (n : nat) (M : smatrix) : Prop :=
  (forall i, (i < n)%nat -> mget M i i = Some 1) /\
  (forall i j, (i < n)%nat -> (j < n)%nat -> i <> j ->
     match mget M i j with Some q => q < 1 | None => True end).

Lemma best_perfect n M thr avail p :
  perfect_M n M -> thr < 1 -> In p avail -> (forall g, In g avail -> (g < n)%nat) ->
  exists pos, best_pos thr (map (fun g => mget M g p) avail) = Some (pos, 1) /\
              (pos < length avail)%nat /\ nth pos avail 0%nat = p.
Proof.
  intros [Hdiag Hoff] Hthr Hin Hlt.
  assert (Hp : (p < n)%nat) by (apply Hlt; exact Hin).
  destruct (In_nth_error _ _ Hin) as [k Hk].
  assert (Hvk : nth_error (map (fun g => mget M g p) avail) k = Some (Some 1)).
  { rewrite nth_error_map, Hk. cbn [option_map]. rewrite Hdiag by exact Hp. reflexivity. }
  assert (Hel : eligible thr 1) by (unfold eligible; lra).
  destruct (best_pos thr (map (fun g => mget M g p) avail)) as [[pos v]|] eqn:Eb.
  - pose proof (best_pos_some _ _ _ _ Eb) as [Hn [He Hmax]].
    assert (Hpos : (pos < length avail)%nat).
    { assert (Hs : nth_error (map (fun g => mget M g p) avail) pos <> None) by congruence.
      apply nth_error_Some in Hs. rewrite map_length in Hs. exact Hs. }
    pose proof (Hmax k 1 Hvk Hel) as H1v.
    rewrite nth_error_map, (nth_error_nth' avail 0%nat Hpos) in Hn. cbn [option_map] in Hn.
    inversion Hn as [Hgv]. set (g := nth pos avail 0%nat) in *.
    assert (Hg : (g < n)%nat) by (apply Hlt; apply nth_In; exact Hpos).
    destruct (Nat.eq_dec g p) as [Hgp|Hgp].
    + rewrite Hgp, Hdiag in Hgv by exact Hp. inversion Hgv; subst v. exists pos. auto.
    + exfalso. specialize (Hoff g p Hg Hp Hgp). rewrite Hgv in Hoff. lra.
  - exfalso. unfold best_pos in Eb. eapply best_from_none; eauto.
Qed.

Lemma match_loop_perfect_fst n M thr : perfect_M n M -> thr < 1 ->
  forall order avail, NoDup avail -> NoDup order -> incl order avail ->
  (forall g, In g avail -> (g < n)%nat) ->
  fst (match_loop M thr order avail) = map (fun p => (p, p, 1)) order.
Proof.
  intros HM Hthr. induction order as [|p rest IH]; intros avail Hnd Hndo Hincl Hlt; [reflexivity|].
  cbn [match_loop]. assert (Hin : In p avail) by (apply Hincl; left; reflexivity).
  destruct avail as [|a0 av] eqn:Eav; [contradiction|]. rewrite <- Eav in *. clear Eav.
  destruct (best_perfect n M thr avail p HM Hthr Hin Hlt) as [pos [Hb [Hpos Hnth]]].
  rewrite Hb, Hnth.
  pose proof (pop_at_perm 0%nat pos avail Hpos) as Hperm. rewrite Hnth in Hperm.
  assert (Hnd' : NoDup (p :: pop_at pos avail)).
  { eapply Permutation_NoDup; [apply Permutation_sym; exact Hperm|exact Hnd]. }
  inversion Hnd' as [|? ? Hnotin Hnd'']; subst. inversion Hndo as [|? ? Hpn Hndr]; subst.
  specialize (IH (pop_at pos avail) Hnd'' Hndr).
  destruct (match_loop M thr rest (pop_at pos avail)) as [ms missed] eqn:Er. cbn [fst map] in *.
  f_equal. apply IH.
  - intros q Hq. assert (Hqa : In q avail) by (apply Hincl; right; exact Hq).
    eapply Permutation_in in Hqa; [|apply Permutation_sym; exact Hperm].
    destruct Hqa as [Hqa|Hqa]; [subst q; contradiction|exact Hqa].
  - intros g Hg. apply Hlt. eapply pop_at_incl; eauto.
Qed.

Lemma match_instances_perfect fx n scores M thr :
  perfect_M n M -> thr < 1 -> length scores = n ->
  match_instances fx n scores M thr = Some (map (fun p => (p, p, 1)) (argsort_desc scores), []).
Proof.
  intros HM Hthr Hlen.
  assert (Hloop : match_loop M thr (argsort_desc scores) (seq 0 n) =
                  (map (fun p => (p, p, 1)) (argsort_desc scores), [])).
  { pose proof (argsort_desc_perm scores) as Hperm. rewrite Hlen in Hperm.
    assert (Hndo : NoDup (argsort_desc scores)).
    { eapply Permutation_NoDup; [apply Permutation_sym; exact Hperm|apply seq_NoDup]. }
    pose proof (match_loop_perfect_fst n M thr HM Hthr (argsort_desc scores) (seq 0 n)
                  (seq_NoDup n 0) Hndo) as Hfst.
    destruct (match_loop M thr (argsort_desc scores) (seq 0 n)) as [ms missed] eqn:E.
    cbn [fst] in Hfst.
    assert (Hms : ms = map (fun p => (p, p, 1)) (argsort_desc scores)).
    { apply Hfst; [intros q Hq; eapply Permutation_in; eauto | intros g Hg; apply in_seq in Hg; lia]. }
    pose proof (match_loop_perm _ _ _ _ _ _ E) as Hp. apply Permutation_length in Hp.
    rewrite app_length, map_length, seq_length in Hp. rewrite Hms, map_length in Hp.
    rewrite (Permutation_length Hperm), seq_length in Hp.
    rewrite Hms. f_equal. destruct missed; [reflexivity|cbn in Hp; lia]. }
  unfold match_instances. destruct n as [|n']; [|rewrite Hloop; reflexivity].
  destruct scores; [|discriminate]. rewrite Hloop. reflexivity.
Qed.

Definition perfect_frame (fp : gframe * pframe) : Prop :=
  let '((_, gts, M), (_, prs, scores)) := fp in
  prs = gts /\ length scores = length gts /\ perfect_M (length gts) M.

Definition frame_gts (fp : gframe * pframe) : list pose := snd (fst (fst fp)).

Definition perfect_pair (pp : ppair) : Prop := pp_oks pp = 1 /\ pp_p pp = pp_g pp.

Lemma pairs_of_frame_perfect fx thr fp :
  perfect_frame fp -> thr < 1 ->
  exists pps, pairs_of_frame fx thr fp = Some (pps, 0%nat) /\ Forall perfect_pair pps /\
              Permutation (map pp_g pps) (frame_gts fp).
Proof.
  destruct fp as [[[gi gts] M] [[pi prs] scores]]. cbn [perfect_frame frame_gts fst snd].
  intros [Hprs [Hlen HM]] Hthr. subst prs. unfold pairs_of_frame.
  rewrite (match_instances_perfect fx (length gts) scores M thr HM Hthr Hlen).
  eexists. split; [reflexivity|]. rewrite map_map. split.
  - apply Forall_forall. intros pp Hpp. apply in_map_iff in Hpp. destruct Hpp as [p [Hpp _]]. subst pp.
    split; reflexivity.
  - rewrite map_map. cbn [pp_g].
    etransitivity; [apply Permutation_map; apply argsort_desc_perm|].
    rewrite Hlen, map_nth_seq. reflexivity.
Qed.

Lemma match_frames_perfect fx thr fps :
  Forall perfect_frame fps -> thr < 1 ->
  exists pps, match_frames fx thr fps = Some (pps, 0%nat) /\ Forall perfect_pair pps /\
              Permutation (map pp_g pps) (concat (map frame_gts fps)).
Proof.
  intros H Hthr. induction H as [|fp fps Hfp _ IH].
  - exists []. cbn. repeat split; constructor.
  - destruct IH as [pps' [Hm [Hpp Hperm]]].
    destruct (pairs_of_frame_perfect fx thr fp Hfp Hthr) as [pps [Hf [Hpp1 Hperm1]]].
    exists (pps ++ pps'). cbn [match_frames]. rewrite Hf, Hm. split; [reflexivity|].
    split; [apply Forall_app; split; assumption|].
    cbn [map concat]. rewrite map_app. apply Permutation_app; assumption.
Qed.

Section VocPerfect.
  Variable rnd : Q -> Q.
  Hypothesis rnd_mono : forall a b, a <= b -> rnd a <= rnd b.
  Hypothesis rnd_0 : rnd 0 == 0.
  Hypothesis rnd_1 : rnd 1 == 1.

  Lemma voc_metrics_perfect pps mthrs rthrs v :
    Forall perfect_pair pps ->
    voc_metrics rnd (map pp_oks pps) pps 0 mthrs rthrs = Some v ->
    Forall (fun t => t <= 1) mthrs -> Forall (fun r => r <= 1) rthrs ->
    Forall (fun row => vr_recall row == 1 /\
                       Forall (fun x => / (1 + eps) <= x <= 1) (vr_precisions row)) (voc_rows v).
  Proof.
    intros Hpp Hv Hm Hr. destruct (voc_metrics_rows _ _ _ _ _ _ _ Hv) as [Hrows [_ [_ Hne]]].
    rewrite Hrows. set (ms := sort_by_score (map pp_score pps) (map pp_oks pps)).
    assert (Hlen : (length pps + 0)%nat = length ms).
    { unfold ms. rewrite sort_by_score_length, map_length. lia. }
    assert (Hms1 : Forall (fun m => m == 1) ms).
    { apply Forall_forall. intros x Hx.
      eapply Permutation_in in Hx; [|apply sort_by_score_perm; rewrite !map_length; reflexivity].
      apply in_map_iff in Hx. destruct Hx as [pp [Hx Hin]]. subst x.
      rewrite Forall_forall in Hpp. destruct (Hpp pp Hin) as [H1 _]. rewrite H1. reflexivity. }
    assert (Hmsne : ms <> []).
    { intros E. rewrite E in Hlen. destruct pps; [contradiction|cbn in Hlen; lia]. }
    rewrite Hlen. apply Forall_forall. intros row Hrow. apply in_map_iff in Hrow.
    destruct Hrow as [t [Hrow Hin]]. subst row. rewrite Forall_forall in Hm. specialize (Hm t Hin).
    destruct (voc_row_perfect rnd rnd_mono rnd_1 ms rthrs t Hmsne Hms1 Hm) as [H1 H2].
    split; [exact H1|apply H2; exact Hr].
  Qed.

  (* (b) at the level of voc_metrics *)
  Lemma voc_metrics_bounds mscores pps n_fn mthrs rthrs v :
    length mscores = length pps ->
    voc_metrics rnd mscores pps n_fn mthrs rthrs = Some v ->
    Forall (fun row => 0 <= vr_recall row <= 1 /\ Forall (fun x => 0 <= x <= 1) (vr_precisions row) /\
                       0 <= vr_ap row <= 1) (voc_rows v) /\
    0 <= voc_map v <= 1 /\ 0 <= voc_mar v <= 1.
  Proof.
    intros Hlen Hv. destruct (voc_metrics_rows _ _ _ _ _ _ _ Hv) as [Hrows [Hmap [Hmar _]]].
    assert (Hall : Forall (fun row => 0 <= vr_recall row <= 1 /\ Forall (fun x => 0 <= x <= 1) (vr_precisions row) /\
                       0 <= vr_ap row <= 1) (voc_rows v)).
    { rewrite Hrows. apply Forall_forall. intros row Hrow. apply in_map_iff in Hrow.
      destruct Hrow as [t [Hrow _]]. subst row.
      apply (voc_row_bounds rnd rnd_mono rnd_0 rnd_1).
      rewrite sort_by_score_length, map_length. lia. }
    split; [exact Hall|]. rewrite Hmap, Hmar. rewrite Forall_forall in Hall. split.
    - apply qmean_bounds; [lra|]. apply Forall_forall. intros x Hx. apply in_concat in Hx.
      destruct Hx as [l [Hl Hx]]. apply in_map_iff in Hl. destruct Hl as [row [Hl Hrow]]. subst l.
      destruct (Hall row Hrow) as [_ [Hp _]]. rewrite Forall_forall in Hp. apply Hp. exact Hx.
    - apply qmean_bounds; [lra|]. apply Forall_forall. intros x Hx. apply in_map_iff in Hx.
      destruct Hx as [row [Hx Hrow]]. subst x. apply (Hall row Hrow).
  Qed.

  (* recall of the report = rnd (count of pairs with OKS >= t / number of gt instances) *)
  Lemma voc_recall_is_count pps n_fn rthrs t :
    pps <> [] ->
    vr_recall (voc_row_of rnd (length pps + n_fn) (sort_by_score (map pp_score pps) (map pp_oks pps)) rthrs t)
    = recall_of rnd t pps n_fn.
  Proof.
    intros Hne. rewrite voc_row_recall.
    - unfold recall_of. f_equal. f_equal. f_equal. apply count_ge_perm.
      apply sort_by_score_perm. rewrite !map_length. reflexivity.
    - intros E. assert (Hl : length (sort_by_score (map pp_score pps) (map pp_oks pps)) = 0%nat) by (rewrite E; reflexivity).
      rewrite sort_by_score_length, map_length in Hl. destruct pps; [contradiction|discriminate].
  Qed.

  Lemma recall_of_mono t pps n_fn pps' n_fn' :
    (count_ge t (map pp_oks pps') <= count_ge t (map pp_oks pps))%nat ->
    (length pps' + n_fn' = length pps + n_fn)%nat ->
    recall_of rnd t pps' n_fn' <= recall_of rnd t pps n_fn.
  Proof.
    intros Hc Hl. unfold recall_of. rewrite Hl. apply rnd_mono, div_nq_le, nq_le. exact Hc.
  Qed.
End VocPerfect.

(* ------------------------------------------------------------------ *)
(* (e) deleting a prediction *)
Lemma match_loop_nil_avail M thr order : match_loop M thr order [] = ([], []).
Proof. destruct order; reflexivity. Qed.

Lemma match_loop_app M thr : forall o1 o2 avail,
  match_loop M thr (o1 ++ o2) avail =
  let '(ms1, av1) := match_loop M thr o1 avail in
  let '(ms2, missed) := match_loop M thr o2 av1 in (ms1 ++ ms2, missed).
Proof.
  induction o1 as [|p o1 IH]; intros o2 avail.
  - cbn [app match_loop]. destruct (match_loop M thr o2 avail). reflexivity.
  - cbn [app match_loop]. destruct avail as [|a0 av] eqn:Eav.
    + rewrite match_loop_nil_avail. reflexivity.
    + rewrite <- Eav in *. destruct (best_pos thr (map (fun g => mget M g p) avail)) as [[pos v]|].
      * rewrite IH. destruct (match_loop M thr o1 (pop_at pos avail)) as [ms1 av1].
        destruct (match_loop M thr o2 av1) as [ms2 missed]. reflexivity.
      * apply IH.
Qed.

Lemma count_ge_app t l1 l2 : count_ge t (l1 ++ l2) = (count_ge t l1 + count_ge t l2)%nat.
Proof. unfold count_ge. rewrite filter_app, app_length. reflexivity. Qed.

Lemma match_loop_total M thr order avail ms missed :
  match_loop M thr order avail = (ms, missed) -> (length ms + length missed = length avail)%nat.
Proof.
  intros H. apply match_loop_perm in H. apply Permutation_length in H.
  rewrite app_length, map_length in H. exact H.
Qed.

(* deleting prediction p from the processing order: if p was unmatched, or nothing
   is processed after it, no gt instance gains a match and the number of pairs with
   OKS >= t cannot grow; the number of gt instances (pairs + missed) is unchanged *)
Lemma delete_prediction_partial M thr o1 p o2 avail t ms missed ms' missed' :
  match_loop M thr (o1 ++ p :: o2) avail = (ms, missed) ->
  match_loop M thr (o1 ++ o2) avail = (ms', missed') ->
  (o2 = [] \/ ~ In p (map pr_of ms)) ->
  (count_ge t (map oks_of ms') <= count_ge t (map oks_of ms))%nat /\
  (length ms' + length missed' = length ms + length missed)%nat.
Proof.
  intros H H' Hsel. split.
  2:{ rewrite (match_loop_total _ _ _ _ _ _ H), (match_loop_total _ _ _ _ _ _ H'). reflexivity. }
  rewrite match_loop_app in H, H'.
  destruct (match_loop M thr o1 avail) as [ms1 av1].
  destruct (match_loop M thr (p :: o2) av1) as [msp mp] eqn:Ep.
  destruct (match_loop M thr o2 av1) as [ms2 m2] eqn:E2.
  inversion H; inversion H'; subst. rewrite !map_app, !count_ge_app.
  apply Nat.add_le_mono_l.
  cbn [match_loop] in Ep. destruct av1 as [|a0 av] eqn:Eav.
  - inversion Ep; subst. rewrite match_loop_nil_avail in E2. inversion E2; subst. cbn. lia.
  - rewrite <- Eav in *. destruct (best_pos thr (map (fun g => mget M g p) av1)) as [[pos v]|].
    + destruct (match_loop M thr o2 (pop_at pos av1)) as [msr mr] eqn:Er. inversion Ep; subst.
      destruct Hsel as [Ho2|Hnot].
      * subst o2. cbn [match_loop] in E2. inversion E2; subst. cbn. lia.
      * exfalso. apply Hnot. rewrite map_app. apply in_or_app. right. left. reflexivity.
    + rewrite Ep in E2. inversion E2; subst. lia.
Qed.

(* ------------------------------------------------------------------ *)
(* (e'), narrower: the gt instance g freed by the deletion can only matter if some
   prediction processed later is eligible for it.  If none is, the later part of the
   run is the same with or without g in the pool. *)
Definition shift_at (c : nat) (r : nat * Q) : nat * Q :=
  (if (fst r <? c)%nat then fst r else S (fst r), snd r).

Definition ineligible (thr : Q) (x : option Q) : Prop :=
  match x with Some q => q <= thr | None => True end.

Lemma best_from_shift thr c : forall l pos curL curR,
  curL = option_map (shift_at c) curR -> (c <= pos)%nat ->
  best_from thr l (S pos) curL = option_map (shift_at c) (best_from thr l pos curR).
Proof.
  induction l as [|v l IH]; intros pos curL curR Hc Hpos; cbn [best_from]; [exact Hc|].
  apply IH; [|lia].
  assert (Hnew : forall q, Some (S pos, q) = option_map (shift_at c) (Some (pos, q))).
  { intros q. cbn [option_map]. unfold shift_at. cbn [fst snd].
    assert (E : (pos <? c)%nat = false) by (apply Nat.ltb_ge; lia). rewrite E. reflexivity. }
  destruct v as [q|]; [|exact Hc]. destruct (Qle_bool q thr); [exact Hc|].
  destruct curR as [[p0 b]|]; subst curL; cbn [option_map].
  - unfold shift_at at 1. cbn [fst snd]. destruct (Qltb b q); [apply Hnew|reflexivity].
  - apply Hnew.
Qed.

Lemma best_from_insert thr x l2 : ineligible thr x ->
  forall l1 pos cur, (forall p0 b, cur = Some (p0, b) -> (p0 < pos)%nat) ->
  best_from thr (l1 ++ x :: l2) pos cur =
  option_map (shift_at (pos + length l1)) (best_from thr (l1 ++ l2) pos cur).
Proof.
  intros Hx. induction l1 as [|y l1 IH]; intros pos cur Hcur.
  - cbn [app length]. rewrite Nat.add_0_r. cbn [best_from].
    assert (E : match x with
                | Some q => if Qle_bool q thr then cur
                            else match cur with
                                 | Some (_, b) => if Qltb b q then Some (pos, q) else cur
                                 | None => Some (pos, q)
                                 end
                | None => cur
                end = cur).
    { destruct x as [q|]; [|reflexivity]. cbn [ineligible] in Hx. apply Qle_bool_iff in Hx.
      rewrite Hx. reflexivity. }
    rewrite E. apply best_from_shift; [|lia].
    destruct cur as [[p0 b]|]; [|reflexivity]. cbn [option_map]. unfold shift_at. cbn [fst snd].
    specialize (Hcur p0 b eq_refl). assert (E2 : (p0 <? pos)%nat = true) by (apply Nat.ltb_lt; lia).
    rewrite E2. reflexivity.
  - cbn [app length best_from]. replace (pos + S (length l1))%nat with (S pos + length l1)%nat by lia.
    apply IH. intros p0 b Hb.
    destruct y as [q|]; [|specialize (Hcur _ _ Hb); lia].
    destruct (Qle_bool q thr); [specialize (Hcur _ _ Hb); lia|].
    destruct cur as [[p1 b1]|].
    + destruct (Qltb b1 q); [inversion Hb; lia|specialize (Hcur _ _ Hb); lia].
    + inversion Hb; lia.
Qed.

Lemma best_pos_insert thr x l1 l2 : ineligible thr x ->
  best_pos thr (l1 ++ x :: l2) = option_map (shift_at (length l1)) (best_pos thr (l1 ++ l2)).
Proof.
  intros Hx. unfold best_pos. rewrite (best_from_insert thr x l2 Hx l1 0 None); [reflexivity|].
  intros p0 b H; discriminate.
Qed.

Lemma pop_at_app_l {A} pos (a1 a2 : list A) : (pos < length a1)%nat ->
  pop_at pos (a1 ++ a2) = pop_at pos a1 ++ a2.
Proof.
  intros H. unfold pop_at. rewrite firstn_app, skipn_app.
  replace (pos - length a1)%nat with 0%nat by lia. replace (S pos - length a1)%nat with 0%nat by lia.
  cbn [firstn skipn]. rewrite app_nil_r, app_assoc. reflexivity.
Qed.

Lemma pop_at_app_r {A} pos (a1 a2 : list A) : (length a1 <= pos)%nat ->
  pop_at pos (a1 ++ a2) = a1 ++ pop_at (pos - length a1) a2.
Proof.
  intros H. unfold pop_at. rewrite firstn_app, skipn_app.
  rewrite (firstn_all2 a1) by lia. rewrite (skipn_all2 a1) by lia.
  replace (S pos - length a1)%nat with (S (pos - length a1)) by lia.
  cbn [app]. rewrite app_assoc. reflexivity.
Qed.

Lemma match_loop_ignores_ineligible M thr g : forall o2 a1 a2,
  (forall q, In q o2 -> ineligible thr (mget M g q)) ->
  fst (match_loop M thr o2 (a1 ++ g :: a2)) = fst (match_loop M thr o2 (a1 ++ a2)).
Proof.
  induction o2 as [|q rest IH]; intros a1 a2 Hin; [reflexivity|].
  assert (Hq : ineligible thr (mget M g q)) by (apply Hin; left; reflexivity).
  assert (Hrest : forall q', In q' rest -> ineligible thr (mget M g q')) by (intros q' Hq'; apply Hin; right; exact Hq').
  cbn [match_loop].
  destruct (a1 ++ g :: a2) as [|b0 bs] eqn:Efull; [destruct a1; discriminate|]. rewrite <- Efull. clear Efull b0 bs.
  rewrite map_app. cbn [map]. rewrite (best_pos_insert thr _ _ _ Hq), <- map_app, map_length.
  destruct (a1 ++ a2) as [|c0 cs] eqn:Eshort.
  - apply app_eq_nil in Eshort. destruct Eshort; subst a1 a2. cbn [map best_pos best_from option_map].
    rewrite (IH [] [] Hrest). cbn [app]. rewrite match_loop_nil_avail. reflexivity.
  - rewrite <- Eshort. clear Eshort c0 cs.
    destruct (best_pos thr (map (fun g0 => mget M g0 q) (a1 ++ a2))) as [[pos v]|] eqn:Eb; cbn [option_map].
    + unfold shift_at. cbn [fst snd].
      assert (Hpos : (pos < length (a1 ++ a2))%nat).
      { apply best_pos_some in Eb. destruct Eb as [Hn _].
        assert (Hs : nth_error (map (fun g0 => mget M g0 q) (a1 ++ a2)) pos <> None) by congruence.
        apply nth_error_Some in Hs. rewrite map_length in Hs. exact Hs. }
      destruct (pos <? length a1)%nat eqn:El.
      * apply Nat.ltb_lt in El. rewrite !pop_at_app_l by exact El. rewrite !app_nth1 by exact El.
        specialize (IH (pop_at pos a1) a2 Hrest).
        destruct (match_loop M thr rest (pop_at pos a1 ++ g :: a2)) as [ms1 m1].
        destruct (match_loop M thr rest (pop_at pos a1 ++ a2)) as [ms2 m2]. cbn [fst] in *. rewrite IH. reflexivity.
      * apply Nat.ltb_ge in El. rewrite app_length in Hpos.
        rewrite (pop_at_app_r (S pos) a1 (g :: a2)) by lia. rewrite (pop_at_app_r pos a1 a2) by exact El.
        rewrite (app_nth2 a1 (g :: a2)) by lia. rewrite (app_nth2 a1 a2) by lia.
        replace (S pos - length a1)%nat with (S (pos - length a1)) by lia. cbn [nth].
        assert (Epop : pop_at (S (pos - length a1)) (g :: a2) = g :: pop_at (pos - length a1) a2) by reflexivity.
        rewrite Epop. specialize (IH a1 (pop_at (pos - length a1) a2) Hrest).
        destruct (match_loop M thr rest (a1 ++ g :: pop_at (pos - length a1) a2)) as [ms1 m1].
        destruct (match_loop M thr rest (a1 ++ pop_at (pos - length a1) a2)) as [ms2 m2]. cbn [fst] in *.
        rewrite IH. reflexivity.
    + apply IH. exact Hrest.
Qed.

Lemma pop_at_split {A} (d : A) pos (l : list A) : (pos < length l)%nat ->
  l = firstn pos l ++ nth pos l d :: skipn (S pos) l /\ pop_at pos l = firstn pos l ++ skipn (S pos) l.
Proof.
  intros H. split; [|reflexivity]. revert l H. induction pos as [|pos IH]; intros [|x l] H; cbn [length] in H; try lia.
  - reflexivity.
  - cbn [firstn nth skipn app]. f_equal. apply IH. lia.
Qed.

(* the narrow form: the deleted prediction p may have been matched (to g), as long as no
   prediction processed after it is eligible for g *)
Lemma delete_prediction_partial_narrow M thr o1 p o2 avail t ms missed ms' missed' :
  match_loop M thr (o1 ++ p :: o2) avail = (ms, missed) ->
  match_loop M thr (o1 ++ o2) avail = (ms', missed') ->
  (forall g v, In (g, p, v) ms -> forall q, In q o2 -> ineligible thr (mget M g q)) ->
  (count_ge t (map oks_of ms') <= count_ge t (map oks_of ms))%nat /\
  (length ms' + length missed' = length ms + length missed)%nat.
Proof.
  intros H H' Hsel. split.
  2:{ rewrite (match_loop_total _ _ _ _ _ _ H), (match_loop_total _ _ _ _ _ _ H'). reflexivity. }
  rewrite match_loop_app in H, H'.
  destruct (match_loop M thr o1 avail) as [ms1 av1].
  destruct (match_loop M thr (p :: o2) av1) as [msp mp] eqn:Ep.
  destruct (match_loop M thr o2 av1) as [ms2 m2] eqn:E2.
  inversion H; inversion H'; subst. rewrite !map_app, !count_ge_app.
  apply Nat.add_le_mono_l.
  cbn [match_loop] in Ep. destruct av1 as [|a0 av] eqn:Eav.
  - inversion Ep; subst. rewrite match_loop_nil_avail in E2. inversion E2; subst. cbn. lia.
  - rewrite <- Eav in *. clear Eav a0 av.
    destruct (best_pos thr (map (fun g => mget M g p) av1)) as [[pos v]|] eqn:Eb.
    + destruct (match_loop M thr o2 (pop_at pos av1)) as [msr mr] eqn:Er. inversion Ep; subst. clear Ep.
      assert (Hpos : (pos < length av1)%nat).
      { apply best_pos_some in Eb. destruct Eb as [Hn _].
        assert (Hs : nth_error (map (fun g => mget M g p) av1) pos <> None) by congruence.
        apply nth_error_Some in Hs. rewrite map_length in Hs. exact Hs. }
      set (g := nth pos av1 0%nat) in *.
      assert (Hg : forall q, In q o2 -> ineligible thr (mget M g q)).
      { apply (Hsel g v). apply in_or_app. right. left. reflexivity. }
      destruct (pop_at_split 0%nat pos av1 Hpos) as [Hsplit Hpop]. fold g in Hsplit.
      pose proof (match_loop_ignores_ineligible M thr g o2 (firstn pos av1) (skipn (S pos) av1) Hg) as Hsame.
      rewrite <- Hsplit, <- Hpop, E2, Er in Hsame. cbn [fst] in Hsame. subst ms2.
      change (map oks_of ((g, p, v) :: msr)) with ([oks_of (g, p, v)] ++ map oks_of msr).
      rewrite count_ge_app. lia.
    + rewrite Ep in E2. inversion E2; subst. lia.
Qed.
