(* LemmasExt.v (C16, proof extension) — clauses (b), (c), (d) at the level of the report that
   `evaluate round_f64` returns (the function the harness evaluates against Evaluator.evaluate()), for all
   inputs; and the C15 matching contract on every frame pair of an evaluation. *)
From Coq Require Import List Arith ZArith QArith Bool Permutation Lia Lqa.
Import ListNotations.
From SV Require Import C15.Oks C15.Lemmas C15.Contract C16.Metrics C16.Lemmas C16.LemmasPairs C16.LemmasDelete
  C16.LemmasDelete2 C16.LemmasRound C16.LemmasReport.
Local Open Scope Q_scope.

Lemma evaluate_ok_report rnd fx ulo thr n db gtL prL m r k rep :
  evaluate rnd fx ulo thr n db gtL prL m r k = Ok rep ->
  exists pps nfn, process fx ulo thr db gtL prL = Ok (pps, nfn) /\ rep = report_of rnd n pps nfn m r k.
Proof.
  unfold evaluate. destruct (process fx ulo thr db gtL prL) as [[pps nfn]| |]; try discriminate.
  intros H. inversion H. exists pps, nfn. split; reflexivity.
Qed.

Lemma report_of_fields rnd n pps nfn m r k :
  let rep := report_of rnd n pps nfn m r k in
  r_voc rep = voc_metrics rnd (map pp_oks pps) pps nfn m r /\
  r_pckvoc rep = voc_metrics rnd (map (pck_pair_score k) pps) pps nfn m r /\
  r_moks rep = moks pps /\ r_mpck rep = mpck n pps k /\
  r_parts rep = (match pps with [] => None | _ => Some (mpck_parts n pps k) end) /\
  r_vprec rep = ratio (fst (fst (fst (vis_counts pps)))) (snd (fst (fst (vis_counts pps)))) /\
  r_vrec rep = ratio (fst (fst (fst (vis_counts pps)))) (snd (vis_counts pps)) /\
  r_nfn rep = nfn.
Proof.
  cbv zeta. unfold report_of. destruct (vis_counts pps) as [[[tp fp] tn] fn]. cbn.
  repeat split; reflexivity.
Qed.

Definition voc_in_unit (v : voc) : Prop :=
  Forall (fun row => 0 <= vr_recall row <= 1 /\ Forall (fun x => 0 <= x <= 1) (vr_precisions row) /\
                     0 <= vr_ap row <= 1) (voc_rows v) /\
  0 <= voc_map v <= 1 /\ 0 <= voc_mar v <= 1.

(* (b) every ratio of the report is in [0,1] *)
Theorem report_bounds fx ulo thr n db gtL prL m r k rep :
  m <> [] -> r <> [] ->
  (forall fp g p x, In fp (find_pairs ulo db gtL prL) -> mget (frame_M fp) g p = Some x -> 0 <= x <= 1) ->
  evaluate round_f64 fx ulo thr n db gtL prL m r k = Ok rep ->
  (forall v, r_voc rep = Some v -> voc_in_unit v) /\
  (forall v, r_pckvoc rep = Some v -> voc_in_unit v) /\
  (forall q, r_moks rep = Some q -> 0 <= q <= 1) /\
  (forall q, r_mpck rep = Some q -> 0 <= q <= 1) /\
  (forall ps, r_parts rep = Some ps -> Forall (fun x => 0 <= x <= 1) ps) /\
  (forall q, r_vprec rep = Some q -> 0 <= q <= 1) /\
  (forall q, r_vrec rep = Some q -> 0 <= q <= 1).
Proof.
  intros _ _ Hdb He. destruct (evaluate_ok_report _ _ _ _ _ _ _ _ _ _ _ _ He) as [pps [nfn [Hp ->]]].
  destruct (report_of_fields round_f64 n pps nfn m r k) as [E1 [E2 [E3 [E4 [E5 [E6 [E7 _]]]]]]].
  rewrite E1, E2, E3, E4, E5, E6, E7. clear E1 E2 E3 E4 E5 E6 E7.
  split; [intros v Hv; apply (voc_metrics_bounds round_f64 round_f64_mono round_f64_0 round_f64_1 _ _ _ _ _ _
                                (map_length _ _) Hv)|].
  split; [intros v Hv; apply (voc_metrics_bounds round_f64 round_f64_mono round_f64_0 round_f64_1 _ _ _ _ _ _
                                (map_length _ _) Hv)|].
  split; [intros q Hq; eapply process_moks_bounds; eassumption|].
  split; [intros q Hq; eapply mpck_bounds; exact Hq|].
  split.
  { intros ps Hps. destruct pps as [|pp pps]; [discriminate|]. inversion Hps; subst.
    unfold mpck_parts. apply Forall_forall. intros x Hx. apply in_map_iff in Hx.
    destruct Hx as [j [Hx _]]. subst x. apply pck_part_bounds. }
  split; intros q Hq; eapply ratio_bounds; exact Hq.
Qed.

(* (c) along the match-threshold grid of one report: a larger threshold never has a larger recall or AP;
   for the OKS table and for the PCK table *)
Lemma voc_rows_antitone rnd : (forall a b, a <= b -> rnd a <= rnd b) ->
  forall ms pps nfn m r v i j t1 t2 row1 row2,
  voc_metrics rnd ms pps nfn m r = Some v ->
  nth_error m i = Some t1 -> nth_error m j = Some t2 -> t1 <= t2 ->
  nth_error (voc_rows v) i = Some row1 -> nth_error (voc_rows v) j = Some row2 ->
  vr_recall row2 <= vr_recall row1 /\ vr_ap row2 <= vr_ap row1 /\
  Forall2 Qle (vr_precisions row2) (vr_precisions row1).
Proof.
  intros Hm ms pps nfn m r v i j t1 t2 row1 row2 Hv H1 H2 Ht R1 R2.
  destruct (voc_metrics_rows _ _ _ _ _ _ _ Hv) as [Hr _]. rewrite Hr in R1, R2.
  rewrite nth_error_map in R1, R2. rewrite H1 in R1. rewrite H2 in R2. cbn in R1, R2.
  inversion R1; inversion R2; subst.
  destruct (voc_row_mono rnd Hm (length pps + nfn) (sort_by_score (map pp_score pps) ms) r t1 t2 Ht)
    as [A [B C]].
  split; [exact A|]. split; [exact C|exact B].
Qed.

Theorem report_antitone_in_grid fx ulo thr n db gtL prL m r k rep :
  evaluate round_f64 fx ulo thr n db gtL prL m r k = Ok rep ->
  forall v, (r_voc rep = Some v \/ r_pckvoc rep = Some v) ->
  forall i j t1 t2 row1 row2,
  nth_error m i = Some t1 -> nth_error m j = Some t2 -> t1 <= t2 ->
  nth_error (voc_rows v) i = Some row1 -> nth_error (voc_rows v) j = Some row2 ->
  vr_recall row2 <= vr_recall row1 /\ vr_ap row2 <= vr_ap row1 /\
  Forall2 Qle (vr_precisions row2) (vr_precisions row1).
Proof.
  intros He v Hv. destruct (evaluate_ok_report _ _ _ _ _ _ _ _ _ _ _ _ He) as [pps [nfn [Hp ->]]].
  destruct (report_of_fields round_f64 n pps nfn m r k) as [E1 [E2 _]].
  rewrite E1, E2 in Hv. intros i j t1 t2 row1 row2.
  destruct Hv as [Hv|Hv]; eapply (voc_rows_antitone round_f64 round_f64_mono); exact Hv.
Qed.

(* the table has one row per match threshold, in grid order *)
Lemma report_rows_length fx ulo thr n db gtL prL m r k rep v :
  evaluate round_f64 fx ulo thr n db gtL prL m r k = Ok rep ->
  (r_voc rep = Some v \/ r_pckvoc rep = Some v) -> length (voc_rows v) = length m.
Proof.
  intros He Hv. destruct (evaluate_ok_report _ _ _ _ _ _ _ _ _ _ _ _ He) as [pps [nfn [Hp ->]]].
  destruct (report_of_fields round_f64 n pps nfn m r k) as [E1 [E2 _]].
  rewrite E1, E2 in Hv.
  destruct Hv as [Hv|Hv]; destruct (voc_metrics_rows _ _ _ _ _ _ _ Hv) as [Hr _]; rewrite Hr; apply map_length.
Qed.

(* (d) two evaluations of the same labels that differ in the pixel grid only: pointwise larger pixel
   thresholds never give a smaller mPCK, nor a smaller per-node PCK *)
Theorem report_pck_monotone rnd fx ulo thr n db gtL prL m r k k' rep rep' :
  Forall2 Qle k k' ->
  evaluate rnd fx ulo thr n db gtL prL m r k = Ok rep ->
  evaluate rnd fx ulo thr n db gtL prL m r k' = Ok rep' ->
  (forall q q', r_mpck rep = Some q -> r_mpck rep' = Some q' -> q <= q') /\
  (forall ps ps', r_parts rep = Some ps -> r_parts rep' = Some ps' -> Forall2 Qle ps ps').
Proof.
  intros Hk He He'.
  destruct (evaluate_ok_report _ _ _ _ _ _ _ _ _ _ _ _ He) as [pps [nfn [Hp ->]]].
  destruct (evaluate_ok_report _ _ _ _ _ _ _ _ _ _ _ _ He') as [pps' [nfn' [Hp' ->]]].
  rewrite Hp in Hp'. inversion Hp'; subst pps' nfn'. clear Hp'.
  destruct (report_of_fields rnd n pps nfn m r k) as [_ [_ [_ [E4 [E5 _]]]]].
  destruct (report_of_fields rnd n pps nfn m r k') as [_ [_ [_ [E4' [E5' _]]]]].
  rewrite E4, E5, E4', E5'. split.
  - intros q q' Hq Hq'. eapply mpck_mono; eassumption.
  - intros ps ps' Hps Hps'. destruct pps as [|pp pps]; [discriminate|].
    inversion Hps; inversion Hps'; subst. unfold mpck_parts.
    apply Forall2_map_same. intros a _. unfold pck_part. apply qmean_mono.
    apply (Forall2_map_rel _ Qle _ _ Hk). intros t t' Htt.
    apply qmean_mono. apply Forall2_map_same. intros x _. apply b2q_within_mono. exact Htt.
Qed.

(* every frame pair of an evaluation is matched by a run of C15's match_instances whose answer passes
   C15's executable contract checker (c15_match_model_meets_contract), so the clauses of
   c15_match_answer_contract hold of the matching behind every report *)
Definition frame_meets_contract (fx : bool) (thr : Q) (fp : gframe * pframe) : Prop :=
  let '((_, gts, M), (_, _, scores)) := fp in
  exists ms missed, match_instances fx (length gts) scores M thr = Some (ms, missed) /\
                    match_contractb (length gts) (length scores) M thr ms missed = true.

Lemma match_frames_contract fx thr : forall fps r,
  match_frames fx thr fps = Some r -> Forall (frame_meets_contract fx thr) fps.
Proof.
  induction fps as [|fp fps IH]; intros r H; [constructor|].
  cbn [match_frames] in H.
  destruct (pairs_of_frame fx thr fp) as [[ps fn]|] eqn:E1; [|discriminate].
  destruct (match_frames fx thr fps) as [[qs gn]|] eqn:E2; [|discriminate].
  constructor; [|eapply IH; reflexivity].
  destruct fp as [[[gi gts] M] [[pj prs] scores]]. unfold pairs_of_frame in E1. cbn.
  destruct (match_instances fx (length gts) scores M thr) as [[ms missed]|] eqn:Em; [|discriminate].
  exists ms, missed. split; [reflexivity|]. eapply match_instances_meets_contract. exact Em.
Qed.

Theorem process_frames_meet_contract fx ulo thr db gtL prL r :
  process fx ulo thr db gtL prL = Ok r -> Forall (frame_meets_contract fx thr) (find_pairs ulo db gtL prL).
Proof.
  unfold process. destruct (find_pairs ulo db gtL prL) as [|fp fps]; [discriminate|].
  destruct (match_frames fx thr (fp :: fps)) as [r'|] eqn:E; [|discriminate].
  intros _. eapply match_frames_contract. exact E.
Qed.
