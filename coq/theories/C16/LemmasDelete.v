(* LemmasDelete.v (C16) — the narrow form of "deleting a prediction never increases recall":
   the gt instance g freed by deleting a matched prediction p only matters if some prediction q
   processed later is eligible for g AND does not strictly prefer the instance it was matched to. *)
From Coq Require Import List Arith ZArith QArith Bool Permutation Lia Lqa.
Import ListNotations.
From SV Require Import C15.Oks C15.Lemmas C16.Metrics C16.Lemmas.
Local Open Scope Q_scope.

(* value order on the running best of best_from *)
Definition lev (c1 c2 : option (nat * Q)) : Prop :=
  match c1, c2 with
  | None, _ => True
  | Some (_, b1), Some (_, b2) => b1 <= b2
  | Some _, None => False
  end.

Lemma Qltb_true_intro a b : a < b -> Qltb a b = true.
Proof. intros H. unfold Qltb. apply negb_true_iff. destruct (Qle_bool b a) eqn:E; [|reflexivity]. apply Qle_bool_iff in E. lra. Qed.
Lemma Qltb_false_intro a b : b <= a -> Qltb a b = false.
Proof. intros H. unfold Qltb. apply negb_false_iff. apply Qle_bool_iff. exact H. Qed.

(* starting from a larger running best that is still strictly below the final value changes nothing *)
Lemma best_from_raise_cur thr : forall l pos c1 c2 r,
  best_from thr l pos c1 = Some r ->
  (c1 = c2 \/ (lev c1 c2 /\ exists p2 b2, c2 = Some (p2, b2) /\ b2 < snd r)) ->
  best_from thr l pos c2 = Some r.
Proof.
  induction l as [|y l IH]; intros pos c1 c2 r H Hc.
  - cbn [best_from] in *. destruct Hc as [E|[Hle [p2 [b2 [E Hlt]]]]]; [rewrite <- E; exact H|].
    rewrite H, E in Hle. destruct r as [p v]. cbn [lev snd] in *. lra.
  - cbn [best_from] in *. destruct Hc as [E|[Hle [p2 [b2 [E Hlt]]]]]; [rewrite <- E; exact H|]. subst c2.
    destruct y as [q|]; [|apply (IH _ _ _ _ H); right; split; [exact Hle|exists p2, b2; split; [reflexivity|exact Hlt]]].
    destruct (Qle_bool q thr); [apply (IH _ _ _ _ H); right; split; [exact Hle|exists p2, b2; split; [reflexivity|exact Hlt]]|].
    destruct (Qltb b2 q) eqn:E2.
    + (* the larger start is replaced: so is the smaller one *)
      apply Qltb_true in E2. apply (IH _ _ _ _ H). left.
      destruct c1 as [[p1 b1]|]; [|reflexivity]. cbn [lev] in Hle.
      rewrite (Qltb_true_intro b1 q) by lra. reflexivity.
    + apply Qltb_false in E2. apply (IH _ _ _ _ H). right. split; [|exists p2, b2; split; [reflexivity|exact Hlt]].
      destruct c1 as [[p1 b1]|]; cbn [lev] in *.
      * destruct (Qltb b1 q); cbn [lev]; [exact E2|exact Hle].
      * exact E2.
Qed.

Lemma best_from_insert_dom thr x l2 : forall l1 pos cur r,
  (forall p0 b, cur = Some (p0, b) -> (p0 < pos)%nat) ->
  best_from thr (l1 ++ l2) pos cur = Some r -> x < snd r ->
  best_from thr (l1 ++ Some x :: l2) pos cur = Some (shift_at (pos + length l1) r).
Proof.
  induction l1 as [|y l1 IH]; intros pos cur r Hcur H Hx.
  - cbn [app length] in *. rewrite Nat.add_0_r. cbn [best_from].
    assert (Hsh : best_from thr l2 (S pos) cur = Some (shift_at pos r)).
    { rewrite (best_from_shift thr pos l2 pos cur cur); [rewrite H; reflexivity| |lia].
      destruct cur as [[p0 b]|]; [|reflexivity]. cbn [option_map]. unfold shift_at. cbn [fst snd].
      specialize (Hcur p0 b eq_refl). assert (E : (p0 <? pos)%nat = true) by (apply Nat.ltb_lt; lia).
      rewrite E. reflexivity. }
    destruct (Qle_bool x thr); [exact Hsh|].
    assert (Hsnd : snd (shift_at pos r) = snd r) by reflexivity.
    destruct cur as [[p0 b]|].
    + destruct (Qltb b x) eqn:Eb; [|exact Hsh]. apply Qltb_true in Eb.
      apply (best_from_raise_cur thr l2 (S pos) (Some (p0, b)) (Some (pos, x)) _ Hsh).
      right. split; [cbn [lev]; lra|]. exists pos, x. split; [reflexivity|rewrite Hsnd; exact Hx].
    + apply (best_from_raise_cur thr l2 (S pos) None (Some (pos, x)) _ Hsh).
      right. split; [exact I|]. exists pos, x. split; [reflexivity|rewrite Hsnd; exact Hx].
  - cbn [app length best_from] in *. replace (pos + S (length l1))%nat with (S pos + length l1)%nat by lia.
    apply IH; [|exact H|exact Hx]. intros p0 b Hb.
    destruct y as [q|]; [|specialize (Hcur _ _ Hb); lia].
    destruct (Qle_bool q thr); [specialize (Hcur _ _ Hb); lia|].
    destruct cur as [[p1 b1]|].
    + destruct (Qltb b1 q); [inversion Hb; lia|specialize (Hcur _ _ Hb); lia].
    + inversion Hb; lia.
Qed.

Lemma best_pos_insert_dom thr x l1 l2 r :
  best_pos thr (l1 ++ l2) = Some r -> x < snd r ->
  best_pos thr (l1 ++ Some x :: l2) = Some (shift_at (length l1) r).
Proof.
  unfold best_pos. intros H Hx. apply (best_from_insert_dom thr x l2 l1 0 None r); [|exact H|exact Hx].
  intros p0 b Hb; discriminate.
Qed.

(* q does not want g: g is not eligible for q, or q was matched with a strictly larger OKS *)
Definition dominated (M : smatrix) (thr : Q) (g : nat) (ms : list mpair) (q : nat) : Prop :=
  ineligible thr (mget M g q) \/
  exists x g' v', mget M g q = Some x /\ In (g', q, v') ms /\ x < v'.

Lemma match_loop_cons_fst M thr q rest avail : avail <> [] ->
  fst (match_loop M thr (q :: rest) avail) =
  match best_pos thr (map (fun g0 => mget M g0 q) avail) with
  | Some (pos, v) => (nth pos avail 0%nat, q, v) :: fst (match_loop M thr rest (pop_at pos avail))
  | None => fst (match_loop M thr rest avail)
  end.
Proof.
  intros Hne. cbn [match_loop]. destruct avail as [|a0 av] eqn:E; [congruence|]. rewrite <- E.
  destruct (best_pos thr (map (fun g0 => mget M g0 q) avail)) as [[pos v]|]; [|reflexivity].
  destruct (match_loop M thr rest (pop_at pos avail)) as [ms missed]. reflexivity.
Qed.

Lemma match_loop_pr_in M thr order avail m :
  In m (fst (match_loop M thr order avail)) -> In (pr_of m) order.
Proof.
  intros H. destruct (match_loop M thr order avail) as [ms missed] eqn:E. cbn [fst] in H.
  pose proof (match_loop_pairs M thr order avail ms missed E) as Hp. rewrite Forall_forall in Hp.
  apply (Hp m H).
Qed.

Lemma match_loop_ignores_dominated M thr g : forall o2, NoDup o2 -> forall a1 a2,
  (forall q, In q o2 -> dominated M thr g (fst (match_loop M thr o2 (a1 ++ a2))) q) ->
  fst (match_loop M thr o2 (a1 ++ g :: a2)) = fst (match_loop M thr o2 (a1 ++ a2)).
Proof.
  induction o2 as [|q rest IH]; intros Hnd a1 a2 Hdom; [reflexivity|].
  inversion Hnd as [|? ? Hq_notin Hnd']; subst.
  destruct (a1 ++ a2) as [|c0 cs] eqn:Eshort.
  { (* nothing else in the pool: nobody is matched, so everybody is ineligible for g *)
    rewrite <- Eshort. apply match_loop_ignores_ineligible. intros q' Hq'.
    destruct (Hdom q' Hq') as [Hi|[x [g' [v' [_ [Hin _]]]]]]; [exact Hi|].
    rewrite match_loop_nil_avail in Hin. destruct Hin. }
  rewrite <- Eshort in *. assert (Hne : a1 ++ a2 <> []) by (rewrite Eshort; discriminate). clear Eshort c0 cs.
  assert (Hne' : a1 ++ g :: a2 <> []) by (destruct a1; discriminate).
  rewrite (match_loop_cons_fst M thr q rest _ Hne'), (match_loop_cons_fst M thr q rest _ Hne).
  rewrite (match_loop_cons_fst M thr q rest _ Hne) in Hdom.
  rewrite map_app. cbn [map].
  destruct (best_pos thr (map (fun g0 => mget M g0 q) (a1 ++ a2))) as [[pos v]|] eqn:Eb.
  - (* q takes position pos of the short pool with OKS v; with g in the pool it takes the same instance *)
    assert (Hbest : best_pos thr (map (fun g0 => mget M g0 q) a1 ++ mget M g q :: map (fun g0 => mget M g0 q) a2)
                    = Some (shift_at (length (map (fun g0 => mget M g0 q) a1)) (pos, v))).
    { rewrite map_app in Eb. destruct (Hdom q (or_introl eq_refl)) as [Hi|[x [g' [v' [Hx [Hin Hlt]]]]]].
      - rewrite (best_pos_insert thr _ _ _ Hi), Eb. reflexivity.
      - rewrite Hx. apply best_pos_insert_dom; [exact Eb|]. cbn [snd].
        destruct Hin as [Hin|Hin]; [inversion Hin; subst; exact Hlt|].
        exfalso. apply Hq_notin. apply (match_loop_pr_in M thr rest _ _ Hin). }
    rewrite Hbest. unfold shift_at. cbn [fst snd]. rewrite map_length.
    assert (Hpos : (pos < length (a1 ++ a2))%nat).
    { apply best_pos_some in Eb. destruct Eb as [Hn _].
      assert (Hs : nth_error (map (fun g0 => mget M g0 q) (a1 ++ a2)) pos <> None) by congruence.
      apply nth_error_Some in Hs. rewrite map_length in Hs. exact Hs. }
    assert (Hrest : forall q', In q' rest ->
              dominated M thr g (fst (match_loop M thr rest (pop_at pos (a1 ++ a2)))) q').
    { intros q' Hq'. destruct (Hdom q' (or_intror Hq')) as [Hi|[x [g' [v' [Hx [Hin Hlt]]]]]]; [left; exact Hi|].
      right. exists x, g', v'. split; [exact Hx|]. split; [|exact Hlt].
      destruct Hin as [Hin|Hin]; [|exact Hin]. inversion Hin; subst. exfalso. apply Hq_notin. exact Hq'. }
    destruct (pos <? length a1)%nat eqn:El.
    + apply Nat.ltb_lt in El. rewrite !pop_at_app_l by exact El. rewrite !app_nth1 by exact El.
      rewrite (pop_at_app_l pos a1 a2 El) in Hrest.
      rewrite (IH Hnd' (pop_at pos a1) a2 Hrest). reflexivity.
    + apply Nat.ltb_ge in El. rewrite app_length in Hpos.
      rewrite (pop_at_app_r (S pos) a1 (g :: a2)) by lia. rewrite (pop_at_app_r pos a1 a2) by exact El.
      rewrite (pop_at_app_r pos a1 a2 El) in Hrest.
      rewrite (app_nth2 a1 (g :: a2)) by lia. rewrite (app_nth2 a1 a2) by lia.
      replace (S pos - length a1)%nat with (S (pos - length a1)) by lia. cbn [nth].
      assert (Epop : pop_at (S (pos - length a1)) (g :: a2) = g :: pop_at (pos - length a1) a2) by reflexivity.
      rewrite Epop. rewrite (IH Hnd' a1 (pop_at (pos - length a1) a2) Hrest). reflexivity.
  - (* q finds nothing in the short pool; it is not matched later either, so g is ineligible for it *)
    assert (Hi : ineligible thr (mget M g q)).
    { destruct (Hdom q (or_introl eq_refl)) as [Hi|[x [g' [v' [_ [Hin _]]]]]]; [exact Hi|].
      exfalso. apply Hq_notin. apply (match_loop_pr_in M thr rest _ _ Hin). }
    rewrite map_app in Eb. rewrite (best_pos_insert thr _ _ _ Hi), Eb. cbn [option_map].
    apply (IH Hnd' a1 a2). intros q' Hq'. apply Hdom. right. exact Hq'.
Qed.

Lemma nodup_app_parts {A} (l1 l2 : list A) : NoDup (l1 ++ l2) ->
  NoDup l2 /\ (forall x, In x l1 -> In x l2 -> False).
Proof.
  induction l1 as [|a l1 IH]; cbn [app]; intros H; [split; [exact H|intros x []]|].
  inversion H as [|? ? Hn Hnd]; subst. destruct (IH Hnd) as [H2 Hd]. split; [exact H2|].
  intros x [E|Hx] Hx2; [subst; apply Hn; apply in_or_app; right; exact Hx2|apply (Hd x Hx Hx2)].
Qed.

Lemma match_loop_pairs_of_prefix M thr : forall o1 o2 avail m,
  In m (fst (match_loop M thr o1 avail)) -> In m (fst (match_loop M thr (o1 ++ o2) avail)).
Proof.
  intros o1 o2 avail m H. rewrite match_loop_app.
  destruct (match_loop M thr o1 avail) as [ms1 av1]. destruct (match_loop M thr o2 av1) as [ms2 missed].
  cbn [fst] in *. apply in_or_app. left. exact H.
Qed.

(* deleting prediction p (processing order o1 ++ p :: o2, no prediction twice): unless p was matched to
   an instance g that some later prediction is eligible for and does not strictly prefer its own match
   to, the run after p is unchanged: the new pairs are the old ones minus p's *)
Theorem delete_prediction_dominated M thr o1 p o2 avail t ms missed ms' missed' :
  NoDup (o1 ++ p :: o2) ->
  match_loop M thr (o1 ++ p :: o2) avail = (ms, missed) ->
  match_loop M thr (o1 ++ o2) avail = (ms', missed') ->
  (forall g v, In (g, p, v) ms -> forall q, In q o2 -> dominated M thr g ms q) ->
  (count_ge t (map oks_of ms') <= count_ge t (map oks_of ms))%nat /\
  (length ms' + length missed' = length ms + length missed)%nat /\
  (forall m, In m ms' -> In m ms).
Proof.
  intros Hnd H H' Hsel.
  assert (Hlen : (length ms' + length missed' = length ms + length missed)%nat).
  { rewrite (match_loop_total _ _ _ _ _ _ H), (match_loop_total _ _ _ _ _ _ H'). reflexivity. }
  apply NoDup_remove in Hnd. destruct Hnd as [Hnd Hp_notin].
  destruct (nodup_app_parts o1 o2 Hnd) as [Hnd2 Hdisj].
  rewrite match_loop_app in H, H'.
  destruct (match_loop M thr o1 avail) as [ms1 av1] eqn:E1.
  destruct (match_loop M thr (p :: o2) av1) as [msp mp] eqn:Ep.
  destruct (match_loop M thr o2 av1) as [ms2 m2] eqn:E2.
  inversion H; inversion H'; subst. rewrite !map_app, !count_ge_app.
  assert (Hgoal : (count_ge t (map oks_of ms2) <= count_ge t (map oks_of msp))%nat /\ (forall m, In m ms2 -> In m msp)).
  2:{ destruct Hgoal as [Hc Hi]. split; [lia|]. split; [exact Hlen|]. intros m Hm. apply in_app_or in Hm.
      apply in_or_app. destruct Hm as [Hm|Hm]; [left; exact Hm|right; apply Hi; exact Hm]. }
  clear Hlen. cbn [match_loop] in Ep. destruct av1 as [|a0 av] eqn:Eav.
  - inversion Ep; subst. rewrite match_loop_nil_avail in E2. inversion E2; subst. split; [cbn; lia|intros m []].
  - rewrite <- Eav in *. clear Eav a0 av.
    destruct (best_pos thr (map (fun g => mget M g p) av1)) as [[pos v]|] eqn:Eb.
    + destruct (match_loop M thr o2 (pop_at pos av1)) as [msr mr] eqn:Er. inversion Ep; subst. clear Ep.
      assert (Hpos : (pos < length av1)%nat).
      { apply best_pos_some in Eb. destruct Eb as [Hn _].
        assert (Hs : nth_error (map (fun g => mget M g p) av1) pos <> None) by congruence.
        apply nth_error_Some in Hs. rewrite map_length in Hs. exact Hs. }
      set (g := nth pos av1 0%nat) in *.
      destruct (pop_at_split 0%nat pos av1 Hpos) as [Hsplit Hpop]. fold g in Hsplit.
      assert (Hg : forall q, In q o2 ->
                dominated M thr g (fst (match_loop M thr o2 (firstn pos av1 ++ skipn (S pos) av1))) q).
      { intros q Hq. rewrite <- Hpop, Er. cbn [fst].
        assert (Hgp : In (g, p, v) (ms1 ++ (g, p, v) :: msr)) by (apply in_or_app; right; left; reflexivity).
        destruct (Hsel g v Hgp q Hq) as [Hi|[x [g' [v' [Hx [Hin Hlt]]]]]]; [left; exact Hi|].
        right. exists x, g', v'. split; [exact Hx|]. split; [|exact Hlt].
        apply in_app_or in Hin. destruct Hin as [Hin|[Hin|Hin]]; [| |exact Hin].
        - (* a pair of the part before p has its prediction in o1, q is in o2 *)
          exfalso. assert (Hq1 : In q o1).
          { change q with (pr_of (g', q, v')). apply (match_loop_pr_in M thr o1 avail). rewrite E1. exact Hin. }
          apply (Hdisj q Hq1 Hq).
        - inversion Hin; subst. exfalso. apply Hp_notin. apply in_or_app. right. exact Hq. }
      pose proof (match_loop_ignores_dominated M thr g o2 Hnd2 (firstn pos av1) (skipn (S pos) av1) Hg) as Hsame.
      rewrite <- Hsplit, <- Hpop, E2, Er in Hsame. cbn [fst] in Hsame. subst ms2.
      split; [|intros m Hm; right; exact Hm].
      change (map oks_of ((g, p, v) :: msr)) with ([oks_of (g, p, v)] ++ map oks_of msr).
      rewrite count_ge_app. lia.
    + rewrite Ep in E2. inversion E2; subst. split; [lia|intros m Hm; exact Hm].
Qed.

(* ---- the selector of F6 and the partial theorem in its terms ---- *)
Definition selector_F6 (M : smatrix) (thr : Q) (p : nat) (o2 : list nat) (ms : list mpair) : Prop :=
  exists g v q x, In (g, p, v) ms /\ In q o2 /\ mget M g q = Some x /\ thr < x /\
                  (forall g' v', In (g', q, v') ms -> v' <= x).

Lemma delete_prediction_selector : forall M thr o1 p o2 avail t ms missed ms' missed',
  NoDup (o1 ++ p :: o2) ->
  match_loop M thr (o1 ++ p :: o2) avail = (ms, missed) ->
  match_loop M thr (o1 ++ o2) avail = (ms', missed') ->
  ~ selector_F6 M thr p o2 ms ->
  (count_ge t (map oks_of ms') <= count_ge t (map oks_of ms))%nat /\
  (length ms' + length missed' = length ms + length missed)%nat /\
  (forall m, In m ms' -> In m ms).
Proof.
  intros M thr o1 p o2 avail t ms missed ms' missed' Hnd H H' Hsel.
  apply (delete_prediction_dominated M thr o1 p o2 avail t ms missed ms' missed' Hnd H H').
  intros g v Hin q Hq. unfold dominated, ineligible. destruct (mget M g q) as [x|] eqn:E; [|left; exact I].
  destruct (Qlt_le_dec thr x) as [Hlt|Hle]; [|left; exact Hle].
  right. exists x.
  (* is q matched in ms with a strictly larger OKS?  decide by scanning ms *)
  assert (Hdec : (exists g' v', In (g', q, v') ms /\ x < v') \/ (forall g' v', In (g', q, v') ms -> v' <= x)).
  { clear. induction ms as [|[[g0 q0] v0] ms IH]; [right; intros g' v' []|].
    destruct IH as [[g' [v' [Hin' Hlt']]]|Hall]; [left; exists g', v'; split; [right; exact Hin'|exact Hlt']|].
    destruct (Nat.eq_dec q0 q) as [Eq|Nq].
    - subst q0. destruct (Qlt_le_dec x v0) as [Hl|Hl].
      + left. exists g0, v0. split; [left; reflexivity|exact Hl].
      + right. intros g' v' [Hh|Ht]; [inversion Hh; subst; exact Hl|apply (Hall g' v' Ht)].
    - right. intros g' v' [Hh|Ht]; [inversion Hh; subst; congruence|apply (Hall g' v' Ht)]. }
  destruct Hdec as [[g' [v' [Hin2 Hl]]]|Hall]; [exists g', v'; split; [reflexivity|split; assumption]|].
  exfalso. apply Hsel. exists g, v, q, x. repeat split; assumption.
Qed.
