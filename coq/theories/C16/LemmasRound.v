(* LemmasRound.v -- monotonicity of the executable float64 rounding `round_f64` of Metrics.v
   (round to nearest, ties to even, 53-bit mantissa), over all of Q, plus round_f64 0 == 0,
   round_f64 1 == 1 and non-negativity.  These discharge the contract (monotone, 0 -> 0, 1 -> 1)
   that the C16 theorems ask of the rounding function `rnd`.
   Route: round_half_even is monotone w.r.t. Qle (rhe_mono) and sandwiches integers (rhe_ge, rhe_le);
   pow2 e == 2^e (Qpower) gives the exponent laws; round_f64_char shows the exponent chosen by
   round_f64 puts the scaled mantissa in [2^52, 2^53); round_f64_mono_pos compares the exponents. *)
From Coq Require Import List Arith ZArith QArith Bool Lia Lqa.
From Coq Require Import Qpower.
From SV Require Import C15.Oks C16.Metrics.
Local Open Scope Q_scope.

(* ---- round_half_even: integer-level description ---- *)
Lemma rhe_cases : forall q : Q,
  let n := Qnum q in let d := Zpos (Qden q) in
  let f := (n / d)%Z in let r := (n - f * d)%Z in
  (0 <= r < d)%Z /\
  ((round_half_even q = f /\ (2 * r <= d)%Z) \/
   (round_half_even q = (f + 1)%Z /\ (d <= 2 * r)%Z)) /\
  ((2 * r = d)%Z -> Z.even (round_half_even q) = true) .
Proof.
  intros q n d f r.
  assert (Hd : (0 < d)%Z) by (unfold d; lia).
  assert (Hr : (0 <= r < d)%Z).
  { unfold r, f. pose proof (Z.div_mod n d ltac:(lia)) as E.
    pose proof (Z.mod_pos_bound n d Hd) as B. nia. }
  split; [exact Hr|].
  unfold round_half_even. fold n. fold d. fold f. fold r.
  destruct (Z.compare_spec (2 * r) d) as [E|E|E].
  - destruct (Z.even f) eqn:Ev.
    + split; [left; split; [reflexivity|lia]|]. intros _. exact Ev.
    + split; [right; split; [reflexivity|lia]|]. intros _.
      rewrite Z.even_add. rewrite Ev. reflexivity.
  - split; [left; split; [reflexivity|lia]|]. intros; lia.
  - split; [right; split; [reflexivity|lia]|]. intros; lia.
Qed.

Lemma rhe_ge : forall z x, inject_Z z <= x -> (z <= round_half_even x)%Z.
Proof.
  intros z x H. destruct (rhe_cases x) as (Hr & Hc & _).
  unfold Qle in H; simpl in H.
  assert (z <= Qnum x / Zpos (Qden x))%Z.
  { apply Z.div_le_lower_bound; lia. }
  destruct Hc as [[-> _]|[-> _]]; lia.
Qed.

Lemma rhe_le : forall z x, x <= inject_Z z -> (round_half_even x <= z)%Z.
Proof.
  intros z x H. destruct (rhe_cases x) as (Hr & Hc & _).
  unfold Qle in H; simpl in H.
  set (d := Zpos (Qden x)) in *. set (n := Qnum x) in *.
  set (f := (n / d)%Z) in *.
  assert (Hd : (0 < d)%Z) by (unfold d; lia).
  assert (f <= z)%Z by nia.
  destruct Hc as [[-> _]|[-> Hh]]; [lia|].
  assert (f < z \/ f = z)%Z as [L|E] by lia; [lia|].
  subst z. exfalso. nia.
Qed.

Lemma rhe_mono : forall x y, x <= y -> (round_half_even x <= round_half_even y)%Z.
Proof.
  intros x y H.
  destruct (rhe_cases x) as (Hrx & Hcx & Hex).
  destruct (rhe_cases y) as (Hry & Hcy & Hey).
  unfold Qle in H.
  set (d1 := Zpos (Qden x)) in *. set (n1 := Qnum x) in *.
  set (d2 := Zpos (Qden y)) in *. set (n2 := Qnum y) in *.
  set (f1 := (n1 / d1)%Z) in *. set (f2 := (n2 / d2)%Z) in *.
  assert (Hd1 : (0 < d1)%Z) by (unfold d1; lia).
  assert (Hd2 : (0 < d2)%Z) by (unfold d2; lia).
  set (r1 := (n1 - f1 * d1)%Z) in *. set (r2 := (n2 - f2 * d2)%Z) in *.
  assert (E1 : (n1 = f1 * d1 + r1)%Z) by (unfold r1; lia).
  assert (E2 : (n2 = f2 * d2 + r2)%Z) by (unfold r2; lia).
  clearbody r1 r2 f1 f2 n1 n2 d1 d2.
  assert (C : (f1 < f2 \/ f1 = f2 \/ f2 < f1)%Z) by lia.
  destruct C as [C|[C|C]].
  - destruct Hcx as [[-> _]|[-> _]]; destruct Hcy as [[-> _]|[-> _]]; lia.
  - subst f2. subst n1 n2.
    assert (K : (r1 * d2 <= r2 * d1)%Z) by nia.
    destruct Hcx as [[-> _]|[Ex Hx]]; [destruct Hcy as [[-> _]|[-> _]]; lia|].
    destruct Hcy as [[Ey Hy]|[Ey Hy]]; [|lia].
    assert (2 * r2 = d2)%Z by nia.
    assert (2 * r1 = d1)%Z by nia.
    specialize (Hex H1). specialize (Hey H0). rewrite Ex in Hex. rewrite Ey in Hey.
    rewrite Z.even_add in Hex. rewrite Hey in Hex. discriminate.
  - exfalso. subst n1 n2.
    assert ((f2 + 1) * d2 * d1 <= f1 * d1 * d2)%Z by nia.
    nia.
Qed.

(* ---- pow2 ---- *)
Lemma pow2_Qpower : forall e, pow2 e == inject_Z 2 ^ e.
Proof.
  intro e. unfold pow2. destruct (Z.leb_spec 0 e) as [L|L].
  - apply Zpower_Qpower; exact L.
  - rewrite Zpower_Qpower by lia. rewrite Qpower_opp.
    rewrite Qinv_involutive. reflexivity.
Qed.

Lemma pow2_pos : forall e, 0 < pow2 e.
Proof. intro e. rewrite pow2_Qpower. apply Qpower_0_lt. reflexivity. Qed.

Lemma pow2_add : forall a b, pow2 (a + b) == pow2 a * pow2 b.
Proof.
  intros a b. rewrite !pow2_Qpower. apply Qpower_plus. discriminate.
Qed.

Lemma pow2_0 : pow2 0 == 1.
Proof. reflexivity. Qed.

Lemma pow2_1 : pow2 1 == 2.
Proof. reflexivity. Qed.

Lemma pow2_succ : forall e, pow2 (e + 1) == 2 * pow2 e.
Proof. intro e. rewrite pow2_add, pow2_1. ring. Qed.

Lemma pow2_opp_l : forall e, pow2 (- e) * pow2 e == 1.
Proof. intro e. rewrite <- pow2_add. replace (- e + e)%Z with 0%Z by lia. reflexivity. Qed.

Lemma pow2_nonneg_ge1 : forall e, (0 <= e)%Z -> 1 <= pow2 e.
Proof.
  intros e H. unfold pow2. destruct (Z.leb_spec 0 e) as [L|L]; [|lia].
  change 1 with (inject_Z 1). rewrite <- Zle_Qle.
  pose proof (Z.pow_pos_nonneg 2 e ltac:(lia) H). lia.
Qed.

Lemma pow2_mono : forall a b, (a <= b)%Z -> pow2 a <= pow2 b.
Proof.
  intros a b H. replace b with (a + (b - a))%Z by lia. rewrite pow2_add.
  pose proof (pow2_pos a). pose proof (pow2_nonneg_ge1 (b - a) ltac:(lia)).
  nra.
Qed.

(* ---- the scaled mantissa lies in [2^52, 2^53) ---- *)
Lemma log2_bounds : forall n d : positive,
  let q := Zpos n # d in
  let ln := Z.log2 (Zpos n) in let ld := Z.log2 (Zpos d) in
  pow2 ln < q * pow2 (ld + 1) /\ q * pow2 ld < pow2 (ln + 1).
Proof.
  intros n d q ln ld.
  pose proof (Z.log2_spec (Zpos n) ltac:(lia)) as Hn.
  pose proof (Z.log2_spec (Zpos d) ltac:(lia)) as Hd.
  pose proof (Z.log2_nonneg (Zpos n)) as Hln. pose proof (Z.log2_nonneg (Zpos d)) as Hld.
  fold ln in Hn, Hln. fold ld in Hd, Hld.
  replace (Z.succ ln) with (ln + 1)%Z in Hn by lia.
  replace (Z.succ ld) with (ld + 1)%Z in Hd by lia.
  unfold pow2.
  destruct (Z.leb_spec 0 ln); [|lia]. destruct (Z.leb_spec 0 ld); [|lia].
  destruct (Z.leb_spec 0 (ln + 1)); [|lia]. destruct (Z.leb_spec 0 (ld + 1)); [|lia].
  generalize dependent (2 ^ ln)%Z. generalize dependent (2 ^ ld)%Z.
  generalize dependent (2 ^ (ln + 1))%Z. generalize dependent (2 ^ (ld + 1))%Z.
  intros. unfold q, Qlt, Qmult, inject_Z; cbn [Qnum Qden]. rewrite !Pos2Z.inj_mul. split; nia.
Qed.

Lemma round_f64_char : forall q n, Qnum q = Zpos n ->
  exists e, round_f64 q == inject_Z (round_half_even (q * pow2 e)) * pow2 (- e)
    /\ pow2 52 <= q * pow2 e /\ q * pow2 e < 2 * pow2 52.
Proof.
  intros q n Hq. unfold round_f64. rewrite Hq.
  destruct q as [qn d]. simpl in Hq. subst qn. cbn [Qden].
  destruct (log2_bounds n d) as [L U].
  set (q := Zpos n # d) in *.
  set (ln := Z.log2 (Zpos n)) in *. set (ld := Z.log2 (Zpos d)) in *.
  set (e0 := (52 - (ln - ld))%Z).
  assert (HL : pow2 51 < q * pow2 e0).
  { replace e0 with ((ld + 1) + (51 - ln))%Z by (unfold e0; lia).
    replace 51%Z with (ln + (51 - ln))%Z at 1 by lia.
    rewrite (pow2_add (ld + 1) (51 - ln)), (pow2_add ln (51 - ln)), Qmult_assoc.
    apply Qmult_lt_compat_r; [apply pow2_pos|exact L]. }
  assert (HU : q * pow2 e0 < pow2 53).
  { replace e0 with (ld + (52 - ln))%Z by (unfold e0; lia).
    replace 53%Z with ((ln + 1) + (52 - ln))%Z at 1 by lia.
    rewrite (pow2_add ld (52 - ln)), (pow2_add (ln + 1) (52 - ln)), Qmult_assoc.
    apply Qmult_lt_compat_r; [apply pow2_pos|exact U]. }
  change (inject_Z (2 ^ 52)) with (pow2 52).
  assert (E53 : pow2 53 == 2 * pow2 52) by (apply (pow2_succ 52)).
  assert (E52 : pow2 52 == 2 * pow2 51) by (apply (pow2_succ 51)).
  destruct (Qle_bool (pow2 52) (q * pow2 e0)) eqn:B.
  - exists e0. split; [apply Qred_correct|]. apply Qle_bool_iff in B. split; [exact B|].
    rewrite <- E53. exact HU.
  - exists (e0 + 1)%Z. split; [apply Qred_correct|].
    assert (B' : q * pow2 e0 < pow2 52).
    { apply Qnot_le_lt. intro C. apply Qle_bool_iff in C. congruence. }
    rewrite pow2_succ.
    generalize dependent (pow2 e0). generalize dependent (pow2 51).
    generalize dependent (pow2 52). generalize dependent (pow2 53). intros. split; nra.
Qed.

Lemma pow2_unscale : forall x e, x * pow2 e * pow2 (- e) == x.
Proof.
  intros x e. rewrite <- Qmult_assoc, (Qmult_comm (pow2 e)), pow2_opp_l. ring.
Qed.

Lemma mantissa_bounds : forall x, pow2 52 <= x -> x < 2 * pow2 52 ->
  pow2 52 <= inject_Z (round_half_even x) /\ inject_Z (round_half_even x) <= 2 * pow2 52.
Proof.
  intros x L U. split.
  - change (pow2 52) with (inject_Z (2 ^ 52)) in *. rewrite <- Zle_Qle.
    apply rhe_ge. exact L.
  - rewrite <- (pow2_succ 52) in *. change (pow2 (52 + 1)) with (inject_Z (2 ^ 53)) in *.
    rewrite <- Zle_Qle. apply rhe_le. apply Qlt_le_weak. exact U.
Qed.

Lemma round_f64_pos : forall q n, Qnum q = Zpos n -> 0 < round_f64 q.
Proof.
  intros q n Hq. destruct (round_f64_char q n Hq) as (e & E & L & U).
  rewrite E. destruct (mantissa_bounds _ L U) as [ML _].
  pose proof (pow2_pos 52). pose proof (pow2_pos (- e)).
  apply Qmult_lt_0_compat; [|assumption].
  apply Qlt_le_trans with (pow2 52); assumption.
Qed.

Lemma round_f64_mono_pos : forall a b na nb,
  Qnum a = Zpos na -> Qnum b = Zpos nb -> a <= b -> round_f64 a <= round_f64 b.
Proof.
  intros a b na nb Ha Hb Hab.
  destruct (round_f64_char a na Ha) as (ea & Ea & La & Ua).
  destruct (round_f64_char b nb Hb) as (eb & Eb & Lb & Ub).
  rewrite Ea, Eb.
  destruct (mantissa_bounds _ La Ua) as [MLa MUa].
  destruct (mantissa_bounds _ Lb Ub) as [MLb MUb].
  pose proof (pow2_pos 52) as HT.
  pose proof (pow2_pos (- ea)) as Hpa. pose proof (pow2_pos (- eb)) as Hpb.
  assert (C : (ea = eb \/ ea < eb \/ eb < ea)%Z) by lia.
  destruct C as [C|[C|C]].
  - subst eb. apply Qmult_le_compat_r; [|apply Qlt_le_weak; exact Hpa].
    rewrite <- Zle_Qle. apply rhe_mono.
    apply Qmult_le_compat_r; [exact Hab|apply Qlt_le_weak; apply pow2_pos].
  - exfalso.
    assert (M : 2 * pow2 (- eb) <= pow2 (- ea)).
    { rewrite <- pow2_succ. apply pow2_mono. lia. }
    pose proof (pow2_unscale a ea) as Xa. pose proof (pow2_unscale b eb) as Xb.
    assert (K1 : pow2 52 * pow2 (- ea) <= a).
    { rewrite <- Xa. apply Qmult_le_compat_r; [exact La|apply Qlt_le_weak; exact Hpa]. }
    assert (K2 : b < 2 * pow2 52 * pow2 (- eb)).
    { rewrite <- Xb at 1. apply Qmult_lt_compat_r; [exact Hpb|exact Ub]. }
    assert (K3 : pow2 52 * (2 * pow2 (- eb)) <= pow2 52 * pow2 (- ea)).
    { rewrite !(Qmult_comm (pow2 52)).
      apply Qmult_le_compat_r; [exact M|apply Qlt_le_weak; exact HT]. }
    generalize dependent (pow2 52). generalize dependent (pow2 (- ea)).
    generalize dependent (pow2 (- eb)). intros. nra.
  - assert (M : 2 * pow2 (- ea) <= pow2 (- eb)).
    { rewrite <- pow2_succ. apply pow2_mono. lia. }
    assert (K1 : inject_Z (round_half_even (a * pow2 ea)) * pow2 (- ea)
                 <= 2 * pow2 52 * pow2 (- ea)).
    { apply Qmult_le_compat_r; [exact MUa|apply Qlt_le_weak; exact Hpa]. }
    assert (K2 : pow2 52 * pow2 (- eb)
                 <= inject_Z (round_half_even (b * pow2 eb)) * pow2 (- eb)).
    { apply Qmult_le_compat_r; [exact MLb|apply Qlt_le_weak; exact Hpb]. }
    assert (K3 : pow2 52 * (2 * pow2 (- ea)) <= pow2 52 * pow2 (- eb)).
    { rewrite !(Qmult_comm (pow2 52)).
      apply Qmult_le_compat_r; [exact M|apply Qlt_le_weak; exact HT]. }
    generalize dependent (inject_Z (round_half_even (a * pow2 ea))).
    generalize dependent (inject_Z (round_half_even (b * pow2 eb))).
    generalize dependent (pow2 52). generalize dependent (pow2 (- ea)).
    generalize dependent (pow2 (- eb)). intros. nra.
Qed.

(* ---- the four exported results ---- *)
Lemma round_f64_mono : forall a b : Q, a <= b -> round_f64 a <= round_f64 b.
Proof.
  intros a b H.
  destruct (Qnum a) as [|na|na] eqn:Ha.
  - assert (Ra : round_f64 a = a) by (unfold round_f64; rewrite Ha; reflexivity).
    rewrite Ra.
    destruct (Qnum b) as [|nb|nb] eqn:Hb.
    + assert (Rb : round_f64 b = b) by (unfold round_f64; rewrite Hb; reflexivity).
      rewrite Rb. exact H.
    + apply Qle_trans with 0.
      * unfold Qle. rewrite Ha. simpl. lia.
      * apply Qlt_le_weak. eapply round_f64_pos; eassumption.
    + assert (Rb : round_f64 b = b) by (unfold round_f64; rewrite Hb; reflexivity).
      rewrite Rb. exact H.
  - destruct (Qnum b) as [|nb|nb] eqn:Hb.
    + exfalso. unfold Qle in H. rewrite Ha, Hb in H. simpl in H. lia.
    + eapply round_f64_mono_pos; eassumption.
    + exfalso. unfold Qle in H. rewrite Ha, Hb in H. simpl in H. lia.
  - assert (Ra : round_f64 a = a) by (unfold round_f64; rewrite Ha; reflexivity).
    rewrite Ra.
    destruct (Qnum b) as [|nb|nb] eqn:Hb.
    + assert (Rb : round_f64 b = b) by (unfold round_f64; rewrite Hb; reflexivity).
      rewrite Rb. exact H.
    + apply Qle_trans with 0.
      * unfold Qle. rewrite Ha. simpl. lia.
      * apply Qlt_le_weak. eapply round_f64_pos; eassumption.
    + assert (Rb : round_f64 b = b) by (unfold round_f64; rewrite Hb; reflexivity).
      rewrite Rb. exact H.
Qed.

Lemma round_f64_0 : round_f64 0 == 0.
Proof. reflexivity. Qed.

Lemma round_f64_1 : round_f64 1 == 1.
Proof. vm_compute. reflexivity. Qed.

Lemma round_f64_nonneg : forall a, 0 <= a -> 0 <= round_f64 a.
Proof.
  intros a H. apply round_f64_mono in H. exact H.
Qed.

Print Assumptions round_f64_nonneg.
Print Assumptions round_f64_0.
Print Assumptions round_f64_1.
Print Assumptions round_f64_mono.
