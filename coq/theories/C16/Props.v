(* Props.v (C16) — statements only.  Proofs: C16/Lemmas.v.

   Reading.  `evaluate rnd ...` is the model of Evaluator(...).evaluate() on frame
   lists; `match_frames` = match_frame_pairs (match_instances of C15 per frame
   pair) giving the positive pairs `pps` (OKS, detection score, gt pose, predicted
   pose) and the number of false negatives; `voc_row_of` is one iteration of the
   threshold loop of voc_metrics (precision envelope, searchsorted, recall, AP);
   `rnd` is float64 rounding of tp/npig, any function with the contract
   (monotone, rnd 0 == 0, rnd 1 == 1); eps = 2^-52.  Ratios that numpy reports as
   NaN (no positive pair; empty visibility denominator) are `None` here: "every
   reported ratio" = every ratio that is defined. *)
From Coq Require Import List Arith ZArith QArith Permutation Lia.
Import ListNotations.
From SV Require Import C15.Oks C15.Lemmas C16.Metrics C16.Lemmas.
Local Open Scope Q_scope.

(* ---- (a) predictions identical to the ground truth ----
   hypothesis forced by the proof: in every frame the score matrix has 1 on the
   diagonal (C15: identical poses) and no *cross* pair with OKS exactly 1
   (`perfect_M`; necessity: ex_c16_cross_pair_breaks_perfect); match threshold < 1 *)
Theorem c16_perfect_matching : forall fixed thr fps,
  Forall perfect_frame fps -> thr < 1 ->
  exists pps, match_frames fixed thr fps = Some (pps, 0%nat) /\
              Forall perfect_pair pps /\
              Permutation (map pp_g pps) (concat (map frame_gts fps)).
Proof. exact match_frames_perfect. Qed.
Print Assumptions c16_perfect_matching.

Theorem c16_perfect_moks : forall pps q,
  Forall (fun pp => pp_oks pp == 1) pps -> moks pps = Some q -> q == 1.
Proof. exact moks_perfect. Qed.
Print Assumptions c16_perfect_moks.

(* all distances are 0 (or NaN where the keypoint is missing) *)
Theorem c16_perfect_distances : forall pp, pp_p pp = pp_g pp ->
  Forall (fun d => match d with None => True | Some q => q == 0 end) (pair_d2 pp).
Proof. exact pair_d2_perfect. Qed.
Print Assumptions c16_perfect_distances.

(* recall = 1 and every precision in [1/(1+eps), 1] at every match threshold <= 1 and
   every recall threshold <= 1 (hence AP in the same interval, AR = 1) *)
Theorem c16_perfect_voc : forall rnd,
  (forall a b, a <= b -> rnd a <= rnd b) -> rnd 1 == 1 ->
  forall pps mthrs rthrs v,
  Forall perfect_pair pps ->
  voc_metrics rnd (map pp_oks pps) pps 0 mthrs rthrs = Some v ->
  Forall (fun t => t <= 1) mthrs -> Forall (fun r => r <= 1) rthrs ->
  Forall (fun row => vr_recall row == 1 /\
                     Forall (fun x => / (1 + eps) <= x <= 1) (vr_precisions row)) (voc_rows v).
Proof. exact voc_metrics_perfect. Qed.
Print Assumptions c16_perfect_voc.

(* PCK: every bit is the visibility of the gt keypoint; per node the PCK is the
   fraction of gt instances in which the node is visible; 1 when nothing is missing *)
Theorem c16_perfect_pck_bits : forall t k pp, 0 < t -> pp_p pp = pp_g pp ->
  within t (nth k (pair_d2 pp) None) = vis_bit k pp.
Proof. exact within_perfect. Qed.
Print Assumptions c16_perfect_pck_bits.

Theorem c16_perfect_pck_is_visible_fraction : forall pps thrs k,
  thrs <> [] -> Forall (fun t => 0 < t) thrs -> Forall (fun pp => pp_p pp = pp_g pp) pps ->
  pck_part pps thrs k == qmean (map (fun pp => b2q (vis_bit k pp)) pps).
Proof. exact pck_part_perfect. Qed.
Print Assumptions c16_perfect_pck_is_visible_fraction.

Theorem c16_perfect_pck_all_visible : forall n pps thrs q,
  thrs <> [] -> Forall (fun t => 0 < t) thrs -> (0 < n)%nat ->
  Forall (fun pp => pp_p pp = pp_g pp /\ length (pp_g pp) = n /\ n_visible (pp_g pp) = n) pps ->
  mpck n pps thrs = Some q -> q == 1.
Proof. exact mpck_perfect_all_visible. Qed.
Print Assumptions c16_perfect_pck_all_visible.

(* ---- (b) every reported ratio lies in [0,1] ---- *)
Theorem c16_voc_bounds : forall rnd,
  (forall a b, a <= b -> rnd a <= rnd b) -> rnd 0 == 0 -> rnd 1 == 1 ->
  forall mscores pps n_fn mthrs rthrs v,
  length mscores = length pps ->
  voc_metrics rnd mscores pps n_fn mthrs rthrs = Some v ->
  Forall (fun row => 0 <= vr_recall row <= 1 /\ Forall (fun x => 0 <= x <= 1) (vr_precisions row) /\
                     0 <= vr_ap row <= 1) (voc_rows v) /\
  0 <= voc_map v <= 1 /\ 0 <= voc_mar v <= 1.
Proof. exact voc_metrics_bounds. Qed.
Print Assumptions c16_voc_bounds.

Theorem c16_moks_bounds : forall pps q,
  Forall (fun pp => 0 <= pp_oks pp <= 1) pps -> moks pps = Some q -> 0 <= q <= 1.
Proof. exact moks_bounds. Qed.
Print Assumptions c16_moks_bounds.

Theorem c16_pck_bounds : forall n pps thrs,
  (forall k, 0 <= pck_part pps thrs k <= 1) /\
  (forall q, mpck n pps thrs = Some q -> 0 <= q <= 1) /\
  (forall t, 0 <= pck_at n pps t <= 1).
Proof.
  intros n pps thrs. split; [intros k; apply pck_part_bounds|].
  split; [intros q; apply mpck_bounds|intros t; apply pck_at_bounds].
Qed.
Print Assumptions c16_pck_bounds.

Theorem c16_visibility_bounds : forall a b q, ratio a b = Some q -> 0 <= q <= 1.
Proof. exact ratio_bounds. Qed.
Print Assumptions c16_visibility_bounds.

(* ---- (c) AP and recall are non-increasing in the match threshold ---- *)
Theorem c16_ap_ar_antitone_in_match_threshold : forall rnd,
  (forall a b, a <= b -> rnd a <= rnd b) ->
  forall npig ms rthrs t1 t2, t1 <= t2 ->
  vr_recall (voc_row_of rnd npig ms rthrs t2) <= vr_recall (voc_row_of rnd npig ms rthrs t1) /\
  Forall2 Qle (vr_precisions (voc_row_of rnd npig ms rthrs t2))
              (vr_precisions (voc_row_of rnd npig ms rthrs t1)) /\
  vr_ap (voc_row_of rnd npig ms rthrs t2) <= vr_ap (voc_row_of rnd npig ms rthrs t1).
Proof. exact voc_row_mono. Qed.
Print Assumptions c16_ap_ar_antitone_in_match_threshold.

(* the rows of the returned table are exactly these rows *)
Theorem c16_voc_rows : forall rnd mscores pps n_fn mthrs rthrs v,
  voc_metrics rnd mscores pps n_fn mthrs rthrs = Some v ->
  voc_rows v = map (voc_row_of rnd (length pps + n_fn) (sort_by_score (map pp_score pps) mscores) rthrs) mthrs /\
  voc_map v = qmean (concat (map vr_precisions (voc_rows v))) /\
  voc_mar v = qmean (map vr_recall (voc_rows v)) /\ pps <> [].
Proof. exact voc_metrics_rows. Qed.
Print Assumptions c16_voc_rows.

(* ---- (d) PCK is non-decreasing in the pixel threshold ---- *)
Theorem c16_pck_monotone_in_pixel_threshold : forall n pps t t',
  t <= t' -> pck_at n pps t <= pck_at n pps t'.
Proof. exact pck_at_mono. Qed.
Print Assumptions c16_pck_monotone_in_pixel_threshold.

Theorem c16_mpck_monotone : forall n pps thrs thrs' q q',
  Forall2 Qle thrs thrs' -> mpck n pps thrs = Some q -> mpck n pps thrs' = Some q' -> q <= q'.
Proof. exact mpck_mono. Qed.
Print Assumptions c16_mpck_monotone.

(* ---- (e) deleting predictions ----
   F6: the full statement is false of the faithful model (and of the code): *)
Definition wA : pose := [[Some 0; Some 0]; [Some 8; Some 0]; [Some 0; Some 8]].
Definition wB : pose := [[Some 20; Some 20]; [Some 28; Some 20]; [Some 20; Some 28]].
Definition wA2 : pose := [[Some 2; Some 0]; [Some 10; Some 0]; [Some 2; Some 8]].
Definition recalls (o : outcome report) : list Q :=
  match o with
  | Ok r => match r_voc r with Some v => map (fun row => Qred (vr_recall row)) (voc_rows v) | None => [] end
  | _ => []
  end.

Theorem c16_delete_prediction_refuted :
  exists (M M' : smatrix),
    (* both predictions: P1 = A shifted (score 7/8) and P2 = A exactly (score 1/2) *)
    recalls (evaluate round_f64 false true 0 3 [(0%nat, [wA; wB], M)] [(0%nat, [wA2; wA], [7 # 8; 1 # 2])]
                      [1 # 2] [0; 1 # 2; 1] [1]) = [0] /\
    (* P1 deleted (M' = M without its column) *)
    recalls (evaluate round_f64 false true 0 3 [(0%nat, [wA; wB], M')] [(0%nat, [wA], [1 # 2])]
                      [1 # 2] [0; 1 # 2; 1] [1]) = [1 # 2] /\
    M' = map (fun row => tl row) M.
Proof.
  exists [[Some (1 # 268336); Some 1]; [Some 0; Some 0]], [[Some 1]; [Some 0]].
  split; [vm_compute; reflexivity|]. split; [vm_compute; reflexivity|reflexivity].
Qed.
Print Assumptions c16_delete_prediction_refuted.

(* the strongest statement proved: deleting prediction p from the processing order
   (o1 ++ p :: o2) of a frame.  Unless p was matched to a gt instance g for which some
   prediction processed later (in o2) is eligible (OKS > match threshold) — exactly
   selector_F6 — the number of pairs with OKS >= t does not grow and the number of gt
   instances (pairs + missed) is unchanged, for every match-score threshold t. *)
Definition selector_F6 (M : smatrix) (thr : Q) (p : nat) (o2 : list nat) (ms : list mpair) : Prop :=
  exists g v q, In (g, p, v) ms /\ In q o2 /\ ~ ineligible thr (mget M g q).

Theorem c16_delete_prediction_partial : forall M thr o1 p o2 avail t ms missed ms' missed',
  match_loop M thr (o1 ++ p :: o2) avail = (ms, missed) ->
  match_loop M thr (o1 ++ o2) avail = (ms', missed') ->
  ~ selector_F6 M thr p o2 ms ->
  (count_ge t (map oks_of ms') <= count_ge t (map oks_of ms))%nat /\
  (length ms' + length missed' = length ms + length missed)%nat.
Proof.
  intros M thr o1 p o2 avail t ms missed ms' missed' H H' Hsel.
  apply (delete_prediction_partial_narrow M thr o1 p o2 avail t ms missed ms' missed' H H').
  intros g v Hin q Hq. unfold ineligible. destruct (mget M g q) as [x|] eqn:E; [|exact I].
  destruct (Qlt_le_dec thr x) as [Hlt|Hle]; [|exact Hle].
  exfalso. apply Hsel. exists g, v, q. split; [exact Hin|]. split; [exact Hq|].
  rewrite E. cbn. apply Qlt_not_le. exact Hlt.
Qed.
Print Assumptions c16_delete_prediction_partial.

(* corollary in the words of the task: deleting an unmatched prediction, or the one
   processed last (lowest score), never increases recall *)
Theorem c16_delete_unmatched_or_last_partial : forall M thr o1 p o2 avail t ms missed ms' missed',
  match_loop M thr (o1 ++ p :: o2) avail = (ms, missed) ->
  match_loop M thr (o1 ++ o2) avail = (ms', missed') ->
  (o2 = [] \/ ~ In p (map pr_of ms)) ->
  (count_ge t (map oks_of ms') <= count_ge t (map oks_of ms))%nat /\
  (length ms' + length missed' = length ms + length missed)%nat.
Proof. exact delete_prediction_partial. Qed.
Print Assumptions c16_delete_unmatched_or_last_partial.

(* ... and recall is a monotone function of exactly these two numbers *)
Theorem c16_recall_is_count : forall rnd pps n_fn rthrs t,
  pps <> [] ->
  vr_recall (voc_row_of rnd (length pps + n_fn) (sort_by_score (map pp_score pps) (map pp_oks pps)) rthrs t)
  = recall_of rnd t pps n_fn.
Proof. exact voc_recall_is_count. Qed.
Print Assumptions c16_recall_is_count.

Theorem c16_recall_monotone_in_count : forall rnd,
  (forall a b, a <= b -> rnd a <= rnd b) ->
  forall t pps n_fn pps' n_fn',
  (count_ge t (map pp_oks pps') <= count_ge t (map pp_oks pps))%nat ->
  (length pps' + n_fn' = length pps + n_fn)%nat ->
  recall_of rnd t pps' n_fn' <= recall_of rnd t pps n_fn.
Proof. exact recall_of_mono. Qed.
Print Assumptions c16_recall_monotone_in_count.

(* ---- the executable rounding instance meets the two point conditions of the contract
   (its monotonicity is IEEE-754's; the harness compares round_f64 with float64
   division on every run) ---- *)
Theorem c16_round_f64_fixes_0_and_1 : round_f64 0 == 0 /\ round_f64 1 == 1.
Proof. split; vm_compute; reflexivity. Qed.
Print Assumptions c16_round_f64_fixes_0_and_1.

(* ---- non-vacuity / necessity of hypotheses ---- *)
Example ex_c16_perfect_frame :
  perfect_frame ((0%nat, [wA; wB], [[Some 1; Some 0]; [Some 0; Some 1]]), (0%nat, [wA; wB], [1 # 2; 7 # 8])).
Proof.
  cbn. split; [reflexivity|]. split; [reflexivity|]. split.
  - intros [|[|i]] Hi; [reflexivity|reflexivity|cbn in Hi; lia].
  - intros [|[|i]] [|[|j]] Hi Hj Hij; cbn in *; try lia; reflexivity.
Qed.

(* a cross pair with OKS exactly 1 (animal a = [(0,0), NaN], animal b = [(0,0), (5,5)], b's copy has
   the higher score): b's copy takes a, a's copy gets b with OKS 1/2, so mOKS = 3/4 *)
Example ex_c16_cross_pair_breaks_perfect :
  match match_frames false 0
          [((0%nat, [[[Some 0; Some 0]; [None; None]]; [[Some 0; Some 0]; [Some 5; Some 5]]],
             [[Some 1; Some 1]; [Some (1 # 2); Some 1]]),
            (0%nat, [[[Some 0; Some 0]; [None; None]]; [[Some 0; Some 0]; [Some 5; Some 5]]], [1 # 2; 7 # 8]))]
  with Some (pps, _) => moks pps | None => None end = Some (3 # 4).
Proof. vm_compute. reflexivity. Qed.
