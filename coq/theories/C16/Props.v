(* Props.v (C16) — statements only.  Proofs: C16/Lemmas.v.

   Reading.  `evaluate rnd ...` is the model of Evaluator(...).evaluate() on frame
   lists; `match_frames` = match_frame_pairs (match_instances of C15 per frame
   pair) giving the positive pairs `pps` (OKS, detection score, gt pose, predicted
   pose) and the number of false negatives; `voc_row_of` is one iteration of the
   threshold loop of voc_metrics (precision envelope, searchsorted, recall, AP);
   `rnd` is float64 rounding of tp/npig, any function with the contract
   (monotone, rnd 0 == 0, rnd 1 == 1); the harness evaluates `round_f64`, which meets the contract
   (c16_round_f64_contract, proved in LemmasRound.v); the `..._f64` corollaries are the rnd-theorems
   instantiated at it.  eps = 2^-52.
   F51 (C15) is repaired in the current tree (8044028): `fixed = true` is the current code, `false` the
   pinned tree before that fix (historical; witnesses below that use `false` do not depend on it).  Ratios that numpy reports as
   NaN (no positive pair; empty visibility denominator) are `None` here: "every
   reported ratio" = every ratio that is defined. *)
From Coq Require Import List Arith ZArith QArith Permutation Lia.
Import ListNotations.
From SV Require Import C15.Oks C15.Lemmas C16.Metrics C16.Lemmas C16.LemmasPairs C16.LemmasDelete C16.LemmasState
  C16.LemmasRound C16.LemmasDelete2 C16.LemmasReport C15.Contract C16.LemmasExt C16.LemmasDelLabels C16.LemmasCopy.
Local Open Scope Q_scope.

(* ---- (a) predictions identical to the ground truth ----
   The clause as stated ("identical predictions give perfect scores", for all NaN patterns) is FALSE of the
   faithful model and of the code (review round 4, finding 1): findings F160 / F161, both replayed on the
   real Evaluator every run (corpus/C16/F160_*.json, F161_*.json).
   F160: two animals that coincide on the visible keypoints of one of them (a = [(0,0), NaN],
         b = [(0,0), (5,5)]): OKS(a, copy of b) = 1; b's copy, processed first, takes a (first of the
         ties), a's copy gets b with OKS 1/2: mOKS 3/4 (and mAR 0.55 on the default grid).
   F161: a gt instance without a visible keypoint: its OKS row is NaN, it is never matched: recall 1/2. *)
Definition wA0 : pose := [[Some 0; Some 0]; [Some 8; Some 0]; [Some 0; Some 8]].
Definition recalls0 (o : outcome report) : list Q :=
  match o with
  | Ok r => match r_voc r with Some v => map (fun row => Qred (vr_recall row)) (voc_rows v) | None => [] end
  | _ => []
  end.
Definition pa : pose := [[Some 0; Some 0]; [None; None]].
Definition pb : pose := [[Some 0; Some 0]; [Some 5; Some 5]].
Definition pnan : pose := [[None; None]; [None; None]; [None; None]].
Definition lab (ps : list inst) : labels := ([(0%nat, 0%nat)], [LF 0 0 ps]).
Definition moks_of (o : outcome report) : option Q := match o with Ok r => r_moks r | _ => None end.
(* the prediction labels are the gt labels with a score attached to every instance *)
Definition is_copy (gtL prL : labels) : Prop :=
  fst prL = fst gtL /\
  map (fun f => (lf_video f, lf_idx f, map fst (lf_insts f))) (snd prL) =
  map (fun f => (lf_video f, lf_idx f, map fst (lf_insts f))) (snd gtL).

Theorem c16_perfect_refuted :
  (* F160: the OKS matrix [[1, 1], [1/2, 1]] is the exact float64 output of compute_oks *)
  (let gtL := lab [(pa, None); (pb, None)] in
   let prL := lab [(pa, Some (1 # 2)); (pb, Some (7 # 8))] in
   is_copy gtL prL /\
   moks_of (evaluate round_f64 true true 0 2 [(0%nat, 0%nat, [[Some 1; Some 1]; [Some (1 # 2); Some 1]])]
                     gtL prL [1 # 2] [0; 1 # 2; 1] [1]) = Some (3 # 4)) /\
  (* F161: OKS matrix [[1, 0], [NaN, NaN]] *)
  (let gtL := lab [(wA0, None); (pnan, None)] in
   let prL := lab [(wA0, Some (1 # 2)); (pnan, Some (7 # 8))] in
   is_copy gtL prL /\
   recalls0 (evaluate round_f64 true true 0 3 [(0%nat, 0%nat, [[Some 1; Some 0]; [None; None]])]
                      gtL prL [1 # 2] [0; 1 # 2; 1] [1]) = [1 # 2]).
Proof.
  split; (split; [split; reflexivity|vm_compute; reflexivity]).
Qed.
Print Assumptions c16_perfect_refuted.

(* both witnesses lie inside their selector, and only there *)
Example ex_c16_perfect_witnesses_in_selectors :
  labels_selector_F16x true [(0%nat, 0%nat, [[Some 1; Some 1]; [Some (1 # 2); Some 1]])]
     (lab [(pa, None); (pb, None)]) (lab [(pa, Some (1 # 2)); (pb, Some (7 # 8))]) = (true, false) /\
  labels_selector_F16x true [(0%nat, 0%nat, [[Some 1; Some 0]; [None; None]])]
     (lab [(wA0, None); (pnan, None)]) (lab [(wA0, Some (1 # 2)); (pnan, Some (7 # 8))]) = (false, true).
Proof. split; vm_compute; reflexivity. Qed.

(* the strongest true statement: outside the two selectors a frame pair of copies is a `perfect_frame`
   (`copy_frame`: predictions = gt instances in order, one score each, OKS 1 on the diagonal wherever the
   gt instance has a visible keypoint — C15's c15_oks_identical; the matrix is an oracle input) ... *)
Theorem c16_perfect_frame_outside_selectors : forall fp,
  copy_frame fp -> frame_selector_F160 fp = false -> frame_selector_F161 fp = false -> perfect_frame fp.
Proof. exact perfect_frame_of_selectors. Qed.
Print Assumptions c16_perfect_frame_outside_selectors.

(* ... and on perfect frames (`perfect_M`: diagonal 1, every cross pair < 1) with a match threshold < 1
   every gt instance is matched to its own copy and none is missed *)
Theorem c16_perfect_matching_partial : forall fixed thr fps,
  Forall perfect_frame fps -> thr < 1 ->
  exists pps, match_frames fixed thr fps = Some (pps, 0%nat) /\
              Forall perfect_pair pps /\
              Permutation (map pp_g pps) (concat (map frame_gts fps)).
Proof. exact match_frames_perfect. Qed.
Print Assumptions c16_perfect_matching_partial.

(* the composed statement on the report of evaluate(): outside the selectors (all frame pairs perfect), with
   at least one gt instance, non-empty grids of thresholds <= 1: the Evaluator answers, no false negative,
   mOKS 1, every distance 0 (NaN where the keypoint is missing), recall 1 and AP in [1/(1+eps), 1] at every
   match threshold, mAP in the same interval, mAR 1 ("1 up to rounding": eps = 2^-52 of the precision) *)
Theorem c16_perfect_report_partial : forall fx ulo thr n db gtL prL mthrs rthrs pthrs,
  Forall perfect_frame (find_pairs ulo db gtL prL) ->
  concat (map frame_gts (find_pairs ulo db gtL prL)) <> [] ->
  thr < 1 -> mthrs <> [] -> rthrs <> [] ->
  Forall (fun t => t <= 1) mthrs -> Forall (fun r => r <= 1) rthrs ->
  exists rep v q,
    evaluate round_f64 fx ulo thr n db gtL prL mthrs rthrs pthrs = Ok rep /\
    r_nfn rep = 0%nat /\
    r_moks rep = Some q /\ q == 1 /\
    Forall (Forall (fun d => match d with None => True | Some x => x == 0 end)) (r_d2 rep) /\
    r_voc rep = Some v /\
    Forall (fun row => vr_recall row == 1 /\ / (1 + eps) <= vr_ap row <= 1) (voc_rows v) /\
    / (1 + eps) <= voc_map v <= 1 /\ voc_mar v == 1.
Proof. exact (perfect_report round_f64 round_f64_mono round_f64_1). Qed.
Print Assumptions c16_perfect_report_partial.

Theorem c16_perfect_moks : forall pps q,
  Forall (fun pp => pp_oks pp == 1) pps -> moks pps = Some q -> q == 1.
Proof. exact moks_perfect. Qed.
Print Assumptions c16_perfect_moks.

(* all distances are 0 (or NaN where the keypoint is missing) *)
Theorem c16_perfect_distances : forall pp, pp_p pp = pp_g pp ->
  Forall (fun d => match d with None => True | Some q => q == 0 end) (pair_d2 pp).
Proof. exact pair_d2_perfect. Qed.
Print Assumptions c16_perfect_distances.

(* recall = 1 and every precision in [1/(1+eps), 1] at every match threshold <= 1 and
   every recall threshold <= 1 (hence AP in the same interval, AR = 1) *)
Theorem c16_perfect_voc : forall rnd,
  (forall a b, a <= b -> rnd a <= rnd b) -> rnd 1 == 1 ->
  forall pps mthrs rthrs v,
  Forall perfect_pair pps ->
  voc_metrics rnd (map pp_oks pps) pps 0 mthrs rthrs = Some v ->
  Forall (fun t => t <= 1) mthrs -> Forall (fun r => r <= 1) rthrs ->
  Forall (fun row => vr_recall row == 1 /\
                     Forall (fun x => / (1 + eps) <= x <= 1) (vr_precisions row)) (voc_rows v).
Proof. exact voc_metrics_perfect. Qed.
Print Assumptions c16_perfect_voc.

(* PCK: every bit is the visibility of the gt keypoint; per node the PCK is the
   fraction of gt instances in which the node is visible; 1 when nothing is missing *)
Theorem c16_perfect_pck_bits : forall t k pp, 0 < t -> pp_p pp = pp_g pp ->
  within t (nth k (pair_d2 pp) None) = vis_bit k pp.
Proof. exact within_perfect. Qed.
Print Assumptions c16_perfect_pck_bits.

Theorem c16_perfect_pck_is_visible_fraction : forall pps thrs k,
  thrs <> [] -> Forall (fun t => 0 < t) thrs -> Forall (fun pp => pp_p pp = pp_g pp) pps ->
  pck_part pps thrs k == qmean (map (fun pp => b2q (vis_bit k pp)) pps).
Proof. exact pck_part_perfect. Qed.
Print Assumptions c16_perfect_pck_is_visible_fraction.

Theorem c16_perfect_pck_all_visible : forall n pps thrs q,
  thrs <> [] -> Forall (fun t => 0 < t) thrs -> (0 < n)%nat ->
  Forall (fun pp => pp_p pp = pp_g pp /\ length (pp_g pp) = n /\ n_visible (pp_g pp) = n) pps ->
  mpck n pps thrs = Some q -> q == 1.
Proof. exact mpck_perfect_all_visible. Qed.
Print Assumptions c16_perfect_pck_all_visible.

(* ---- frame pairing (find_frame_pairs over several videos) ----
   (i, j) = positions of the gt / prediction frame in their Labels.  A pair is formed exactly for a gt
   frame f whose Video has a prediction Video with an equal key (the first such), with the LAST
   prediction frame of that video carrying f's frame index; with user_labels_only the frame needs a
   user instance and only user instances take part. *)
Theorem c16_frame_pairs_exact : forall ulo db gtL prL i j fp,
  In ((i, j), fp) (find_pairs_pos ulo db gtL prL) <->
  exists f vk vp pf,
    nth_error (snd gtL) i = Some f /\ nth_error (fst gtL) (lf_video f) = Some vk /\
    find_video vk (fst prL) 0 = Some vp /\ get_frame vp (lf_idx f) (snd prL) = Some (j, pf) /\
    (ulo = true -> gt_poses ulo f <> []) /\ fp = the_pair ulo db i j f pf.
Proof. exact in_find_pairs_pos. Qed.
Print Assumptions c16_frame_pairs_exact.

Theorem c16_find_video_first : forall k vs p,
  find_video k vs 0 = Some p <->
  (exists k', nth_error vs p = Some k' /\ vkey_eqb k' k = true) /\
  (forall q k', (q < p)%nat -> nth_error vs q = Some k' -> vkey_eqb k' k = false).
Proof. exact find_video_first. Qed.
Print Assumptions c16_find_video_first.

Theorem c16_get_frame_last : forall vi idx fs,
  match get_frame vi idx fs with
  | Some (j, x) => nth_error fs j = Some x /\ lf_video x = vi /\ lf_idx x = idx /\
                   (forall j' x', (j < j')%nat -> nth_error fs j' = Some x' -> ~ (lf_video x' = vi /\ lf_idx x' = idx))
  | None => forall j x, nth_error fs j = Some x -> ~ (lf_video x = vi /\ lf_idx x = idx)
  end.
Proof. exact get_frame_last. Qed.
Print Assumptions c16_get_frame_last.

(* every gt frame enters at most one pair *)
Theorem c16_gt_frame_paired_once : forall ulo db gtL prL,
  NoDup (map (fun x : (nat * nat) * (gframe * pframe) => fst (fst x)) (find_pairs_pos ulo db gtL prL)).
Proof. exact find_pairs_gt_once. Qed.
Print Assumptions c16_gt_frame_paired_once.

(* npig of voc_metrics = positive pairs + false negatives = every participating gt instance of the
   paired frames, each once; and the Evaluator's only failure (F51 repaired) is "Empty Frame Pairs" *)
Theorem c16_every_gt_instance_counted : forall fx ulo thr db gtL prL pps nfn,
  process fx ulo thr db gtL prL = Ok (pps, nfn) ->
  find_pairs ulo db gtL prL <> [] /\
  (length pps + nfn =
   fold_right Nat.add 0 (map (fun fp => length (frame_gts fp)) (find_pairs ulo db gtL prL)))%nat.
Proof. exact process_conservation. Qed.
Print Assumptions c16_every_gt_instance_counted.

Theorem c16_evaluator_outcome : forall ulo thr db gtL prL,
  (find_pairs ulo db gtL prL = [] /\ process true ulo thr db gtL prL = ErrEmpty) \/
  (find_pairs ulo db gtL prL <> [] /\ exists r, process true ulo thr db gtL prL = Ok r).
Proof. exact process_outcome. Qed.
Print Assumptions c16_evaluator_outcome.

(* state: Evaluator(user_labels_only=True) overwrites `lf.instances` of the gt frames of paired videos
   (mutate_gt / mutate_db).  The overwrite is idempotent — a second Evaluator with the same option on the
   same label objects forms the same frame pairs and returns the same report — and user_labels_only=False
   modifies nothing.  (After user_labels_only=True a later user_labels_only=False Evaluator sees only the
   user instances: that is `evaluate_after _ _ true false`, compared with the code on every run.) *)
Theorem c16_second_evaluator_same_pairs : forall db gtL prL,
  find_pairs_pos true (mutate_db true gtL prL db) (mutate_gt true gtL prL) prL = find_pairs_pos true db gtL prL.
Proof. exact find_pairs_mutate_idem. Qed.
Print Assumptions c16_second_evaluator_same_pairs.

Theorem c16_second_evaluator_same_report : forall rnd fx thr n db gtL prL m r k,
  evaluate_after rnd fx true true thr n db gtL prL m r k = evaluate rnd fx true thr n db gtL prL m r k /\
  (forall u2, evaluate_after rnd fx false u2 thr n db gtL prL m r k = evaluate rnd fx u2 thr n db gtL prL m r k).
Proof. exact evaluate_after_same. Qed.
Print Assumptions c16_second_evaluator_same_report.

(* ---- (b) every reported ratio lies in [0,1] ----
   Grids are non-empty (review round 4, finding 3): on an empty recall grid the code's AP / mAP are NaN and on
   an empty match grid `precisions.mean(axis=1)` raises; the model's qmean [] = 0/0 = 0 would make the bounds
   hold by totalisation there, so the hypotheses are stated. *)
Theorem c16_voc_bounds : forall rnd,
  (forall a b, a <= b -> rnd a <= rnd b) -> rnd 0 == 0 -> rnd 1 == 1 ->
  forall mscores pps n_fn mthrs rthrs v,
  mthrs <> [] -> rthrs <> [] ->
  length mscores = length pps ->
  voc_metrics rnd mscores pps n_fn mthrs rthrs = Some v ->
  Forall (fun row => 0 <= vr_recall row <= 1 /\ Forall (fun x => 0 <= x <= 1) (vr_precisions row) /\
                     0 <= vr_ap row <= 1) (voc_rows v) /\
  0 <= voc_map v <= 1 /\ 0 <= voc_mar v <= 1.
Proof. intros rnd H1 H2 H3 mscores pps n_fn mthrs rthrs v _ _. apply voc_metrics_bounds; assumption. Qed.
Print Assumptions c16_voc_bounds.

(* ... for the rounding the harness evaluates *)
Theorem c16_voc_bounds_f64 : forall mscores pps n_fn mthrs rthrs v,
  mthrs <> [] -> rthrs <> [] ->
  length mscores = length pps ->
  voc_metrics round_f64 mscores pps n_fn mthrs rthrs = Some v ->
  Forall (fun row => 0 <= vr_recall row <= 1 /\ Forall (fun x => 0 <= x <= 1) (vr_precisions row) /\
                     0 <= vr_ap row <= 1) (voc_rows v) /\
  0 <= voc_map v <= 1 /\ 0 <= voc_mar v <= 1.
Proof.
  intros mscores pps n_fn mthrs rthrs v _ _.
  apply (voc_metrics_bounds round_f64 round_f64_mono round_f64_0 round_f64_1).
Qed.
Print Assumptions c16_voc_bounds_f64.

Theorem c16_moks_bounds : forall pps q,
  Forall (fun pp => 0 <= pp_oks pp <= 1) pps -> moks pps = Some q -> 0 <= q <= 1.
Proof. exact moks_bounds. Qed.
Print Assumptions c16_moks_bounds.

(* the hypothesis of c16_moks_bounds derived: every OKS of a positive pair is an entry of its frame pair's
   matrix above the match threshold (C15 match_instances_spec), so mOKS is in [0,1] as soon as the matrices
   are (C15: c15_compute_oks_range on the real values; the float64 matrices are an oracle input) *)
Theorem c16_pairs_are_matrix_entries : forall fx ulo thr db gtL prL pps nfn,
  process fx ulo thr db gtL prL = Ok (pps, nfn) ->
  Forall (fun pp => exists fp g p, In fp (find_pairs ulo db gtL prL) /\
                                   mget (frame_M fp) g p = Some (pp_oks pp) /\ eligible thr (pp_oks pp)) pps.
Proof. exact process_pairs_entries. Qed.
Print Assumptions c16_pairs_are_matrix_entries.

Theorem c16_moks_bounds_from_matrices : forall fx ulo thr db gtL prL pps nfn q,
  process fx ulo thr db gtL prL = Ok (pps, nfn) ->
  (forall fp g p x, In fp (find_pairs ulo db gtL prL) -> mget (frame_M fp) g p = Some x -> 0 <= x <= 1) ->
  moks pps = Some q -> 0 <= q <= 1.
Proof. exact process_moks_bounds. Qed.
Print Assumptions c16_moks_bounds_from_matrices.

Theorem c16_pck_bounds : forall n pps thrs,
  thrs <> [] -> (0 < n)%nat -> pps <> [] ->
  (forall k, 0 <= pck_part pps thrs k <= 1) /\
  (forall q, mpck n pps thrs = Some q -> 0 <= q <= 1) /\
  (forall t, 0 <= pck_at n pps t <= 1).
Proof.
  intros n pps thrs _ _ _. split; [intros k; apply pck_part_bounds|].
  split; [intros q; apply mpck_bounds|intros t; apply pck_at_bounds].
Qed.
Print Assumptions c16_pck_bounds.

Theorem c16_visibility_bounds : forall a b q, ratio a b = Some q -> 0 <= q <= 1.
Proof. exact ratio_bounds. Qed.
Print Assumptions c16_visibility_bounds.

(* ---- (c) AP and recall are non-increasing in the match threshold ---- *)
Theorem c16_ap_ar_antitone_in_match_threshold : forall rnd,
  (forall a b, a <= b -> rnd a <= rnd b) ->
  forall npig ms rthrs t1 t2, t1 <= t2 ->
  vr_recall (voc_row_of rnd npig ms rthrs t2) <= vr_recall (voc_row_of rnd npig ms rthrs t1) /\
  Forall2 Qle (vr_precisions (voc_row_of rnd npig ms rthrs t2))
              (vr_precisions (voc_row_of rnd npig ms rthrs t1)) /\
  vr_ap (voc_row_of rnd npig ms rthrs t2) <= vr_ap (voc_row_of rnd npig ms rthrs t1).
Proof. exact voc_row_mono. Qed.
Print Assumptions c16_ap_ar_antitone_in_match_threshold.

Theorem c16_ap_ar_antitone_in_match_threshold_f64 : forall npig ms rthrs t1 t2, t1 <= t2 ->
  vr_recall (voc_row_of round_f64 npig ms rthrs t2) <= vr_recall (voc_row_of round_f64 npig ms rthrs t1) /\
  Forall2 Qle (vr_precisions (voc_row_of round_f64 npig ms rthrs t2))
              (vr_precisions (voc_row_of round_f64 npig ms rthrs t1)) /\
  vr_ap (voc_row_of round_f64 npig ms rthrs t2) <= vr_ap (voc_row_of round_f64 npig ms rthrs t1).
Proof. exact (voc_row_mono round_f64 round_f64_mono). Qed.
Print Assumptions c16_ap_ar_antitone_in_match_threshold_f64.

(* the rows of the returned table are exactly these rows *)
Theorem c16_voc_rows : forall rnd mscores pps n_fn mthrs rthrs v,
  voc_metrics rnd mscores pps n_fn mthrs rthrs = Some v ->
  voc_rows v = map (voc_row_of rnd (length pps + n_fn) (sort_by_score (map pp_score pps) mscores) rthrs) mthrs /\
  voc_map v = qmean (concat (map vr_precisions (voc_rows v))) /\
  voc_mar v = qmean (map vr_recall (voc_rows v)) /\ pps <> [].
Proof. exact voc_metrics_rows. Qed.
Print Assumptions c16_voc_rows.

(* ---- (d) PCK is non-decreasing in the pixel threshold ---- *)
Theorem c16_pck_monotone_in_pixel_threshold : forall n pps t t',
  t <= t' -> pck_at n pps t <= pck_at n pps t'.
Proof. exact pck_at_mono. Qed.
Print Assumptions c16_pck_monotone_in_pixel_threshold.

(* `pck_at` is what pck_metrics reports on a one-threshold grid (the evaluated `mpck`) *)
Theorem c16_pck_at_is_mpck_single : forall n pps t, pps <> [] ->
  exists q, mpck n pps [t] = Some q /\ q == pck_at n pps t.
Proof. exact mpck_single. Qed.
Print Assumptions c16_pck_at_is_mpck_single.

Theorem c16_mpck_monotone : forall n pps thrs thrs' q q',
  Forall2 Qle thrs thrs' -> mpck n pps thrs = Some q -> mpck n pps thrs' = Some q' -> q <= q'.
Proof. exact mpck_mono. Qed.
Print Assumptions c16_mpck_monotone.

(* ---- (e) deleting predictions ----
   F6: the full statement is false of the faithful model (and of the code).  The matrix of this witness is an
   arbitrary oracle matrix (1 # 268336 is not a float64 value): a refutation of the model over all matrices;
   the replay on the real code (compute_oks outputs) is corpus/C16/F6_delete_prediction.json, every run.
   `false` = F51 flag of the pinned tree; the witness has gt instances in its frame, so the flag is not used. *)
Definition wA : pose := [[Some 0; Some 0]; [Some 8; Some 0]; [Some 0; Some 8]].
Definition wB : pose := [[Some 20; Some 20]; [Some 28; Some 20]; [Some 20; Some 28]].
Definition wA2 : pose := [[Some 2; Some 0]; [Some 10; Some 0]; [Some 2; Some 8]].
Definition recalls (o : outcome report) : list Q :=
  match o with
  | Ok r => match r_voc r with Some v => map (fun row => Qred (vr_recall row)) (voc_rows v) | None => [] end
  | _ => []
  end.

Definition wgt : labels := ([(0%nat, 0%nat)], [LF 0 0 [(wA, None); (wB, None)]]).
Definition wpr (ps : list inst) : labels := ([(0%nat, 0%nat)], [LF 0 0 ps]).

Theorem c16_delete_prediction_refuted :
  exists (M M' : smatrix),
    (* both predictions: P1 = A shifted (score 7/8) and P2 = A exactly (score 1/2) *)
    recalls (evaluate round_f64 false true 0 3 [(0%nat, 0%nat, M)] wgt (wpr [(wA2, Some (7 # 8)); (wA, Some (1 # 2))])
                      [1 # 2] [0; 1 # 2; 1] [1]) = [0] /\
    (* P1 deleted (M' = M without its column) *)
    recalls (evaluate round_f64 false true 0 3 [(0%nat, 0%nat, M')] wgt (wpr [(wA, Some (1 # 2))])
                      [1 # 2] [0; 1 # 2; 1] [1]) = [1 # 2] /\
    M' = map (fun row => tl row) M.
Proof.
  exists [[Some (1 # 268336); Some 1]; [Some 0; Some 0]], [[Some 1]; [Some 0]].
  split; [vm_compute; reflexivity|]. split; [vm_compute; reflexivity|reflexivity].
Qed.
Print Assumptions c16_delete_prediction_refuted.

(* the strongest statement proved: deleting prediction p from the processing order
   (o1 ++ p :: o2, no prediction twice: c16_processing_order_nodup) of a frame.  selector_F6 =
   p was matched to a gt instance g, and some prediction q processed later (in o2) is eligible for g
   (OKS(g,q) > match threshold) and was itself unmatched or matched with an OKS <= OKS(g,q) (so q takes,
   or may take, g once it is free).  Outside the selector the run after p is unchanged: the new pairs
   are among the old ones, the number of pairs with OKS >= t does not grow and the number of gt
   instances (pairs + missed) is unchanged, for every match-score threshold t. *)
Theorem c16_delete_prediction_partial : forall M thr o1 p o2 avail t ms missed ms' missed',
  NoDup (o1 ++ p :: o2) ->
  match_loop M thr (o1 ++ p :: o2) avail = (ms, missed) ->
  match_loop M thr (o1 ++ o2) avail = (ms', missed') ->
  ~ selector_F6 M thr p o2 ms ->
  (count_ge t (map oks_of ms') <= count_ge t (map oks_of ms))%nat /\
  (length ms' + length missed' = length ms + length missed)%nat /\
  (forall m, In m ms' -> In m ms).
Proof. exact delete_prediction_selector. Qed.
Print Assumptions c16_delete_prediction_partial.

(* --- from the matching loop to what is really deleted (review round 4, finding 4) ---
   Deleting predicted instance p from the labels removes its score and its column of the OKS matrix and
   moves the later predictions down by one (`del_pred`, `pop_col`, `down`); the processing order is
   recomputed.  c16_delete_is_index_preserving_deletion: that run IS the index-preserving deletion the
   theorem above speaks about, up to the renaming `down p` of the prediction indices. *)
Theorem c16_delete_is_index_preserving_deletion : forall fx n scores M thr p o1 o2 ms missed ms' missed',
  argsort_desc scores = o1 ++ p :: o2 -> (p < length scores)%nat ->
  match_instances fx n scores M thr = Some (ms, missed) ->
  match_instances fx n (pop_at p scores) (pop_col p M) thr = Some (ms', missed') ->
  exists ms0 missed0,
    match_loop M thr (o1 ++ o2) (seq 0 n) = (ms0, missed0) /\
    ms' = map (fun m : mpair => (gt_of m, down p (pr_of m), oks_of m)) ms0 /\ missed' = missed0 /\
    match_loop M thr (o1 ++ p :: o2) (seq 0 n) = (ms, missed).
Proof. exact match_instances_del_pred. Qed.
Print Assumptions c16_delete_is_index_preserving_deletion.

Theorem c16_argsort_after_deletion : forall scores p, (p < length scores)%nat ->
  argsort_desc (pop_at p scores) = map (down p) (filter (fun q => negb (q =? p)%nat) (argsort_desc scores)).
Proof. exact argsort_desc_pop_at. Qed.
Print Assumptions c16_argsort_after_deletion.

(* the selector is executable (`selector_F6b`, evaluated by the harness through `labels_selector_F6` on every
   deletion variant and compared with the Python oracle's selector) and equals the Prop of the theorem above *)
Theorem c16_selector_F6_executable : forall M thr p o2 ms,
  selector_F6b M thr p o2 ms = true <-> selector_F6 M thr p o2 ms.
Proof. exact selector_F6b_iff. Qed.
Print Assumptions c16_selector_F6_executable.

(* lifted over the frame pairs of an evaluation: `deleted_in thr fp fp'` = fp' is fp, or fp with one predicted
   instance deleted outside the selector (`frame_selector_F6 thr fp p = false`); any number of frame pairs may
   lose a prediction *)
Theorem c16_delete_prediction_frames_partial : forall fx thr t fps fps' pps nfn pps' nfn',
  Forall2 (deleted_in thr) fps fps' ->
  match_frames fx thr fps = Some (pps, nfn) -> match_frames fx thr fps' = Some (pps', nfn') ->
  (count_ge t (map pp_oks pps') <= count_ge t (map pp_oks pps))%nat /\
  (length pps' + nfn' = length pps + nfn)%nat.
Proof. intros fx thr t. exact (match_frames_delete fx thr t). Qed.
Print Assumptions c16_delete_prediction_frames_partial.

(* ... and at the level of the report, with the rounding the harness evaluates: no recall of the table
   grows.  What is NOT proved in Coq: that deleting an instance from the prediction labels changes
   `find_pairs` only by `del_pred` in the frame pairs holding that frame (find_pairs reads video keys, frame
   indices and gt instance kinds only); the harness evaluates both label pairs through the model. *)
Theorem c16_delete_prediction_evaluate_partial :
  forall fx ulo thr n db gtL prL db' prL' m r k rep rep' v v',
  Forall2 (deleted_in thr) (find_pairs ulo db gtL prL) (find_pairs ulo db' gtL prL') ->
  evaluate round_f64 fx ulo thr n db gtL prL m r k = Ok rep ->
  evaluate round_f64 fx ulo thr n db' gtL prL' m r k = Ok rep' ->
  r_voc rep = Some v -> r_voc rep' = Some v' ->
  Forall2 (fun row' row => vr_recall row' <= vr_recall row) (voc_rows v') (voc_rows v).
Proof. exact (evaluate_delete round_f64 round_f64_mono). Qed.
Print Assumptions c16_delete_prediction_evaluate_partial.

(* the order match_instances processes the predictions in never holds a prediction twice *)
Theorem c16_processing_order_nodup : forall scores, NoDup (argsort_desc scores).
Proof.
  intros scores. eapply Permutation_NoDup; [apply Permutation_sym; apply argsort_desc_perm|apply seq_NoDup].
Qed.
Print Assumptions c16_processing_order_nodup.

(* the former, wider exclusion (any later prediction eligible for g), for arbitrary processing orders *)
Theorem c16_delete_prediction_no_later_eligible_partial : forall M thr o1 p o2 avail t ms missed ms' missed',
  match_loop M thr (o1 ++ p :: o2) avail = (ms, missed) ->
  match_loop M thr (o1 ++ o2) avail = (ms', missed') ->
  (forall g v, In (g, p, v) ms -> forall q, In q o2 -> ineligible thr (mget M g q)) ->
  (count_ge t (map oks_of ms') <= count_ge t (map oks_of ms))%nat /\
  (length ms' + length missed' = length ms + length missed)%nat.
Proof. exact delete_prediction_partial_narrow. Qed.
Print Assumptions c16_delete_prediction_no_later_eligible_partial.

(* the witness of c16_delete_prediction_refuted lies inside the selector (P2 is eligible for A, OKS 1,
   and was unmatched) *)
Example ex_c16_witness_in_selector :
  let M := [[Some (1 # 268336); Some 1]; [Some 0; Some 0]] in
  match_loop M 0 [0; 1]%nat [0; 1]%nat = ([(0%nat, 0%nat, 1 # 268336)], [1%nat]) /\
  selector_F6 M 0 0%nat [1%nat] [(0%nat, 0%nat, 1 # 268336)].
Proof.
  split; [vm_compute; reflexivity|]. exists 0%nat, (1 # 268336), 1%nat, 1.
  split; [left; reflexivity|]. split; [left; reflexivity|]. split; [reflexivity|]. split; [reflexivity|].
  intros g' v' [H|[]]. inversion H.
Qed.

(* a deletion the former selector excused and this one does not: the later prediction (1) is eligible
   for the freed instance 0 (OKS 1/4) but strictly prefers its own match (instance 1, OKS 3/4) *)
Example ex_c16_selector_narrower :
  let M := [[Some (1 # 2); Some (1 # 4)]; [Some 0; Some (3 # 4)]] in
  match_loop M 0 [0; 1]%nat [0; 1]%nat = ([(0%nat, 0%nat, 1 # 2); (1%nat, 1%nat, 3 # 4)], []) /\
  ~ selector_F6 M 0 0%nat [1%nat] [(0%nat, 0%nat, 1 # 2); (1%nat, 1%nat, 3 # 4)] /\
  ~ ineligible 0 (mget M 0 1).
Proof.
  split; [vm_compute; reflexivity|]. split.
  - intros [g [v [q [x [Hin [Hq [Hx [Hlt Hall]]]]]]]]. destruct Hq as [Hq|[]]. subst q.
    destruct Hin as [Hin|[Hin|[]]]; inversion Hin; subst. cbn in Hx. inversion Hx; subst x.
    specialize (Hall 1%nat (3 # 4) (or_intror (or_introl eq_refl))). revert Hall. vm_compute. intros Hc. apply Hc. reflexivity.
  - cbn. vm_compute. intros Hc. apply Hc. reflexivity.
Qed.

(* corollary in the words of the task: deleting an unmatched prediction, or the one
   processed last (lowest score), never increases recall *)
Theorem c16_delete_unmatched_or_last_partial : forall M thr o1 p o2 avail t ms missed ms' missed',
  match_loop M thr (o1 ++ p :: o2) avail = (ms, missed) ->
  match_loop M thr (o1 ++ o2) avail = (ms', missed') ->
  (o2 = [] \/ ~ In p (map pr_of ms)) ->
  (count_ge t (map oks_of ms') <= count_ge t (map oks_of ms))%nat /\
  (length ms' + length missed' = length ms + length missed)%nat.
Proof. exact delete_prediction_partial. Qed.
Print Assumptions c16_delete_unmatched_or_last_partial.

(* ... and recall is a monotone function of exactly these two numbers *)
Theorem c16_recall_is_count : forall rnd pps n_fn rthrs t,
  pps <> [] ->
  vr_recall (voc_row_of rnd (length pps + n_fn) (sort_by_score (map pp_score pps) (map pp_oks pps)) rthrs t)
  = recall_of rnd t pps n_fn.
Proof. exact voc_recall_is_count. Qed.
Print Assumptions c16_recall_is_count.

Theorem c16_recall_monotone_in_count : forall rnd,
  (forall a b, a <= b -> rnd a <= rnd b) ->
  forall t pps n_fn pps' n_fn',
  (count_ge t (map pp_oks pps') <= count_ge t (map pp_oks pps))%nat ->
  (length pps' + n_fn' = length pps + n_fn)%nat ->
  recall_of rnd t pps' n_fn' <= recall_of rnd t pps n_fn.
Proof. exact recall_of_mono. Qed.
Print Assumptions c16_recall_monotone_in_count.

(* ---- the executable rounding instance meets the whole contract (monotonicity proved in LemmasRound.v
   for the Coq function itself: binade characterisation + monotone round-half-even; the harness
   additionally compares round_f64 with float64 division on every run) ---- *)
Theorem c16_round_f64_contract :
  (forall a b, a <= b -> round_f64 a <= round_f64 b) /\ round_f64 0 == 0 /\ round_f64 1 == 1.
Proof. split; [exact round_f64_mono|]. split; [exact round_f64_0|exact round_f64_1]. Qed.
Print Assumptions c16_round_f64_contract.

Theorem c16_round_f64_fixes_0_and_1 : round_f64 0 == 0 /\ round_f64 1 == 1.
Proof. split; vm_compute; reflexivity. Qed.
Print Assumptions c16_round_f64_fixes_0_and_1.

(* ---- non-vacuity / necessity of hypotheses ---- *)
Example ex_c16_perfect_frame :
  perfect_frame ((0%nat, [wA; wB], [[Some 1; Some 0]; [Some 0; Some 1]]), (0%nat, [wA; wB], [1 # 2; 7 # 8])).
Proof.
  cbn. split; [reflexivity|]. split; [reflexivity|]. split.
  - intros [|[|i]] Hi; [reflexivity|reflexivity|cbn in Hi; lia].
  - intros [|[|i]] [|[|j]] Hi Hj Hij; cbn in *; try lia; reflexivity.
Qed.

(* a cross pair with OKS exactly 1 (animal a = [(0,0), NaN], animal b = [(0,0), (5,5)], b's copy has
   the higher score): b's copy takes a, a's copy gets b with OKS 1/2, so mOKS = 3/4 *)
Example ex_c16_cross_pair_breaks_perfect :
  match match_frames false 0
          [((0%nat, [[[Some 0; Some 0]; [None; None]]; [[Some 0; Some 0]; [Some 5; Some 5]]],
             [[Some 1; Some 1]; [Some (1 # 2); Some 1]]),
            (0%nat, [[[Some 0; Some 0]; [None; None]]; [[Some 0; Some 0]; [Some 5; Some 5]]], [1 # 2; 7 # 8]))]
  with Some (pps, _) => moks pps | None => None end = Some (3 # 4).
Proof. vm_compute. reflexivity. Qed.

(* ======== proof extension (LemmasExt.v, LemmasDelLabels.v): clauses (b)-(e) on the report of
   `evaluate round_f64` — the function the harness runs against Evaluator.evaluate() — for all inputs ======== *)

(* (b) every ratio of one report is in [0,1]: OKS table and PCK table (recalls, precisions, AP, mAP, mAR), mOKS,
   mPCK and the per-node PCKs, visibility precision / recall.  Hypotheses: non-empty grids (see above) and OKS
   matrices in [0,1] (C15 range theorem; oracle input) — the latter is needed for mOKS only. *)
Theorem c16_report_bounds : forall fx ulo thr n db gtL prL m r k rep,
  m <> [] -> r <> [] ->
  (forall fp g p x, In fp (find_pairs ulo db gtL prL) -> mget (frame_M fp) g p = Some x -> 0 <= x <= 1) ->
  evaluate round_f64 fx ulo thr n db gtL prL m r k = Ok rep ->
  (forall v, r_voc rep = Some v -> voc_in_unit v) /\
  (forall v, r_pckvoc rep = Some v -> voc_in_unit v) /\
  (forall q, r_moks rep = Some q -> 0 <= q <= 1) /\
  (forall q, r_mpck rep = Some q -> 0 <= q <= 1) /\
  (forall ps, r_parts rep = Some ps -> Forall (fun x => 0 <= x <= 1) ps) /\
  (forall q, r_vprec rep = Some q -> 0 <= q <= 1) /\
  (forall q, r_vrec rep = Some q -> 0 <= q <= 1).
Proof. exact report_bounds. Qed.
Print Assumptions c16_report_bounds.

(* `voc_in_unit` spelled out *)
Theorem c16_voc_in_unit_def : forall v, voc_in_unit v <->
  Forall (fun row => 0 <= vr_recall row <= 1 /\ Forall (fun x => 0 <= x <= 1) (vr_precisions row) /\
                     0 <= vr_ap row <= 1) (voc_rows v) /\
  0 <= voc_map v <= 1 /\ 0 <= voc_mar v <= 1.
Proof. intros v. reflexivity. Qed.
Print Assumptions c16_voc_in_unit_def.

Definition xdb : oksdb := [(0%nat, 0%nat, [[Some 1; Some 1]; [Some (1 # 2); Some 1]])].
Definition xgt : labels := lab [(pa, None); (pb, None)].
Definition xpr : labels := lab [(pa, Some (1 # 2)); (pb, Some (7 # 8))].
Definition rec_ap (v : option voc) : list (Q * Q) :=
  match v with Some v => map (fun row => (Qred (vr_recall row), Qred (vr_ap row))) (voc_rows v) | None => [] end.

(* non-vacuity: the F160 labels meet every hypothesis, all seven ratios / tables are present *)
Example ex_c16_report_bounds :
  (forall fp g p x, In fp (find_pairs true xdb xgt xpr) -> mget (frame_M fp) g p = Some x -> 0 <= x <= 1) /\
  exists rep, evaluate round_f64 true true 0 2 xdb xgt xpr [1 # 2; 3 # 4] [0; 1 # 2; 1] [1] = Ok rep /\
    rec_ap (r_voc rep) = [(1, 9007199254740992 # 9007199254740993); (1 # 2, 9007199254740992 # 13510798882111491)] /\
    rec_ap (r_pckvoc rep) = [(1, 9007199254740992 # 9007199254740993); (0, 0)] /\
    r_moks rep = Some (3 # 4) /\ r_mpck rep = Some (1 # 2) /\ r_parts rep = Some [1; 0] /\
    r_vprec rep = Some (2 # 3) /\ r_vrec rep = Some (2 # 3).
Proof.
  split.
  - intros fp g p x [<-|[]]. cbn.
    destruct g as [|[|g]]; destruct p as [|[|p]]; cbn; intros H;
      repeat match type of H with context [match ?v with _ => _ end] => is_var v; destruct v; cbn in H end;
      try discriminate H; inversion H; subst; split; apply Qle_bool_iff; reflexivity.
  - eexists. split; [vm_compute; reflexivity|]. repeat split; vm_compute; reflexivity.
Qed.

(* (c) along the match-threshold grid of ONE report (any grid, sorted or not): at a larger threshold recall, AP and
   every precision are not larger — OKS table and PCK table; one row per threshold, in grid order *)
Theorem c16_report_antitone_in_match_grid : forall fx ulo thr n db gtL prL m r k rep,
  evaluate round_f64 fx ulo thr n db gtL prL m r k = Ok rep ->
  forall v, (r_voc rep = Some v \/ r_pckvoc rep = Some v) ->
  length (voc_rows v) = length m /\
  forall i j t1 t2 row1 row2,
  nth_error m i = Some t1 -> nth_error m j = Some t2 -> t1 <= t2 ->
  nth_error (voc_rows v) i = Some row1 -> nth_error (voc_rows v) j = Some row2 ->
  vr_recall row2 <= vr_recall row1 /\ vr_ap row2 <= vr_ap row1 /\
  Forall2 Qle (vr_precisions row2) (vr_precisions row1).
Proof.
  intros fx ulo thr n db gtL prL m r k rep He v Hv. split.
  - eapply report_rows_length; eassumption.
  - eapply report_antitone_in_grid; eassumption.
Qed.
Print Assumptions c16_report_antitone_in_match_grid.
(* non-vacuity: ex_c16_report_bounds — grid [1/2; 3/4], recalls 1 > 1/2, APs strictly decreasing *)

(* (d) the same labels evaluated with pointwise larger pixel thresholds: mPCK and every per-node PCK of the
   report are not smaller *)
Theorem c16_report_pck_monotone : forall rnd fx ulo thr n db gtL prL m r k k' rep rep',
  Forall2 Qle k k' ->
  evaluate rnd fx ulo thr n db gtL prL m r k = Ok rep ->
  evaluate rnd fx ulo thr n db gtL prL m r k' = Ok rep' ->
  (forall q q', r_mpck rep = Some q -> r_mpck rep' = Some q' -> q <= q') /\
  (forall ps ps', r_parts rep = Some ps -> r_parts rep' = Some ps' -> Forall2 Qle ps ps').
Proof. exact report_pck_monotone. Qed.
Print Assumptions c16_report_pck_monotone.

Definition ddb : oksdb := [(0%nat, 0%nat, [[Some (1 # 2); Some (1 # 4)]; [Some 0; Some (3 # 4)]])].
Definition dpr : labels := lab [(wA2, Some (7 # 8)); (wB, Some (1 # 2))].

Example ex_c16_report_pck_monotone :
  exists rep rep',
    evaluate round_f64 true true 0 3 ddb wgt dpr [1 # 2] [0; 1 # 2; 1] [1; 2] = Ok rep /\
    evaluate round_f64 true true 0 3 ddb wgt dpr [1 # 2] [0; 1 # 2; 1] [1; 4] = Ok rep' /\
    option_map Qred (r_mpck rep) = Some (1 # 2) /\ option_map Qred (r_mpck rep') = Some (3 # 4).
Proof. eexists. eexists. split; [vm_compute; reflexivity|]. split; [vm_compute; reflexivity|]. split; vm_compute; reflexivity. Qed.

(* (e) on the labels themselves (closes the step "not proved" of round 4): `del_inst j k prL` removes predicted
   instance k from the prediction frame at position j, `del_db j k db` removes its column from every OKS matrix of
   that frame.  The frame pairs change only by `del_pred k` in the pairs holding frame j ... *)
Theorem c16_delete_instance_changes_pairs_by_del_pred : forall ulo db gtL prL j k,
  find_pairs_pos ulo (del_db j k db) gtL (del_inst j k prL) =
  map (fun x : (nat * nat) * (gframe * pframe) =>
         if (snd (fst x) =? j)%nat then (fst x, del_pred k (snd x)) else x) (find_pairs_pos ulo db gtL prL).
Proof. exact find_pairs_pos_del. Qed.
Print Assumptions c16_delete_instance_changes_pairs_by_del_pred.

(* ... so outside the executable selector (`labels_selector_F6 = false`: what the harness evaluates and compares
   with the oracle's selector on every deletion variant) no recall of the report grows *)
Theorem c16_delete_instance_evaluate_partial : forall fx ulo thr n db gtL prL j k pf m r kk rep rep' v v',
  nth_error (snd prL) j = Some pf -> (k < length (lf_insts pf))%nat ->
  labels_selector_F6 ulo thr db gtL prL j k = false ->
  evaluate round_f64 fx ulo thr n db gtL prL m r kk = Ok rep ->
  evaluate round_f64 fx ulo thr n (del_db j k db) gtL (del_inst j k prL) m r kk = Ok rep' ->
  r_voc rep = Some v -> r_voc rep' = Some v' ->
  Forall2 (fun row' row => vr_recall row' <= vr_recall row) (voc_rows v') (voc_rows v).
Proof. exact evaluate_delete_labels. Qed.
Print Assumptions c16_delete_instance_evaluate_partial.

(* non-vacuity: the matched prediction 0 is deleted outside the selector (the later prediction prefers its own
   match); del_inst / del_db are the labels without it; recall at 1/2 falls from 1 to 1/2 *)
Example ex_c16_delete_instance :
  labels_selector_F6 true 0 ddb wgt dpr 0 0 = false /\
  del_inst 0 0 dpr = lab [(wB, Some (1 # 2))] /\
  del_db 0 0 ddb = [(0%nat, 0%nat, [[Some (1 # 4)]; [Some (3 # 4)]])] /\
  recalls (evaluate round_f64 true true 0 3 ddb wgt dpr [1 # 2] [0; 1 # 2; 1] [1]) = [1] /\
  recalls (evaluate round_f64 true true 0 3 (del_db 0 0 ddb) wgt (del_inst 0 0 dpr) [1 # 2] [0; 1 # 2; 1] [1]) = [1 # 2].
Proof. repeat split; vm_compute; reflexivity. Qed.

(* the matcher behind every report: each frame pair of a successful evaluation is matched by a run of C15's
   match_instances whose answer passes C15's contract checker `match_contractb` — so the clauses of
   c15_match_answer_contract (each gt instance matched or missed exactly once, each prediction used at most once,
   counts conserved, every pair an entry of the matrix strictly above the threshold) are theorems about the
   evaluated matching, not hypotheses *)
Theorem c16_frames_meet_c15_contract : forall fx ulo thr db gtL prL r,
  process fx ulo thr db gtL prL = Ok r ->
  Forall (fun fp : gframe * pframe =>
            let '((_, gts, M), (_, _, scores)) := fp in
            exists ms missed, match_instances fx (length gts) scores M thr = Some (ms, missed) /\
                              match_contractb (length gts) (length scores) M thr ms missed = true)
         (find_pairs ulo db gtL prL).
Proof. exact process_frames_meet_contract. Qed.
Print Assumptions c16_frames_meet_c15_contract.

Example ex_c16_frames_meet_c15_contract :
  exists r, process true true 0 ddb wgt dpr = Ok r /\ length (find_pairs true ddb wgt dpr) = 1%nat.
Proof. eexists. split; vm_compute; reflexivity. Qed.

(* (a) from the LABELS (closes "copy_frame is assumed per frame pair" of round 4): prediction labels = gt labels
   with scores (`is_copy`), pairwise different video keys, no two gt frames with the same (video, frame index),
   every gt instance takes part (user_labels_only = False, or only user instances), diagonal OKS 1 on visible
   instances (C15 c15_oks_identical; oracle input), and the COMPLEMENT of the two executable selectors
   (`labels_selector_F16x = (false, false)`, evaluated by the harness on every perfect case): the perfect report.
   Still partial: copies in shuffled instance order are covered by the oracle only. *)
Theorem c16_perfect_labels_report_partial : forall fx ulo thr n db gtL prL mthrs rthrs pthrs,
  is_copy gtL prL -> distinct_videos (fst gtL) -> distinct_frames (snd gtL) -> all_take_part ulo (snd gtL) ->
  diag_one (find_pairs ulo db gtL prL) ->
  labels_selector_F16x ulo db gtL prL = (false, false) ->
  concat (map frame_gts (find_pairs ulo db gtL prL)) <> [] ->
  thr < 1 -> mthrs <> [] -> rthrs <> [] ->
  Forall (fun t => t <= 1) mthrs -> Forall (fun r => r <= 1) rthrs ->
  exists rep v q,
    evaluate round_f64 fx ulo thr n db gtL prL mthrs rthrs pthrs = Ok rep /\
    r_nfn rep = 0%nat /\
    r_moks rep = Some q /\ q == 1 /\
    Forall (Forall (fun d => match d with None => True | Some x => x == 0 end)) (r_d2 rep) /\
    r_voc rep = Some v /\
    Forall (fun row => vr_recall row == 1 /\ / (1 + eps) <= vr_ap row <= 1) (voc_rows v) /\
    / (1 + eps) <= voc_map v <= 1 /\ voc_mar v == 1.
Proof. exact copy_labels_perfect_report. Qed.
Print Assumptions c16_perfect_labels_report_partial.

(* the pairing step alone: every pair joins equal positions, predicted poses = gt poses in order *)
Theorem c16_copy_labels_pair_same_positions : forall ulo db gtL prL i j fp,
  is_copy gtL prL -> distinct_videos (fst gtL) -> distinct_frames (snd gtL) -> all_take_part ulo (snd gtL) ->
  In ((i, j), fp) (find_pairs_pos ulo db gtL prL) ->
  j = i /\ (let '((_, gts, _), (_, prs, scores)) := fp in prs = gts /\ length scores = length gts).
Proof. exact copy_pairs_structure. Qed.
Print Assumptions c16_copy_labels_pair_same_positions.

(* non-vacuity: two animals, identity OKS matrix: all hypotheses hold *)
Definition cgt : labels := lab [(wA, None); (wB, None)].
Definition cpr : labels := lab [(wA, Some (1 # 2)); (wB, Some (7 # 8))].
Definition cdb : oksdb := [(0%nat, 0%nat, [[Some 1; Some 0]; [Some 0; Some 1]])].
Example ex_c16_perfect_labels :
  is_copy cgt cpr /\ distinct_videos (fst cgt) /\ distinct_frames (snd cgt) /\ all_take_part true (snd cgt) /\
  diag_one (find_pairs true cdb cgt cpr) /\ labels_selector_F16x true cdb cgt cpr = (false, false) /\
  concat (map frame_gts (find_pairs true cdb cgt cpr)) <> [].
Proof.
  split; [split; reflexivity|]. split.
  { intros [|a] [|b] ka kb Ha Hb _; cbn in Ha, Hb; try reflexivity;
      try (destruct a; discriminate); try (destruct b; discriminate). }
  split; [repeat constructor; intros []|]. split; [repeat constructor|].
  split.
  { intros fp i g [<-|[]]. cbn. destruct i as [|[|i]]; cbn; intros H Hv; try reflexivity.
    destruct i; discriminate. }
  split; [vm_compute; reflexivity|]. vm_compute. discriminate.
Qed.
