(* Metrics.v — executable model of sleap_nn/evaluation.py: find_frame_pairs (several videos, frames on
   one side only, duplicate frames, predicted instances among the ground truth, the overwrite of
   `lf.instances`),
   match_frame_pairs, compute_dists and Evaluator.{voc_metrics, mOKS,
   distance_metrics, pck_metrics, visibility_metrics, evaluate}.
   No proofs in this file.  match_instances is the model of C15 (Oks.v).

   Numbers: exact rationals.  The OKS of a (gt, prediction) pair enters as a
   rational score matrix (the float64 values compute_oks returned, which are
   rationals); None = NaN.  Distances: the model holds *squared* distances
   (`np.linalg.norm` = sqrt of a rational); `dist < t` is decided as
   `0 < t /\ d2 < t^2`.  The only float64 rounding that decides a discrete
   outcome is `rc = tp / npig` inside `np.searchsorted(rc, recall_thresholds)`:
   it is a parameter `rnd : Q -> Q` of the model (contract used by the theorems:
   monotone, rnd 0 = 0, rnd 1 = 1); the executable instance is `round_f64`
   (round-to-nearest-even to 53 bits).  All other float operations are compared
   within tolerance.  eps = np.spacing(1) = 2^-52. *)
From Coq Require Import List Arith ZArith QArith Bool.
Import ListNotations.
From SV Require Import C15.Oks.
Open Scope Q_scope.

Definition nq (n : nat) : Q := inject_Z (Z.of_nat n).
(* sums are kept in lowest terms (Qred q == q) so that model evaluation stays fast *)
Definition qadd (a b : Q) : Q := Qred (a + b).
Definition qsum (l : list Q) : Q := fold_right qadd 0 l.
(* arithmetic mean; callers guard the empty case (numpy gives NaN there) *)
Definition qmean (l : list Q) : Q := qsum l / nq (length l).
Definition omean (l : list Q) : option Q := match l with [] => None | _ => Some (qmean l) end.

(* ---- float64 rounding of a non-negative rational (round to nearest, ties to even) ---- *)
Definition round_half_even (q : Q) : Z :=
  let n := Qnum q in
  let d := Zpos (Qden q) in
  let fl := (n / d)%Z in
  match (2 * (n - fl * d) ?= d)%Z with
  | Lt => fl
  | Gt => (fl + 1)%Z
  | Eq => if Z.even fl then fl else (fl + 1)%Z
  end.

Definition pow2 (e : Z) : Q :=
  if (0 <=? e)%Z then inject_Z (2 ^ e) else / inject_Z (2 ^ (- e)).

Definition round_f64 (q : Q) : Q :=
  match Qnum q with
  | Zpos n =>
      let k := (Z.log2 (Zpos n) - Z.log2 (Zpos (Qden q)))%Z in
      let e0 := (52 - k)%Z in
      let e := if Qle_bool (inject_Z (2 ^ 52)) (q * pow2 e0) then e0 else (e0 + 1)%Z in
      Qred (inject_Z (round_half_even (q * pow2 e)) * pow2 (- e))
  | _ => q                      (* 0 stays 0; negative inputs do not occur *)
  end.

(* ---- frames ---- *)
Definition gframe := (nat * list pose * smatrix)%type.   (* frame_idx, user instances, OKS matrix
                                                           against the prediction frame of the same index *)
Definition pframe := (nat * list pose * list Q)%type.    (* frame_idx, predicted instances, their scores *)

Record ppair := PP { pp_oks : Q; pp_score : Q; pp_g : pose; pp_p : pose }.

Inductive outcome (A : Type) := Ok (a : A) | ErrEmpty | ErrValue.
Arguments Ok {A} a.
Arguments ErrEmpty {A}.
Arguments ErrValue {A}.

(* ---- labels (sio.Labels as find_frame_pairs reads them) ----
   A video is identified by (filename id, HDF5 dataset id): find_frame_pairs pairs a gt video with the
   FIRST prediction video whose backend type, filename and dataset are equal (all backends are HDF5Video
   here; other backends have no `.dataset`/`.source_filename` and raise AttributeError: outside the model).
   A frame refers to its video by position in the labels' video list (Video objects compare by identity).
   An instance is (pose, None) for a user `Instance` and (pose, Some score) for a `PredictedInstance`. *)
Definition vkey := (nat * nat)%type.
Definition inst := (pose * option Q)%type.
Record lframe := LF { lf_video : nat; lf_idx : nat; lf_insts : list inst }.
Definition labels := (list vkey * list lframe)%type.
(* (gt frame position, prediction frame position) -> the float64 OKS of every instance of the gt frame
   (rows, before any user_labels_only filtering) with every instance of the prediction frame *)
Definition oksdb := list (nat * nat * smatrix).

Definition vkey_eqb (a b : vkey) : bool := (fst a =? fst b)%nat && (snd a =? snd b)%nat.
Fixpoint find_video (k : vkey) (vs : list vkey) (pos : nat) : option nat :=
  match vs with
  | [] => None
  | v :: t => if vkey_eqb v k then Some pos else find_video k t (S pos)
  end.

Definition enum {A} (l : list A) : list (nat * A) := zip (seq 0 (length l)) l.
Definition is_user (i : inst) : bool := match snd i with None => true | Some _ => false end.
Definition score_of (i : inst) : Q := match snd i with Some s => s | None => 0 end.

(* Labels.find(video): the frames of that video object, in order, with their positions *)
Definition frames_of (vi : nat) (fs : list lframe) : list (nat * lframe) :=
  filter (fun pf : nat * lframe => (lf_video (snd pf) =? vi)%nat) (enum fs).

(* Labels.find(video, frame_idx=i) = [Labels.get_frame(video, i)] (sleap-io >= 0.9: a dict keyed by
   (video, frame index) filled in frame order, so of several frames with the same key the LAST one is
   kept), hence the `len(labeled_frames_pr) == 1` test of find_frame_pairs never fails for a frame that
   exists.  State of the scan: (position of the next frame, last match so far). *)
Definition frame_matches (vi idx : nat) (f : lframe) : bool :=
  (lf_video f =? vi)%nat && (lf_idx f =? idx)%nat.
Definition scan_step (vi idx : nat) (st : nat * option (nat * lframe)) (f : lframe)
  : nat * option (nat * lframe) :=
  (S (fst st), if frame_matches vi idx f then Some (fst st, f) else snd st).
Definition get_frame (vi idx : nat) (fs : list lframe) : option (nat * lframe) :=
  snd (fold_left (scan_step vi idx) fs (0%nat, None)).

Fixpoint db_get (db : oksdb) (i j : nat) : smatrix :=
  match db with
  | [] => []
  | (a, b, M) :: t => if (a =? i)%nat && (b =? j)%nat then M else db_get t i j
  end.

Definition keep_rows {A} (flags : list bool) (l : list A) : list A :=
  map snd (filter (fun x : bool * A => fst x) (zip flags l)).

(* which instances of a gt frame take part: `lf.instances = lf.user_instances` with user_labels_only *)
Definition gt_flags (ulo : bool) (f : lframe) : list bool := map (fun x => negb ulo || is_user x) (lf_insts f).

(* one gt frame (position i) of a gt video paired with prediction video vp *)
Definition pair_frame (ulo : bool) (db : oksdb) (vp : nat) (prfs : list lframe) (gi : nat * lframe)
  : list ((nat * nat) * (gframe * pframe)) :=
  let '(i, f) := gi in
  let gts := keep_rows (gt_flags ulo f) (map fst (lf_insts f)) in
  if ulo && (length gts =? 0)%nat then []
  else match get_frame vp (lf_idx f) prfs with
       | None => []
       | Some (j, pf) =>
           [((i, j), ((lf_idx f, gts, keep_rows (gt_flags ulo f) (db_get db i j)),
                      (lf_idx pf, map fst (lf_insts pf), map score_of (lf_insts pf))))]
       end.

(* find_frame_pairs with the positions (gt frame, prediction frame) of every pair *)
Definition find_pairs_pos (ulo : bool) (db : oksdb) (gtL prL : labels)
  : list ((nat * nat) * (gframe * pframe)) :=
  flat_map (fun vk : nat * vkey =>
              match find_video (snd vk) (fst prL) 0 with
              | None => []                                       (* `continue`: no such prediction video *)
              | Some vp => flat_map (pair_frame ulo db vp (snd prL)) (frames_of (fst vk) (snd gtL))
              end) (enum (fst gtL)).

Definition find_pairs (ulo : bool) (db : oksdb) (gtL prL : labels) : list (gframe * pframe) :=
  map snd (find_pairs_pos ulo db gtL prL).

(* the side effect of find_frame_pairs(user_labels_only=True) on the gt labels: in every frame of a
   gt video that has a prediction video, `lf.instances` is overwritten by the user instances.  The
   OKS table follows (rows of dropped instances disappear). *)
Definition video_paired (gtL prL : labels) (f : lframe) : bool :=
  match nth_error (fst gtL) (lf_video f) with
  | Some k => match find_video k (fst prL) 0 with Some _ => true | None => false end
  | None => false
  end.
Definition strip (f : lframe) : lframe := LF (lf_video f) (lf_idx f) (filter is_user (lf_insts f)).
Definition mutate_gt (ulo : bool) (gtL prL : labels) : labels :=
  if ulo then (fst gtL, map (fun f => if video_paired gtL prL f then strip f else f) (snd gtL)) else gtL.
Definition mutate_db (ulo : bool) (gtL prL : labels) (db : oksdb) : oksdb :=
  if ulo then
    map (fun e : nat * nat * smatrix =>
           let '(i, j, M) := e in
           match nth_error (snd gtL) i with
           | Some f => if video_paired gtL prL f then (i, j, keep_rows (map is_user (lf_insts f)) M) else e
           | None => e
           end) db
  else db.

(* match_instances on one frame pair -> (positive pairs, number of false negatives) *)
Definition pairs_of_frame (fixed_F51 : bool) (thr : Q) (fp : gframe * pframe)
  : option (list ppair * nat) :=
  let '((_, gts, M), (_, prs, scores)) := fp in
  match match_instances fixed_F51 (length gts) scores M thr with
  | None => None
  | Some (ms, missed) =>
      Some (map (fun m : mpair =>
                   let '(g, p, v) := m in PP v (nth p scores 0) (nth g gts []) (nth p prs [])) ms,
            length missed)
  end.

Fixpoint match_frames (fixed_F51 : bool) (thr : Q) (fps : list (gframe * pframe))
  : option (list ppair * nat) :=
  match fps with
  | [] => Some ([], 0%nat)
  | fp :: rest =>
      match pairs_of_frame fixed_F51 thr fp, match_frames fixed_F51 thr rest with
      | Some (ps, fn), Some (ps', fn') => Some (ps ++ ps', (fn + fn')%nat)
      | _, _ => None
      end
  end.

(* Evaluator._process_frames *)
Definition process (fixed_F51 ulo : bool) (thr : Q) (db : oksdb) (gtL prL : labels)
  : outcome (list ppair * nat) :=
  match find_pairs ulo db gtL prL with
  | [] => ErrEmpty
  | fps => match match_frames fixed_F51 thr fps with
           | Some r => Ok r
           | None => ErrValue
           end
  end.

(* ---- compute_dists / pck_metrics ---- *)
Definition node_d2 (g p : pt) : option Q :=
  if missing g || missing p then None else Some (dist2 g p).

Fixpoint map2 {A B C} (f : A -> B -> C) (l : list A) (m : list B) : list C :=
  match l, m with
  | a :: l', b :: m' => f a b :: map2 f l' m'
  | _, _ => []
  end.

Definition pair_d2 (pp : ppair) : list (option Q) := map2 node_d2 (pp_g pp) (pp_p pp).

(* dist < t  (NaN -> inf -> false) *)
Definition within (t : Q) (d2 : option Q) : bool :=
  match d2 with
  | None => false
  | Some d => Qltb 0 t && Qltb d (t * t)
  end.

Definition b2q (b : bool) : Q := if b then 1 else 0.

(* pcks[pair][node][thr] *)
Definition pcks (pps : list ppair) (thrs : list Q) : list (list (list bool)) :=
  map (fun pp => map (fun d => map (fun t => within t d) thrs) (pair_d2 pp)) pps.

(* pcks.mean(axis=0).mean(axis=-1): per node, mean over thresholds of the mean over pairs *)
Definition pck_part (pps : list ppair) (thrs : list Q) (k : nat) : Q :=
  qmean (map (fun t => qmean (map (fun pp => b2q (within t (nth k (pair_d2 pp) None))) pps)) thrs).

Definition mpck_parts (n_nodes : nat) (pps : list ppair) (thrs : list Q) : list Q :=
  map (pck_part pps thrs) (seq 0 n_nodes).

Definition mpck (n_nodes : nat) (pps : list ppair) (thrs : list Q) : option Q :=
  match pps with [] => None | _ => Some (qmean (mpck_parts n_nodes pps thrs)) end.

(* PCK at one pixel threshold *)
Definition pck_at (n_nodes : nat) (pps : list ppair) (t : Q) : Q :=
  qmean (map (fun k => qmean (map (fun pp => b2q (within t (nth k (pair_d2 pp) None))) pps)) (seq 0 n_nodes)).

(* pcks.mean(-1).mean(-1): the per-pair match score of voc_metrics(match_score_by="pck") *)
Definition pck_pair_score (thrs : list Q) (pp : ppair) : Q :=
  qmean (map (fun d => qmean (map (fun t => b2q (within t d)) thrs)) (pair_d2 pp)).

(* ---- voc_metrics ---- *)
Fixpoint cumcount (f : Q -> bool) (l : list Q) (acc : nat) : list nat :=
  match l with
  | [] => []
  | x :: t => let a := if f x then S acc else acc in a :: cumcount f t a
  end.

Definition tp_list (t : Q) (ms : list Q) : list nat := cumcount (fun m => Qle_bool t m) ms 0.
Definition fp_list (t : Q) (ms : list Q) : list nat := cumcount (fun m => Qltb m t) ms 0.

Definition rc_list (rnd : Q -> Q) (npig : nat) (tps : list nat) : list Q :=
  map (fun tp => rnd (nq tp / nq npig)) tps.
Definition pr_list (tps fps : list nat) : list Q :=
  map2 (fun tp fp => nq tp / (nq fp + nq tp + eps)) tps fps.

(* for i in range(len(pr)-1, 0, -1): if pr[i] > pr[i-1]: pr[i-1] = pr[i] *)
Fixpoint envelope (l : list Q) : list Q :=
  match l with
  | [] => []
  | x :: t => match envelope t with
              | [] => [x]
              | y :: r => Qmax2 x y :: y :: r
              end
  end.

(* np.searchsorted(rc, r, side="left") on the non-decreasing rc *)
Fixpoint searchsorted (rc : list Q) (r : Q) : nat :=
  match rc with
  | [] => 0%nat
  | x :: t => if Qle_bool r x then 0%nat else S (searchsorted t r)
  end.

(* precision[is_valid] = pr[rc_inds[is_valid]], 0 elsewhere *)
Definition precision_at (env rc : list Q) (r : Q) : Q := nth (searchsorted rc r) env 0.

Record voc_row := VR { vr_env : list Q; vr_inds : list nat; vr_precisions : list Q; vr_recall : Q }.
(* AP = precisions.mean(axis=1): a function of the row (not stored, so that evaluating the
   model does not add up hundreds of rationals with 2^52-sized denominators) *)
Definition vr_ap (r : voc_row) : Q := qmean (vr_precisions r).

Definition voc_row_of (rnd : Q -> Q) (npig : nat) (ms : list Q) (rthrs : list Q) (t : Q) : voc_row :=
  let tps := tp_list t ms in
  let fps := fp_list t ms in
  let rc := rc_list rnd npig tps in
  let env := envelope (pr_list tps fps) in
  let precs := map (precision_at env rc) rthrs in
  VR env (map (searchsorted rc) rthrs) precs (last rc 0).

(* sort the pairs by detection score, descending, stable *)
Definition sort_by_score (det ms : list Q) : list Q :=
  map (fun i => nth i ms 0) (argsort_desc det).

Record voc := VOC { voc_scores : list Q; voc_rows : list voc_row }.
(* mAP = precisions.mean(), mAR = recalls.mean() *)
Definition voc_map (v : voc) : Q := qmean (concat (map vr_precisions (voc_rows v))).
Definition voc_mar (v : voc) : Q := qmean (map vr_recall (voc_rows v)).

(* None = the all-zero dictionary returned when there is no positive pair *)
Definition voc_metrics (rnd : Q -> Q) (match_scores : list Q) (pps : list ppair) (n_fn : nat)
  (mthrs rthrs : list Q) : option voc :=
  match pps with
  | [] => None
  | _ =>
      let ms := sort_by_score (map pp_score pps) match_scores in
      let npig := (length pps + n_fn)%nat in
      let rows := map (voc_row_of rnd npig ms rthrs) mthrs in
      Some (VOC ms rows)
  end.

(* ---- mOKS, visibility ---- *)
Definition moks (pps : list ppair) : option Q := omean (map pp_oks pps).

Definition count2 (f : pt -> pt -> bool) (pps : list ppair) : nat :=
  fold_right Nat.add 0%nat
    (map (fun pp => length (filter (fun b : bool => b) (map2 f (pp_g pp) (pp_p pp)))) pps).

Definition vis_counts (pps : list ppair) : nat * nat * nat * nat :=      (* tp, fp, tn, fn *)
  (count2 (fun g p => negb (missing g) && negb (missing p)) pps,
   count2 (fun g p => missing g && negb (missing p)) pps,
   count2 (fun g p => missing g && missing p) pps,
   count2 (fun g p => negb (missing g) && missing p) pps).

Definition ratio (a b : nat) : option Q :=
  match (a + b)%nat with O => None | _ => Some (nq a / nq (a + b)) end.

(* ---- evaluate ---- *)
Record report := REP {
  r_voc : option voc; r_moks : option Q; r_d2 : list (list (option Q));
  r_pcks : list (list (list bool)); r_parts : option (list Q); r_mpck : option Q;
  r_vis : nat * nat * nat * nat; r_vprec : option Q; r_vrec : option Q;
  r_nfn : nat; r_pckvoc : option voc }.

Definition report_of (rnd : Q -> Q) (n_nodes : nat) (pps : list ppair) (n_fn : nat)
  (mthrs rthrs pthrs : list Q) : report :=
  let '(tp, fp, tn, fn) := vis_counts pps in
  REP (voc_metrics rnd (map pp_oks pps) pps n_fn mthrs rthrs)
      (moks pps) (map pair_d2 pps) (pcks pps pthrs)
      (match pps with [] => None | _ => Some (mpck_parts n_nodes pps pthrs) end)
      (mpck n_nodes pps pthrs)
      (tp, fp, tn, fn) (ratio tp fp) (ratio tp fn) n_fn
      (voc_metrics rnd (map (pck_pair_score pthrs) pps) pps n_fn mthrs rthrs).

Definition evaluate (rnd : Q -> Q) (fixed_F51 ulo : bool) (thr : Q) (n_nodes : nat)
  (db : oksdb) (gtL prL : labels) (mthrs rthrs pthrs : list Q) : outcome report :=
  match process fixed_F51 ulo thr db gtL prL with
  | Ok (pps, n_fn) => Ok (report_of rnd n_nodes pps n_fn mthrs rthrs pthrs)
  | ErrEmpty => ErrEmpty
  | ErrValue => ErrValue
  end.

(* a second Evaluator built on the SAME label objects after Evaluator(user_labels_only = ulo1) *)
Definition evaluate_after (rnd : Q -> Q) (fixed_F51 ulo1 ulo2 : bool) (thr : Q) (n_nodes : nat)
  (db : oksdb) (gtL prL : labels) (mthrs rthrs pthrs : list Q) : outcome report :=
  evaluate rnd fixed_F51 ulo2 thr n_nodes (mutate_db ulo1 gtL prL db) (mutate_gt ulo1 gtL prL) prL
           mthrs rthrs pthrs.

(* recall at one match-score threshold straight from the pairs (equal to vr_recall,
   Lemmas.v): used to state the deletion theorems *)
Definition count_ge (t : Q) (l : list Q) : nat := length (filter (fun m => Qle_bool t m) l).
Definition recall_of (rnd : Q -> Q) (t : Q) (pps : list ppair) (n_fn : nat) : Q :=
  rnd (nq (count_ge t (map pp_oks pps)) / nq (length pps + n_fn)).

(* ---- clause (e): deleting predicted instance p of a frame pair, as the labels see it: the instance, its
   score and its column of the OKS matrix disappear and the later predictions move down by one ---- *)
Definition pop_col (p : nat) (M : smatrix) : smatrix := map (pop_at p) M.
Definition del_pred (p : nat) (fp : gframe * pframe) : gframe * pframe :=
  let '((i, gts, M), (j, prs, scores)) := fp in
  ((i, gts, pop_col p M), (j, pop_at p prs, pop_at p scores)).
(* index of a surviving prediction after / before the deletion of p *)
Definition down (p q : nat) : nat := if (q <? p)%nat then q else Nat.pred q.
Definition up (p q : nat) : nat := if (q <? p)%nat then q else S q.
(* the predictions processed after p in a processing order *)
Fixpoint after (p : nat) (o : list nat) : list nat :=
  match o with [] => [] | q :: t => if (q =? p)%nat then t else after p t end.

(* selector of finding F6, executable (LemmasDelete2.selector_F6b_iff: = LemmasDelete.selector_F6): the deleted
   prediction p was matched to a gt instance g and some prediction q processed later is eligible for g
   (OKS(g,q) > thr) and was itself unmatched or matched with an OKS <= OKS(g,q) *)
Definition selector_F6b (M : smatrix) (thr : Q) (p : nat) (o2 : list nat) (ms : list mpair) : bool :=
  existsb (fun m : mpair =>
     (snd (fst m) =? p)%nat &&
     existsb (fun q => match mget M (fst (fst m)) q with
                       | Some x => Qltb thr x &&
                                   forallb (fun m' : mpair => negb (snd (fst m') =? q)%nat || Qle_bool (snd m') x) ms
                       | None => false
                       end) o2) ms.
Definition frame_selector_F6 (thr : Q) (fp : gframe * pframe) (p : nat) : bool :=
  let '((_, gts, M), (_, _, scores)) := fp in
  let order := argsort_desc scores in
  selector_F6b M thr p (after p order) (fst (match_loop M thr order (seq 0 (length gts)))).
(* ... for prediction k of the prediction frame at position j of the prediction labels (every frame pair it is in) *)
Definition labels_selector_F6 (ulo : bool) (thr : Q) (db : oksdb) (gtL prL : labels) (j k : nat) : bool :=
  existsb (fun x : (nat * nat) * (gframe * pframe) =>
             (snd (fst x) =? j)%nat && frame_selector_F6 thr (snd x) k)
          (find_pairs_pos ulo db gtL prL).

(* ---- clause (a): selectors of findings F160 / F161 on a frame pair whose predictions are copies of the gt
   instances.  F160: a cross pair (gt i, copy of gt j), i <> j, whose OKS is not < 1 (two animals that coincide
   on the visible keypoints of one of them: the greedy matching may pair them crosswise).  F161: a gt instance
   without a visible keypoint (its OKS row is NaN: never matched, a false negative). ---- *)
Definition cross_ok (M : smatrix) (i j : nat) : bool :=
  (i =? j)%nat || match mget M i j with Some q => Qltb q 1 | None => true end.
Definition frame_selector_F160 (fp : gframe * pframe) : bool :=
  let '((_, gts, M), _) := fp in
  let n := length gts in
  negb (forallb (fun i => forallb (fun j => cross_ok M i j) (seq 0 n)) (seq 0 n)).
Definition frame_selector_F161 (fp : gframe * pframe) : bool :=
  let '((_, gts, _), _) := fp in existsb (fun g => (n_visible g =? 0)%nat) gts.
Definition labels_selector_F16x (ulo : bool) (db : oksdb) (gtL prL : labels) : bool * bool :=
  (existsb frame_selector_F160 (find_pairs ulo db gtL prL),
   existsb frame_selector_F161 (find_pairs ulo db gtL prL)).

(* ---- entry points for the correspondence harness ---- *)
Inductive case :=
| CEval (fixed_F51 ulo : bool) (thr : Q) (n_nodes : nat) (db : oksdb) (gtL prL : labels)
        (mthrs rthrs pthrs : list Q)
| CEval2 (fixed_F51 ulo1 ulo2 : bool) (thr : Q) (n_nodes : nat) (db : oksdb) (gtL prL : labels)
        (mthrs rthrs pthrs : list Q)
| CRnd (l : list Q)
| CSel (second : option bool) (ulo : bool) (thr : Q) (db : oksdb) (gtL prL : labels) (j k : nat)
| CSel60 (second : option bool) (ulo : bool) (db : oksdb) (gtL prL : labels).

Inductive result :=
| REval (r : outcome report)
| RRnd (l : list Q)
| RSel (b : bool)
| RSel2 (b : bool * bool).

Definition run (c : case) : result :=
  match c with
  | CEval f u t n d g p m r k => REval (evaluate round_f64 f u t n d g p m r k)
  | CEval2 f u u2 t n d g p m r k => REval (evaluate_after round_f64 f u u2 t n d g p m r k)
  | CRnd l => RRnd (map round_f64 l)
  | CSel None u t d g p j k => RSel (labels_selector_F6 u t d g p j k)
  | CSel (Some u2) u t d g p j k =>
      RSel (labels_selector_F6 u2 t (mutate_db u g p d) (mutate_gt u g p) p j k)
  | CSel60 None u d g p => RSel2 (labels_selector_F16x u d g p)
  | CSel60 (Some u2) u d g p => RSel2 (labels_selector_F16x u2 (mutate_db u g p d) (mutate_gt u g p) p)
  end.

From SV Require Import Base.Render.
From Coq Require Import String.
Definition rrow (r : voc_row) : rdr :=
  rpair (rpair (rlist rQ) (rlist rnat)) rQ ((vr_env r, vr_inds r), vr_recall r).
Definition rvoc (v : voc) : rdr :=
  rpair (rlist rQ) (rlist rrow) (voc_scores v, voc_rows v).
Definition rquad (q : nat * nat * nat * nat) : rdr :=
  let '(a, b, c, d) := q in rlist rnat [a; b; c; d].
Definition rreport (r : report) : rdr :=
  rlist (fun x : rdr => x)
    [ropt rvoc (r_voc r); ropt rQ (r_moks r); rlist (rlist (ropt rQ)) (r_d2 r);
     rlist (rlist (rlist rbool)) (r_pcks r); ropt (rlist rQ) (r_parts r); ropt rQ (r_mpck r);
     rquad (r_vis r); ropt rQ (r_vprec r); ropt rQ (r_vrec r); rnat (r_nfn r); ropt rvoc (r_pckvoc r)].
Definition rresult (r : result) : rdr :=
  match r with
  | REval (Ok rep) => rreport rep
  | REval ErrEmpty => rquoted "ErrEmpty"%string
  | REval ErrValue => rquoted "ErrValue"%string
  | RRnd l => rlist rQ l
  | RSel b => rbool b
  | RSel2 b => rpair rbool rbool b
  end.
