(* Metrics.v — executable model of sleap_nn/evaluation.py: find_frame_pairs,
   match_frame_pairs, compute_dists and Evaluator.{voc_metrics, mOKS,
   distance_metrics, pck_metrics, visibility_metrics, evaluate}.
   No proofs in this file.  match_instances is the model of C15 (Oks.v).

   Numbers: exact rationals.  The OKS of a (gt, prediction) pair enters as a
   rational score matrix (the float64 values compute_oks returned, which are
   rationals); None = NaN.  Distances: the model holds *squared* distances
   (`np.linalg.norm` = sqrt of a rational); `dist < t` is decided as
   `0 < t /\ d2 < t^2`.  The only float64 rounding that decides a discrete
   outcome is `rc = tp / npig` inside `np.searchsorted(rc, recall_thresholds)`:
   it is a parameter `rnd : Q -> Q` of the model (contract used by the theorems:
   monotone, rnd 0 = 0, rnd 1 = 1); the executable instance is `round_f64`
   (round-to-nearest-even to 53 bits).  All other float operations are compared
   within tolerance.  eps = np.spacing(1) = 2^-52. *)
From Coq Require Import List Arith ZArith QArith Bool.
Import ListNotations.
From SV Require Import C15.Oks.
Open Scope Q_scope.

Definition nq (n : nat) : Q := inject_Z (Z.of_nat n).
(* sums are kept in lowest terms (Qred q == q) so that model evaluation stays fast *)
Definition qadd (a b : Q) : Q := Qred (a + b).
Definition qsum (l : list Q) : Q := fold_right qadd 0 l.
(* arithmetic mean; callers guard the empty case (numpy gives NaN there) *)
Definition qmean (l : list Q) : Q := qsum l / nq (length l).
Definition omean (l : list Q) : option Q := match l with [] => None | _ => Some (qmean l) end.

(* ---- float64 rounding of a non-negative rational (round to nearest, ties to even) ---- *)
Definition round_half_even (q : Q) : Z :=
  let n := Qnum q in
  let d := Zpos (Qden q) in
  let fl := (n / d)%Z in
  match (2 * (n - fl * d) ?= d)%Z with
  | Lt => fl
  | Gt => (fl + 1)%Z
  | Eq => if Z.even fl then fl else (fl + 1)%Z
  end.

Definition pow2 (e : Z) : Q :=
  if (0 <=? e)%Z then inject_Z (2 ^ e) else / inject_Z (2 ^ (- e)).

Definition round_f64 (q : Q) : Q :=
  match Qnum q with
  | Zpos n =>
      let k := (Z.log2 (Zpos n) - Z.log2 (Zpos (Qden q)))%Z in
      let e0 := (52 - k)%Z in
      let e := if Qle_bool (inject_Z (2 ^ 52)) (q * pow2 e0) then e0 else (e0 + 1)%Z in
      Qred (inject_Z (round_half_even (q * pow2 e)) * pow2 (- e))
  | _ => q                      (* 0 stays 0; negative inputs do not occur *)
  end.

(* ---- frames ---- *)
Definition gframe := (nat * list pose * smatrix)%type.   (* frame_idx, user instances, OKS matrix
                                                           against the prediction frame of the same index *)
Definition pframe := (nat * list pose * list Q)%type.    (* frame_idx, predicted instances, their scores *)

Record ppair := PP { pp_oks : Q; pp_score : Q; pp_g : pose; pp_p : pose }.

Inductive outcome (A : Type) := Ok (a : A) | ErrEmpty | ErrValue.
Arguments Ok {A} a.
Arguments ErrEmpty {A}.
Arguments ErrValue {A}.

(* find_frame_pairs: gt frames in order; with user_labels_only frames without user
   instances are skipped; a gt frame is paired when exactly one prediction frame
   carries the same frame index *)
Definition find_pairs (ulo : bool) (gtf : list gframe) (prf : list pframe) : list (gframe * pframe) :=
  flat_map (fun gf : gframe =>
              let '(idx, gts, _) := gf in
              if ulo && (length gts =? 0)%nat then []
              else match filter (fun pf : pframe => (fst (fst pf) =? idx)%nat) prf with
                   | [pf] => [(gf, pf)]
                   | _ => []
                   end) gtf.

(* match_instances on one frame pair -> (positive pairs, number of false negatives) *)
Definition pairs_of_frame (fixed_F51 : bool) (thr : Q) (fp : gframe * pframe)
  : option (list ppair * nat) :=
  let '((_, gts, M), (_, prs, scores)) := fp in
  match match_instances fixed_F51 (length gts) scores M thr with
  | None => None
  | Some (ms, missed) =>
      Some (map (fun m : mpair =>
                   let '(g, p, v) := m in PP v (nth p scores 0) (nth g gts []) (nth p prs [])) ms,
            length missed)
  end.

Fixpoint match_frames (fixed_F51 : bool) (thr : Q) (fps : list (gframe * pframe))
  : option (list ppair * nat) :=
  match fps with
  | [] => Some ([], 0%nat)
  | fp :: rest =>
      match pairs_of_frame fixed_F51 thr fp, match_frames fixed_F51 thr rest with
      | Some (ps, fn), Some (ps', fn') => Some (ps ++ ps', (fn + fn')%nat)
      | _, _ => None
      end
  end.

(* Evaluator._process_frames *)
Definition process (fixed_F51 ulo : bool) (thr : Q) (gtf : list gframe) (prf : list pframe)
  : outcome (list ppair * nat) :=
  match find_pairs ulo gtf prf with
  | [] => ErrEmpty
  | fps => match match_frames fixed_F51 thr fps with
           | Some r => Ok r
           | None => ErrValue
           end
  end.

(* ---- compute_dists / pck_metrics ---- *)
Definition node_d2 (g p : pt) : option Q :=
  if missing g || missing p then None else Some (dist2 g p).

Fixpoint map2 {A B C} (f : A -> B -> C) (l : list A) (m : list B) : list C :=
  match l, m with
  | a :: l', b :: m' => f a b :: map2 f l' m'
  | _, _ => []
  end.

Definition pair_d2 (pp : ppair) : list (option Q) := map2 node_d2 (pp_g pp) (pp_p pp).

(* dist < t  (NaN -> inf -> false) *)
Definition within (t : Q) (d2 : option Q) : bool :=
  match d2 with
  | None => false
  | Some d => Qltb 0 t && Qltb d (t * t)
  end.

Definition b2q (b : bool) : Q := if b then 1 else 0.

(* pcks[pair][node][thr] *)
Definition pcks (pps : list ppair) (thrs : list Q) : list (list (list bool)) :=
  map (fun pp => map (fun d => map (fun t => within t d) thrs) (pair_d2 pp)) pps.

(* pcks.mean(axis=0).mean(axis=-1): per node, mean over thresholds of the mean over pairs *)
Definition pck_part (pps : list ppair) (thrs : list Q) (k : nat) : Q :=
  qmean (map (fun t => qmean (map (fun pp => b2q (within t (nth k (pair_d2 pp) None))) pps)) thrs).

Definition mpck_parts (n_nodes : nat) (pps : list ppair) (thrs : list Q) : list Q :=
  map (pck_part pps thrs) (seq 0 n_nodes).

Definition mpck (n_nodes : nat) (pps : list ppair) (thrs : list Q) : option Q :=
  match pps with [] => None | _ => Some (qmean (mpck_parts n_nodes pps thrs)) end.

(* PCK at one pixel threshold *)
Definition pck_at (n_nodes : nat) (pps : list ppair) (t : Q) : Q :=
  qmean (map (fun k => qmean (map (fun pp => b2q (within t (nth k (pair_d2 pp) None))) pps)) (seq 0 n_nodes)).

(* pcks.mean(-1).mean(-1): the per-pair match score of voc_metrics(match_score_by="pck") *)
Definition pck_pair_score (thrs : list Q) (pp : ppair) : Q :=
  qmean (map (fun d => qmean (map (fun t => b2q (within t d)) thrs)) (pair_d2 pp)).

(* ---- voc_metrics ---- *)
Fixpoint cumcount (f : Q -> bool) (l : list Q) (acc : nat) : list nat :=
  match l with
  | [] => []
  | x :: t => let a := if f x then S acc else acc in a :: cumcount f t a
  end.

Definition tp_list (t : Q) (ms : list Q) : list nat := cumcount (fun m => Qle_bool t m) ms 0.
Definition fp_list (t : Q) (ms : list Q) : list nat := cumcount (fun m => Qltb m t) ms 0.

Definition rc_list (rnd : Q -> Q) (npig : nat) (tps : list nat) : list Q :=
  map (fun tp => rnd (nq tp / nq npig)) tps.
Definition pr_list (tps fps : list nat) : list Q :=
  map2 (fun tp fp => nq tp / (nq fp + nq tp + eps)) tps fps.

(* for i in range(len(pr)-1, 0, -1): if pr[i] > pr[i-1]: pr[i-1] = pr[i] *)
Fixpoint envelope (l : list Q) : list Q :=
  match l with
  | [] => []
  | x :: t => match envelope t with
              | [] => [x]
              | y :: r => Qmax2 x y :: y :: r
              end
  end.

(* np.searchsorted(rc, r, side="left") on the non-decreasing rc *)
Fixpoint searchsorted (rc : list Q) (r : Q) : nat :=
  match rc with
  | [] => 0%nat
  | x :: t => if Qle_bool r x then 0%nat else S (searchsorted t r)
  end.

(* precision[is_valid] = pr[rc_inds[is_valid]], 0 elsewhere *)
Definition precision_at (env rc : list Q) (r : Q) : Q := nth (searchsorted rc r) env 0.

Record voc_row := VR { vr_env : list Q; vr_inds : list nat; vr_precisions : list Q; vr_recall : Q }.
(* AP = precisions.mean(axis=1): a function of the row (not stored, so that evaluating the
   model does not add up hundreds of rationals with 2^52-sized denominators) *)
Definition vr_ap (r : voc_row) : Q := qmean (vr_precisions r).

Definition voc_row_of (rnd : Q -> Q) (npig : nat) (ms : list Q) (rthrs : list Q) (t : Q) : voc_row :=
  let tps := tp_list t ms in
  let fps := fp_list t ms in
  let rc := rc_list rnd npig tps in
  let env := envelope (pr_list tps fps) in
  let precs := map (precision_at env rc) rthrs in
  VR env (map (searchsorted rc) rthrs) precs (last rc 0).

(* sort the pairs by detection score, descending, stable *)
Definition sort_by_score (det ms : list Q) : list Q :=
  map (fun i => nth i ms 0) (argsort_desc det).

Record voc := VOC { voc_scores : list Q; voc_rows : list voc_row }.
(* mAP = precisions.mean(), mAR = recalls.mean() *)
Definition voc_map (v : voc) : Q := qmean (concat (map vr_precisions (voc_rows v))).
Definition voc_mar (v : voc) : Q := qmean (map vr_recall (voc_rows v)).

(* None = the all-zero dictionary returned when there is no positive pair *)
Definition voc_metrics (rnd : Q -> Q) (match_scores : list Q) (pps : list ppair) (n_fn : nat)
  (mthrs rthrs : list Q) : option voc :=
  match pps with
  | [] => None
  | _ =>
      let ms := sort_by_score (map pp_score pps) match_scores in
      let npig := (length pps + n_fn)%nat in
      let rows := map (voc_row_of rnd npig ms rthrs) mthrs in
      Some (VOC ms rows)
  end.

(* ---- mOKS, visibility ---- *)
Definition moks (pps : list ppair) : option Q := omean (map pp_oks pps).

Definition count2 (f : pt -> pt -> bool) (pps : list ppair) : nat :=
  fold_right Nat.add 0%nat
    (map (fun pp => length (filter (fun b : bool => b) (map2 f (pp_g pp) (pp_p pp)))) pps).

Definition vis_counts (pps : list ppair) : nat * nat * nat * nat :=      (* tp, fp, tn, fn *)
  (count2 (fun g p => negb (missing g) && negb (missing p)) pps,
   count2 (fun g p => missing g && negb (missing p)) pps,
   count2 (fun g p => missing g && missing p) pps,
   count2 (fun g p => negb (missing g) && missing p) pps).

Definition ratio (a b : nat) : option Q :=
  match (a + b)%nat with O => None | _ => Some (nq a / nq (a + b)) end.

(* ---- evaluate ---- *)
Record report := REP {
  r_voc : option voc; r_moks : option Q; r_d2 : list (list (option Q));
  r_pcks : list (list (list bool)); r_parts : option (list Q); r_mpck : option Q;
  r_vis : nat * nat * nat * nat; r_vprec : option Q; r_vrec : option Q;
  r_nfn : nat; r_pckvoc : option voc }.

Definition report_of (rnd : Q -> Q) (n_nodes : nat) (pps : list ppair) (n_fn : nat)
  (mthrs rthrs pthrs : list Q) : report :=
  let '(tp, fp, tn, fn) := vis_counts pps in
  REP (voc_metrics rnd (map pp_oks pps) pps n_fn mthrs rthrs)
      (moks pps) (map pair_d2 pps) (pcks pps pthrs)
      (match pps with [] => None | _ => Some (mpck_parts n_nodes pps pthrs) end)
      (mpck n_nodes pps pthrs)
      (tp, fp, tn, fn) (ratio tp fp) (ratio tp fn) n_fn
      (voc_metrics rnd (map (pck_pair_score pthrs) pps) pps n_fn mthrs rthrs).

Definition evaluate (rnd : Q -> Q) (fixed_F51 ulo : bool) (thr : Q) (n_nodes : nat)
  (gtf : list gframe) (prf : list pframe) (mthrs rthrs pthrs : list Q) : outcome report :=
  match process fixed_F51 ulo thr gtf prf with
  | Ok (pps, n_fn) => Ok (report_of rnd n_nodes pps n_fn mthrs rthrs pthrs)
  | ErrEmpty => ErrEmpty
  | ErrValue => ErrValue
  end.

(* recall at one match-score threshold straight from the pairs (equal to vr_recall,
   Lemmas.v): used to state the deletion theorems *)
Definition count_ge (t : Q) (l : list Q) : nat := length (filter (fun m => Qle_bool t m) l).
Definition recall_of (rnd : Q -> Q) (t : Q) (pps : list ppair) (n_fn : nat) : Q :=
  rnd (nq (count_ge t (map pp_oks pps)) / nq (length pps + n_fn)).

(* ---- entry points for the correspondence harness ---- *)
Inductive case :=
| CEval (fixed_F51 ulo : bool) (thr : Q) (n_nodes : nat) (gtf : list gframe) (prf : list pframe)
        (mthrs rthrs pthrs : list Q)
| CRnd (l : list Q).

Inductive result :=
| REval (r : outcome report)
| RRnd (l : list Q).

Definition run (c : case) : result :=
  match c with
  | CEval f u t n g p m r k => REval (evaluate round_f64 f u t n g p m r k)
  | CRnd l => RRnd (map round_f64 l)
  end.

From SV Require Import Base.Render.
From Coq Require Import String.
Definition rrow (r : voc_row) : rdr :=
  rpair (rpair (rlist rQ) (rlist rnat)) rQ ((vr_env r, vr_inds r), vr_recall r).
Definition rvoc (v : voc) : rdr :=
  rpair (rlist rQ) (rlist rrow) (voc_scores v, voc_rows v).
Definition rquad (q : nat * nat * nat * nat) : rdr :=
  let '(a, b, c, d) := q in rlist rnat [a; b; c; d].
Definition rreport (r : report) : rdr :=
  rlist (fun x : rdr => x)
    [ropt rvoc (r_voc r); ropt rQ (r_moks r); rlist (rlist (ropt rQ)) (r_d2 r);
     rlist (rlist (rlist rbool)) (r_pcks r); ropt (rlist rQ) (r_parts r); ropt rQ (r_mpck r);
     rquad (r_vis r); ropt rQ (r_vprec r); ropt rQ (r_vrec r); rnat (r_nfn r); ropt rvoc (r_pckvoc r)].
Definition rresult (r : result) : rdr :=
  match r with
  | REval (Ok rep) => rreport rep
  | REval ErrEmpty => rquoted "ErrEmpty"%string
  | REval ErrValue => rquoted "ErrValue"%string
  | RRnd l => rlist rQ l
  end.
