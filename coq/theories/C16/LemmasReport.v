(* LemmasReport.v (C16, review round 4) — composition lemmas:
   * the hypothesis `perfect_frame` of clause (a) follows, on a frame pair whose predictions are copies
     of the gt instances, from the complement of the two selectors frame_selector_F160 / F161;
   * clause (a) at the level of `evaluate` (the report of Evaluator.evaluate()): mOKS, distances,
     recall, AP, mAP, mAR;
   * every OKS of a positive pair is an entry of its frame's matrix (C15 match_instances_spec), hence
     mOKS in [0,1] when the matrices are;
   * `pck_at` = `mpck` on a one-threshold grid. *)
From Coq Require Import List Arith ZArith QArith Bool Permutation Lia Lqa.
Import ListNotations.
From SV Require Import C15.Oks C15.Lemmas C16.Metrics C16.Lemmas C16.LemmasPairs C16.LemmasDelete C16.LemmasDelete2.
Local Open Scope Q_scope.

(* a frame pair whose predicted instances are exact copies of the gt instances, in order; the diagonal
   of the OKS matrix is 1 wherever the gt instance has a visible keypoint (C15: c15_oks_identical; the
   matrix itself is an oracle input: the float64 values compute_oks returned) *)
Definition copy_frame (fp : gframe * pframe) : Prop :=
  let '((_, gts, M), (_, prs, scores)) := fp in
  prs = gts /\ length scores = length gts /\
  (forall i g, nth_error gts i = Some g -> (1 <= n_visible g)%nat -> mget M i i = Some 1).

Lemma perfect_frame_of_selectors fp :
  copy_frame fp -> frame_selector_F160 fp = false -> frame_selector_F161 fp = false -> perfect_frame fp.
Proof.
  destruct fp as [[[gi gts] M] [[pi prs] scores]].
  cbn [copy_frame perfect_frame frame_selector_F160 frame_selector_F161].
  intros [Hprs [Hlen Hdiag]] H160 H161. split; [exact Hprs|]. split; [exact Hlen|]. split.
  - intros i Hi. destruct (nth_error gts i) as [g|] eqn:E; [|apply nth_error_None in E; lia].
    apply (Hdiag i g E).
    destruct (n_visible g) as [|k] eqn:Ev; [|lia]. exfalso.
    assert (Hex : existsb (fun g0 => (n_visible g0 =? 0)%nat) gts = true).
    { apply existsb_exists. exists g. split; [eapply nth_error_In; exact E|]. rewrite Ev. reflexivity. }
    rewrite Hex in H161. discriminate.
  - intros i j Hi Hj Hij. apply negb_false_iff in H160.
    rewrite forallb_forall in H160. specialize (H160 i ltac:(apply in_seq; lia)).
    rewrite forallb_forall in H160. specialize (H160 j ltac:(apply in_seq; lia)).
    unfold cross_ok in H160. apply Nat.eqb_neq in Hij. rewrite Hij in H160. cbn [orb] in H160.
    destruct (mget M i j) as [q|]; [|exact I]. apply Qltb_true. exact H160.
Qed.

(* ---- every OKS of a positive pair is an entry of its frame's matrix, above the match threshold ---- *)
Definition frame_M (fp : gframe * pframe) : smatrix := snd (fst fp).

Lemma pairs_of_frame_entries fx thr fp ps fn :
  pairs_of_frame fx thr fp = Some (ps, fn) ->
  Forall (fun pp => exists g p, mget (frame_M fp) g p = Some (pp_oks pp) /\ eligible thr (pp_oks pp)) ps.
Proof.
  destruct fp as [[[gi gts] M] [[pi prs] scores]]. unfold pairs_of_frame, frame_M. cbn [fst snd].
  destruct (match_instances fx (length gts) scores M thr) as [[ms missed]|] eqn:E; [|discriminate].
  intros H. inversion H; subst. clear H.
  apply match_instances_spec in E. destruct E as [_ [_ [_ Hall]]].
  apply Forall_forall. intros pp Hpp. apply in_map_iff in Hpp. destruct Hpp as [[[g p] v] [Hpp Hin]]. subst pp.
  rewrite Forall_forall in Hall. destruct (Hall _ Hin) as [_ [_ [Hm He]]].
  exists g, p. cbn [pp_oks]. split; [exact Hm|exact He].
Qed.

Lemma match_frames_entries fx thr : forall fps pps nfn,
  match_frames fx thr fps = Some (pps, nfn) ->
  Forall (fun pp => exists fp g p, In fp fps /\ mget (frame_M fp) g p = Some (pp_oks pp) /\
                                   eligible thr (pp_oks pp)) pps.
Proof.
  induction fps as [|fp fps IH]; intros pps nfn H; cbn [match_frames] in H.
  - inversion H; subst. constructor.
  - destruct (pairs_of_frame fx thr fp) as [[ps fn]|] eqn:E1; [|discriminate].
    destruct (match_frames fx thr fps) as [[ps' fn']|] eqn:E2; [|discriminate].
    inversion H; subst. clear H. apply Forall_app. split.
    + eapply Forall_impl; [|eapply pairs_of_frame_entries; exact E1].
      intros pp [g [p [H1 H2]]]. exists fp, g, p. split; [left; reflexivity|]. split; assumption.
    + eapply Forall_impl; [|eapply IH; reflexivity].
      intros pp [fp' [g [p [H0 [H1 H2]]]]]. exists fp', g, p. split; [right; exact H0|]. split; assumption.
Qed.

Lemma process_pairs_entries fx ulo thr db gtL prL pps nfn :
  process fx ulo thr db gtL prL = Ok (pps, nfn) ->
  Forall (fun pp => exists fp g p, In fp (find_pairs ulo db gtL prL) /\
                                   mget (frame_M fp) g p = Some (pp_oks pp) /\ eligible thr (pp_oks pp)) pps.
Proof.
  unfold process. destruct (find_pairs ulo db gtL prL) as [|fp0 fps] eqn:E; [discriminate|].
  destruct (match_frames fx thr (fp0 :: fps)) as [[pps' nfn']|] eqn:Em; [|discriminate].
  intros H. inversion H; subst. eapply match_frames_entries. exact Em.
Qed.

Lemma process_moks_bounds fx ulo thr db gtL prL pps nfn q :
  process fx ulo thr db gtL prL = Ok (pps, nfn) ->
  (forall fp g p x, In fp (find_pairs ulo db gtL prL) -> mget (frame_M fp) g p = Some x -> 0 <= x <= 1) ->
  moks pps = Some q -> 0 <= q <= 1.
Proof.
  intros Hp Hdb Hq. eapply moks_bounds; [|exact Hq].
  eapply Forall_impl; [|eapply process_pairs_entries; exact Hp].
  intros pp [fp [g [p [Hin [Hm _]]]]]. eapply Hdb; eassumption.
Qed.

(* ---- clause (a) at the level of the report ---- *)
Section PerfectReport.
  Variable rnd : Q -> Q.
  Hypothesis rnd_mono : forall a b, a <= b -> rnd a <= rnd b.
  Hypothesis rnd_1 : rnd 1 == 1.

  Lemma perfect_report fx ulo thr n db gtL prL mthrs rthrs pthrs :
    Forall perfect_frame (find_pairs ulo db gtL prL) ->
    concat (map frame_gts (find_pairs ulo db gtL prL)) <> [] ->
    thr < 1 -> mthrs <> [] -> rthrs <> [] ->
    Forall (fun t => t <= 1) mthrs -> Forall (fun r => r <= 1) rthrs ->
    exists rep v q,
      evaluate rnd fx ulo thr n db gtL prL mthrs rthrs pthrs = Ok rep /\
      r_nfn rep = 0%nat /\
      r_moks rep = Some q /\ q == 1 /\
      Forall (Forall (fun d => match d with None => True | Some x => x == 0 end)) (r_d2 rep) /\
      r_voc rep = Some v /\
      Forall (fun row => vr_recall row == 1 /\ / (1 + eps) <= vr_ap row <= 1) (voc_rows v) /\
      / (1 + eps) <= voc_map v <= 1 /\ voc_mar v == 1.
  Proof.
    intros Hpf Hne Hthr Hm Hr Hm1 Hr1.
    destruct (match_frames_perfect fx thr _ Hpf Hthr) as [pps [Hmf [Hpp Hperm]]].
    assert (Hpps : pps <> []).
    { intros E. subst pps. cbn in Hperm. apply Permutation_nil in Hperm. contradiction. }
    assert (Hfp : find_pairs ulo db gtL prL <> []).
    { intros E. rewrite E in Hne. apply Hne. reflexivity. }
    unfold evaluate, process. destruct (find_pairs ulo db gtL prL) as [|fp0 fps] eqn:Efp; [contradiction|].
    rewrite Hmf. unfold report_of. destruct (vis_counts pps) as [[[tp fp] tn] fn].
    destruct (voc_metrics rnd (map pp_oks pps) pps 0 mthrs rthrs) as [v|] eqn:Ev;
      [|unfold voc_metrics in Ev; destruct pps; [contradiction|discriminate]].
    destruct (moks pps) as [q|] eqn:Eq;
      [|unfold moks, omean in Eq; destruct pps; [contradiction|discriminate]].
    eexists. exists v, q. split; [reflexivity|]. cbn [r_nfn r_moks r_d2 r_voc].
    split; [reflexivity|]. split; [reflexivity|]. split.
    { eapply moks_perfect; [|exact Eq]. eapply Forall_impl; [|exact Hpp].
      intros pp [H1 _]. rewrite H1. reflexivity. }
    split.
    { apply Forall_forall. intros l Hl. apply in_map_iff in Hl. destruct Hl as [pp [Hl Hin]]. subst l.
      apply pair_d2_perfect. rewrite Forall_forall in Hpp. apply (Hpp pp Hin). }
    split; [reflexivity|].
    pose proof (voc_metrics_perfect rnd rnd_mono rnd_1 pps mthrs rthrs v Hpp Ev Hm1 Hr1) as Hrows.
    destruct (voc_metrics_rows _ _ _ _ _ _ _ Ev) as [Hrw [Hmap [Hmar _]]].
    assert (Hprec_ne : forall row, In row (voc_rows v) -> vr_precisions row <> []).
    { intros row Hrow. rewrite Hrw in Hrow. apply in_map_iff in Hrow. destruct Hrow as [t [Hrow _]]. subst row.
      unfold voc_row_of. cbn [vr_precisions]. destruct rthrs; [contradiction|discriminate]. }
    assert (Hrows_ne : voc_rows v <> []).
    { rewrite Hrw. destruct mthrs; [contradiction|discriminate]. }
    assert (Hlo : 0 < / (1 + eps)) by (apply Qinv_lt_0_compat; unfold eps; reflexivity).
    split.
    { rewrite Forall_forall in Hrows. apply Forall_forall. intros row Hrow.
      destruct (Hrows row Hrow) as [H1 H2]. split; [exact H1|].
      unfold vr_ap. apply qmean_bounds_ne; [apply Hprec_ne; exact Hrow|exact H2]. }
    split.
    { rewrite Hmap. apply qmean_bounds_ne.
      - destruct (voc_rows v) as [|r0 rs] eqn:Er; [contradiction|]. cbn [map concat].
        pose proof (Hprec_ne r0 (or_introl eq_refl)) as H0. destruct (vr_precisions r0); [contradiction|discriminate].
      - apply Forall_forall. intros x Hx. apply in_concat in Hx. destruct Hx as [l [Hl Hx]].
        apply in_map_iff in Hl. destruct Hl as [row [Hl Hrow]]. subst l.
        rewrite Forall_forall in Hrows. destruct (Hrows row Hrow) as [_ H2]. rewrite Forall_forall in H2. apply H2. exact Hx. }
    { rewrite Hmar. assert (H : 1 <= qmean (map vr_recall (voc_rows v)) <= 1); [|lra].
      apply qmean_bounds_ne.
      - destruct (voc_rows v); [contradiction|discriminate].
      - apply Forall_forall. intros x Hx. apply in_map_iff in Hx. destruct Hx as [row [Hx Hrow]]. subst x.
        rewrite Forall_forall in Hrows. destruct (Hrows row Hrow) as [H1 _]. lra. }
  Qed.
End PerfectReport.

(* ---- pck_at (PCK at one pixel threshold) is mpck on the one-element grid ---- *)
Lemma qmean_single x : qmean [x] == x.
Proof. unfold qmean. cbn [qsum fold_right length]. rewrite qadd_eq. unfold nq. cbn. field. Qed.

Lemma qmean_ext_eq {A} (f g : A -> Q) l :
  (forall x, In x l -> f x == g x) -> qmean (map f l) == qmean (map g l).
Proof.
  intros H. apply Qle_antisym; apply qmean_mono; apply Forall2_map_same; intros x Hx; rewrite (H x Hx); apply Qle_refl.
Qed.

Lemma mpck_single n pps t : pps <> [] ->
  exists q, mpck n pps [t] = Some q /\ q == pck_at n pps t.
Proof.
  intros Hne. unfold mpck. destruct pps as [|pp pps]; [contradiction|].
  eexists. split; [reflexivity|]. unfold mpck_parts, pck_at.
  apply qmean_ext_eq. intros k _. unfold pck_part. cbn [map]. apply qmean_single.
Qed.

(* ---- clause (e) at the level of the report: frame pairs after the deletion are the frame pairs before
   with, in some of them, one predicted instance deleted outside selector F6 (`deleted_in`,
   LemmasDelete2); then no reported recall grows ---- *)
Lemma evaluate_ok_inv rnd fx ulo thr n db gtL prL m r k rep :
  evaluate rnd fx ulo thr n db gtL prL m r k = Ok rep ->
  exists pps nfn, match_frames fx thr (find_pairs ulo db gtL prL) = Some (pps, nfn) /\
                  r_voc rep = voc_metrics rnd (map pp_oks pps) pps nfn m r.
Proof.
  unfold evaluate, process. destruct (find_pairs ulo db gtL prL) as [|fp0 fps] eqn:E; [discriminate|].
  destruct (match_frames fx thr (fp0 :: fps)) as [[pps nfn]|] eqn:Em; [|discriminate].
  intros H. inversion H; subst. exists pps, nfn. split; [reflexivity|].
  unfold report_of. destruct (vis_counts pps) as [[[tp fp] tn] fn]. reflexivity.
Qed.

Lemma evaluate_delete rnd : (forall a b, a <= b -> rnd a <= rnd b) ->
  forall fx ulo thr n db gtL prL db' prL' m r k rep rep' v v',
  Forall2 (deleted_in thr) (find_pairs ulo db gtL prL) (find_pairs ulo db' gtL prL') ->
  evaluate rnd fx ulo thr n db gtL prL m r k = Ok rep ->
  evaluate rnd fx ulo thr n db' gtL prL' m r k = Ok rep' ->
  r_voc rep = Some v -> r_voc rep' = Some v' ->
  Forall2 (fun row' row => vr_recall row' <= vr_recall row) (voc_rows v') (voc_rows v).
Proof.
  intros Hm fx ulo thr n db gtL prL db' prL' m r k rep rep' v v' Hdel He He' Hv Hv'.
  destruct (evaluate_ok_inv _ _ _ _ _ _ _ _ _ _ _ _ He) as [pps [nfn [Hmf Hvoc]]].
  destruct (evaluate_ok_inv _ _ _ _ _ _ _ _ _ _ _ _ He') as [pps' [nfn' [Hmf' Hvoc']]].
  rewrite Hvoc in Hv. rewrite Hvoc' in Hv'.
  destruct (voc_metrics_rows _ _ _ _ _ _ _ Hv) as [Hr [_ [_ Hne]]].
  destruct (voc_metrics_rows _ _ _ _ _ _ _ Hv') as [Hr' [_ [_ Hne']]].
  rewrite Hr, Hr'. clear Hr Hr' Hv Hv' Hvoc Hvoc' He He'.
  induction m as [|t m IH]; cbn [map]; constructor; [|exact IH].
  rewrite (voc_recall_is_count rnd pps' nfn' r t Hne'), (voc_recall_is_count rnd pps nfn r t Hne).
  eapply recall_after_delete; eassumption.
Qed.
