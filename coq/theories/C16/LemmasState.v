(* LemmasState.v (C16) — the side effect of find_frame_pairs(user_labels_only=True) on the gt labels
   (`lf.instances = lf.user_instances`) is idempotent: a second Evaluator with the same option built on
   the same label objects forms exactly the same frame pairs (hence the same report). *)
From Coq Require Import List Arith ZArith QArith Bool Lia.
Import ListNotations.
From SV Require Import C15.Oks C16.Metrics C16.LemmasPairs.

Lemma keep_rows_cons {A} b (flags : list bool) (x : A) l :
  keep_rows (b :: flags) (x :: l) = if b then x :: keep_rows flags l else keep_rows flags l.
Proof. unfold keep_rows. cbn [zip filter fst]. destruct b; reflexivity. Qed.

Lemma keep_rows_nil_r {A} flags : keep_rows flags (@nil A) = [].
Proof. destruct flags; reflexivity. Qed.

Lemma keep_rows_user (l : list inst) : keep_rows (map is_user l) (map fst l) = map fst (filter is_user l).
Proof.
  induction l as [|x l IH]; [reflexivity|]. cbn [map filter]. rewrite keep_rows_cons, IH.
  destruct (is_user x); reflexivity.
Qed.

Lemma keep_rows_all_true {A} : forall flags (l : list A),
  Forall (fun b => b = true) flags -> (length l <= length flags)%nat -> keep_rows flags l = l.
Proof.
  induction flags as [|b flags IH]; intros l Hf Hl.
  - destruct l; [reflexivity|cbn in Hl; lia].
  - destruct l as [|x l]; [reflexivity|]. inversion Hf; subst. rewrite keep_rows_cons. f_equal.
    apply IH; [assumption|cbn in Hl; lia].
Qed.

Lemma keep_rows_length_le {A} : forall flags (l : list A),
  (length (keep_rows flags l) <= length (filter (fun b : bool => b) flags))%nat.
Proof.
  induction flags as [|b flags IH]; intros l; [reflexivity|].
  destruct l as [|x l]; [rewrite keep_rows_nil_r; cbn; lia|]. rewrite keep_rows_cons.
  specialize (IH l). destruct b; cbn [filter length]; lia.
Qed.

Lemma filter_id_map_is_user (l : list inst) :
  length (filter (fun b : bool => b) (map is_user l)) = length (filter is_user l).
Proof. induction l as [|x l IH]; [reflexivity|]. cbn [map filter]. destruct (is_user x); cbn [length]; lia. Qed.

Lemma gt_flags_true f : gt_flags true f = map is_user (lf_insts f).
Proof. unfold gt_flags. apply map_ext. intros x. reflexivity. Qed.

Lemma all_user_filter (l : list inst) : Forall (fun b => b = true) (map is_user (filter is_user l)).
Proof.
  induction l as [|x l IH]; [constructor|]. cbn [filter]. destruct (is_user x) eqn:E; [|exact IH].
  cbn [map]. constructor; assumption.
Qed.

Lemma gt_poses_strip f : gt_poses true (strip f) = gt_poses true f.
Proof.
  unfold gt_poses. rewrite !gt_flags_true. cbn [strip lf_insts]. rewrite (keep_rows_user (lf_insts f)).
  apply keep_rows_all_true; [apply all_user_filter|rewrite !map_length; apply Nat.le_refl].
Qed.

Lemma rows_strip f (M : smatrix) :
  keep_rows (gt_flags true (strip f)) (keep_rows (map is_user (lf_insts f)) M)
  = keep_rows (gt_flags true f) M.
Proof.
  rewrite !gt_flags_true. cbn [strip lf_insts].
  apply keep_rows_all_true; [apply all_user_filter|].
  rewrite map_length, <- filter_id_map_is_user. apply keep_rows_length_le.
Qed.

Lemma db_get_mutate gtL prL i j f : forall db,
  nth_error (snd gtL) i = Some f -> video_paired gtL prL f = true ->
  db_get (mutate_db true gtL prL db) i j = keep_rows (map is_user (lf_insts f)) (db_get db i j).
Proof.
  intros db Hn Hp. unfold mutate_db. induction db as [|[[a b] M] db IH]; [cbn; rewrite keep_rows_nil_r; reflexivity|].
  cbn [map db_get]. destruct ((a =? i)%nat && (b =? j)%nat) eqn:E.
  - apply andb_true_iff in E. destruct E as [Ea Eb]. apply Nat.eqb_eq in Ea, Eb. subst a b.
    rewrite Hn, Hp. cbn [db_get]. rewrite !Nat.eqb_refl. reflexivity.
  - destruct (nth_error (snd gtL) a) as [fa|]; [destruct (video_paired gtL prL fa)|]; cbn [db_get]; rewrite E; exact IH.
Qed.

Lemma zip_seq_map {A B} (h : A -> B) : forall (l : list A) s,
  zip (seq s (length (map h l))) (map h l) = map (fun p : nat * A => (fst p, h (snd p))) (zip (seq s (length l)) l).
Proof. induction l as [|x l IH]; intros s; [reflexivity|]. cbn [map length seq zip fst snd]. rewrite IH. reflexivity. Qed.

Lemma frames_of_map (h : lframe -> lframe) vi fs : (forall f, lf_video (h f) = lf_video f) ->
  frames_of vi (map h fs) = map (fun p : nat * lframe => (fst p, h (snd p))) (frames_of vi fs).
Proof.
  intros Hv. unfold frames_of, enum. rewrite zip_seq_map.
  induction (zip (seq 0 (length fs)) fs) as [|p l IH]; [reflexivity|].
  cbn [map filter snd]. rewrite Hv. destruct (lf_video (snd p) =? vi)%nat; [cbn [map]; rewrite IH; reflexivity|exact IH].
Qed.

Lemma flat_map_ext_in {A B} (g1 g2 : A -> list B) : forall l,
  (forall a, In a l -> g1 a = g2 a) -> flat_map g1 l = flat_map g2 l.
Proof.
  induction l as [|a l IH]; intros H; [reflexivity|]. cbn [flat_map].
  rewrite (H a (or_introl eq_refl)), IH; [reflexivity|]. intros a' Ha'. apply H. right. exact Ha'.
Qed.

Theorem find_pairs_mutate_idem db gtL prL :
  find_pairs_pos true (mutate_db true gtL prL db) (mutate_gt true gtL prL) prL = find_pairs_pos true db gtL prL.
Proof.
  unfold find_pairs_pos, mutate_gt. cbn [fst snd].
  apply flat_map_ext_in. intros [vi vk] Hvk. apply in_enum in Hvk. cbn [fst snd].
  destruct (find_video vk (fst prL) 0) as [vp|] eqn:Fv; [|reflexivity].
  set (h := fun f => if video_paired gtL prL f then strip f else f).
  assert (Hh : forall f, lf_video (h f) = lf_video f) by (intros f; unfold h; destruct (video_paired gtL prL f); reflexivity).
  rewrite (frames_of_map h vi (snd gtL) Hh). rewrite flat_map_concat_map, map_map, <- flat_map_concat_map.
  apply flat_map_ext_in. intros [i f] Hin. apply in_frames_of in Hin. destruct Hin as [Hn Hv]. cbn [fst snd].
  assert (Hp : video_paired gtL prL f = true) by (unfold video_paired; rewrite Hv, Hvk, Fv; reflexivity).
  unfold h. rewrite Hp. unfold pair_frame. fold (gt_poses true (strip f)). fold (gt_poses true f).
  rewrite gt_poses_strip. cbn [strip lf_idx].
  destruct (true && (length (gt_poses true f) =? 0)%nat); [reflexivity|].
  destruct (get_frame vp (lf_idx f) (snd prL)) as [[j pf]|]; [|reflexivity].
  rewrite (db_get_mutate gtL prL i j f db Hn Hp). change (LF (lf_video f) (lf_idx f) (filter is_user (lf_insts f))) with (strip f).
  rewrite rows_strip. reflexivity.
Qed.

(* the same pairs, hence the same report, for a second Evaluator(user_labels_only=True) on the same objects;
   with user_labels_only=False nothing is modified *)
Theorem evaluate_after_same rnd fx thr n db gtL prL m r k :
  evaluate_after rnd fx true true thr n db gtL prL m r k = evaluate rnd fx true thr n db gtL prL m r k /\
  (forall u2, evaluate_after rnd fx false u2 thr n db gtL prL m r k = evaluate rnd fx u2 thr n db gtL prL m r k).
Proof.
  split; [|intros u2; reflexivity].
  unfold evaluate_after, evaluate, process, find_pairs. rewrite find_pairs_mutate_idem. reflexivity.
Qed.
