(* Grouping.v — executable model of the peak-grouping pipeline of
   sleap_nn/inference/paf_grouping.py downstream of PAF line scoring
   (no proofs in this file):

     get_connection_candidates      -> candidates
     match_candidates_sample        -> cost_matrix / match_edge / match_sample
                                       (scipy.optimize.linear_sum_assignment is an
                                        ORACLE argument `lsa`; `lsa_bf` is a brute
                                        force reference used for execution)
     assign_connections_to_instances-> assign_one / assign_all / filter_small
     make_predicted_instances       -> make_instances
     group_instances_sample         -> group_sample
     PAFScorer.predict (one sample) -> predict_sample   (edge order = C17.toposort)

   Conventions.  Scores are exact rationals; `None : option Q` is NaN on the
   score side and +inf on the cost side.  A peak is (channel, payload); the
   payload (x, y, peak value) is opaque to the model (type parameter P).
   A PeakID is (node, rank of the peak among the peaks of that node type in
   input order) — this is what `torch.unique` + the row/column index of the cost
   matrix produce in match_candidates_sample and what
   `peaks_sample[peak_channel_inds == node][rank]` reads back in
   group_instances_sample.
   `instance_assignments` (an insertion-ordered dict) is an association list in
   insertion order.

   Quirks of the code kept as they are:
   * assign_connections_to_instances has no branch for "source unassigned,
     destination assigned": the connection is silently ignored (`Dropped`);
   * case 3 reassigns the destination and merges the two instances iff their
     node sets (computed after the reassignment) are disjoint;
   * new instance id = max(existing ids, default -1) + 1;
   * min_instance_peaks: int -> used as is when > 0; float -> int(f * n_nodes)
     when > 0;
   * make_predicted_instances: ids relabelled by rank among the sorted unique
     ids; the score loop raises KeyError when a destination is unassigned and
     AssertionError when it sits in another instance; the fill loop lets the
     last writer win and raises IndexError on an out-of-range peak index;
   * F3: a NaN score becomes cost +inf; when no all-finite assignment of size
     min(n,m) exists linear_sum_assignment raises ValueError (EInfeasible).
     That is the PINNED tree (`fixed_F3 = false`).  `fixed_F3 = true` is the
     CURRENT tree (/repo since fix f3ef4e3 = proposed_fixes/C08_F3.diff): NaN
     entries get the finite cost `big` (1e6) and matches that land on them are
     discarded after the assignment. *)
From Coq Require Import List Arith Bool ZArith QArith Qround.
From SV Require Import C17.Toposort.
Import ListNotations.
Open Scope nat_scope.

(* ------------------------------------------------------------------ results *)
Inductive err := EInfeasible | EAssert | EKey | EIndex.
Inductive res (A : Type) := Ok (a : A) | Err (e : err).
Arguments Ok {A} a.
Arguments Err {A} e.

Definition bind {A B} (r : res A) (f : A -> res B) : res B :=
  match r with Ok a => f a | Err e => Err e end.

(* ------------------------------------------------------------------ peaks *)
Definition peaks_of_node {P} (j : nat) (peaks : list (nat * P)) : list P :=
  map snd (filter (fun p => fst p =? j) peaks).

(* global indices (positions in the sample's peak list) of the peaks of node j *)
Fixpoint node_inds_from (i j : nat) (chans : list nat) : list nat :=
  match chans with
  | [] => []
  | c :: t => if c =? j then i :: node_inds_from (S i) j t else node_inds_from (S i) j t
  end.
Definition node_inds (j : nat) (chans : list nat) : list nat := node_inds_from 0 j chans.

(* get_connection_candidates: per edge k = (u,v), all (src, dst) pairs of global
   peak indices, src-major (meshgrid "ij" flattened) *)
Definition cand0 := (nat * nat * nat)%type.          (* edge index, src peak, dst peak *)
Definition candidates (edges : list edge) (chans : list nat) : list cand0 :=
  flat_map (fun ke => map (fun sd => (fst ke, fst sd, snd sd))
                          (list_prod (node_inds (fst (snd ke)) chans) (node_inds (snd (snd ke)) chans)))
           (combine (seq 0 (length edges)) edges).

(* ------------------------------------------------------------------ matching *)
Definition score := option Q.                         (* None = NaN *)
Definition cand := (nat * nat * nat * score)%type.    (* edge, src peak, dst peak, line score *)
Definition c_edge (c : cand) : nat := fst (fst (fst c)).
Definition c_src (c : cand) : nat := snd (fst (fst c)).
Definition c_dst (c : cand) : nat := snd (fst c).
Definition c_score (c : cand) : score := snd c.

Fixpoint insert_u (x : nat) (l : list nat) : list nat :=
  match l with
  | [] => [x]
  | y :: t => if x <? y then x :: l else if x =? y then l else y :: insert_u x t
  end.
(* torch.unique: sorted, duplicates removed *)
Definition sort_unique (l : list nat) : list nat := fold_right insert_u [] l.

Definition cost := option Q.                          (* None = +inf *)
Definition matrix := list (list cost).
Definition asg := list (nat * nat).                   (* (row, col) pairs *)

Definition entry (M : matrix) (i j : nat) : cost :=
  match nth_error M i with
  | Some r => match nth_error r j with Some c => c | None => None end
  | None => None
  end.
Definition nrows (M : matrix) : nat := length M.
Definition ncols (M : matrix) : nat := match M with [] => 0 | r :: _ => length r end.

Definition cadd (a b : cost) : cost :=
  match a, b with Some x, Some y => Some (x + y)%Q | _, _ => None end.
Definition total (M : matrix) (a : asg) : cost :=
  fold_right (fun p acc => cadd (entry M (fst p) (snd p)) acc) (Some 0%Q) a.

(* first candidate with this (src, dst): `mask.any()` / `line_scores_k[mask].item()` *)
Definition find_score (s d : nat) (cs : list cand) : option score :=
  match find (fun c => (c_src c =? s) && (c_dst c =? d)) cs with
  | Some c => Some (c_score c)
  | None => None
  end.

Definition cost_entry (fixed_F3 : bool) (big : Q) (o : option score) : cost :=
  match o with
  | None => None                                       (* no candidate: stays +inf *)
  | Some None => if fixed_F3 then Some big else None   (* NaN -> +inf  (F3) *)
  | Some (Some x) => Some (- x)%Q
  end.

Definition cost_matrix (fixed_F3 : bool) (big : Q) (cs : list cand) (srcs dsts : list nat) : matrix :=
  map (fun s => map (fun d => cost_entry fixed_F3 big (find_score s d cs)) dsts) srcs.

Definition is_nan_pair (cs : list cand) (srcs dsts : list nat) (p : nat * nat) : bool :=
  match find_score (nth (fst p) srcs 0) (nth (snd p) dsts 0) cs with
  | Some None => true
  | _ => false
  end.

Definition copp (c : cost) : score := match c with Some x => Some (- x)%Q | None => None end.

Definition mtch := (nat * nat * nat * score)%type.    (* edge, src rank, dst rank, score *)
Definition m_edge (m : mtch) : nat := fst (fst (fst m)).
Definition m_src (m : mtch) : nat := snd (fst (fst m)).
Definition m_dst (m : mtch) : nat := snd (fst m).
Definition m_score (m : mtch) : score := snd m.

Definition edge_cands (k : nat) (cands : list cand) : list cand :=
  filter (fun c => c_edge c =? k) cands.
Definition edge_srcs (k : nat) (cands : list cand) : list nat :=
  sort_unique (map c_src (edge_cands k cands)).
Definition edge_dsts (k : nat) (cands : list cand) : list nat :=
  sort_unique (map c_dst (edge_cands k cands)).
Definition edge_matrix (fixed_F3 : bool) (big : Q) (k : nat) (cands : list cand) : matrix :=
  cost_matrix fixed_F3 big (edge_cands k cands) (edge_srcs k cands) (edge_dsts k cands).

(* the pairs kept after the assignment: all of them (pinned tree, before f3ef4e3),
   or those that did not land on a NaN entry (current tree) *)
Definition kept_pairs (fixed_F3 : bool) (k : nat) (cands : list cand) (a : asg) : asg :=
  if fixed_F3
  then filter (fun p => negb (is_nan_pair (edge_cands k cands) (edge_srcs k cands) (edge_dsts k cands) p)) a
  else a.

Definition match_edge (lsa : matrix -> option asg) (fixed_F3 : bool) (big : Q)
           (k : nat) (cands : list cand) : res (list mtch) :=
  let M := edge_matrix fixed_F3 big k cands in
  match lsa M with
  | None => Err EInfeasible
  | Some a => Ok (map (fun p => (k, fst p, snd p, copp (entry M (fst p) (snd p))))
                      (kept_pairs fixed_F3 k cands a))
  end.

Fixpoint match_edges (lsa : matrix -> option asg) (fixed_F3 : bool) (big : Q)
         (ks : list nat) (cands : list cand) : res (list mtch) :=
  match ks with
  | [] => Ok []
  | k :: t => match match_edge lsa fixed_F3 big k cands with
              | Err e => Err e
              | Ok ms => match match_edges lsa fixed_F3 big t cands with
                         | Err e => Err e
                         | Ok rest => Ok (ms ++ rest)
                         end
              end
  end.

Definition match_sample lsa fixed_F3 big (n_edges : nat) (cands : list cand) : res (list mtch) :=
  match_edges lsa fixed_F3 big (seq 0 n_edges) cands.

(* --- brute-force reference for the assignment oracle (execution only) --- *)
Definition remove_nat (x : nat) (l : list nat) : list nat := filter (fun y => negb (y =? x)) l.

(* all total injections rows -> cols as (row, col) lists in row order *)
Fixpoint injections (rows cols : list nat) : list asg :=
  match rows with
  | [] => [[]]
  | r :: rs => flat_map (fun c => map (cons (r, c)) (injections rs (remove_nat c cols))) cols
  end.

Fixpoint insert_pair (p : nat * nat) (l : asg) : asg :=
  match l with
  | [] => [p]
  | q :: t => if fst p <=? fst q then p :: l else q :: insert_pair p t
  end.
Definition sort_pairs (l : asg) : asg := fold_right insert_pair [] l.
Definition swap_pair (p : nat * nat) : nat * nat := (snd p, fst p).

(* all one-to-one assignments of size min n m, rows ascending *)
Definition all_assignments (n m : nat) : list asg :=
  if n <=? m then injections (seq 0 n) (seq 0 m)
  else map (fun a => sort_pairs (map swap_pair a)) (injections (seq 0 m) (seq 0 n)).

Definition best_step (M : matrix) (best : option (asg * Q)) (a : asg) : option (asg * Q) :=
  match total M a with
  | None => best
  | Some t => match best with
              | None => Some (a, t)
              | Some (_, tb) => if Qle_bool tb t then best else Some (a, t)
              end
  end.
Definition best_assignment (M : matrix) : option (asg * Q) :=
  fold_left (best_step M) (all_assignments (nrows M) (ncols M)) None.
Definition lsa_bf (M : matrix) : option asg :=
  match best_assignment M with Some (a, _) => Some a | None => None end.
(* number of enumerated assignments attaining the optimum (1 = unique optimum) *)
Definition n_optimal (M : matrix) : nat :=
  match best_assignment M with
  | None => 0
  | Some (_, t) => length (filter (fun a => match total M a with Some t' => Qeq_bool t t' | None => false end)
                                  (all_assignments (nrows M) (ncols M)))
  end.

(* oracle answers replayed from a table keyed by the cost matrix *)
Definition cost_eqb (a b : cost) : bool :=
  match a, b with
  | None, None => true
  | Some x, Some y => Qeq_bool x y
  | _, _ => false
  end.
Fixpoint list_eqb {A} (eqb : A -> A -> bool) (l1 l2 : list A) : bool :=
  match l1, l2 with
  | [], [] => true
  | x :: t1, y :: t2 => eqb x y && list_eqb eqb t1 t2
  | _, _ => false
  end.
Definition matrix_eqb : matrix -> matrix -> bool := list_eqb (list_eqb cost_eqb).
Definition lsa_table (tbl : list (matrix * option asg)) (M : matrix) : option asg :=
  match find (fun e => matrix_eqb (fst e) M) tbl with
  | Some e => snd e
  | None => lsa_bf M
  end.

(* the hypothesis of the optimality theorem for the repaired matching: the
   placeholder cost `big` of a NaN entry exceeds min(n,m) * (hi - lo), where
   lo <= 0 <= hi bracket every finite line score of the edge (so that one more
   NaN-free pair always beats any difference of score totals) *)
Definition finite_scores (cs : list cand) : list Q :=
  flat_map (fun c => match c_score c with Some x => [x] | None => [] end) cs.
Definition qmin0 (l : list Q) : Q := fold_right (fun x acc => if Qle_bool x acc then x else acc) 0%Q l.
Definition qmax0 (l : list Q) : Q := fold_right (fun x acc => if Qle_bool acc x then x else acc) 0%Q l.
Definition score_spread (k : nat) (cands : list cand) : Q :=
  let fs := finite_scores (edge_cands k cands) in
  (inject_Z (Z.of_nat (Nat.min (length (edge_srcs k cands)) (length (edge_dsts k cands))))
   * (qmax0 fs - qmin0 fs))%Q.
Definition big_dominatesb (big : Q) (k : nat) (cands : list cand) : bool :=
  negb (Qle_bool big (score_spread k cands)).

(* decidable feasibility of an assignment problem, and the selector of finding F3:
   some edge of the sample has a cost matrix (pinned tree: NaN -> +inf) without
   any all-finite one-to-one assignment of size min(n,m) *)
Definition feasibleb (M : matrix) : bool := match lsa_bf M with Some _ => true | None => false end.
Definition selector_F3 (n_edges : nat) (cands : list cand) : bool :=
  existsb (fun k => negb (feasibleb (edge_matrix false 0%Q k cands))) (seq 0 n_edges).

(* ------------------------------------------------------------------ assignment to instances *)
Definition peakid := (nat * nat)%type.                (* node, rank within the node type *)
Definition conn := (nat * nat * Q)%type.              (* src rank, dst rank, score *)
Definition csrc (c : conn) : nat := fst (fst c).
Definition cdst (c : conn) : nat := snd (fst c).
Definition cscore (c : conn) : Q := snd c.
Definition assign := list (peakid * nat).             (* insertion-ordered dict PeakID -> instance *)

Definition pid_eqb (a b : peakid) : bool := (fst a =? fst b) && (snd a =? snd b).

Fixpoint lookup (p : peakid) (a : assign) : option nat :=
  match a with
  | [] => None
  | (q, i) :: t => if pid_eqb p q then Some i else lookup p t
  end.

(* dict[p] = i : update in place when present, append otherwise *)
Fixpoint set_ (p : peakid) (i : nat) (a : assign) : assign :=
  match a with
  | [] => [(p, i)]
  | (q, j) :: t => if pid_eqb p q then (q, i) :: t else (q, j) :: set_ p i t
  end.

Definition max_id (a : assign) : nat := fold_right Nat.max 0 (map snd a).
(* max(values, default=-1) + 1 *)
Definition next_id (a : assign) : nat := match a with [] => 0 | _ => S (max_id a) end.

Inductive fired := Case1 | Case2 | Case3 (merged : bool) | Dropped.

Definition nodes_of (i : nat) (a : assign) : list nat :=
  map (fun x => fst (fst x)) (filter (fun x => snd x =? i) a).
Definition relabel (old new : nat) (a : assign) : assign :=
  map (fun x => if snd x =? old then (fst x, new) else x) a.

Definition src_id (e : edge) (c : conn) : peakid := (fst e, csrc c).
Definition dst_id (e : edge) (c : conn) : peakid := (snd e, cdst c).

Definition assign_one (e : edge) (c : conn) (a : assign) : assign * fired :=
  let s := src_id e c in
  let d := dst_id e c in
  match lookup s a, lookup d a with
  | None, None => let i := next_id a in (set_ d i (set_ s i a), Case1)
  | Some si, None => (set_ d si a, Case2)
  | Some si, Some di =>
      let a1 := set_ d si a in
      if existsb (fun n => memb n (nodes_of di a1)) (nodes_of si a1)
      then (a1, Case3 false)
      else (relabel di si a1, Case3 true)
  | None, Some _ => (a, Dropped)       (* the code has no branch for this *)
  end.

Definition econns := list (edge * list conn).         (* `connections`, in dict order *)
Definition flatten (ecs : econns) : list (edge * conn) :=
  flat_map (fun ec => map (pair (fst ec)) (snd ec)) ecs.

Fixpoint assign_flat (l : list (edge * conn)) (a : assign) : assign * list fired :=
  match l with
  | [] => (a, [])
  | (e, c) :: t =>
      let '(a1, f) := assign_one e c a in
      let '(a2, fs) := assign_flat t a1 in
      (a2, f :: fs)
  end.
Definition assign_all (ecs : econns) : assign * list fired := assign_flat (flatten ecs) [].

(* min_instance_peaks.
   A float threshold f becomes `int(f * n_nodes)`: the product is a binary64
   multiplication (ONE rounding to nearest, ties to even, of the exact product of
   the double f and the integer n_nodes), then truncation.  `b64_round` is that
   rounding on exact rationals (53-bit significand, exponent unbounded: overflow
   to inf — int() would raise — and NaN thresholds are outside the model; in the
   subnormal range the true result and this one are both < 1, same truncation).
   `MipFloat q`: q is the exact value of the double.  For 0.6 and 5 nodes the
   exact product is 2.99999999999999988897769753748…, the double product is 3.0:
   the code's threshold is 3, not 2 (review finding 1). *)
Definition scale2 (a b s : Z) : Z * Z :=
  if (0 <=? s)%Z then (a * 2 ^ s, b)%Z else (a, b * 2 ^ (- s))%Z.
(* floor(log2 (a/b)) for a, b > 0 *)
Definition ilog2_ratio (a b : Z) : Z :=
  let e0 := (Z.log2 a - Z.log2 b)%Z in
  let '(N, D) := scale2 a b (- e0) in
  if (D <=? N)%Z then e0 else (e0 - 1)%Z.
Definition b64_round (x : Q) : Q :=
  let a := Qnum x in
  let b := Zpos (Qden x) in
  if (a <=? 0)%Z then x                                  (* only positive products are rounded here *)
  else
    let s := (52 - ilog2_ratio a b)%Z in                 (* x * 2^s lies in [2^52, 2^53) *)
    let '(N, D) := scale2 a b s in
    let m := (N / D)%Z in
    let r := (N mod D)%Z in
    let m' := if (D <? 2 * r)%Z || ((D =? 2 * r)%Z && Z.odd m) then (m + 1)%Z else m in
    if (0 <=? s)%Z then Qmake m' (Z.to_pos (2 ^ s)) else inject_Z (m' * 2 ^ (- s)).

Inductive mip := MipInt (z : Z) | MipFloat (q : Q).
(* the float64 product min_instance_peaks * n_nodes of the code *)
Definition mip_product (q : Q) (n_nodes : nat) : Q := b64_round (q * inject_Z (Z.of_nat n_nodes)).
Definition threshold (m : mip) (n_nodes : nat) : option Z :=       (* None = no filtering *)
  match m with
  | MipInt z => if (0 <? z)%Z then Some z else None
  | MipFloat q => if Qle_bool q 0 then None
                  else Some (Qfloor (mip_product q n_nodes))       (* int(): truncation, q > 0 *)
  end.
Definition count_inst (i : nat) (a : assign) : nat := length (filter (fun x => snd x =? i) a).
Definition filter_small (thr : option Z) (a : assign) : assign :=
  match thr with
  | None => a
  | Some t => filter (fun x => (t <=? Z.of_nat (count_inst (snd x) a))%Z) a
  end.

Definition assign_connections (ecs : econns) (m : mip) (n_nodes : nat) : assign :=
  filter_small (threshold m n_nodes) (fst (assign_all ecs)).

(* ------------------------------------------------------------------ make_predicted_instances *)
Fixpoint pos_of (i : nat) (ids : list nat) : nat :=
  match ids with
  | [] => 0
  | x :: t => if x =? i then 0 else S (pos_of i t)
  end.
Definition inst_ids (a : assign) : list nat := sort_unique (map snd a).
Definition relabel_contig (a : assign) : assign :=
  map (fun x => (fst x, pos_of (snd x) (inst_ids a))) a.

Fixpoint check_conns (l : list (edge * conn)) (a : assign) : option err :=
  match l with
  | [] => None
  | (e, c) :: t =>
      match lookup (src_id e c) a with
      | None => check_conns t a
      | Some i => match lookup (dst_id e c) a with
                  | None => Some EKey
                  | Some j => if i =? j then check_conns t a else Some EAssert
                  end
      end
  end.

Definition src_in (a : assign) (i : nat) (ec : edge * conn) : bool :=
  match lookup (src_id (fst ec) (snd ec)) a with Some j => j =? i | None => false end.
Definition qsum (l : list Q) : Q := fold_right Qplus 0%Q l.
Definition inst_score (l : list (edge * conn)) (a : assign) (i : nat) : Q :=
  qsum (map (fun ec => cscore (snd ec)) (filter (src_in a i) l)).

Definition in_range {P} (pk : list (list P)) (a : assign) : bool :=
  forallb (fun x => (fst (fst x) <? length pk) && (snd (fst x) <? length (nth (fst (fst x)) pk []))) a.

(* last writer wins *)
Definition cell_id (a : assign) (i j : nat) : option nat :=
  match find (fun x => (fst (fst x) =? j) && (snd x =? i)) (rev a) with
  | Some x => Some (snd (fst x))
  | None => None
  end.
Definition cell {P} (pk : list (list P)) (a : assign) (i j : nat) : option P :=
  match cell_id a i j with
  | Some k => nth_error (nth j pk []) k
  | None => None
  end.

Definition rows_ids (n_nodes : nat) (a : assign) : list (list (option nat)) :=
  map (fun i => map (fun j => cell_id a i j) (seq 0 n_nodes)) (seq 0 (length (inst_ids a))).

(* returns (instances as payloads, instance scores) *)
Definition make_instances {P} (pk : list (list P)) (ecs : econns) (a : assign)
  : res (list (list (option P)) * list Q) :=
  let a' := relabel_contig a in
  let n := length (inst_ids a) in
  match check_conns (flatten ecs) a' with
  | Some e => Err e
  | None =>
      if in_range pk a'
      then Ok (map (fun i => map (fun j => cell pk a' i j) (seq 0 (length pk))) (seq 0 n),
               map (inst_score (flatten ecs) a') (seq 0 n))
      else Err EIndex
  end.

(* ------------------------------------------------------------------ group_instances_sample *)
Definition accept (mls : Q) (m : mtch) : bool :=
  match m_score m with Some s => Qle_bool mls s | None => false end.   (* NaN >= x is False *)

Definition conn_of (m : mtch) : list conn :=
  match m_score m with Some s => [(m_src m, m_dst m, s)] | None => [] end.
Definition conns_of_edge (k : nat) (ms : list mtch) : list conn :=
  flat_map conn_of (filter (fun m => m_edge m =? k) ms).

Definition node_peaks {P} (n_nodes : nat) (peaks : list (nat * P)) : list (list P) :=
  map (fun j => peaks_of_node j peaks) (seq 0 n_nodes).

(* `connections` as built by group_instances_sample: accepted matches per edge,
   edges in `sorted` order *)
Definition build_econns (edges : list edge) (sorted : list nat) (mls : Q) (ms : list mtch)
  : option econns :=
  match all_some (map (fun k => nth_error edges k) sorted) with
  | None => None
  | Some es => Some (combine es (map (fun k => conns_of_edge k (filter (accept mls) ms)) sorted))
  end.

Definition group_sample {P} (n_nodes : nat) (edges : list edge) (sorted : list nat)
           (m : mip) (mls : Q) (peaks : list (nat * P)) (ms : list mtch)
  : res (list (list (option P)) * list Q) :=
  match build_econns edges sorted mls ms with
  | None => Err EIndex
  | Some ecs => make_instances (node_peaks n_nodes peaks) ecs (assign_connections ecs m n_nodes)
  end.

(* ------------------------------------------------------------------ PAFScorer.predict, one sample *)
Definition predict_sample {P} (lsa : matrix -> option asg) (fixed_F3 : bool) (big : Q)
           (n_nodes : nat) (edges : list edge) (m : mip) (mls : Q)
           (peaks : list (nat * P)) (scores : list score)
  : res (list (list (option P)) * list Q) :=
  match toposort edges with
  | None => Err EIndex          (* PAFScorer construction fails: outside the domain *)
  | Some sorted =>
      let cands := combine (candidates edges (map fst peaks)) scores in
      bind (match_sample lsa fixed_F3 big (length edges) cands)
           (fun ms => group_sample n_nodes edges sorted m mls peaks ms)
  end.

(* ------------------------------------------------------------------ harness entry points *)
Definition payload := (Q * Q * Q)%type.               (* x, y, peak value *)

Inductive case :=
| CCand (edges : list edge) (chans : list nat)
| CMatch (fixed_F3 : bool) (big : Q) (n_edges : nat) (cands : list cand)
| CAssign (ecs : econns) (m : mip) (n_nodes : nat)
| CMake (pk : list (list payload)) (ecs : econns) (a : assign)
| CGroup (n_nodes : nat) (edges : list edge) (sorted : list nat) (m : mip) (mls : Q)
         (peaks : list (nat * payload)) (ms : list mtch)
| CPredict (fixed_F3 : bool) (big : Q) (tbl : list (matrix * option asg))
           (n_nodes : nat) (edges : list edge) (m : mip) (mls : Q)
           (peaks : list (nat * payload)) (scores : list score)
| CThr (m : mip) (n_nodes : nat).

Inductive outcome :=
| OCand (l : list cand0)
| OMatch (Ms : list matrix) (bf : list (option asg)) (tot : list cost) (nopt : list nat)
         (r : res (list mtch)) (dom : list bool)
| OAssign (unfiltered : assign) (fs : list fired) (a : assign)
| OGroup (r : res (list (list (option payload)) * list Q))
| OPredict (sorted : option (list nat)) (Ms : list matrix) (ms : res (list mtch))
           (r : res (list (list (option payload)) * list Q)) (sel : bool) (dom : list bool)
| OThr (t : option Z) (prod : Q).

Definition run (c : case) : outcome :=
  match c with
  | CCand edges chans => OCand (candidates edges chans)
  | CMatch fx big n cands =>
      let Ms := map (fun k => edge_matrix fx big k cands) (seq 0 n) in
      OMatch Ms (map lsa_bf Ms)
             (map (fun M => match best_assignment M with Some (_, t) => Some t | None => None end) Ms)
             (map n_optimal Ms)
             (match_sample lsa_bf fx big n cands)
             (map (fun k => big_dominatesb big k cands) (seq 0 n))
  | CAssign ecs m n => let '(a, fs) := assign_all ecs in OAssign a fs (assign_connections ecs m n)
  | CMake pk ecs a => OGroup (make_instances pk ecs a)
  | CGroup n edges sorted m mls peaks ms => OGroup (group_sample n edges sorted m mls peaks ms)
  | CPredict fx big tbl n edges m mls peaks scores =>
      let cands := combine (candidates edges (map fst peaks)) scores in
      OPredict (toposort edges)
               (map (fun k => edge_matrix fx big k cands) (seq 0 (length edges)))
               (match_sample (lsa_table tbl) fx big (length edges) cands)
               (predict_sample (lsa_table tbl) fx big n edges m mls peaks scores)
               (selector_F3 (length edges) cands)
               (map (fun k => big_dominatesb big k cands) (seq 0 (length edges)))
  | CThr m n => OThr (threshold m n) (match m with MipFloat q => mip_product q n | MipInt z => inject_Z z end)
  end.

(* ------------------------------------------------------------------ rendering *)
From Coq Require Import String.
From SV Require Import Base.Render.
Open Scope string_scope.
Definition rerr (e : err) : rdr :=
  rquoted (match e with EInfeasible => "EInfeasible" | EAssert => "EAssert"
                   | EKey => "EKey" | EIndex => "EIndex" end).
Definition rres {A} (r : A -> rdr) (x : res A) : rdr := fun k =>
  match x with
  | Ok a => rstr "{""ok"":" (r a (rstr "}" k))
  | Err e => rstr "{""err"":" (rerr e (rstr "}" k))
  end.
Definition rfired (f : fired) : rdr :=
  rquoted (match f with Case1 => "1" | Case2 => "2" | Case3 true => "3m" | Case3 false => "3"
                   | Dropped => "D" end).
Definition rquad {A B C D} (ra : A -> rdr) (rb : B -> rdr) (rc : C -> rdr) (rd : D -> rdr)
  (p : A * B * C * D) : rdr := fun k =>
  let '(a, b, c, d) := p in
  rstr "[" (ra a (rstr "," (rb b (rstr "," (rc c (rstr "," (rd d (rstr "]" k)))))))).
Definition rmtch : mtch -> rdr := rquad rnat rnat rnat (ropt rQ).
Definition rassign : assign -> rdr := rlist (rpair (rpair rnat rnat) rnat).
Definition rpayload : payload -> rdr := rtriple rQ rQ rQ.
Definition rgroup : res (list (list (option payload)) * list Q) -> rdr :=
  rres (rpair (rlist (rlist (ropt rpayload))) (rlist rQ)).
Definition rmatrix : matrix -> rdr := rlist (rlist (ropt rQ)).
Definition rasg : asg -> rdr := rlist (rpair rnat rnat).

Definition routcome (o : outcome) : rdr := fun k =>
  match o with
  | OCand l => rlist (rtriple rnat rnat rnat) l k
  | OMatch Ms bf tot nopt r dom =>
      rstr "[" (rlist rmatrix Ms (rstr "," (rlist (ropt rasg) bf (rstr "," (rlist (ropt rQ) tot
        (rstr "," (rlist rnat nopt (rstr "," (rres (rlist rmtch) r (rstr "," (rlist rbool dom (rstr "]" k))))))))))))
  | OAssign a0 fs af =>
      rstr "[" (rassign a0 (rstr "," (rlist rfired fs (rstr "," (rassign af (rstr "]" k))))))
  | OGroup r => rgroup r k
  | OPredict s Ms ms r sel dom =>
      rstr "[" (ropt (rlist rnat) s (rstr "," (rlist rmatrix Ms (rstr "," (rres (rlist rmtch) ms
        (rstr "," (rgroup r (rstr "," (rbool sel (rstr "," (rlist rbool dom (rstr "]" k))))))))))))
  | OThr t p => rstr "[" (ropt rZ t (rstr "," (rQ p (rstr "]" k))))
  end.
