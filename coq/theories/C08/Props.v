(* Props.v (C08) — statements only; proofs live in C08/Lemmas.v.

   "Peak grouping always terminates with a partition of the detected peaks."

   The model is C08/Grouping.v (everything of paf_grouping.py downstream of PAF
   line scoring).  scipy's linear_sum_assignment is an ORACLE: the theorems hold
   for every function `lsa` that meets `lsa_contract` (restated below); the
   contract is validated against a brute-force optimum on every run of the check.
   The edge order is the one of C17 (`toposort`, imported): the hypothesis
   `edges_ordered` is exactly the form provided by C17's `toposort_dst_fresh`,
   and `c17_order_is_edges_ordered` derives it from `arborescence`.

   All theorems are unbounded: any tree skeleton, any number of peaks, any score
   table (NaN = None), any rational min_line_scores, any oracle answers meeting
   the contract.  min_instance_peaks: any integer, or any float given by the exact
   value q of its binary64 (`MipFloat q`); the threshold is then
   floor (b64_round (q * n_nodes)) — the code's `int(f * n_nodes)` with the product
   rounded once to binary64 (`threshold_def`, `ex_threshold_06_5`: 0.6 with 5 nodes
   gives 3, the exact product would give 2).  Outside: NaN/inf thresholds and
   products that overflow binary64.
   `fixed_F3 = true` is the CURRENT tree (/repo since fix f3ef4e3: NaN entries get
   the finite cost `big` = 1e6, matches landing on them are discarded) — the
   variant the harness evaluates; `fixed_F3 = false` is the PINNED tree before that
   fix (NaN -> +inf, F3).  Theorems about `false` document the historic defect and
   keep the check able to report a regression; theorems without that parameter in
   their hypotheses hold for both. *)
From Coq Require Import List Arith Bool ZArith QArith Qround Permutation.
Import ListNotations.
From SV Require Import C17.Toposort C17.Lemmas C08.Grouping C08.Lemmas.
Open Scope nat_scope.

(* --- smoke examples (vm_compute = the real function, including dict order) --- *)
Example ex_assign_smoke :
  assign_all [((0,1),[(0,0,1%Q);(1,1,1%Q)]); ((1,2),[(1,0,1%Q)])]
  = ([((0,0),0);((1,0),0);((0,1),1);((1,1),1);((2,0),1)], [Case1;Case1;Case2]).
Proof. exact assign_smoke. Qed.

(* child edge before its parent edge: the connection is silently lost — the
   C17 order is a necessary hypothesis *)
Example ex_assign_dropped_without_c17_order :
  assign_all [((1,2),[(0,0,1%Q)]); ((0,1),[(0,0,1%Q)])]
  = ([((1,0),0);((2,0),0)], [Case1;Dropped]).
Proof. exact assign_smoke_dropped. Qed.

(* --- the predicates, restated (each holds by reflexivity) ---------------- *)

(* the C17 order: when edge e = (u,v) is processed, u <> v and no edge processed
   earlier has v as its source or as its destination *)
Lemma edges_ordered_def : forall es,
  edges_ordered es =
  (forall l1 e l2, es = l1 ++ e :: l2 ->
     fst e <> snd e /\ forall e', In e' l1 -> fst e' <> snd e /\ snd e' <> snd e).
Proof. reflexivity. Qed.
Print Assumptions edges_ordered_def.

(* per edge, no source rank and no destination rank occurs in two matches *)
Lemma matches_one_to_one_def : forall ms,
  matches_one_to_one ms =
  (forall k, NoDup (map m_src (filter (on_edge k) ms)) /\ NoDup (map m_dst (filter (on_edge k) ms))).
Proof. reflexivity. Qed.
Print Assumptions matches_one_to_one_def.

(* accepted matches refer to existing peaks of existing node types *)
Lemma matches_in_range_def : forall P n_nodes edges mls (peaks : list (nat * P)) ms,
  matches_in_range n_nodes edges mls peaks ms =
  (forall mt u v, In mt ms -> accept mls mt = true -> nth_error edges (m_edge mt) = Some (u, v) ->
     u < n_nodes /\ v < n_nodes /\
     m_src mt < length (peaks_of_node u peaks) /\ m_dst mt < length (peaks_of_node v peaks)).
Proof. reflexivity. Qed.
Print Assumptions matches_in_range_def.

(* the hypotheses of the grouping theorems; `ecs` is the `connections` dict that
   group_instances_sample builds (accepted matches per edge, edges in `sorted` order) *)
Lemma group_hyps_def : forall P n_nodes edges sorted mls (peaks : list (nat * P)) ms ecs,
  group_hyps n_nodes edges sorted mls peaks ms ecs =
  (build_econns edges sorted mls ms = Some ecs /\ edges_ordered (map fst ecs) /\
   matches_one_to_one ms /\ matches_in_range n_nodes edges mls peaks ms).
Proof. reflexivity. Qed.
Print Assumptions group_hyps_def.

(* the oracle contract: an answer is a one-to-one assignment of size min(n,m)
   with finite total cost, minimal among such assignments; the oracle fails
   exactly when no such assignment has a finite total cost (None = +inf) *)
Lemma valid_asg_def : forall n m a,
  valid_asg n m a =
  (NoDup (map fst a) /\ NoDup (map snd a) /\ length a = Nat.min n m /\
   (forall p, In p a -> fst p < n /\ snd p < m)).
Proof. reflexivity. Qed.
Print Assumptions valid_asg_def.

Lemma lsa_contract_def : forall lsa,
  lsa_contract lsa =
  (forall M, rect M ->
     match lsa M with
     | Some a => valid_asg (nrows M) (ncols M) a /\
                 exists t, total M a = Some t /\
                   forall a' t', valid_asg (nrows M) (ncols M) a' -> total M a' = Some t' -> Qle t t'
     | None => forall a', valid_asg (nrows M) (ncols M) a' -> total M a' = None
     end).
Proof. reflexivity. Qed.
Print Assumptions lsa_contract_def.

Lemma feasible_def : forall M,
  feasible M = (exists a t, valid_asg (nrows M) (ncols M) a /\ total M a = Some t).
Proof. reflexivity. Qed.
Print Assumptions feasible_def.

(* peaks joined by a chain of accepted connections: `connected` is the
   reflexive-symmetric-transitive closure of "x is a connection from esrc x to
   edst x" (Inductive in Lemmas.v); `touched` = endpoint of some connection *)
Lemma touched_def : forall done p,
  touched done p = (exists x, In x done /\ (p = esrc x \/ p = edst x)).
Proof. reflexivity. Qed.
Print Assumptions touched_def.

(* the size threshold: an int is used as is; a float q (exact value of the double)
   becomes the truncation of the binary64 product q * n_nodes *)
Lemma threshold_def : forall m n_nodes,
  threshold m n_nodes =
  match m with
  | MipInt z => if (0 <? z)%Z then Some z else None
  | MipFloat q => if Qle_bool q 0 then None
                  else Some (Qfloor (b64_round (q * inject_Z (Z.of_nat n_nodes))))
  end.
Proof. reflexivity. Qed.
Print Assumptions threshold_def.

(* a component survives the size filter *)
Lemma survives_def : forall ecs m n_nodes p,
  survives ecs m n_nodes p =
  match threshold m n_nodes with
  | None => True
  | Some t => exists comp, NoDup comp /\ (forall q, In q comp <-> connected (flatten ecs) p q) /\
                           (t <= Z.of_nat (length comp))%Z
  end.
Proof. reflexivity. Qed.
Print Assumptions survives_def.

(* --- the link to C17 ---------------------------------------------------- *)

(* the edge order that PAFScorer uses (C17's toposort of a tree skeleton) is an
   `edges_ordered` order *)
Theorem c17_order_is_edges_ordered : forall es r out es',
  arborescence es r -> toposort es = Some out ->
  map (fun k => nth_error es k) out = map Some es' -> edges_ordered es'.
Proof. exact toposort_edges_ordered. Qed.
Print Assumptions c17_order_is_edges_ordered.

(* tree skeleton + C17 order + oracle contract  ==>  the hypotheses of the
   grouping theorems, for the current tree (fixed_F3 = true) and for the pinned
   tree before fix f3ef4e3 (false) *)
Theorem c08_pipeline_meets_hypotheses :
  forall P lsa fixed_F3 big n_nodes edges r m mls (peaks : list (nat * P)) scores ms,
  lsa_contract lsa -> arborescence edges r -> edges_in_range n_nodes edges ->
  match_sample lsa fixed_F3 big (length edges) (sample_cands edges peaks scores) = Ok ms ->
  exists sorted ecs,
    toposort edges = Some sorted /\ Permutation sorted (seq 0 (length edges)) /\
    group_hyps n_nodes edges sorted mls peaks ms ecs /\
    predict_sample lsa fixed_F3 big n_nodes edges m mls peaks scores =
    group_sample n_nodes edges sorted m mls peaks ms.
Proof. exact @predict_bridge. Qed.
Print Assumptions c08_pipeline_meets_hypotheses.

(* --- (a) unreachability -------------------------------------------------- *)

(* only cases 1 and 2 of assign_connections_to_instances ever fire (the silently
   dropped case and the merge case are unreachable), the internal assert of
   make_predicted_instances cannot fail, and no KeyError/IndexError occurs *)
Theorem c08_only_cases_1_2 :
  forall P n_nodes edges sorted m mls (peaks : list (nat * P)) ms ecs,
  group_hyps n_nodes edges sorted mls peaks ms ecs ->
  Forall (fun f => f = Case1 \/ f = Case2) (snd (assign_all ecs)) /\
  check_conns (flatten ecs) (out_assign ecs m n_nodes) = None /\
  exists rows iscores, group_sample n_nodes edges sorted m mls peaks ms = Ok (rows, iscores).
Proof. exact @c08_only_cases_1_2_proof. Qed.
Print Assumptions c08_only_cases_1_2.

(* --- (b) partition ------------------------------------------------------- *)

(* `out_assign` maps PeakID (node, rank) to the output row.  It is a function
   (no peak in two instances), injective per node inside a row (<= 1 peak per
   node per instance), rows are exactly 0..n-1 and none is empty, and the cell
   (r, j) of the output holds payload pl iff pl is the payload (x, y, score) of
   the input peak of node type j that is assigned to row r *)
Theorem c08_partition :
  forall P n_nodes edges sorted m mls (peaks : list (nat * P)) ms ecs rows iscores,
  group_hyps n_nodes edges sorted mls peaks ms ecs ->
  group_sample n_nodes edges sorted m mls peaks ms = Ok (rows, iscores) ->
  let ao := out_assign ecs m n_nodes in
  let n := n_instances ecs m n_nodes in
  NoDup (map fst ao) /\
  (forall p q r, lookup p ao = Some r -> lookup q ao = Some r -> fst p = fst q -> p = q) /\
  length rows = n /\ length iscores = n /\
  (forall p r, lookup p ao = Some r -> r < n) /\
  (forall r, r < n -> exists p, lookup p ao = Some r) /\
  (forall r, r < n -> length (nth r rows []) = n_nodes) /\
  (forall r j pl, r < n -> j < n_nodes ->
     (nth j (nth r rows []) None = Some pl <->
      exists k, lookup (j, k) ao = Some r /\ nth_error (peaks_of_node j peaks) k = Some pl)).
Proof. exact @c08_partition_proof. Qed.
Print Assumptions c08_partition.

(* --- (c) connected components and the size filter ------------------------ *)

(* two grouped peaks share a row iff they are connected by accepted matches; a
   peak is grouped iff it is an endpoint of an accepted match and its component
   has at least the configured number of peaks *)
Theorem c08_components :
  forall P n_nodes edges sorted m mls (peaks : list (nat * P)) ms ecs,
  group_hyps n_nodes edges sorted mls peaks ms ecs ->
  let ao := out_assign ecs m n_nodes in
  (forall p q r s, lookup p ao = Some r -> lookup q ao = Some s ->
                   (r = s <-> connected (flatten ecs) p q)) /\
  (forall p, (exists r, lookup p ao = Some r) <->
             touched (flatten ecs) p /\ survives ecs m n_nodes p).
Proof. exact @c08_components_proof. Qed.
Print Assumptions c08_components.

(* survival is a property of the component: instances are dropped whole *)
Theorem c08_dropped_whole : forall ecs m n_nodes p q,
  connected (flatten ecs) p q -> survives ecs m n_nodes p -> survives ecs m n_nodes q.
Proof. exact survives_component. Qed.
Print Assumptions c08_dropped_whole.

(* --- (d) instance scores -------------------------------------------------- *)

(* the score of row r is the sum of the scores of the accepted connections
   whose source lies in r — and these are exactly the connections with both
   (equivalently: either) endpoints in r *)
Theorem c08_instance_scores :
  forall P n_nodes edges sorted m mls (peaks : list (nat * P)) ms ecs rows iscores,
  group_hyps n_nodes edges sorted mls peaks ms ecs ->
  group_sample n_nodes edges sorted m mls peaks ms = Ok (rows, iscores) ->
  let ao := out_assign ecs m n_nodes in
  forall r, r < n_instances ecs m n_nodes ->
    nth r iscores 0%Q = qsum (map (fun x => cscore (snd x)) (filter (src_in ao r) (flatten ecs))) /\
    forall x, In x (flatten ecs) ->
      (src_in ao r x = true <-> lookup (esrc x) ao = Some r /\ lookup (edst x) ao = Some r) /\
      (src_in ao r x = true <-> lookup (esrc x) ao = Some r \/ lookup (edst x) ao = Some r).
Proof. exact @c08_scores_proof. Qed.
Print Assumptions c08_instance_scores.

(* no accepted connection is listed — hence summed — twice: the list the sums of
   c08_instance_scores range over is duplicate-free (distinct edge types by the C17
   order, one-to-one matches per edge) *)
Theorem c08_connections_counted_once :
  forall P n_nodes edges sorted mls (peaks : list (nat * P)) ms ecs,
  group_hyps n_nodes edges sorted mls peaks ms ecs -> NoDup (flatten ecs).
Proof. exact @group_conns_once. Qed.
Print Assumptions c08_connections_counted_once.

(* --- (e) matches below min_line_scores or NaN are not used ---------------- *)

Theorem c08_only_accepted_matches_used : forall edges sorted mls ms ecs e c,
  build_econns edges sorted mls ms = Some ecs -> In (e, c) (flatten ecs) ->
  exists mt, In mt ms /\ In (m_edge mt) sorted /\ nth_error edges (m_edge mt) = Some e /\
             m_src mt = csrc c /\ m_dst mt = cdst c /\ m_score mt = Some (cscore c) /\
             Qle mls (cscore c).
Proof. exact econns_accepted. Qed.
Print Assumptions c08_only_accepted_matches_used.

Theorem c08_every_accepted_match_used : forall edges sorted mls ms ecs mt e s,
  build_econns edges sorted mls ms = Some ecs -> In mt ms -> In (m_edge mt) sorted ->
  nth_error edges (m_edge mt) = Some e -> m_score mt = Some s -> Qle mls s ->
  In (e, (m_src mt, m_dst mt, s)) (flatten ecs).
Proof. exact econns_complete. Qed.
Print Assumptions c08_every_accepted_match_used.

(* --- (f) per-edge optimality (the oracle contract, carried to the matches) - *)

(* PINNED tree (before fix f3ef4e3; no code in /repo implements `false` any more,
   except that on an edge WITHOUT NaN scores the current tree computes exactly
   this, see c08_fixed_is_unfixed_without_nan): the matches of edge k are a
   one-to-one assignment of size min(n_src, n_dst) whose total cost (cost = - line
   score) is finite and minimal among all such assignments, and every match
   carries the finite line score of its candidate *)
Theorem c08_matches_optimal : forall lsa big k cands ms,
  lsa_contract lsa -> match_edge lsa false big k cands = Ok ms ->
  let M := edge_matrix false big k cands in
  let n := length (edge_srcs k cands) in
  let m := length (edge_dsts k cands) in
  exists a t, ms = map (fun p => (k, fst p, snd p, copp (entry M (fst p) (snd p)))) a /\
    valid_asg n m a /\ total M a = Some t /\
    (forall a' t', valid_asg n m a' -> total M a' = Some t' -> Qle t t') /\
    (forall mt, In mt ms -> exists x, m_score mt = Some x /\
                                      entry M (m_src mt) (m_dst mt) = Some (- x)%Q).
Proof. exact match_edge_optimal. Qed.
Print Assumptions c08_matches_optimal.

(* both variants: per edge the matches are one-to-one *)
Theorem c08_matches_one_to_one : forall lsa fixed_F3 big n cands ms,
  lsa_contract lsa -> match_sample lsa fixed_F3 big n cands = Ok ms -> matches_one_to_one ms.
Proof. exact match_sample_one_to_one. Qed.
Print Assumptions c08_matches_one_to_one.

(* current tree: no match sits on a NaN entry *)
Theorem c08_fixed_matches_avoid_nan : forall lsa big k cands ms,
  lsa_contract lsa -> match_edge lsa true big k cands = Ok ms ->
  forall mt, In mt ms ->
    find_score (nth (m_src mt) (edge_srcs k cands) 0) (nth (m_dst mt) (edge_dsts k cands) 0)
               (edge_cands k cands) <> Some None.
Proof. exact match_edge_fixed_no_nan. Qed.
Print Assumptions c08_fixed_matches_avoid_nan.

(* --- (f) for the CURRENT tree (fixed_F3 = true; review finding 2) ---------- *)

(* restated predicates (each holds by reflexivity) *)
(* the score-table entry behind cell p = (i, j) of edge k's cost matrix:
   None = no candidate, Some None = NaN, Some (Some x) = finite line score x *)
Lemma sc_at_def : forall k cands p,
  sc_at k cands p =
  find_score (nth (fst p) (edge_srcs k cands) 0) (nth (snd p) (edge_dsts k cands) 0) (edge_cands k cands).
Proof. reflexivity. Qed.
Print Assumptions sc_at_def.

Lemma complete_cands_def : forall k cands,
  complete_cands k cands =
  (forall i j, i < length (edge_srcs k cands) -> j < length (edge_dsts k cands) -> sc_at k cands (i, j) <> None).
Proof. reflexivity. Qed.
Print Assumptions complete_cands_def.

Lemma partial_asg_def : forall n m b,
  partial_asg n m b =
  (NoDup (map fst b) /\ NoDup (map snd b) /\ forall p, In p b -> fst p < n /\ snd p < m).
Proof. reflexivity. Qed.
Print Assumptions partial_asg_def.

Lemma nanfree_def : forall k cands b,
  nanfree k cands b = (forall p, In p b -> exists x, sc_at k cands p = Some (Some x)).
Proof. reflexivity. Qed.
Print Assumptions nanfree_def.

Lemma score_total_def : forall k cands b,
  score_total k cands b =
  qsum (map (fun p => match sc_at k cands p with Some (Some x) => x | _ => 0%Q end) b).
Proof. reflexivity. Qed.
Print Assumptions score_total_def.

(* `big` exceeds min(n, m) * (hi - lo) for some lo <= 0 <= hi bracketing every
   finite line score of the edge *)
Lemma big_dominates_def : forall big k cands,
  big_dominates big k cands =
  (exists lo hi : Q, (lo <= 0)%Q /\ (0 <= hi)%Q /\
     (forall c x, In c (edge_cands k cands) -> c_score c = Some x -> (lo <= x)%Q /\ (x <= hi)%Q) /\
     (inject_Z (Z.of_nat (Nat.min (length (edge_srcs k cands)) (length (edge_dsts k cands)))) * (hi - lo) < big)%Q).
Proof. reflexivity. Qed.
Print Assumptions big_dominates_def.

(* the statement of clause 7 for the code in /repo: when every (src, dst) pair of
   the edge has a candidate and `big` dominates the score range, the matches b
   returned for edge k are a NaN-free one-to-one set; every match carries the
   finite line score of its candidate; no NaN-free one-to-one set has more pairs
   (maximum cardinality); none of the same size has a larger total line score *)
Theorem c08_matches_optimal_fixed : forall lsa big k cands ms,
  lsa_contract lsa -> match_edge lsa true big k cands = Ok ms ->
  complete_cands k cands -> big_dominates big k cands ->
  let n := length (edge_srcs k cands) in
  let m := length (edge_dsts k cands) in
  exists b, ms = map (fun p => (k, fst p, snd p, Some (pscore k cands p))) b /\
    partial_asg n m b /\ nanfree k cands b /\
    (forall mt, In mt ms -> exists x, m_score mt = Some x /\
                                      sc_at k cands (m_src mt, m_dst mt) = Some (Some x)) /\
    (forall b', partial_asg n m b' -> nanfree k cands b' -> length b' <= length b) /\
    (forall b', partial_asg n m b' -> nanfree k cands b' -> length b' = length b ->
                (score_total k cands b' <= score_total k cands b)%Q).
Proof. exact match_edge_optimal_fixed. Qed.
Print Assumptions c08_matches_optimal_fixed.

(* the same for every edge of a predict sample; the two hypotheses become: the
   score list is long enough (always: score_paf_lines scores every candidate) and
   the boolean `big_dominatesb`, which the harness evaluates (Coq and a Python
   twin) on EVERY generated edge and requires to be true *)
Theorem c08_matches_optimal_fixed_sample :
  forall P lsa big edges (peaks : list (nat * P)) scores ms k,
  lsa_contract lsa -> length (candidates edges (map fst peaks)) <= length scores ->
  let cands := sample_cands edges peaks scores in
  match_sample lsa true big (length edges) cands = Ok ms -> k < length edges ->
  big_dominatesb big k cands = true ->
  let n := length (edge_srcs k cands) in
  let m := length (edge_dsts k cands) in
  exists b, filter (on_edge k) ms = map (fun p => (k, fst p, snd p, Some (pscore k cands p))) b /\
    partial_asg n m b /\ nanfree k cands b /\
    (forall mt, In mt (filter (on_edge k) ms) ->
       exists x, m_score mt = Some x /\ sc_at k cands (m_src mt, m_dst mt) = Some (Some x)) /\
    (forall b', partial_asg n m b' -> nanfree k cands b' -> length b' <= length b) /\
    (forall b', partial_asg n m b' -> nanfree k cands b' -> length b' = length b ->
                (score_total k cands b' <= score_total k cands b)%Q).
Proof. exact @match_sample_optimal_fixed. Qed.
Print Assumptions c08_matches_optimal_fixed_sample.

Theorem c08_sample_cands_complete : forall P edges (peaks : list (nat * P)) scores k,
  length (candidates edges (map fst peaks)) <= length scores ->
  complete_cands k (sample_cands edges peaks scores).
Proof. exact @sample_cands_complete. Qed.
Print Assumptions c08_sample_cands_complete.

Theorem c08_big_dominatesb_sound : forall big k cands,
  big_dominatesb big k cands = true -> big_dominates big k cands.
Proof. exact big_dominatesb_sound. Qed.
Print Assumptions c08_big_dominatesb_sound.

(* transfer: on an edge without NaN scores the current tree builds the same cost
   matrix and returns the same matches as the pinned tree, so c08_matches_optimal
   (full-size assignment, minimal total cost) describes the current tree there *)
Theorem c08_fixed_is_unfixed_without_nan : forall lsa big k cands,
  (forall c, In c (edge_cands k cands) -> c_score c <> None) ->
  edge_matrix true big k cands = edge_matrix false big k cands /\
  match_edge lsa true big k cands = match_edge lsa false big k cands.
Proof. exact match_edge_fixed_eq_no_nan. Qed.
Print Assumptions c08_fixed_is_unfixed_without_nan.

(* non-vacuity on the evaluated variant (1e6): a NaN pair is dropped, the finite
   pairs are matched, the domination hypothesis holds *)
Example ex_fixed_nan_dropped :
  match_edge lsa_bf true 1000000 0 [(0,0,2,None);(0,0,3,Some (1#2)%Q);(0,1,2,Some (1#4)%Q);(0,1,3,None)]
  = Ok [(0,0,1,Some (1#2)%Q);(0,1,0,Some (1#4)%Q)] /\
  big_dominatesb 1000000 0 [(0,0,2,None);(0,0,3,Some (1#2)%Q);(0,1,2,Some (1#4)%Q);(0,1,3,None)] = true.
Proof. exact ex_fixed_nan_dropped_value. Qed.

(* the domination hypothesis is necessary: a placeholder below the score range
   loses both finite matches ... *)
Example ex_small_big_loses_matches :
  match_edge lsa_bf true (-10) 0 [(0,0,2,None);(0,0,3,Some (1#2)%Q);(0,1,2,Some (1#2)%Q);(0,1,3,None)] = Ok [] /\
  big_dominatesb (-10) 0 [(0,0,2,None);(0,0,3,Some (1#2)%Q);(0,1,2,Some (1#2)%Q);(0,1,3,None)] = false.
Proof. exact ex_small_big_loses_value. Qed.

(* ... and so does the code's 1e6 against a line score below -1e6 (needs PAF
   values of that size; the stated domain bounds line scores so that 1e6 dominates) *)
Example ex_1e6_not_dominating :
  match_edge lsa_bf true 1000000 0 [(0,0,1,None);(0,0,2,Some (-2000000)%Q)] = Ok [] /\
  big_dominatesb 1000000 0 [(0,0,1,None);(0,0,2,Some (-2000000)%Q)] = false.
Proof. exact ex_1e6_not_dominating_value. Qed.

(* --- matrix ranks are peak ranks (review finding 3) ------------------------ *)

(* for edge k = (u, v) of a predict sample: the rows of the cost matrix are the
   peaks of node u in input order (`node_inds u` = their global positions), the
   columns those of node v; cell (i, j) holds minus the line score listed for THE
   candidate (k, i-th peak of u, j-th peak of v); and rank i in `node_inds j` is
   rank i in `peaks_of_node j` — the list c08_partition reads the payload from.
   So a match (k, i, j, x) joins the i-th input peak of node type u and the j-th of
   node type v, and x is that candidate's line score. *)
Theorem c08_ranks_are_peak_ranks :
  forall P edges (peaks : list (nat * P)) scores k u v,
  nth_error edges k = Some (u, v) -> length (candidates edges (map fst peaks)) <= length scores ->
  let cands := sample_cands edges peaks scores in
  let chans := map fst peaks in
  (node_inds v chans <> [] -> edge_srcs k cands = node_inds u chans) /\
  (node_inds u chans <> [] -> edge_dsts k cands = node_inds v chans) /\
  (node_inds u chans = [] \/ node_inds v chans = [] -> edge_cands k cands = []) /\
  (forall i j s d, nth_error (node_inds u chans) i = Some s -> nth_error (node_inds v chans) j = Some d ->
     exists x, In (k, s, d, x) cands /\
               find_score s d (edge_cands k cands) = Some x /\
               forall fx big, entry (edge_matrix fx big k cands) i j = cost_entry fx big (Some x)) /\
  (forall j i pl, nth_error (peaks_of_node j peaks) i = Some pl <->
                  exists g, nth_error (node_inds j chans) i = Some g /\ nth_error peaks g = Some (j, pl)).
Proof. exact @ranks_are_peak_ranks. Qed.
Print Assumptions c08_ranks_are_peak_ranks.

(* --- (g) totality --------------------------------------------------------- *)

(* the pipeline returns whenever the oracle does not fail; the only error it can
   produce at all is the oracle's *)
Theorem c08_total_when_oracle_answers :
  forall P lsa fixed_F3 big n_nodes edges r m mls (peaks : list (nat * P)) scores,
  lsa_contract lsa -> arborescence edges r -> edges_in_range n_nodes edges ->
  (forall k, k < length edges ->
     lsa (edge_matrix fixed_F3 big k (sample_cands edges peaks scores)) <> None) ->
  exists rows iscores,
    predict_sample lsa fixed_F3 big n_nodes edges m mls peaks scores = Ok (rows, iscores).
Proof. exact @predict_total. Qed.
Print Assumptions c08_total_when_oracle_answers.

Theorem c08_only_error_is_infeasible :
  forall P lsa fixed_F3 big n_nodes edges r m mls (peaks : list (nat * P)) scores e,
  arborescence edges r ->
  match_sample lsa fixed_F3 big (length edges) (sample_cands edges peaks scores) = Err e ->
  e = EInfeasible /\
  predict_sample lsa fixed_F3 big n_nodes edges m mls peaks scores = Err EInfeasible.
Proof. exact @predict_err. Qed.
Print Assumptions c08_only_error_is_infeasible.

(* F3 (fixed in /repo by f3ef4e3) — the full statement "grouping finishes without
   raising" is FALSE of the PINNED tree (fixed_F3 = false): one peak of node 0 and one of node 1 on the same pixel give
   the score table [NaN]; every oracle meeting the contract fails on [[+inf]] *)
Theorem c08_total_refuted :
  exists (n_nodes : nat) (edges : list edge) (r : nat) (m : mip) (mls : Q)
         (peaks : list (nat * (Q * Q * Q))) (scores : list score),
    arborescence edges r /\ edges_in_range n_nodes edges /\
    length scores = length (candidates edges (map fst peaks)) /\
    forall lsa big, lsa_contract lsa ->
      predict_sample lsa false big n_nodes edges m mls peaks scores = Err EInfeasible.
Proof. exact predict_total_refuted. Qed.
Print Assumptions c08_total_refuted.

(* the strongest true statement for the pinned tree (before f3ef4e3); the extra hypothesis is
   exactly the complement of selector nan_scores_make_edge_assignment_infeasible:
   every edge's cost matrix admits a one-to-one assignment of size min(n,m) that
   avoids the +inf (NaN) entries *)
Theorem c08_total_partial :
  forall P lsa big n_nodes edges r m mls (peaks : list (nat * P)) scores,
  lsa_contract lsa -> arborescence edges r -> edges_in_range n_nodes edges ->
  (forall k, k < length edges -> feasible (edge_matrix false big k (sample_cands edges peaks scores))) ->
  exists rows iscores, predict_sample lsa false big n_nodes edges m mls peaks scores = Ok (rows, iscores).
Proof. exact @predict_total_partial. Qed.
Print Assumptions c08_total_partial.

(* CURRENT tree (fix f3ef4e3 = proposed_fixes/C08_F3.diff): the full statement
   holds — for every score table that gives each candidate a score (NaN allowed)
   grouping finishes without raising *)
Theorem c08_total_fixed :
  forall P lsa big n_nodes edges r m mls (peaks : list (nat * P)) scores,
  lsa_contract lsa -> arborescence edges r -> edges_in_range n_nodes edges ->
  length (candidates edges (map fst peaks)) <= length scores ->
  exists rows iscores, predict_sample lsa true big n_nodes edges m mls peaks scores = Ok (rows, iscores).
Proof. exact @predict_total_fixed. Qed.
Print Assumptions c08_total_fixed.

(* --- the selector of F3, in Coq -------------------------------------------- *)

(* `selector_F3` (Grouping.v, evaluated by the harness next to its Python twin)
   is exact: false iff every edge's assignment problem is feasible ... *)
Theorem c08_selector_F3_complement : forall n cands big,
  selector_F3 n cands = false <-> forall k, k < n -> feasible (edge_matrix false big k cands).
Proof. exact selector_F3_false. Qed.
Print Assumptions c08_selector_F3_complement.

(* ... in which case the pinned tree returns (c08_total_partial, boolean form) ... *)
Theorem c08_total_outside_selector :
  forall P lsa big n_nodes edges r m mls (peaks : list (nat * P)) scores,
  lsa_contract lsa -> arborescence edges r -> edges_in_range n_nodes edges ->
  selector_F3 (length edges) (sample_cands edges peaks scores) = false ->
  exists rows iscores, predict_sample lsa false big n_nodes edges m mls peaks scores = Ok (rows, iscores).
Proof. exact @predict_total_selector. Qed.
Print Assumptions c08_total_outside_selector.

(* ... and when it is true the pinned tree fails whatever the oracle answers *)
Theorem c08_fails_inside_selector :
  forall P lsa big n_nodes edges r m mls (peaks : list (nat * P)) scores,
  lsa_contract lsa -> arborescence edges r ->
  selector_F3 (length edges) (sample_cands edges peaks scores) = true ->
  predict_sample lsa false big n_nodes edges m mls peaks scores = Err EInfeasible.
Proof. exact @selector_F3_true. Qed.
Print Assumptions c08_fails_inside_selector.

(* --- non-vacuity ------------------------------------------------------------ *)

(* the oracle contract is satisfiable: the brute-force reference used to execute
   the model meets it (for matrices of every size) *)
Theorem lsa_bf_meets_contract : lsa_contract lsa_bf.
Proof. exact lsa_bf_contract. Qed.
Print Assumptions lsa_bf_meets_contract.

Theorem feasibleb_decides_feasible : forall M, feasibleb M = true <-> feasible M.
Proof. exact feasibleb_spec. Qed.
Print Assumptions feasibleb_decides_feasible.

(* the hypotheses of the pipeline theorems are met by a non-trivial input: a
   3-node skeleton listed child edge first, two animals, one NaN score that
   leaves the edge feasible (the "lost edge" face of F3 does not arise here) *)
Example ex_arborescence_120 : arborescence [(1, 2); (0, 1)] 0.
Proof. exact arborescence_120. Qed.

Example ex_predict_two_animals :
  predict_sample lsa_bf false 0%Q 3 [(1, 2); (0, 1)] (MipInt 2) (1#4)%Q ex_peaks ex_scores
  = Ok ([[Some (1%Q, 1%Q, 1%Q); Some (2%Q, 2%Q, 1%Q); Some (3%Q, 3%Q, 1%Q)];
         [Some (11%Q, 1%Q, (1#2)%Q); Some (12%Q, 2%Q, (1#2)%Q); Some (13%Q, 3%Q, (1#2)%Q)]],
        [(5#8) + ((7#8) + 0); (1#2) + ((3#4) + 0)]%Q).
Proof. exact ex_predict_value. Qed.

(* the same skeleton and peaks on the EVALUATED variant (current tree, big = 1e6):
   the first peak of node 1 has only NaN scores towards node 2 — the pinned tree
   raises, the current tree drops the NaN pair and groups the rest *)
Example ex_predict_fixed_nan_row :
  predict_sample lsa_bf true 1000000 3 [(1, 2); (0, 1)] (MipInt 2) (1#4)%Q ex_peaks ex_scores_nan_row
  = Ok ([[Some (1%Q, 1%Q, 1%Q); Some (2%Q, 2%Q, 1%Q); None];
         [Some (11%Q, 1%Q, (1#2)%Q); Some (12%Q, 2%Q, (1#2)%Q); Some (3%Q, 3%Q, 1%Q)]],
        [(5#8)%Q; (10#8)%Q]) /\
  predict_sample lsa_bf false 1000000 3 [(1, 2); (0, 1)] (MipInt 2) (1#4)%Q ex_peaks ex_scores_nan_row
  = Err EInfeasible.
Proof. exact ex_predict_fixed_value. Qed.

(* float min_instance_peaks: 0.6 (= 5404319552844595 / 2^53) with 5 nodes and 0.3
   with 10 nodes — the binary64 product rounds up to 3.0, the exact product
   truncates to 2; dyadic fractions and ints are unaffected *)
Example ex_threshold_06_5 :
  threshold (MipFloat (5404319552844595 # 9007199254740992)) 5 = Some 3%Z /\
  Qfloor ((5404319552844595 # 9007199254740992) * inject_Z 5) = 2%Z.
Proof. exact ex_threshold_06_5_value. Qed.
Example ex_threshold_03_10 :
  threshold (MipFloat (5404319552844595 # 18014398509481984)) 10 = Some 3%Z /\
  Qfloor ((5404319552844595 # 18014398509481984) * inject_Z 10) = 2%Z.
Proof. exact ex_threshold_03_10_value. Qed.
Example ex_threshold_dyadic :
  threshold (MipFloat (1#4)) 6 = Some 1%Z /\ threshold (MipFloat 1) 5 = Some 5%Z /\
  threshold (MipFloat 0) 5 = None /\ threshold (MipInt 2) 5 = Some 2%Z.
Proof. exact ex_threshold_dyadic_value. Qed.
