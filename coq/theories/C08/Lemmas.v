(* Lemmas.v (C08) — all proofs about the grouping model (Grouping.v).

   Part A  association lists (lookup / set_), instance ids
   Part B  the invariant of assign_flat under the C17 edge order with
           one-to-one per-edge connections: only cases 1 and 2 fire
   Part C  size filter, contiguous relabelling, make_instances
   Part D  group_sample: partition, components, scores, accepted matches
   Part E  matching: the oracle contract, predict_sample, totality, F3
   Part F  the link to C17 (toposort order => edges_ordered)
   Part G  the brute-force reference meets the oracle contract; selector of F3
   Part H  matrix ranks are peak ranks (round 4, review finding 3)
   Part I  per-edge optimality of the repaired matching = current tree (finding 2)
   Part J  accepted connections are listed once (finding 6) *)
From Coq Require Import List Arith Bool ZArith QArith Qround Lia Permutation.
Import ListNotations.
From SV Require Import C17.Toposort C17.Lemmas C08.Grouping.
Open Scope nat_scope.

Lemma assign_smoke :
  assign_all [((0,1),[(0,0,1%Q);(1,1,1%Q)]); ((1,2),[(1,0,1%Q)])]
  = ([((0,0),0);((1,0),0);((0,1),1);((1,1),1);((2,0),1)], [Case1;Case1;Case2]).
Proof. vm_compute. reflexivity. Qed.

(* the lost connection when a child edge is processed before its parent edge *)
Lemma assign_smoke_dropped :
  assign_all [((1,2),[(0,0,1%Q)]); ((0,1),[(0,0,1%Q)])]
  = ([((1,0),0);((2,0),0)], [Case1;Dropped]).
Proof. vm_compute. reflexivity. Qed.

(* ====================================================================== *)
(* Part A — association lists                                              *)

Lemma pid_eqb_eq p q : pid_eqb p q = true <-> p = q.
Proof.
  destruct p as [a b], q as [c d]; unfold pid_eqb; simpl.
  rewrite andb_true_iff, !Nat.eqb_eq. split.
  - intros [-> ->]; reflexivity.
  - intros H; inversion H; auto.
Qed.

Lemma pid_eqb_refl p : pid_eqb p p = true.
Proof. apply pid_eqb_eq; reflexivity. Qed.

Lemma pid_eqb_neq p q : p <> q -> pid_eqb p q = false.
Proof.
  intros H. destruct (pid_eqb p q) eqn:E; auto. apply pid_eqb_eq in E. contradiction.
Qed.

Lemma pid_eqb_false p q : pid_eqb p q = false -> p <> q.
Proof. intros H ->. rewrite pid_eqb_refl in H. discriminate. Qed.

Lemma lookup_set q p i a :
  lookup q (set_ p i a) = if pid_eqb q p then Some i else lookup q a.
Proof.
  induction a as [|[r j] t IH]; simpl.
  - destruct (pid_eqb q p); reflexivity.
  - destruct (pid_eqb p r) eqn:E; simpl.
    + apply pid_eqb_eq in E; subst r. destruct (pid_eqb q p); reflexivity.
    + destruct (pid_eqb q r) eqn:E2.
      * apply pid_eqb_eq in E2; subst r.
        rewrite (pid_eqb_neq q p); auto. intros ->. rewrite pid_eqb_refl in E. discriminate.
      * apply IH.
Qed.

Lemma lookup_In p i a : lookup p a = Some i -> In (p, i) a.
Proof.
  induction a as [|[q j] t IH]; simpl; [discriminate|].
  destruct (pid_eqb p q) eqn:E.
  - apply pid_eqb_eq in E; subst. intros H; inversion H; auto.
  - auto.
Qed.

Lemma lookup_None_notin p a : lookup p a = None -> ~ In p (map fst a).
Proof.
  induction a as [|[q j] t IH]; simpl; auto.
  destruct (pid_eqb p q) eqn:E; [discriminate|].
  intros H [H1|H1]; [subst; rewrite pid_eqb_refl in E; discriminate | exact (IH H H1)].
Qed.

Lemma In_lookup p i a : NoDup (map fst a) -> In (p, i) a -> lookup p a = Some i.
Proof.
  induction a as [|[q j] t IH]; simpl; [tauto|].
  intros ND [H|H].
  - inversion H; subst. rewrite pid_eqb_refl. reflexivity.
  - inversion ND; subst. destruct (pid_eqb p q) eqn:E.
    + apply pid_eqb_eq in E; subst. exfalso. apply H2. apply (in_map fst) in H. exact H.
    + auto.
Qed.

Lemma In_keys_lookup p a : In p (map fst a) -> exists i, lookup p a = Some i.
Proof.
  induction a as [|[q j] t IH]; simpl; [tauto|].
  intros [H|H].
  - subst. rewrite pid_eqb_refl. eauto.
  - destruct (pid_eqb p q); eauto.
Qed.

Lemma keys_set q p i a : In q (map fst (set_ p i a)) <-> q = p \/ In q (map fst a).
Proof.
  induction a as [|[r j] t IH]; simpl.
  - split; intros [H|H]; auto; tauto.
  - destruct (pid_eqb p r) eqn:E; simpl.
    + apply pid_eqb_eq in E; subst r. split; [tauto|]. intros [H|[H|H]]; auto.
    + rewrite IH. tauto.
Qed.

Lemma NoDup_keys_set p i a : NoDup (map fst a) -> NoDup (map fst (set_ p i a)).
Proof.
  induction a as [|[r j] t IH]; simpl; intros ND.
  - constructor; [tauto|constructor].
  - destruct (pid_eqb p r) eqn:E; simpl; auto.
    inversion ND; subst. constructor; auto.
    rewrite keys_set. intros [H|H]; auto. subst. rewrite pid_eqb_refl in E. discriminate.
Qed.

Lemma keys_relabel o n a : map fst (relabel o n a) = map fst a.
Proof.
  unfold relabel. rewrite map_map. apply map_ext. intros [q j]; simpl.
  destruct (j =? o); reflexivity.
Qed.

Lemma NoDup_keys_assign_one e c a :
  NoDup (map fst a) -> NoDup (map fst (fst (assign_one e c a))).
Proof.
  intros ND. unfold assign_one.
  destruct (lookup (src_id e c) a), (lookup (dst_id e c) a); simpl.
  - match goal with |- context [if ?b then _ else _] => destruct b end; simpl.
    + apply NoDup_keys_set; auto.
    + rewrite keys_relabel. apply NoDup_keys_set; auto.
  - apply NoDup_keys_set; auto.
  - auto.
  - apply NoDup_keys_set, NoDup_keys_set; auto.
Qed.

Lemma NoDup_keys_assign_flat l a :
  NoDup (map fst a) -> NoDup (map fst (fst (assign_flat l a))).
Proof.
  revert a. induction l as [|[e c] t IH]; simpl; intros a ND; auto.
  pose proof (NoDup_keys_assign_one e c a ND) as H1.
  destruct (assign_one e c a) as [a1 f]; simpl in H1.
  specialize (IH a1 H1). destruct (assign_flat t a1) as [a2 fs]; simpl in *. exact IH.
Qed.

Lemma le_max_id p i a : lookup p a = Some i -> i <= max_id a.
Proof.
  unfold max_id. induction a as [|[q j] t IH]; simpl; [discriminate|].
  destruct (pid_eqb p q).
  - intros H; inversion H; subst. lia.
  - intros H. specialize (IH H). lia.
Qed.

Lemma lt_next_id p i a : lookup p a = Some i -> i < next_id a.
Proof.
  intros H. pose proof (le_max_id _ _ _ H). destruct a; [discriminate|]. simpl. unfold max_id in *. simpl in *. lia.
Qed.

(* ====================================================================== *)
(* Part B — the invariant                                                  *)

Definition ec := (edge * conn)%type.
Definition esrc (x : ec) : peakid := src_id (fst x) (snd x).
Definition edst (x : ec) : peakid := dst_id (fst x) (snd x).
Definition endpoint (p : peakid) (x : ec) : Prop := p = esrc x \/ p = edst x.
Definition touched (done : list ec) (p : peakid) : Prop := exists x, In x done /\ endpoint p x.

(* peaks joined by a chain of connections *)
Inductive connected (done : list ec) : peakid -> peakid -> Prop :=
| conn_refl p : connected done p p
| conn_edge x : In x done -> connected done (esrc x) (edst x)
| conn_sym p q : connected done p q -> connected done q p
| conn_trans p q r : connected done p q -> connected done q r -> connected done p r.

Lemma connected_incl d1 d2 p q : incl d1 d2 -> connected d1 p q -> connected d2 p q.
Proof.
  intros Hi H. induction H.
  - apply conn_refl.
  - apply conn_edge. auto.
  - apply conn_sym. auto.
  - eapply conn_trans; eauto.
Qed.

(* what the C17 order and the one-to-one matches give for the connection (e,c)
   processed after the connections `before` *)
Definition pos_ok (before : list ec) (e : edge) (c : conn) : Prop :=
  fst e <> snd e /\
  forall e' c', In (e', c') before ->
    (e' = e /\ csrc c' <> csrc c /\ cdst c' <> cdst c) \/
    (fst e' <> snd e /\ snd e' <> snd e).

Definition wf_from (done l : list ec) : Prop :=
  forall l1 e c l2, l = l1 ++ (e, c) :: l2 -> pos_ok (done ++ l1) e c.

Record inv (done : list ec) (a : assign) : Prop := {
  inv_dom  : forall p, (exists i, lookup p a = Some i) <-> touched done p;
  inv_conn : forall x, In x done -> exists i, lookup (esrc x) a = Some i /\ lookup (edst x) a = Some i;
  inv_node : forall p q i, lookup p a = Some i -> lookup q a = Some i -> fst p = fst q -> p = q;
  inv_same : forall p q i, lookup p a = Some i -> lookup q a = Some i -> connected done p q
}.

Lemma inv_nil : inv [] [].
Proof.
  constructor; simpl.
  - intros p; split; [intros [i H]; discriminate | intros [x [[] _]]].
  - intros x [].
  - discriminate.
  - discriminate.
Qed.

Lemma touched_app done x p : touched (done ++ [x]) p <-> touched done p \/ endpoint p x.
Proof.
  unfold touched. split.
  - intros [y [Hy He]]. apply in_app_or in Hy. destruct Hy as [Hy|[Hy|[]]].
    + left; eauto.
    + subst; auto.
  - intros [[y [Hy He]]|He].
    + exists y; split; auto. apply in_or_app; auto.
    + exists x; split; auto. apply in_or_app; right; left; auto.
Qed.

Lemma dst_fresh done a e c :
  inv done a -> pos_ok done e c -> lookup (dst_id e c) a = None.
Proof.
  intros I [Hne Hpos].
  destruct (lookup (dst_id e c) a) eqn:L; auto. exfalso.
  assert (T : touched done (dst_id e c)) by (apply (inv_dom _ _ I); eauto).
  destruct T as [[e' c'] [Hin He]].
  destruct (Hpos _ _ Hin) as [[-> [_ Hd]]|[H1 H2]]; destruct He as [He|He];
    unfold esrc, edst, src_id, dst_id in He; simpl in He; inversion He; congruence.
Qed.

Lemma step_inv done a e c :
  inv done a -> pos_ok done e c ->
  exists a' f, assign_one e c a = (a', f) /\ (f = Case1 \/ f = Case2) /\
               inv (done ++ [(e, c)]) a' /\
               (forall p i, lookup p a = Some i -> lookup p a' = Some i).
Proof.
  intros I P. pose proof (dst_fresh _ _ _ _ I P) as Ld.
  destruct P as [Hne Hpos].
  set (s := src_id e c) in *. set (d := dst_id e c) in *.
  assert (Hsd : s <> d).
  { unfold s, d, src_id, dst_id. intros H; inversion H; congruence. }
  assert (Hfst : fst s <> fst d) by (unfold s, d, src_id, dst_id; simpl; auto).
  unfold assign_one. fold s d. rewrite Ld.
  destruct (lookup s a) as [si|] eqn:Ls.
  - (* case 2 *)
    exists (set_ d si a), Case2. split; [reflexivity|]. split; [auto|].
    assert (Mono : forall p i, lookup p a = Some i -> lookup p (set_ d si a) = Some i).
    { intros p i H. rewrite lookup_set. destruct (pid_eqb p d) eqn:E; auto.
      apply pid_eqb_eq in E; subst. congruence. }
    split; [|exact Mono].
    constructor.
    + intros p. rewrite touched_app, <- (inv_dom _ _ I). rewrite lookup_set.
      destruct (pid_eqb p d) eqn:E.
      * apply pid_eqb_eq in E; subst p. split; eauto. intros _. right; right; reflexivity.
      * split; auto. intros [H|[H|H]]; auto.
        -- subst p. eauto.
        -- apply pid_eqb_false in E. contradiction.
    + intros x Hx. apply in_app_or in Hx. destruct Hx as [Hx|[Hx|[]]].
      * destruct (inv_conn _ _ I x Hx) as [i [H1 H2]]. exists i; auto.
      * subst x. exists si. unfold esrc, edst; simpl. fold s d. split; auto.
        rewrite lookup_set, pid_eqb_refl. reflexivity.
    + (* at most one peak per node per instance *)
      assert (Key : forall q, lookup q a = Some si -> fst q = fst d -> False).
      { intros q Hq Hn.
        assert (T : touched done q) by (apply (inv_dom _ _ I); eauto).
        destruct T as [[e' c'] [Hin He]].
        destruct (inv_conn _ _ I _ Hin) as [i' [Hs' Hd']].
        destruct (Hpos _ _ Hin) as [[-> [Hcs Hcd]]|[H1 H2]].
        - destruct He as [He|He]; subst q.
          + unfold esrc, src_id, d, dst_id in Hn; simpl in Hn. congruence.
          + assert (i' = si) by congruence. subst i'.
            assert (Eq : esrc (e, c') = s).
            { apply (inv_node _ _ I _ _ si); auto. }
            unfold esrc, s, src_id in Eq; simpl in Eq. inversion Eq. congruence.
        - destruct He as [He|He]; subst q; unfold esrc, edst, src_id, dst_id, d in Hn; simpl in Hn; congruence. }
      intros p q i. rewrite !lookup_set.
      destruct (pid_eqb p d) eqn:Ep; destruct (pid_eqb q d) eqn:Eq.
      * apply pid_eqb_eq in Ep, Eq. congruence.
      * apply pid_eqb_eq in Ep; subst p. intros H1 H2 H3. inversion H1; subst i.
        exfalso. apply (Key q); auto.
      * apply pid_eqb_eq in Eq; subst q. intros H1 H2 H3. inversion H2; subst i.
        exfalso. apply (Key p); auto.
      * apply (inv_node _ _ I).
    + intros p q i. rewrite !lookup_set.
      assert (Esd : connected (done ++ [(e, c)]) s d).
      { apply (conn_edge _ (e, c)). apply in_or_app; right; left; reflexivity. }
      assert (Old : forall p q i, lookup p a = Some i -> lookup q a = Some i ->
                                  connected (done ++ [(e, c)]) p q).
      { intros. eapply connected_incl; [|eapply (inv_same _ _ I); eauto]. apply incl_appl, incl_refl. }
      destruct (pid_eqb p d) eqn:Ep; destruct (pid_eqb q d) eqn:Eq.
      * apply pid_eqb_eq in Ep, Eq. subst. intros; apply conn_refl.
      * apply pid_eqb_eq in Ep; subst p. intros H1 H2. inversion H1; subst i.
        apply conn_sym. eapply conn_trans; [|exact Esd]. eapply Old; eauto.
      * apply pid_eqb_eq in Eq; subst q. intros H1 H2. inversion H2; subst i.
        eapply conn_trans; [|exact Esd]. eapply Old; eauto.
      * apply Old.
  - (* case 1 *)
    set (i0 := next_id a).
    exists (set_ d i0 (set_ s i0 a)), Case1. split; [reflexivity|]. split; [auto|].
    assert (Fresh : forall p i, lookup p a = Some i -> i < i0) by (intros; eapply lt_next_id; eauto).
    assert (Lk : forall p, lookup p (set_ d i0 (set_ s i0 a)) =
                           if pid_eqb p d then Some i0 else if pid_eqb p s then Some i0 else lookup p a).
    { intros p. rewrite !lookup_set. reflexivity. }
    assert (Mono : forall p i, lookup p a = Some i -> lookup p (set_ d i0 (set_ s i0 a)) = Some i).
    { intros p i H. rewrite Lk. destruct (pid_eqb p d) eqn:E1.
      - apply pid_eqb_eq in E1; subst; congruence.
      - destruct (pid_eqb p s) eqn:E2; auto. apply pid_eqb_eq in E2; subst; congruence. }
    split; [|exact Mono].
    assert (New : forall p, lookup p (set_ d i0 (set_ s i0 a)) = Some i0 -> p = s \/ p = d).
    { intros p. rewrite Lk. destruct (pid_eqb p d) eqn:E1; [apply pid_eqb_eq in E1; auto|].
      destruct (pid_eqb p s) eqn:E2; [apply pid_eqb_eq in E2; auto|].
      intros H. apply Fresh in H. lia. }
    assert (OldL : forall p i, i <> i0 -> lookup p (set_ d i0 (set_ s i0 a)) = Some i -> lookup p a = Some i).
    { intros p i Hi. rewrite Lk. destruct (pid_eqb p d); [congruence|]. destruct (pid_eqb p s); [congruence|auto]. }
    constructor.
    + intros p. rewrite touched_app, <- (inv_dom _ _ I). rewrite Lk.
      destruct (pid_eqb p d) eqn:E1.
      * apply pid_eqb_eq in E1; subst p. split; eauto. intros _. right; right; reflexivity.
      * destruct (pid_eqb p s) eqn:E2.
        -- apply pid_eqb_eq in E2; subst p. split; eauto. intros _. right; left; reflexivity.
        -- split; auto. intros [H|[H|H]]; auto.
           ++ apply pid_eqb_false in E2. contradiction.
           ++ apply pid_eqb_false in E1. contradiction.
    + intros x Hx. apply in_app_or in Hx. destruct Hx as [Hx|[Hx|[]]].
      * destruct (inv_conn _ _ I x Hx) as [i [H1 H2]]. exists i; auto.
      * subst x. exists i0. unfold esrc, edst; simpl. fold s d. rewrite !Lk, !pid_eqb_refl.
        rewrite (pid_eqb_neq s d); auto.
    + intros p q i Hp Hq Hn. destruct (Nat.eq_dec i i0) as [->|Hi].
      * apply New in Hp, Hq. destruct Hp, Hq; subst; auto; congruence.
      * apply (inv_node _ _ I p q i); auto.
    + intros p q i Hp Hq. destruct (Nat.eq_dec i i0) as [->|Hi].
      * assert (Esd : connected (done ++ [(e, c)]) s d).
        { apply (conn_edge _ (e, c)). apply in_or_app; right; left; reflexivity. }
        apply New in Hp, Hq. destruct Hp, Hq; subst; auto using conn_refl, conn_sym.
      * eapply connected_incl; [|eapply (inv_same _ _ I p q i); eauto]. apply incl_appl, incl_refl.
Qed.

Definition case12 (f : fired) : Prop := f = Case1 \/ f = Case2.

Lemma assign_flat_inv l : forall done a,
  inv done a -> wf_from done l ->
  inv (done ++ l) (fst (assign_flat l a)) /\ Forall case12 (snd (assign_flat l a)) /\
  (forall p i, lookup p a = Some i -> lookup p (fst (assign_flat l a)) = Some i).
Proof.
  induction l as [|[e c] t IH]; intros done a I W; simpl.
  - rewrite app_nil_r. auto.
  - assert (P : pos_ok done e c).
    { specialize (W [] e c t eq_refl). rewrite app_nil_r in W. exact W. }
    destruct (step_inv _ _ _ _ I P) as [a1 [f [E [Hf [I1 M1]]]]].
    rewrite E.
    assert (W1 : wf_from (done ++ [(e, c)]) t).
    { intros l1 e' c' l2 ->. specialize (W ((e, c) :: l1) e' c' l2 eq_refl).
      rewrite <- app_assoc. exact W. }
    destruct (IH _ _ I1 W1) as [I2 [F2 M2]].
    destruct (assign_flat t a1) as [a2 fs]; simpl in *.
    rewrite <- app_assoc in I2. simpl in I2. auto.
Qed.

(* ---------------------------------------------------------------------- *)
(* from the per-edge form of the hypotheses to wf_from                     *)

(* the C17 order: when edge e = (u,v) is processed, u <> v and no earlier
   processed edge has v as its source or destination *)
Definition edges_ordered (es : list edge) : Prop :=
  forall l1 e l2, es = l1 ++ e :: l2 ->
    fst e <> snd e /\ forall e', In e' l1 -> fst e' <> snd e /\ snd e' <> snd e.

Definition one_to_one (cs : list conn) : Prop := NoDup (map csrc cs) /\ NoDup (map cdst cs).

Lemma app_split_mid {A} (X Y l1 l2 : list A) x : X ++ Y = l1 ++ x :: l2 ->
  (exists x2, X = l1 ++ x :: x2 /\ l2 = x2 ++ Y) \/ (exists y1, l1 = X ++ y1 /\ Y = y1 ++ x :: l2).
Proof.
  revert l1. induction X as [|a X IH]; intros l1 H; simpl in *.
  - right. exists l1; auto.
  - destruct l1 as [|b l1]; simpl in *.
    + inversion H; subst. left. exists X; auto.
    + inversion H; subst. destruct (IH _ H2) as [[x2 [-> ->]]|[y1 [-> ->]]].
      * left; exists x2; auto.
      * right; exists y1; auto.
Qed.

Lemma map_split_mid {A B} (f : A -> B) l l1 y l2 : map f l = l1 ++ y :: l2 ->
  exists a1 x a2, l = a1 ++ x :: a2 /\ map f a1 = l1 /\ f x = y /\ map f a2 = l2.
Proof.
  revert l1. induction l as [|a l IH]; intros l1 H; simpl in *.
  - destruct l1; discriminate.
  - destruct l1 as [|b l1]; simpl in *.
    + inversion H; subst. exists [], a, l; auto.
    + inversion H; subst. destruct (IH _ H2) as [a1 [x [a2 [-> [<- [<- <-]]]]]].
      exists (a :: a1), x, a2; auto.
Qed.

Lemma flatten_cons e cs t : flatten ((e, cs) :: t) = map (pair e) cs ++ flatten t.
Proof. reflexivity. Qed.

Lemma flatten_app E1 E2 : flatten (E1 ++ E2) = flatten E1 ++ flatten E2.
Proof. unfold flatten. apply flat_map_app. Qed.

Lemma flatten_split ecs : forall l1 e c l2, flatten ecs = l1 ++ (e, c) :: l2 ->
  exists E1 cs E2 c1 c2, ecs = E1 ++ (e, cs) :: E2 /\ cs = c1 ++ c :: c2 /\
                         l1 = flatten E1 ++ map (pair e) c1.
Proof.
  induction ecs as [|[e0 cs0] t IH]; intros l1 e c l2 H.
  - destruct l1; discriminate.
  - rewrite flatten_cons in H. apply app_split_mid in H.
    destruct H as [[x2 [H1 H2]]|[y1 [H1 H2]]].
    + apply map_split_mid in H1. destruct H1 as [c1 [c0 [c2 [-> [<- [Hx _]]]]]].
      inversion Hx; subst. exists [], (c1 ++ c :: c2), t, c1, c2. auto.
    + destruct (IH _ _ _ _ H2) as [E1 [cs [E2 [c1 [c2 [-> [-> ->]]]]]]].
      exists ((e0, cs0) :: E1), (c1 ++ c :: c2), E2, c1, c2. subst l1.
      rewrite flatten_cons, app_assoc. auto.
Qed.

Lemma in_flatten e c ecs : In (e, c) (flatten ecs) <-> exists cs, In (e, cs) ecs /\ In c cs.
Proof.
  unfold flatten. rewrite in_flat_map. split.
  - intros [[e0 cs] [H1 H2]]. simpl in H2. apply in_map_iff in H2. destruct H2 as [c0 [H2 H3]].
    inversion H2; subst. eauto.
  - intros [cs [H1 H2]]. exists (e, cs). split; auto. simpl. apply in_map. auto.
Qed.

Lemma NoDup_map_mid_neq {A B} (f : A -> B) l1 x l2 y :
  NoDup (map f (l1 ++ x :: l2)) -> In y l1 -> f y <> f x.
Proof.
  rewrite map_app. simpl. intros ND Hy E. apply NoDup_remove_2 in ND. apply ND.
  apply in_or_app. left. rewrite <- E. apply in_map. auto.
Qed.

Lemma wf_of_econns ecs :
  edges_ordered (map fst ecs) -> (forall e cs, In (e, cs) ecs -> one_to_one cs) ->
  wf_from [] (flatten ecs).
Proof.
  intros Hord H11 l1 e c l2 Hs. simpl.
  destruct (flatten_split _ _ _ _ _ Hs) as [E1 [cs [E2 [c1 [c2 [HE [Hcs Hl1]]]]]]].
  assert (Hin : In (e, cs) ecs) by (rewrite HE; apply in_or_app; right; left; reflexivity).
  destruct (H11 _ _ Hin) as [ND1 ND2].
  specialize (Hord (map fst E1) e (map fst E2)).
  rewrite HE, map_app in Hord. simpl in Hord. destruct (Hord eq_refl) as [Hne Hbefore].
  split; auto. intros e' c' H'. rewrite Hl1 in H'. apply in_app_or in H'. destruct H' as [H'|H'].
  - right. apply Hbefore. apply in_flatten in H'. destruct H' as [cs' [H1 _]].
    apply (in_map fst) in H1. exact H1.
  - left. apply in_map_iff in H'. destruct H' as [c0 [H1 H2]]. inversion H1; subst e' c0.
    subst cs. split; auto. split.
    + eapply (NoDup_map_mid_neq csrc); eauto.
    + eapply (NoDup_map_mid_neq cdst); eauto.
Qed.

(* the invariant holds after assign_all, and only cases 1 and 2 fired *)
Lemma assign_all_inv ecs :
  edges_ordered (map fst ecs) -> (forall e cs, In (e, cs) ecs -> one_to_one cs) ->
  inv (flatten ecs) (fst (assign_all ecs)) /\ Forall case12 (snd (assign_all ecs)) /\
  NoDup (map fst (fst (assign_all ecs))).
Proof.
  intros Ho H1. unfold assign_all.
  destruct (assign_flat_inv (flatten ecs) [] [] inv_nil (wf_of_econns _ Ho H1)) as [I [F _]].
  simpl in I. split; auto. split; auto. apply NoDup_keys_assign_flat. constructor.
Qed.

(* ====================================================================== *)
(* Part C — size filter, contiguous relabelling, make_instances            *)

Lemma lookup_notin p a : ~ In p (map fst a) -> lookup p a = None.
Proof.
  intros H. destruct (lookup p a) eqn:L; auto. apply lookup_In in L.
  exfalso. apply H. apply (in_map fst) in L. exact L.
Qed.

Lemma keys_filter_incl (f : peakid * nat -> bool) a p : In p (map fst (filter f a)) -> In p (map fst a).
Proof.
  rewrite !in_map_iff. intros [x [H1 H2]]. apply filter_In in H2. exists x; tauto.
Qed.

Lemma NoDup_keys_filter (f : peakid * nat -> bool) a : NoDup (map fst a) -> NoDup (map fst (filter f a)).
Proof.
  induction a as [|x t IH]; simpl; intros ND; [constructor|].
  inversion ND; subst. destruct (f x); simpl; auto.
  constructor; auto. intros H. apply H1. eapply keys_filter_incl; eauto.
Qed.

Lemma lookup_filter (f : peakid * nat -> bool) p a : NoDup (map fst a) ->
  lookup p (filter f a) = match lookup p a with
                          | Some i => if f (p, i) then Some i else None
                          | None => None end.
Proof.
  induction a as [|[q j] t IH]; simpl; intros ND; auto.
  inversion ND; subst.
  destruct (pid_eqb p q) eqn:E.
  - apply pid_eqb_eq in E; subst q. destruct (f (p, j)) eqn:F; simpl.
    + rewrite pid_eqb_refl. reflexivity.
    + apply lookup_notin. intros H. apply H1. eapply keys_filter_incl; eauto.
  - destruct (f (q, j)); simpl; [rewrite E|]; auto.
Qed.

Lemma lookup_map_vals (g : nat -> nat) p a :
  lookup p (map (fun x => (fst x, g (snd x))) a) = option_map g (lookup p a).
Proof.
  induction a as [|[q j] t IH]; simpl; auto. destruct (pid_eqb p q); auto.
Qed.

Definition keepb (thr : option Z) (a : assign) (i : nat) : bool :=
  match thr with None => true | Some t => (t <=? Z.of_nat (count_inst i a))%Z end.

Lemma filter_small_eq thr a : filter_small thr a = filter (fun x => keepb thr a (snd x)) a.
Proof.
  unfold filter_small, keepb. destruct thr; auto.
  induction a as [|x t IH]; simpl; auto. f_equal. exact IH.
Qed.

(* sort_unique *)
Lemma insert_u_In x y l : In y (insert_u x l) <-> y = x \/ In y l.
Proof.
  induction l as [|z t IH]; simpl; [intuition|].
  destruct (x <? z) eqn:E1; simpl; [intuition|].
  destruct (x =? z) eqn:E2; simpl.
  - apply Nat.eqb_eq in E2; subst. intuition.
  - rewrite IH. intuition.
Qed.

Lemma sort_unique_In y l : In y (sort_unique l) <-> In y l.
Proof.
  unfold sort_unique. induction l as [|x t IH]; simpl; [tauto|].
  rewrite insert_u_In, IH. intuition.
Qed.

Definition sorted_lt (l : list nat) : Prop := forall i j, i < j < length l -> nth i l 0 < nth j l 0.

Inductive ssorted : list nat -> Prop :=
| ss_nil : ssorted []
| ss_cons x l : (forall y, In y l -> x < y) -> ssorted l -> ssorted (x :: l).

Lemma insert_u_ssorted x l : ssorted l -> ssorted (insert_u x l).
Proof.
  induction 1 as [|z t Hz Ht IH]; simpl.
  - constructor; [intros y []|constructor].
  - destruct (x <? z) eqn:E1.
    + apply Nat.ltb_lt in E1. constructor; [|constructor; auto].
      intros y [<-|Hy]; auto. specialize (Hz _ Hy). lia.
    + destruct (x =? z) eqn:E2.
      * constructor; auto.
      * apply Nat.ltb_ge in E1. apply Nat.eqb_neq in E2. constructor; auto.
        intros y Hy. apply insert_u_In in Hy. destruct Hy as [->|Hy]; [lia|auto].
Qed.

Lemma sort_unique_ssorted l : ssorted (sort_unique l).
Proof.
  unfold sort_unique. induction l; simpl; [constructor|apply insert_u_ssorted; auto].
Qed.

Lemma ssorted_NoDup l : ssorted l -> NoDup l.
Proof.
  induction 1; constructor; auto. intros Hin. specialize (H _ Hin). lia.
Qed.

Lemma sort_unique_NoDup l : NoDup (sort_unique l).
Proof. apply ssorted_NoDup, sort_unique_ssorted. Qed.

Lemma pos_of_lt i ids : In i ids -> pos_of i ids < length ids.
Proof.
  induction ids as [|x t IH]; simpl; [tauto|].
  destruct (x =? i) eqn:E; [lia|]. intros [H|H]; [subst; rewrite Nat.eqb_refl in E; discriminate|].
  specialize (IH H). lia.
Qed.

Lemma nth_pos_of i ids : In i ids -> nth (pos_of i ids) ids 0 = i.
Proof.
  induction ids as [|x t IH]; simpl; [tauto|].
  destruct (x =? i) eqn:E; [apply Nat.eqb_eq in E; auto|].
  intros [H|H]; [subst; rewrite Nat.eqb_refl in E; discriminate|auto].
Qed.

Lemma pos_of_inj i j ids : In i ids -> In j ids -> pos_of i ids = pos_of j ids -> i = j.
Proof.
  intros Hi Hj E. rewrite <- (nth_pos_of i ids Hi), <- (nth_pos_of j ids Hj), E. reflexivity.
Qed.

Lemma pos_of_nth r ids : NoDup ids -> r < length ids -> pos_of (nth r ids 0) ids = r.
Proof.
  revert r. induction ids as [|x t IH]; simpl; intros r ND Hr; [lia|].
  inversion ND; subst. destruct r as [|r].
  - rewrite Nat.eqb_refl. reflexivity.
  - destruct (x =? nth r t 0) eqn:E.
    + apply Nat.eqb_eq in E. exfalso. apply H1. rewrite E. apply nth_In. lia.
    + f_equal. apply IH; auto. lia.
Qed.

(* check_conns *)
Lemma check_conns_ok l a :
  (forall x i, In x l -> lookup (esrc x) a = Some i -> lookup (edst x) a = Some i) ->
  check_conns l a = None.
Proof.
  induction l as [|[e c] t IH]; simpl; intros H; auto.
  destruct (lookup (src_id e c) a) as [i|] eqn:L.
  - pose proof (H (e, c) i (or_introl eq_refl) L) as Hd. unfold edst in Hd. simpl in Hd.
    rewrite Hd, Nat.eqb_refl. apply IH. intros x j Hx. apply H. right; exact Hx.
  - apply IH. intros x j Hx. apply H. right; exact Hx.
Qed.

(* cell_id *)
Lemma cell_id_In a i j k : cell_id a i j = Some k -> In ((j, k), i) a.
Proof.
  unfold cell_id.
  match goal with |- context [find ?f ?l] => destruct (find f l) as [[[n k'] r]|] eqn:F end; [|discriminate].
  simpl. intros H; inversion H; subst k'. apply find_some in F. destruct F as [F1 F2].
  simpl in F2. apply andb_true_iff in F2. destruct F2 as [F2 F3].
  apply Nat.eqb_eq in F2, F3. subst. apply in_rev. exact F1.
Qed.

Lemma In_cell_id a i j k :
  (forall k', In ((j, k'), i) a -> k' = k) -> In ((j, k), i) a -> cell_id a i j = Some k.
Proof.
  intros U H. unfold cell_id.
  match goal with |- context [find ?f ?l] => destruct (find f l) as [[[n k'] r]|] eqn:F end.
  - apply find_some in F. destruct F as [F1 F2]. simpl in F2.
    apply andb_true_iff in F2. destruct F2 as [F2 F3]. apply Nat.eqb_eq in F2, F3. subst.
    apply in_rev in F1. simpl. f_equal. apply U. exact F1.
  - exfalso. apply in_rev in H. pose proof (find_none _ _ F _ H) as N. simpl in N.
    rewrite !Nat.eqb_refl in N. discriminate.
Qed.

(* ====================================================================== *)
(* Part D — grouping under the hypotheses                                  *)

Lemma connected_same_inst done a p q :
  inv done a -> connected done p q ->
  p = q \/ exists i, lookup p a = Some i /\ lookup q a = Some i.
Proof.
  intros I H. induction H.
  - left; reflexivity.
  - right. apply (inv_conn _ _ I). auto.
  - destruct IHconnected as [->|[i [H1 H2]]]; [left; reflexivity|right; eauto].
  - destruct IHconnected1 as [->|[i [H1 H2]]]; auto.
    destruct IHconnected2 as [<-|[j [H3 H4]]]; [right; eauto|].
    right. exists i. split; auto. congruence.
Qed.

(* the final PeakID -> row map of group_instances_sample *)
Definition out_assign (ecs : econns) (m : mip) (n_nodes : nat) : assign :=
  relabel_contig (assign_connections ecs m n_nodes).

Section Group.
  Variables (ecs : econns) (m : mip) (n_nodes : nat).
  Hypothesis Hord : edges_ordered (map fst ecs).
  Hypothesis H11 : forall e cs, In (e, cs) ecs -> one_to_one cs.

  Let a := fst (assign_all ecs).
  Let thr := threshold m n_nodes.
  Let af := assign_connections ecs m n_nodes.
  Let ao := out_assign ecs m n_nodes.
  Let ids := inst_ids af.
  Let done := flatten ecs.

  Lemma g_inv : inv done a.
  Proof. apply assign_all_inv; auto. Qed.
  Lemma g_nodup : NoDup (map fst a).
  Proof. apply assign_all_inv; auto. Qed.
  Lemma g_fired : Forall case12 (snd (assign_all ecs)).
  Proof. apply assign_all_inv; auto. Qed.

  Lemma g_af : af = filter (fun x => keepb thr a (snd x)) a.
  Proof. unfold af, assign_connections. apply filter_small_eq. Qed.

  Lemma g_nodup_af : NoDup (map fst af).
  Proof. rewrite g_af. apply NoDup_keys_filter, g_nodup. Qed.

  Lemma g_lookup_af p :
    lookup p af = match lookup p a with
                  | Some i => if keepb thr a i then Some i else None
                  | None => None end.
  Proof. rewrite g_af. rewrite lookup_filter by apply g_nodup. reflexivity. Qed.

  Lemma g_lookup p :
    lookup p ao = match lookup p a with
                  | Some i => if keepb thr a i then Some (pos_of i ids) else None
                  | None => None end.
  Proof.
    unfold ao, out_assign, relabel_contig. fold af. fold ids.
    rewrite (lookup_map_vals (fun i => pos_of i ids)). rewrite g_lookup_af.
    destruct (lookup p a) as [i|]; simpl; auto. destruct (keepb thr a i); reflexivity.
  Qed.

  Lemma g_kept_in_ids p i : lookup p a = Some i -> keepb thr a i = true -> In i ids.
  Proof.
    intros L K. unfold ids, inst_ids. apply sort_unique_In.
    assert (H : lookup p af = Some i) by (rewrite g_lookup_af, L, K; reflexivity).
    apply lookup_In in H. apply (in_map snd) in H. exact H.
  Qed.

  (* lookup in the final map, inverted *)
  Lemma g_lookup_inv p r : lookup p ao = Some r ->
    exists i, lookup p a = Some i /\ keepb thr a i = true /\ r = pos_of i ids /\ In i ids.
  Proof.
    rewrite g_lookup. destruct (lookup p a) as [i|] eqn:L; [|discriminate].
    destruct (keepb thr a i) eqn:K; [|discriminate]. intros H; inversion H.
    exists i. repeat split; auto. eapply g_kept_in_ids; eauto.
  Qed.

  Lemma g_same_raw p q r : lookup p ao = Some r -> lookup q ao = Some r ->
    exists i, lookup p a = Some i /\ lookup q a = Some i.
  Proof.
    intros Hp Hq. apply g_lookup_inv in Hp, Hq.
    destruct Hp as [i [L1 [_ [E1 I1]]]], Hq as [j [L2 [_ [E2 I2]]]].
    assert (i = j) by (eapply pos_of_inj; eauto; congruence). subst j. eauto.
  Qed.

  (* (a) the internal assert cannot fail *)
  Lemma g_conn x r : In x done -> lookup (esrc x) ao = Some r -> lookup (edst x) ao = Some r.
  Proof.
    intros Hx. destruct (inv_conn _ _ g_inv x Hx) as [i [H1 H2]].
    rewrite !g_lookup, H1, H2. auto.
  Qed.

  Lemma g_conn_rev x r : In x done -> lookup (edst x) ao = Some r -> lookup (esrc x) ao = Some r.
  Proof.
    intros Hx. destruct (inv_conn _ _ g_inv x Hx) as [i [H1 H2]].
    rewrite !g_lookup, H1, H2. auto.
  Qed.

  Lemma g_check : check_conns done ao = None.
  Proof. apply check_conns_ok. intros x i Hx. apply g_conn; auto. Qed.

  (* (b) *)
  Lemma g_nodup_out : NoDup (map fst ao).
  Proof.
    unfold ao, out_assign, relabel_contig. fold af. rewrite map_map. simpl. apply g_nodup_af.
  Qed.

  Lemma g_node p q r : lookup p ao = Some r -> lookup q ao = Some r -> fst p = fst q -> p = q.
  Proof.
    intros Hp Hq. destruct (g_same_raw _ _ _ Hp Hq) as [i [L1 L2]].
    apply (inv_node _ _ g_inv p q i); auto.
  Qed.

  Lemma g_row_lt p r : lookup p ao = Some r -> r < length ids.
  Proof.
    intros H. apply g_lookup_inv in H. destruct H as [i [_ [_ [-> Hi]]]]. apply pos_of_lt; auto.
  Qed.

  Lemma g_row_nonempty r : r < length ids -> exists p, lookup p ao = Some r.
  Proof.
    intros Hr. assert (Hin : In (nth r ids 0) (map snd af)).
    { apply sort_unique_In. exact (nth_In ids 0 Hr). }
    apply in_map_iff in Hin. destruct Hin as [[p i] [E Hin]]. simpl in E.
    exists p. apply In_lookup in Hin; [|apply g_nodup_af].
    unfold ao, out_assign, relabel_contig. fold af. fold ids.
    rewrite (lookup_map_vals (fun i => pos_of i ids)), Hin. simpl. f_equal.
    rewrite E. apply pos_of_nth; auto. apply sort_unique_NoDup.
  Qed.

  Lemma g_cell r j k : cell_id ao r j = Some k <-> lookup (j, k) ao = Some r.
  Proof.
    split.
    - intros H. apply cell_id_In in H. apply In_lookup; auto. apply g_nodup_out.
    - intros H. apply In_cell_id.
      + intros k' H'. apply In_lookup in H'; [|apply g_nodup_out].
        assert (E : (j, k') = (j, k)) by (eapply g_node; eauto). inversion E; auto.
      + apply lookup_In; auto.
  Qed.

  (* (c) *)
  Lemma g_components p q r s : lookup p ao = Some r -> lookup q ao = Some s ->
    (r = s <-> connected done p q).
  Proof.
    intros Hp Hq. split.
    - intros <-. destruct (g_same_raw _ _ _ Hp Hq) as [i [L1 L2]].
      apply (inv_same _ _ g_inv p q i); auto.
    - intros C. destruct (connected_same_inst _ _ _ _ g_inv C) as [->|[i [L1 L2]]]; [congruence|].
      rewrite g_lookup, L1 in Hp. rewrite g_lookup, L2 in Hq.
      destruct (keepb thr a i); congruence.
  Qed.

  Lemma g_raw_dom p : (exists i, lookup p a = Some i) <-> touched done p.
  Proof. apply (inv_dom _ _ g_inv). Qed.

  (* the peaks of raw instance i: a duplicate-free enumeration of the component *)
  Definition members (i : nat) : list peakid := map fst (filter (fun x => snd x =? i) a).

  Lemma g_members_len i : length (members i) = count_inst i a.
  Proof. unfold members, count_inst. apply map_length. Qed.

  Lemma g_members_nodup i : NoDup (members i).
  Proof. unfold members. apply NoDup_keys_filter, g_nodup. Qed.

  Lemma g_members_in i q : In q (members i) <-> lookup q a = Some i.
  Proof.
    unfold members. rewrite in_map_iff. split.
    - intros [[q' j] [E H]]. simpl in E; subst q'. apply filter_In in H. destruct H as [H1 H2].
      simpl in H2. apply Nat.eqb_eq in H2; subst j. apply In_lookup; auto. apply g_nodup.
    - intros H. exists (q, i). split; auto. apply filter_In. split.
      + apply lookup_In; auto.
      + simpl. apply Nat.eqb_refl.
  Qed.

  Lemma g_members_component p i q : lookup p a = Some i ->
    (In q (members i) <-> connected done p q).
  Proof.
    intros L. rewrite g_members_in. split.
    - intros H. apply (inv_same _ _ g_inv p q i); auto.
    - intros C. destruct (connected_same_inst _ _ _ _ g_inv C) as [<-|[j [L1 L2]]]; congruence.
  Qed.

  Definition survives (p : peakid) : Prop :=
    match thr with
    | None => True
    | Some t => exists comp, NoDup comp /\ (forall q, In q comp <-> connected done p q) /\
                             (t <= Z.of_nat (length comp))%Z
    end.

  Lemma g_dom p : (exists r, lookup p ao = Some r) <-> touched done p /\ survives p.
  Proof.
    rewrite <- g_raw_dom. rewrite g_lookup. split.
    - intros [r H]. destruct (lookup p a) as [i|] eqn:L; [|discriminate].
      split; eauto. destruct (keepb thr a i) eqn:K; [|discriminate].
      unfold survives, keepb in *. destruct thr as [t|]; auto.
      exists (members i). split; [apply g_members_nodup|]. split.
      + intros q. apply g_members_component; auto.
      + rewrite g_members_len. apply Z.leb_le; auto.
    - intros [[i L] S]. rewrite L.
      assert (K : keepb thr a i = true).
      { unfold survives, keepb in *. destruct thr as [t|]; auto.
        destruct S as [comp [ND [Hc Hl]]]. apply Z.leb_le.
        assert (E : length comp = length (members i)).
        { apply Nat.le_antisymm; apply NoDup_incl_length; auto using g_members_nodup;
            intros q Hq; [apply g_members_component with (p := p)|apply Hc]; auto;
            [apply Hc|apply g_members_component with (p := p) in Hq]; auto. }
        rewrite <- g_members_len, <- E. exact Hl. }
      rewrite K. eauto.
  Qed.

  (* (d) *)
  Lemma g_score_both x r : In x done -> src_in ao r x = true ->
    lookup (esrc x) ao = Some r /\ lookup (edst x) ao = Some r.
  Proof.
    intros Hx H. unfold src_in in H. fold (esrc x) in H.
    destruct (lookup (esrc x) ao) as [j|] eqn:L; [|discriminate].
    apply Nat.eqb_eq in H; subst j. split; auto. apply g_conn; auto.
  Qed.

  Lemma g_score_conv x r : In x done ->
    (lookup (esrc x) ao = Some r \/ lookup (edst x) ao = Some r) -> src_in ao r x = true.
  Proof.
    intros Hx H. assert (L : lookup (esrc x) ao = Some r).
    { destruct H; auto. apply g_conn_rev; auto. }
    unfold src_in. fold (esrc x). rewrite L. apply Nat.eqb_refl.
  Qed.

  (* (g) no IndexError *)
  Variable P : Type.
  Variable peaks : list (nat * P).
  Hypothesis Hrange : forall e c, In (e, c) done ->
    fst e < n_nodes /\ snd e < n_nodes /\
    csrc c < length (peaks_of_node (fst e) peaks) /\ cdst c < length (peaks_of_node (snd e) peaks).

  Lemma node_peaks_len : length (node_peaks n_nodes peaks) = n_nodes.
  Proof. unfold node_peaks. rewrite map_length, seq_length. reflexivity. Qed.

  Lemma node_peaks_nth j : j < n_nodes -> nth j (node_peaks n_nodes peaks) [] = peaks_of_node j peaks.
  Proof.
    intros H. unfold node_peaks.
    rewrite (nth_indep _ [] (peaks_of_node 0 peaks)) by (rewrite map_length, seq_length; auto).
    rewrite (map_nth (fun j => peaks_of_node j peaks)). rewrite seq_nth; auto.
  Qed.

  Lemma g_key_range j k r : lookup (j, k) ao = Some r ->
    j < n_nodes /\ k < length (peaks_of_node j peaks).
  Proof.
    intros H. assert (T : touched done (j, k)) by (apply g_dom; eauto).
    destruct T as [[e c] [Hin [E|E]]]; destruct (Hrange _ _ Hin) as [H1 [H2 [H3 H4]]];
      unfold esrc, edst, src_id, dst_id in E; simpl in E; inversion E; subst; auto.
  Qed.

  Lemma g_in_range : in_range (node_peaks n_nodes peaks) ao = true.
  Proof.
    unfold in_range. apply forallb_forall. intros [[j k] r] Hin. simpl.
    apply In_lookup in Hin; [|apply g_nodup_out]. destruct (g_key_range _ _ _ Hin) as [H1 H2].
    rewrite node_peaks_len, node_peaks_nth by auto.
    apply andb_true_iff. split; apply Nat.ltb_lt; auto.
  Qed.

  Lemma g_make :
    make_instances (node_peaks n_nodes peaks) ecs af =
    Ok (map (fun r => map (fun j => cell (node_peaks n_nodes peaks) ao r j) (seq 0 n_nodes)) (seq 0 (length ids)),
        map (inst_score done ao) (seq 0 (length ids))).
  Proof.
    unfold make_instances. fold done. fold ids.
    change (relabel_contig af) with ao. rewrite g_check, g_in_range, node_peaks_len. reflexivity.
  Qed.

  Lemma g_cell_payload r j pl : j < n_nodes ->
    (cell (node_peaks n_nodes peaks) ao r j = Some pl <->
     exists k, lookup (j, k) ao = Some r /\ nth_error (peaks_of_node j peaks) k = Some pl).
  Proof.
    intros Hj. unfold cell. rewrite node_peaks_nth by auto. split.
    - destruct (cell_id ao r j) as [k|] eqn:C; [|discriminate]. intros H. exists k. split; auto.
      apply g_cell; auto.
    - intros [k [H1 H2]]. apply g_cell in H1. rewrite H1. exact H2.
  Qed.
End Group.

(* ---------------------------------------------------------------------- *)
(* group_instances_sample: from hypotheses on (edges, sorted, matches)     *)

Definition on_edge (k : nat) (m : mtch) : bool := m_edge m =? k.

Definition matches_one_to_one (ms : list mtch) : Prop :=
  forall k, NoDup (map m_src (filter (on_edge k) ms)) /\ NoDup (map m_dst (filter (on_edge k) ms)).

Definition matches_in_range {P} (n_nodes : nat) (edges : list edge) (mls : Q)
           (peaks : list (nat * P)) (ms : list mtch) : Prop :=
  forall mt u v, In mt ms -> accept mls mt = true -> nth_error edges (m_edge mt) = Some (u, v) ->
    u < n_nodes /\ v < n_nodes /\
    m_src mt < length (peaks_of_node u peaks) /\ m_dst mt < length (peaks_of_node v peaks).

Definition group_hyps {P} (n_nodes : nat) (edges : list edge) (sorted : list nat) (mls : Q)
           (peaks : list (nat * P)) (ms : list mtch) (ecs : econns) : Prop :=
  build_econns edges sorted mls ms = Some ecs /\ edges_ordered (map fst ecs) /\
  matches_one_to_one ms /\ matches_in_range n_nodes edges mls peaks ms.

Lemma map_fst_combine_eq {A B} (l1 : list A) (l2 : list B) :
  length l1 = length l2 -> map fst (combine l1 l2) = l1.
Proof.
  revert l2. induction l1 as [|x t IH]; intros [|y l2] H; simpl in *; try discriminate; auto.
  f_equal. apply IH. lia.
Qed.

Lemma in_combine_maps {A B C} (g : A -> option B) (f : A -> C) l : forall es y z,
  map g l = map Some es -> In (y, z) (combine es (map f l)) ->
  exists x, In x l /\ g x = Some y /\ z = f x.
Proof.
  induction l as [|x t IH]; intros [|e es] y z H Hin; simpl in *; try discriminate; try tauto.
  inversion H. destruct Hin as [Hin|Hin].
  - inversion Hin; subst. exists x. auto.
  - destruct (IH _ _ _ H2 Hin) as [x' [H3 [H4 H5]]]. exists x'. auto.
Qed.

Lemma maps_in_combine {A B C} (g : A -> option B) (f : A -> C) l : forall es x y,
  map g l = map Some es -> In x l -> g x = Some y -> In (y, f x) (combine es (map f l)).
Proof.
  induction l as [|x0 t IH]; intros [|e es] x y H Hin Hg; simpl in *; try discriminate; try tauto.
  inversion H. destruct Hin as [->|Hin].
  - left. congruence.
  - right. eapply IH; eauto.
Qed.

Lemma build_econns_spec edges sorted mls ms ecs :
  build_econns edges sorted mls ms = Some ecs ->
  exists es, map (fun k => nth_error edges k) sorted = map Some es /\
             ecs = combine es (map (fun k => conns_of_edge k (filter (accept mls) ms)) sorted) /\
             map fst ecs = es.
Proof.
  unfold build_econns.
  destruct (all_some (map (fun k => nth_error edges k) sorted)) as [es|] eqn:E; [|discriminate].
  intros H; inversion H. exists es. apply all_some_Some in E. split; auto. split; auto.
  apply map_fst_combine_eq. apply (f_equal (@length _)) in E. rewrite !map_length in *. lia.
Qed.

Lemma filter_comm {A} (f g : A -> bool) l : filter f (filter g l) = filter g (filter f l).
Proof.
  induction l as [|x t IH]; simpl; auto.
  destruct (g x) eqn:G; destruct (f x) eqn:F; simpl; rewrite ?G, ?F, IH; reflexivity.
Qed.

Lemma NoDup_map_filter {A B} (f : A -> B) (g : A -> bool) l :
  NoDup (map f l) -> NoDup (map f (filter g l)).
Proof.
  induction l as [|x t IH]; simpl; intros ND; [constructor|].
  inversion ND; subst. destruct (g x); simpl; auto. constructor; auto.
  intros H. apply H1. apply in_map_iff in H. destruct H as [y [E Hy]].
  apply filter_In in Hy. rewrite <- E. apply in_map. tauto.
Qed.

Lemma conn_of_src mt c : In c (conn_of mt) -> csrc c = m_src mt /\ cdst c = m_dst mt /\ m_score mt = Some (cscore c).
Proof.
  unfold conn_of. destruct (m_score mt) as [s|]; simpl; [|tauto].
  intros [<-|[]]. auto.
Qed.

Lemma NoDup_conns (pc : conn -> nat) (pm : mtch -> nat) l :
  (forall mt c, In c (conn_of mt) -> pc c = pm mt) ->
  NoDup (map pm l) -> NoDup (map pc (flat_map conn_of l)).
Proof.
  intros Hp. induction l as [|mt t IH]; simpl; intros ND; [constructor|].
  inversion ND; subst. specialize (IH H2).
  unfold conn_of at 1. destruct (m_score mt) as [s|] eqn:S; simpl; auto.
  constructor; auto. intros H. apply H1.
  apply in_map_iff in H. destruct H as [c [E Hc]]. apply in_flat_map in Hc.
  destruct Hc as [mt' [H3 H4]]. apply Hp in H4.
  assert (E2 : pc (m_src mt, m_dst mt, s) = pm mt).
  { apply Hp. unfold conn_of. rewrite S. left; reflexivity. }
  rewrite <- E2, <- E, H4. apply in_map. auto.
Qed.

Lemma conns_one_to_one k mls ms :
  matches_one_to_one ms -> one_to_one (conns_of_edge k (filter (accept mls) ms)).
Proof.
  intros H. destruct (H k) as [H1 H2]. unfold conns_of_edge. fold (on_edge k).
  rewrite filter_comm. split.
  - apply (NoDup_conns csrc m_src); [intros mt c Hc; apply conn_of_src in Hc; tauto|].
    apply NoDup_map_filter; auto.
  - apply (NoDup_conns cdst m_dst); [intros mt c Hc; apply conn_of_src in Hc; tauto|].
    apply NoDup_map_filter; auto.
Qed.

Lemma econns_one_to_one edges sorted mls ms ecs :
  build_econns edges sorted mls ms = Some ecs -> matches_one_to_one ms ->
  forall e cs, In (e, cs) ecs -> one_to_one cs.
Proof.
  intros Hb H11 e cs Hin. destruct (build_econns_spec _ _ _ _ _ Hb) as [es [Hm [-> _]]].
  destruct (in_combine_maps _ _ _ _ _ _ Hm Hin) as [k [_ [_ ->]]].
  apply conns_one_to_one; auto.
Qed.

(* (e) the connections that reach the grouping are exactly the matches with a
   non-NaN score >= min_line_scores on the edges of `sorted` *)
Lemma econns_accepted edges sorted mls ms ecs e c :
  build_econns edges sorted mls ms = Some ecs -> In (e, c) (flatten ecs) ->
  exists mt, In mt ms /\ In (m_edge mt) sorted /\ nth_error edges (m_edge mt) = Some e /\
             m_src mt = csrc c /\ m_dst mt = cdst c /\ m_score mt = Some (cscore c) /\
             Qle mls (cscore c).
Proof.
  intros Hb Hin. destruct (build_econns_spec _ _ _ _ _ Hb) as [es [Hm [-> _]]].
  apply in_flatten in Hin. destruct Hin as [cs [H1 H2]].
  destruct (in_combine_maps _ _ _ _ _ _ Hm H1) as [k [Hk [Hek ->]]].
  unfold conns_of_edge in H2. apply in_flat_map in H2. destruct H2 as [mt [H3 H4]].
  apply filter_In in H3. destruct H3 as [H3 H5]. apply filter_In in H3. destruct H3 as [H3 H6].
  apply Nat.eqb_eq in H5. apply conn_of_src in H4. destruct H4 as [H7 [H8 H9]].
  exists mt. subst k. repeat split; auto.
  unfold accept in H6. rewrite H9 in H6. apply Qle_bool_iff. exact H6.
Qed.

Lemma econns_complete edges sorted mls ms ecs mt e s :
  build_econns edges sorted mls ms = Some ecs -> In mt ms -> In (m_edge mt) sorted ->
  nth_error edges (m_edge mt) = Some e -> m_score mt = Some s -> Qle mls s ->
  In (e, (m_src mt, m_dst mt, s)) (flatten ecs).
Proof.
  intros Hb Hin Hk He Hs Hle. destruct (build_econns_spec _ _ _ _ _ Hb) as [es [Hm [-> _]]].
  apply in_flatten. exists (conns_of_edge (m_edge mt) (filter (accept mls) ms)). split.
  - apply (maps_in_combine (fun k => nth_error edges k)
                            (fun k => conns_of_edge k (filter (accept mls) ms)) sorted es (m_edge mt) e); auto.
  - unfold conns_of_edge. apply in_flat_map. exists mt. split.
    + apply filter_In. split; [|apply Nat.eqb_refl]. apply filter_In. split; auto.
      unfold accept. rewrite Hs. apply Qle_bool_iff; auto.
    + unfold conn_of. rewrite Hs. left; reflexivity.
Qed.

Lemma econns_range {P} n_nodes edges sorted mls (peaks : list (nat * P)) ms ecs :
  build_econns edges sorted mls ms = Some ecs -> matches_in_range n_nodes edges mls peaks ms ->
  forall e c, In (e, c) (flatten ecs) ->
    fst e < n_nodes /\ snd e < n_nodes /\
    csrc c < length (peaks_of_node (fst e) peaks) /\ cdst c < length (peaks_of_node (snd e) peaks).
Proof.
  intros Hb Hr e c Hin.
  destruct (econns_accepted _ _ _ _ _ _ _ Hb Hin) as [mt [H1 [_ [H2 [H3 [H4 [H5 H6]]]]]]].
  destruct e as [u v]. simpl.
  assert (A : accept mls mt = true).
  { unfold accept. rewrite H5. apply Qle_bool_iff; auto. }
  destruct (Hr mt u v H1 A H2) as [R1 [R2 [R3 R4]]]. rewrite <- H3, <- H4. auto.
Qed.

Lemma nth_map_seq {A} (f : nat -> A) n r d : r < n -> nth r (map f (seq 0 n)) d = f r.
Proof.
  intros H. rewrite (nth_indep _ d (f 0)) by (rewrite map_length, seq_length; auto).
  rewrite (map_nth f). rewrite seq_nth; auto.
Qed.

Definition n_instances (ecs : econns) (m : mip) (n_nodes : nat) : nat :=
  length (inst_ids (assign_connections ecs m n_nodes)).

(* the value group_sample returns under the hypotheses: no error of any kind *)
Lemma group_sample_value {P} n_nodes edges sorted m mls (peaks : list (nat * P)) ms ecs :
  group_hyps n_nodes edges sorted mls peaks ms ecs ->
  let ao := out_assign ecs m n_nodes in
  let n := n_instances ecs m n_nodes in
  group_sample n_nodes edges sorted m mls peaks ms =
  Ok (map (fun r => map (fun j => cell (node_peaks n_nodes peaks) ao r j) (seq 0 n_nodes)) (seq 0 n),
      map (inst_score (flatten ecs) ao) (seq 0 n)).
Proof.
  intros [Hb [Ho [H1 Hr]]]. simpl. unfold group_sample. rewrite Hb.
  apply g_make; auto.
  - eapply econns_one_to_one; eauto.
  - eapply econns_range; eauto.
Qed.

Lemma group_fired {P} n_nodes edges sorted mls (peaks : list (nat * P)) ms ecs :
  group_hyps n_nodes edges sorted mls peaks ms ecs -> Forall case12 (snd (assign_all ecs)).
Proof.
  intros [Hb [Ho [H1 Hr]]]. apply g_fired; auto. eapply econns_one_to_one; eauto.
Qed.

(* ====================================================================== *)
(* Part E — matching: the assignment oracle and its contract               *)

Definition valid_asg (n m : nat) (a : asg) : Prop :=
  NoDup (map fst a) /\ NoDup (map snd a) /\ length a = Nat.min n m /\
  (forall p, In p a -> fst p < n /\ snd p < m).

Definition rect (M : matrix) : Prop := forall r, In r M -> length r = ncols M.

(* scipy.optimize.linear_sum_assignment, as far as the code relies on it:
   an answer is a one-to-one assignment of size min(n,m) with finite total cost,
   minimal among such assignments; it fails exactly when no one-to-one
   assignment of that size has a finite total cost *)
Definition lsa_contract (lsa : matrix -> option asg) : Prop :=
  forall M, rect M ->
    match lsa M with
    | Some a => valid_asg (nrows M) (ncols M) a /\
                exists t, total M a = Some t /\
                  forall a' t', valid_asg (nrows M) (ncols M) a' -> total M a' = Some t' -> Qle t t'
    | None => forall a', valid_asg (nrows M) (ncols M) a' -> total M a' = None
    end.

Definition feasible (M : matrix) : Prop :=
  exists a t, valid_asg (nrows M) (ncols M) a /\ total M a = Some t.

Lemma contract_feasible lsa M : lsa_contract lsa -> rect M -> feasible M -> lsa M <> None.
Proof.
  intros C R [a [t [V T]]] N. specialize (C M R). rewrite N in C. rewrite (C a V) in T. discriminate.
Qed.

Lemma contract_infeasible lsa M : lsa_contract lsa -> rect M -> ~ feasible M -> lsa M = None.
Proof.
  intros C R NF. specialize (C M R). destruct (lsa M) as [a|]; auto.
  exfalso. apply NF. destruct C as [V [t [T _]]]. exists a, t. auto.
Qed.

Lemma total_entries M a t : total M a = Some t ->
  forall p, In p a -> exists x, entry M (fst p) (snd p) = Some x.
Proof.
  revert t. induction a as [|q a IH]; simpl; intros t H p Hp; [tauto|].
  unfold cadd in H. destruct (entry M (fst q) (snd q)) as [x|] eqn:E; [|discriminate].
  destruct (total M a) as [y|] eqn:T; [|discriminate].
  destruct Hp as [<-|Hp]; eauto.
Qed.

Lemma total_some M a : (forall p, In p a -> exists x, entry M (fst p) (snd p) = Some x) ->
  exists t, total M a = Some t.
Proof.
  induction a as [|q a IH]; simpl; intros H; [eauto|].
  destruct (H q (or_introl eq_refl)) as [x E]. rewrite E.
  destruct IH as [t T]; [intros; apply H; auto|]. rewrite T. simpl. eauto.
Qed.

(* shape of the cost matrix of an edge *)
Lemma sort_unique_nil l : sort_unique l = [] -> l = [].
Proof.
  destruct l as [|x t]; auto. intros H. exfalso.
  assert (Hin : In x (sort_unique (x :: t))) by (apply sort_unique_In; left; reflexivity).
  rewrite H in Hin. exact Hin.
Qed.

Lemma edge_matrix_rows fx big k cands : nrows (edge_matrix fx big k cands) = length (edge_srcs k cands).
Proof. unfold nrows, edge_matrix, cost_matrix. apply map_length. Qed.

Lemma edge_matrix_cols fx big k cands : ncols (edge_matrix fx big k cands) = length (edge_dsts k cands).
Proof.
  unfold ncols, edge_matrix, cost_matrix.
  destruct (edge_srcs k cands) as [|s t] eqn:E; simpl.
  - unfold edge_srcs in E. apply sort_unique_nil in E. apply map_eq_nil in E.
    unfold edge_dsts. rewrite E. reflexivity.
  - apply map_length.
Qed.

Lemma edge_matrix_rect fx big k cands : rect (edge_matrix fx big k cands).
Proof.
  intros r Hr. rewrite edge_matrix_cols. unfold edge_matrix, cost_matrix in Hr.
  apply in_map_iff in Hr. destruct Hr as [s [<- _]]. apply map_length.
Qed.

Lemma entry_edge_matrix fx big k cands i j : i < length (edge_srcs k cands) -> j < length (edge_dsts k cands) ->
  entry (edge_matrix fx big k cands) i j =
  cost_entry fx big (find_score (nth i (edge_srcs k cands) 0) (nth j (edge_dsts k cands) 0) (edge_cands k cands)).
Proof.
  intros Hi Hj. unfold entry, edge_matrix, cost_matrix.
  rewrite nth_error_map. rewrite (nth_error_nth' _ 0 Hi). simpl.
  rewrite nth_error_map. rewrite (nth_error_nth' _ 0 Hj). simpl. reflexivity.
Qed.

(* the matches of one edge *)
Lemma kept_pairs_incl fx k cands a p : In p (kept_pairs fx k cands a) -> In p a.
Proof. unfold kept_pairs. destruct fx; auto. intros H. apply filter_In in H. tauto. Qed.

Lemma kept_pairs_nodup {B} (f : nat * nat -> B) fx k cands a :
  NoDup (map f a) -> NoDup (map f (kept_pairs fx k cands a)).
Proof. unfold kept_pairs. destruct fx; auto. apply NoDup_map_filter. Qed.

Lemma match_edge_spec lsa fx big k cands ms :
  lsa_contract lsa -> match_edge lsa fx big k cands = Ok ms ->
  exists a, lsa (edge_matrix fx big k cands) = Some a /\
            valid_asg (length (edge_srcs k cands)) (length (edge_dsts k cands)) a /\
            ms = map (fun p => (k, fst p, snd p,
                                copp (entry (edge_matrix fx big k cands) (fst p) (snd p))))
                     (kept_pairs fx k cands a).
Proof.
  intros C. unfold match_edge. specialize (C _ (edge_matrix_rect fx big k cands)).
  destruct (lsa (edge_matrix fx big k cands)) as [a|]; [|discriminate].
  intros H; inversion H. exists a. rewrite edge_matrix_rows, edge_matrix_cols in C. tauto.
Qed.

Lemma match_edge_props lsa fx big k cands ms :
  lsa_contract lsa -> match_edge lsa fx big k cands = Ok ms ->
  NoDup (map m_src ms) /\ NoDup (map m_dst ms) /\
  forall mt, In mt ms -> m_edge mt = k /\ m_src mt < length (edge_srcs k cands) /\
                         m_dst mt < length (edge_dsts k cands).
Proof.
  intros C H. destruct (match_edge_spec _ _ _ _ _ _ C H) as [a [_ [[V1 [V2 [_ V4]]] ->]]].
  rewrite !map_map. simpl. split; [|split].
  - apply (kept_pairs_nodup fst); auto.
  - apply (kept_pairs_nodup snd); auto.
  - intros mt Hin. apply in_map_iff in Hin. destruct Hin as [p [<- Hp]].
    apply kept_pairs_incl in Hp. unfold m_edge, m_src, m_dst. simpl.
    destruct (V4 p Hp). auto.
Qed.

(* (f) per-edge optimality, PINNED tree (fixed_F3 = false, before fix f3ef4e3; for the
   current tree see Part I): the matches are an assignment of
   size min(n_src, n_dst) whose total cost (= minus the total line score) is
   finite and minimal among all one-to-one assignments of that size; every match
   carries the (finite) line score of its candidate *)
Lemma match_edge_optimal lsa big k cands ms :
  lsa_contract lsa -> match_edge lsa false big k cands = Ok ms ->
  let M := edge_matrix false big k cands in
  let n := length (edge_srcs k cands) in
  let m := length (edge_dsts k cands) in
  exists a t, ms = map (fun p => (k, fst p, snd p, copp (entry M (fst p) (snd p)))) a /\
    valid_asg n m a /\ total M a = Some t /\
    (forall a' t', valid_asg n m a' -> total M a' = Some t' -> Qle t t') /\
    (forall mt, In mt ms -> exists x, m_score mt = Some x /\
                                      entry M (m_src mt) (m_dst mt) = Some (- x)%Q).
Proof.
  intros C H. simpl. pose proof (C _ (edge_matrix_rect false big k cands)) as C1.
  unfold match_edge in H. destruct (lsa (edge_matrix false big k cands)) as [a|]; [|discriminate].
  rewrite edge_matrix_rows, edge_matrix_cols in C1. destruct C1 as [V [t [T Hmin]]].
  inversion H. simpl. exists a, t. split; [reflexivity|]. split; [exact V|]. split; [exact T|].
  split; [exact Hmin|].
  intros mt Hin. apply in_map_iff in Hin. destruct Hin as [p [<- Hp]].
  destruct (total_entries _ _ _ T p Hp) as [x E]. unfold m_score, m_src, m_dst. simpl.
  rewrite E. simpl. exists (- x)%Q. split; auto. f_equal.
  unfold Qopp. destruct x as [xn xd]. simpl. rewrite Z.opp_involutive. reflexivity.
Qed.

(* all edges *)
Lemma filter_all_false {A} (f : A -> bool) l : (forall x, In x l -> f x = false) -> filter f l = [].
Proof.
  induction l as [|x t IH]; simpl; intros H; auto.
  rewrite (H x (or_introl eq_refl)). apply IH. intros; apply H; auto.
Qed.

Lemma filter_all_true {A} (f : A -> bool) l : (forall x, In x l -> f x = true) -> filter f l = l.
Proof.
  induction l as [|x t IH]; simpl; intros H; auto.
  rewrite (H x (or_introl eq_refl)). f_equal. apply IH. intros; apply H; auto.
Qed.

Lemma match_edges_spec lsa fx big cands : lsa_contract lsa -> forall ks ms,
  match_edges lsa fx big ks cands = Ok ms -> NoDup ks ->
  (forall mt, In mt ms -> In (m_edge mt) ks) /\
  forall k, In k ks -> exists msk, match_edge lsa fx big k cands = Ok msk /\ filter (on_edge k) ms = msk.
Proof.
  intros C. induction ks as [|k0 t IH]; simpl; intros ms H ND.
  - inversion H. split; [intros mt []|intros k []].
  - destruct (match_edge lsa fx big k0 cands) as [ms0|] eqn:E0; [|discriminate].
    destruct (match_edges lsa fx big t cands) as [rest|] eqn:E1; [|discriminate].
    inversion H; subst ms. inversion ND; subst.
    destruct (IH rest eq_refl H3) as [I1 I2].
    destruct (match_edge_props _ _ _ _ _ _ C E0) as [_ [_ P0]].
    split.
    + intros mt Hin. apply in_app_or in Hin. destruct Hin as [Hin|Hin].
      * left. symmetry. apply P0; auto.
      * right. auto.
    + intros k [<-|Hk].
      * exists ms0. split; auto. rewrite filter_app.
        rewrite (filter_all_true (on_edge k0) ms0), (filter_all_false (on_edge k0) rest), app_nil_r; auto.
        -- intros mt Hin. unfold on_edge. apply Nat.eqb_neq. intros Eq. apply H2. rewrite <- Eq. auto.
        -- intros mt Hin. unfold on_edge. apply Nat.eqb_eq. apply P0; auto.
      * destruct (I2 k Hk) as [msk [E2 F2]]. exists msk. split; auto.
        rewrite filter_app, (filter_all_false (on_edge k) ms0); auto.
        intros mt Hin. unfold on_edge. apply Nat.eqb_neq. destruct (P0 mt Hin) as [-> _].
        intros ->. contradiction.
Qed.

Lemma match_sample_one_to_one lsa fx big n cands ms :
  lsa_contract lsa -> match_sample lsa fx big n cands = Ok ms -> matches_one_to_one ms.
Proof.
  intros C H k. unfold match_sample in H.
  destruct (match_edges_spec _ _ _ _ C _ _ H (seq_NoDup n 0)) as [S1 S2].
  destruct (in_dec Nat.eq_dec k (seq 0 n)) as [Hk|Hk].
  - destruct (S2 k Hk) as [msk [E ->]]. destruct (match_edge_props _ _ _ _ _ _ C E) as [P1 [P2 _]]. auto.
  - rewrite (filter_all_false (on_edge k) ms); [simpl; split; constructor|].
    intros mt Hin. unfold on_edge. apply Nat.eqb_neq. intros Eq. apply Hk. rewrite <- Eq. auto.
Qed.

Lemma match_sample_range lsa fx big n cands ms mt :
  lsa_contract lsa -> match_sample lsa fx big n cands = Ok ms -> In mt ms ->
  m_edge mt < n /\ m_src mt < length (edge_srcs (m_edge mt) cands) /\
  m_dst mt < length (edge_dsts (m_edge mt) cands).
Proof.
  intros C H Hin. unfold match_sample in H.
  destruct (match_edges_spec _ _ _ _ C _ _ H (seq_NoDup n 0)) as [S1 S2].
  pose proof (S1 mt Hin) as Hk. destruct (S2 _ Hk) as [msk [E F]].
  destruct (match_edge_props _ _ _ _ _ _ C E) as [_ [_ P]].
  assert (Hin' : In mt msk).
  { rewrite <- F. apply filter_In. split; auto. unfold on_edge. apply Nat.eqb_refl. }
  destruct (P mt Hin') as [_ [P1 P2]]. apply in_seq in Hk. split; [lia|auto].
Qed.

Lemma match_edges_ok lsa fx big cands ks :
  (forall k, In k ks -> lsa (edge_matrix fx big k cands) <> None) ->
  exists ms, match_edges lsa fx big ks cands = Ok ms.
Proof.
  induction ks as [|k t IH]; simpl; intros H; [eauto|].
  unfold match_edge at 1. destruct (lsa (edge_matrix fx big k cands)) as [a|] eqn:E.
  - destruct IH as [rest R]; [intros; apply H; auto|]. rewrite R. eauto.
  - exfalso. apply (H k); auto.
Qed.

Lemma match_edges_err lsa fx big cands ks k :
  In k ks -> lsa (edge_matrix fx big k cands) = None ->
  match_edges lsa fx big ks cands = Err EInfeasible.
Proof.
  induction ks as [|k0 t IH]; simpl; intros Hin N; [tauto|].
  unfold match_edge at 1. destruct (lsa (edge_matrix fx big k0 cands)) as [a|] eqn:E.
  - destruct Hin as [->|Hin]; [congruence|].
    unfold match_edge in IH. rewrite (IH Hin N). reflexivity.
  - reflexivity.
Qed.

(* candidates: where the peak indices of an edge come from *)
Lemma in_combine_seq {A} (l : list A) : forall s k x,
  In (k, x) (combine (seq s (length l)) l) -> s <= k /\ nth_error l (k - s) = Some x.
Proof.
  induction l as [|y t IH]; simpl; intros s k x H; [tauto|].
  destruct H as [H|H].
  - inversion H; subst. rewrite Nat.sub_diag. auto.
  - destruct (IH _ _ _ H) as [H1 H2]. split; [lia|].
    replace (k - s) with (S (k - S s)) by lia. exact H2.
Qed.

Lemma nth_error_combine_seq {A} (l : list A) : forall s i x,
  nth_error l i = Some x -> In (s + i, x) (combine (seq s (length l)) l).
Proof.
  induction l as [|y t IH]; intros s [|i] x H; simpl in *; try discriminate.
  - inversion H. left. f_equal. lia.
  - right. replace (s + S i) with (S s + i) by lia. apply IH; auto.
Qed.

Lemma candidates_in edges chans k s d :
  In (k, s, d) (candidates edges chans) <->
  exists u v, nth_error edges k = Some (u, v) /\ In s (node_inds u chans) /\ In d (node_inds v chans).
Proof.
  unfold candidates. rewrite in_flat_map. split.
  - intros [[k0 [u v]] [H1 H2]]. simpl in H2. apply in_map_iff in H2.
    destruct H2 as [[s0 d0] [E H2]]. simpl in E. inversion E; subst.
    apply in_combine_seq in H1. rewrite Nat.sub_0_r in H1. apply in_prod_iff in H2.
    exists u, v. tauto.
  - intros [u [v [H1 [H2 H3]]]]. exists (k, (u, v)). split.
    + apply (nth_error_combine_seq edges 0 k). exact H1.
    + simpl. apply in_map_iff. exists (s, d). split; auto. apply in_prod; auto.
Qed.

Lemma node_inds_from_ge i j chans x : In x (node_inds_from i j chans) -> i <= x.
Proof.
  revert i. induction chans as [|c t IH]; simpl; intros i H; [tauto|].
  destruct (c =? j); [destruct H as [<-|H]; [lia|]|]; apply IH in H; lia.
Qed.

Lemma node_inds_from_NoDup i j chans : NoDup (node_inds_from i j chans).
Proof.
  revert i. induction chans as [|c t IH]; simpl; intros i; [constructor|].
  destruct (c =? j); auto. constructor; auto.
  intros H. apply node_inds_from_ge in H. lia.
Qed.

Lemma node_inds_len {P} i j (peaks : list (nat * P)) :
  length (node_inds_from i j (map fst peaks)) = length (peaks_of_node j peaks).
Proof.
  unfold peaks_of_node. revert i. induction peaks as [|p t IH]; simpl; intros i; auto.
  destruct (fst p =? j); simpl; rewrite IH; reflexivity.
Qed.

Lemma edge_cands_in k cands c : In c (edge_cands k cands) <-> In c cands /\ c_edge c = k.
Proof. unfold edge_cands. rewrite filter_In, Nat.eqb_eq. tauto. Qed.

Lemma edge_srcs_bound {P} edges (peaks : list (nat * P)) scores k u v :
  nth_error edges k = Some (u, v) ->
  let cands := combine (candidates edges (map fst peaks)) scores in
  length (edge_srcs k cands) <= length (peaks_of_node u peaks) /\
  length (edge_dsts k cands) <= length (peaks_of_node v peaks).
Proof.
  intros He cands.
  rewrite <- (node_inds_len 0 u peaks), <- (node_inds_len 0 v peaks).
  assert (Hc : forall c, In c (edge_cands k cands) ->
                         In (c_src c) (node_inds u (map fst peaks)) /\ In (c_dst c) (node_inds v (map fst peaks))).
  { intros [[[k0 s] d] x] Hc. apply edge_cands_in in Hc. destruct Hc as [Hc Hk].
    unfold c_edge in Hk; simpl in Hk; subst k0. apply in_combine_l in Hc.
    apply candidates_in in Hc. destruct Hc as [u' [v' [H1 [H2 H3]]]].
    unfold c_src, c_dst; simpl.
    assert (E : Some (u, v) = Some (u', v')) by (rewrite <- He, <- H1; reflexivity).
    inversion E; subst. auto. }
  split; apply NoDup_incl_length; try apply sort_unique_NoDup; intros x Hx;
    unfold edge_srcs, edge_dsts in Hx; apply (proj1 (sort_unique_In _ _)) in Hx; apply in_map_iff in Hx;
    destruct Hx as [c [<- Hx]]; apply Hc; auto.
Qed.

(* ====================================================================== *)
(* Part F — the link to C17 and the whole pipeline                         *)

Lemma map_nth_error_eq {A B} (g : A -> option B) l l' k y :
  map g l = map Some l' -> nth_error l' k = Some y ->
  exists x, nth_error l k = Some x /\ g x = Some y.
Proof.
  intros E H. apply (f_equal (fun z => nth_error z k)) in E.
  rewrite !nth_error_map, H in E. simpl in E.
  destruct (nth_error l k) as [x|]; simpl in E; [|discriminate]. inversion E. eauto.
Qed.

Lemma nth_error_app_mid {A} (l1 : list A) x l2 : nth_error (l1 ++ x :: l2) (length l1) = Some x.
Proof. rewrite nth_error_app2 by lia. rewrite Nat.sub_diag. reflexivity. Qed.

(* C17: in the order returned by toposort, the destination node of an edge is
   fresh when the edge is processed *)
Lemma toposort_edges_ordered es r out es' :
  arborescence es r -> toposort es = Some out ->
  map (fun k => nth_error es k) out = map Some es' -> edges_ordered es'.
Proof.
  intros Harb Ht Hm l1 [u v] l2 Hs. simpl.
  assert (Hk : nth_error es' (length l1) = Some (u, v)) by (rewrite Hs; apply nth_error_app_mid).
  destruct (map_nth_error_eq _ _ _ _ _ Hm Hk) as [i [Hi1 Hi2]].
  split.
  - destruct Harb as [_ [_ [_ [depth Hd]]]]. apply nth_error_In in Hi2.
    destruct (Hd _ _ Hi2) as [Hd1 _]. intros ->. lia.
  - intros [a b] Hin. simpl. apply In_nth_error in Hin. destruct Hin as [k' Hk'].
    assert (Hlt : k' < length l1) by (apply nth_error_Some; congruence).
    assert (Hk'2 : nth_error es' k' = Some (a, b)) by (rewrite Hs, nth_error_app1; auto).
    destruct (map_nth_error_eq _ _ _ _ _ Hm Hk'2) as [j [Hj1 Hj2]].
    eapply (toposort_dst_fresh_proof es r out Harb Ht (length l1) i u v Hi1 Hi2 k' j a b); eauto.
Qed.

Lemma all_some_ok {A B} (g : A -> option B) l :
  (forall x, In x l -> exists y, g x = Some y) -> exists l', all_some (map g l) = Some l'.
Proof.
  induction l as [|x t IH]; simpl; intros H; [eauto|].
  destruct (H x (or_introl eq_refl)) as [y ->].
  destruct IH as [l' ->]; [intros; apply H; auto|]. eauto.
Qed.

Lemma match_edges_err_kind lsa fx big cands ks e :
  match_edges lsa fx big ks cands = Err e -> e = EInfeasible.
Proof.
  induction ks as [|k t IH]; simpl; [discriminate|].
  unfold match_edge at 1. destruct (lsa (edge_matrix fx big k cands)).
  - destruct (match_edges lsa fx big t cands); [discriminate|]. intros H; inversion H; subst. auto.
  - intros H; inversion H; auto.
Qed.

Definition edges_in_range (n_nodes : nat) (edges : list edge) : Prop :=
  forall u v, In (u, v) edges -> u < n_nodes /\ v < n_nodes.

Definition sample_cands {P} (edges : list edge) (peaks : list (nat * P)) (scores : list score) : list cand :=
  combine (candidates edges (map fst peaks)) scores.

Lemma predict_unfold {P} lsa fx big n_nodes edges m mls (peaks : list (nat * P)) scores sorted :
  toposort edges = Some sorted ->
  predict_sample lsa fx big n_nodes edges m mls peaks scores =
  bind (match_sample lsa fx big (length edges) (sample_cands edges peaks scores))
       (fun ms => group_sample n_nodes edges sorted m mls peaks ms).
Proof. intros H. unfold predict_sample. rewrite H. reflexivity. Qed.

(* everything the grouping theorems assume follows from: a tree skeleton, the
   C17 order, and the oracle contract *)
Lemma predict_bridge {P} lsa fx big n_nodes edges r m mls (peaks : list (nat * P)) scores ms :
  lsa_contract lsa -> arborescence edges r -> edges_in_range n_nodes edges ->
  match_sample lsa fx big (length edges) (sample_cands edges peaks scores) = Ok ms ->
  exists sorted ecs,
    toposort edges = Some sorted /\ Permutation sorted (seq 0 (length edges)) /\
    group_hyps n_nodes edges sorted mls peaks ms ecs /\
    predict_sample lsa fx big n_nodes edges m mls peaks scores =
    group_sample n_nodes edges sorted m mls peaks ms.
Proof.
  intros C Harb Hn Hm.
  destruct (toposort_tree_complete_ordered_proof edges r Harb) as [out [Ht [Hperm _]]].
  assert (Hidx : forall k, In k out -> exists e, nth_error edges k = Some e).
  { intros k Hk. apply (Permutation_in _ Hperm) in Hk. apply in_seq in Hk.
    destruct (nth_error edges k) eqn:E; eauto. apply nth_error_None in E. lia. }
  destruct (all_some_ok (fun k => nth_error edges k) out Hidx) as [es' Hes].
  set (ecs := combine es' (map (fun k => conns_of_edge k (filter (accept mls) ms)) out)).
  assert (Hb : build_econns edges out mls ms = Some ecs).
  { unfold build_econns. rewrite Hes. reflexivity. }
  exists out, ecs. split; auto. split; auto. split.
  - split; auto. destruct (build_econns_spec _ _ _ _ _ Hb) as [es2 [Hmap [_ Hfst]]].
    split; [|split].
    + rewrite Hfst. eapply toposort_edges_ordered; eauto.
    + eapply match_sample_one_to_one; eauto.
    + intros mt u v Hin _ He.
      destruct (match_sample_range _ _ _ _ _ _ mt C Hm Hin) as [_ [R1 R2]].
      destruct (edge_srcs_bound edges peaks scores _ _ _ He) as [B1 B2].
      pose proof (nth_error_In _ _ He) as HinE. destruct (Hn _ _ HinE).
      unfold sample_cands in *. repeat split; auto; lia.
  - rewrite (predict_unfold _ _ _ _ _ _ _ _ _ _ Ht), Hm. reflexivity.
Qed.

Lemma predict_err {P} lsa fx big n_nodes edges r m mls (peaks : list (nat * P)) scores e :
  arborescence edges r ->
  match_sample lsa fx big (length edges) (sample_cands edges peaks scores) = Err e ->
  e = EInfeasible /\ predict_sample lsa fx big n_nodes edges m mls peaks scores = Err EInfeasible.
Proof.
  intros Harb Hm. destruct (toposort_tree_complete_ordered_proof edges r Harb) as [out [Ht _]].
  pose proof (match_edges_err_kind _ _ _ _ _ _ Hm) as ->. split; auto.
  rewrite (predict_unfold _ _ _ _ _ _ _ _ _ _ Ht), Hm. reflexivity.
Qed.

(* (g) totality whenever the oracle does not fail *)
Lemma predict_total {P} lsa fx big n_nodes edges r m mls (peaks : list (nat * P)) scores :
  lsa_contract lsa -> arborescence edges r -> edges_in_range n_nodes edges ->
  (forall k, k < length edges -> lsa (edge_matrix fx big k (sample_cands edges peaks scores)) <> None) ->
  exists rows iscores, predict_sample lsa fx big n_nodes edges m mls peaks scores = Ok (rows, iscores).
Proof.
  intros C Harb Hn Hf.
  destruct (match_edges_ok lsa fx big (sample_cands edges peaks scores) (seq 0 (length edges))) as [ms Hm].
  { intros k Hk. apply Hf. apply in_seq in Hk. lia. }
  destruct (predict_bridge lsa fx big n_nodes edges r m mls peaks scores ms C Harb Hn Hm)
    as [sorted [ecs [_ [_ [Hg ->]]]]].
  rewrite (group_sample_value n_nodes edges sorted m mls peaks ms ecs Hg). eauto.
Qed.

(* the strongest true totality statement for the pinned tree (before fix f3ef4e3): no edge whose
   NaN entries make the assignment infeasible (complement of selector F3) *)
Lemma predict_total_partial {P} lsa big n_nodes edges r m mls (peaks : list (nat * P)) scores :
  lsa_contract lsa -> arborescence edges r -> edges_in_range n_nodes edges ->
  (forall k, k < length edges -> feasible (edge_matrix false big k (sample_cands edges peaks scores))) ->
  exists rows iscores, predict_sample lsa false big n_nodes edges m mls peaks scores = Ok (rows, iscores).
Proof.
  intros C Harb Hn Hf. eapply predict_total; eauto.
  intros k Hk. apply contract_feasible; auto. apply edge_matrix_rect.
Qed.

(* F3: the full totality statement is false of the pinned tree (before fix f3ef4e3) *)
Lemma arborescence_01 : arborescence [(0, 1)] 0.
Proof.
  split; [discriminate|]. split; [constructor; [intros []|constructor]|].
  split; [simpl; lia|]. exists (fun x => x). intros u v [H|[]]. inversion H; subst. auto.
Qed.

Lemma infeasible_1x1 : ~ feasible [[None]].
Proof.
  intros [a [t [[_ [_ [L R]]] T]]]. simpl in *.
  destruct a as [|p [|q a]]; simpl in L; try discriminate.
  destruct (R p (or_introl eq_refl)) as [R1 R2]. destruct p as [i j]; simpl in *.
  assert (i = 0) by lia. assert (j = 0) by lia. subst. simpl in T. discriminate.
Qed.

Lemma predict_total_refuted :
  exists (n_nodes : nat) (edges : list edge) (r : nat) (m : mip) (mls : Q)
         (peaks : list (nat * (Q * Q * Q))) (scores : list score),
    arborescence edges r /\ edges_in_range n_nodes edges /\
    length scores = length (candidates edges (map fst peaks)) /\
    forall lsa big, lsa_contract lsa ->
      predict_sample lsa false big n_nodes edges m mls peaks scores = Err EInfeasible.
Proof.
  exists 2, [(0, 1)], 0, (MipInt 0), (1 # 4)%Q,
         [(0, (4%Q, 4%Q, (3 # 4)%Q)); (1, (4%Q, 4%Q, (1 # 2)%Q))], [None].
  split; [apply arborescence_01|]. split.
  { intros u v [H|[]]. inversion H; subst. lia. }
  split; [reflexivity|].
  intros lsa big C. unfold predict_sample.
  replace (toposort [(0, 1)]) with (Some [0]) by (vm_compute; reflexivity).
  unfold match_sample. simpl length. simpl seq.
  rewrite (match_edges_err lsa false big _ [0] 0); [reflexivity|left; reflexivity|].
  apply contract_infeasible; auto; [apply edge_matrix_rect|].
  match goal with |- ~ feasible ?M => replace M with ([[None]] : matrix) by (vm_compute; reflexivity) end.
  apply infeasible_1x1.
Qed.

(* ====================================================================== *)
(* the statements of Props.v                                               *)

Lemma group_hyps_elim {P} n_nodes edges sorted mls (peaks : list (nat * P)) ms ecs :
  group_hyps n_nodes edges sorted mls peaks ms ecs ->
  edges_ordered (map fst ecs) /\ (forall e cs, In (e, cs) ecs -> one_to_one cs) /\
  (forall e c, In (e, c) (flatten ecs) ->
     fst e < n_nodes /\ snd e < n_nodes /\
     csrc c < length (peaks_of_node (fst e) peaks) /\ cdst c < length (peaks_of_node (snd e) peaks)).
Proof.
  intros [Hb [Ho [H1 Hr]]]. split; auto. split.
  - eapply econns_one_to_one; eauto.
  - eapply econns_range; eauto.
Qed.

(* (a) *)
Lemma c08_only_cases_1_2_proof {P} n_nodes edges sorted m mls (peaks : list (nat * P)) ms ecs :
  group_hyps n_nodes edges sorted mls peaks ms ecs ->
  Forall (fun f => f = Case1 \/ f = Case2) (snd (assign_all ecs)) /\
  check_conns (flatten ecs) (out_assign ecs m n_nodes) = None /\
  exists rows iscores, group_sample n_nodes edges sorted m mls peaks ms = Ok (rows, iscores).
Proof.
  intros H. split; [eapply group_fired; eauto|]. split.
  - destruct (group_hyps_elim _ _ _ _ _ _ _ H) as [Ho [H1 _]]. apply g_check; auto.
  - rewrite (group_sample_value n_nodes edges sorted m mls peaks ms ecs H). eauto.
Qed.

(* (b) *)
Lemma c08_partition_proof {P} n_nodes edges sorted m mls (peaks : list (nat * P)) ms ecs rows iscores :
  group_hyps n_nodes edges sorted mls peaks ms ecs ->
  group_sample n_nodes edges sorted m mls peaks ms = Ok (rows, iscores) ->
  let ao := out_assign ecs m n_nodes in
  let n := n_instances ecs m n_nodes in
  NoDup (map fst ao) /\
  (forall p q r, lookup p ao = Some r -> lookup q ao = Some r -> fst p = fst q -> p = q) /\
  length rows = n /\ length iscores = n /\
  (forall p r, lookup p ao = Some r -> r < n) /\
  (forall r, r < n -> exists p, lookup p ao = Some r) /\
  (forall r, r < n -> length (nth r rows []) = n_nodes) /\
  (forall r j pl, r < n -> j < n_nodes ->
     (nth j (nth r rows []) None = Some pl <->
      exists k, lookup (j, k) ao = Some r /\ nth_error (peaks_of_node j peaks) k = Some pl)).
Proof.
  intros H Hg. simpl. destruct (group_hyps_elim _ _ _ _ _ _ _ H) as [Ho [H1 Hr]].
  rewrite (group_sample_value n_nodes edges sorted m mls peaks ms ecs H) in Hg.
  inversion Hg as [[Hrows Hsc]]. clear Hg.
  split; [apply g_nodup_out; auto|]. split; [apply g_node; auto|].
  split; [rewrite map_length, seq_length; reflexivity|].
  split; [rewrite map_length, seq_length; reflexivity|].
  split; [apply g_row_lt; auto|]. split; [apply g_row_nonempty; auto|]. split.
  - intros r Hlt. rewrite (nth_map_seq _ _ _ [] Hlt). rewrite map_length, seq_length. reflexivity.
  - intros r j pl Hlt Hj. rewrite (nth_map_seq _ _ _ [] Hlt), (nth_map_seq _ _ _ None Hj).
    apply g_cell_payload; auto.
Qed.

(* (c) *)
Lemma c08_components_proof {P} n_nodes edges sorted m mls (peaks : list (nat * P)) ms ecs :
  group_hyps n_nodes edges sorted mls peaks ms ecs ->
  let ao := out_assign ecs m n_nodes in
  (forall p q r s, lookup p ao = Some r -> lookup q ao = Some s ->
                   (r = s <-> connected (flatten ecs) p q)) /\
  (forall p, (exists r, lookup p ao = Some r) <->
             touched (flatten ecs) p /\ survives ecs m n_nodes p).
Proof.
  intros H. simpl. destruct (group_hyps_elim _ _ _ _ _ _ _ H) as [Ho [H1 _]]. split.
  - apply g_components; auto.
  - apply g_dom; auto.
Qed.

(* survival depends on the component only: instances are dropped whole *)
Lemma survives_component ecs m n_nodes p q :
  connected (flatten ecs) p q -> survives ecs m n_nodes p -> survives ecs m n_nodes q.
Proof.
  intros C. unfold survives. destruct (threshold m n_nodes) as [t|]; auto.
  intros [comp [ND [Hc Hl]]]. exists comp. split; auto. split; auto.
  intros x. rewrite Hc. split; intros H.
  - eapply conn_trans; [apply conn_sym; exact C|exact H].
  - eapply conn_trans; [exact C|exact H].
Qed.

(* (d) *)
Lemma c08_scores_proof {P} n_nodes edges sorted m mls (peaks : list (nat * P)) ms ecs rows iscores :
  group_hyps n_nodes edges sorted mls peaks ms ecs ->
  group_sample n_nodes edges sorted m mls peaks ms = Ok (rows, iscores) ->
  let ao := out_assign ecs m n_nodes in
  forall r, r < n_instances ecs m n_nodes ->
    nth r iscores 0%Q = qsum (map (fun x => cscore (snd x)) (filter (src_in ao r) (flatten ecs))) /\
    forall x, In x (flatten ecs) ->
      (src_in ao r x = true <-> lookup (esrc x) ao = Some r /\ lookup (edst x) ao = Some r) /\
      (src_in ao r x = true <-> lookup (esrc x) ao = Some r \/ lookup (edst x) ao = Some r).
Proof.
  intros H Hg. simpl. destruct (group_hyps_elim _ _ _ _ _ _ _ H) as [Ho [H1 Hr]].
  rewrite (group_sample_value n_nodes edges sorted m mls peaks ms ecs H) in Hg.
  inversion Hg as [[Hrows Hsc]]. clear Hg.
  intros r Hlt. split.
  - rewrite (nth_map_seq _ _ _ 0%Q Hlt). reflexivity.
  - intros x Hx. split; split.
    + apply g_score_both; auto.
    + intros [L _]. apply g_score_conv; auto.
    + intros S. left. apply (g_score_both ecs m n_nodes Ho H1 x r Hx S).
    + apply g_score_conv; auto.
Qed.

(* (g) + F3 repaired: with the proposed fix every edge's problem is feasible *)
Lemma diag_valid n m : valid_asg n m (map (fun i => (i, i)) (seq 0 (Nat.min n m))).
Proof.
  unfold valid_asg. rewrite !map_map. simpl. rewrite map_id, map_length, seq_length.
  split; [apply seq_NoDup|]. split; [apply seq_NoDup|]. split; auto.
  intros p Hp. apply in_map_iff in Hp. destruct Hp as [i [<- Hi]]. apply in_seq in Hi. simpl. lia.
Qed.

Lemma find_score_some s d cs x : In (s, d, x) (map (fun c => (c_src c, c_dst c, c_score c)) cs) ->
  exists y, find_score s d cs = Some y.
Proof.
  intros H. unfold find_score.
  destruct (find (fun c => (c_src c =? s) && (c_dst c =? d)) cs) eqn:F; eauto.
  exfalso. apply in_map_iff in H. destruct H as [c [E Hc]]. inversion E; subst.
  pose proof (find_none _ _ F _ Hc) as N. simpl in N. rewrite !Nat.eqb_refl in N. discriminate.
Qed.

Lemma in_combine_exists {A B} (l : list A) (l' : list B) x :
  length l <= length l' -> In x l -> exists y, In (x, y) (combine l l').
Proof.
  revert l'. induction l as [|a t IH]; intros [|b l'] Hl Hin; simpl in *; try tauto; try lia.
  destruct Hin as [->|Hin]; [eauto|]. destruct (IH l') as [y Hy]; auto; [lia|eauto].
Qed.

Lemma fixed_feasible {P} big edges (peaks : list (nat * P)) scores k :
  length (candidates edges (map fst peaks)) <= length scores ->
  feasible (edge_matrix true big k (sample_cands edges peaks scores)).
Proof.
  intros Hlen. set (cands := sample_cands edges peaks scores).
  unfold feasible. rewrite edge_matrix_rows, edge_matrix_cols.
  set (n := length (edge_srcs k cands)). set (m := length (edge_dsts k cands)).
  destruct (total_some (edge_matrix true big k cands) (map (fun i => (i, i)) (seq 0 (Nat.min n m)))) as [t T].
  - intros p Hp. apply in_map_iff in Hp. destruct Hp as [i [<- Hi]]. apply in_seq in Hi. simpl.
    assert (Hi1 : i < n) by lia. assert (Hi2 : i < m) by lia.
    rewrite entry_edge_matrix by auto.
    set (s := nth i (edge_srcs k cands) 0). set (d := nth i (edge_dsts k cands) 0).
    assert (Hs : In s (edge_srcs k cands)) by (apply nth_In; auto).
    assert (Hd : In d (edge_dsts k cands)) by (apply nth_In; auto).
    unfold edge_srcs in Hs. apply (proj1 (sort_unique_In _ _)) in Hs. apply in_map_iff in Hs.
    unfold edge_dsts in Hd. apply (proj1 (sort_unique_In _ _)) in Hd. apply in_map_iff in Hd.
    destruct Hs as [[[[k1 s1] d1] x1] [Es Hs]]. destruct Hd as [[[[k2 s2] d2] x2] [Ed Hd]].
    unfold c_src in Es. unfold c_dst in Ed. simpl in Es, Ed. subst s1 d2.
    apply edge_cands_in in Hs. apply edge_cands_in in Hd. destruct Hs as [Hs Hk1], Hd as [Hd Hk2].
    unfold c_edge in Hk1, Hk2. simpl in Hk1, Hk2. subst k1 k2.
    unfold cands, sample_cands in Hs, Hd. apply in_combine_l in Hs. apply in_combine_l in Hd.
    apply candidates_in in Hs. apply candidates_in in Hd.
    destruct Hs as [u [v [He [Hs1 _]]]]. destruct Hd as [u' [v' [He' [_ Hd2]]]].
    rewrite He in He'. inversion He'; subst u' v'.
    assert (Hc : In (k, s, d) (candidates edges (map fst peaks))).
    { apply candidates_in. exists u, v. auto. }
    destruct (in_combine_exists _ scores _ Hlen Hc) as [x Hx].
    destruct (find_score_some s d (edge_cands k cands) x) as [y Hy].
    { apply in_map_iff. exists (k, s, d, x). split; auto. apply edge_cands_in. split; auto. }
    rewrite Hy. destruct y as [y|]; simpl; eauto.
  - exists (map (fun i => (i, i)) (seq 0 (Nat.min n m))), t. split; auto. apply diag_valid.
Qed.

Lemma predict_total_fixed {P} lsa big n_nodes edges r m mls (peaks : list (nat * P)) scores :
  lsa_contract lsa -> arborescence edges r -> edges_in_range n_nodes edges ->
  length (candidates edges (map fst peaks)) <= length scores ->
  exists rows iscores, predict_sample lsa true big n_nodes edges m mls peaks scores = Ok (rows, iscores).
Proof.
  intros C Harb Hn Hlen. eapply predict_total; eauto.
  intros k Hk. apply contract_feasible; auto; [apply edge_matrix_rect|apply fixed_feasible; auto].
Qed.

(* matches of the repaired code never sit on a NaN entry *)
Lemma match_edge_fixed_no_nan lsa big k cands ms :
  lsa_contract lsa -> match_edge lsa true big k cands = Ok ms ->
  forall mt, In mt ms ->
    find_score (nth (m_src mt) (edge_srcs k cands) 0) (nth (m_dst mt) (edge_dsts k cands) 0)
               (edge_cands k cands) <> Some None.
Proof.
  intros C H mt Hin. destruct (match_edge_spec _ _ _ _ _ _ C H) as [a [_ [_ ->]]].
  apply in_map_iff in Hin. destruct Hin as [p [<- Hp]]. unfold m_src, m_dst. simpl.
  unfold kept_pairs in Hp. apply filter_In in Hp. destruct Hp as [_ Hp].
  unfold is_nan_pair in Hp. intros E. rewrite E in Hp. discriminate.
Qed.

(* ====================================================================== *)
(* Part G — the brute-force reference `lsa_bf` meets the oracle contract    *)
(* (the contract is satisfiable; the function used for execution is one of  *)
(* the functions the theorems quantify over)                                *)

Lemma remove_nat_In x y l : In y (remove_nat x l) <-> In y l /\ y <> x.
Proof. unfold remove_nat. rewrite filter_In, negb_true_iff, Nat.eqb_neq. tauto. Qed.

Lemma injections_sound rows : forall cols a, In a (injections rows cols) ->
  map fst a = rows /\ NoDup (map snd a) /\ incl (map snd a) cols.
Proof.
  induction rows as [|r rs IH]; simpl; intros cols a H.
  - destruct H as [<-|[]]. simpl. split; auto. split; [constructor|intros x []].
  - apply in_flat_map in H. destruct H as [c [Hc H]]. apply in_map_iff in H.
    destruct H as [a0 [<- H0]]. destruct (IH _ _ H0) as [E [ND I]]. simpl.
    split; [f_equal; auto|]. split.
    + constructor; auto. intros Hin. apply I in Hin. apply remove_nat_In in Hin. tauto.
    + intros x [<-|Hx]; auto. apply I in Hx. apply remove_nat_In in Hx. tauto.
Qed.

Lemma injections_complete rows : forall cols a,
  Permutation (map fst a) rows -> NoDup (map snd a) -> incl (map snd a) cols ->
  exists a', In a' (injections rows cols) /\ Permutation a a'.
Proof.
  induction rows as [|r rs IH]; intros cols a Hp ND I.
  - apply Permutation_sym, Permutation_nil in Hp. apply map_eq_nil in Hp. subst a.
    exists []. simpl. auto.
  - assert (Hr : In r (map fst a)).
    { eapply Permutation_in; [apply Permutation_sym; exact Hp|left; reflexivity]. }
    apply in_map_iff in Hr. destruct Hr as [[r' c] [E Hin]]. simpl in E; subst r'.
    apply in_split in Hin. destruct Hin as [a1 [a2 ->]].
    assert (P1 : Permutation (a1 ++ (r, c) :: a2) ((r, c) :: a1 ++ a2)).
    { apply Permutation_sym, Permutation_middle. }
    assert (P2 : Permutation (map fst (a1 ++ a2)) rs).
    { apply (Permutation_map fst) in P1. simpl in P1.
      apply Permutation_cons_inv with (a := r).
      eapply Permutation_trans; [apply Permutation_sym; exact P1|exact Hp]. }
    rewrite map_app in ND. simpl in ND. pose proof (NoDup_remove_1 _ _ _ ND) as ND1.
    pose proof (NoDup_remove_2 _ _ _ ND) as ND2. rewrite <- map_app in ND1, ND2.
    assert (I2 : incl (map snd (a1 ++ a2)) (remove_nat c cols)).
    { intros x Hx. apply remove_nat_In. split.
      - apply I. rewrite map_app in *. simpl. apply in_app_or in Hx. apply in_or_app.
        destruct Hx; [left|right; right]; auto.
      - intros ->. contradiction. }
    destruct (IH _ _ P2 ND1 I2) as [a' [Ha' Pa']].
    exists ((r, c) :: a'). split.
    + simpl. apply in_flat_map. exists c. split.
      * apply I. rewrite map_app. simpl. apply in_or_app. right; left; reflexivity.
      * apply in_map. exact Ha'.
    + eapply Permutation_trans; [exact P1|]. constructor. exact Pa'.
Qed.

Lemma insert_pair_perm p l : Permutation (insert_pair p l) (p :: l).
Proof.
  induction l as [|q t IH]; simpl; auto.
  destruct (fst p <=? fst q); auto.
  eapply Permutation_trans; [apply perm_skip; exact IH|apply perm_swap].
Qed.

Lemma sort_pairs_perm l : Permutation (sort_pairs l) l.
Proof.
  unfold sort_pairs. induction l as [|p t IH]; simpl; auto.
  eapply Permutation_trans; [apply insert_pair_perm|]. constructor. exact IH.
Qed.

Lemma swap_swap l : map swap_pair (map swap_pair l) = l.
Proof.
  rewrite map_map. rewrite <- (map_id l) at 2. apply map_ext. intros [a b]; reflexivity.
Qed.

Lemma map_fst_swap l : map fst (map swap_pair l) = map snd l.
Proof. rewrite map_map. reflexivity. Qed.
Lemma map_snd_swap l : map snd (map swap_pair l) = map fst l.
Proof. rewrite map_map. reflexivity. Qed.

Lemma valid_asg_perm n m a a' : Permutation a a' -> valid_asg n m a -> valid_asg n m a'.
Proof.
  intros Hp [V1 [V2 [V3 V4]]]. split; [|split; [|split]].
  - eapply Permutation_NoDup; [apply Permutation_map; exact Hp|exact V1].
  - eapply Permutation_NoDup; [apply Permutation_map; exact Hp|exact V2].
  - rewrite <- V3. symmetry. apply Permutation_length. exact Hp.
  - intros p Hin. apply V4. eapply Permutation_in; [apply Permutation_sym; exact Hp|exact Hin].
Qed.

Lemma valid_asg_swap n m a : valid_asg n m a -> valid_asg m n (map swap_pair a).
Proof.
  intros [V1 [V2 [V3 V4]]]. split; [|split; [|split]].
  - rewrite map_fst_swap. exact V2.
  - rewrite map_snd_swap. exact V1.
  - rewrite map_length, V3. apply Nat.min_comm.
  - intros p Hin. apply in_map_iff in Hin. destruct Hin as [[i j] [<- Hin]]. simpl.
    destruct (V4 _ Hin). simpl in *. auto.
Qed.

Lemma injections_valid n m a : n <= m -> In a (injections (seq 0 n) (seq 0 m)) -> valid_asg n m a.
Proof.
  intros Hle H. destruct (injections_sound _ _ _ H) as [E [ND I]].
  split; [rewrite E; apply seq_NoDup|]. split; auto. split.
  - rewrite <- (map_length fst), E, seq_length. symmetry. apply Nat.min_l. exact Hle.
  - intros p Hp. split.
    + assert (Hi : In (fst p) (seq 0 n)) by (rewrite <- E; apply in_map; auto). apply in_seq in Hi. lia.
    + assert (Hi : In (snd p) (seq 0 m)) by (apply I; apply in_map; auto). apply in_seq in Hi. lia.
Qed.

Lemma all_assignments_sound n m a : In a (all_assignments n m) -> valid_asg n m a.
Proof.
  unfold all_assignments. destruct (n <=? m) eqn:E.
  - apply Nat.leb_le in E. apply injections_valid; auto.
  - apply Nat.leb_gt in E. intros H. apply in_map_iff in H. destruct H as [b [<- Hb]].
    apply valid_asg_perm with (a := map swap_pair b); [apply Permutation_sym, sort_pairs_perm|].
    apply valid_asg_swap. apply injections_valid; auto. lia.
Qed.

Lemma valid_rows_perm n m a : n <= m -> valid_asg n m a -> Permutation (map fst a) (seq 0 n).
Proof.
  intros Hle [V1 [_ [V3 V4]]]. apply NoDup_Permutation_bis; auto.
  - rewrite seq_length, map_length, V3. rewrite Nat.min_l; auto.
  - intros x Hx. apply in_map_iff in Hx. destruct Hx as [p [<- Hp]]. apply in_seq.
    destruct (V4 _ Hp). lia.
Qed.

Lemma injections_complete_valid n m a : n <= m -> valid_asg n m a ->
  exists a', In a' (injections (seq 0 n) (seq 0 m)) /\ Permutation a a'.
Proof.
  intros Hle V. apply injections_complete.
  - apply valid_rows_perm with (m := m); auto.
  - apply V.
  - intros x Hx. apply in_map_iff in Hx. destruct Hx as [p [<- Hp]]. apply in_seq.
    destruct V as [_ [_ [_ V4]]]. destruct (V4 _ Hp). lia.
Qed.

Lemma all_assignments_complete n m a : valid_asg n m a ->
  exists a', In a' (all_assignments n m) /\ Permutation a a'.
Proof.
  intros V. unfold all_assignments. destruct (n <=? m) eqn:E.
  - apply Nat.leb_le in E. apply injections_complete_valid; auto.
  - apply Nat.leb_gt in E.
    destruct (injections_complete_valid m n (map swap_pair a)) as [b [Hb Pb]]; [lia|apply valid_asg_swap; auto|].
    exists (sort_pairs (map swap_pair b)).
    split; [apply (in_map (fun x => sort_pairs (map swap_pair x))); auto|].
    eapply Permutation_trans; [|apply Permutation_sym, sort_pairs_perm].
    rewrite <- (swap_swap a). apply Permutation_map. exact Pb.
Qed.

(* totals are invariant under reordering (up to == on Q) *)
Definition ceq (a b : cost) : Prop :=
  match a, b with Some x, Some y => Qeq x y | None, None => True | _, _ => False end.

Lemma ceq_refl a : ceq a a.
Proof. destruct a; simpl; auto. reflexivity. Qed.
Lemma ceq_trans a b c : ceq a b -> ceq b c -> ceq a c.
Proof. destruct a, b, c; simpl; try tauto. intros H1 H2. rewrite H1. exact H2. Qed.
Lemma cadd_ceq a b b' : ceq b b' -> ceq (cadd a b) (cadd a b').
Proof. destruct a, b, b'; simpl; try tauto. intros H. rewrite H. reflexivity. Qed.
Lemma cadd_swap a b c : ceq (cadd a (cadd b c)) (cadd b (cadd a c)).
Proof. destruct a, b, c; simpl; auto. ring. Qed.

Lemma total_perm M a a' : Permutation a a' -> ceq (total M a) (total M a').
Proof.
  induction 1; simpl.
  - reflexivity.
  - apply cadd_ceq. exact IHPermutation.
  - apply cadd_swap.
  - eapply ceq_trans; eauto.
Qed.

(* the arg-min fold *)
Lemma best_fold M L : forall init,
  match init with Some (a0, t0) => total M a0 = Some t0 | None => True end ->
  match fold_left (best_step M) L init with
  | Some (a, t) => total M a = Some t /\ (In a L \/ init = Some (a, t)) /\
                   (forall a' t', In a' L -> total M a' = Some t' -> Qle t t') /\
                   match init with Some (_, t0) => Qle t t0 | None => True end
  | None => init = None /\ forall a', In a' L -> total M a' = None
  end.
Proof.
  induction L as [|x L IH]; intros init Hinit; simpl.
  - destruct init as [[a0 t0]|]; [|split; [reflexivity|intros a' []]].
    split; auto. split; [right; reflexivity|]. split; [intros a' t' []|apply Qle_refl].
  - set (init' := best_step M init x).
    assert (Hinit' : match init' with Some (a0, t0) => total M a0 = Some t0 | None => True end).
    { unfold init', best_step. destruct (total M x) as [t|] eqn:T; auto.
      destruct init as [[a0 t0]|]; auto. destruct (Qle_bool t0 t); auto. }
    specialize (IH init' Hinit').
    destruct (fold_left (best_step M) L init') as [[a t]|].
    + destruct IH as [H1 [H2 [H3 H4]]]. split; auto.
      unfold init', best_step in H2, H4.
      destruct (total M x) as [tx|] eqn:T.
      * destruct init as [[a0 t0]|].
        -- destruct (Qle_bool t0 tx) eqn:B.
           ++ apply Qle_bool_iff in B. split; [destruct H2; auto|]. split; auto.
              intros a' t' [<-|Hin] T'; [|eapply H3; eauto].
              rewrite T in T'. inversion T'; subst. eapply Qle_trans; eauto.
           ++ assert (Hlt : Qlt tx t0).
              { apply Qnot_le_lt. intros Hle. apply Qle_bool_iff in Hle. congruence. }
              split; [destruct H2 as [H2|H2]; auto; inversion H2; subst; auto|]. split.
              ** intros a' t' [<-|Hin] T'; [|eapply H3; eauto].
                 rewrite T in T'. inversion T'; subst. exact H4.
              ** eapply Qle_trans; [exact H4|apply Qlt_le_weak; exact Hlt].
        -- split; [destruct H2 as [H2|H2]; auto; inversion H2; subst; auto|]. split; auto.
           intros a' t' [<-|Hin] T'; [|eapply H3; eauto].
           rewrite T in T'. inversion T'; subst. exact H4.
      * split; [destruct H2; auto|]. split; auto.
        intros a' t' [<-|Hin] T'; [congruence|eapply H3; eauto].
    + destruct IH as [H1 H2]. unfold init', best_step in H1.
      destruct (total M x) as [tx|] eqn:T.
      * destruct init as [[a0 t0]|]; [destruct (Qle_bool t0 tx)|]; discriminate.
      * split; auto. intros a' [<-|Hin]; auto.
Qed.

Lemma lsa_bf_spec M :
  match lsa_bf M with
  | Some a => valid_asg (nrows M) (ncols M) a /\
              exists t, total M a = Some t /\
                forall a' t', valid_asg (nrows M) (ncols M) a' -> total M a' = Some t' -> Qle t t'
  | None => forall a', valid_asg (nrows M) (ncols M) a' -> total M a' = None
  end.
Proof.
  unfold lsa_bf, best_assignment.
  pose proof (best_fold M (all_assignments (nrows M) (ncols M)) None I) as B.
  destruct (fold_left (best_step M) (all_assignments (nrows M) (ncols M)) None) as [[a t]|].
  - destruct B as [H1 [H2 [H3 _]]]. destruct H2 as [H2|H2]; [|discriminate].
    split; [apply all_assignments_sound; auto|]. exists t. split; auto.
    intros a' t' V T'. destruct (all_assignments_complete _ _ _ V) as [a'' [Hin Hp]].
    pose proof (total_perm M _ _ Hp) as E. rewrite T' in E.
    destruct (total M a'') as [t''|] eqn:T''; simpl in E; [|contradiction].
    rewrite E. eapply H3; eauto.
  - destruct B as [_ H2]. intros a' V. destruct (all_assignments_complete _ _ _ V) as [a'' [Hin Hp]].
    pose proof (total_perm M _ _ Hp) as E. rewrite (H2 _ Hin) in E.
    destruct (total M a'); simpl in E; [contradiction|reflexivity].
Qed.

Lemma lsa_bf_contract : lsa_contract lsa_bf.
Proof. intros M _. apply lsa_bf_spec. Qed.

(* `feasibleb` (Grouping.v) decides `feasible` (the complement of selector F3 per edge) *)

Lemma feasibleb_spec M : feasibleb M = true <-> feasible M.
Proof.
  pose proof (lsa_bf_spec M) as C. unfold feasibleb. destruct (lsa_bf M) as [a|].
  - split; auto. intros _. destruct C as [V [t [T _]]]. exists a, t. auto.
  - split; [discriminate|]. intros [a [t [V T]]]. rewrite (C a V) in T. discriminate.
Qed.

Lemma edge_matrix_false_big b1 b2 k cands : edge_matrix false b1 k cands = edge_matrix false b2 k cands.
Proof.
  unfold edge_matrix, cost_matrix. apply map_ext. intros s. apply map_ext. intros d.
  unfold cost_entry. destruct (find_score s d (edge_cands k cands)) as [[x|]|]; reflexivity.
Qed.

(* the selector of F3 is exact: it is false iff every edge is feasible, and when
   it is true every oracle meeting the contract makes the pipeline fail *)
Lemma selector_F3_false n cands big :
  selector_F3 n cands = false <-> forall k, k < n -> feasible (edge_matrix false big k cands).
Proof.
  unfold selector_F3. split.
  - intros H k Hk. rewrite (edge_matrix_false_big big 0%Q). apply feasibleb_spec.
    destruct (feasibleb (edge_matrix false 0%Q k cands)) eqn:F; auto.
    assert (E : existsb (fun k => negb (feasibleb (edge_matrix false 0%Q k cands))) (seq 0 n) = true).
    { apply existsb_exists. exists k. split; [apply in_seq; lia|]. rewrite F. reflexivity. }
    congruence.
  - intros H. destruct (existsb _ (seq 0 n)) eqn:E; auto.
    apply existsb_exists in E. destruct E as [k [Hk Hf]]. apply in_seq in Hk.
    assert (F : feasibleb (edge_matrix false 0%Q k cands) = true).
    { apply feasibleb_spec. rewrite (edge_matrix_false_big 0%Q big). apply H. lia. }
    rewrite F in Hf. discriminate.
Qed.

Lemma selector_F3_true {P} lsa big n_nodes edges r m mls (peaks : list (nat * P)) scores :
  lsa_contract lsa -> arborescence edges r ->
  selector_F3 (length edges) (sample_cands edges peaks scores) = true ->
  predict_sample lsa false big n_nodes edges m mls peaks scores = Err EInfeasible.
Proof.
  intros C Harb H. unfold selector_F3 in H. apply existsb_exists in H. destruct H as [k [Hk Hf]].
  destruct (toposort_tree_complete_ordered_proof edges r Harb) as [out [Ht _]].
  rewrite (predict_unfold _ _ _ _ _ _ _ _ _ _ Ht). unfold match_sample.
  rewrite (match_edges_err lsa false big _ _ k Hk); [reflexivity|].
  apply contract_infeasible; auto; [apply edge_matrix_rect|].
  intros F. rewrite (edge_matrix_false_big big 0%Q) in F. apply feasibleb_spec in F.
  rewrite F in Hf. discriminate.
Qed.

Lemma predict_total_selector {P} lsa big n_nodes edges r m mls (peaks : list (nat * P)) scores :
  lsa_contract lsa -> arborescence edges r -> edges_in_range n_nodes edges ->
  selector_F3 (length edges) (sample_cands edges peaks scores) = false ->
  exists rows iscores, predict_sample lsa false big n_nodes edges m mls peaks scores = Ok (rows, iscores).
Proof.
  intros C Harb Hn H. eapply predict_total_partial; eauto. apply selector_F3_false. exact H.
Qed.

(* non-vacuity: a 3-node skeleton listed child edge first, two animals *)
Lemma arborescence_120 : arborescence [(1, 2); (0, 1)] 0.
Proof.
  split; [discriminate|]. split.
  { constructor; [simpl; intros [H|[]]; discriminate|constructor; [intros []|constructor]]. }
  split; [simpl; intros [H|[H|[]]]; discriminate|].
  exists (fun x => x). intros u v [H|[H|[]]]; inversion H; subst; simpl; auto.
Qed.

Definition ex_peaks : list (nat * (Q * Q * Q)) :=
  [(0, (1%Q, 1%Q, 1%Q)); (1, (2%Q, 2%Q, 1%Q)); (2, (3%Q, 3%Q, 1%Q));
   (0, (11%Q, 1%Q, (1#2)%Q)); (1, (12%Q, 2%Q, (1#2)%Q)); (2, (13%Q, 3%Q, (1#2)%Q))].
(* candidates: edge 0 = (1,2): (1,2) (1,5) (4,2) (4,5); edge 1 = (0,1): (0,1) (0,4) (3,1) (3,4) *)
Definition ex_scores : list score :=
  [Some (7#8)%Q; Some (1#8)%Q; None; Some (3#4)%Q;  Some (5#8)%Q; Some 0%Q; Some (1#4)%Q; Some (1#2)%Q].

Lemma ex_predict_value :
  predict_sample lsa_bf false 0%Q 3 [(1, 2); (0, 1)] (MipInt 2) (1#4)%Q ex_peaks ex_scores
  = Ok ([[Some (1%Q, 1%Q, 1%Q); Some (2%Q, 2%Q, 1%Q); Some (3%Q, 3%Q, 1%Q)];
         [Some (11%Q, 1%Q, (1#2)%Q); Some (12%Q, 2%Q, (1#2)%Q); Some (13%Q, 3%Q, (1#2)%Q)]],
        [(5#8) + ((7#8) + 0); (1#2) + ((3#4) + 0)]%Q).
Proof. vm_compute. reflexivity. Qed.

From Coq Require Import Lqa.

(* ====================================================================== *)
(* Part H — matrix ranks are peak ranks (review finding 3)                  *)

Lemma ssorted_ext l1 : forall l2, ssorted l1 -> ssorted l2 -> (forall x, In x l1 <-> In x l2) -> l1 = l2.
Proof.
  induction l1 as [|x t IH]; intros [|y u] S1 S2 E; auto.
  - exfalso. apply (proj2 (E y)). left; reflexivity.
  - exfalso. apply (proj1 (E x)). left; reflexivity.
  - inversion S1 as [|? ? Hx St]; subst. inversion S2 as [|? ? Hy Su]; subst.
    assert (x = y).
    { destruct (proj1 (E x) (or_introl eq_refl)) as [->|H1]; auto.
      destruct (proj2 (E y) (or_introl eq_refl)) as [->|H2]; auto.
      specialize (Hx _ H2). specialize (Hy _ H1). lia. }
    subst y. f_equal. apply IH; auto. intros z. split; intros Hz.
    + destruct (proj1 (E z) (or_intror Hz)) as [->|H]; auto. specialize (Hx _ Hz). lia.
    + destruct (proj2 (E z) (or_intror Hz)) as [->|H]; auto. specialize (Hy _ Hz). lia.
Qed.

Lemma node_inds_from_ssorted i j chans : ssorted (node_inds_from i j chans).
Proof.
  revert i. induction chans as [|c t IH]; simpl; intros i; [constructor|].
  destruct (c =? j); auto. constructor; auto.
  intros y Hy. apply node_inds_from_ge in Hy. lia.
Qed.

(* the i-th peak of node type j (rank i in peaks_of_node) sits at the global
   position given by the i-th entry of node_inds j *)
Lemma peaks_of_node_nth_from {P} j (peaks : list (nat * P)) : forall i0 i,
  match nth_error (peaks_of_node j peaks) i with
  | Some pl => exists g, nth_error (node_inds_from i0 j (map fst peaks)) i = Some (i0 + g) /\
                         nth_error peaks g = Some (j, pl)
  | None => nth_error (node_inds_from i0 j (map fst peaks)) i = None
  end.
Proof.
  unfold peaks_of_node. induction peaks as [|p t IH]; intros i0 i; simpl.
  - destruct i; reflexivity.
  - destruct (fst p =? j) eqn:E.
    + apply Nat.eqb_eq in E. destruct i as [|i]; simpl.
      * exists 0. rewrite Nat.add_0_r. split; auto. simpl. destruct p; simpl in *; subst; reflexivity.
      * specialize (IH (S i0) i).
        destruct (nth_error (map snd (filter (fun p0 => fst p0 =? j) t)) i) as [pl|]; auto.
        destruct IH as [g [H1 H2]]. exists (S g). split; auto.
        rewrite H1. f_equal. lia.
    + specialize (IH (S i0) i).
      destruct (nth_error (map snd (filter (fun p0 => fst p0 =? j) t)) i) as [pl|]; auto.
      destruct IH as [g [H1 H2]]. exists (S g). split; auto.
      rewrite H1. f_equal. lia.
Qed.

Lemma peaks_of_node_nth {P} j (peaks : list (nat * P)) i pl :
  nth_error (peaks_of_node j peaks) i = Some pl <->
  exists g, nth_error (node_inds j (map fst peaks)) i = Some g /\ nth_error peaks g = Some (j, pl).
Proof.
  pose proof (peaks_of_node_nth_from j peaks 0 i) as H. unfold node_inds. split.
  - intros E. rewrite E in H. destruct H as [g [H1 H2]]. exists g. auto.
  - intros [g [H1 H2]]. destruct (nth_error (peaks_of_node j peaks) i) as [pl'|].
    + destruct H as [g' [H1' H2']]. rewrite H1 in H1'. inversion H1'; subst g.
      simpl in H2'. rewrite H2 in H2'. inversion H2'; reflexivity.
    + rewrite H in H1. discriminate.
Qed.

(* candidates are pairwise distinct *)
Lemma NoDup_app_intro {A} (l1 l2 : list A) :
  NoDup l1 -> NoDup l2 -> (forall x, In x l1 -> ~ In x l2) -> NoDup (l1 ++ l2).
Proof.
  induction l1 as [|a t IH]; simpl; intros N1 N2 D; auto.
  inversion N1; subst. constructor.
  - rewrite in_app_iff. intros [H|H]; [auto|]. apply (D a); auto.
  - apply IH; auto.
Qed.

Lemma NoDup_list_prod {A B} (l1 : list A) (l2 : list B) : NoDup l1 -> NoDup l2 -> NoDup (list_prod l1 l2).
Proof.
  induction l1 as [|a t IH]; simpl; intros N1 N2; [constructor|].
  inversion N1; subst. apply NoDup_app_intro; auto.
  - apply FinFun.Injective_map_NoDup; auto. intros x y E. inversion E; reflexivity.
  - intros [x y] Hi1 Hi2. apply in_map_iff in Hi1. destruct Hi1 as [y' [E _]]. inversion E; subst.
    apply in_prod_iff in Hi2. tauto.
Qed.

Lemma candidates_NoDup edges chans : NoDup (candidates edges chans).
Proof.
  unfold candidates. generalize 0 as s0.
  induction edges as [|e t IH]; simpl; intros s0; [constructor|].
  apply NoDup_app_intro; auto.
  - apply FinFun.Injective_map_NoDup.
    + intros [a b] [c d] E. simpl in E. inversion E; reflexivity.
    + apply NoDup_list_prod; apply node_inds_from_NoDup.
  - intros [[k s] d] H1 H2. apply in_map_iff in H1. destruct H1 as [sd [E _]]. inversion E; subst.
    apply in_flat_map in H2. destruct H2 as [[k' e'] [H2 H3]]. simpl in H3.
    apply in_map_iff in H3. destruct H3 as [sd' [E' _]]. inversion E'; subst.
    apply in_combine_seq in H2. lia.
Qed.

Lemma combine_fun {A B} (l : list A) : forall (l' : list B) a x x',
  NoDup l -> In (a, x) (combine l l') -> In (a, x') (combine l l') -> x = x'.
Proof.
  induction l as [|y t IH]; intros [|b l'] a x x' N H1 H2; simpl in *; try tauto.
  inversion N; subst. destruct H1 as [H1|H1], H2 as [H2|H2].
  - congruence.
  - inversion H1; subst. apply in_combine_l in H2. contradiction.
  - inversion H2; subst. apply in_combine_l in H1. contradiction.
  - eapply IH; eauto.
Qed.

(* the score the cost matrix reads for (src, dst) is the score listed for THE
   candidate (k, src, dst) *)
Lemma sample_find_score {P} edges (peaks : list (nat * P)) scores k s d x :
  In (k, s, d, x) (sample_cands edges peaks scores) ->
  find_score s d (edge_cands k (sample_cands edges peaks scores)) = Some x.
Proof.
  intros Hin. unfold find_score.
  destruct (find (fun c => (c_src c =? s) && (c_dst c =? d)) (edge_cands k (sample_cands edges peaks scores)))
    as [c|] eqn:F.
  - apply find_some in F. destruct F as [Hc Hb]. apply andb_true_iff in Hb.
    rewrite !Nat.eqb_eq in Hb. destruct Hb as [Hs Hd].
    apply edge_cands_in in Hc. destruct Hc as [Hc Hk].
    destruct c as [[[k' s'] d'] x']. unfold c_src, c_dst, c_edge, c_score in *. simpl in *. subst.
    f_equal. unfold sample_cands in *. eapply combine_fun; eauto. apply candidates_NoDup.
  - exfalso. pose proof (find_none _ _ F (k, s, d, x)) as N. simpl in N.
    unfold c_src, c_dst in N. simpl in N. rewrite !Nat.eqb_refl in N.
    assert (true = false); [apply N|discriminate]. apply edge_cands_in. split; auto.
Qed.

Lemma sample_cands_ends {P} edges (peaks : list (nat * P)) scores k u v c :
  nth_error edges k = Some (u, v) -> In c (edge_cands k (sample_cands edges peaks scores)) ->
  In (c_src c) (node_inds u (map fst peaks)) /\ In (c_dst c) (node_inds v (map fst peaks)).
Proof.
  intros He Hc. destruct c as [[[k0 s] d] x]. apply edge_cands_in in Hc. destruct Hc as [Hc Hk].
  unfold c_edge in Hk; simpl in Hk; subst k0. apply in_combine_l in Hc.
  apply candidates_in in Hc. destruct Hc as [u' [v' [H1 [H2 H3]]]].
  unfold c_src, c_dst; simpl.
  assert (E : Some (u, v) = Some (u', v')) by (rewrite <- He, <- H1; reflexivity).
  inversion E; subst. auto.
Qed.

Lemma sample_cand_exists {P} edges (peaks : list (nat * P)) scores k u v s d :
  nth_error edges k = Some (u, v) -> length (candidates edges (map fst peaks)) <= length scores ->
  In s (node_inds u (map fst peaks)) -> In d (node_inds v (map fst peaks)) ->
  exists x, In (k, s, d, x) (sample_cands edges peaks scores).
Proof.
  intros He Hlen Hs Hd.
  assert (Hc : In (k, s, d) (candidates edges (map fst peaks))) by (apply candidates_in; eauto).
  destruct (in_combine_exists _ scores _ Hlen Hc) as [x Hx]. exists x. exact Hx.
Qed.

(* rows of the cost matrix of edge k = (u, v) are the peaks of node u in input
   order, columns the peaks of node v (when the other side has a peak at all) *)
Lemma sample_edge_srcs {P} edges (peaks : list (nat * P)) scores k u v :
  nth_error edges k = Some (u, v) -> length (candidates edges (map fst peaks)) <= length scores ->
  node_inds v (map fst peaks) <> [] ->
  edge_srcs k (sample_cands edges peaks scores) = node_inds u (map fst peaks).
Proof.
  intros He Hlen Hne. apply ssorted_ext; [apply sort_unique_ssorted|apply node_inds_from_ssorted|].
  intros s. unfold edge_srcs. rewrite sort_unique_In, in_map_iff. split.
  - intros [c [<- Hc]]. eapply sample_cands_ends; eauto.
  - intros Hs. destruct (node_inds v (map fst peaks)) as [|d t] eqn:Ed; [congruence|].
    destruct (sample_cand_exists edges peaks scores k u v s d He Hlen Hs) as [x Hx]; [rewrite Ed; left; reflexivity|].
    exists (k, s, d, x). split; auto. apply edge_cands_in. split; auto.
Qed.

Lemma sample_edge_dsts {P} edges (peaks : list (nat * P)) scores k u v :
  nth_error edges k = Some (u, v) -> length (candidates edges (map fst peaks)) <= length scores ->
  node_inds u (map fst peaks) <> [] ->
  edge_dsts k (sample_cands edges peaks scores) = node_inds v (map fst peaks).
Proof.
  intros He Hlen Hne. apply ssorted_ext; [apply sort_unique_ssorted|apply node_inds_from_ssorted|].
  intros d. unfold edge_dsts. rewrite sort_unique_In, in_map_iff. split.
  - intros [c [<- Hc]]. eapply sample_cands_ends; eauto.
  - intros Hd. destruct (node_inds u (map fst peaks)) as [|s t] eqn:Es; [congruence|].
    destruct (sample_cand_exists edges peaks scores k u v s d He Hlen) as [x Hx]; [rewrite Es; left; reflexivity|auto|].
    exists (k, s, d, x). split; auto. apply edge_cands_in. split; auto.
Qed.

Lemma ranks_are_peak_ranks {P} edges (peaks : list (nat * P)) scores k u v :
  nth_error edges k = Some (u, v) -> length (candidates edges (map fst peaks)) <= length scores ->
  let cands := sample_cands edges peaks scores in
  let chans := map fst peaks in
  (node_inds v chans <> [] -> edge_srcs k cands = node_inds u chans) /\
  (node_inds u chans <> [] -> edge_dsts k cands = node_inds v chans) /\
  (node_inds u chans = [] \/ node_inds v chans = [] -> edge_cands k cands = []) /\
  (forall i j s d, nth_error (node_inds u chans) i = Some s -> nth_error (node_inds v chans) j = Some d ->
     exists x, In (k, s, d, x) cands /\
               find_score s d (edge_cands k cands) = Some x /\
               forall fx big, entry (edge_matrix fx big k cands) i j = cost_entry fx big (Some x)) /\
  (forall j i pl, nth_error (peaks_of_node j peaks) i = Some pl <->
                  exists g, nth_error (node_inds j chans) i = Some g /\ nth_error peaks g = Some (j, pl)).
Proof.
  intros He Hlen cands chans. split; [|split; [|split; [|split]]].
  - apply (sample_edge_srcs edges peaks scores k u v He Hlen).
  - apply (sample_edge_dsts edges peaks scores k u v He Hlen).
  - intros Hor. destruct (edge_cands k cands) as [|c t] eqn:Ec; auto. exfalso.
    destruct (sample_cands_ends edges peaks scores k u v c He) as [H1 H2]; [fold cands; rewrite Ec; left; reflexivity|].
    fold chans in H1, H2. destruct Hor as [E|E]; rewrite E in *; contradiction.
  - intros i j s d Hs Hd.
    assert (Hsi : In s (node_inds u chans)) by (eapply nth_error_In; eauto).
    assert (Hdi : In d (node_inds v chans)) by (eapply nth_error_In; eauto).
    destruct (sample_cand_exists edges peaks scores k u v s d He Hlen Hsi Hdi) as [x Hx].
    exists x. split; [exact Hx|]. pose proof (sample_find_score _ _ _ _ _ _ _ Hx) as Hf. split; [exact Hf|].
    intros fx big.
    assert (Es : edge_srcs k cands = node_inds u chans).
    { apply (sample_edge_srcs edges peaks scores k u v He Hlen). fold chans. intros E. rewrite E in Hdi. contradiction. }
    assert (Ed : edge_dsts k cands = node_inds v chans).
    { apply (sample_edge_dsts edges peaks scores k u v He Hlen). fold chans. intros E. rewrite E in Hsi. contradiction. }
    assert (Hi : i < length (edge_srcs k cands)) by (rewrite Es; apply nth_error_Some; congruence).
    assert (Hj : j < length (edge_dsts k cands)) by (rewrite Ed; apply nth_error_Some; congruence).
    rewrite entry_edge_matrix by auto. rewrite Es, Ed.
    replace (nth i (node_inds u chans) 0) with s by (symmetry; apply nth_error_nth; exact Hs).
    replace (nth j (node_inds v chans) 0) with d by (symmetry; apply nth_error_nth; exact Hd).
    fold cands in Hf. rewrite Hf. reflexivity.
  - intros j i pl. apply peaks_of_node_nth.
Qed.

(* ====================================================================== *)
(* Part I — per-edge optimality of the REPAIRED matching (review finding 2) *)

(* the score table entry behind cell (i, j) of the cost matrix of edge k:
   None = no candidate, Some None = NaN, Some (Some x) = finite line score x *)
Definition sc_at (k : nat) (cands : list cand) (p : nat * nat) : option score :=
  find_score (nth (fst p) (edge_srcs k cands) 0) (nth (snd p) (edge_dsts k cands) 0) (edge_cands k cands).

(* every (source, destination) pair of the edge has a candidate — what
   get_connection_candidates produces (sample_cands_complete) *)
Definition complete_cands (k : nat) (cands : list cand) : Prop :=
  forall i j, i < length (edge_srcs k cands) -> j < length (edge_dsts k cands) -> sc_at k cands (i, j) <> None.

(* a one-to-one set of (row, column) pairs, of any size *)
Definition partial_asg (n m : nat) (b : asg) : Prop :=
  NoDup (map fst b) /\ NoDup (map snd b) /\ forall p, In p b -> fst p < n /\ snd p < m.
Definition nanfree (k : nat) (cands : list cand) (b : asg) : Prop :=
  forall p, In p b -> exists x, sc_at k cands p = Some (Some x).
Definition pscore (k : nat) (cands : list cand) (p : nat * nat) : Q :=
  match sc_at k cands p with Some (Some x) => x | _ => 0%Q end.
Definition score_total (k : nat) (cands : list cand) (b : asg) : Q := qsum (map (pscore k cands) b).

(* `big` dominates the score range of the edge *)
Definition big_dominates (big : Q) (k : nat) (cands : list cand) : Prop :=
  exists lo hi : Q, (lo <= 0)%Q /\ (0 <= hi)%Q /\
    (forall c x, In c (edge_cands k cands) -> c_score c = Some x -> (lo <= x)%Q /\ (x <= hi)%Q) /\
    (inject_Z (Z.of_nat (Nat.min (length (edge_srcs k cands)) (length (edge_dsts k cands)))) * (hi - lo) < big)%Q.

Definition Nq (n : nat) : Q := inject_Z (Z.of_nat n).
Lemma Nq_S n : (Nq (S n) == Nq n + 1)%Q.
Proof. unfold Nq. rewrite Nat2Z.inj_succ. unfold Z.succ. rewrite inject_Z_plus. reflexivity. Qed.
Lemma Nq_add a b : (Nq (a + b) == Nq a + Nq b)%Q.
Proof. unfold Nq. rewrite Nat2Z.inj_add, inject_Z_plus. reflexivity. Qed.
Lemma Nq_le a b : a <= b -> (Nq a <= Nq b)%Q.
Proof. intros H. unfold Nq. rewrite <- Zle_Qle. lia. Qed.
Lemma Nq_nonneg a : (0 <= Nq a)%Q.
Proof. apply (Nq_le 0 a). lia. Qed.

(* sums *)
Lemma qsum_le_len {A} (f : A -> Q) c l : (forall p, In p l -> (f p <= c)%Q) -> (qsum (map f l) <= Nq (length l) * c)%Q.
Proof.
  induction l as [|p t IH]; intros H.
  - simpl. change (Nq 0) with 0%Q. lra.
  - change (length (p :: t)) with (S (length t)). rewrite Nq_S. simpl.
    specialize (IH (fun q Hq => H q (or_intror Hq))). specialize (H p (or_introl eq_refl)). nra.
Qed.
Lemma qsum_ge_len {A} (f : A -> Q) c l : (forall p, In p l -> (c <= f p)%Q) -> (Nq (length l) * c <= qsum (map f l))%Q.
Proof.
  induction l as [|p t IH]; intros H.
  - simpl. change (Nq 0) with 0%Q. lra.
  - change (length (p :: t)) with (S (length t)). rewrite Nq_S. simpl.
    specialize (IH (fun q Hq => H q (or_intror Hq))). specialize (H p (or_introl eq_refl)). nra.
Qed.
Lemma qsum_eq_len {A} (f : A -> Q) c l : (forall p, In p l -> (f p == c)%Q) -> (qsum (map f l) == Nq (length l) * c)%Q.
Proof.
  induction l as [|p t IH]; intros H.
  - simpl. change (Nq 0) with 0%Q. lra.
  - change (length (p :: t)) with (S (length t)). rewrite Nq_S. simpl.
    specialize (IH (fun q Hq => H q (or_intror Hq))). specialize (H p (or_introl eq_refl)). nra.
Qed.
Lemma qsum_opp {A} (f g : A -> Q) l : (forall p, In p l -> (f p == - g p)%Q) -> (qsum (map f l) == - qsum (map g l))%Q.
Proof.
  induction l as [|p t IH]; intros H; simpl; [lra|].
  specialize (IH (fun q Hq => H q (or_intror Hq))). specialize (H p (or_introl eq_refl)). lra.
Qed.
Lemma qsum_app l1 l2 : (qsum (l1 ++ l2) == qsum l1 + qsum l2)%Q.
Proof. induction l1 as [|x t IH]; simpl; [lra|]. rewrite IH. lra. Qed.
Lemma qsum_filter_split {A} (f : A -> Q) (g : A -> bool) l :
  (qsum (map f l) == qsum (map f (filter g l)) + qsum (map f (filter (fun x => negb (g x)) l)))%Q.
Proof.
  induction l as [|x t IH]; simpl; [lra|]. destruct (g x); simpl; rewrite IH; lra.
Qed.
Lemma filter_split_length {A} (g : A -> bool) l :
  length l = length (filter g l) + length (filter (fun x => negb (g x)) l).
Proof. induction l as [|x t IH]; simpl; auto. destruct (g x); simpl; lia. Qed.

Local Open Scope Q_scope.
Lemma arith_card (K Np B X Mn Sk Sb lo hi big ca cb ce : Q) :
  lo<=0 -> 0<=hi -> Mn*(hi-lo) < big -> K+Np==Mn -> B+X==Mn -> 0<=K -> 0<=X -> 0<=Np -> 0<=B ->
  ca == -Sk + Np*big -> cb == -Sb -> ce <= X*big -> ca <= cb + ce -> Sk <= K*hi -> B*lo <= Sb -> K+1 <= B -> False.
Proof.
  intros.
  assert (HM : 0 <= Mn) by lra.
  assert (P0 : 0 <= Mn*(hi-lo)) by (apply Qmult_le_0_compat; lra).
  assert (P1 : 0 <= (B-K-1)*big) by (apply Qmult_le_0_compat; lra).
  assert (P2 : 0 <= (Mn-K)*hi) by (apply Qmult_le_0_compat; lra).
  assert (P3 : 0 <= (Mn-B)*(-lo)) by (apply Qmult_le_0_compat; lra).
  assert (E1 : Np*big == (Mn-K)*big) by (assert (Np == Mn-K) by lra; rewrite H15; reflexivity).
  assert (E2 : X*big == (Mn-B)*big) by (assert (X == Mn-B) by lra; rewrite H15; reflexivity).
  lra.
Qed.
Lemma arith_same (K Np B X Mn Sk Sb big ca cb ce : Q) :
  K+Np==Mn -> B+X==Mn -> 
  ca == -Sk + Np*big -> cb == -Sb -> ce <= X*big -> ca <= cb + ce -> B == K -> Sb <= Sk.
Proof.
  intros.
  assert (E1 : Np*big == X*big) by (assert (Np == X) by lra; rewrite H6; reflexivity).
  lra.
Qed.
Local Close Scope Q_scope.

(* a one-to-one set of pairs extends to a full assignment of size min(n, m) *)
Lemma free_index l n : NoDup l -> length l < n -> exists x, x < n /\ ~ In x l.
Proof.
  intros ND Hl.
  destruct (Forall_Exists_dec (fun x => In x l) (fun x => in_dec Nat.eq_dec x l) (seq 0 n)) as [F|E].
  - exfalso. assert (I : incl (seq 0 n) l) by (intros x Hx; rewrite Forall_forall in F; auto).
    pose proof (NoDup_incl_length (seq_NoDup n 0) I) as L. rewrite seq_length in L. lia.
  - apply Exists_exists in E. destruct E as [x [Hx Hn]]. apply in_seq in Hx. exists x. split; [lia|auto].
Qed.

Lemma partial_asg_length n m b : partial_asg n m b -> length b <= Nat.min n m.
Proof.
  intros [N1 [N2 R]].
  assert (L1 : length (map fst b) <= n).
  { rewrite <- (seq_length n 0). apply NoDup_incl_length; auto. intros x Hx. apply in_map_iff in Hx.
    destruct Hx as [p [<- Hp]]. apply in_seq. destruct (R p Hp). lia. }
  assert (L2 : length (map snd b) <= m).
  { rewrite <- (seq_length m 0). apply NoDup_incl_length; auto. intros x Hx. apply in_map_iff in Hx.
    destruct Hx as [p [<- Hp]]. apply in_seq. destruct (R p Hp). lia. }
  rewrite map_length in L1, L2. lia.
Qed.

Lemma partial_asg_extend n m : forall d b, partial_asg n m b -> Nat.min n m - length b = d ->
  exists ext, valid_asg n m (b ++ ext).
Proof.
  induction d as [|d IH]; intros b Hb Hd.
  - exists []. rewrite app_nil_r. destruct Hb as [N1 [N2 R]]. pose proof (partial_asg_length n m b (conj N1 (conj N2 R))).
    unfold valid_asg. repeat split; auto; try lia; apply R; auto.
  - destruct Hb as [N1 [N2 R]].
    destruct (free_index (map fst b) n N1) as [r [Hr Fr]]; [rewrite map_length; lia|].
    destruct (free_index (map snd b) m N2) as [c [Hc Fc]]; [rewrite map_length; lia|].
    destruct (IH (b ++ [(r, c)])) as [ext V].
    + unfold partial_asg. rewrite !map_app. simpl. repeat split.
      * apply NoDup_app_intro; auto; [constructor; [intros []|constructor]|].
        intros x Hx [<-|[]]. contradiction.
      * apply NoDup_app_intro; auto; [constructor; [intros []|constructor]|].
        intros x Hx [<-|[]]. contradiction.
      * apply in_app_or in H. destruct H as [H|[<-|[]]]; [apply R; auto|exact Hr].
      * apply in_app_or in H. destruct H as [H|[<-|[]]]; [apply R; auto|exact Hc].
    + rewrite app_length. simpl. lia.
    + exists ((r, c) :: ext). rewrite <- app_assoc in V. exact V.
Qed.

Section FixedOpt.
  Variables (big : Q) (k : nat) (cands : list cand).
  Let n := length (edge_srcs k cands).
  Let m := length (edge_dsts k cands).
  Let M := edge_matrix true big k cands.
  Hypothesis Hcomplete : complete_cands k cands.

  Definition pcost (p : nat * nat) : Q :=
    match sc_at k cands p with Some (Some x) => (- x)%Q | _ => big end.

  Lemma entry_fixed p : fst p < n -> snd p < m -> entry M (fst p) (snd p) = Some (pcost p).
  Proof.
    intros H1 H2. unfold M. rewrite entry_edge_matrix by auto. unfold pcost, sc_at.
    pose proof (Hcomplete (fst p) (snd p) H1 H2) as Hc. unfold sc_at in Hc. simpl in Hc.
    destruct (find_score _ _ _) as [[x|]|]; simpl; auto. congruence.
  Qed.

  Lemma total_fixed a : (forall p, In p a -> fst p < n /\ snd p < m) -> total M a = Some (qsum (map pcost a)).
  Proof.
    induction a as [|p t IH]; intros R; simpl; auto.
    destruct (R p (or_introl eq_refl)) as [R1 R2]. rewrite (entry_fixed p R1 R2).
    rewrite IH by (intros; apply R; right; auto). reflexivity.
  Qed.

  Lemma sc_at_in p x : sc_at k cands p = Some (Some x) ->
    exists c, In c (edge_cands k cands) /\ c_score c = Some x.
  Proof.
    unfold sc_at, find_score. destruct (find _ _) as [c|] eqn:F; [|discriminate].
    intros E. inversion E. apply find_some in F. exists c. tauto.
  Qed.

  Hypothesis Hdom : big_dominates big k cands.

  Lemma main_ineq a b' :
    valid_asg n m a ->
    (forall a' t', valid_asg n m a' -> total M a' = Some t' -> exists t, total M a = Some t /\ Qle t t') ->
    partial_asg n m b' -> nanfree k cands b' ->
    let kept := filter (fun p => negb (is_nan_pair (edge_cands k cands) (edge_srcs k cands) (edge_dsts k cands) p)) a in
    length b' <= length kept /\
    (length b' = length kept -> (score_total k cands b' <= score_total k cands kept)%Q).
  Proof.
    intros V Hmin Hb Hnf kept.
    destruct Hdom as [lo [hi [Hlo [Hhi [Hrange Hbig]]]]]. fold n m in Hbig.
    destruct (partial_asg_extend n m _ b' Hb eq_refl) as [ext Vext].
    destruct V as [V1 [V2 [V3 V4]]].
    pose proof Vext as [E1 [E2 [E3 E4]]].
    destruct (Hmin (b' ++ ext) _ Vext (total_fixed _ E4)) as [t [Ta Hle]].
    rewrite (total_fixed _ V4) in Ta. inversion Ta; subst t. clear Ta.
    set (isnan := is_nan_pair (edge_cands k cands) (edge_srcs k cands) (edge_dsts k cands)) in *.
    set (nanp := filter (fun p => negb (negb (isnan p))) a).
    (* cost of a *)
    assert (Sa : (qsum (map pcost a) == qsum (map pcost kept) + qsum (map pcost nanp))%Q)
      by (apply (qsum_filter_split pcost (fun p => negb (isnan p)) a)).
    assert (Kfin : forall p, In p kept -> exists x, sc_at k cands p = Some (Some x)).
    { intros p Hp. apply filter_In in Hp. destruct Hp as [Hp Hn]. destruct (V4 p Hp) as [R1 R2].
      pose proof (Hcomplete _ _ R1 R2) as Hc. unfold isnan, is_nan_pair in Hn. unfold sc_at in *. simpl in *.
      destruct (find_score _ _ _) as [[x|]|]; [eauto|discriminate|congruence]. }
    assert (Ck : (qsum (map pcost kept) == - score_total k cands kept)%Q).
    { apply qsum_opp. intros p Hp. destruct (Kfin p Hp) as [x Hx]. unfold pcost, pscore. rewrite Hx. reflexivity. }
    assert (Cn : (qsum (map pcost nanp) == Nq (length nanp) * big)%Q).
    { apply qsum_eq_len. intros p Hp. apply filter_In in Hp. destruct Hp as [Hp Hn]. rewrite negb_involutive in Hn.
      unfold isnan, is_nan_pair in Hn. unfold pcost, sc_at.
      destruct (find_score _ _ _) as [[x|]|]; try discriminate. reflexivity. }
    (* cost of b' ++ ext *)
    rewrite map_app, qsum_app in Hle.
    assert (Cb : (qsum (map pcost b') == - score_total k cands b')%Q).
    { apply qsum_opp. intros p Hp. destruct (Hnf p Hp) as [x Hx]. unfold pcost, pscore. rewrite Hx. reflexivity. }
    (* bounds on finite scores *)
    assert (Bnd : forall p x, sc_at k cands p = Some (Some x) -> (lo <= x)%Q /\ (x <= hi)%Q).
    { intros p x Hx. destruct (sc_at_in p x Hx) as [c [Hc Hs]]. eapply Hrange; eauto. }
    assert (Sk : (score_total k cands kept <= Nq (length kept) * hi)%Q).
    { apply qsum_le_len. intros p Hp. destruct (Kfin p Hp) as [x Hx]. unfold pscore. rewrite Hx. eapply Bnd; eauto. }
    assert (Sb : (Nq (length b') * lo <= score_total k cands b')%Q).
    { apply qsum_ge_len. intros p Hp. destruct (Hnf p Hp) as [x Hx]. unfold pscore. rewrite Hx. eapply Bnd; eauto. }
    (* lengths *)
    assert (La : length a = length kept + length nanp) by (apply (filter_split_length (fun p => negb (isnan p)) a)).
    rewrite app_length in E3.
    assert (LaQ : (Nq (length kept) + Nq (length nanp) == Nq (Nat.min n m))%Q) by (rewrite <- Nq_add, <- La, V3; reflexivity).
    assert (LbQ : (Nq (length b') + Nq (length ext) == Nq (Nat.min n m))%Q) by (rewrite <- Nq_add, E3; reflexivity).
    pose proof (Nq_nonneg (length kept)) as P1. pose proof (Nq_nonneg (length ext)) as P2.
    pose proof (Nq_nonneg (length nanp)) as P3. pose proof (Nq_nonneg (length b')) as P4.
    fold (Nq (Nat.min n m)) in Hbig.
    (* extension pairs cost at most big (needed only when there is one) *)
    assert (Cx : (qsum (map pcost ext) <= Nq (length ext) * big)%Q).
    { apply qsum_le_len. intros p Hp. destruct (E4 p (in_or_app _ _ _ (or_intror Hp))) as [R1 R2].
      assert (1 <= Nat.min n m) by lia. pose proof (Nq_le _ _ H) as H1. change (Nq 1) with 1%Q in H1.
      unfold pcost. destruct (sc_at k cands p) as [[x|]|] eqn:Ex; try lra.
      destruct (Bnd p x Ex) as [B1 B2]. nra. }
    split.
    - destruct (le_lt_dec (length b') (length kept)) as [|Hlt]; auto. exfalso.
      assert (Hq : (Nq (length kept) + 1 <= Nq (length b'))%Q).
      { rewrite <- Nq_S. apply Nq_le. lia. }
      eapply (arith_card (Nq (length kept)) (Nq (length nanp)) (Nq (length b')) (Nq (length ext)) (Nq (Nat.min n m))
                (score_total k cands kept) (score_total k cands b') lo hi big
                (qsum (map pcost a)) (qsum (map pcost b')) (qsum (map pcost ext))); eauto.
      rewrite Sa, Ck, Cn. reflexivity.
    - intros Hlen.
      eapply (arith_same (Nq (length kept)) (Nq (length nanp)) (Nq (length b')) (Nq (length ext)) (Nq (Nat.min n m))
                (score_total k cands kept) (score_total k cands b') big
                (qsum (map pcost a)) (qsum (map pcost b')) (qsum (map pcost ext))); eauto.
      + rewrite Sa, Ck, Cn. reflexivity.
      + rewrite Hlen. reflexivity.
  Qed.
End FixedOpt.

Lemma Qopp_opp_eq (x : Q) : (- - x)%Q = x.
Proof. destruct x as [a b]. unfold Qopp. simpl. rewrite Z.opp_involutive. reflexivity. Qed.

Lemma kept_finite k cands a p :
  complete_cands k cands ->
  (forall q, In q a -> fst q < length (edge_srcs k cands) /\ snd q < length (edge_dsts k cands)) ->
  In p (kept_pairs true k cands a) -> exists x, sc_at k cands p = Some (Some x).
Proof.
  intros Hc R Hp. unfold kept_pairs in Hp. apply filter_In in Hp. destruct Hp as [Hp Hn].
  destruct (R p Hp) as [R1 R2]. pose proof (Hc _ _ R1 R2) as Hcc. unfold is_nan_pair in Hn. unfold sc_at in *. simpl in *.
  destruct (find_score _ _ _) as [[x|]|]; [eauto|discriminate|congruence].
Qed.

(* (f) for the repaired matching — the code in /repo since f3ef4e3.  NaN entries
   get the finite placeholder cost `big`, pairs landing on them are discarded.
   If every (src, dst) pair of the edge has a candidate and `big` dominates the
   score range, the remaining matches b are a NaN-free one-to-one set such that
   each match carries the finite line score of its candidate, no NaN-free
   one-to-one set has more pairs, and none of the same size has a larger total
   line score. *)
Lemma match_edge_optimal_fixed lsa big k cands ms :
  lsa_contract lsa -> match_edge lsa true big k cands = Ok ms ->
  complete_cands k cands -> big_dominates big k cands ->
  let n := length (edge_srcs k cands) in
  let m := length (edge_dsts k cands) in
  exists b, ms = map (fun p => (k, fst p, snd p, Some (pscore k cands p))) b /\
    partial_asg n m b /\ nanfree k cands b /\
    (forall mt, In mt ms -> exists x, m_score mt = Some x /\
                                      sc_at k cands (m_src mt, m_dst mt) = Some (Some x)) /\
    (forall b', partial_asg n m b' -> nanfree k cands b' -> length b' <= length b) /\
    (forall b', partial_asg n m b' -> nanfree k cands b' -> length b' = length b ->
                (score_total k cands b' <= score_total k cands b)%Q).
Proof.
  intros C H Hc Hd n m.
  destruct (match_edge_spec _ _ _ _ _ _ C H) as [a [La [V Hms]]].
  pose proof (C _ (edge_matrix_rect true big k cands)) as C1. rewrite La in C1.
  rewrite edge_matrix_rows, edge_matrix_cols in C1. destruct C1 as [_ [t [T Hmin]]].
  fold n m in V, Hmin.
  pose proof V as [V1 [V2 [V3 V4]]].
  set (b := kept_pairs true k cands a).
  assert (Kf : nanfree k cands b) by (intros p Hp; eapply kept_finite; eauto).
  assert (Hms' : ms = map (fun p => (k, fst p, snd p, Some (pscore k cands p))) b).
  { rewrite Hms. apply map_ext_in. intros p Hp. f_equal.
    destruct (V4 p (kept_pairs_incl _ _ _ _ _ Hp)) as [R1 R2].
    rewrite (entry_fixed big k cands Hc p R1 R2). destruct (Kf p Hp) as [x Hx].
    unfold pcost, pscore. rewrite Hx. simpl. rewrite Qopp_opp_eq. reflexivity. }
  exists b. split; [exact Hms'|]. split; [|split; [exact Kf|split]].
  - unfold partial_asg. split; [apply (kept_pairs_nodup fst); auto|].
    split; [apply (kept_pairs_nodup snd); auto|]. intros p Hp. apply V4. eapply kept_pairs_incl; eauto.
  - intros mt Hin. rewrite Hms' in Hin. apply in_map_iff in Hin. destruct Hin as [p [<- Hp]].
    unfold m_score, m_src, m_dst. simpl. destruct (Kf p Hp) as [x Hx]. exists x.
    destruct p as [i j]. simpl. split; [|exact Hx]. unfold pscore. rewrite Hx. reflexivity.
  - assert (Hmin' : forall a' t', valid_asg n m a' -> total (edge_matrix true big k cands) a' = Some t' ->
                      exists t0, total (edge_matrix true big k cands) a = Some t0 /\ Qle t0 t').
    { intros a' t' Va Ta. exists t. split; auto. eapply Hmin; eauto. }
    split.
    + intros b' Pb Nb. apply (main_ineq big k cands Hc Hd a b' V Hmin' Pb Nb).
    + intros b' Pb Nb. apply (main_ineq big k cands Hc Hd a b' V Hmin' Pb Nb).
Qed.

(* an edge without NaN scores: the repaired matching IS the unrepaired one (so
   c08_matches_optimal, stated for fixed_F3 = false, describes it verbatim) *)
Lemma match_edge_fixed_eq_no_nan lsa big k cands :
  (forall c, In c (edge_cands k cands) -> c_score c <> None) ->
  edge_matrix true big k cands = edge_matrix false big k cands /\
  match_edge lsa true big k cands = match_edge lsa false big k cands.
Proof.
  intros Hn.
  assert (Hf : forall s d, find_score s d (edge_cands k cands) <> Some None).
  { intros s d. unfold find_score. destruct (find _ _) as [c|] eqn:F; [|discriminate].
    apply find_some in F. intros E. inversion E as [E']. apply (Hn c); tauto. }
  assert (EM : edge_matrix true big k cands = edge_matrix false big k cands).
  { unfold edge_matrix, cost_matrix. apply map_ext. intros s. apply map_ext. intros d.
    generalize (Hf s d). destruct (find_score s d (edge_cands k cands)) as [[x|]|]; simpl; auto. intros N; exfalso; apply N; reflexivity. }
  split; auto. unfold match_edge. rewrite EM. destruct (lsa (edge_matrix false big k cands)) as [a|]; auto.
  f_equal. f_equal. unfold kept_pairs. apply filter_all_true. intros p _. unfold is_nan_pair.
  generalize (Hf (nth (fst p) (edge_srcs k cands) 0) (nth (snd p) (edge_dsts k cands) 0)).
  destruct (find_score _ _ _) as [[x|]|]; simpl; auto; intros N; exfalso; apply N; reflexivity.
Qed.

(* what get_connection_candidates + a long enough score list produce is complete *)
Lemma sample_cands_complete {P} edges (peaks : list (nat * P)) scores k :
  length (candidates edges (map fst peaks)) <= length scores ->
  complete_cands k (sample_cands edges peaks scores).
Proof.
  intros Hlen i j Hi Hj. set (cands := sample_cands edges peaks scores) in *. unfold sc_at. simpl.
  set (s := nth i (edge_srcs k cands) 0). set (d := nth j (edge_dsts k cands) 0).
  assert (Hs : In s (edge_srcs k cands)) by (apply nth_In; auto).
  assert (Hd : In d (edge_dsts k cands)) by (apply nth_In; auto).
  unfold edge_srcs in Hs. apply (proj1 (sort_unique_In _ _)) in Hs. apply in_map_iff in Hs.
  unfold edge_dsts in Hd. apply (proj1 (sort_unique_In _ _)) in Hd. apply in_map_iff in Hd.
  destruct Hs as [c1 [Es Hs]]. destruct Hd as [c2 [Ed Hd]].
  assert (Hk : exists u v, nth_error edges k = Some (u, v)).
  { destruct c1 as [[[k1 s1] d1] x1]. apply edge_cands_in in Hs. destruct Hs as [Hs Hk1].
    unfold c_edge in Hk1. simpl in Hk1. subst k1. unfold cands, sample_cands in Hs. apply in_combine_l in Hs.
    apply candidates_in in Hs. destruct Hs as [u [v [He _]]]. eauto. }
  destruct Hk as [u [v He]].
  destruct (sample_cands_ends edges peaks scores k u v c1 He Hs) as [H1 _].
  destruct (sample_cands_ends edges peaks scores k u v c2 He Hd) as [_ H2].
  rewrite Es in H1. rewrite Ed in H2.
  destruct (sample_cand_exists edges peaks scores k u v s d He Hlen H1 H2) as [x Hx].
  fold cands in Hx. unfold cands. rewrite (sample_find_score _ _ _ _ _ _ _ Hx). discriminate.
Qed.

(* the boolean evaluated by the harness on every generated edge implies the hypothesis *)
Lemma qmin0_spec l : (qmin0 l <= 0)%Q /\ forall x, In x l -> (qmin0 l <= x)%Q.
Proof.
  induction l as [|y t [I1 I2]]; simpl.
  - split; [lra|tauto].
  - destruct (Qle_bool y (qmin0 t)) eqn:E.
    + apply Qle_bool_iff in E. split; [lra|]. intros x [<-|Hx]; [lra|]. specialize (I2 x Hx). lra.
    + assert (~ (y <= qmin0 t)%Q) by (rewrite <- Qle_bool_iff; congruence).
      split; auto. intros x [<-|Hx]; [lra|auto].
Qed.
Lemma qmax0_spec l : (0 <= qmax0 l)%Q /\ forall x, In x l -> (x <= qmax0 l)%Q.
Proof.
  induction l as [|y t [I1 I2]]; simpl.
  - split; [lra|tauto].
  - destruct (Qle_bool (qmax0 t) y) eqn:E.
    + apply Qle_bool_iff in E. split; [lra|]. intros x [<-|Hx]; [lra|]. specialize (I2 x Hx). lra.
    + assert (~ (qmax0 t <= y)%Q) by (rewrite <- Qle_bool_iff; congruence).
      split; auto. intros x [<-|Hx]; [lra|auto].
Qed.

Lemma big_dominatesb_sound big k cands : big_dominatesb big k cands = true -> big_dominates big k cands.
Proof.
  unfold big_dominatesb, score_spread. intros H. apply negb_true_iff in H.
  set (fs := finite_scores (edge_cands k cands)) in *.
  destruct (qmin0_spec fs) as [L1 L2]. destruct (qmax0_spec fs) as [U1 U2].
  exists (qmin0 fs), (qmax0 fs). split; [exact L1|]. split; [exact U1|]. split.
  - intros c x Hc Hx. assert (Hin : In x fs).
    { unfold fs, finite_scores. apply in_flat_map. exists c. split; auto. rewrite Hx. left; reflexivity. }
    split; auto.
  - apply Qnot_le_lt. rewrite <- Qle_bool_iff. congruence.
Qed.

(* the whole sample: the matches of every edge of a predict sample are optimal in
   the sense of match_edge_optimal_fixed *)
Lemma match_sample_optimal_fixed {P} lsa big edges (peaks : list (nat * P)) scores ms k :
  lsa_contract lsa -> length (candidates edges (map fst peaks)) <= length scores ->
  let cands := sample_cands edges peaks scores in
  match_sample lsa true big (length edges) cands = Ok ms -> k < length edges ->
  big_dominatesb big k cands = true ->
  let n := length (edge_srcs k cands) in
  let m := length (edge_dsts k cands) in
  exists b, filter (on_edge k) ms = map (fun p => (k, fst p, snd p, Some (pscore k cands p))) b /\
    partial_asg n m b /\ nanfree k cands b /\
    (forall mt, In mt (filter (on_edge k) ms) ->
       exists x, m_score mt = Some x /\ sc_at k cands (m_src mt, m_dst mt) = Some (Some x)) /\
    (forall b', partial_asg n m b' -> nanfree k cands b' -> length b' <= length b) /\
    (forall b', partial_asg n m b' -> nanfree k cands b' -> length b' = length b ->
                (score_total k cands b' <= score_total k cands b)%Q).
Proof.
  intros C Hlen cands H Hk Hd n m. unfold match_sample in H.
  destruct (match_edges_spec _ _ _ _ C _ _ H (seq_NoDup (length edges) 0)) as [_ S2].
  destruct (S2 k) as [msk [E F]]; [apply in_seq; lia|]. rewrite F.
  apply (match_edge_optimal_fixed lsa big k cands msk C E).
  - apply sample_cands_complete; auto.
  - apply big_dominatesb_sound; auto.
Qed.

(* --- examples on the evaluated (repaired) variant --------------------------- *)
(* a NaN pair is dropped, the finite pair is matched *)
Lemma ex_fixed_nan_dropped_value :
  match_edge lsa_bf true 1000000 0 [(0,0,2,None);(0,0,3,Some (1#2)%Q);(0,1,2,Some (1#4)%Q);(0,1,3,None)]
  = Ok [(0,0,1,Some (1#2)%Q);(0,1,0,Some (1#4)%Q)] /\
  big_dominatesb 1000000 0 [(0,0,2,None);(0,0,3,Some (1#2)%Q);(0,1,2,Some (1#4)%Q);(0,1,3,None)] = true.
Proof. vm_compute. split; reflexivity. Qed.

(* the domination hypothesis is necessary: a placeholder below the score range
   loses both finite matches ... *)
Lemma ex_small_big_loses_value :
  match_edge lsa_bf true (-10) 0 [(0,0,2,None);(0,0,3,Some (1#2)%Q);(0,1,2,Some (1#2)%Q);(0,1,3,None)] = Ok [] /\
  big_dominatesb (-10) 0 [(0,0,2,None);(0,0,3,Some (1#2)%Q);(0,1,2,Some (1#2)%Q);(0,1,3,None)] = false.
Proof. vm_compute. split; reflexivity. Qed.

(* ... and with the code's 1e6 a line score below -1e6 does: the NaN-free pair
   (0,1) exists but no match is returned (line scores of that size need PAF values
   around 1e6: outside the stated domain, see notes) *)
Lemma ex_1e6_not_dominating_value :
  match_edge lsa_bf true 1000000 0 [(0,0,1,None);(0,0,2,Some (-2000000)%Q)] = Ok [] /\
  big_dominatesb 1000000 0 [(0,0,1,None);(0,0,2,Some (-2000000)%Q)] = false.
Proof. vm_compute. split; reflexivity. Qed.

(* --- float min_instance_peaks: the binary64 product, not the exact one -------- *)
Lemma ex_threshold_06_5_value :
  threshold (MipFloat (5404319552844595 # 9007199254740992)) 5 = Some 3%Z /\
  Qfloor ((5404319552844595 # 9007199254740992) * inject_Z 5) = 2%Z.
Proof. vm_compute. split; reflexivity. Qed.
Lemma ex_threshold_03_10_value :
  threshold (MipFloat (5404319552844595 # 18014398509481984)) 10 = Some 3%Z /\
  Qfloor ((5404319552844595 # 18014398509481984) * inject_Z 10) = 2%Z.
Proof. vm_compute. split; reflexivity. Qed.
Lemma ex_threshold_dyadic_value :
  threshold (MipFloat (1#4)) 6 = Some 1%Z /\ threshold (MipFloat 1) 5 = Some 5%Z /\
  threshold (MipFloat 0) 5 = None /\ threshold (MipInt 2) 5 = Some 2%Z.
Proof. vm_compute. repeat split; reflexivity. Qed.

(* the pipeline on the evaluated variant (fixed_F3 = true, big = 1e6): node 1's
   first peak has only NaN scores towards node 2 (coincident peaks) — the pinned
   tree raised, the current tree drops the NaN pair and groups the rest *)
Definition ex_scores_nan_row : list score :=
  [None; None; Some (3#4)%Q; Some (1#8)%Q;  Some (5#8)%Q; Some 0%Q; Some (1#4)%Q; Some (1#2)%Q].
Lemma ex_predict_fixed_value :
  predict_sample lsa_bf true 1000000 3 [(1, 2); (0, 1)] (MipInt 2) (1#4)%Q ex_peaks ex_scores_nan_row
  = Ok ([[Some (1%Q, 1%Q, 1%Q); Some (2%Q, 2%Q, 1%Q); None];
         [Some (11%Q, 1%Q, (1#2)%Q); Some (12%Q, 2%Q, (1#2)%Q); Some (3%Q, 3%Q, 1%Q)]],
        [(5#8)%Q; (10#8)%Q]) /\
  predict_sample lsa_bf false 1000000 3 [(1, 2); (0, 1)] (MipInt 2) (1#4)%Q ex_peaks ex_scores_nan_row
  = Err EInfeasible.
Proof. vm_compute. split; reflexivity. Qed.
(* ====================================================================== *)
(* Part J — every accepted connection is listed (and summed) once (review finding 6) *)
Lemma edges_ordered_tail e es : edges_ordered (e :: es) -> edges_ordered es.
Proof. intros H l1 e0 l2 E. destruct (H (e :: l1) e0 l2) as [H1 H2]; [rewrite E; reflexivity|].
  split; auto. intros e' He'. apply H2. right; auto. Qed.

Lemma flatten_NoDup ecs :
  edges_ordered (map fst ecs) -> (forall e cs, In (e, cs) ecs -> one_to_one cs) -> NoDup (flatten ecs).
Proof.
  induction ecs as [|[e cs] t IH]; intros Ho H11; [constructor|].
  rewrite flatten_cons. apply NoDup_app_intro.
  - apply FinFun.Injective_map_NoDup; [intros a b E; inversion E; reflexivity|].
    destruct (H11 e cs (or_introl eq_refl)) as [N _]. eapply NoDup_map_inv; eauto.
  - apply IH; [eapply edges_ordered_tail; exact Ho|intros; eapply H11; right; eauto].
  - intros [e' c] H1 H2. apply in_map_iff in H1. destruct H1 as [c0 [E _]]. inversion E; subst e' c0.
    apply in_flatten in H2. destruct H2 as [cs' [H2 _]].
    apply in_split in H2. destruct H2 as [t1 [t2 Et]].
    destruct (Ho ((e :: map fst t1)) e (map fst t2)) as [_ Hb].
    { simpl. rewrite Et, map_app. reflexivity. }
    destruct (Hb e (or_introl eq_refl)) as [_ Hne]. apply Hne; reflexivity.
Qed.

Lemma group_conns_once {P} n_nodes edges sorted mls (peaks : list (nat * P)) ms ecs :
  group_hyps n_nodes edges sorted mls peaks ms ecs -> NoDup (flatten ecs).
Proof.
  intros H. destruct (group_hyps_elim _ _ _ _ _ _ _ H) as [Ho [H11 _]]. apply flatten_NoDup; auto.
Qed.
