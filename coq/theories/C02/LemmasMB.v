(* LemmasMB.v (C02) — proofs about C02/MixedBatch.v: one batch of frames of different sizes. *)
From Coq Require Import List ZArith QArith Qabs Lia Lqa Bool.
Import ListNotations.
From SV Require Import C02.Decode C02.Lemmas C02.CentroidOnly C02.LemmasCO C02.MixedBatch.
Open Scope Q_scope.

(* ------------------------------------------------------------------ lists travelling in step *)
Lemma combine_map_r : forall A B (f : A -> B) l, combine l (map f l) = map (fun a => (a, f a)) l.
Proof. intros A B f l. induction l as [|a t IH]; simpl; [reflexivity|now rewrite IH]. Qed.

Lemma combine_nth_error : forall A B (l : list A) (l' : list B) n a b,
  nth_error l n = Some a -> nth_error l' n = Some b -> nth_error (combine l l') n = Some (a, b).
Proof.
  intros A B l. induction l as [|x t IH]; intros l' n a b Ha Hb; destruct n; simpl in *; try discriminate.
  - destruct l'; simpl in *; [discriminate|]. now inversion Ha; inversion Hb.
  - destruct l'; simpl in *; [discriminate|]. now apply IH.
Qed.

Lemma batch_effs_length : forall mh mw sizes, length (batch_effs mh mw sizes) = length sizes.
Proof. intros. unfold batch_effs. apply map_length. Qed.

Lemma batch_effs_nth : forall mh mw sizes b hw, nth_error sizes b = Some hw ->
  nth_error (batch_effs mh mw sizes) b = Some (frame_eff mh mw hw).
Proof. intros. unfold batch_effs. now apply map_nth_error. Qed.

(* every size-matched frame has the shape (max_height, max_width): the batch can be stacked *)
Lemma batch_shapes_uniform : forall mh mw sizes s,
  In s (batch_shapes (Some mh) (Some mw) sizes) -> s = (mh, mw).
Proof.
  intros mh mw sizes s H. unfold batch_shapes in H. apply in_map_iff in H. destruct H as [hw [E _]].
  destruct (sizematch_size (fst hw) (snd hw) (Some mh) (Some mw)) as [A B]. cbn in E. rewrite A, B in E. now subst.
Qed.

(* ------------------------------------------------------------------ single instance *)
Lemma si_kp_e_own : forall c pv p, si_kp_e c pv (si_eff c) p = si_kp c pv p.
Proof.
  intros c pv [[x y]|]; [|reflexivity]. unfold si_kp_e, si_kp.
  assert (Heff : snd (si_geom c pv) = si_eff c) by reflexivity.
  destruct (si_geom c pv) as [[gx gy] eff]. cbn [snd] in Heff. subst eff. reflexivity.
Qed.

Lemma si_eff_at : forall c H W, si_eff (si_at c H W) = frame_eff (si_mh c) (si_mw c) (H, W).
Proof. reflexivity. Qed.

(* sample b is decoded with entry b of the factor list, whatever the list holds *)
Theorem si_batch_with_nth : forall c pv effs fs b f e,
  nth_error fs b = Some f -> nth_error effs b = Some e ->
  nth_error (si_batch_with c pv effs fs) b
  = Some (map (si_kp_e (si_at c (sf_H f) (sf_W f)) pv e) (sf_kps f)).
Proof.
  intros c pv effs fs b f e Hf He. unfold si_batch_with.
  erewrite map_nth_error; [|apply combine_nth_error; eassumption]. reflexivity.
Qed.

(* with the list built by _predict_generator the batch is the per-frame model, frame by frame:
   every frame is decoded with the factor of its OWN size *)
Theorem si_batch_is_per_frame : forall c pv fs,
  si_batch c pv fs = map (fun f => si_run (si_at c (sf_H f) (sf_W f)) pv (sf_kps f)) fs.
Proof.
  intros c pv fs. unfold si_batch, si_batch_with, batch_effs. rewrite map_map, combine_map_r, map_map.
  apply map_ext. intro f. cbn [fst snd]. unfold si_run. apply map_ext. intro p.
  unfold sf_size. rewrite <- si_eff_at. apply si_kp_e_own.
Qed.

Theorem si_batch_nth : forall c pv fs b f, nth_error fs b = Some f ->
  nth_error (si_batch c pv fs) b = Some (si_run (si_at c (sf_H f) (sf_W f)) pv (sf_kps f)).
Proof. intros. rewrite si_batch_is_per_frame. now apply (map_nth_error (fun f => si_run _ pv (sf_kps f))). Qed.

(* the decode bound for every frame of a mixed batch: the half cell and the registration term are
   those of the frame's OWN eff_scale *)
Theorem si_batch_within : forall c pv fs b f row k x y px py a,
  nth_error fs b = Some f -> nth_error (si_batch c pv fs) b = Some row ->
  nth_error (sf_kps f) k = Some (Some (x, y)) -> nth_error row k = Some (Some (px, py), Some a) ->
  let c' := si_at c (sf_H f) (sf_W f) in
  (0 < si_os c')%Z -> 0 < si_scale c' -> 0 < si_eff c' ->
  (0 < si_ncx c' pv)%Z -> (0 < si_ncy c' pv)%Z ->
  in_band (si_ux c' pv x) (si_os c') (si_ncx c' pv) ->
  in_band (si_uy c' pv y) (si_os c') (si_ncy c' pv) ->
  Qabs (px - x) <= half_cell (si_os c') (si_scale c') (si_eff c')
                   + reg_term (si_ux c' pv x) x (si_scale c') (si_eff c') /\
  Qabs (py - y) <= half_cell (si_os c') (si_scale c') (si_eff c')
                   + reg_term (si_uy c' pv y) y (si_scale c') (si_eff c').
Proof.
  intros c pv fs b f row k x y px py a Hf Hrow Hk Hr c' Hos Hs He Hnx Hny Bx By.
  rewrite (si_batch_nth c pv fs b f Hf) in Hrow. inversion Hrow; subst row; clear Hrow.
  rewrite (si_run_nth _ _ _ _ _ Hk) in Hr. inversion Hr as [E].
  apply (si_kp_within c' pv x y px py a); assumption.
Qed.

Theorem si_batch_invisible : forall c pv fs b f row k,
  thr_masks_zero (si_thr0 c) (si_fixed_Fz c) ->
  nth_error fs b = Some f -> nth_error (si_batch c pv fs) b = Some row ->
  nth_error (sf_kps f) k = Some None -> nth_error row k = Some (None, None).
Proof.
  intros c pv fs b f row k Hz Hf Hrow Hk.
  rewrite (si_batch_nth c pv fs b f Hf) in Hrow. inversion Hrow; subst. now apply si_run_invisible.
Qed.

(* how wrong a foreign factor is: the answer is the right one multiplied by own / foreign *)
Lemma si_decode_foreign : forall cx os s e e', 0 < s -> 0 < e -> 0 < e' ->
  si_decode cx os s e == si_decode cx os s e' * (e' / e).
Proof.
  intros cx os s e e' Hs He He'. unfold si_decode. destruct (Qeq_bool s 1); field; repeat split; lra.
Qed.

(* ------------------------------------------------------------------ top-down *)
Lemma set_eff_own : forall g, set_eff g (tg_eff g) = g.
Proof. intros []. reflexivity. Qed.

Lemma td_frame_g_own : forall c ans, td_frame_g c (td_geom c) ans = td_frame c ans.
Proof. reflexivity. Qed.

Lemma tg_eff_at : forall c H W, tg_eff (td_geom (td_at c H W)) = frame_eff (td_mh c) (td_mw c) (H, W).
Proof. reflexivity. Qed.

Theorem td_batch_with_nth : forall c effs fs b f e,
  nth_error fs b = Some f -> nth_error effs b = Some e ->
  nth_error (td_batch_with c effs fs) b
  = Some (let c' := td_at c (tf_H f) (tf_W f) in td_frame_g c' (set_eff (td_geom c') e) (tf_animals f)).
Proof.
  intros c effs fs b f e Hf He. unfold td_batch_with.
  erewrite map_nth_error; [|apply combine_nth_error; eassumption]. reflexivity.
Qed.

Theorem td_batch_is_per_frame : forall c fs,
  td_batch c fs = map (fun f => td_frame (td_at c (tf_H f) (tf_W f)) (tf_animals f)) fs.
Proof.
  intros c fs. unfold td_batch, td_batch_with, batch_effs. rewrite map_map, combine_map_r, map_map.
  apply map_ext. intro f. cbn [fst snd]. unfold tf_size. rewrite <- tg_eff_at, set_eff_own. apply td_frame_g_own.
Qed.

Theorem td_batch_nth : forall c fs b f, nth_error fs b = Some f ->
  nth_error (td_batch c fs) b = Some (td_frame (td_at c (tf_H f) (tf_W f)) (tf_animals f)).
Proof. intros. rewrite td_batch_is_per_frame. now apply (map_nth_error (fun f => td_frame _ (tf_animals f))). Qed.

(* every instance returned for frame b of a mixed batch belongs to one of frame b's animals and obeys the
   instance-stage bound with frame b's own eff_scale *)
Theorem td_batch_within : forall c fs b f row inst,
  nth_error fs b = Some f -> nth_error (td_batch c fs) b = Some row -> In inst row ->
  let c' := td_at c (tf_H f) (tf_W f) in
  (0 < td_osi c')%Z -> 0 < td_si c' -> 0 < tg_eff (td_geom c') ->
  (0 < ncells (tg_nix (td_geom c')) (td_osi c'))%Z -> (0 < ncells (tg_niy (td_geom c')) (td_osi c'))%Z ->
  exists an, In an (tf_animals f) /\
    length (ti_pts inst) = length (an_kps an) /\
    (forall k, thr_masks_zero (td_thr0 c) (td_fixed_Fz c) ->
       nth_error (an_kps an) k = Some None -> nth_error (ti_pts inst) k = Some (None, None)) /\
    (forall k x y px py a,
       nth_error (an_kps an) k = Some (Some (x, y)) ->
       nth_error (ti_pts inst) k = Some (Some (px, py), Some a) ->
       in_band (aff_apply (tg_px (td_geom c')) x - fst (ti_tl inst)) (td_osi c')
               (ncells (tg_nix (td_geom c')) (td_osi c')) ->
       in_band (aff_apply (tg_py (td_geom c')) y - snd (ti_tl inst)) (td_osi c')
               (ncells (tg_niy (td_geom c')) (td_osi c')) ->
       Qabs (px - x) <= half_cell (td_osi c') (td_si c') (tg_eff (td_geom c'))
                        + reg_term (aff_apply (tg_px (td_geom c')) x) x (td_si c') (tg_eff (td_geom c')) /\
       Qabs (py - y) <= half_cell (td_osi c') (td_si c') (tg_eff (td_geom c'))
                        + reg_term (aff_apply (tg_py (td_geom c')) y) y (td_si c') (tg_eff (td_geom c'))).
Proof.
  intros c fs b f row inst Hf Hrow Hin c' Hos Hs He Hnx Hny.
  rewrite (td_batch_nth c fs b f Hf) in Hrow. inversion Hrow; subst row; clear Hrow.
  apply (td_frame_within c' (tf_animals f) inst); assumption.
Qed.

Lemma td_decode_foreign : forall cx os s e e' tl, 0 < s -> 0 < e -> 0 < e' ->
  td_decode cx os s e tl == td_decode cx os s e' tl * (e' / e).
Proof.
  intros cx os s e e' tl Hs He He'. unfold td_decode. destruct (Qeq_bool s 1); field; repeat split; lra.
Qed.

(* ------------------------------------------------------------------ ground-truth centroids *)
Lemma tg_eff_gt : forall fixed c, tg_eff (td_gt_geom fixed c) = tg_eff (td_geom c).
Proof. intros [] c; reflexivity. Qed.

Lemma td_gt_instance_e_own : forall fixed c kps,
  td_gt_instance_e fixed c (tg_eff (td_geom c)) kps = td_gt_instance fixed c kps.
Proof.
  intros fixed c kps. unfold td_gt_instance_e, td_gt_instance.
  rewrite <- (tg_eff_gt fixed c), set_eff_own. reflexivity.
Qed.

Theorem gt_batch_is_per_frame : forall fixed c fs,
  gt_batch fixed c fs
  = map (fun f => map (td_gt_instance fixed (td_at c (gf_H f) (gf_W f))) (gf_insts f)) fs.
Proof.
  intros fixed c fs. unfold gt_batch, gt_batch_with, batch_effs. rewrite map_map, combine_map_r, map_map.
  apply map_ext. intro f. cbn [fst snd]. apply map_ext. intro kps.
  unfold gf_size. rewrite <- tg_eff_at. apply td_gt_instance_e_own.
Qed.

(* ------------------------------------------------------------------ centroid-only *)
Lemma co_frame_g_own : forall fixed c ans, co_frame_g fixed c (td_geom c) ans = co_frame fixed c ans.
Proof. reflexivity. Qed.

Theorem co_batch_is_per_frame : forall fixed c fs,
  co_batch fixed c fs = map (fun f => co_frame fixed (td_at c (tf_H f) (tf_W f)) (tf_animals f)) fs.
Proof.
  intros fixed c fs. unfold co_batch, co_batch_with, batch_effs. rewrite map_map, combine_map_r, map_map.
  apply map_ext. intro f. cbn [fst snd]. unfold tf_size. rewrite <- tg_eff_at, set_eff_own. apply co_frame_g_own.
Qed.

Theorem co_batch_nth : forall fixed c fs b f, nth_error fs b = Some f ->
  nth_error (co_batch fixed c fs) b = Some (co_frame fixed (td_at c (tf_H f) (tf_W f)) (tf_animals f)).
Proof. intros. rewrite co_batch_is_per_frame. now apply (map_nth_error (fun f => co_frame fixed _ (tf_animals f))). Qed.

(* ------------------------------------------------------------------ one factor for the whole batch: refuted *)
(* max_height = max_width = 64; a 32x32 frame (eff_scale 2) and a 64x64 frame (eff_scale 1) in one batch *)
Definition wit_mb : si_cfg :=
  {| si_H := 64; si_W := 64; si_mh := Some 64%Z; si_mw := Some 64%Z; si_scale := 1; si_ms := 1; si_os := 2;
     si_sigma := 3 # 2; si_lthr := - (1609438 # 1000000); si_fixed_F8 := true; si_thr0 := false; si_fixed_Fz := false |}.
Definition wit_small : sframe := {| sf_H := 32; sf_W := 32; sf_kps := [Some (10, 12)] |}.
Definition wit_large : sframe := {| sf_H := 64; sf_W := 64; sf_kps := [Some (40, 24)] |}.

Lemma wit_mb_effs :
  Forall2 Qeq (batch_effs (si_mh wit_mb) (si_mw wit_mb) (map sf_size [wit_small; wit_large])) [2; 1] /\
  last_eff_for_all (si_mh wit_mb) (si_mw wit_mb) (map sf_size [wit_small; wit_large]) = [1; 1].
Proof.
  split; [|vm_compute; reflexivity].
  vm_compute. constructor; [reflexivity|constructor; [reflexivity|constructor]].
Qed.

Theorem one_factor_per_batch_refuted :
  exists c fs f x y px py a,
    nth_error fs 0 = Some f /\ nth_error (sf_kps f) 0 = Some (Some (x, y)) /\
    nth_error (si_batch_with c VideoReader (last_eff_for_all (si_mh c) (si_mw c) (map sf_size fs)) fs) 0
      = Some [(Some (px, py), Some a)] /\
    (let c' := si_at c (sf_H f) (sf_W f) in
     in_band (si_ux c' VideoReader x) (si_os c') (si_ncx c' VideoReader) /\
     in_band (si_uy c' VideoReader y) (si_os c') (si_ncy c' VideoReader) /\
     ~ Qabs (px - x) <= half_cell (si_os c') (si_scale c') (si_eff c')
                        + reg_term (si_ux c' VideoReader x) x (si_scale c') (si_eff c')) /\
    (* while the list _predict_generator builds gives the exact answer here *)
    (exists qx qy, nth_error (si_batch c VideoReader fs) 0 = Some [(Some (qx, qy), Some a)] /\ qx == x /\ qy == y).
Proof.
  exists wit_mb, [wit_small; wit_large], wit_small, 10, 12.
  eexists. eexists. eexists.
  split; [reflexivity|]. split; [reflexivity|]. split; [vm_compute; reflexivity|].
  split.
  - split; [split; vm_compute; discriminate|]. split; [split; vm_compute; discriminate|].
    vm_compute. intro H. apply H. reflexivity.
  - eexists. eexists. split; [vm_compute; reflexivity|]. split; vm_compute; reflexivity.
Qed.

(* non-square crops: the crop geometry is stated per axis (width for x, height for y) *)
Lemma td_crop_geometry_per_axis : forall c g cx cy a kps,
  let i := td_instance_at c g cx cy a kps in
  fst (ti_tl i) + (inject_Z (td_cw c) - 1) / 2 == inject_Z cx * inject_Z (td_osc c) / td_sc c * td_si c /\
  snd (ti_tl i) + (inject_Z (td_ch c) - 1) / 2 == inject_Z cy * inject_Z (td_osc c) / td_sc c * td_si c /\
  tg_nix (td_geom c) = pad_to_stride (td_cw c) (td_msi c) /\
  tg_niy (td_geom c) = pad_to_stride (td_ch c) (td_msi c).
Proof.
  intros c g cx cy a kps i. unfold i, td_instance_at, td_topleft. cbn [ti_tl fst snd].
  split; [match goal with |- ?t - _ + _ + _ == _ => generalize t; intro t' end; field|].
  split; [match goal with |- ?t - _ + _ + _ == _ => generalize t; intro t' end; field|]. split; reflexivity.
Qed.
