(* LemmasR4.v (C02) — round 4 (review notes/review/C02.md): proofs about C02/Decode.v.
   A. every visible in-band keypoint IS returned (the model answers Some): peak_arg >= -1/(4 sigma^2)
   B. the registration term in closed form: every content map of the model has the half-pixel
      form b = (a - 1)/2, its slope differs from scale * eff_scale by at most (1 + s/2)/n
      (round() of size matching moves the target by <= 1/2 px, int() of resize_image by < 1 px)
   C. "keypoint inside its crop" derived from the crop geometry and the centroid-stage bound
   D. peak_threshold = 0 and invisible keypoints (finding F02z) *)
From Coq Require Import List ZArith QArith Qround Qabs Qminmax Bool Lia Lqa Psatz.
Import ListNotations.
From SV Require Import C02.Decode C02.Lemmas.
Open Scope Q_scope.

Lemma inj_pos : forall z, (0 < z)%Z -> 0 < inject_Z z.
Proof. intros. change 0 with (inject_Z 0). rewrite <- Zlt_Qlt. assumption. Qed.

(* ================================================================== A. returned *)
(* the value of an ideal map at the cell nearest to its centre is at least exp (arg_floor sigma):
   the centre is at most half a cell away on each axis *)
Definition arg_floor (sigma : Q) : Q := - (1 / (4 * sigma * sigma)).

Lemma sq_le_half : forall d o, 0 < o -> Qabs d <= o / 2 -> d * d <= o * o / 4.
Proof.
  intros d o Ho H. apply Qabs_Qle_condition in H. destruct H as [H1 H2].
  set (h := o / 2) in *. assert (E : o == 2 * h) by (unfold h; field).
  setoid_replace (o * o / 4) with (h * h) by (rewrite E; field).
  assert (0 <= (h - d) * (h + d)) by (apply Qmult_le_0_compat; lra).
  lra.
Qed.

Lemma peak_arg_lower : forall dx dy sigma os, (0 < os)%Z -> 0 < sigma ->
  Qabs dx <= inject_Z os / 2 -> Qabs dy <= inject_Z os / 2 ->
  arg_floor sigma <= peak_arg dx dy sigma os.
Proof.
  intros dx dy sigma os Hos Hs Hx Hy.
  pose proof (inj_pos _ Hos) as Ho. set (o := inject_Z os) in *.
  pose proof (sq_le_half _ _ Ho Hx) as Sx. pose proof (sq_le_half _ _ Ho Hy) as Sy.
  unfold arg_floor, peak_arg. fold o.
  assert (Hso : 0 < sigma * o) by (apply Qmult_lt_0_compat; assumption).
  set (D := 2 * (sigma * o) * (sigma * o)).
  assert (HD : 0 < D).
  { unfold D. setoid_replace (2 * (sigma * o) * (sigma * o)) with (2 * ((sigma * o) * (sigma * o))) by ring.
    assert (0 < (sigma * o) * (sigma * o)) by (apply Qmult_lt_0_compat; assumption). lra. }
  setoid_replace (1 / (4 * sigma * sigma)) with ((o * o / 2) * / D) by (unfold D; field; split; lra).
  unfold Qdiv at 2. set (k := / D). assert (Hk : 0 < k) by (apply Qinv_lt_0_compat; exact HD).
  set (N := dx * dx + dy * dy) in *.
  assert (HN : N <= o * o / 2).
  { unfold N. setoid_replace (o * o / 2) with (o * o / 4 + o * o / 4) by field. apply Qplus_le_compat; assumption. }
  assert (N * k <= (o * o / 2) * k) by (apply Qmult_le_compat_r; lra).
  lra.
Qed.

Lemma above_global_ok : forall thr0 lthr a f, (thr0 = true \/ lthr <= f) -> f <= a -> above_global thr0 lthr a = true.
Proof.
  intros thr0 lthr a f [H|H] Hf; unfold above_global; [rewrite H; reflexivity|].
  apply orb_true_iff. right. apply Qle_bool_iff. lra.
Qed.

Lemma above_local_ok : forall thr0 lthr a f, (thr0 = true \/ lthr < f) -> f <= a -> above_local thr0 lthr a = true.
Proof.
  intros thr0 lthr a f [H|H] Hf; unfold above_local; [rewrite H; reflexivity|].
  apply orb_true_iff. right. unfold Qlt_bool. apply negb_true_iff.
  destruct (Qle_bool a lthr) eqn:E; [|reflexivity]. apply Qle_bool_iff in E. lra.
Qed.

Theorem si_kp_returned : forall c pv x y,
  (0 < si_os c)%Z -> 0 < si_sigma c -> (0 < si_ncx c pv)%Z -> (0 < si_ncy c pv)%Z ->
  (si_thr0 c = true \/ si_lthr c <= arg_floor (si_sigma c)) ->
  in_band (si_ux c pv x) (si_os c) (si_ncx c pv) ->
  in_band (si_uy c pv y) (si_os c) (si_ncy c pv) ->
  exists px py a, si_kp c pv (Some (x, y)) = (Some (px, py), Some a) /\ arg_floor (si_sigma c) <= a.
Proof.
  intros c pv x y Hos Hsig Hnx Hny Hthr Bx By.
  unfold si_ux, si_uy, si_ncx, si_ncy, si_gx, si_gy in *. unfold si_kp.
  destruct (si_geom c pv) as [[gx gy] eff] eqn:G. cbn [fst snd] in *.
  pose proof (nearest_cell_half _ _ _ Hos Hnx Bx) as Cx.
  pose proof (nearest_cell_half _ _ _ Hos Hny By) as Cy.
  pose proof (peak_arg_lower _ _ _ _ Hos Hsig Cx Cy) as Ha.
  rewrite (above_global_ok _ _ _ _ Hthr Ha).
  eexists. eexists. eexists. split; [reflexivity|exact Ha].
Qed.

Theorem td_kp_returned : forall c g tlx tly x y,
  (0 < td_osi c)%Z -> 0 < td_sigma c ->
  (0 < ncells (tg_nix g) (td_osi c))%Z -> (0 < ncells (tg_niy g) (td_osi c))%Z ->
  (td_thr0 c = true \/ td_lthr c <= arg_floor (td_sigma c)) ->
  in_band (aff_apply (tg_px g) x - tlx) (td_osi c) (ncells (tg_nix g) (td_osi c)) ->
  in_band (aff_apply (tg_py g) y - tly) (td_osi c) (ncells (tg_niy g) (td_osi c)) ->
  exists px py a, td_kp c g tlx tly (Some (x, y)) = (Some (px, py), Some a) /\ arg_floor (td_sigma c) <= a.
Proof.
  intros c g tlx tly x y Hos Hsig Hnx Hny Hthr Bx By. unfold td_kp.
  pose proof (nearest_cell_half _ _ _ Hos Hnx Bx) as Cx.
  pose proof (nearest_cell_half _ _ _ Hos Hny By) as Cy.
  pose proof (peak_arg_lower _ _ _ _ Hos Hsig Cx Cy) as Ha.
  rewrite (above_global_ok _ _ _ _ Hthr Ha).
  eexists. eexists. eexists. split; [reflexivity|exact Ha].
Qed.

(* the centroid stage (strict local maximum, `cms > threshold`): detected unless exactly between two cells *)
Theorem td_cent_peak_returned : forall c g cent,
  (0 < td_osc c)%Z -> 0 < td_sigma c ->
  (0 < ncells (snd (tg_cx g)) (td_osc c))%Z -> (0 < ncells (snd (tg_cy g)) (td_osc c))%Z ->
  (td_thr0 c = true \/ td_lthr c < arg_floor (td_sigma c)) ->
  in_band (aff_apply (fst (tg_cx g)) (fst cent)) (td_osc c) (ncells (snd (tg_cx g)) (td_osc c)) ->
  in_band (aff_apply (fst (tg_cy g)) (snd cent)) (td_osc c) (ncells (snd (tg_cy g)) (td_osc c)) ->
  is_tie (aff_apply (fst (tg_cx g)) (fst cent)) (td_osc c) (ncells (snd (tg_cx g)) (td_osc c)) = false ->
  is_tie (aff_apply (fst (tg_cy g)) (snd cent)) (td_osc c) (ncells (snd (tg_cy g)) (td_osc c)) = false ->
  exists a, td_cent_peak c g cent
            = Some (nearest_cell (aff_apply (fst (tg_cx g)) (fst cent)) (td_osc c) (ncells (snd (tg_cx g)) (td_osc c)),
                    nearest_cell (aff_apply (fst (tg_cy g)) (snd cent)) (td_osc c) (ncells (snd (tg_cy g)) (td_osc c)), a)
            /\ arg_floor (td_sigma c) <= a.
Proof.
  intros c g cent Hos Hsig Hnx Hny Hthr Bx By Tx Ty. unfold td_cent_peak. rewrite Tx, Ty. cbn [orb].
  pose proof (nearest_cell_half _ _ _ Hos Hnx Bx) as Cx.
  pose proof (nearest_cell_half _ _ _ Hos Hny By) as Cy.
  pose proof (peak_arg_lower _ _ _ _ Hos Hsig Cx Cy) as Ha.
  rewrite (above_local_ok _ _ _ _ Hthr Ha).
  eexists. split; [reflexivity|exact Ha].
Qed.

(* returned AND within the bound: the visible-keypoint clause without the `= Some` hypothesis *)
Theorem si_kp_visible_returned_within : forall c pv x y,
  (0 < si_os c)%Z -> 0 < si_scale c -> 0 < si_eff c -> 0 < si_sigma c ->
  (0 < si_ncx c pv)%Z -> (0 < si_ncy c pv)%Z ->
  (si_thr0 c = true \/ si_lthr c <= arg_floor (si_sigma c)) ->
  in_band (si_ux c pv x) (si_os c) (si_ncx c pv) ->
  in_band (si_uy c pv y) (si_os c) (si_ncy c pv) ->
  exists px py a, si_kp c pv (Some (x, y)) = (Some (px, py), Some a) /\
    Qabs (px - x) <= half_cell (si_os c) (si_scale c) (si_eff c)
                     + reg_term (si_ux c pv x) x (si_scale c) (si_eff c) /\
    Qabs (py - y) <= half_cell (si_os c) (si_scale c) (si_eff c)
                     + reg_term (si_uy c pv y) y (si_scale c) (si_eff c).
Proof.
  intros c pv x y Hos Hs He Hsig Hnx Hny Hthr Bx By.
  destruct (si_kp_returned c pv x y Hos Hsig Hnx Hny Hthr Bx By) as [px [py [a [E _]]]].
  exists px, py, a. split; [exact E|]. eapply si_kp_within; eassumption.
Qed.

(* ================================================================== B. registration, closed form *)
Lemma round_half_even_close : forall q, Qabs (inject_Z (round_half_even q) - q) <= 1 # 2.
Proof.
  intro q. unfold round_half_even.
  pose proof (Qfloor_le q) as H1. pose proof (Qlt_floor q) as H2. rewrite inject_Z_plus in H2.
  change (inject_Z 1) with 1 in H2.
  set (f := Qfloor q) in *. apply Qabs_Qle_condition.
  destruct (Qcompare (q - inject_Z f) (1 # 2)) eqn:E.
  - apply Qeq_alt in E. destruct (Z.even f); [split; lra|].
    rewrite inject_Z_plus. change (inject_Z 1) with 1. split; lra.
  - apply Qlt_alt in E. split; lra.
  - apply Qgt_alt in E. rewrite inject_Z_plus. change (inject_Z 1) with 1. split; lra.
Qed.

(* every content map of the model has the half-pixel-centre form  u = a x + (a - 1)/2 *)
Definition half_pixel_form (m : aff) : Prop := snd m == (fst m - 1) / 2.

Lemma hp_id : half_pixel_form aff_id.
Proof. unfold half_pixel_form, aff_id. cbn [fst snd]. reflexivity. Qed.

Lemma hp_resize : forall n m, half_pixel_form (resize_map n m).
Proof. intros. unfold half_pixel_form, resize_map. cbn [fst snd]. reflexivity. Qed.

Lemma hp_then : forall m1 m2, half_pixel_form m1 -> half_pixel_form m2 -> half_pixel_form (aff_then m1 m2).
Proof.
  intros [a1 b1] [a2 b2]. unfold half_pixel_form, aff_then. cbn [fst snd]. intros H1 H2.
  rewrite H1, H2. field.
Qed.

Lemma hp_sm_map : forall n0 nt r, half_pixel_form (sm_map n0 nt r).
Proof. intros. unfold sm_map. destruct r; [apply hp_resize|apply hp_id]. Qed.

Lemma hp_si_axis : forall pre n0 nm nt r s ms, half_pixel_form (fst (si_axis_geom pre n0 nm nt r s ms)).
Proof.
  intros. unfold si_axis_geom. destruct pre; [|apply hp_sm_map].
  destruct (Qeq_bool s 1); cbn [fst]; [apply hp_sm_map|apply hp_then; [apply hp_sm_map|apply hp_resize]].
Qed.

(* K: |1 - s eff|/2 is the half-pixel-centre shift of a resize by the total factor s*eff; the rest bounds what the
   integer rounding of the resized sizes adds over an axis of n pixels; all in network-input pixels, divided by
   s*eff = original pixels *)
Definition reg_closed (s eff : Q) (n : Z) : Q :=
  (Qabs (1 - s * eff) / 2 + (1 + s / 2) * (1 + 1 / (2 * inject_Z n))) / (s * eff).

Lemma Qabs_sub_sym : forall a b, Qabs (a - b) == Qabs (b - a).
Proof. intros. rewrite Qabs_Qminus. reflexivity. Qed.

Lemma reg_closed_from_slope : forall (m : aff) s eff n x,
  half_pixel_form m -> 0 < s -> 0 < eff -> (0 < n)%Z ->
  Qabs (fst m - s * eff) * inject_Z n <= 1 + s / 2 ->
  0 <= x -> x <= inject_Z n - 1 ->
  reg_term (aff_apply m x) x s eff <= reg_closed s eff n.
Proof.
  intros [a b] s eff n x Hp Hs He Hn Hsl Hx0 Hx1. unfold half_pixel_form in Hp. cbn [fst snd] in *.
  pose proof (inj_pos _ Hn) as HN. set (N := inject_Z n) in *.
  assert (Hse : 0 < s * eff) by (apply Qmult_lt_0_compat; assumption).
  unfold reg_term, reg_closed, aff_apply. cbn [fst snd]. fold N.
  apply Qmult_le_compat_r; [|apply Qlt_le_weak; apply Qinv_lt_0_compat; exact Hse].
  set (A := Qabs (a - s * eff)) in *. assert (HA : 0 <= A) by apply Qabs_nonneg.
  set (K := 1 + s / 2) in *.
  (* |1 - a| <= |1 - s eff| + A *)
  assert (T1 : Qabs (1 - a) <= Qabs (1 - s * eff) + A).
  { setoid_replace (1 - a) with ((1 - s * eff) + (s * eff - a)) by ring.
    eapply Qle_trans; [apply Qabs_triangle|]. unfold A. rewrite (Qabs_sub_sym a (s * eff)). apply Qle_refl. }
  assert (T2 : Qabs (a * x + b - s * eff * x) <= A * x + Qabs (1 - a) / 2).
  { setoid_replace (a * x + b - s * eff * x) with ((a - s * eff) * x + (a - 1) * (1 # 2)) by (rewrite Hp; field).
    eapply Qle_trans; [apply Qabs_triangle|]. rewrite !Qabs_Qmult. fold A. rewrite (Qabs_pos x) by assumption.
    rewrite (Qabs_sub_sym a 1). setoid_replace (Qabs (1 # 2)) with (1 # 2) by reflexivity.
    unfold Qdiv. setoid_replace (/ 2) with (1 # 2) by reflexivity. apply Qle_refl. }
  eapply Qle_trans; [exact T2|].
  assert (T3 : A * x <= A * (N - 1)).
  { rewrite (Qmult_comm A x), (Qmult_comm A (N - 1)). apply Qmult_le_compat_r; assumption. }
  (* A <= K / N *)
  assert (HAN : A * N <= K) by exact Hsl.
  assert (E : K * (1 + 1 / (2 * N)) == K + K / (2 * N)) by (field; lra).
  rewrite E.
  assert (Q1 : A <= K / N) by (apply Qle_shift_div_l; assumption).
  assert (Q2 : A / 2 <= K / (2 * N)).
  { setoid_replace (K / (2 * N)) with ((K / N) / 2) by (field; lra).
    unfold Qdiv in *. change (/ 2) with (1 # 2). lra. }
  assert (Q3 : A * (N - 1) <= K).
  { setoid_replace (A * (N - 1)) with (A * N - A) by ring. lra. }
  set (t2 := K / (2 * N)) in *. set (U := Qabs (1 - s * eff)) in *. set (V := Qabs (1 - a)) in *.
  set (P := A * (N - 1)) in *. clearbody t2 U V P.
  unfold Qdiv in *. change (/ 2) with (1 # 2) in *. lra.
Qed.

Lemma Qabs_scale : forall a n, 0 < n -> Qabs a * n == Qabs (a * n).
Proof. intros a n Hn. rewrite Qabs_Qmult, (Qabs_pos n) by lra. reflexivity. Qed.

(* slope of "size matching, then resize_image by s": (floor(nm s)/nm) * r1 against s * eff *)
Lemma chain_slope_bound : forall (n0 nm : Z) (r1 eff s : Q),
  (0 < n0)%Z -> (0 < nm)%Z -> 0 < s -> 0 < eff ->
  Qabs (r1 - eff) * inject_Z n0 <= 1 # 2 ->
  inject_Z n0 * eff <= inject_Z nm ->
  Qabs (inject_Z (resize_dim nm s) / inject_Z nm * r1 - s * eff) * inject_Z n0 <= 1 + s / 2.
Proof.
  intros n0 nm r1 eff s Hn0 Hnm Hs He Hr Hfit.
  pose proof (inj_pos _ Hn0) as HN. pose proof (inj_pos _ Hnm) as HM.
  destruct (resize_dim_floor nm s) as [F1 F2].
  set (N := inject_Z n0) in *. set (M := inject_Z nm) in *. set (rd := inject_Z (resize_dim nm s)) in *.
  assert (Hrd0 : 0 <= rd).
  { unfold rd. change 0 with (inject_Z 0). rewrite <- Zle_Qle. unfold resize_dim.
    apply Qfloor_resp_le with (x := 0) (y := M * s) in F1 || idtac.
    assert (0 <= M * s) by (apply Qmult_le_0_compat; lra).
    change 0%Z with (Qfloor 0). apply Qfloor_resp_le. assumption. }
  set (r2 := rd / M).
  assert (Er2 : r2 * M == rd) by (unfold r2; field; lra).
  assert (R0 : 0 <= r2) by (unfold r2; apply Qle_shift_div_l; lra).
  assert (R1 : r2 <= s) by (unfold r2; apply Qle_shift_div_r; [lra|rewrite Qmult_comm; exact F1]).
  set (e := s - r2).
  assert (E0 : 0 <= e) by (unfold e; lra).
  assert (E1 : e * M <= 1).
  { unfold e. setoid_replace ((s - r2) * M) with (M * s - r2 * M) by ring. rewrite Er2. lra. }
  set (d := r1 - eff) in *.
  assert (Hd : Qabs (d * N) <= 1 # 2) by (rewrite Qabs_Qmult, (Qabs_pos N) by lra; exact Hr).
  apply Qabs_Qle_condition in Hd. destruct Hd as [D1 D2].
  rewrite <- (Qabs_pos N) at 1 by lra. rewrite <- Qabs_Qmult.
  setoid_replace ((r2 * r1 - s * eff) * N) with (r2 * (d * N) - e * (N * eff)) by (unfold d, e; ring).
  set (dn := d * N) in *.
  assert (P1 : r2 * dn <= s * (1 # 2)).
  { apply Qle_trans with (r2 * (1 # 2)); [|apply Qmult_le_compat_r; lra].
    rewrite (Qmult_comm r2 dn), (Qmult_comm r2 (1 # 2)). apply Qmult_le_compat_r; assumption. }
  assert (P2 : - (s * (1 # 2)) <= r2 * dn).
  { apply Qle_trans with (r2 * - (1 # 2)).
    - setoid_replace (r2 * - (1 # 2)) with (- (r2 * (1 # 2))) by ring.
      assert (r2 * (1 # 2) <= s * (1 # 2)) by (apply Qmult_le_compat_r; lra). lra.
    - rewrite (Qmult_comm r2 dn), (Qmult_comm r2 (- (1 # 2))). apply Qmult_le_compat_r; assumption. }
  assert (P3 : 0 <= e * (N * eff)) by (apply Qmult_le_0_compat; [assumption|apply Qmult_le_0_compat; lra]).
  assert (P4 : e * (N * eff) <= 1).
  { apply Qle_trans with (e * M); [|exact E1].
    rewrite (Qmult_comm e (N * eff)), (Qmult_comm e M). apply Qmult_le_compat_r; assumption. }
  apply Qabs_Qle_condition. set (p := r2 * dn) in *. set (q := e * (N * eff)) in *.
  unfold Qdiv. change (/ 2) with (1 # 2). split; lra.
Qed.

(* what sizematch guarantees per axis *)
Definition sm_r1 (n0 nt : Z) (resized : bool) : Q := fst (sm_map n0 nt resized).

Lemma sm_r1_eq : forall n0 nt r, sm_r1 n0 nt r = if r then inject_Z nt / inject_Z n0 else 1.
Proof. intros. unfold sm_r1, sm_map. destruct r; reflexivity. Qed.

Definition maxes_pos (mh mw : option Z) : Prop :=
  (forall v, mh = Some v -> (0 < v)%Z) /\ (forall v, mw = Some v -> (0 < v)%Z).

Lemma sizematch_axes : forall H W mh mw, (0 < H)%Z -> (0 < W)%Z -> maxes_pos mh mw ->
  let g := sizematch H W mh mw in
  (0 < sm_w g)%Z /\ (0 < sm_h g)%Z /\ 0 < sm_eff g /\
  Qabs (sm_r1 W (sm_tw g) (sm_resized g) - sm_eff g) * inject_Z W <= 1 # 2 /\
  Qabs (sm_r1 H (sm_th g) (sm_resized g) - sm_eff g) * inject_Z H <= 1 # 2 /\
  inject_Z W * sm_eff g <= inject_Z (sm_w g) /\
  inject_Z H * sm_eff g <= inject_Z (sm_h g).
Proof.
  intros H W mh mw HH HW [Pmh Pmw] g.
  pose proof (sizematch_eff_pos H W mh mw HH HW Pmh Pmw) as Eff. fold g in Eff.
  pose proof (inj_pos _ HH) as QH. pose proof (inj_pos _ HW) as QW.
  unfold g, sizematch in *.
  set (mh' := match mh with Some v => v | None => H end) in *.
  set (mw' := match mw with Some v => v | None => W end) in *.
  assert (Hmh : (0 < mh')%Z) by (unfold mh'; destruct mh; [apply Pmh; reflexivity|exact HH]).
  assert (Hmw : (0 < mw')%Z) by (unfold mw'; destruct mw; [apply Pmw; reflexivity|exact HW]).
  destruct ((H =? mh')%Z && (W =? mw')%Z) eqn:E; cbn [sm_h sm_w sm_th sm_tw sm_eff sm_resized] in *.
  - rewrite !sm_r1_eq. split; [exact HW|]. split; [exact HH|]. split; [reflexivity|].
    change (Qabs (1 - 1)) with 0.
    split; [lra|]. split; [lra|]. split; lra.
  - set (hr := inject_Z mh' / inject_Z H) in *. set (wr := inject_Z mw' / inject_Z W) in *.
    set (eff := if Qle_bool hr wr then hr else wr) in *.
    assert (Ehr : inject_Z H * hr == inject_Z mh') by (unfold hr; field; lra).
    assert (Ewr : inject_Z W * wr == inject_Z mw') by (unfold wr; field; lra).
    assert (Le : eff <= hr /\ eff <= wr).
    { unfold eff. destruct (Qle_bool hr wr) eqn:C.
      - apply Qle_bool_iff in C. split; [apply Qle_refl|exact C].
      - split; [|apply Qle_refl]. destruct (Qlt_le_dec wr hr) as [L|L]; [apply Qlt_le_weak; exact L|].
        apply Qle_bool_iff in L. rewrite L in C. discriminate. }
    destruct Le as [Le1 Le2].
    rewrite !sm_r1_eq.
    assert (Rnd : forall n : Z, 0 < inject_Z n ->
              Qabs (inject_Z (round_half_even (inject_Z n * eff)) / inject_Z n - eff) * inject_Z n <= 1 # 2).
    { intros n Hn. rewrite Qabs_scale by exact Hn.
      setoid_replace ((inject_Z (round_half_even (inject_Z n * eff)) / inject_Z n - eff) * inject_Z n)
        with (inject_Z (round_half_even (inject_Z n * eff)) - inject_Z n * eff) by (field; lra).
      apply round_half_even_close. }
    split; [exact Hmw|]. split; [exact Hmh|]. split; [exact Eff|].
    split; [apply Rnd; exact QW|]. split; [apply Rnd; exact QH|].
    split.
    + rewrite <- Ewr. rewrite (Qmult_comm (inject_Z W) eff), (Qmult_comm (inject_Z W) wr).
      apply Qmult_le_compat_r; lra.
    + rewrite <- Ehr. rewrite (Qmult_comm (inject_Z H) eff), (Qmult_comm (inject_Z H) hr).
      apply Qmult_le_compat_r; lra.
Qed.

(* ---- single instance: slope and closed registration bound on both axes, every configuration whose
   frames are preprocessed (both providers in the current tree; VideoReader only before fix cfdac41) *)
Definition si_cfg_ok (c : si_cfg) : Prop :=
  (0 < si_H c)%Z /\ (0 < si_W c)%Z /\ maxes_pos (si_mh c) (si_mw c) /\ 0 < si_scale c.

Lemma si_axis_slope : forall n0 nm nt resized s ms eff,
  (0 < n0)%Z -> (0 < nm)%Z -> 0 < s -> 0 < eff ->
  Qabs (sm_r1 n0 nt resized - eff) * inject_Z n0 <= 1 # 2 ->
  inject_Z n0 * eff <= inject_Z nm ->
  Qabs (fst (fst (si_axis_geom true n0 nm nt resized s ms)) - s * eff) * inject_Z n0 <= 1 + s / 2.
Proof.
  intros n0 nm nt resized s ms eff Hn0 Hnm Hs He Hr Hfit. unfold si_axis_geom.
  destruct (Qeq_bool s 1) eqn:E; cbn [fst snd].
  - apply Qeq_bool_iff in E. fold (sm_r1 n0 nt resized).
    setoid_replace (s * eff) with eff by (rewrite E; ring).
    eapply Qle_trans; [exact Hr|]. rewrite E. discriminate.
  - unfold aff_then, resize_map. cbn [fst snd]. fold (sm_r1 n0 nt resized).
    apply chain_slope_bound; assumption.
Qed.

Lemma si_slopes : forall c pv, si_cfg_ok c -> preprocess_flag (si_fixed_F8 c) pv = true ->
  0 < si_eff c /\
  Qabs (fst (fst (si_gx c pv)) - si_scale c * si_eff c) * inject_Z (si_W c) <= 1 + si_scale c / 2 /\
  Qabs (fst (fst (si_gy c pv)) - si_scale c * si_eff c) * inject_Z (si_H c) <= 1 + si_scale c / 2.
Proof.
  intros c pv [HH [HW [Hm Hs]]] Hpre.
  destruct (sizematch_axes _ _ _ _ HH HW Hm) as [Pw [Ph [Pe [Rw [Rh [Fw Fh]]]]]].
  unfold si_gx, si_gy, si_eff, si_geom. rewrite Hpre. cbn [fst snd].
  split; [exact Pe|]. split; apply si_axis_slope; assumption.
Qed.

Theorem si_reg_closed : forall c pv x y, si_cfg_ok c -> preprocess_flag (si_fixed_F8 c) pv = true ->
  0 <= x -> x <= inject_Z (si_W c) - 1 -> 0 <= y -> y <= inject_Z (si_H c) - 1 ->
  reg_term (si_ux c pv x) x (si_scale c) (si_eff c) <= reg_closed (si_scale c) (si_eff c) (si_W c) /\
  reg_term (si_uy c pv y) y (si_scale c) (si_eff c) <= reg_closed (si_scale c) (si_eff c) (si_H c).
Proof.
  intros c pv x y Hok Hpre X0 X1 Y0 Y1.
  destruct (si_slopes c pv Hok Hpre) as [He [Sx Sy]]. destruct Hok as [HH [HW [Hm Hs]]].
  unfold si_ux, si_uy. split; apply reg_closed_from_slope; try assumption.
  - unfold si_gx, si_geom. cbn [fst snd]. apply hp_si_axis.
  - unfold si_gy, si_geom. cbn [fst snd]. apply hp_si_axis.
Qed.

(* clause 1 of the property for the model, closed: every visible keypoint inside the image and inside the band
   of the grid is returned, within half a cell + K original pixels, K = reg_closed scale eff_scale n *)
Theorem si_kp_closed : forall c pv x y,
  si_cfg_ok c -> preprocess_flag (si_fixed_F8 c) pv = true ->
  (0 < si_os c)%Z -> 0 < si_sigma c -> (0 < si_ncx c pv)%Z -> (0 < si_ncy c pv)%Z ->
  (si_thr0 c = true \/ si_lthr c <= arg_floor (si_sigma c)) ->
  0 <= x -> x <= inject_Z (si_W c) - 1 -> 0 <= y -> y <= inject_Z (si_H c) - 1 ->
  in_band (si_ux c pv x) (si_os c) (si_ncx c pv) ->
  in_band (si_uy c pv y) (si_os c) (si_ncy c pv) ->
  exists px py a, si_kp c pv (Some (x, y)) = (Some (px, py), Some a) /\
    Qabs (px - x) <= half_cell (si_os c) (si_scale c) (si_eff c) + reg_closed (si_scale c) (si_eff c) (si_W c) /\
    Qabs (py - y) <= half_cell (si_os c) (si_scale c) (si_eff c) + reg_closed (si_scale c) (si_eff c) (si_H c).
Proof.
  intros c pv x y Hok Hpre Hos Hsig Hnx Hny Hthr X0 X1 Y0 Y1 Bx By.
  destruct (si_slopes c pv Hok Hpre) as [He _].
  destruct (si_reg_closed c pv x y Hok Hpre X0 X1 Y0 Y1) as [Rx Ry].
  destruct Hok as [HH [HW [Hm Hs]]].
  destruct (si_kp_visible_returned_within c pv x y Hos Hs He Hsig Hnx Hny Hthr Bx By) as [px [py [a [E [Ex Ey]]]]].
  exists px, py, a. split; [exact E|]. split; lra.
Qed.

(* ---- top-down: the pre-crop image (instance stage) and the centroid-stage input *)
Definition td_cfg_ok (c : td_cfg) : Prop :=
  (0 < td_H c)%Z /\ (0 < td_W c)%Z /\ maxes_pos (td_mh c) (td_mw c) /\ 0 < td_sc c /\ 0 < td_si c.

Lemma td_slopes : forall c, td_cfg_ok c ->
  let g := td_geom c in
  0 < tg_eff g /\
  Qabs (fst (tg_px g) - td_si c * tg_eff g) * inject_Z (td_W c) <= 1 + td_si c / 2 /\
  Qabs (fst (tg_py g) - td_si c * tg_eff g) * inject_Z (td_H c) <= 1 + td_si c / 2 /\
  Qabs (fst (fst (tg_cx g)) - td_sc c * tg_eff g) * inject_Z (td_W c) <= 1 + td_sc c / 2 /\
  Qabs (fst (fst (tg_cy g)) - td_sc c * tg_eff g) * inject_Z (td_H c) <= 1 + td_sc c / 2.
Proof.
  intros c [HH [HW [Hm [Hsc Hsi]]]] g.
  destruct (sizematch_axes _ _ _ _ HH HW Hm) as [Pw [Ph [Pe [Rw [Rh [Fw Fh]]]]]].
  unfold g, td_geom. cbn [tg_eff tg_px tg_py tg_cx tg_cy].
  unfold td_pre_map, td_cent_geom, aff_then, resize_map. cbn [fst snd].
  split; [exact Pe|].
  repeat split; (match goal with |- context [sm_map ?a ?b ?r] => fold (sm_r1 a b r) end);
    apply chain_slope_bound; assumption.
Qed.

Lemma td_maps_hp : forall c, let g := td_geom c in
  half_pixel_form (tg_px g) /\ half_pixel_form (tg_py g) /\
  half_pixel_form (fst (tg_cx g)) /\ half_pixel_form (fst (tg_cy g)).
Proof.
  intros c g. unfold g, td_geom, td_pre_map, td_cent_geom. cbn [tg_px tg_py tg_cx tg_cy fst].
  repeat split; apply hp_then; (apply hp_sm_map || apply hp_resize).
Qed.

Theorem td_reg_closed : forall c x y, td_cfg_ok c ->
  0 <= x -> x <= inject_Z (td_W c) - 1 -> 0 <= y -> y <= inject_Z (td_H c) - 1 ->
  let g := td_geom c in
  reg_term (aff_apply (tg_px g) x) x (td_si c) (tg_eff g) <= reg_closed (td_si c) (tg_eff g) (td_W c) /\
  reg_term (aff_apply (tg_py g) y) y (td_si c) (tg_eff g) <= reg_closed (td_si c) (tg_eff g) (td_H c) /\
  reg_term (aff_apply (fst (tg_cx g)) x) x (td_sc c) (tg_eff g) <= reg_closed (td_sc c) (tg_eff g) (td_W c) /\
  reg_term (aff_apply (fst (tg_cy g)) y) y (td_sc c) (tg_eff g) <= reg_closed (td_sc c) (tg_eff g) (td_H c).
Proof.
  intros c x y Hok X0 X1 Y0 Y1 g.
  destruct (td_slopes c Hok) as [He [S1 [S2 [S3 S4]]]]. fold g in He, S1, S2, S3, S4.
  destruct (td_maps_hp c) as [P1 [P2 [P3 P4]]]. fold g in P1, P2, P3, P4.
  destruct Hok as [HH [HW [Hm [Hsc Hsi]]]].
  repeat split; apply reg_closed_from_slope; assumption.
Qed.

(* ================================================================== C. the keypoint lies inside its crop *)
Lemma ncells_cover : forall n os, (0 < os)%Z -> (n <= ncells n os * os)%Z.
Proof.
  intros n os Hos. unfold ncells.
  pose proof (Z.div_mod (n + os - 1) os ltac:(lia)) as D.
  pose proof (Z.mod_pos_bound (n + os - 1) os Hos) as B. nia.
Qed.

Lemma pad_ge : forall n ms, (0 <= n)%Z -> (n <= pad_to_stride n ms)%Z.
Proof.
  intros n ms Hn. destruct (Z_lt_le_dec 1 ms) as [L|L].
  - destruct (pad_to_stride_spec n ms Hn L) as [[A _] _]. exact A.
  - rewrite pad_to_stride_one by exact L. lia.
Qed.

(* the crop-centre error, in pre-crop pixels: content of the keypoint against the decoded centroid cell *)
Lemma crop_offset_bound : forall P C q x cx si sc eff R1 R2 D o B : Q,
  0 < si -> 0 < sc -> 0 < eff ->
  Qabs (P - si * eff * x) <= R1 -> Qabs (C - sc * eff * cx) <= R2 -> Qabs (x - cx) <= D -> Qabs (q - C) <= o ->
  si * eff * D + R1 + (si / sc) * (R2 + o) <= B ->
  Qabs (P - q / sc * si) <= B.
Proof.
  intros P C q x cx si sc eff R1 R2 D o B Hsi Hsc He H1 H2 H3 H4 HB.
  set (k := si / sc). assert (Hk : 0 < k) by (unfold k; apply Qlt_shift_div_l; lra).
  assert (Hse : 0 < si * eff) by (apply Qmult_lt_0_compat; assumption).
  setoid_replace (P - q / sc * si)
    with ((P - si * eff * x) + (si * eff) * (x - cx) + k * (sc * eff * cx - C) + k * (C - q)) by (unfold k; field; lra).
  apply Qabs_Qle_condition in H1. apply Qabs_Qle_condition in H2.
  apply Qabs_Qle_condition in H3. apply Qabs_Qle_condition in H4.
  destruct H1 as [A1 A2], H2 as [B1 B2], H3 as [C1 C2], H4 as [D1 D2].
  assert (M1 : (si * eff) * (x - cx) <= (si * eff) * D /\ - ((si * eff) * D) <= (si * eff) * (x - cx)).
  { split.
    - rewrite (Qmult_comm (si * eff) (x - cx)), (Qmult_comm (si * eff) D). apply Qmult_le_compat_r; lra.
    - setoid_replace (- (si * eff * D)) with ((- D) * (si * eff)) by ring.
      rewrite (Qmult_comm (si * eff) (x - cx)). apply Qmult_le_compat_r; lra. }
  assert (M2 : k * (sc * eff * cx - C) <= k * R2 /\ - (k * R2) <= k * (sc * eff * cx - C)).
  { split.
    - rewrite (Qmult_comm k (sc * eff * cx - C)), (Qmult_comm k R2). apply Qmult_le_compat_r; lra.
    - setoid_replace (- (k * R2)) with ((- R2) * k) by ring.
      rewrite (Qmult_comm k (sc * eff * cx - C)). apply Qmult_le_compat_r; lra. }
  assert (M3 : k * (C - q) <= k * o /\ - (k * o) <= k * (C - q)).
  { split.
    - rewrite (Qmult_comm k (C - q)), (Qmult_comm k o). apply Qmult_le_compat_r; lra.
    - setoid_replace (- (k * o)) with ((- o) * k) by ring.
      rewrite (Qmult_comm k (C - q)). apply Qmult_le_compat_r; lra. }
  destruct M1 as [M1a M1b], M2 as [M2a M2b], M3 as [M3a M3b].
  assert (HB' : si * eff * D + R1 + (k * R2 + k * o) <= B) by (setoid_replace (k * R2 + k * o) with (k * (R2 + o)) by ring; exact HB).
  set (t1 := si * eff * (x - cx)) in *. set (t2 := k * (sc * eff * cx - C)) in *. set (t3 := k * (C - q)) in *.
  set (u1 := si * eff * D) in *. set (u2 := k * R2) in *. set (u3 := k * o) in *.
  apply Qabs_Qle_condition. split; lra.
Qed.

(* one axis: the centroid cell is within half a centroid cell of the centroid's content position (what
   c02_centroid_only_centroid_bound / nearest_cell_half give); a keypoint whose distance from the centroid, plus both
   registration terms, plus half a centroid cell (all in original pixels) fits into half the crop less half an
   instance cell lies in the band of the crop's grid — stride padding of the crop included *)
Theorem kp_inside_crop : forall (cell osc osi crop msi : Z) (sc si eff x cx : Q) (mp mc : aff),
  (0 < osi)%Z -> (0 <= crop)%Z -> 0 < sc -> 0 < si -> 0 < eff ->
  Qabs (inject_Z cell * inject_Z osc - aff_apply mc cx) <= inject_Z osc / 2 ->
  Qabs (x - cx) + reg_term (aff_apply mp x) x si eff + reg_term (aff_apply mc cx) cx sc eff + half_cell osc sc eff
    <= ((inject_Z crop - 1 - inject_Z osi) / 2) / (si * eff) ->
  in_band (aff_apply mp x - td_topleft cell osc sc si crop) osi (ncells (pad_to_stride crop msi) osi).
Proof.
  intros cell osc osi crop msi sc si eff x cx mp mc Hosi Hcrop Hsc Hsi He Hcell Hfit.
  set (P := aff_apply mp x) in *. set (C := aff_apply mc cx) in *.
  set (q := inject_Z cell * inject_Z osc) in *.
  assert (Hse : 0 < si * eff) by (apply Qmult_lt_0_compat; assumption).
  assert (Hce : 0 < sc * eff) by (apply Qmult_lt_0_compat; assumption).
  set (B := (inject_Z crop - 1 - inject_Z osi) / 2) in *.
  unfold reg_term, half_cell in Hfit.
  set (R1 := Qabs (P - si * eff * x)) in *. set (R2 := Qabs (C - sc * eff * cx)) in *. set (D := Qabs (x - cx)) in *.
  assert (HB : si * eff * D + R1 + (si / sc) * (R2 + inject_Z osc / 2) <= B).
  { apply (Qmult_le_compat_r _ _ (si * eff)) in Hfit; [|lra].
    setoid_replace (B / (si * eff) * (si * eff)) with B in Hfit by (field; lra).
    eapply Qle_trans; [|exact Hfit]. apply Qle_lteq. right. field. split; lra. }
  assert (Hd : Qabs (P - q / sc * si) <= B).
  { apply (crop_offset_bound P C q x cx si sc eff R1 R2 D (inject_Z osc / 2) B); try assumption;
      try apply Qle_refl. }
  apply Qabs_Qle_condition in Hd. destruct Hd as [L U].
  pose proof (inj_pos _ Hosi) as Ho.
  assert (Hcov : inject_Z crop <= inject_Z (ncells (pad_to_stride crop msi) osi) * inject_Z osi).
  { rewrite <- inject_Z_mult, <- Zle_Qle.
    eapply Z.le_trans; [apply (pad_ge crop msi Hcrop)|apply ncells_cover; exact Hosi]. }
  unfold in_band, td_topleft. fold q. rewrite inject_Z_sub1.
  set (nc := inject_Z (ncells (pad_to_stride crop msi) osi)) in *.
  set (t := q / sc * si) in *. set (w := inject_Z crop) in *. set (o := inject_Z osi) in *.
  unfold B in *. clearbody t nc w o.
  assert (Hh : forall z : Q, z / 2 == z * (1 # 2)) by (intro z; unfold Qdiv; reflexivity).
  rewrite !Hh in *. set (no := nc * o) in *.
  split.
  - setoid_replace (P - (t - w * (1 # 2) + (1 # 2))) with ((P - t) + (w - 1) * (1 # 2)) by ring. lra.
  - setoid_replace (P - (t - w * (1 # 2) + (1 # 2))) with ((P - t) + (w - 1) * (1 # 2)) by ring.
    setoid_replace ((nc - 1) * o) with (no - o) by (unfold no; ring). lra.
Qed.

(* ---- one animal through both stages, hypotheses on the INPUT only: the centroid is inside the image, in the band of
   the centroid grid and not exactly between two cells; then the animal is detected, and every visible keypoint that is
   close enough to the centroid (closed inequality, original pixels) is returned within half an instance-stage cell
   + K.  Nothing about the model's answer is assumed. *)
Definition crop_room (crop osi : Z) (si eff : Q) : Q := ((inject_Z crop - 1 - inject_Z osi) / 2) / (si * eff).

Theorem td_animal_end_to_end : forall c an,
  td_cfg_ok c -> (0 < td_osc c)%Z -> (0 < td_osi c)%Z -> 0 < td_sigma c ->
  (0 <= td_cw c)%Z -> (0 <= td_ch c)%Z ->
  let g := td_geom c in
  (0 < ncells (snd (tg_cx g)) (td_osc c))%Z -> (0 < ncells (snd (tg_cy g)) (td_osc c))%Z ->
  (0 < ncells (tg_nix g) (td_osi c))%Z -> (0 < ncells (tg_niy g) (td_osi c))%Z ->
  (td_thr0 c = true \/ td_lthr c < arg_floor (td_sigma c)) ->
  0 <= fst (an_cent an) -> fst (an_cent an) <= inject_Z (td_W c) - 1 ->
  0 <= snd (an_cent an) -> snd (an_cent an) <= inject_Z (td_H c) - 1 ->
  in_band (aff_apply (fst (tg_cx g)) (fst (an_cent an))) (td_osc c) (ncells (snd (tg_cx g)) (td_osc c)) ->
  in_band (aff_apply (fst (tg_cy g)) (snd (an_cent an))) (td_osc c) (ncells (snd (tg_cy g)) (td_osc c)) ->
  is_tie (aff_apply (fst (tg_cx g)) (fst (an_cent an))) (td_osc c) (ncells (snd (tg_cx g)) (td_osc c)) = false ->
  is_tie (aff_apply (fst (tg_cy g)) (snd (an_cent an))) (td_osc c) (ncells (snd (tg_cy g)) (td_osc c)) = false ->
  exists inst, td_instance c an = Some inst /\ length (ti_pts inst) = length (an_kps an) /\
    forall k x y, nth_error (an_kps an) k = Some (Some (x, y)) ->
      0 <= x -> x <= inject_Z (td_W c) - 1 -> 0 <= y -> y <= inject_Z (td_H c) - 1 ->
      Qabs (x - fst (an_cent an)) + reg_closed (td_si c) (tg_eff g) (td_W c) + reg_closed (td_sc c) (tg_eff g) (td_W c)
        + half_cell (td_osc c) (td_sc c) (tg_eff g) <= crop_room (td_cw c) (td_osi c) (td_si c) (tg_eff g) ->
      Qabs (y - snd (an_cent an)) + reg_closed (td_si c) (tg_eff g) (td_H c) + reg_closed (td_sc c) (tg_eff g) (td_H c)
        + half_cell (td_osc c) (td_sc c) (tg_eff g) <= crop_room (td_ch c) (td_osi c) (td_si c) (tg_eff g) ->
      exists px py a, nth_error (ti_pts inst) k = Some (Some (px, py), Some a) /\
        Qabs (px - x) <= half_cell (td_osi c) (td_si c) (tg_eff g) + reg_closed (td_si c) (tg_eff g) (td_W c) /\
        Qabs (py - y) <= half_cell (td_osi c) (td_si c) (tg_eff g) + reg_closed (td_si c) (tg_eff g) (td_H c).
Proof.
  intros c an Hok Hosc Hosi Hsig Hcw Hch g Ncx Ncy Nix Niy Hthr CX0 CX1 CY0 CY1 Bcx Bcy Tx Ty.
  destruct (td_cent_peak_returned c g (an_cent an) Hosc Hsig Ncx Ncy Hthr Bcx Bcy Tx Ty) as [a0 [Epk _]].
  pose proof (nearest_cell_half _ _ _ Hosc Ncx Bcx) as Cellx.
  pose proof (nearest_cell_half _ _ _ Hosc Ncy Bcy) as Celly.
  set (cellx := nearest_cell (aff_apply (fst (tg_cx g)) (fst (an_cent an))) (td_osc c) (ncells (snd (tg_cx g)) (td_osc c))) in *.
  set (celly := nearest_cell (aff_apply (fst (tg_cy g)) (snd (an_cent an))) (td_osc c) (ncells (snd (tg_cy g)) (td_osc c))) in *.
  destruct (td_slopes c Hok) as [He _]. fold g in He.
  pose proof Hok as [HH [HW [Hm [Hsc Hsi]]]].
  exists (td_instance_at c g cellx celly a0 (an_kps an)).
  split; [unfold td_instance; fold g; rewrite Epk; reflexivity|].
  unfold td_instance_at. cbn [ti_pts]. split; [apply map_length|].
  intros k x y Hk X0 X1 Y0 Y1 Fx Fy.
  rewrite (map_nth_error (td_kp c g _ _) _ _ Hk).
  destruct (td_reg_closed c x y Hok X0 X1 Y0 Y1) as [Rpx [Rpy _]]. fold g in Rpx, Rpy.
  destruct (td_reg_closed c (fst (an_cent an)) (snd (an_cent an)) Hok CX0 CX1 CY0 CY1) as [_ [_ [Rcx Rcy]]].
  fold g in Rcx, Rcy.
  assert (Bx : in_band (aff_apply (tg_px g) x - td_topleft cellx (td_osc c) (td_sc c) (td_si c) (td_cw c))
                       (td_osi c) (ncells (tg_nix g) (td_osi c))).
  { apply (kp_inside_crop cellx (td_osc c) (td_osi c) (td_cw c) (td_msi c) (td_sc c) (td_si c) (tg_eff g)
             x (fst (an_cent an)) (tg_px g) (fst (tg_cx g))); try assumption.
    unfold crop_room in Fx. eapply Qle_trans; [|exact Fx].
    repeat apply Qplus_le_compat; try apply Qle_refl; assumption. }
  assert (By : in_band (aff_apply (tg_py g) y - td_topleft celly (td_osc c) (td_sc c) (td_si c) (td_ch c))
                       (td_osi c) (ncells (tg_niy g) (td_osi c))).
  { apply (kp_inside_crop celly (td_osc c) (td_osi c) (td_ch c) (td_msi c) (td_sc c) (td_si c) (tg_eff g)
             y (snd (an_cent an)) (tg_py g) (fst (tg_cy g))); try assumption.
    unfold crop_room in Fy. eapply Qle_trans; [|exact Fy].
    repeat apply Qplus_le_compat; try apply Qle_refl; assumption. }
  assert (Hthr' : td_thr0 c = true \/ td_lthr c <= arg_floor (td_sigma c)) by (destruct Hthr; [left; assumption|right; lra]).
  destruct (td_kp_returned c g _ _ x y Hosi Hsig Nix Niy Hthr' Bx By) as [px [py [a [E _]]]].
  exists px, py, a. split; [rewrite E; reflexivity|].
  destruct (td_kp_within c g _ _ x y px py a Hosi Hsi He Nix Niy E Bx By) as [Ex Ey].
  split; lra.
Qed.

(* ================================================================== D. peak_threshold = 0 (finding F02z) *)
Definition wit_thr0 : si_cfg :=
  {| si_H := 64; si_W := 64; si_mh := None; si_mw := None; si_scale := 1; si_ms := 1; si_os := 2;
     si_sigma := 3 # 2; si_lthr := 0; si_fixed_F8 := true; si_thr0 := true; si_fixed_Fz := false |}.

(* current tree: with the constructor default peak_threshold = 0 an invisible keypoint is NOT NaN: it is reported at
   the image origin with value 0 *)
Theorem si_invisible_thr0_refuted :
  exists c pv, si_thr0 c = true /\ si_fixed_Fz c = false /\ si_kp c pv None = (Some (0, 0), None).
Proof. exists wit_thr0, VideoReader. split; [reflexivity|]. split; [reflexivity|]. vm_compute. reflexivity. Qed.

(* what exactly comes back, any configuration: cell (0,0) decoded *)
Lemma si_invisible_thr0_origin : forall c pv, si_thr0 c = true -> si_fixed_Fz c = false -> 0 < si_scale c -> 0 < si_eff c ->
  exists px py, si_kp c pv None = (Some (px, py), None) /\ px == 0 /\ py == 0.
Proof.
  intros c pv H0 Hf Hs He. unfold si_kp. rewrite H0, Hf. unfold zero_map_answer. cbn [andb negb].
  eexists. eexists. split; [reflexivity|].
  assert (E : snd (si_geom c pv) = si_eff c) by reflexivity. rewrite E.
  rewrite si_decode_eq by assumption. change (inject_Z 0) with 0. split; field; split; lra.
Qed.

(* top-down: the crop's own corner is reported (cell (0,0) of the crop + bbox) *)
Lemma td_invisible_thr0_corner : forall c g tlx tly, td_thr0 c = true -> td_fixed_Fz c = false -> 0 < td_si c -> 0 < tg_eff g ->
  exists px py, td_kp c g tlx tly None = (Some (px, py), None) /\
    px == tlx / td_si c / tg_eff g /\ py == tly / td_si c / tg_eff g.
Proof.
  intros c g tlx tly H0 Hf Hs He. unfold td_kp. rewrite H0, Hf. unfold zero_map_answer. cbn [andb negb].
  eexists. eexists. split; [reflexivity|].
  rewrite !td_decode_eq by assumption. change (inject_Z 0) with 0. split; field; split; lra.
Qed.

(* ================================================================== E. instances of a single-instance frame (C12 F62 variants) *)
Lemma si_frame_one_instance : forall fixed integral pts k p a,
  nth_error pts k = Some (Some p, Some a) -> si_frame_instances fixed integral pts = [pts].
Proof.
  intros fixed integral pts k p a H. unfold si_frame_instances.
  destruct (forallb (row_is_nan integral) pts) eqn:E; [|rewrite andb_false_r; reflexivity].
  rewrite forallb_forall in E. apply nth_error_In in H. apply E in H. discriminate.
Qed.

Lemma si_frame_no_detection : forall integral pts, forallb (row_is_nan integral) pts = true ->
  si_frame_instances true integral pts = [] /\ si_frame_instances false integral pts = [pts].
Proof. intros integral pts H. unfold si_frame_instances. rewrite H. split; reflexivity. Qed.
