(* Refine.v (C02) — the decode chains with integral refinement, stated exactly over Q on top of
   the exact model of integral refinement of C06/C07 (coq/theories/C06/Peaks.v: refine_at =
   rough cell + integral_offset of the (2r+1)^2 patch cut around it).

   find_global_peaks / find_local_peaks return rough + offset (in cells); the callers then apply
   the SAME chain as without refinement:
     single instance   (rough + d) * output_stride [/ input_scale if != 1] / eff_scale
     centred instance  (rough + d) * output_stride [/ input_scale if != 1] / eff_scale
                       + bbox top-left / input_scale / eff_scale
   Definitions and proofs are together here (small file; the statements are repeated in Props.v). *)
From Coq Require Import List ZArith QArith Qabs Lia Lqa Psatz.
Import ListNotations.
From SV Require Import C02.Decode C02.Lemmas C06.Peaks C06.Lemmas.
Open Scope Q_scope.

Definition si_decode_refined (p : Q) (os : Z) (s eff : Q) : Q :=
  let q := p * inject_Z os in
  let q := if Qeq_bool s 1 then q else q / s in
  q / eff.

Definition td_decode_refined (p : Q) (osi : Z) (si eff tl : Q) : Q :=
  let q := p * inject_Z osi in
  let q := if Qeq_bool si 1 then q else q / si in
  q / eff + tl / si / eff.

(* without an offset these are the rough chains of Decode.v *)
Lemma si_decode_refined_rough : forall c os s eff, si_decode_refined (inject_Z c) os s eff = si_decode c os s eff.
Proof. reflexivity. Qed.
Lemma td_decode_refined_rough : forall c os s eff tl,
  td_decode_refined (inject_Z c) os s eff tl = td_decode c os s eff tl.
Proof. reflexivity. Qed.

Lemma si_decode_refined_eq : forall p os s eff, 0 < s -> 0 < eff ->
  si_decode_refined p os s eff == p * inject_Z os / s / eff.
Proof.
  intros. unfold si_decode_refined. destruct (Qeq_bool s 1) eqn:E.
  - apply Qeq_bool_iff in E. rewrite E. field. lra.
  - reflexivity.
Qed.

Lemma td_decode_refined_eq : forall p os s eff tl, 0 < s -> 0 < eff ->
  td_decode_refined p os s eff tl == (p * inject_Z os + tl) / s / eff.
Proof.
  intros. unfold td_decode_refined. destruct (Qeq_bool s 1) eqn:E.
  - apply Qeq_bool_iff in E. rewrite E. field. lra.
  - field. split; lra.
Qed.

(* the general bound: the refined point is (c + d) cells; whatever the offset d, the error is the
   rough error plus |d| cells; w = content position of x in the pre-crop image, tl = crop corner
   (tl = 0, w = u: single instance) *)
Lemma refined_bound_gen : forall (c os : Z) (d w x s eff tl : Q),
  0 < s -> 0 < eff -> (0 < os)%Z ->
  Qabs (inject_Z c * inject_Z os - (w - tl)) <= inject_Z os / 2 ->
  Qabs (((inject_Z c + d) * inject_Z os + tl) / s / eff - x)
    <= half_cell os s eff + Qabs d * inject_Z os / (s * eff) + reg_term w x s eff.
Proof.
  intros c os d w x s eff tl Hs He Hos Hc. unfold half_cell, reg_term.
  assert (Ho : 0 < inject_Z os) by (change 0 with (inject_Z 0); rewrite <- Zlt_Qlt; lia).
  assert (Hse : 0 < s * eff) by (apply Qmult_lt_0_compat; assumption).
  set (k := / (s * eff)).
  assert (Hk : 0 < k) by (apply Qinv_lt_0_compat; exact Hse).
  setoid_replace (((inject_Z c + d) * inject_Z os + tl) / s / eff - x)
    with ((inject_Z c * inject_Z os - (w - tl)) * k + (d * inject_Z os) * k + (w - s * eff * x) * k)
    by (unfold k; field; split; lra).
  eapply Qle_trans; [apply Qabs_triangle|]. eapply Qle_trans; [apply Qplus_le_compat; [apply Qabs_triangle|apply Qle_refl]|].
  rewrite !Qabs_Qmult. rewrite (Qabs_pos k) by lra. rewrite (Qabs_pos (inject_Z os)) by lra.
  setoid_replace (inject_Z os / (2 * s * eff)) with (inject_Z os / 2 * k) by (unfold k; field; split; lra).
  unfold Qdiv at 2 3. fold k.
  apply Qplus_le_compat; [apply Qplus_le_compat|]; try apply Qle_refl.
  apply Qmult_le_compat_r; [exact Hc|lra].
Qed.

(* an offset that moves toward the content position without passing it (what integral regression
   does on an ideal bump: C07 proves the direction over R) keeps the property's half cell *)
Lemma refined_bound_toward : forall (c os : Z) (d w x s eff tl : Q),
  0 < s -> 0 < eff -> (0 < os)%Z ->
  Qabs (inject_Z c * inject_Z os - (w - tl)) <= inject_Z os / 2 ->
  (0 <= d * inject_Z os <= (w - tl) - inject_Z c * inject_Z os \/
   (w - tl) - inject_Z c * inject_Z os <= d * inject_Z os <= 0) ->
  Qabs (((inject_Z c + d) * inject_Z os + tl) / s / eff - x) <= half_cell os s eff + reg_term w x s eff.
Proof.
  intros c os d w x s eff tl Hs He Hos Hc Hd.
  setoid_replace (((inject_Z c + d) * inject_Z os + tl) / s / eff - x)
    with (((inject_Z c * inject_Z os + d * inject_Z os) + tl) / s / eff - x) by (field; split; lra).
  assert (Hc' : Qabs ((inject_Z c * inject_Z os + d * inject_Z os) - (w - tl)) <= inject_Z os / 2).
  { apply Qabs_Qle_condition in Hc. apply Qabs_Qle_condition. destruct Hc as [L U]. destruct Hd as [[A B]|[A B]]; split; lra. }
  revert Hc'. generalize (inject_Z c * inject_Z os + d * inject_Z os). intros q Hq.
  unfold half_cell, reg_term.
  assert (Hse : 0 < s * eff) by (apply Qmult_lt_0_compat; assumption).
  set (k := / (s * eff)).
  assert (Hk : 0 < k) by (apply Qinv_lt_0_compat; exact Hse).
  setoid_replace ((q + tl) / s / eff - x) with ((q - (w - tl)) * k + (w - s * eff * x) * k) by (unfold k; field; split; lra).
  eapply Qle_trans; [apply Qabs_triangle|].
  rewrite !Qabs_Qmult. rewrite (Qabs_pos k) by lra.
  setoid_replace (inject_Z os / (2 * s * eff)) with (inject_Z os / 2 * k) by (unfold k; field; split; lra).
  unfold Qdiv at 2. fold k.
  apply Qplus_le_compat; [|apply Qle_refl]. apply Qmult_le_compat_r; [exact Hq|lra].
Qed.

(* with C06's exact integral refinement: on a map without negative values in the patch (outside the
   selector of F9) the refined peak exists, is within r = (patch-1)/2 cells of the rough cell, and
   its decoded position obeys the general bound with |d| <= r, on both chains *)
Theorem refined_decode_within : forall m (cx cy r : nat) (osz : Z) (wx wy x y s eff tlx tly : Q),
  0 < s -> 0 < eff -> (0 < osz)%Z ->
  selector_F9 m cy cx r = false ->
  Qabs (inject_Z (Z.of_nat cx) * inject_Z osz - (wx - tlx)) <= inject_Z osz / 2 ->
  Qabs (inject_Z (Z.of_nat cy) * inject_Z osz - (wy - tly)) <= inject_Z osz / 2 ->
  exists px py, refine_at m cx cy r = Some (px, py) /\
    Qabs (td_decode_refined px osz s eff tlx - x)
      <= half_cell osz s eff + inject_Z (Z.of_nat r) * inject_Z osz / (s * eff) + reg_term wx x s eff /\
    Qabs (td_decode_refined py osz s eff tly - y)
      <= half_cell osz s eff + inject_Z (Z.of_nat r) * inject_Z osz / (s * eff) + reg_term wy y s eff.
Proof.
  intros m cx cy r osz wx wy x y s eff tlx tly Hs He Hos Hsel Hx Hy.
  destruct (refine_bound_outside_F9 m cx cy r Hsel) as [px [py [E [Bx [By _]]]]].
  exists px, py. split; [exact E|].
  assert (Ho : 0 < inject_Z osz) by (change 0 with (inject_Z 0); rewrite <- Zlt_Qlt; lia).
  assert (Hse : 0 < s * eff) by (apply Qmult_lt_0_compat; assumption).
  assert (Hk : 0 < / (s * eff)) by (apply Qinv_lt_0_compat; exact Hse).
  split.
  - rewrite td_decode_refined_eq by assumption.
    setoid_replace px with (inject_Z (Z.of_nat cx) + (px - inject_Z (Z.of_nat cx))) by ring.
    eapply Qle_trans; [apply (refined_bound_gen _ _ _ wx x s eff tlx Hs He Hos Hx)|].
    apply Qplus_le_compat; [apply Qplus_le_compat|]; try apply Qle_refl.
    unfold Qdiv. apply Qmult_le_compat_r; [|lra]. apply Qmult_le_compat_r; [exact Bx|lra].
  - rewrite td_decode_refined_eq by assumption.
    setoid_replace py with (inject_Z (Z.of_nat cy) + (py - inject_Z (Z.of_nat cy))) by ring.
    eapply Qle_trans; [apply (refined_bound_gen _ _ _ wy y s eff tly Hs He Hos Hy)|].
    apply Qplus_le_compat; [apply Qplus_le_compat|]; try apply Qle_refl.
    unfold Qdiv. apply Qmult_le_compat_r; [|lra]. apply Qmult_le_compat_r; [exact By|lra].
Qed.

(* a symmetric window (the keypoint exactly on a grid sample) is not moved: the refined decode is
   the rough one *)
Example ex_refined_symmetric :
  (exists px py, refine_at [[0;1;0];[1;4;1];[0;1;0]]%Q 1 1 1 = Some (px, py) /\ px == 1 /\ py == 1) /\
  td_decode_refined 1 2 (1 # 2) 1 7 == td_decode 1 2 (1 # 2) 1 7.
Proof.
  split; [|vm_compute; reflexivity].
  eexists. eexists. split; [vm_compute; reflexivity|split; vm_compute; reflexivity].
Qed.
