(* Decode.v — executable model (definitions only) of the coordinate bookkeeping
   of single-instance and top-down inference in /repo:

     sleap_nn/data/resizing.py            apply_sizematcher, resize_image,
                                          find_padding_for_stride / apply_pad_to_stride
     sleap_nn/data/instance_cropping.py   make_centered_bboxes (+/- 0.5 corner offsets)
     sleap_nn/inference/predictors.py     _predict_generator (size matching, eff_scale,
                                          the `preprocess` switch), make_pipeline (which
                                          provider gets preprocess=True), line 870
                                          (pred_instances + bbox top-left)
     sleap_nn/inference/single_instance.py  peaks * stride / input_scale / eff_scale
     sleap_nn/inference/topdown.py        CentroidCrop.forward/_generate_crops,
                                          FindInstancePeaks.forward

   Numbers: sizes are Z, coordinates exact Q.  Everything is per axis: an image
   axis of n pixels has pixel centres 0..n-1.

   What the network does is NOT part of the code; the property fixes it: "the
   network outputs the ideal confidence maps for the image it is actually
   given".  The model therefore tracks, next to the code's own arithmetic, the
   *content map* of every image operation — the affine map u = a*x + b saying at
   which pixel coordinate of the output the content of input coordinate x is
   found (torchvision bilinear resize n -> m, half-pixel centres:
   u = (x + 1/2) * m/n - 1/2; zero padding bottom/right: identity; crop_and_resize
   with a box of the crop's own size: translation by the box's top-left).  An
   ideal confidence map is a Gaussian around u sampled at the grid 0, os, 2 os,
   ...; its global maximum / strict local maximum is the grid cell nearest to u
   (C01, C06, C07).  The harness measures the content map on every run (the stub
   network fits it from ramp images) and compares it with this model. *)
From Coq Require Import List ZArith QArith Qround Qabs Qminmax Bool.
Import ListNotations.
Open Scope Q_scope.

Definition kp := option (Q * Q).          (* None = NaN / missing keypoint *)

(* ------------------------------------------------------------------ integers *)

(* Python's round(): to nearest, ties to even *)
Definition round_half_even (q : Q) : Z :=
  let f := Qfloor q in
  match Qcompare (q - inject_Z f) (1 # 2) with
  | Lt => f
  | Gt => (f + 1)%Z
  | Eq => if Z.even f then f else (f + 1)%Z
  end.

(* find_padding_for_stride + apply_pad_to_stride (pads only when max_stride > 1) *)
Definition pad_to_stride (n ms : Z) : Z :=
  if (1 <? ms)%Z then (n + (ms - n mod ms) mod ms)%Z else n.

(* resize_image: new = int(n * scale) *)
Definition resize_dim (n : Z) (s : Q) : Z := Qfloor (inject_Z n * s).

(* make_grid_vectors: arange(0, n, stride) has ceil(n / stride) samples *)
Definition ncells (n os : Z) : Z := ((n + os - 1) / os)%Z.

(* apply_sizematcher(image, max_height, max_width) *)
Record sized := { sm_h : Z; sm_w : Z;          (* size after matching (= max_height, max_width) *)
                  sm_th : Z; sm_tw : Z;        (* size the content was resized to *)
                  sm_eff : Q;                  (* eff_scale returned *)
                  sm_resized : bool }.

Definition sizematch (H W : Z) (mh mw : option Z) : sized :=
  let mh' := match mh with Some v => v | None => H end in
  let mw' := match mw with Some v => v | None => W end in
  if (H =? mh')%Z && (W =? mw')%Z then
    {| sm_h := H; sm_w := W; sm_th := H; sm_tw := W; sm_eff := 1; sm_resized := false |}
  else
    let hr := inject_Z mh' / inject_Z H in
    let wr := inject_Z mw' / inject_Z W in
    let eff := if Qle_bool hr wr then hr else wr in       (* `if hratio > wratio: wratio else hratio` *)
    {| sm_h := mh'; sm_w := mw';
       sm_th := round_half_even (inject_Z H * eff);
       sm_tw := round_half_even (inject_Z W * eff);
       sm_eff := eff; sm_resized := true |}.

(* ------------------------------------------------------------------ content maps *)
Definition aff := (Q * Q)%type.                       (* u = fst * x + snd *)
Definition aff_id : aff := (1, 0).
Definition aff_apply (m : aff) (x : Q) : Q := fst m * x + snd m.
Definition aff_then (m1 m2 : aff) : aff :=            (* first m1, then m2 *)
  (fst m2 * fst m1, fst m2 * snd m1 + snd m2).
(* bilinear resize of an axis from n to m pixels (half-pixel centres) *)
Definition resize_map (n m : Z) : aff :=
  let r := inject_Z m / inject_Z n in (r, (r - 1) / 2).

Definition sm_map (n0 nt : Z) (resized : bool) : aff :=
  if resized then resize_map n0 nt else aff_id.

(* ------------------------------------------------------------------ peaks of ideal maps *)
(* global maximum of a Gaussian around u on the grid 0, os, ..., (n-1) os:
   the nearest cell, the first (lower) one on an exact tie (torch.max) *)
Definition nearest_cell (u : Q) (os n : Z) : Z :=
  Z.max 0 (Z.min (n - 1) (Qceiling (u / inject_Z os - (1 # 2)))).

(* two grid cells exactly equidistant from u (a two-cell plateau) *)
Definition is_tie (u : Q) (os n : Z) : bool :=
  let t := u / inject_Z os - (1 # 2) in
  Qeq_bool t (inject_Z (Qfloor t)) && (0 <=? Qfloor t)%Z && (Qfloor t + 1 <=? n - 1)%Z.

(* distance (in cells) of u from the nearest tie position; reported to the
   harness so that it can keep its inputs in general position *)
Definition tie_margin (u : Q) (os : Z) : Q :=
  let t := u / inject_Z os - (1 # 2) in
  let f := t - inject_Z (Qfloor t) in
  Qmin f (1 - f).

(* argument of exp at the peak cell: -(dx^2 + dy^2) / (2 (sigma os)^2) *)
Definition peak_arg (dx dy sigma : Q) (os : Z) : Q :=
  - (dx * dx + dy * dy) / (2 * (sigma * inject_Z os) * (sigma * inject_Z os)).

Definition Qlt_bool (a b : Q) : bool := negb (Qle_bool b a).

(* ------------------------------------------------------------------ the peak threshold
   peak_threshold > 0 is held as its logarithm `lthr` and compared with the argument of exp
   (value = exp a).  peak_threshold = 0 — the CONSTRUCTOR DEFAULT of SingleInstanceInferenceModel,
   CentroidCrop and FindInstancePeaks (the predictor classes default to 0.2) — has no logarithm: flag
   `thr0`.  Every value exp a of an ideal map is > 0, so with thr0 every visible keypoint passes both
   comparisons (`max_values < threshold` of find_global_peaks_rough, `cms > threshold` of
   find_local_peaks_rough). *)
Definition above_global (thr0 : bool) (lthr a : Q) : bool := thr0 || Qle_bool lthr a.   (* not (value < threshold) *)
Definition above_local (thr0 : bool) (lthr a : Q) : bool := thr0 || Qlt_bool lthr a.    (* value > threshold *)

(* An INVISIBLE keypoint: make_confmaps / generate_confmaps turn the NaN row into an all-zero channel
   (nan_to_num).  find_global_peaks_rough on it: torch.max = 0 at the first cell (0, 0);
   `0 < threshold` masks it (NaN, value 0) when threshold > 0, but with threshold = 0 the test
   `0 < 0.0` is false and cell (0, 0) is RETURNED as a peak of value 0 (finding F02z; refinement None).
   `fixed` = behaviour after proposed_fixes/C02_F02z.diff (a maximum that is not positive is no peak).
   Result: (point or NaN, Some a = value exp a | None = value 0); `origin` = cell (0, 0) decoded.
   With integral refinement the code then refines cell (0, 0) on an all-zero patch: 0/0 = NaN, value 0
   (C06, selector F9: peak value <= 0) — not modelled here (the model is the rough chain); the harness
   expects NaN / 0 for such rows and the selector of F02z requires refinement None. *)
Definition zero_map_answer (thr0 fixed : bool) (origin : Q * Q) : kp * option Q :=
  if thr0 && negb fixed then (Some origin, None) else (None, None).

(* ------------------------------------------------------------------ single instance *)
Inductive provider := LabelsReader | VideoReader.

(* SingleInstancePredictor.make_pipeline, pinned tree: preprocess = False for LabelsReader,
   True for VideoReader (F8).  `fixed` = behaviour after proposed_fixes/C02_F8.diff = fix cfdac41
   (the current tree) *)
Definition preprocess_flag (fixed : bool) (p : provider) : bool :=
  match p with VideoReader => true | LabelsReader => fixed end.

Record si_cfg := { si_H : Z; si_W : Z; si_mh : option Z; si_mw : option Z;
                   si_scale : Q; si_ms : Z; si_os : Z;
                   si_sigma : Q; si_lthr : Q;       (* network sigma; ln(peak_threshold) *)
                   si_fixed_F8 : bool;
                   si_thr0 : bool;                  (* peak_threshold = 0 (si_lthr then unused) *)
                   si_fixed_Fz : bool }.            (* proposed_fixes/C02_F02z.diff applied *)

(* one axis of _predict_generator: (content map, size of the network input) *)
Definition si_axis_geom (pre : bool) (n0 nm nt : Z) (resized : bool) (s : Q) (ms : Z) : aff * Z :=
  let a0 := sm_map n0 nt resized in
  if pre then
    let '(a1, n1) :=
      if Qeq_bool s 1 then (a0, nm)
      else (aff_then a0 (resize_map nm (resize_dim nm s)), resize_dim nm s) in
    (a1, pad_to_stride n1 ms)
  else (a0, nm).

(* SingleInstanceInferenceModel.forward: * output_stride, / input_scale (if != 1), / eff_scale *)
Definition si_decode (c os : Z) (s eff : Q) : Q :=
  let p := inject_Z c * inject_Z os in
  let p := if Qeq_bool s 1 then p else p / s in
  p / eff.

Definition si_geom (c : si_cfg) (pv : provider) : (aff * Z) * (aff * Z) * Q :=
  let g := sizematch (si_H c) (si_W c) (si_mh c) (si_mw c) in
  let pre := preprocess_flag (si_fixed_F8 c) pv in
  (si_axis_geom pre (si_W c) (sm_w g) (sm_tw g) (sm_resized g) (si_scale c) (si_ms c),
   si_axis_geom pre (si_H c) (sm_h g) (sm_th g) (sm_resized g) (si_scale c) (si_ms c),
   sm_eff g).

Definition si_kp (c : si_cfg) (pv : provider) (p : kp) : kp * option Q :=
  match p with
  | None =>
      let eff := snd (si_geom c pv) in
      zero_map_answer (si_thr0 c) (si_fixed_Fz c)
        (si_decode 0%Z (si_os c) (si_scale c) eff, si_decode 0%Z (si_os c) (si_scale c) eff)
  | Some (x, y) =>
      let '(gx, gy, eff) := si_geom c pv in
      let ux := aff_apply (fst gx) x in
      let uy := aff_apply (fst gy) y in
      let cx := nearest_cell ux (si_os c) (ncells (snd gx) (si_os c)) in
      let cy := nearest_cell uy (si_os c) (ncells (snd gy) (si_os c)) in
      let a := peak_arg (inject_Z cx * inject_Z (si_os c) - ux)
                        (inject_Z cy * inject_Z (si_os c) - uy) (si_sigma c) (si_os c) in
      if above_global (si_thr0 c) (si_lthr c) a     (* `max_values < threshold` -> NaN, value 0 *)
      then (Some (si_decode cx (si_os c) (si_scale c) eff,
                  si_decode cy (si_os c) (si_scale c) eff), Some a)
      else (None, None)
  end.

Definition si_run (c : si_cfg) (pv : provider) (kps : list kp) : list (kp * option Q) :=
  map (si_kp c pv) kps.

(* SingleInstancePredictor._make_labeled_frames_from_generator: the instances made of one frame's row of peaks.
   Pinned tree and HEAD afd312c: always one PredictedInstance, all-NaN when nothing was detected.  `fixed` =
   behaviour after fix 8463f22 (C12 finding F62: `if np.isnan(pred_instances).all(): continue`): a frame whose
   points are ALL NaN yields no instance (and no LabeledFrame).  C02 states nothing about such a frame (there
   is no visible keypoint to report); C12 decides that clause; the model follows the variant the tree has.
   `integral`: with integral refinement a row (Some origin, None) — all-zero channel passed by threshold 0 — is
   NaN in the code (0/0 of the refinement, see zero_map_answer). *)
Definition row_is_nan (integral : bool) (r : kp * option Q) : bool :=
  match r with
  | (None, _) => true
  | (Some _, None) => integral
  | (Some _, Some _) => false
  end.
Definition si_frame_instances (fixed integral : bool) (pts : list (kp * option Q)) : list (list (kp * option Q)) :=
  if fixed && forallb (row_is_nan integral) pts then [] else [pts].

Definition si_kp_margin (c : si_cfg) (pv : provider) (p : kp) : Q :=
  match p with
  | None => 1 # 2
  | Some (x, y) =>
      let '(gx, gy, _) := si_geom c pv in
      Qmin (tie_margin (aff_apply (fst gx) x) (si_os c)) (tie_margin (aff_apply (fst gy) y) (si_os c))
  end.

(* ------------------------------------------------------------------ top-down *)
Record td_cfg := { td_H : Z; td_W : Z; td_mh : option Z; td_mw : option Z;
                   td_sc : Q; td_si : Q;            (* centroid / centered-instance input scale *)
                   td_msc : Z; td_msi : Z;          (* max strides *)
                   td_osc : Z; td_osi : Z;          (* output strides *)
                   td_ch : Z; td_cw : Z;            (* crop height, width *)
                   td_sigma : Q; td_lthr : Q;
                   td_thr0 : bool;                  (* peak_threshold = 0 for both stages (td_lthr then unused) *)
                   td_fixed_Fz : bool }.            (* proposed_fixes/C02_F02z.diff applied *)

Record animal := { an_cent : Q * Q; an_kps : list kp }.

(* CentroidCrop.forward: resize_image(image, input_scale) always, then pad if max_stride != 1 *)
Definition td_cent_geom (n0 nm nt : Z) (resized : bool) (sc : Q) (ms : Z) : aff * Z :=
  (aff_then (sm_map n0 nt resized) (resize_map nm (resize_dim nm sc)),
   pad_to_stride (resize_dim nm sc) ms).

(* inputs["image"] = resize_image(inputs["image"], precrop_resize): content map only *)
Definition td_pre_map (n0 nm nt : Z) (resized : bool) (si : Q) : aff :=
  aff_then (sm_map n0 nt resized) (resize_map nm (resize_dim nm si)).

(* refined_peaks * output_stride / input_scale, then * precrop_resize, then the
   top-left corner of make_centered_bboxes: c - size/2 + 1/2 *)
Definition td_topleft (cell osc : Z) (sc si : Q) (crop : Z) : Q :=
  inject_Z cell * inject_Z osc / sc * si - inject_Z crop / 2 + (1 # 2).

(* FindInstancePeaks.forward + predictors.py:870, one axis:
   peak * os / input_scale (if != 1) / eff  +  bbox / input_scale / eff *)
Definition td_decode (c osi : Z) (si eff tl : Q) : Q :=
  let p := inject_Z c * inject_Z osi in
  let p := if Qeq_bool si 1 then p else p / si in
  p / eff + tl / si / eff.

Record td_geom_t := { tg_cx : aff * Z; tg_cy : aff * Z; tg_px : aff; tg_py : aff; tg_eff : Q;
                      tg_nix : Z; tg_niy : Z }.

Definition td_geom (c : td_cfg) : td_geom_t :=
  let g := sizematch (td_H c) (td_W c) (td_mh c) (td_mw c) in
  {| tg_cx := td_cent_geom (td_W c) (sm_w g) (sm_tw g) (sm_resized g) (td_sc c) (td_msc c);
     tg_cy := td_cent_geom (td_H c) (sm_h g) (sm_th g) (sm_resized g) (td_sc c) (td_msc c);
     tg_px := td_pre_map (td_W c) (sm_w g) (sm_tw g) (sm_resized g) (td_si c);
     tg_py := td_pre_map (td_H c) (sm_h g) (sm_th g) (sm_resized g) (td_si c);
     tg_eff := sm_eff g;
     tg_nix := pad_to_stride (td_cw c) (td_msi c);
     tg_niy := pad_to_stride (td_ch c) (td_msi c) |}.

(* centroid stage for one animal: the strict local maximum of the ideal
   centroid map = nearest cell; no peak on a two-cell plateau or at/below the
   threshold.  Result: (cell x, cell y, arg of exp) *)
Definition td_cent_peak (c : td_cfg) (g : td_geom_t) (cent : Q * Q) : option (Z * Z * Q) :=
  let ux := aff_apply (fst (tg_cx g)) (fst cent) in
  let uy := aff_apply (fst (tg_cy g)) (snd cent) in
  let nx := ncells (snd (tg_cx g)) (td_osc c) in
  let ny := ncells (snd (tg_cy g)) (td_osc c) in
  if is_tie ux (td_osc c) nx || is_tie uy (td_osc c) ny then None
  else
    let cx := nearest_cell ux (td_osc c) nx in
    let cy := nearest_cell uy (td_osc c) ny in
    let a := peak_arg (inject_Z cx * inject_Z (td_osc c) - ux)
                      (inject_Z cy * inject_Z (td_osc c) - uy) (td_sigma c) (td_osc c) in
    if above_local (td_thr0 c) (td_lthr c) a then Some (cx, cy, a) else None.   (* cms > threshold *)

(* instance stage for one keypoint, given the crop's top-left corner *)
Definition td_kp (c : td_cfg) (g : td_geom_t) (tlx tly : Q) (p : kp) : kp * option Q :=
  match p with
  | None =>            (* all-zero channel: cell (0, 0) of the crop + the crop corner, when threshold = 0 *)
      zero_map_answer (td_thr0 c) (td_fixed_Fz c)
        (td_decode 0%Z (td_osi c) (td_si c) (tg_eff g) tlx, td_decode 0%Z (td_osi c) (td_si c) (tg_eff g) tly)
  | Some (x, y) =>
      let vx := aff_apply (tg_px g) x - tlx in
      let vy := aff_apply (tg_py g) y - tly in
      let cx := nearest_cell vx (td_osi c) (ncells (tg_nix g) (td_osi c)) in
      let cy := nearest_cell vy (td_osi c) (ncells (tg_niy g) (td_osi c)) in
      let a := peak_arg (inject_Z cx * inject_Z (td_osi c) - vx)
                        (inject_Z cy * inject_Z (td_osi c) - vy) (td_sigma c) (td_osi c) in
      if above_global (td_thr0 c) (td_lthr c) a
      then (Some (td_decode cx (td_osi c) (td_si c) (tg_eff g) tlx,
                  td_decode cy (td_osi c) (td_si c) (tg_eff g) tly), Some a)
      else (None, None)
  end.

Definition td_kp_margin (c : td_cfg) (g : td_geom_t) (tl : Q * Q) (p : kp) : Q :=
  match p with
  | None => 1 # 2
  | Some (x, y) =>
      Qmin (tie_margin (aff_apply (tg_px g) x - fst tl) (td_osi c))
           (tie_margin (aff_apply (tg_py g) y - snd tl) (td_osi c))
  end.

Record td_inst := { ti_cell : Z * Z;               (* centroid peak cell (x, y) *)
                    ti_carg : Q;                   (* arg of exp of the centroid value *)
                    ti_tl : Q * Q;                 (* crop top-left in the pre-crop image *)
                    ti_pts : list (kp * option Q);
                    ti_margins : list Q }.           (* general-position diagnostics *)

Definition td_instance_at (c : td_cfg) (g : td_geom_t) (cx cy : Z) (a : Q) (kps : list kp) : td_inst :=
  let tlx := td_topleft cx (td_osc c) (td_sc c) (td_si c) (td_cw c) in
  let tly := td_topleft cy (td_osc c) (td_sc c) (td_si c) (td_ch c) in
  {| ti_cell := (cx, cy); ti_carg := a; ti_tl := (tlx, tly);
     ti_pts := map (td_kp c g tlx tly) kps;
     ti_margins := map (td_kp_margin c g (tlx, tly)) kps |}.

Definition td_instance (c : td_cfg) (an : animal) : option td_inst :=
  let g := td_geom c in
  match td_cent_peak c g (an_cent an) with
  | None => None
  | Some (cx, cy, a) => Some (td_instance_at c g cx cy a (an_kps an))
  end.

(* find_local_peaks_rough: torch.where over (sample, y, x, channel) -> peaks of
   one frame come out sorted by row (y cell) then column (x cell) *)
Definition cell_leb (a b : td_inst) : bool :=
  let '(ax, ay) := ti_cell a in
  let '(bx, b_y) := ti_cell b in
  (ay <? b_y)%Z || ((ay =? b_y)%Z && (ax <=? bx)%Z).

Fixpoint insert_by {A} (le : A -> A -> bool) (x : A) (l : list A) : list A :=
  match l with
  | [] => [x]
  | y :: t => if le x y then x :: l else y :: insert_by le x t
  end.
Definition sort_by {A} (le : A -> A -> bool) (l : list A) : list A :=
  fold_right (insert_by le) [] l.

Fixpoint somes {A} (l : list (option A)) : list A :=
  match l with
  | [] => []
  | Some a :: t => a :: somes t
  | None :: t => somes t
  end.

(* one frame through TopDownInferenceModel (max_instances = None); hypothesis
   of the correspondence: the animals' centroid cells are pairwise at least
   three cells apart, so that every animal has its own strict local maximum *)
Definition td_frame (c : td_cfg) (animals : list animal) : list td_inst :=
  sort_by cell_leb (somes (map (td_instance c) animals)).

(* general-position diagnostics for the harness *)
Definition td_cent_margin (c : td_cfg) (an : animal) : Q :=
  let g := td_geom c in
  Qmin (tie_margin (aff_apply (fst (tg_cx g)) (fst (an_cent an))) (td_osc c))
       (tie_margin (aff_apply (fst (tg_cy g)) (snd (an_cent an))) (td_osc c)).


(* ------------------------------------------------------------------ top-down with ground-truth centroids (F7) *)
(* TopDownPredictor with centroid model = None (LabelsReader only): _predict_generator
   multiplies the labelled instances by eff_scale, CentroidCrop(use_gt_centroids=True)
   takes the midpoint of each instance's bounding box (anchor_ind = None) as centroid.
   In the pinned tree `_generate_crops` runs BEFORE the image is resized by precrop_resize and
   before the centroids are scaled, while FindInstancePeaks still divides peaks and
   bbox by input_scale.  `fixed` = behaviour after proposed_fixes/C02_F7.diff = fix 552121e, the
   current tree (resize and scale first, as the predicted-centroid branch does). *)
Definition opt_min (a : option Q) (b : Q) : option Q :=
  match a with None => Some b | Some v => Some (Qmin v b) end.
Definition opt_max (a : option Q) (b : Q) : option Q :=
  match a with None => Some b | Some v => Some (Qmax v b) end.

Definition bbox_mid (kps : list kp) : option (Q * Q) :=
  let vis := somes kps in
  match fold_left (fun acc p => opt_min acc (fst p)) vis None,
        fold_left (fun acc p => opt_max acc (fst p)) vis None,
        fold_left (fun acc p => opt_min acc (snd p)) vis None,
        fold_left (fun acc p => opt_max acc (snd p)) vis None with
  | Some x0, Some x1, Some y0, Some y1 => Some ((x0 + x1) / 2, (y0 + y1) / 2)
  | _, _, _, _ => None
  end.

Definition td_gt_geom (fixed : bool) (c : td_cfg) : td_geom_t :=
  let g := td_geom c in
  if fixed then g
  else
    let m := sizematch (td_H c) (td_W c) (td_mh c) (td_mw c) in
    {| tg_cx := tg_cx g; tg_cy := tg_cy g;
       tg_px := sm_map (td_W c) (sm_tw m) (sm_resized m);      (* crop cut from the un-resized image *)
       tg_py := sm_map (td_H c) (sm_th m) (sm_resized m);
       tg_eff := tg_eff g; tg_nix := tg_nix g; tg_niy := tg_niy g |}.

Definition td_gt_topleft (fixed : bool) (cent eff si : Q) (crop : Z) : Q :=
  (if fixed then cent * eff * si else cent * eff) - inject_Z crop / 2 + (1 # 2).

Definition td_gt_instance (fixed : bool) (c : td_cfg) (kps : list kp)
  : option ((Q * Q) * list (kp * option Q) * list Q) :=
  match bbox_mid kps with
  | None => None
  | Some (mx, my) =>
      let g := td_gt_geom fixed c in
      let tlx := td_gt_topleft fixed mx (tg_eff g) (td_si c) (td_cw c) in
      let tly := td_gt_topleft fixed my (tg_eff g) (td_si c) (td_ch c) in
      Some ((tlx, tly), map (td_kp c g tlx tly) kps, map (td_kp_margin c g (tlx, tly)) kps)
  end.

(* ------------------------------------------------------------------ F7 (latent) *)
(* pinned tree (the current tree passes the scale, fix 552121e); evaluated nowhere.
   _predict_generator, preprocess = True and instances_key = True:
   `apply_resizer(ex["image"], ex["instances"])` is called WITHOUT the scale, so
   neither the image nor the instances are resized (scale defaults to 1.0).
   Unreachable through make_pipeline (every predictor that sets instances_key
   also sets preprocess = False); modelled for the record. *)
Definition gt_path_resize_dim (fixed_F7 : bool) (n : Z) (s : Q) : Z :=
  if fixed_F7 then resize_dim n s else n.

(* ------------------------------------------------------------------ harness entry *)
Inductive case :=
| CSingle (c : si_cfg) (pv : provider) (kps : list kp)
| CTopDown (c : td_cfg) (animals : list animal)
| CTopDownAt (c : td_cfg) (tl : Q * Q) (kps : list kp)     (* instance stage at a given crop corner *)
| CTopDownGT (fixed : bool) (c : td_cfg) (animals : list (list kp))
| CSizes (H W : Z) (mh mw : option Z) (s : Q) (ms : Z).

Inductive result :=
| RSingle (geom : (aff * Z) * (aff * Z) * Q) (pts : list (kp * option Q)) (margins : list Q)
| RTopDown (g : td_geom_t) (insts : list td_inst) (cmargins : list Q)
| RTopDownAt (pts : list (kp * option Q)) (margins : list Q)
| RTopDownGT (insts : list (option ((Q * Q) * list (kp * option Q) * list Q)))
| RSizes (g : sized) (rh rw ph pw : Z).

Definition run (k : case) : result :=
  match k with
  | CSingle c pv kps => RSingle (si_geom c pv) (si_run c pv kps) (map (si_kp_margin c pv) kps)
  | CTopDown c ans =>
      let g := td_geom c in
      RTopDown g (td_frame c ans)
        (map (td_cent_margin c) ans)
  | CTopDownAt c tl kps =>
      let g := td_geom c in
      RTopDownAt (map (td_kp c g (fst tl) (snd tl)) kps) (map (td_kp_margin c g tl) kps)
  | CTopDownGT fixed c ans => RTopDownGT (map (td_gt_instance fixed c) ans)
  | CSizes H W mh mw s ms =>
      let g := sizematch H W mh mw in
      RSizes g (resize_dim (sm_h g) s) (resize_dim (sm_w g) s)
             (pad_to_stride (resize_dim (sm_h g) s) ms) (pad_to_stride (resize_dim (sm_w g) s) ms)
  end.

(* ---- rendering (JSON) ---- *)
From SV Require Import Base.Render.
Definition rkp (p : kp) : rdr := ropt (rpair rQ rQ) p.
Definition rpt (p : kp * option Q) : rdr := rpair rkp (ropt rQ) p.
Definition raffn (a : aff * Z) : rdr := rpair (rpair rQ rQ) rZ a.
Definition rinst (i : td_inst) : rdr := fun k =>
  rlist (fun x => x)
    [rpair rZ rZ (ti_cell i); rQ (ti_carg i); rpair rQ rQ (ti_tl i);
     rlist rpt (ti_pts i); rlist rQ (ti_margins i)] k.
Definition rresult (r : result) : rdr :=
  match r with
  | RSingle (gx, gy, eff) pts ms =>
      (* last entry: number of instances of the frame after fix 8463f22, without / with integral refinement
         (before the fix: always 1) *)
      rlist (fun x => x) [raffn gx; raffn gy; rQ eff; rlist rpt pts; rlist rQ ms;
                          rlist rnat [length (si_frame_instances true false pts);
                                      length (si_frame_instances true true pts)]]
  | RTopDown g insts cms =>
      rlist (fun x => x)
        [raffn (tg_cx g); raffn (tg_cy g); rpair rQ rQ (tg_px g); rpair rQ rQ (tg_py g); rQ (tg_eff g);
         rpair rZ rZ (tg_nix g, tg_niy g); rlist rinst insts; rlist rQ cms]
  | RTopDownAt pts ms => rlist (fun x => x) [rlist rpt pts; rlist rQ ms]
  | RTopDownGT insts =>
      rlist (ropt (rtriple (rpair rQ rQ) (rlist rpt) (rlist rQ))) insts
  | RSizes g rh rw ph pw =>
      rlist (fun x => x) [rZ (sm_h g); rZ (sm_w g); rZ (sm_th g); rZ (sm_tw g); rQ (sm_eff g);
                          rbool (sm_resized g); rZ rh; rZ rw; rZ ph; rZ pw]
  end.
