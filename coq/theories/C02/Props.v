(* Props.v (C02) — statements only.  Proofs: C02/Lemmas.v; model: C02/Decode.v.

   Reading.  `si_kp c pv p` / `td_kp c g tlx tly p` is what the code returns for
   keypoint p (None = NaN with value 0) when the network shows the ideal map
   for the image it is given; `si_ux c pv x` is the pixel coordinate of the
   network input at which the content of original coordinate x sits (content
   map); `in_band u os n`: u is within half a cell of the grid 0, os, ..,
   (n-1) os; `half_cell os s eff = os / (2 s eff)` is the property's bound in
   original pixels; `reg_term u x s eff = |u - s eff x| / (s eff)` is how far the
   image content is from where the decode assumes it to be (0 when nothing is
   resized).  All statements are exact (Q), for all sizes, max_height/width,
   scales, max strides, output strides, crop sizes.

   Tree states.  "pinned tree" = /repo before the `fix:` commits; "current tree" = /repo HEAD, which
   carries the repairs of F8 (cfdac41), F7 (552121e) and F61 (ca9ba93).  The model takes each repair as
   a flag (si_fixed_F8, `fixed` of td_gt_instance / gt_match); the harness detects the state of the tree
   by replaying the corpus witnesses and evaluates the matching variant.  Theorems about the
   un-repaired variants (`..._refuted` for F8, F7, F61, and the `_partial` ones beside them) document
   the historic defects and stay tied to code only through those witnesses.  F10, F11 and F02z
   (peak_threshold = 0) are open in the current tree.
   `_def` in a comment = the statement unfolds a definition of the model (no content beyond it). *)
From Coq Require Import List ZArith QArith Qabs.
Import ListNotations.
From SV Require Import C02.Decode C02.Lemmas C02.LemmasR4.
Open Scope Q_scope.

(* ---- the grid: nearest cell is within half a cell, exactly when u is in the band *)
Theorem c02_nearest_cell_half : forall u os n, (0 < os)%Z -> (0 < n)%Z -> in_band u os n ->
  Qabs (inject_Z (nearest_cell u os n) * inject_Z os - u) <= inject_Z os / 2.
Proof. exact nearest_cell_half. Qed.
Print Assumptions c02_nearest_cell_half.

(* ---- single instance: every visible keypoint, both providers, any configuration *)
Theorem c02_single_within_half_cell_plus_registration : forall c pv x y px py a,
  (0 < si_os c)%Z -> 0 < si_scale c -> 0 < si_eff c ->
  (0 < si_ncx c pv)%Z -> (0 < si_ncy c pv)%Z ->
  si_kp c pv (Some (x, y)) = (Some (px, py), Some a) ->
  in_band (si_ux c pv x) (si_os c) (si_ncx c pv) ->
  in_band (si_uy c pv y) (si_os c) (si_ncy c pv) ->
  Qabs (px - x) <= half_cell (si_os c) (si_scale c) (si_eff c)
                   + reg_term (si_ux c pv x) x (si_scale c) (si_eff c) /\
  Qabs (py - y) <= half_cell (si_os c) (si_scale c) (si_eff c)
                   + reg_term (si_uy c pv y) y (si_scale c) (si_eff c).
Proof. exact si_kp_within. Qed.
Print Assumptions c02_single_within_half_cell_plus_registration.

(* nothing resized (no size matching, scale 1, preprocessing applied): the
   property's half cell, exactly; stride padding and output stride arbitrary *)
Theorem c02_single_half_cell_partial : forall c pv x y px py a,
  si_mh c = None -> si_mw c = None -> si_scale c = 1 -> preprocess_flag (si_fixed_F8 c) pv = true ->
  (0 < si_os c)%Z -> (0 < si_ncx c pv)%Z -> (0 < si_ncy c pv)%Z ->
  si_kp c pv (Some (x, y)) = (Some (px, py), Some a) ->
  in_band x (si_os c) (si_ncx c pv) -> in_band y (si_os c) (si_ncy c pv) ->
  Qabs (px - x) <= inject_Z (si_os c) / 2 /\ Qabs (py - y) <= inject_Z (si_os c) / 2.
Proof. exact si_plain_half_cell. Qed.
Print Assumptions c02_single_half_cell_partial.

(* the registration term of one exact resize step: (s - 1) / 2 input pixels *)
Theorem c02_resize_registration : forall c pv x,
  si_mh c = None -> si_mw c = None -> preprocess_flag (si_fixed_F8 c) pv = true ->
  Qeq_bool (si_scale c) 1 = false -> (0 < si_W c)%Z ->
  inject_Z (resize_dim (si_W c) (si_scale c)) == inject_Z (si_W c) * si_scale c ->
  si_ux c pv x == si_scale c * x + (si_scale c - 1) / 2.
Proof. exact si_ux_resize_exact. Qed.
Print Assumptions c02_resize_registration.

(* F11: with a resize step the plain half-cell bound is false (witness) *)
Theorem c02_half_cell_refuted_by_resize :
  exists c x y px py a,
    si_kp c VideoReader (Some (x, y)) = (Some (px, py), Some a) /\
    in_band (si_ux c VideoReader x) (si_os c) (si_ncx c VideoReader) /\
    (1 # 16) <= tie_margin (si_ux c VideoReader x) (si_os c) /\
    ~ Qabs (px - x) <= half_cell (si_os c) (si_scale c) (si_eff c) /\
    Qabs (px - x) <= half_cell (si_os c) (si_scale c) (si_eff c)
                     + reg_term (si_ux c VideoReader x) x (si_scale c) (si_eff c).
Proof. exact half_cell_refuted_by_resize. Qed.
Print Assumptions c02_half_cell_refuted_by_resize.

(* F10: without the band hypothesis the bound is false (witness inside the image) *)
Theorem c02_last_half_cell_band_refuted :
  exists c pv x y px py a,
    si_mh c = None /\ si_mw c = None /\ si_scale c = 1 /\ preprocess_flag (si_fixed_F8 c) pv = true /\
    0 <= x /\ x <= inject_Z (si_W c) - 1 /\
    si_kp c pv (Some (x, y)) = (Some (px, py), Some a) /\
    ~ Qabs (px - x) <= inject_Z (si_os c) / 2.
Proof. exact last_half_cell_band_refuted. Qed.
Print Assumptions c02_last_half_cell_band_refuted.

(* invisible keypoints: NaN, value 0 — `_partial`: only for peak_threshold > 0 (or after the repair of F02z).
   The channel of an invisible keypoint is all zero; find_global_peaks_rough masks it by `max < threshold`
   (model: zero_map_answer).  What is missing for the full clause is refuted below. *)
Theorem c02_single_invisible_is_nan_partial : forall c pv kps k,
  thr_masks_zero (si_thr0 c) (si_fixed_Fz c) ->
  nth_error kps k = Some None -> nth_error (si_run c pv kps) k = Some (None, None).
Proof. exact si_run_invisible. Qed.
Print Assumptions c02_single_invisible_is_nan_partial.

(* F02z (current tree): peak_threshold = 0 — the constructor default of SingleInstanceInferenceModel and
   FindInstancePeaks — and refinement None: an invisible keypoint is reported AT THE ORIGIN with value 0, not NaN *)
Theorem c02_single_invisible_zero_threshold_refuted :
  exists c pv, si_thr0 c = true /\ si_fixed_Fz c = false /\ si_kp c pv None = (Some (0, 0), None).
Proof. exact si_invisible_thr0_refuted. Qed.
Print Assumptions c02_single_invisible_zero_threshold_refuted.

(* ... in every configuration: single instance -> (0, 0); top-down -> the crop's own corner in original pixels *)
Theorem c02_invisible_zero_threshold_answer :
  (forall c pv, si_thr0 c = true -> si_fixed_Fz c = false -> 0 < si_scale c -> 0 < si_eff c ->
     exists px py, si_kp c pv None = (Some (px, py), None) /\ px == 0 /\ py == 0) /\
  (forall c g tlx tly, td_thr0 c = true -> td_fixed_Fz c = false -> 0 < td_si c -> 0 < tg_eff g ->
     exists px py, td_kp c g tlx tly None = (Some (px, py), None) /\
       px == tlx / td_si c / tg_eff g /\ py == tly / td_si c / tg_eff g).
Proof. split; [exact si_invisible_thr0_origin|exact td_invisible_thr0_corner]. Qed.
Print Assumptions c02_invisible_zero_threshold_answer.

(* ---- provider independence *)
(* F8: false of the PINNED tree (before fix cfdac41; si_fixed_F8 = false): labels-file answer = 2 x the video
   answer at scale 1/2.  Historic: the current tree is the `_fixed` variant below. *)
Theorem c02_provider_independence_refuted :
  exists c x y xl yl al xv yv av,
    si_fixed_F8 c = false /\
    si_kp c LabelsReader (Some (x, y)) = (Some (xl, yl), Some al) /\
    si_kp c VideoReader (Some (x, y)) = (Some (xv, yv), Some av) /\
    xv == x /\ yv == y /\ xl == 2 * x /\ yl == 2 * y.
Proof. exact provider_independence_refuted. Qed.
Print Assumptions c02_provider_independence_refuted.

(* true of the pinned tree (before fix cfdac41) when scale = 1 and no stride padding is due *)
Theorem c02_provider_independence_partial : forall c kps,
  Qeq_bool (si_scale c) 1 = true ->
  (let g := sizematch (si_H c) (si_W c) (si_mh c) (si_mw c) in
   pad_to_stride (sm_w g) (si_ms c) = sm_w g /\ pad_to_stride (sm_h g) (si_ms c) = sm_h g) ->
  si_run c LabelsReader kps = si_run c VideoReader kps.
Proof. exact provider_independence_partial. Qed.
Print Assumptions c02_provider_independence_partial.

(* and unconditionally once make_pipeline sets preprocess = True for LabelsReader
   (proposed_fixes/C02_F8.diff = fix cfdac41: the CURRENT tree) *)
Theorem c02_provider_independence_fixed : forall c kps,
  si_fixed_F8 c = true -> si_run c LabelsReader kps = si_run c VideoReader kps.
Proof. exact provider_independence_fixed. Qed.
Print Assumptions c02_provider_independence_fixed.

(* ---- top-down *)
(* for EVERY crop corner (tlx, tly) — i.e. whatever the centroid stage found —
   the bound is the instance-stage half cell (+ registration of the pre-crop
   image): the centroid-stage quantisation cancels *)
Theorem c02_topdown_instance_stage_bound_any_centroid : forall c g tlx tly x y px py a,
  (0 < td_osi c)%Z -> 0 < td_si c -> 0 < tg_eff g ->
  (0 < ncells (tg_nix g) (td_osi c))%Z -> (0 < ncells (tg_niy g) (td_osi c))%Z ->
  td_kp c g tlx tly (Some (x, y)) = (Some (px, py), Some a) ->
  in_band (aff_apply (tg_px g) x - tlx) (td_osi c) (ncells (tg_nix g) (td_osi c)) ->
  in_band (aff_apply (tg_py g) y - tly) (td_osi c) (ncells (tg_niy g) (td_osi c)) ->
  Qabs (px - x) <= half_cell (td_osi c) (td_si c) (tg_eff g)
                   + reg_term (aff_apply (tg_px g) x) x (td_si c) (tg_eff g) /\
  Qabs (py - y) <= half_cell (td_osi c) (td_si c) (tg_eff g)
                   + reg_term (aff_apply (tg_py g) y) y (td_si c) (tg_eff g).
Proof. exact td_kp_within. Qed.
Print Assumptions c02_topdown_instance_stage_bound_any_centroid.

(* one frame end to end: every returned instance belongs to one labelled animal,
   has NaN/0 for its invisible keypoints (round 4: under peak_threshold > 0 or the repair of
   F02z — with threshold 0 the crop corner comes back, c02_invisible_zero_threshold_answer) and
   the bound for the visible ones that lie inside its crop (derived from the input in
   c02_topdown_animal_end_to_end) *)
Theorem c02_topdown_frame : forall c ans inst,
  (0 < td_osi c)%Z -> 0 < td_si c -> 0 < tg_eff (td_geom c) ->
  (0 < ncells (tg_nix (td_geom c)) (td_osi c))%Z -> (0 < ncells (tg_niy (td_geom c)) (td_osi c))%Z ->
  In inst (td_frame c ans) ->
  exists an, In an ans /\
    length (ti_pts inst) = length (an_kps an) /\
    (forall k, thr_masks_zero (td_thr0 c) (td_fixed_Fz c) ->
       nth_error (an_kps an) k = Some None -> nth_error (ti_pts inst) k = Some (None, None)) /\
    (forall k x y px py a,
       nth_error (an_kps an) k = Some (Some (x, y)) ->
       nth_error (ti_pts inst) k = Some (Some (px, py), Some a) ->
       in_band (aff_apply (tg_px (td_geom c)) x - fst (ti_tl inst)) (td_osi c)
               (ncells (tg_nix (td_geom c)) (td_osi c)) ->
       in_band (aff_apply (tg_py (td_geom c)) y - snd (ti_tl inst)) (td_osi c)
               (ncells (tg_niy (td_geom c)) (td_osi c)) ->
       Qabs (px - x) <= half_cell (td_osi c) (td_si c) (tg_eff (td_geom c))
                        + reg_term (aff_apply (tg_px (td_geom c)) x) x (td_si c) (tg_eff (td_geom c)) /\
       Qabs (py - y) <= half_cell (td_osi c) (td_si c) (tg_eff (td_geom c))
                        + reg_term (aff_apply (tg_py (td_geom c)) y) y (td_si c) (tg_eff (td_geom c))).
Proof. exact td_frame_within. Qed.
Print Assumptions c02_topdown_frame.

(* every animal whose centroid has a peak is returned; nothing is invented — `_def`: list lemmas about
   td_frame = sort (somes (map td_instance)); that the peak exists is c02_centroid_is_detected; that distinct animals
   have distinct peaks (centroid cells >= 3 apart) is a hypothesis of the correspondence, not of a theorem *)
Theorem c02_topdown_frame_complete : forall c ans an inst,
  In an ans -> td_instance c an = Some inst -> In inst (td_frame c ans).
Proof. exact td_frame_complete. Qed.
Print Assumptions c02_topdown_frame_complete.

Theorem c02_topdown_frame_count : forall c ans, (length (td_frame c ans) <= length ans)%nat.
Proof. exact td_frame_count. Qed.
Print Assumptions c02_topdown_frame_count.

(* ---- F7: top-down with ground-truth centroids (centroid model = None, LabelsReader) *)
(* pinned tree (before fix 552121e; fixed = false), historic: the crops are cut before the image is resized:
   refuted at scale 1/2 (answer ~ 2x) *)
Theorem c02_topdown_gt_centroids_refuted :
  exists c kps tl pts ms x y px py a,
    td_gt_instance false c kps = Some (tl, pts, ms) /\
    nth_error kps 0 = Some (Some (x, y)) /\ nth_error pts 0 = Some (Some (px, py), Some a) /\
    in_band (aff_apply (tg_px (td_gt_geom false c)) x - fst tl) (td_osi c)
            (ncells (tg_nix (td_geom c)) (td_osi c)) /\
    half_cell (td_osi c) (td_si c) (tg_eff (td_geom c)) == 2 /\
    20 < Qabs (px - x).
Proof. exact td_gt_refuted. Qed.
Print Assumptions c02_topdown_gt_centroids_refuted.

(* with the crops cut after resizing (proposed_fixes/C02_F7.diff = fix 552121e: the CURRENT tree) the
   instance-stage bound holds; non-vacuity: ex_gt_centroids_fixed *)
Theorem c02_topdown_gt_centroids_fixed : forall c kps tl pts ms k x y px py a,
  (0 < td_osi c)%Z -> 0 < td_si c -> 0 < tg_eff (td_geom c) ->
  (0 < ncells (tg_nix (td_geom c)) (td_osi c))%Z -> (0 < ncells (tg_niy (td_geom c)) (td_osi c))%Z ->
  td_gt_instance true c kps = Some (tl, pts, ms) ->
  nth_error kps k = Some (Some (x, y)) ->
  nth_error pts k = Some (Some (px, py), Some a) ->
  in_band (aff_apply (tg_px (td_geom c)) x - fst tl) (td_osi c) (ncells (tg_nix (td_geom c)) (td_osi c)) ->
  in_band (aff_apply (tg_py (td_geom c)) y - snd tl) (td_osi c) (ncells (tg_niy (td_geom c)) (td_osi c)) ->
  Qabs (px - x) <= half_cell (td_osi c) (td_si c) (tg_eff (td_geom c))
                   + reg_term (aff_apply (tg_px (td_geom c)) x) x (td_si c) (tg_eff (td_geom c)) /\
  Qabs (py - y) <= half_cell (td_osi c) (td_si c) (tg_eff (td_geom c))
                   + reg_term (aff_apply (tg_py (td_geom c)) y) y (td_si c) (tg_eff (td_geom c)).
Proof. exact td_gt_fixed_within. Qed.
Print Assumptions c02_topdown_gt_centroids_fixed.

(* `_def` (unfolds td_cent_peak): a centroid exactly between two cells is not detected.  The tie branch is
   not produced by the generator (coordinates stay 1/8 cell from the half-cell lattice) *)
Theorem c02_plateau_no_local_peak : forall c g cent,
  is_tie (aff_apply (fst (tg_cx g)) (fst cent)) (td_osc c) (ncells (snd (tg_cx g)) (td_osc c)) = true ->
  td_cent_peak c g cent = None.
Proof. exact plateau_no_local_peak. Qed.
Print Assumptions c02_plateau_no_local_peak.

(* ---- integer size bookkeeping *)
Theorem c02_pad_to_stride : forall n ms, (0 <= n)%Z -> (1 < ms)%Z ->
  (n <= pad_to_stride n ms < n + ms)%Z /\ (pad_to_stride n ms mod ms = 0)%Z.
Proof. exact pad_to_stride_spec. Qed.
Print Assumptions c02_pad_to_stride.

Theorem c02_resize_dim_is_floor : forall n s,
  inject_Z (resize_dim n s) <= inject_Z n * s /\ inject_Z n * s < inject_Z (resize_dim n s) + 1.
Proof. exact resize_dim_floor. Qed.
Print Assumptions c02_resize_dim_is_floor.

Theorem c02_sizematch_size : forall H W mh mw,
  sm_h (sizematch H W mh mw) = match mh with Some v => v | None => H end /\
  sm_w (sizematch H W mh mw) = match mw with Some v => v | None => W end.
Proof. exact sizematch_size. Qed.
Print Assumptions c02_sizematch_size.

Theorem c02_eff_scale_positive : forall H W mh mw,
  (0 < H)%Z -> (0 < W)%Z ->
  (forall v, mh = Some v -> (0 < v)%Z) -> (forall v, mw = Some v -> (0 < v)%Z) ->
  0 < sm_eff (sizematch H W mh mw).
Proof. exact sizematch_eff_pos. Qed.
Print Assumptions c02_eff_scale_positive.

(* ---- latent twin of F7 in the PINNED tree (unreachable through make_pipeline; evaluated nowhere): the
   ground-truth-instances branch of _predict_generator called apply_resizer without the scale; the current tree
   passes the scale (fix 552121e) *)
Theorem c02_gt_path_not_resized_refuted : exists n s, gt_path_resize_dim false n s <> resize_dim n s.
Proof. exact gt_path_not_resized. Qed.
Print Assumptions c02_gt_path_not_resized_refuted.

(* ---- non-vacuity: the hypotheses are met by concrete configurations *)
Example ex_single_witness :
  (exists px py a, si_kp wit_f8 VideoReader (Some (40, 24)) = (Some (px, py), Some a) /\ px == 40 /\ py == 24)
  /\ in_band (si_ux wit_f8 VideoReader 40) (si_os wit_f8) (si_ncx wit_f8 VideoReader).
Proof.
  split; [|split; vm_compute; discriminate].
  eexists. eexists. eexists. split; [vm_compute; reflexivity|split; vm_compute; reflexivity].
Qed.

Example ex_topdown_witness :
  exists inst, td_frame wit_td [wit_animal] = [inst] /\ length (ti_pts inst) = 3%nat
    /\ in_band (aff_apply (tg_px (td_geom wit_td)) 40 - fst (ti_tl inst)) (td_osi wit_td)
               (ncells (tg_nix (td_geom wit_td)) (td_osi wit_td)).
Proof. eexists. split; [vm_compute; reflexivity|]. split; [reflexivity|split; vm_compute; discriminate]. Qed.

(* ================================================================== centroid-only top-down
   (TopDownPredictor with the centered-instance model left out: CentroidCrop(return_crops=False)
   + FindInstancePeaksGroundTruth; model C02/CentroidOnly.v, proofs C02/LemmasCO.v).
   `co_frame fixed c ans` = the rows of one frame's output record: cr_cent = the "centroids"
   entry (original pixels), cr_match = index of the labelled instance matched to it, cr_pts = the
   "pred_instance_peaks" row. *)
From SV Require Import C02.CentroidOnly C02.LemmasCO.

(* the returned centroid: cell * stride / input_scale / eff_scale is within half a centroid-stage
   cell (+ registration) of the animal's centroid, any configuration *)
Theorem c02_centroid_only_centroid_bound : forall c g cent cx cy a,
  (0 < td_osc c)%Z -> 0 < td_sc c -> 0 < tg_eff g ->
  (0 < ncells (snd (tg_cx g)) (td_osc c))%Z -> (0 < ncells (snd (tg_cy g)) (td_osc c))%Z ->
  td_cent_peak c g cent = Some (cx, cy, a) ->
  in_band (aff_apply (fst (tg_cx g)) (fst cent)) (td_osc c) (ncells (snd (tg_cx g)) (td_osc c)) ->
  in_band (aff_apply (fst (tg_cy g)) (snd cent)) (td_osc c) (ncells (snd (tg_cy g)) (td_osc c)) ->
  Qabs (co_decode cx (td_osc c) (td_sc c) (tg_eff g) - fst cent)
    <= half_cell (td_osc c) (td_sc c) (tg_eff g)
       + reg_term (aff_apply (fst (tg_cx g)) (fst cent)) (fst cent) (td_sc c) (tg_eff g) /\
  Qabs (co_decode cy (td_osc c) (td_sc c) (tg_eff g) - snd cent)
    <= half_cell (td_osc c) (td_sc c) (tg_eff g)
       + reg_term (aff_apply (fst (tg_cy g)) (snd cent)) (snd cent) (td_sc c) (tg_eff g).
Proof. exact co_centroid_within. Qed.
Print Assumptions c02_centroid_only_centroid_bound.

(* F61, pinned tree (before fix ca9ba93; fixed = false), historic: the centroids (original pixels) are compared with instances * eff_scale: at
   eff_scale 1/2 the row of animal B's centroid holds animal A's keypoints and B's are never returned *)
Theorem c02_gt_match_mixed_coordinates_refuted :
  tg_eff (td_geom wit_co) == 1 # 2 /\
  exists r, In r (co_frame false wit_co [wit_A; wit_B]) /\
    Qabs (fst (cr_cent r) - 42) <= 2 /\ Qabs (snd (cr_cent r) - 32) <= 2 /\
    cr_match r = Some 0%nat /\ Forall2 kp_eq (cr_pts r) (an_kps wit_A) /\
    (forall r', In r' (co_frame false wit_co [wit_A; wit_B]) -> cr_match r' <> Some 1%nat).
Proof. exact gt_match_mixed_refuted. Qed.
Print Assumptions c02_gt_match_mixed_coordinates_refuted.

(* the strongest true statement: when the comparison is made in ONE coordinate system — the
   current tree (fixed = true, proposed_fixes/C02_F61.diff = fix ca9ba93), or the pinned tree with
   eff_scale = 1 (fixed = false: the `_partial` reading) — the labelled instance whose nearest
   visible node is strictly nearest to the centroid IN ORIGINAL PIXELS is the one matched, for every
   eff_scale > 0, any number of instances, missing nodes allowed *)
Theorem c02_gt_match_nearest_partial : forall fixed eff cent insts j0 kps0 d0,
  0 < eff -> (fixed = true \/ eff == 1) ->
  nth_error insts j0 = Some kps0 -> inst_d2 cent kps0 = Some d0 ->
  (forall k kps w, k <> j0 -> nth_error insts k = Some kps -> inst_d2 cent kps = Some w -> d0 < w) ->
  gt_match fixed eff cent insts = Some j0.
Proof. exact gt_match_nearest. Qed.
Print Assumptions c02_gt_match_nearest_partial.

(* what is returned for a match is the labelled instance itself ((x * eff) / eff, error 0 <= half
   a cell), NaN for its missing nodes *)
Theorem c02_gt_return_is_labelled : forall eff kps, 0 < eff -> Forall2 kp_eq (gt_return eff kps) kps.
Proof. exact gt_return_is_labelled. Qed.
Print Assumptions c02_gt_return_is_labelled.

Theorem c02_gt_return_invisible_is_nan : forall eff kps k,
  nth_error kps k = Some None -> nth_error (gt_return eff kps) k = Some None.
Proof. exact gt_return_invisible. Qed.
Print Assumptions c02_gt_return_invisible_is_nan.

(* one frame end to end: every row comes from one labelled animal's centroid peak, its centroid
   entry obeys the bound, and (one coordinate system) the row holds that animal's own keypoints
   whenever its nearest node is strictly nearer to the returned centroid than any other animal's *)
Theorem c02_centroid_only_frame : forall fixed c ans r,
  (0 < td_osc c)%Z -> 0 < td_sc c -> 0 < tg_eff (td_geom c) ->
  (0 < ncells (snd (tg_cx (td_geom c))) (td_osc c))%Z -> (0 < ncells (snd (tg_cy (td_geom c))) (td_osc c))%Z ->
  In r (co_frame fixed c ans) ->
  exists an, In an ans /\
    (in_band (aff_apply (fst (tg_cx (td_geom c))) (fst (an_cent an))) (td_osc c)
             (ncells (snd (tg_cx (td_geom c))) (td_osc c)) ->
     in_band (aff_apply (fst (tg_cy (td_geom c))) (snd (an_cent an))) (td_osc c)
             (ncells (snd (tg_cy (td_geom c))) (td_osc c)) ->
     Qabs (fst (cr_cent r) - fst (an_cent an))
       <= half_cell (td_osc c) (td_sc c) (tg_eff (td_geom c))
          + reg_term (aff_apply (fst (tg_cx (td_geom c))) (fst (an_cent an))) (fst (an_cent an))
                     (td_sc c) (tg_eff (td_geom c)) /\
     Qabs (snd (cr_cent r) - snd (an_cent an))
       <= half_cell (td_osc c) (td_sc c) (tg_eff (td_geom c))
          + reg_term (aff_apply (fst (tg_cy (td_geom c))) (snd (an_cent an))) (snd (an_cent an))
                     (td_sc c) (tg_eff (td_geom c))) /\
    (forall j0 d0,
       (fixed = true \/ tg_eff (td_geom c) == 1) ->
       nth_error (map an_kps ans) j0 = Some (an_kps an) -> inst_d2 (cr_cent r) (an_kps an) = Some d0 ->
       (forall k kps w, k <> j0 -> nth_error (map an_kps ans) k = Some kps ->
                        inst_d2 (cr_cent r) kps = Some w -> d0 < w) ->
       cr_match r = Some j0 /\ Forall2 kp_eq (cr_pts r) (an_kps an)).
Proof. exact co_frame_row. Qed.
Print Assumptions c02_centroid_only_frame.

(* every animal whose centroid has a peak has its row; nothing is invented (`_def`, as c02_topdown_frame_complete) *)
Theorem c02_centroid_only_frame_complete : forall fixed c ans an pk,
  In an ans -> td_cent_peak c (td_geom c) (an_cent an) = Some pk ->
  In (co_row_of fixed c (td_geom c) (map an_kps ans) pk) (co_frame fixed c ans).
Proof. exact co_frame_complete. Qed.
Print Assumptions c02_centroid_only_frame_complete.

Theorem c02_centroid_only_frame_count : forall fixed c ans, (length (co_frame fixed c ans) <= length ans)%nat.
Proof. exact co_frame_count. Qed.
Print Assumptions c02_centroid_only_frame_count.

(* the network always sees 3 channels when is_rgb and 1 when not, for 1- and 3-channel frames (a 2x2 table);
   the decode chains above do not take the channel mode as a parameter *)
Theorem c02_net_channels : forall is_rgb ch, (ch = 1 \/ ch = 3)%Z ->
  net_channels is_rgb ch = if is_rgb then 3%Z else 1%Z.
Proof. exact net_channels_spec. Qed.
Print Assumptions c02_net_channels.

(* non-vacuity: the repaired comparison on the F61 witness returns both animals, and the
   hypotheses of c02_gt_match_nearest_partial are met by animal B there *)
Example ex_centroid_only_fixed :
  map cr_match (co_frame true wit_co [wit_A; wit_B]) = [Some 1%nat; Some 0%nat].
Proof. exact gt_match_fixed_witness. Qed.

Example ex_gt_match_nearest_hyps :
  exists d0, inst_d2 (40, 32) (an_kps wit_B) = Some d0 /\
    (forall w, inst_d2 (40, 32) (an_kps wit_A) = Some w -> d0 < w) /\
    gt_match true (1 # 2) (40, 32) [an_kps wit_A; an_kps wit_B] = Some 1%nat /\
    gt_match false (1 # 2) (40, 32) [an_kps wit_A; an_kps wit_B] = Some 0%nat.
Proof.
  eexists. split; [vm_compute; reflexivity|]. split; [|split; vm_compute; reflexivity].
  intros w H. vm_compute in H. inversion H; subst. vm_compute. reflexivity.
Qed.

(* ================================================================== integral refinement, exactly
   (C02/Refine.v on top of C06's exact model refine_at): the refined peak (rough cell + offset d, in
   cells) goes through the same chain; whatever the map, the error is the rough error + |d| cells *)
From SV Require Import C06.Peaks C02.Refine.

Theorem c02_refined_decode_bound : forall (c os : Z) (d w x s eff tl : Q),
  0 < s -> 0 < eff -> (0 < os)%Z ->
  Qabs (inject_Z c * inject_Z os - (w - tl)) <= inject_Z os / 2 ->
  Qabs (((inject_Z c + d) * inject_Z os + tl) / s / eff - x)
    <= half_cell os s eff + Qabs d * inject_Z os / (s * eff) + reg_term w x s eff.
Proof. exact refined_bound_gen. Qed.
Print Assumptions c02_refined_decode_bound.

(* an offset toward the content position that does not pass it keeps the property's half cell *)
Theorem c02_refined_decode_toward_keeps_half_cell : forall (c os : Z) (d w x s eff tl : Q),
  0 < s -> 0 < eff -> (0 < os)%Z ->
  Qabs (inject_Z c * inject_Z os - (w - tl)) <= inject_Z os / 2 ->
  (0 <= d * inject_Z os <= (w - tl) - inject_Z c * inject_Z os \/
   (w - tl) - inject_Z c * inject_Z os <= d * inject_Z os <= 0) ->
  Qabs (((inject_Z c + d) * inject_Z os + tl) / s / eff - x) <= half_cell os s eff + reg_term w x s eff.
Proof. exact refined_bound_toward. Qed.
Print Assumptions c02_refined_decode_toward_keeps_half_cell.

(* with the exact integral refinement of C06 on any map whose patch has no negative value (outside
   the selector of F9): the refined peak exists and its decoded position is within half a cell
   + r = (patch_size - 1) / 2 cells (+ registration) — `_partial`: that the offset of an ideal Gaussian
   does not pass the true position (so that the plain half cell holds) is proved over R only for
   the direction (C07 c07_gaussian_moves_toward_centre), the magnitude is observed by the harness *)
Theorem c02_refined_decode_within_partial : forall m (cx cy r : nat) (osz : Z) (wx wy x y s eff tlx tly : Q),
  0 < s -> 0 < eff -> (0 < osz)%Z ->
  selector_F9 m cy cx r = false ->
  Qabs (inject_Z (Z.of_nat cx) * inject_Z osz - (wx - tlx)) <= inject_Z osz / 2 ->
  Qabs (inject_Z (Z.of_nat cy) * inject_Z osz - (wy - tly)) <= inject_Z osz / 2 ->
  exists px py, refine_at m cx cy r = Some (px, py) /\
    Qabs (td_decode_refined px osz s eff tlx - x)
      <= half_cell osz s eff + inject_Z (Z.of_nat r) * inject_Z osz / (s * eff) + reg_term wx x s eff /\
    Qabs (td_decode_refined py osz s eff tly - y)
      <= half_cell osz s eff + inject_Z (Z.of_nat r) * inject_Z osz / (s * eff) + reg_term wy y s eff.
Proof. exact refined_decode_within. Qed.
Print Assumptions c02_refined_decode_within_partial.

Theorem c02_refined_decode_extends_rough : forall c os s eff tl,
  td_decode_refined (inject_Z c) os s eff tl = td_decode c os s eff tl /\
  si_decode_refined (inject_Z c) os s eff = si_decode c os s eff.
Proof. intros. split; reflexivity. Qed.
Print Assumptions c02_refined_decode_extends_rough.

(* ================================================================== one batch of frames of DIFFERENT sizes
   (a labels file with several videos + max_height / max_width size matching; model C02/MixedBatch.v,
   proofs C02/LemmasMB.v).  `_predict_generator` appends one eff_scale per frame next to the image;
   the inference models divide sample b by entry b.  `si_batch_with c pv effs fs` / `td_batch_with c effs fs`
   decode sample b with entry b of ANY list `effs`; `si_batch` / `td_batch` / `gt_batch` / `co_batch` use the
   list the code builds (`batch_effs`: entry b from frame b's own size). *)
From SV Require Import C02.MixedBatch C02.LemmasMB.

(* the list the code builds: one entry per frame, the factor of that frame's OWN size *)
Theorem c02_batch_eff_scales_one_per_frame : forall mh mw sizes,
  length (batch_effs mh mw sizes) = length sizes /\
  (forall b hw, nth_error sizes b = Some hw ->
     nth_error (batch_effs mh mw sizes) b = Some (sm_eff (sizematch (fst hw) (snd hw) mh mw))).
Proof. intros. split; [apply batch_effs_length|apply batch_effs_nth]. Qed.
Print Assumptions c02_batch_eff_scales_one_per_frame.

(* with both maxima given every size-matched frame has the same shape: the batch can be stacked *)
Theorem c02_batch_stackable : forall mh mw sizes s,
  In s (batch_shapes (Some mh) (Some mw) sizes) -> s = (mh, mw).
Proof. exact batch_shapes_uniform. Qed.
Print Assumptions c02_batch_stackable.

(* the zip: sample b is decoded with entry b of the list handed over, whatever it holds (`_def`: unfolds the
   combine + map of si_batch_with / td_batch_with; the content is in the `_is_per_frame` theorems below) *)
Theorem c02_batch_sample_uses_its_entry : forall c pv effs fs b f e,
  nth_error fs b = Some f -> nth_error effs b = Some e ->
  nth_error (si_batch_with c pv effs fs) b
  = Some (map (si_kp_e (si_at c (sf_H f) (sf_W f)) pv e) (sf_kps f)).
Proof. exact si_batch_with_nth. Qed.
Print Assumptions c02_batch_sample_uses_its_entry.

Theorem c02_topdown_batch_sample_uses_its_entry : forall c effs fs b f e,
  nth_error fs b = Some f -> nth_error effs b = Some e ->
  nth_error (td_batch_with c effs fs) b
  = Some (let c' := td_at c (tf_H f) (tf_W f) in td_frame_g c' (set_eff (td_geom c') e) (tf_animals f)).
Proof. exact td_batch_with_nth. Qed.
Print Assumptions c02_topdown_batch_sample_uses_its_entry.

(* single instance: the batch is the per-frame model frame by frame (each frame with the configuration
   of its own size, hence its own eff_scale), for any mixture of sizes, any batch length *)
Theorem c02_single_batch_is_per_frame : forall c pv fs,
  si_batch c pv fs = map (fun f => si_run (si_at c (sf_H f) (sf_W f)) pv (sf_kps f)) fs.
Proof. exact si_batch_is_per_frame. Qed.
Print Assumptions c02_single_batch_is_per_frame.

(* the decode bound for every frame of a mixed batch: half cell and registration term in the ORIGINAL
   pixels of that frame (its own eff_scale) *)
Theorem c02_single_batch_decode_bound : forall c pv fs b f row k x y px py a,
  nth_error fs b = Some f -> nth_error (si_batch c pv fs) b = Some row ->
  nth_error (sf_kps f) k = Some (Some (x, y)) -> nth_error row k = Some (Some (px, py), Some a) ->
  let c' := si_at c (sf_H f) (sf_W f) in
  (0 < si_os c')%Z -> 0 < si_scale c' -> 0 < si_eff c' ->
  (0 < si_ncx c' pv)%Z -> (0 < si_ncy c' pv)%Z ->
  in_band (si_ux c' pv x) (si_os c') (si_ncx c' pv) ->
  in_band (si_uy c' pv y) (si_os c') (si_ncy c' pv) ->
  Qabs (px - x) <= half_cell (si_os c') (si_scale c') (si_eff c')
                   + reg_term (si_ux c' pv x) x (si_scale c') (si_eff c') /\
  Qabs (py - y) <= half_cell (si_os c') (si_scale c') (si_eff c')
                   + reg_term (si_uy c' pv y) y (si_scale c') (si_eff c').
Proof. exact si_batch_within. Qed.
Print Assumptions c02_single_batch_decode_bound.

(* `_partial`: peak_threshold > 0 or F02z repaired (see c02_single_invisible_is_nan_partial) *)
Theorem c02_single_batch_invisible_is_nan_partial : forall c pv fs b f row k,
  thr_masks_zero (si_thr0 c) (si_fixed_Fz c) ->
  nth_error fs b = Some f -> nth_error (si_batch c pv fs) b = Some row ->
  nth_error (sf_kps f) k = Some None -> nth_error row k = Some (None, None).
Proof. exact si_batch_invisible. Qed.
Print Assumptions c02_single_batch_invisible_is_nan_partial.

(* top-down: the same, crops / bbox re-addition included *)
Theorem c02_topdown_batch_is_per_frame : forall c fs,
  td_batch c fs = map (fun f => td_frame (td_at c (tf_H f) (tf_W f)) (tf_animals f)) fs.
Proof. exact td_batch_is_per_frame. Qed.
Print Assumptions c02_topdown_batch_is_per_frame.

Theorem c02_topdown_batch_decode_bound : forall c fs b f row inst,
  nth_error fs b = Some f -> nth_error (td_batch c fs) b = Some row -> In inst row ->
  let c' := td_at c (tf_H f) (tf_W f) in
  (0 < td_osi c')%Z -> 0 < td_si c' -> 0 < tg_eff (td_geom c') ->
  (0 < ncells (tg_nix (td_geom c')) (td_osi c'))%Z -> (0 < ncells (tg_niy (td_geom c')) (td_osi c'))%Z ->
  exists an, In an (tf_animals f) /\
    length (ti_pts inst) = length (an_kps an) /\
    (forall k, thr_masks_zero (td_thr0 c) (td_fixed_Fz c) ->
       nth_error (an_kps an) k = Some None -> nth_error (ti_pts inst) k = Some (None, None)) /\
    (forall k x y px py a,
       nth_error (an_kps an) k = Some (Some (x, y)) ->
       nth_error (ti_pts inst) k = Some (Some (px, py), Some a) ->
       in_band (aff_apply (tg_px (td_geom c')) x - fst (ti_tl inst)) (td_osi c')
               (ncells (tg_nix (td_geom c')) (td_osi c')) ->
       in_band (aff_apply (tg_py (td_geom c')) y - snd (ti_tl inst)) (td_osi c')
               (ncells (tg_niy (td_geom c')) (td_osi c')) ->
       Qabs (px - x) <= half_cell (td_osi c') (td_si c') (tg_eff (td_geom c'))
                        + reg_term (aff_apply (tg_px (td_geom c')) x) x (td_si c') (tg_eff (td_geom c')) /\
       Qabs (py - y) <= half_cell (td_osi c') (td_si c') (tg_eff (td_geom c'))
                        + reg_term (aff_apply (tg_py (td_geom c')) y) y (td_si c') (tg_eff (td_geom c'))).
Proof. exact td_batch_within. Qed.
Print Assumptions c02_topdown_batch_decode_bound.

(* ground-truth centroids and centroid-only top-down: frame by frame as well *)
Theorem c02_topdown_gt_batch_is_per_frame : forall fixed c fs,
  gt_batch fixed c fs
  = map (fun f => map (td_gt_instance fixed (td_at c (gf_H f) (gf_W f))) (gf_insts f)) fs.
Proof. exact gt_batch_is_per_frame. Qed.
Print Assumptions c02_topdown_gt_batch_is_per_frame.

Theorem c02_centroid_only_batch_is_per_frame : forall fixed c fs,
  co_batch fixed c fs = map (fun f => co_frame fixed (td_at c (tf_H f) (tf_W f)) (tf_animals f)) fs.
Proof. exact co_batch_is_per_frame. Qed.
Print Assumptions c02_centroid_only_batch_is_per_frame.

(* a factor that is not the frame's own multiplies the whole answer by own / foreign *)
Theorem c02_foreign_eff_scale_factor : forall cx os s e e' tl, 0 < s -> 0 < e -> 0 < e' ->
  si_decode cx os s e == si_decode cx os s e' * (e' / e) /\
  td_decode cx os s e tl == td_decode cx os s e' tl * (e' / e).
Proof. intros. split; [now apply si_decode_foreign|now apply td_decode_foreign]. Qed.
Print Assumptions c02_foreign_eff_scale_factor.

(* `_alternative_refuted`: unlike the other `_refuted` theorems this one is not about a tree state; it refutes a
   construction no tree ever had (it exists as seeded change C02_m5 only).
   "one factor for the whole batch" (the factor of the last frame read) is refuted: a 32x32 and a 64x64
   frame matched to 64x64 in one batch; the small frame's keypoint (10, 12) comes back as (20, 24),
   although it is in the band; the list the code builds returns (10, 12) *)
Theorem c02_one_factor_per_batch_alternative_refuted :
  exists c fs f x y px py a,
    nth_error fs 0 = Some f /\ nth_error (sf_kps f) 0 = Some (Some (x, y)) /\
    nth_error (si_batch_with c VideoReader (last_eff_for_all (si_mh c) (si_mw c) (map sf_size fs)) fs) 0
      = Some [(Some (px, py), Some a)] /\
    (let c' := si_at c (sf_H f) (sf_W f) in
     in_band (si_ux c' VideoReader x) (si_os c') (si_ncx c' VideoReader) /\
     in_band (si_uy c' VideoReader y) (si_os c') (si_ncy c' VideoReader) /\
     ~ Qabs (px - x) <= half_cell (si_os c') (si_scale c') (si_eff c')
                        + reg_term (si_ux c' VideoReader x) x (si_scale c') (si_eff c')) /\
    (exists qx qy, nth_error (si_batch c VideoReader fs) 0 = Some [(Some (qx, qy), Some a)] /\ qx == x /\ qy == y).
Proof. exact one_factor_per_batch_refuted. Qed.
Print Assumptions c02_one_factor_per_batch_alternative_refuted.

(* non-square crops: the crop geometry per axis — the centroid cell sits at the crop centre, width for
   x and height for y; the network input is the crop padded per axis (conjuncts 3-4 are `_def`); used by
   c02_keypoint_inside_its_crop *)
Theorem c02_crop_geometry_per_axis : forall c g cx cy a kps,
  let i := td_instance_at c g cx cy a kps in
  fst (ti_tl i) + (inject_Z (td_cw c) - 1) / 2 == inject_Z cx * inject_Z (td_osc c) / td_sc c * td_si c /\
  snd (ti_tl i) + (inject_Z (td_ch c) - 1) / 2 == inject_Z cy * inject_Z (td_osc c) / td_sc c * td_si c /\
  tg_nix (td_geom c) = pad_to_stride (td_cw c) (td_msi c) /\
  tg_niy (td_geom c) = pad_to_stride (td_ch c) (td_msi c).
Proof. exact td_crop_geometry_per_axis. Qed.
Print Assumptions c02_crop_geometry_per_axis.

(* non-vacuity: the mixed batch of the witness; the hypotheses of the bound are met by its small frame *)
Example ex_mixed_batch :
  Forall2 Qeq (batch_effs (si_mh wit_mb) (si_mw wit_mb) (map sf_size [wit_small; wit_large])) [2; 1] /\
  (let c' := si_at wit_mb 32 32 in
   (0 < si_ncx c' VideoReader)%Z /\ 0 < si_eff c' /\
   in_band (si_ux c' VideoReader 10) (si_os c') (si_ncx c' VideoReader)).
Proof.
  split; [exact (proj1 wit_mb_effs)|]. split; [vm_compute; reflexivity|]. split; [vm_compute; reflexivity|].
  split; vm_compute; discriminate.
Qed.

(* non-square crop (height 32, width 64; the other orientation gives another network input and another
   corner): the frame of ex_topdown_witness *)
Definition wit_td_nonsquare : td_cfg :=
  {| td_H := 96; td_W := 120; td_mh := Some 128%Z; td_mw := Some 128%Z; td_sc := 1 # 2; td_si := 3 # 4;
     td_msc := 16; td_msi := 16; td_osc := 2; td_osi := 2; td_ch := 32; td_cw := 64;
     td_sigma := 3 # 2; td_lthr := - (1609438 # 1000000); td_thr0 := false; td_fixed_Fz := false |}.
Example ex_topdown_nonsquare_crop :
  (tg_nix (td_geom wit_td_nonsquare), tg_niy (td_geom wit_td_nonsquare)) = (64%Z, 32%Z) /\
  exists inst, td_frame wit_td_nonsquare [wit_animal] = [inst] /\
    map (fun p : kp * option Q => match fst p with Some _ => true | None => false end) (ti_pts inst)
      = [true; false; true] /\
    in_band (aff_apply (tg_px (td_geom wit_td_nonsquare)) 40 - fst (ti_tl inst)) (td_osi wit_td_nonsquare)
            (ncells (tg_nix (td_geom wit_td_nonsquare)) (td_osi wit_td_nonsquare)) /\
    in_band (aff_apply (tg_py (td_geom wit_td_nonsquare)) 24 - snd (ti_tl inst)) (td_osi wit_td_nonsquare)
            (ncells (tg_niy (td_geom wit_td_nonsquare)) (td_osi wit_td_nonsquare)).
Proof.
  split; [vm_compute; reflexivity|]. eexists. split; [vm_compute; reflexivity|].
  split; [vm_compute; reflexivity|split; split; vm_compute; discriminate].
Qed.

(* ================================================================== round 4 (review notes/review/C02.md; proofs C02/LemmasR4.v)
   1. every visible in-band keypoint IS returned;  2. the registration term in closed form, so that "all sizes /
   max_height,max_width / scales / stride padding" is covered by a theorem about sizematch, resize_dim and
   pad_to_stride and not parametrically;  3. "the keypoint lies inside its crop" derived;  4. one animal end to end
   with hypotheses on the input only. *)

(* ---- 1. returned.  arg_floor sigma = -1/(4 sigma^2): the ideal map at the cell nearest to its centre is at least
   exp (arg_floor sigma) (centre at most half a cell away per axis).  A threshold not above that value (or
   threshold 0) lets every visible in-band keypoint through: the model answers Some. *)
Theorem c02_peak_value_floor : forall dx dy sigma os, (0 < os)%Z -> 0 < sigma ->
  Qabs dx <= inject_Z os / 2 -> Qabs dy <= inject_Z os / 2 -> arg_floor sigma <= peak_arg dx dy sigma os.
Proof. exact peak_arg_lower. Qed.
Print Assumptions c02_peak_value_floor.

Theorem c02_single_visible_is_returned : forall c pv x y,
  (0 < si_os c)%Z -> 0 < si_sigma c -> (0 < si_ncx c pv)%Z -> (0 < si_ncy c pv)%Z ->
  (si_thr0 c = true \/ si_lthr c <= arg_floor (si_sigma c)) ->
  in_band (si_ux c pv x) (si_os c) (si_ncx c pv) ->
  in_band (si_uy c pv y) (si_os c) (si_ncy c pv) ->
  exists px py a, si_kp c pv (Some (x, y)) = (Some (px, py), Some a) /\ arg_floor (si_sigma c) <= a.
Proof. exact si_kp_returned. Qed.
Print Assumptions c02_single_visible_is_returned.

Theorem c02_topdown_visible_is_returned : forall c g tlx tly x y,
  (0 < td_osi c)%Z -> 0 < td_sigma c ->
  (0 < ncells (tg_nix g) (td_osi c))%Z -> (0 < ncells (tg_niy g) (td_osi c))%Z ->
  (td_thr0 c = true \/ td_lthr c <= arg_floor (td_sigma c)) ->
  in_band (aff_apply (tg_px g) x - tlx) (td_osi c) (ncells (tg_nix g) (td_osi c)) ->
  in_band (aff_apply (tg_py g) y - tly) (td_osi c) (ncells (tg_niy g) (td_osi c)) ->
  exists px py a, td_kp c g tlx tly (Some (x, y)) = (Some (px, py), Some a) /\ arg_floor (td_sigma c) <= a.
Proof. exact td_kp_returned. Qed.
Print Assumptions c02_topdown_visible_is_returned.

(* the centroid stage (strict local maximum, `cms > threshold`): in the band and not exactly between two cells
   => detected, at the nearest cell *)
Theorem c02_centroid_is_detected : forall c g cent,
  (0 < td_osc c)%Z -> 0 < td_sigma c ->
  (0 < ncells (snd (tg_cx g)) (td_osc c))%Z -> (0 < ncells (snd (tg_cy g)) (td_osc c))%Z ->
  (td_thr0 c = true \/ td_lthr c < arg_floor (td_sigma c)) ->
  in_band (aff_apply (fst (tg_cx g)) (fst cent)) (td_osc c) (ncells (snd (tg_cx g)) (td_osc c)) ->
  in_band (aff_apply (fst (tg_cy g)) (snd cent)) (td_osc c) (ncells (snd (tg_cy g)) (td_osc c)) ->
  is_tie (aff_apply (fst (tg_cx g)) (fst cent)) (td_osc c) (ncells (snd (tg_cx g)) (td_osc c)) = false ->
  is_tie (aff_apply (fst (tg_cy g)) (snd cent)) (td_osc c) (ncells (snd (tg_cy g)) (td_osc c)) = false ->
  exists a, td_cent_peak c g cent
            = Some (nearest_cell (aff_apply (fst (tg_cx g)) (fst cent)) (td_osc c) (ncells (snd (tg_cx g)) (td_osc c)),
                    nearest_cell (aff_apply (fst (tg_cy g)) (snd cent)) (td_osc c) (ncells (snd (tg_cy g)) (td_osc c)), a)
            /\ arg_floor (td_sigma c) <= a.
Proof. exact td_cent_peak_returned. Qed.
Print Assumptions c02_centroid_is_detected.

(* ---- 2. the registration term, closed.
   (a) Python's round() moves by at most 1/2; (b) every content map of the model has the half-pixel-centre form
   u = a x + (a - 1)/2 (so reg_term = |(a - s eff) x + (a - 1)/2| / (s eff)); (c) the slope a of "size matching,
   then resize_image" differs from scale * eff_scale by at most (1 + s/2)/n on an axis of n pixels (round() of the
   matched size: 1/2 px; int() of the resized size: < 1 px; eff_scale * n <= matched size); hence
   reg_term <= reg_closed s eff n = (|1 - s eff|/2 + (1 + s/2)(1 + 1/(2n))) / (s eff) for every pixel of the axis.
   Closed, not tight: at s = eff = 1 it is < 1.52 px where the exact value is 0 (c02_single_half_cell_partial). *)
Theorem c02_round_half_even_close : forall q, Qabs (inject_Z (round_half_even q) - q) <= 1 # 2.
Proof. exact round_half_even_close. Qed.
Print Assumptions c02_round_half_even_close.

Theorem c02_sizematch_axes : forall H W mh mw, (0 < H)%Z -> (0 < W)%Z -> maxes_pos mh mw ->
  let g := sizematch H W mh mw in
  (0 < sm_w g)%Z /\ (0 < sm_h g)%Z /\ 0 < sm_eff g /\
  Qabs (sm_r1 W (sm_tw g) (sm_resized g) - sm_eff g) * inject_Z W <= 1 # 2 /\
  Qabs (sm_r1 H (sm_th g) (sm_resized g) - sm_eff g) * inject_Z H <= 1 # 2 /\
  inject_Z W * sm_eff g <= inject_Z (sm_w g) /\
  inject_Z H * sm_eff g <= inject_Z (sm_h g).
Proof. exact sizematch_axes. Qed.
Print Assumptions c02_sizematch_axes.

Theorem c02_content_map_slopes :
  (forall c pv, si_cfg_ok c -> preprocess_flag (si_fixed_F8 c) pv = true ->
     0 < si_eff c /\
     Qabs (fst (fst (si_gx c pv)) - si_scale c * si_eff c) * inject_Z (si_W c) <= 1 + si_scale c / 2 /\
     Qabs (fst (fst (si_gy c pv)) - si_scale c * si_eff c) * inject_Z (si_H c) <= 1 + si_scale c / 2) /\
  (forall c, td_cfg_ok c ->
     let g := td_geom c in
     0 < tg_eff g /\
     Qabs (fst (tg_px g) - td_si c * tg_eff g) * inject_Z (td_W c) <= 1 + td_si c / 2 /\
     Qabs (fst (tg_py g) - td_si c * tg_eff g) * inject_Z (td_H c) <= 1 + td_si c / 2 /\
     Qabs (fst (fst (tg_cx g)) - td_sc c * tg_eff g) * inject_Z (td_W c) <= 1 + td_sc c / 2 /\
     Qabs (fst (fst (tg_cy g)) - td_sc c * tg_eff g) * inject_Z (td_H c) <= 1 + td_sc c / 2).
Proof. split; [exact si_slopes|exact td_slopes]. Qed.
Print Assumptions c02_content_map_slopes.

Theorem c02_registration_closed_single : forall c pv x y,
  si_cfg_ok c -> preprocess_flag (si_fixed_F8 c) pv = true ->
  0 <= x -> x <= inject_Z (si_W c) - 1 -> 0 <= y -> y <= inject_Z (si_H c) - 1 ->
  reg_term (si_ux c pv x) x (si_scale c) (si_eff c) <= reg_closed (si_scale c) (si_eff c) (si_W c) /\
  reg_term (si_uy c pv y) y (si_scale c) (si_eff c) <= reg_closed (si_scale c) (si_eff c) (si_H c).
Proof. exact si_reg_closed. Qed.
Print Assumptions c02_registration_closed_single.

Theorem c02_registration_closed_topdown : forall c x y, td_cfg_ok c ->
  0 <= x -> x <= inject_Z (td_W c) - 1 -> 0 <= y -> y <= inject_Z (td_H c) - 1 ->
  let g := td_geom c in
  reg_term (aff_apply (tg_px g) x) x (td_si c) (tg_eff g) <= reg_closed (td_si c) (tg_eff g) (td_W c) /\
  reg_term (aff_apply (tg_py g) y) y (td_si c) (tg_eff g) <= reg_closed (td_si c) (tg_eff g) (td_H c) /\
  reg_term (aff_apply (fst (tg_cx g)) x) x (td_sc c) (tg_eff g) <= reg_closed (td_sc c) (tg_eff g) (td_W c) /\
  reg_term (aff_apply (fst (tg_cy g)) y) y (td_sc c) (tg_eff g) <= reg_closed (td_sc c) (tg_eff g) (td_H c).
Proof. exact td_reg_closed. Qed.
Print Assumptions c02_registration_closed_topdown.

(* clause 1 for the model with nothing about the answer assumed and no uninterpreted term: a visible keypoint inside
   the image and inside the band of the grid IS returned, within half a cell + reg_closed original pixels; every
   H, W, max_height, max_width, scale, max_stride, output stride; every provider whose frames are preprocessed
   (current tree: both) *)
Theorem c02_single_visible_returned_within_closed : forall c pv x y,
  si_cfg_ok c -> preprocess_flag (si_fixed_F8 c) pv = true ->
  (0 < si_os c)%Z -> 0 < si_sigma c -> (0 < si_ncx c pv)%Z -> (0 < si_ncy c pv)%Z ->
  (si_thr0 c = true \/ si_lthr c <= arg_floor (si_sigma c)) ->
  0 <= x -> x <= inject_Z (si_W c) - 1 -> 0 <= y -> y <= inject_Z (si_H c) - 1 ->
  in_band (si_ux c pv x) (si_os c) (si_ncx c pv) ->
  in_band (si_uy c pv y) (si_os c) (si_ncy c pv) ->
  exists px py a, si_kp c pv (Some (x, y)) = (Some (px, py), Some a) /\
    Qabs (px - x) <= half_cell (si_os c) (si_scale c) (si_eff c) + reg_closed (si_scale c) (si_eff c) (si_W c) /\
    Qabs (py - y) <= half_cell (si_os c) (si_scale c) (si_eff c) + reg_closed (si_scale c) (si_eff c) (si_H c).
Proof. exact si_kp_closed. Qed.
Print Assumptions c02_single_visible_returned_within_closed.

(* ---- 3. the keypoint lies inside its crop (one axis; `crop` = td_cw for x, td_ch for y): the centroid cell is
   within half a centroid cell of the centroid's content position; a keypoint whose distance from the centroid + both
   registration terms + half a centroid cell (original pixels) fits into half the crop less half an instance cell is in
   the band of the crop's grid, stride padding of the crop included.  Uses td_topleft (make_centered_bboxes). *)
Theorem c02_keypoint_inside_its_crop : forall (cell osc osi crop msi : Z) (sc si eff x cx : Q) (mp mc : aff),
  (0 < osi)%Z -> (0 <= crop)%Z -> 0 < sc -> 0 < si -> 0 < eff ->
  Qabs (inject_Z cell * inject_Z osc - aff_apply mc cx) <= inject_Z osc / 2 ->
  Qabs (x - cx) + reg_term (aff_apply mp x) x si eff + reg_term (aff_apply mc cx) cx sc eff + half_cell osc sc eff
    <= ((inject_Z crop - 1 - inject_Z osi) / 2) / (si * eff) ->
  in_band (aff_apply mp x - td_topleft cell osc sc si crop) osi (ncells (pad_to_stride crop msi) osi).
Proof. exact kp_inside_crop. Qed.
Print Assumptions c02_keypoint_inside_its_crop.

(* ---- 4. clause 4 end to end for one animal, hypotheses on the input only *)
Theorem c02_topdown_animal_end_to_end : forall c an,
  td_cfg_ok c -> (0 < td_osc c)%Z -> (0 < td_osi c)%Z -> 0 < td_sigma c ->
  (0 <= td_cw c)%Z -> (0 <= td_ch c)%Z ->
  let g := td_geom c in
  (0 < ncells (snd (tg_cx g)) (td_osc c))%Z -> (0 < ncells (snd (tg_cy g)) (td_osc c))%Z ->
  (0 < ncells (tg_nix g) (td_osi c))%Z -> (0 < ncells (tg_niy g) (td_osi c))%Z ->
  (td_thr0 c = true \/ td_lthr c < arg_floor (td_sigma c)) ->
  0 <= fst (an_cent an) -> fst (an_cent an) <= inject_Z (td_W c) - 1 ->
  0 <= snd (an_cent an) -> snd (an_cent an) <= inject_Z (td_H c) - 1 ->
  in_band (aff_apply (fst (tg_cx g)) (fst (an_cent an))) (td_osc c) (ncells (snd (tg_cx g)) (td_osc c)) ->
  in_band (aff_apply (fst (tg_cy g)) (snd (an_cent an))) (td_osc c) (ncells (snd (tg_cy g)) (td_osc c)) ->
  is_tie (aff_apply (fst (tg_cx g)) (fst (an_cent an))) (td_osc c) (ncells (snd (tg_cx g)) (td_osc c)) = false ->
  is_tie (aff_apply (fst (tg_cy g)) (snd (an_cent an))) (td_osc c) (ncells (snd (tg_cy g)) (td_osc c)) = false ->
  exists inst, td_instance c an = Some inst /\ length (ti_pts inst) = length (an_kps an) /\
    forall k x y, nth_error (an_kps an) k = Some (Some (x, y)) ->
      0 <= x -> x <= inject_Z (td_W c) - 1 -> 0 <= y -> y <= inject_Z (td_H c) - 1 ->
      Qabs (x - fst (an_cent an)) + reg_closed (td_si c) (tg_eff g) (td_W c) + reg_closed (td_sc c) (tg_eff g) (td_W c)
        + half_cell (td_osc c) (td_sc c) (tg_eff g) <= crop_room (td_cw c) (td_osi c) (td_si c) (tg_eff g) ->
      Qabs (y - snd (an_cent an)) + reg_closed (td_si c) (tg_eff g) (td_H c) + reg_closed (td_sc c) (tg_eff g) (td_H c)
        + half_cell (td_osc c) (td_sc c) (tg_eff g) <= crop_room (td_ch c) (td_osi c) (td_si c) (tg_eff g) ->
      exists px py a, nth_error (ti_pts inst) k = Some (Some (px, py), Some a) /\
        Qabs (px - x) <= half_cell (td_osi c) (td_si c) (tg_eff g) + reg_closed (td_si c) (tg_eff g) (td_W c) /\
        Qabs (py - y) <= half_cell (td_osi c) (td_si c) (tg_eff g) + reg_closed (td_si c) (tg_eff g) (td_H c).
Proof. exact td_animal_end_to_end. Qed.
Print Assumptions c02_topdown_animal_end_to_end.

(* ---- non-vacuity of the round-4 theorems: all hypotheses are discharged on concrete configurations *)
Ltac le_c := vm_compute; discriminate.
Example ex_single_closed :
  exists px py a, si_kp wit_f8 VideoReader (Some (40, 24)) = (Some (px, py), Some a) /\
    Qabs (px - 40) <= half_cell (si_os wit_f8) (si_scale wit_f8) (si_eff wit_f8)
                      + reg_closed (si_scale wit_f8) (si_eff wit_f8) (si_W wit_f8) /\
    reg_closed (si_scale wit_f8) (si_eff wit_f8) (si_W wit_f8) == 773 # 256.
Proof.
  destruct (c02_single_visible_returned_within_closed wit_f8 VideoReader 40 24) as [px [py [a [E [Bx _]]]]].
  - repeat split; try (vm_compute; reflexivity); intros v Hv; discriminate.
  - reflexivity.
  - reflexivity.
  - reflexivity.
  - reflexivity.
  - reflexivity.
  - right. le_c.
  - le_c.
  - le_c.
  - le_c.
  - le_c.
  - split; le_c.
  - split; le_c.
  - exists px, py, a. split; [exact E|]. split; [exact Bx|]. vm_compute. reflexivity.
Qed.

Example ex_topdown_end_to_end :
  exists inst, td_instance wit_td wit_animal = Some inst /\
    exists px py a, nth_error (ti_pts inst) 0 = Some (Some (px, py), Some a) /\
      Qabs (px - 40) <= half_cell (td_osi wit_td) (td_si wit_td) (tg_eff (td_geom wit_td))
                        + reg_closed (td_si wit_td) (tg_eff (td_geom wit_td)) (td_W wit_td).
Proof.
  destruct (c02_topdown_animal_end_to_end wit_td wit_animal) as [inst [E [_ Hk]]].
  - repeat split; try (vm_compute; reflexivity); intros v Hv; inversion Hv; subst; reflexivity.
  - reflexivity.
  - reflexivity.
  - reflexivity.
  - le_c.
  - le_c.
  - reflexivity.
  - reflexivity.
  - reflexivity.
  - reflexivity.
  - right. vm_compute. reflexivity.
  - le_c.
  - le_c.
  - le_c.
  - le_c.
  - split; le_c.
  - split; le_c.
  - vm_compute. reflexivity.
  - vm_compute. reflexivity.
  - exists inst. split; [exact E|].
    destruct (Hk 0%nat 40 24) as [px [py [a [Ep [Bx _]]]]].
    + reflexivity.
    + le_c.
    + le_c.
    + le_c.
    + le_c.
    + le_c.
    + le_c.
    + exists px, py, a. split; [exact Ep|exact Bx].
Qed.

(* the repaired ground-truth-centroid branch (current tree) meets the hypotheses of c02_topdown_gt_centroids_fixed *)
Example ex_gt_centroids_fixed :
  exists tl pts ms, td_gt_instance true wit_gt [Some (30, 24); Some (36, 30)] = Some (tl, pts, ms) /\
    (exists px py a, nth_error pts 0 = Some (Some (px, py), Some a) /\ px == 30 /\ py == 24) /\
    in_band (aff_apply (tg_px (td_geom wit_gt)) 30 - fst tl) (td_osi wit_gt) (ncells (tg_nix (td_geom wit_gt)) (td_osi wit_gt)).
Proof.
  eexists. eexists. eexists. split; [vm_compute; reflexivity|].
  split; [eexists; eexists; eexists; split; [vm_compute; reflexivity|split; vm_compute; reflexivity]|split; vm_compute; discriminate].
Qed.

(* F02z: threshold 0 — visible keypoints are unaffected (the witness of ex_single_witness), the repaired
   variant answers NaN / 0 *)
Example ex_zero_threshold :
  (exists px py a, si_kp wit_thr0 VideoReader (Some (40, 24)) = (Some (px, py), Some a) /\ px == 40 /\ py == 24) /\
  si_kp {| si_H := 64; si_W := 64; si_mh := None; si_mw := None; si_scale := 1; si_ms := 1; si_os := 2;
           si_sigma := 3 # 2; si_lthr := 0; si_fixed_F8 := true; si_thr0 := true; si_fixed_Fz := true |}
        VideoReader None = (None, None).
Proof.
  split; [|reflexivity].
  eexists. eexists. eexists. split; [vm_compute; reflexivity|split; vm_compute; reflexivity].
Qed.

(* ---- instances of one single-instance frame (SingleInstancePredictor._make_labeled_frames_from_generator).  C02's
   clauses are about keypoints; how many instances carry them: exactly ONE whenever any keypoint is returned, in
   both variants of the tree (before / after fix 8463f22 of C12's finding F62) *)
Theorem c02_single_frame_one_instance : forall fixed integral pts k p a,
  nth_error pts k = Some (Some p, Some a) -> si_frame_instances fixed integral pts = [pts].
Proof. exact si_frame_one_instance. Qed.
Print Assumptions c02_single_frame_one_instance.

(* `_def`: a frame whose row is all NaN — no instance after the fix, one all-NaN instance before (either satisfies C02) *)
Theorem c02_single_frame_no_detection : forall integral pts, forallb (row_is_nan integral) pts = true ->
  si_frame_instances true integral pts = [] /\ si_frame_instances false integral pts = [pts].
Proof. exact si_frame_no_detection. Qed.
Print Assumptions c02_single_frame_no_detection.
