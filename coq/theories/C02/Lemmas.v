(* Lemmas.v (C02) — proofs about C02/Decode.v. *)
From Coq Require Import List ZArith QArith Qround Qabs Qminmax Bool Lia Lqa Psatz Permutation.
Import ListNotations.
From SV Require Import C02.Decode.
Open Scope Q_scope.

Definition in_band (u : Q) (os n : Z) : Prop :=
  - (inject_Z os / 2) <= u /\ u <= inject_Z (n - 1) * inject_Z os + inject_Z os / 2.

Lemma inject_Z_sub1 : forall n, inject_Z (n - 1) == inject_Z n - 1.
Proof. intros. unfold Z.sub. rewrite inject_Z_plus. unfold inject_Z at 2. unfold Qminus, Qeq; simpl. lia. Qed.

Lemma nearest_cell_half : forall u os n, (0 < os)%Z -> (0 < n)%Z -> in_band u os n ->
  Qabs (inject_Z (nearest_cell u os n) * inject_Z os - u) <= inject_Z os / 2.
Proof.
  intros u os n Hos Hn [Hlo Hhi].
  assert (Ho : 0 < inject_Z os) by (change 0 with (inject_Z 0); rewrite <- Zlt_Qlt; lia).
  set (o := inject_Z os) in *.
  unfold nearest_cell. fold o.
  set (t := u / o - (1 # 2)).
  assert (Hu : u == (t + (1 # 2)) * o) by (unfold t; field; lra).
  pose proof (Qle_ceiling t) as H2. pose proof (Qceiling_lt t) as H1.
  set (k := Qceiling t) in *. clearbody k. rewrite inject_Z_sub1 in H1.
  clearbody t. clearbody o.
  rewrite inject_Z_sub1 in Hhi.
  assert (A2 : u <= inject_Z k * o + o / 2).
  { rewrite Hu. setoid_replace (inject_Z k * o + o / 2) with ((inject_Z k + (1 # 2)) * o) by field.
    apply Qmult_le_compat_r; lra. }
  assert (A1 : inject_Z k * o - o / 2 < u).
  { rewrite Hu. setoid_replace (inject_Z k * o - o / 2) with ((inject_Z k - (1 # 2)) * o) by field.
    apply Qmult_lt_compat_r; lra. }
  assert (Hhi' : u <= inject_Z n * o - o / 2).
  { setoid_replace (inject_Z n * o - o / 2) with ((inject_Z n - 1) * o + o / 2) by field. exact Hhi. }
  clear Hu H1 H2 Hhi.
  apply Qabs_Qle_condition.
  destruct (Z_lt_le_dec k 0) as [Hk|Hk].
  - assert (Hr : Z.max 0 (Z.min (n - 1) k) = 0%Z) by (clear - Hk Hn; lia). rewrite Hr.
    assert (Hk1 : inject_Z k <= -1).
    { change (-1) with (inject_Z (-1)). rewrite <- Zle_Qle. lia. }
    assert (Hp : inject_Z k * o <= -1 * o) by (apply Qmult_le_compat_r; lra).
    change (inject_Z 0) with 0. split; lra.
  - destruct (Z_le_gt_dec k (n - 1)) as [Hk2|Hk2].
    + assert (Hr : Z.max 0 (Z.min (n - 1) k) = k) by (clear - Hk Hk2 Hn; lia). rewrite Hr.
      split; lra.
    + exfalso.
      assert (Hnk : inject_Z n <= inject_Z k) by (rewrite <- Zle_Qle; lia).
      assert (Hp : inject_Z n * o <= inject_Z k * o) by (apply Qmult_le_compat_r; lra).
      lra.
Qed.

(* ------------------------------------------------------------------ decode algebra *)
Definition half_cell (os : Z) (s eff : Q) : Q := inject_Z os / (2 * s * eff).
Definition reg_term (u x s eff : Q) : Q := Qabs (u - s * eff * x) / (s * eff).

Lemma decode_bound_gen : forall (c os : Z) (u x s eff : Q),
  0 < s -> 0 < eff ->
  Qabs (inject_Z c * inject_Z os - u) <= inject_Z os / 2 ->
  Qabs (inject_Z c * inject_Z os / s / eff - x) <= half_cell os s eff + reg_term u x s eff.
Proof.
  intros c os u x s eff Hs He Hc. unfold half_cell, reg_term.
  assert (Hse : 0 < s * eff) by (apply Qmult_lt_0_compat; assumption).
  set (k := / (s * eff)).
  assert (Hk : 0 < k) by (apply Qinv_lt_0_compat; exact Hse).
  setoid_replace (inject_Z c * inject_Z os / s / eff - x)
    with ((inject_Z c * inject_Z os - u) * k + (u - s * eff * x) * k) by (unfold k; field; split; lra).
  eapply Qle_trans; [apply Qabs_triangle|].
  rewrite !Qabs_Qmult. rewrite (Qabs_pos k) by lra.
  setoid_replace (inject_Z os / (2 * s * eff)) with (inject_Z os / 2 * k) by (unfold k; field; split; lra).
  unfold Qdiv at 2. fold k.
  apply Qplus_le_compat; [|apply Qle_refl].
  apply Qmult_le_compat_r; [exact Hc|lra].
Qed.

Lemma si_decode_eq : forall c os s eff, 0 < s -> 0 < eff ->
  si_decode c os s eff == inject_Z c * inject_Z os / s / eff.
Proof.
  intros. unfold si_decode. destruct (Qeq_bool s 1) eqn:E.
  - apply Qeq_bool_iff in E. rewrite E. field. lra.
  - reflexivity.
Qed.

Lemma td_decode_eq : forall c osi si eff tl, 0 < si -> 0 < eff ->
  td_decode c osi si eff tl == (inject_Z c * inject_Z osi + tl) / si / eff.
Proof.
  intros. unfold td_decode. destruct (Qeq_bool si 1) eqn:E.
  - apply Qeq_bool_iff in E. rewrite E. field. lra.
  - field. split; lra.
Qed.

(* the top-left corner cancels: the instance-stage error does not depend on it *)
Lemma td_decode_bound_gen : forall (c os : Z) (w x s eff tl : Q),
  0 < s -> 0 < eff ->
  Qabs (inject_Z c * inject_Z os - (w - tl)) <= inject_Z os / 2 ->
  Qabs ((inject_Z c * inject_Z os + tl) / s / eff - x) <= half_cell os s eff + reg_term w x s eff.
Proof.
  intros c os w x s eff tl Hs He Hc. unfold half_cell, reg_term.
  assert (Hse : 0 < s * eff) by (apply Qmult_lt_0_compat; assumption).
  set (k := / (s * eff)).
  assert (Hk : 0 < k) by (apply Qinv_lt_0_compat; exact Hse).
  setoid_replace ((inject_Z c * inject_Z os + tl) / s / eff - x)
    with ((inject_Z c * inject_Z os - (w - tl)) * k + (w - s * eff * x) * k) by (unfold k; field; split; lra).
  eapply Qle_trans; [apply Qabs_triangle|].
  rewrite !Qabs_Qmult. rewrite (Qabs_pos k) by lra.
  setoid_replace (inject_Z os / (2 * s * eff)) with (inject_Z os / 2 * k) by (unfold k; field; split; lra).
  unfold Qdiv at 2. fold k.
  apply Qplus_le_compat; [|apply Qle_refl].
  apply Qmult_le_compat_r; [exact Hc|lra].
Qed.

(* ------------------------------------------------------------------ single instance *)
Definition si_gx c pv := fst (fst (si_geom c pv)).
Definition si_gy c pv := snd (fst (si_geom c pv)).
Definition si_eff c := sm_eff (sizematch (si_H c) (si_W c) (si_mh c) (si_mw c)).
Definition si_ux c pv x := aff_apply (fst (si_gx c pv)) x.   (* where the content of x sits in the network input *)
Definition si_uy c pv y := aff_apply (fst (si_gy c pv)) y.
Definition si_ncx c pv := ncells (snd (si_gx c pv)) (si_os c).
Definition si_ncy c pv := ncells (snd (si_gy c pv)) (si_os c).

(* invisible keypoint = all-zero channel: NaN / 0 exactly when the threshold is positive or the
   repair of F02z is in (zero_map_answer) *)
Definition thr_masks_zero (thr0 fixed : bool) : Prop := thr0 = false \/ fixed = true.

Lemma zero_map_answer_nan : forall thr0 fixed o, thr_masks_zero thr0 fixed -> zero_map_answer thr0 fixed o = (None, None).
Proof. intros thr0 fixed o [H|H]; subst; unfold zero_map_answer; [reflexivity|]. destruct thr0; reflexivity. Qed.

Lemma zero_map_answer_origin : forall o, zero_map_answer true false o = (Some o, None).
Proof. reflexivity. Qed.

Lemma si_kp_invisible : forall c pv, thr_masks_zero (si_thr0 c) (si_fixed_Fz c) -> si_kp c pv None = (None, None).
Proof. intros. unfold si_kp. apply zero_map_answer_nan. assumption. Qed.

Lemma si_run_invisible : forall c pv kps k, thr_masks_zero (si_thr0 c) (si_fixed_Fz c) ->
  nth_error kps k = Some None -> nth_error (si_run c pv kps) k = Some (None, None).
Proof.
  intros c pv kps k Hz H. unfold si_run. rewrite (map_nth_error (si_kp c pv) _ _ H).
  rewrite si_kp_invisible by assumption. reflexivity.
Qed.

Lemma si_run_nth : forall c pv kps k p,
  nth_error kps k = Some p -> nth_error (si_run c pv kps) k = Some (si_kp c pv p).
Proof. intros. unfold si_run. apply (map_nth_error (si_kp c pv) _ _ H). Qed.

Theorem si_kp_within : forall c pv x y px py a,
  (0 < si_os c)%Z -> 0 < si_scale c -> 0 < si_eff c ->
  (0 < si_ncx c pv)%Z -> (0 < si_ncy c pv)%Z ->
  si_kp c pv (Some (x, y)) = (Some (px, py), Some a) ->
  in_band (si_ux c pv x) (si_os c) (si_ncx c pv) ->
  in_band (si_uy c pv y) (si_os c) (si_ncy c pv) ->
  Qabs (px - x) <= half_cell (si_os c) (si_scale c) (si_eff c)
                   + reg_term (si_ux c pv x) x (si_scale c) (si_eff c) /\
  Qabs (py - y) <= half_cell (si_os c) (si_scale c) (si_eff c)
                   + reg_term (si_uy c pv y) y (si_scale c) (si_eff c).
Proof.
  intros c pv x y px py a Hos Hs He Hnx Hny Hk Bx By.
  unfold si_ux, si_uy, si_ncx, si_ncy, si_gx, si_gy in *.
  unfold si_kp in Hk.
  assert (Heff : snd (si_geom c pv) = si_eff c) by reflexivity.
  destruct (si_geom c pv) as [[gx gy] eff] eqn:G. cbn [fst snd] in *. subst eff.
  destruct (above_global (si_thr0 c) (si_lthr c) _); [|discriminate].
  inversion Hk; subst; clear Hk.
  split.
  - rewrite si_decode_eq by assumption. apply decode_bound_gen; try assumption.
    apply nearest_cell_half; assumption.
  - rewrite si_decode_eq by assumption. apply decode_bound_gen; try assumption.
    apply nearest_cell_half; assumption.
Qed.

(* no size matching, scale 1, preprocessing on: the content map is the identity,
   so the registration term vanishes and the bound is the property's half cell *)
Lemma sizematch_none : forall H W,
  sizematch H W None None =
  {| sm_h := H; sm_w := W; sm_th := H; sm_tw := W; sm_eff := 1; sm_resized := false |}.
Proof. intros. unfold sizematch. rewrite !Z.eqb_refl. reflexivity. Qed.

Lemma reg_term_zero : forall x s eff u, u == s * eff * x -> reg_term u x s eff == 0.
Proof.
  intros. unfold reg_term. setoid_replace (u - s * eff * x) with 0 by (rewrite H; ring).
  reflexivity.
Qed.

Theorem si_plain_half_cell : forall c pv x y px py a,
  si_mh c = None -> si_mw c = None -> si_scale c = 1 -> preprocess_flag (si_fixed_F8 c) pv = true ->
  (0 < si_os c)%Z -> (0 < si_ncx c pv)%Z -> (0 < si_ncy c pv)%Z ->
  si_kp c pv (Some (x, y)) = (Some (px, py), Some a) ->
  in_band x (si_os c) (si_ncx c pv) -> in_band y (si_os c) (si_ncy c pv) ->
  Qabs (px - x) <= inject_Z (si_os c) / 2 /\ Qabs (py - y) <= inject_Z (si_os c) / 2.
Proof.
  intros c pv x y px py a Hmh Hmw Hsc Hpre Hos Hnx Hny Hk Bx By.
  assert (Hux : si_ux c pv x == x).
  { unfold si_ux, si_gx, si_geom. rewrite Hmh, Hmw, sizematch_none, Hpre, Hsc. simpl.
    unfold aff_apply; simpl. ring. }
  assert (Huy : si_uy c pv y == y).
  { unfold si_uy, si_gy, si_geom. rewrite Hmh, Hmw, sizematch_none, Hpre, Hsc. simpl.
    unfold aff_apply; simpl. ring. }
  assert (Heff : si_eff c = 1) by (unfold si_eff; rewrite Hmh, Hmw, sizematch_none; reflexivity).
  destruct (si_kp_within c pv x y px py a) as [Ex Ey]; try assumption.
  - rewrite Hsc. reflexivity.
  - rewrite Heff. reflexivity.
  - unfold in_band in *. rewrite Hux. exact Bx.
  - unfold in_band in *. rewrite Huy. exact By.
  - rewrite Heff, Hsc in Ex, Ey.
    rewrite reg_term_zero in Ex by (rewrite Hux; ring).
    rewrite reg_term_zero in Ey by (rewrite Huy; ring).
    unfold half_cell in *.
    split; [eapply Qle_trans; [exact Ex|]|eapply Qle_trans; [exact Ey|]];
      (setoid_replace (inject_Z (si_os c) / (2 * 1 * 1) + 0) with (inject_Z (si_os c) / 2) by field; apply Qle_refl).
Qed.

(* ------------------------------------------------------------------ the registration term of a resize step (F11) *)
Lemma resize_map_reg : forall n m x, (0 < n)%Z ->
  aff_apply (resize_map n m) x - (inject_Z m / inject_Z n) * x == (inject_Z m / inject_Z n - 1) / 2.
Proof.
  intros n m x Hn. unfold aff_apply, resize_map. cbn [fst snd].
  assert (0 < inject_Z n) by (change 0 with (inject_Z 0); rewrite <- Zlt_Qlt; lia).
  field. lra.
Qed.

Lemma si_ux_resize_exact : forall c pv x,
  si_mh c = None -> si_mw c = None -> preprocess_flag (si_fixed_F8 c) pv = true ->
  Qeq_bool (si_scale c) 1 = false -> (0 < si_W c)%Z ->
  inject_Z (resize_dim (si_W c) (si_scale c)) == inject_Z (si_W c) * si_scale c ->
  si_ux c pv x == si_scale c * x + (si_scale c - 1) / 2.
Proof.
  intros c pv x Hmh Hmw Hpre Hs HW Hex.
  unfold si_ux, si_gx, si_geom. rewrite Hmh, Hmw, sizematch_none, Hpre.
  cbn [sm_w sm_h sm_tw sm_th sm_resized sm_eff fst snd]. unfold si_axis_geom, sm_map. rewrite Hs.
  cbn [fst snd]. unfold aff_apply, aff_then, aff_id, resize_map. cbn [fst snd].
  assert (0 < inject_Z (si_W c)) by (change 0 with (inject_Z 0); rewrite <- Zlt_Qlt; lia).
  rewrite Hex. field. lra.
Qed.

(* ------------------------------------------------------------------ provider independence (F8) *)
Theorem provider_independence_fixed : forall c kps,
  si_fixed_F8 c = true -> si_run c LabelsReader kps = si_run c VideoReader kps.
Proof.
  intros c kps H. unfold si_run. apply map_ext. intro p.
  unfold si_kp, si_geom, preprocess_flag. rewrite H. reflexivity.
Qed.

Theorem provider_independence_partial : forall c kps,
  Qeq_bool (si_scale c) 1 = true ->
  (let g := sizematch (si_H c) (si_W c) (si_mh c) (si_mw c) in
   pad_to_stride (sm_w g) (si_ms c) = sm_w g /\ pad_to_stride (sm_h g) (si_ms c) = sm_h g) ->
  si_run c LabelsReader kps = si_run c VideoReader kps.
Proof.
  intros c kps Hs [Hw Hh]. unfold si_run. apply map_ext. intro p.
  assert (G : si_geom c LabelsReader = si_geom c VideoReader).
  { unfold si_geom, preprocess_flag. destruct (si_fixed_F8 c); [reflexivity|].
    unfold si_axis_geom. rewrite Hs, Hw, Hh. reflexivity. }
  unfold si_kp. rewrite G. reflexivity.
Qed.

Definition wit_f8 : si_cfg :=
  {| si_H := 64; si_W := 64; si_mh := None; si_mw := None; si_scale := 1 # 2; si_ms := 16; si_os := 2;
     si_sigma := 3 # 2; si_lthr := - (1609438 # 1000000); si_fixed_F8 := false; si_thr0 := false; si_fixed_Fz := false |}.

Theorem provider_independence_refuted :
  exists c x y xl yl al xv yv av,
    si_fixed_F8 c = false /\
    si_kp c LabelsReader (Some (x, y)) = (Some (xl, yl), Some al) /\
    si_kp c VideoReader (Some (x, y)) = (Some (xv, yv), Some av) /\
    xv == x /\ yv == y /\ xl == 2 * x /\ yl == 2 * y.
Proof.
  exists wit_f8, 40, 24.
  eexists. eexists. eexists. eexists. eexists. eexists.
  split; [reflexivity|].
  split; [vm_compute; reflexivity|].
  split; [vm_compute; reflexivity|].
  repeat split; vm_compute; reflexivity.
Qed.

(* ------------------------------------------------------------------ refutations of the plain half-cell bound *)
Definition wit_f10 : si_cfg :=
  {| si_H := 64; si_W := 64; si_mh := None; si_mw := None; si_scale := 1; si_ms := 1; si_os := 4;
     si_sigma := 3 # 2; si_lthr := - (1609438 # 1000000); si_fixed_F8 := false; si_thr0 := false; si_fixed_Fz := false |}.

(* F10: without the band hypothesis si_plain_half_cell fails *)
Theorem last_half_cell_band_refuted :
  exists c pv x y px py a,
    si_mh c = None /\ si_mw c = None /\ si_scale c = 1 /\ preprocess_flag (si_fixed_F8 c) pv = true /\
    0 <= x /\ x <= inject_Z (si_W c) - 1 /\
    si_kp c pv (Some (x, y)) = (Some (px, py), Some a) /\
    ~ Qabs (px - x) <= inject_Z (si_os c) / 2.
Proof.
  exists wit_f10, VideoReader, (503 # 8), 24. eexists. eexists. eexists.
  split; [reflexivity|]. split; [reflexivity|]. split; [reflexivity|]. split; [reflexivity|].
  split; [vm_compute; discriminate|]. split; [vm_compute; discriminate|].
  split; [vm_compute; reflexivity|].
  vm_compute. intro H. apply H. reflexivity.
Qed.

Definition wit_f11 : si_cfg :=
  {| si_H := 64; si_W := 64; si_mh := None; si_mw := None; si_scale := 1 # 2; si_ms := 1; si_os := 1;
     si_sigma := 3 # 2; si_lthr := - (1609438 # 1000000); si_fixed_F8 := false; si_thr0 := false; si_fixed_Fz := false |}.

(* F11: with a resize step the error can exceed the half cell although the
   keypoint is inside the band and in general position *)
Theorem half_cell_refuted_by_resize :
  exists c x y px py a,
    si_kp c VideoReader (Some (x, y)) = (Some (px, py), Some a) /\
    in_band (si_ux c VideoReader x) (si_os c) (si_ncx c VideoReader) /\
    (1 # 16) <= tie_margin (si_ux c VideoReader x) (si_os c) /\
    ~ Qabs (px - x) <= half_cell (si_os c) (si_scale c) (si_eff c) /\
    Qabs (px - x) <= half_cell (si_os c) (si_scale c) (si_eff c)
                     + reg_term (si_ux c VideoReader x) x (si_scale c) (si_eff c).
Proof.
  exists wit_f11, (315 # 8), 24. eexists. eexists. eexists.
  split; [vm_compute; reflexivity|].
  split; [split; vm_compute; discriminate|].
  split; [vm_compute; discriminate|].
  split; [vm_compute; intro H; apply H; reflexivity|].
  vm_compute; discriminate.
Qed.

(* ------------------------------------------------------------------ top-down *)
Lemma td_kp_invisible : forall c g tlx tly, thr_masks_zero (td_thr0 c) (td_fixed_Fz c) ->
  td_kp c g tlx tly None = (None, None).
Proof. intros. unfold td_kp. apply zero_map_answer_nan. assumption. Qed.

(* The instance-stage bound holds for EVERY crop corner (tlx, tly): whatever
   cell the centroid stage picked (quantisation, refinement, even a wrong
   peak), the corner is re-added exactly, so only the instance-stage half cell
   and the registration of the pre-crop image remain. *)
Theorem td_kp_within : forall c g tlx tly x y px py a,
  (0 < td_osi c)%Z -> 0 < td_si c -> 0 < tg_eff g ->
  (0 < ncells (tg_nix g) (td_osi c))%Z -> (0 < ncells (tg_niy g) (td_osi c))%Z ->
  td_kp c g tlx tly (Some (x, y)) = (Some (px, py), Some a) ->
  in_band (aff_apply (tg_px g) x - tlx) (td_osi c) (ncells (tg_nix g) (td_osi c)) ->
  in_band (aff_apply (tg_py g) y - tly) (td_osi c) (ncells (tg_niy g) (td_osi c)) ->
  Qabs (px - x) <= half_cell (td_osi c) (td_si c) (tg_eff g)
                   + reg_term (aff_apply (tg_px g) x) x (td_si c) (tg_eff g) /\
  Qabs (py - y) <= half_cell (td_osi c) (td_si c) (tg_eff g)
                   + reg_term (aff_apply (tg_py g) y) y (td_si c) (tg_eff g).
Proof.
  intros c g tlx tly x y px py a Hos Hs He Hnx Hny Hk Bx By.
  unfold td_kp in Hk.
  destruct (above_global (td_thr0 c) (td_lthr c) _); [|discriminate].
  inversion Hk; subst; clear Hk.
  split.
  - rewrite td_decode_eq by assumption. apply td_decode_bound_gen; try assumption.
    apply nearest_cell_half; assumption.
  - rewrite td_decode_eq by assumption. apply td_decode_bound_gen; try assumption.
    apply nearest_cell_half; assumption.
Qed.

Lemma insert_by_perm : forall A (le : A -> A -> bool) x l, Permutation (insert_by le x l) (x :: l).
Proof.
  intros A le x l. induction l as [|y t IH]; simpl; [apply Permutation_refl|].
  destruct (le x y); [apply Permutation_refl|].
  eapply Permutation_trans; [apply perm_skip; exact IH|apply perm_swap].
Qed.

Lemma sort_by_perm : forall A (le : A -> A -> bool) l, Permutation (sort_by le l) l.
Proof.
  intros A le l. induction l as [|x t IH]; simpl; [apply Permutation_refl|].
  eapply Permutation_trans; [apply insert_by_perm|apply perm_skip; exact IH].
Qed.

Lemma somes_In : forall A (l : list (option A)) x, In x (somes l) <-> In (Some x) l.
Proof.
  intros A l x. induction l as [|[a|] t IH]; simpl.
  - tauto.
  - rewrite IH. split; intros [H|H]; auto; [left; congruence|left; congruence].
  - rewrite IH. split; [auto|intros [H|H]; [discriminate|auto]].
Qed.

Theorem td_frame_sound : forall c ans inst,
  In inst (td_frame c ans) -> exists an, In an ans /\ td_instance c an = Some inst.
Proof.
  intros c ans inst H. unfold td_frame in H.
  apply (Permutation_in _ (sort_by_perm _ _ _)) in H.
  apply somes_In in H. apply in_map_iff in H. destruct H as [an [E I]]. eauto.
Qed.

Theorem td_frame_complete : forall c ans an inst,
  In an ans -> td_instance c an = Some inst -> In inst (td_frame c ans).
Proof.
  intros c ans an inst I E. unfold td_frame.
  apply (Permutation_in _ (Permutation_sym (sort_by_perm _ _ _))).
  apply somes_In. apply in_map_iff. eauto.
Qed.

Lemma somes_length : forall A (l : list (option A)), (length (somes l) <= length l)%nat.
Proof. intros A l. induction l as [|[a|] t IH]; simpl; lia. Qed.

Theorem td_frame_count : forall c ans, (length (td_frame c ans) <= length ans)%nat.
Proof.
  intros. unfold td_frame. rewrite (Permutation_length (sort_by_perm _ _ _)).
  eapply Nat.le_trans; [apply somes_length|]. rewrite map_length. lia.
Qed.

Theorem td_frame_empty : forall c, td_frame c [] = [].
Proof. reflexivity. Qed.

(* end to end for one frame: every instance returned comes from one animal;
   its invisible keypoints are NaN/0 and its visible ones obey the bound *)
Theorem td_frame_within : forall c ans inst,
  (0 < td_osi c)%Z -> 0 < td_si c -> 0 < tg_eff (td_geom c) ->
  (0 < ncells (tg_nix (td_geom c)) (td_osi c))%Z -> (0 < ncells (tg_niy (td_geom c)) (td_osi c))%Z ->
  In inst (td_frame c ans) ->
  exists an, In an ans /\
    length (ti_pts inst) = length (an_kps an) /\
    (forall k, thr_masks_zero (td_thr0 c) (td_fixed_Fz c) ->
       nth_error (an_kps an) k = Some None -> nth_error (ti_pts inst) k = Some (None, None)) /\
    (forall k x y px py a,
       nth_error (an_kps an) k = Some (Some (x, y)) ->
       nth_error (ti_pts inst) k = Some (Some (px, py), Some a) ->
       in_band (aff_apply (tg_px (td_geom c)) x - fst (ti_tl inst)) (td_osi c)
               (ncells (tg_nix (td_geom c)) (td_osi c)) ->
       in_band (aff_apply (tg_py (td_geom c)) y - snd (ti_tl inst)) (td_osi c)
               (ncells (tg_niy (td_geom c)) (td_osi c)) ->
       Qabs (px - x) <= half_cell (td_osi c) (td_si c) (tg_eff (td_geom c))
                        + reg_term (aff_apply (tg_px (td_geom c)) x) x (td_si c) (tg_eff (td_geom c)) /\
       Qabs (py - y) <= half_cell (td_osi c) (td_si c) (tg_eff (td_geom c))
                        + reg_term (aff_apply (tg_py (td_geom c)) y) y (td_si c) (tg_eff (td_geom c))).
Proof.
  intros c ans inst Hos Hs He Hnx Hny HI.
  destruct (td_frame_sound _ _ _ HI) as [an [Ian E]].
  exists an. split; [exact Ian|].
  unfold td_instance in E.
  destruct (td_cent_peak c (td_geom c) (an_cent an)) as [[[cx cy] a0]|]; [|discriminate].
  inversion E; subst inst; clear E. unfold td_instance_at. cbn [ti_pts ti_tl fst snd].
  split; [apply map_length|]. split.
  - intros k Hz Hk. rewrite (map_nth_error (td_kp c (td_geom c) _ _) _ _ Hk).
    rewrite td_kp_invisible by assumption. reflexivity.
  - intros k x y px py a Hk Hp Bx By.
    rewrite (map_nth_error (td_kp c (td_geom c) _ _) _ _ Hk) in Hp.
    inversion Hp as [Hp']. eapply td_kp_within; eassumption.
Qed.

(* ------------------------------------------------------------------ integer bookkeeping *)
Lemma pad_to_stride_spec : forall n ms, (0 <= n)%Z -> (1 < ms)%Z ->
  (n <= pad_to_stride n ms < n + ms)%Z /\ (pad_to_stride n ms mod ms = 0)%Z.
Proof.
  intros n ms Hn Hms. unfold pad_to_stride.
  assert (E : (1 <? ms)%Z = true) by (apply Z.ltb_lt; lia). rewrite E.
  pose proof (Z.mod_pos_bound n ms ltac:(lia)) as B.
  pose proof (Z.mod_pos_bound (ms - n mod ms) ms ltac:(lia)) as B2.
  split; [lia|].
  destruct (Z.eq_dec (n mod ms) 0) as [Z0|NZ].
  - rewrite Z0, Z.sub_0_r, Z.mod_same, Z.add_0_r by lia. exact Z0.
  - rewrite (Z.mod_small (ms - n mod ms) ms) by lia.
    replace (n + (ms - n mod ms))%Z with ((n / ms + 1) * ms)%Z
      by (pose proof (Z.div_mod n ms ltac:(lia)); lia).
    apply Z.mod_mul. lia.
Qed.

Lemma pad_to_stride_one : forall n ms, (ms <= 1)%Z -> pad_to_stride n ms = n.
Proof.
  intros. unfold pad_to_stride. assert (E : (1 <? ms)%Z = false) by (apply Z.ltb_ge; lia).
  rewrite E. reflexivity.
Qed.

Lemma resize_dim_floor : forall n s,
  inject_Z (resize_dim n s) <= inject_Z n * s /\ inject_Z n * s < inject_Z (resize_dim n s) + 1.
Proof.
  intros. unfold resize_dim. split; [apply Qfloor_le|].
  pose proof (Qlt_floor (inject_Z n * s)) as H. rewrite inject_Z_plus in H. exact H.
Qed.

Lemma sizematch_size : forall H W mh mw,
  sm_h (sizematch H W mh mw) = match mh with Some v => v | None => H end /\
  sm_w (sizematch H W mh mw) = match mw with Some v => v | None => W end.
Proof.
  intros. unfold sizematch.
  destruct ((H =? _)%Z && (W =? _)%Z) eqn:E; cbn [sm_h sm_w]; [|split; reflexivity].
  apply andb_true_iff in E. destruct E as [E1 E2].
  apply Z.eqb_eq in E1. apply Z.eqb_eq in E2. split; assumption.
Qed.

Lemma sizematch_eff_pos : forall H W mh mw,
  (0 < H)%Z -> (0 < W)%Z ->
  (forall v, mh = Some v -> (0 < v)%Z) -> (forall v, mw = Some v -> (0 < v)%Z) ->
  0 < sm_eff (sizematch H W mh mw).
Proof.
  intros H W mh mw HH HW Hmh Hmw. unfold sizematch.
  destruct ((H =? _)%Z && (W =? _)%Z); cbn [sm_eff]; [reflexivity|].
  assert (P : forall a b : Z, (0 < a)%Z -> (0 < b)%Z -> 0 < inject_Z a / inject_Z b).
  { intros a b Ha Hb. apply Qlt_shift_div_l.
    - change 0 with (inject_Z 0). rewrite <- Zlt_Qlt. exact Hb.
    - rewrite Qmult_0_l. change 0 with (inject_Z 0). rewrite <- Zlt_Qlt. exact Ha. }
  assert (0 < match mh with Some v => v | None => H end)%Z by (destruct mh; [apply Hmh; reflexivity|exact HH]).
  assert (0 < match mw with Some v => v | None => W end)%Z by (destruct mw; [apply Hmw; reflexivity|exact HW]).
  destruct (Qle_bool _ _); apply P; assumption.
Qed.


(* ------------------------------------------------------------------ ground-truth centroids (F7) *)
Theorem td_gt_fixed_within : forall c kps tl pts ms k x y px py a,
  (0 < td_osi c)%Z -> 0 < td_si c -> 0 < tg_eff (td_geom c) ->
  (0 < ncells (tg_nix (td_geom c)) (td_osi c))%Z -> (0 < ncells (tg_niy (td_geom c)) (td_osi c))%Z ->
  td_gt_instance true c kps = Some (tl, pts, ms) ->
  nth_error kps k = Some (Some (x, y)) ->
  nth_error pts k = Some (Some (px, py), Some a) ->
  in_band (aff_apply (tg_px (td_geom c)) x - fst tl) (td_osi c) (ncells (tg_nix (td_geom c)) (td_osi c)) ->
  in_band (aff_apply (tg_py (td_geom c)) y - snd tl) (td_osi c) (ncells (tg_niy (td_geom c)) (td_osi c)) ->
  Qabs (px - x) <= half_cell (td_osi c) (td_si c) (tg_eff (td_geom c))
                   + reg_term (aff_apply (tg_px (td_geom c)) x) x (td_si c) (tg_eff (td_geom c)) /\
  Qabs (py - y) <= half_cell (td_osi c) (td_si c) (tg_eff (td_geom c))
                   + reg_term (aff_apply (tg_py (td_geom c)) y) y (td_si c) (tg_eff (td_geom c)).
Proof.
  intros c kps tl pts ms k x y px py a Hos Hs He Hnx Hny HI Hk Hp Bx By.
  unfold td_gt_instance in HI. destruct (bbox_mid kps) as [[mx my]|]; [|discriminate].
  unfold td_gt_geom in HI. inversion HI; subst; clear HI. cbn [fst snd] in *.
  rewrite (map_nth_error (td_kp c (td_geom c) _ _) _ _ Hk) in Hp. inversion Hp as [Hp'].
  eapply td_kp_within; eassumption.
Qed.

Definition wit_gt : td_cfg :=
  {| td_H := 64; td_W := 64; td_mh := None; td_mw := None; td_sc := 1; td_si := 1 # 2;
     td_msc := 16; td_msi := 16; td_osc := 2; td_osi := 2; td_ch := 32; td_cw := 32;
     td_sigma := 3 # 2; td_lthr := - (1609438 # 1000000); td_thr0 := false; td_fixed_Fz := false |}.

(* pinned tree (before fix 552121e), historic: the crop is cut from the un-resized image but decoded as if it were resized *)
Theorem td_gt_refuted :
  exists c kps tl pts ms x y px py a,
    td_gt_instance false c kps = Some (tl, pts, ms) /\
    nth_error kps 0 = Some (Some (x, y)) /\ nth_error pts 0 = Some (Some (px, py), Some a) /\
    in_band (aff_apply (tg_px (td_gt_geom false c)) x - fst tl) (td_osi c)
            (ncells (tg_nix (td_geom c)) (td_osi c)) /\
    half_cell (td_osi c) (td_si c) (tg_eff (td_geom c)) == 2 /\
    20 < Qabs (px - x).
Proof.
  exists wit_gt, [Some (30, 24); Some (36, 30)].
  eexists. eexists. eexists. exists 30, 24. eexists. eexists. eexists.
  split; [vm_compute; reflexivity|].
  split; [reflexivity|]. split; [vm_compute; reflexivity|].
  split; [split; vm_compute; discriminate|].
  split; vm_compute; reflexivity.
Qed.

(* two-cell plateau: the strict local-maximum detector of the centroid stage reports no peak *)
Lemma plateau_no_local_peak : forall c g cent,
  is_tie (aff_apply (fst (tg_cx g)) (fst cent)) (td_osc c) (ncells (snd (tg_cx g)) (td_osc c)) = true ->
  td_cent_peak c g cent = None.
Proof. intros c g cent H. unfold td_cent_peak. rewrite H. reflexivity. Qed.

(* F7 (latent): the ground-truth-instances branch of _predict_generator does not resize *)
Lemma gt_path_not_resized : exists n s, gt_path_resize_dim false n s <> resize_dim n s.
Proof. exists 64%Z, (1 # 2). vm_compute. discriminate. Qed.

Lemma gt_path_fixed : forall n s, gt_path_resize_dim true n s = resize_dim n s.
Proof. reflexivity. Qed.

(* non-vacuity *)
Definition wit_td : td_cfg :=
  {| td_H := 96; td_W := 120; td_mh := Some 128%Z; td_mw := Some 128%Z; td_sc := 1 # 2; td_si := 3 # 4;
     td_msc := 16; td_msi := 16; td_osc := 2; td_osi := 2; td_ch := 48; td_cw := 48;
     td_sigma := 3 # 2; td_lthr := - (1609438 # 1000000); td_thr0 := false; td_fixed_Fz := false |}.
Definition wit_animal : animal :=
  {| an_cent := (241 # 8, 243 # 8); an_kps := [Some (40, 24); None; Some (163 # 8, 301 # 8)] |}.
