(* CentroidOnly.v — executable model (definitions only) of top-down inference with a
   centroid model and NO centered-instance model (TopDownPredictor with
   confmap_config = None; LabelsReader only, instances_key = True):

     sleap_nn/inference/predictors.py  _predict_generator: frame["instances"] * eff_scale
     sleap_nn/inference/topdown.py     CentroidCrop.forward, return_crops = False:
                                         refined_peaks * output_stride / input_scale
                                         (always divided), table / eff_scale
                                       FindInstancePeaksGroundTruth.forward: every centroid
                                         is matched to the labelled instance with the nearest
                                         visible node (NaN -> inf, argmin over instances, rows
                                         whose distances are all inf are dropped), the matched
                                         instances are divided by eff_scale
                                       TopDownInferenceModel.forward (GroundTruth branch)

   Quirk F61 (pinned tree, before fix ca9ba93; `fixed = false`): the centroids handed to FindInstancePeaksGroundTruth are already
   in ORIGINAL pixels (divided by eff_scale) while batch["instances"] are still in
   size-matched pixels (multiplied by eff_scale): the distances mix two coordinate
   systems whenever eff_scale != 1.  `fixed` = behaviour after
   proposed_fixes/C02_F61.diff (centroids multiplied by eff_scale for the comparison). *)
From Coq Require Import List ZArith QArith Qminmax Bool.
Import ListNotations.
From SV Require Import C02.Decode.
Open Scope Q_scope.

(* CentroidCrop.forward (return_crops = False), one axis *)
Definition co_decode (c osc : Z) (sc eff : Q) : Q := inject_Z c * inject_Z osc / sc / eff.

(* _predict_generator: instances * eff_scale; FindInstancePeaksGroundTruth: peaks / eff_scale *)
Definition kp_scale (k : Q) (p : kp) : kp :=
  match p with Some (x, y) => Some (x * k, y * k) | None => None end.
Definition kp_unscale (k : Q) (p : kp) : kp :=
  match p with Some (x, y) => Some (x / k, y / k) | None => None end.

(* squared distance: sqrt is monotone, so the argmin of the distances is the argmin of these *)
Definition d2 (a b : Q * Q) : Q :=
  (fst a - fst b) * (fst a - fst b) + (snd a - snd b) * (snd a - snd b).

(* torch.min over the nodes, NaN -> inf: None = inf (no visible node) *)
Fixpoint inst_d2 (cent : Q * Q) (kps : list kp) : option Q :=
  match kps with
  | [] => None
  | None :: t => inst_d2 cent t
  | Some p :: t => match inst_d2 cent t with
                   | None => Some (d2 cent p)
                   | Some v => Some (Qmin (d2 cent p) v)
                   end
  end.

(* torch.argmin over the instances (first index of the minimum); None when every
   distance is inf (the row is dropped by `subs`) *)
Fixpoint argmin_from (i : nat) (ds : list (option Q)) : option (nat * Q) :=
  match ds with
  | [] => None
  | d :: t =>
      match d, argmin_from (S i) t with
      | None, r => r
      | Some v, None => Some (i, v)
      | Some v, Some (j, w) => if Qle_bool v w then Some (i, v) else Some (j, w)
      end
  end.

(* cent: centroid as handed over (original pixels); insts: labelled instances (original pixels) *)
Definition gt_dists (fixed : bool) (eff : Q) (cent : Q * Q) (insts : list (list kp)) : list (option Q) :=
  let c := if fixed then (fst cent * eff, snd cent * eff) else cent in
  map (fun kps => inst_d2 c (map (kp_scale eff) kps)) insts.

Definition gt_match (fixed : bool) (eff : Q) (cent : Q * Q) (insts : list (list kp)) : option nat :=
  option_map fst (argmin_from 0%nat (gt_dists fixed eff cent insts)).

(* the instance returned for a match: (instance * eff) / eff *)
Definition gt_return (eff : Q) (kps : list kp) : list kp := map (kp_unscale eff) (map (kp_scale eff) kps).

Record co_row := { cr_cell : Z * Z;            (* centroid peak cell (x, y) *)
                   cr_carg : Q;                (* arg of exp of the centroid value *)
                   cr_cent : Q * Q;            (* "centroids" entry, original pixels *)
                   cr_match : option nat;      (* index of the matched labelled instance *)
                   cr_pts : list kp;           (* "pred_instance_peaks" row *)
                   cr_gap : Q }.               (* diagnostics: (second smallest - smallest) squared distance, -1 if none *)

Definition peak3_leb (a b : Z * Z * Q) : bool :=
  let '(ax, ay, _) := a in
  let '(bx, b_y, _) := b in
  (ay <? b_y)%Z || ((ay =? b_y)%Z && (ax <=? bx)%Z).

Fixpoint remove_nth {A} (n : nat) (l : list A) : list A :=
  match l, n with
  | [], _ => []
  | _ :: t, O => t
  | a :: t, S n' => a :: remove_nth n' t
  end.

Definition match_gap (ds : list (option Q)) : Q :=
  match argmin_from 0%nat ds with
  | None => -1
  | Some (j, v) => match argmin_from 0%nat (remove_nth j ds) with
                   | None => -1
                   | Some (_, w) => w - v
                   end
  end.

Definition co_row_of (fixed : bool) (c : td_cfg) (g : td_geom_t) (insts : list (list kp)) (pk : Z * Z * Q) : co_row :=
  let '(cx, cy, a) := pk in
  let cent := (co_decode cx (td_osc c) (td_sc c) (tg_eff g), co_decode cy (td_osc c) (td_sc c) (tg_eff g)) in
  let m := gt_match fixed (tg_eff g) cent insts in
  {| cr_cell := (cx, cy); cr_carg := a; cr_cent := cent; cr_match := m;
     cr_pts := match m with Some j => gt_return (tg_eff g) (nth j insts []) | None => [] end;
     cr_gap := match_gap (gt_dists fixed (tg_eff g) cent insts) |}.

(* one frame: the centroid peaks (one per animal in general position, row-major) and their matches *)
Definition co_peaks (c : td_cfg) (animals : list animal) : list (Z * Z * Q) :=
  sort_by peak3_leb (somes (map (fun an => td_cent_peak c (td_geom c) (an_cent an)) animals)).

Definition co_frame (fixed : bool) (c : td_cfg) (animals : list animal) : list co_row :=
  map (co_row_of fixed c (td_geom c) (map an_kps animals)) (co_peaks c animals).

(* ---- network input channels (_predict_generator lines 281-286 and 313-316) ----
   is_rgb and the frame does not have 3 channels -> repeat to 3; not is_rgb -> grayscale
   (one channel); the geometry above does not depend on it *)
Definition net_channels (is_rgb : bool) (frame_channels : Z) : Z :=
  if is_rgb then
    (if (frame_channels =? 3)%Z then 3%Z
     else let c1 := (frame_channels * 3)%Z in           (* per frame: repeat(1, 3, 1, 1) *)
          if (c1 =? 3)%Z then 3%Z else (c1 * 3)%Z)      (* per batch: repeat(1, 1, 3, 1, 1) again if still != 3 *)
  else 1%Z.

(* ---- harness entry ---- *)
Inductive co_case := CCentroidOnly (fixed : bool) (c : td_cfg) (animals : list animal).

Definition co_run (k : co_case) : td_geom_t * list co_row :=
  match k with CCentroidOnly fixed c ans => (td_geom c, co_frame fixed c ans) end.

From SV Require Import Base.Render.
Definition rco_row (r : co_row) : rdr := fun k =>
  rlist (fun x => x)
    [rpair rZ rZ (cr_cell r); rQ (cr_carg r); rpair rQ rQ (cr_cent r); ropt rnat (cr_match r);
     rlist rkp (cr_pts r); rQ (cr_gap r)] k.
Definition rco (r : td_geom_t * list co_row) : rdr :=
  rlist (fun x => x) [raffn (tg_cx (fst r)); raffn (tg_cy (fst r)); rQ (tg_eff (fst r)); rlist rco_row (snd r)].
