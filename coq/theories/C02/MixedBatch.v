(* MixedBatch.v — executable model (definitions only) of ONE BATCH of
   `Predictor._predict_generator` whose frames have DIFFERENT original sizes
   (a labels file with several videos; max_height / max_width size matching
   brings every frame to the same (max_height, max_width), so that the frames
   can be stacked, but each with its own factor):

     sleap_nn/inference/predictors.py  _predict_generator, the loop over one batch:
          frame["image"], eff_scale = apply_sizematcher(frame["image"], max_h, max_w)
          eff_scales.append(torch.tensor(eff_scale))   next to   imgs.append(...)
          ex["eff_scale"] = torch.tensor(eff_scales)           (one entry per frame)
     sleap_nn/inference/single_instance.py  peaks / inputs["eff_scale"][b]
     sleap_nn/inference/topdown.py     _generate_crops: zip(..., inputs["eff_scale"]),
          ex["eff_scale"] = [eff_sc] * n  -> FindInstancePeaks: peaks and bbox / eff_scale;
          return_crops = False: table / inputs["eff_scale"][b];
          FindInstancePeaksGroundTruth: centroids * eff_scale[b], peaks / eff_scale[b]

   The per-frame models of Decode.v / CentroidOnly.v take the frame size from the
   configuration and compute the frame's eff_scale themselves.  Here the list of
   eff_scales is an explicit value that travels NEXT TO the list of frames, as in
   the code: `*_batch_with c effs fs` decodes sample b with the b-th entry of
   `effs`, whatever that list holds; `*_batch` hands over the list that
   `_predict_generator` builds (`batch_effs`: entry b from frame b's own size).
   LemmasMB.v proves that the latter is the per-frame model frame by frame, and that
   a list built otherwise (one factor for the whole batch) is not. *)
From Coq Require Import List ZArith QArith Bool.
Import ListNotations.
From SV Require Import C02.Decode C02.CentroidOnly.
Open Scope Q_scope.

(* ---- the predictor's configuration applied to a frame of size (H, W) *)
Definition si_at (c : si_cfg) (H W : Z) : si_cfg :=
  {| si_H := H; si_W := W; si_mh := si_mh c; si_mw := si_mw c; si_scale := si_scale c; si_ms := si_ms c;
     si_os := si_os c; si_sigma := si_sigma c; si_lthr := si_lthr c; si_fixed_F8 := si_fixed_F8 c;
     si_thr0 := si_thr0 c; si_fixed_Fz := si_fixed_Fz c |}.

Definition td_at (c : td_cfg) (H W : Z) : td_cfg :=
  {| td_H := H; td_W := W; td_mh := td_mh c; td_mw := td_mw c; td_sc := td_sc c; td_si := td_si c;
     td_msc := td_msc c; td_msi := td_msi c; td_osc := td_osc c; td_osi := td_osi c;
     td_ch := td_ch c; td_cw := td_cw c; td_sigma := td_sigma c; td_lthr := td_lthr c;
     td_thr0 := td_thr0 c; td_fixed_Fz := td_fixed_Fz c |}.

(* ---- what the loop over one batch appends, per frame *)
Definition frame_eff (mh mw : option Z) (hw : Z * Z) : Q := sm_eff (sizematch (fst hw) (snd hw) mh mw).

(* eff_scales: one entry per frame, from that frame's own size *)
Definition batch_effs (mh mw : option Z) (sizes : list (Z * Z)) : list Q := map (frame_eff mh mw) sizes.

(* shape of every size-matched image: torch.concatenate needs them equal *)
Definition batch_shapes (mh mw : option Z) (sizes : list (Z * Z)) : list (Z * Z) :=
  map (fun hw => let g := sizematch (fst hw) (snd hw) mh mw in (sm_h g, sm_w g)) sizes.

(* the (mis)construction "one factor for the whole batch": the factor of the last frame read *)
Definition last_eff_for_all (mh mw : option Z) (sizes : list (Z * Z)) : list Q :=
  repeat (last (batch_effs mh mw sizes) 1) (length sizes).

(* ---- single instance *)
Record sframe := { sf_H : Z; sf_W : Z; sf_kps : list kp }.
Definition sf_size (f : sframe) : Z * Z := (sf_H f, sf_W f).

(* si_kp with the factor the decode divides by given explicitly (SingleInstanceInferenceModel:
   peaks * output_stride [/ input_scale] / inputs["eff_scale"][b]) *)
Definition si_kp_e (c : si_cfg) (pv : provider) (e : Q) (p : kp) : kp * option Q :=
  match p with
  | None =>
      zero_map_answer (si_thr0 c) (si_fixed_Fz c)
        (si_decode 0%Z (si_os c) (si_scale c) e, si_decode 0%Z (si_os c) (si_scale c) e)
  | Some (x, y) =>
      let '(gx, gy, _) := si_geom c pv in
      let ux := aff_apply (fst gx) x in
      let uy := aff_apply (fst gy) y in
      let cx := nearest_cell ux (si_os c) (ncells (snd gx) (si_os c)) in
      let cy := nearest_cell uy (si_os c) (ncells (snd gy) (si_os c)) in
      let a := peak_arg (inject_Z cx * inject_Z (si_os c) - ux)
                        (inject_Z cy * inject_Z (si_os c) - uy) (si_sigma c) (si_os c) in
      if above_global (si_thr0 c) (si_lthr c) a
      then (Some (si_decode cx (si_os c) (si_scale c) e,
                  si_decode cy (si_os c) (si_scale c) e), Some a)
      else (None, None)
  end.

Definition si_batch_with (c : si_cfg) (pv : provider) (effs : list Q) (fs : list sframe)
  : list (list (kp * option Q)) :=
  map (fun fe : sframe * Q =>
         map (si_kp_e (si_at c (sf_H (fst fe)) (sf_W (fst fe))) pv (snd fe)) (sf_kps (fst fe)))
      (combine fs effs).

Definition si_batch (c : si_cfg) (pv : provider) (fs : list sframe) : list (list (kp * option Q)) :=
  si_batch_with c pv (batch_effs (si_mh c) (si_mw c) (map sf_size fs)) fs.

(* ---- top-down (centroid -> crop -> centered instance) *)
Record tframe := { tf_H : Z; tf_W : Z; tf_animals : list animal }.
Definition tf_size (f : tframe) : Z * Z := (tf_H f, tf_W f).

Definition set_eff (g : td_geom_t) (e : Q) : td_geom_t :=
  {| tg_cx := tg_cx g; tg_cy := tg_cy g; tg_px := tg_px g; tg_py := tg_py g; tg_eff := e;
     tg_nix := tg_nix g; tg_niy := tg_niy g |}.

(* td_instance / td_frame with the geometry (and with it the factor) given explicitly *)
Definition td_instance_g (c : td_cfg) (g : td_geom_t) (an : animal) : option td_inst :=
  match td_cent_peak c g (an_cent an) with
  | None => None
  | Some (cx, cy, a) => Some (td_instance_at c g cx cy a (an_kps an))
  end.

Definition td_frame_g (c : td_cfg) (g : td_geom_t) (animals : list animal) : list td_inst :=
  sort_by cell_leb (somes (map (td_instance_g c g) animals)).

Definition td_batch_with (c : td_cfg) (effs : list Q) (fs : list tframe) : list (list td_inst) :=
  map (fun fe : tframe * Q =>
         let c' := td_at c (tf_H (fst fe)) (tf_W (fst fe)) in
         td_frame_g c' (set_eff (td_geom c') (snd fe)) (tf_animals (fst fe)))
      (combine fs effs).

Definition td_batch (c : td_cfg) (fs : list tframe) : list (list td_inst) :=
  td_batch_with c (batch_effs (td_mh c) (td_mw c) (map tf_size fs)) fs.

(* ---- top-down with ground-truth centroids (centroid model = None) *)
Record gframe := { gf_H : Z; gf_W : Z; gf_insts : list (list kp) }.
Definition gf_size (f : gframe) : Z * Z := (gf_H f, gf_W f).

Definition td_gt_instance_e (fixed : bool) (c : td_cfg) (e : Q) (kps : list kp)
  : option ((Q * Q) * list (kp * option Q) * list Q) :=
  match bbox_mid kps with
  | None => None
  | Some (mx, my) =>
      let g := set_eff (td_gt_geom fixed c) e in
      let tlx := td_gt_topleft fixed mx (tg_eff g) (td_si c) (td_cw c) in
      let tly := td_gt_topleft fixed my (tg_eff g) (td_si c) (td_ch c) in
      Some ((tlx, tly), map (td_kp c g tlx tly) kps, map (td_kp_margin c g (tlx, tly)) kps)
  end.

Definition gt_batch_with (fixed : bool) (c : td_cfg) (effs : list Q) (fs : list gframe) :=
  map (fun fe : gframe * Q =>
         map (td_gt_instance_e fixed (td_at c (gf_H (fst fe)) (gf_W (fst fe))) (snd fe)) (gf_insts (fst fe)))
      (combine fs effs).

Definition gt_batch (fixed : bool) (c : td_cfg) (fs : list gframe) :=
  gt_batch_with fixed c (batch_effs (td_mh c) (td_mw c) (map gf_size fs)) fs.

(* ---- centroid-only top-down (centered-instance model = None) *)
Definition co_frame_g (fixed : bool) (c : td_cfg) (g : td_geom_t) (animals : list animal) : list co_row :=
  map (co_row_of fixed c g (map an_kps animals)) (co_peaks c animals).

Definition co_batch_with (fixed : bool) (c : td_cfg) (effs : list Q) (fs : list tframe) : list (list co_row) :=
  map (fun fe : tframe * Q =>
         let c' := td_at c (tf_H (fst fe)) (tf_W (fst fe)) in
         co_frame_g fixed c' (set_eff (td_geom c') (snd fe)) (tf_animals (fst fe)))
      (combine fs effs).

Definition co_batch (fixed : bool) (c : td_cfg) (fs : list tframe) : list (list co_row) :=
  co_batch_with fixed c (batch_effs (td_mh c) (td_mw c) (map tf_size fs)) fs.

(* ---- harness entry: one batch as assembled by _predict_generator -> one result per frame,
   in the vocabulary of Decode.run / CentroidOnly.co_run *)
Inductive bcase :=
| BSingle (c : si_cfg) (pv : provider) (fs : list sframe)
| BTopDown (c : td_cfg) (fs : list tframe)
| BTopDownGT (fixed : bool) (c : td_cfg) (fs : list gframe)
| BCentroidOnly (fixed : bool) (c : td_cfg) (fs : list tframe).

Inductive bresult :=
| BR (r : result)
| BRco (r : td_geom_t * list co_row).

Definition run_batch (k : bcase) : list bresult :=
  match k with
  | BSingle c pv fs =>
      map (fun fr : sframe * list (kp * option Q) =>
             let c' := si_at c (sf_H (fst fr)) (sf_W (fst fr)) in
             BR (RSingle (si_geom c' pv) (snd fr) (map (si_kp_margin c' pv) (sf_kps (fst fr)))))
          (combine fs (si_batch c pv fs))
  | BTopDown c fs =>
      map (fun fr : tframe * list td_inst =>
             let c' := td_at c (tf_H (fst fr)) (tf_W (fst fr)) in
             BR (RTopDown (td_geom c') (snd fr) (map (td_cent_margin c') (tf_animals (fst fr)))))
          (combine fs (td_batch c fs))
  | BTopDownGT fixed c fs => map (fun r => BR (RTopDownGT r)) (gt_batch fixed c fs)
  | BCentroidOnly fixed c fs =>
      map (fun fr : tframe * list co_row =>
             BRco (td_geom (td_at c (tf_H (fst fr)) (tf_W (fst fr))), snd fr))
          (combine fs (co_batch fixed c fs))
  end.

From SV Require Import Base.Render.
Definition rbresult (r : bresult) : rdr :=
  match r with BR x => rresult x | BRco x => rco x end.
Definition rbatch (l : list bresult) : rdr := rlist rbresult l.
