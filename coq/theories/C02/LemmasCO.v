(* LemmasCO.v (C02) — proofs about C02/CentroidOnly.v (centroid model + ground-truth instance peaks). *)
From Coq Require Import List ZArith QArith Qround Qabs Qminmax Bool Lia Lqa Psatz Permutation.
Import ListNotations.
From SV Require Import C02.Decode C02.Lemmas C02.CentroidOnly.
Open Scope Q_scope.

(* ------------------------------------------------------------------ the centroid that is returned *)
Theorem co_centroid_within : forall c g cent cx cy a,
  (0 < td_osc c)%Z -> 0 < td_sc c -> 0 < tg_eff g ->
  (0 < ncells (snd (tg_cx g)) (td_osc c))%Z -> (0 < ncells (snd (tg_cy g)) (td_osc c))%Z ->
  td_cent_peak c g cent = Some (cx, cy, a) ->
  in_band (aff_apply (fst (tg_cx g)) (fst cent)) (td_osc c) (ncells (snd (tg_cx g)) (td_osc c)) ->
  in_band (aff_apply (fst (tg_cy g)) (snd cent)) (td_osc c) (ncells (snd (tg_cy g)) (td_osc c)) ->
  Qabs (co_decode cx (td_osc c) (td_sc c) (tg_eff g) - fst cent)
    <= half_cell (td_osc c) (td_sc c) (tg_eff g)
       + reg_term (aff_apply (fst (tg_cx g)) (fst cent)) (fst cent) (td_sc c) (tg_eff g) /\
  Qabs (co_decode cy (td_osc c) (td_sc c) (tg_eff g) - snd cent)
    <= half_cell (td_osc c) (td_sc c) (tg_eff g)
       + reg_term (aff_apply (fst (tg_cy g)) (snd cent)) (snd cent) (td_sc c) (tg_eff g).
Proof.
  intros c g cent cx cy a Hos Hs He Hnx Hny Hp Bx By.
  unfold td_cent_peak in Hp.
  destruct (is_tie _ _ _ || is_tie _ _ _); [discriminate|].
  destruct (above_local (td_thr0 c) (td_lthr c) _); [|discriminate].
  inversion Hp; subst; clear Hp. unfold co_decode.
  split; apply decode_bound_gen; try assumption; apply nearest_cell_half; assumption.
Qed.

(* ------------------------------------------------------------------ argmin *)
Lemma argmin_from_sound : forall ds i j v, argmin_from i ds = Some (j, v) ->
  (i <= j)%nat /\ nth_error ds (j - i) = Some (Some v).
Proof.
  induction ds as [|d t IH]; intros i j v H; simpl in H; [discriminate|].
  destruct d as [v0|].
  - destruct (argmin_from (S i) t) as [[j' w']|] eqn:E.
    + destruct (Qle_bool v0 w').
      * inversion H; subst. rewrite Nat.sub_diag. split; [lia|reflexivity].
      * inversion H; subst. destruct (IH _ _ _ E) as [Hle Hn]. split; [lia|].
        replace (j - i)%nat with (S (j - S i)) by lia. exact Hn.
    + inversion H; subst. rewrite Nat.sub_diag. split; [lia|reflexivity].
  - destruct (IH _ _ _ H) as [Hle Hn]. split; [lia|].
    replace (j - i)%nat with (S (j - S i)) by lia. exact Hn.
Qed.

Lemma argmin_from_none : forall t i k w, argmin_from i t = None -> nth_error t k = Some (Some w) -> False.
Proof.
  induction t as [|d t IH]; intros i k w E Hk.
  - destruct k; discriminate.
  - simpl in E. destruct d as [v1|].
    + destruct (argmin_from (S i) t) as [[? ?]|]; [destruct (Qle_bool v1 q)|]; discriminate.
    + destruct k as [|k]; simpl in Hk; [discriminate|]. eapply IH; eassumption.
Qed.

Lemma argmin_from_min : forall ds i j v k w, argmin_from i ds = Some (j, v) ->
  nth_error ds k = Some (Some w) -> v <= w.
Proof.
  induction ds as [|d t IH]; intros i j v k w H Hk; simpl in H; [discriminate|].
  destruct d as [v0|].
  - destruct (argmin_from (S i) t) as [[j' w']|] eqn:E.
    + destruct (Qle_bool v0 w') eqn:L.
      * inversion H; subst. apply Qle_bool_iff in L. destruct k as [|k]; simpl in Hk.
        -- inversion Hk; subst. apply Qle_refl.
        -- eapply Qle_trans; [exact L|]. eapply IH; eassumption.
      * inversion H; subst.
        assert (Hlt : v < v0).
        { apply Qnot_le_lt. intro A. apply Qle_bool_iff in A. congruence. }
        destruct k as [|k]; simpl in Hk.
        -- inversion Hk; subst. apply Qlt_le_weak. exact Hlt.
        -- eapply IH; eassumption.
    + inversion H; subst. destruct k as [|k]; simpl in Hk.
      * inversion Hk; subst. apply Qle_refl.
      * exfalso. eapply argmin_from_none; eassumption.
  - destruct k as [|k]; simpl in Hk; [discriminate|]. eapply IH; eassumption.
Qed.

Lemma argmin_from_some : forall ds i k w, nth_error ds k = Some (Some w) -> argmin_from i ds <> None.
Proof.
  induction ds as [|d t IH]; intros i k w Hk; [destruct k; discriminate|].
  simpl. destruct d as [v0|].
  - destruct (argmin_from (S i) t) as [[j' w']|]; [destruct (Qle_bool v0 w')|]; discriminate.
  - destruct k as [|k]; simpl in Hk; [discriminate|]. eapply IH; eassumption.
Qed.

(* a strictly smallest entry is the one that is found *)
Lemma argmin_unique : forall ds j0 d0,
  nth_error ds j0 = Some (Some d0) ->
  (forall k w, k <> j0 -> nth_error ds k = Some (Some w) -> d0 < w) ->
  exists v, argmin_from 0%nat ds = Some (j0, v) /\ v == d0.
Proof.
  intros ds j0 d0 H0 Hstrict.
  destruct (argmin_from 0%nat ds) as [[j v]|] eqn:E; [|exfalso; eapply argmin_from_some; eassumption].
  destruct (argmin_from_sound _ _ _ _ E) as [_ Hn]. rewrite Nat.sub_0_r in Hn.
  pose proof (argmin_from_min _ _ _ _ _ _ E H0) as Hle.
  destruct (Nat.eq_dec j j0) as [->|Hne].
  - exists v. split; [reflexivity|]. rewrite H0 in Hn. inversion Hn; subst. reflexivity.
  - exfalso. specialize (Hstrict _ _ Hne Hn). lra.
Qed.

(* ------------------------------------------------------------------ one coordinate system: scaling does not change the order *)
Definition oQeq (a b : option Q) : Prop :=
  match a, b with None, None => True | Some x, Some y => x == y | _, _ => False end.

Lemma d2_scale : forall k c c' p, fst c' == fst c * k -> snd c' == snd c * k ->
  d2 c' (fst p * k, snd p * k) == k * k * d2 c p.
Proof. intros k c c' p H1 H2. unfold d2. cbn [fst snd]. rewrite H1, H2. ring. Qed.

Lemma Qmin_scale : forall e a b a' b', 0 <= e -> a' == e * a -> b' == e * b -> Qmin a' b' == e * Qmin a b.
Proof.
  intros e a b a' b' He Ha Hb.
  destruct (Q.min_spec a b) as [[H1 H2]|[H1 H2]]; destruct (Q.min_spec a' b') as [[H3 H4]|[H3 H4]];
    rewrite H2, H4; try assumption.
  - (* a < b, b' <= a' *) apply Qle_antisym; [|]; rewrite ?Ha, ?Hb in *; nra.
  - (* b <= a, a' < b' *) apply Qle_antisym; rewrite ?Ha, ?Hb in *; nra.
Qed.

Lemma inst_d2_scale : forall k c c' kps, fst c' == fst c * k -> snd c' == snd c * k ->
  oQeq (inst_d2 c' (map (kp_scale k) kps)) (option_map (fun v => k * k * v) (inst_d2 c kps)).
Proof.
  intros k c c' kps H1 H2. induction kps as [|p t IH]; simpl; [exact I|].
  destruct p as [[x y]|]; simpl; [|exact IH].
  destruct (inst_d2 c t) as [v|]; destruct (inst_d2 c' (map (kp_scale k) t)) as [v'|];
    simpl in IH; try contradiction; simpl.
  - apply Qmin_scale.
    + nra.
    + apply (d2_scale k c c' (x, y) H1 H2).
    + exact IH.
  - apply (d2_scale k c c' (x, y) H1 H2).
Qed.

(* comparison in ONE coordinate system (current tree = repaired, or eff_scale = 1 in the pinned tree): the animal
   whose nearest visible node is strictly nearest to the centroid — in ORIGINAL pixels — is the
   one that is matched *)
Theorem gt_match_nearest : forall fixed eff cent insts j0 kps0 d0,
  0 < eff -> (fixed = true \/ eff == 1) ->
  nth_error insts j0 = Some kps0 -> inst_d2 cent kps0 = Some d0 ->
  (forall k kps w, k <> j0 -> nth_error insts k = Some kps -> inst_d2 cent kps = Some w -> d0 < w) ->
  gt_match fixed eff cent insts = Some j0.
Proof.
  intros fixed eff cent insts j0 kps0 d0 He Hsys H0 D0 Hstrict.
  unfold gt_match, gt_dists.
  set (c' := if fixed then (fst cent * eff, snd cent * eff) else cent).
  assert (C1 : fst c' == fst cent * eff).
  { unfold c'. destruct fixed; [reflexivity|]. destruct Hsys as [?|E]; [discriminate|]. rewrite E. ring. }
  assert (C2 : snd c' == snd cent * eff).
  { unfold c'. destruct fixed; [reflexivity|]. destruct Hsys as [?|E]; [discriminate|]. rewrite E. ring. }
  clearbody c'.
  set (f := fun kps => inst_d2 c' (map (kp_scale eff) kps)).
  pose proof (inst_d2_scale eff cent c' kps0 C1 C2) as S0. rewrite D0 in S0. simpl in S0.
  destruct (inst_d2 c' (map (kp_scale eff) kps0)) as [d0'|] eqn:E0; [|contradiction].
  assert (N0 : nth_error (map f insts) j0 = Some (Some d0')).
  { rewrite (map_nth_error f _ _ H0). unfold f. rewrite E0. reflexivity. }
  destruct (argmin_unique (map f insts) j0 d0' N0) as [v [Hv _]].
  - intros k w' Hk Hn.
    rewrite nth_error_map in Hn. destruct (nth_error insts k) as [kps|] eqn:Ek; [|discriminate].
    simpl in Hn. injection Hn as Hn. unfold f in Hn.
    pose proof (inst_d2_scale eff cent c' kps C1 C2) as Sk. rewrite Hn in Sk.
    destruct (inst_d2 cent kps) as [w|] eqn:Dk; simpl in Sk; [|contradiction].
    specialize (Hstrict k kps w Hk Ek Dk).
    unfold oQeq in S0. rewrite S0, Sk. assert (0 < eff * eff) by nra. nra.
  - rewrite Hv. reflexivity.
Qed.

(* what is returned for a match is the labelled instance itself: (x * eff) / eff *)
Definition kp_eq (p q : kp) : Prop :=
  match p, q with
  | Some (x, y), Some (x', y') => x == x' /\ y == y'
  | None, None => True
  | _, _ => False
  end.

Theorem gt_return_is_labelled : forall eff kps, 0 < eff -> Forall2 kp_eq (gt_return eff kps) kps.
Proof.
  intros eff kps He. unfold gt_return. induction kps as [|[[x y]|] t IH]; simpl; constructor; try assumption.
  - simpl. split; field; lra.
  - exact I.
Qed.

Theorem gt_return_invisible : forall eff kps k,
  nth_error kps k = Some None -> nth_error (gt_return eff kps) k = Some None.
Proof.
  intros eff kps k H. unfold gt_return. rewrite map_map.
  rewrite (map_nth_error (fun p => kp_unscale eff (kp_scale eff p)) _ _ H). reflexivity.
Qed.

(* ------------------------------------------------------------------ one frame *)
Lemma co_peaks_In : forall c ans pk, In pk (co_peaks c ans) <->
  exists an, In an ans /\ td_cent_peak c (td_geom c) (an_cent an) = Some pk.
Proof.
  intros c ans pk. unfold co_peaks. split.
  - intros H. apply (Permutation_in _ (sort_by_perm _ _ _)) in H. apply somes_In in H.
    apply in_map_iff in H. destruct H as [an [E Ha]]. exists an. split; assumption.
  - intros [an [Ha E]]. apply (Permutation_in _ (Permutation_sym (sort_by_perm _ _ _))).
    apply somes_In. apply in_map_iff. exists an. split; assumption.
Qed.

(* every row of the frame's output comes from one labelled animal's centroid peak: its centroid
   entry obeys the bound, and (one coordinate system: repaired matching, or eff_scale = 1) if that animal's nearest node is strictly nearer
   to the returned centroid than any other animal's, the row holds that animal's own keypoints *)
Theorem co_frame_row : forall fixed c ans r,
  (0 < td_osc c)%Z -> 0 < td_sc c -> 0 < tg_eff (td_geom c) ->
  (0 < ncells (snd (tg_cx (td_geom c))) (td_osc c))%Z -> (0 < ncells (snd (tg_cy (td_geom c))) (td_osc c))%Z ->
  In r (co_frame fixed c ans) ->
  exists an, In an ans /\
    (in_band (aff_apply (fst (tg_cx (td_geom c))) (fst (an_cent an))) (td_osc c)
             (ncells (snd (tg_cx (td_geom c))) (td_osc c)) ->
     in_band (aff_apply (fst (tg_cy (td_geom c))) (snd (an_cent an))) (td_osc c)
             (ncells (snd (tg_cy (td_geom c))) (td_osc c)) ->
     Qabs (fst (cr_cent r) - fst (an_cent an))
       <= half_cell (td_osc c) (td_sc c) (tg_eff (td_geom c))
          + reg_term (aff_apply (fst (tg_cx (td_geom c))) (fst (an_cent an))) (fst (an_cent an))
                     (td_sc c) (tg_eff (td_geom c)) /\
     Qabs (snd (cr_cent r) - snd (an_cent an))
       <= half_cell (td_osc c) (td_sc c) (tg_eff (td_geom c))
          + reg_term (aff_apply (fst (tg_cy (td_geom c))) (snd (an_cent an))) (snd (an_cent an))
                     (td_sc c) (tg_eff (td_geom c))) /\
    (forall j0 d0,
       (fixed = true \/ tg_eff (td_geom c) == 1) ->
       nth_error (map an_kps ans) j0 = Some (an_kps an) -> inst_d2 (cr_cent r) (an_kps an) = Some d0 ->
       (forall k kps w, k <> j0 -> nth_error (map an_kps ans) k = Some kps ->
                        inst_d2 (cr_cent r) kps = Some w -> d0 < w) ->
       cr_match r = Some j0 /\ Forall2 kp_eq (cr_pts r) (an_kps an)).
Proof.
  intros fixed c ans r Hos Hs He Hnx Hny Hin.
  unfold co_frame in Hin. apply in_map_iff in Hin. destruct Hin as [[[cx cy] a] [Er Hpk]].
  apply co_peaks_In in Hpk. destruct Hpk as [an [Ha Hp]].
  exists an. split; [exact Ha|]. subst r. unfold co_row_of. cbn [cr_cent cr_match cr_pts fst snd].
  split.
  - intros Bx By. eapply co_centroid_within; eassumption.
  - intros j0 d0 Hf Hj D0 Hstrict.
    rewrite (gt_match_nearest fixed _ _ _ j0 (an_kps an) d0 He Hf Hj D0 Hstrict).
    split; [reflexivity|].
    rewrite (nth_error_nth _ _ _ Hj). apply gt_return_is_labelled. exact He.
Qed.

Theorem co_frame_complete : forall fixed c ans an pk,
  In an ans -> td_cent_peak c (td_geom c) (an_cent an) = Some pk ->
  In (co_row_of fixed c (td_geom c) (map an_kps ans) pk) (co_frame fixed c ans).
Proof.
  intros. unfold co_frame. apply in_map. apply co_peaks_In. exists an. split; assumption.
Qed.

Theorem co_frame_count : forall fixed c ans, (length (co_frame fixed c ans) <= length ans)%nat.
Proof.
  intros. unfold co_frame, co_peaks. rewrite map_length.
  rewrite (Permutation_length (sort_by_perm _ _ _)).
  eapply Nat.le_trans; [apply somes_length|]. rewrite map_length. apply Nat.le_refl.
Qed.

(* ------------------------------------------------------------------ F61: pinned tree (before fix ca9ba93), refuted *)
Definition wit_co : td_cfg :=
  {| td_H := 96; td_W := 128; td_mh := Some 48%Z; td_mw := Some 64%Z; td_sc := 1; td_si := 1;
     td_msc := 16; td_msi := 1; td_osc := 2; td_osi := 1; td_ch := 32; td_cw := 32;
     td_sigma := 3 # 2; td_lthr := (-1609438) # 1000000; td_thr0 := false; td_fixed_Fz := false |}.
Definition wit_A : animal := {| an_cent := (102, 72); an_kps := [Some (100, 70); Some (104, 74)] |}.
Definition wit_B : animal := {| an_cent := (42, 32); an_kps := [Some (40, 30); Some (44, 34)] |}.

(* eff_scale = 1/2: the row of animal B's centroid (returned within 2 px of it) holds animal A's
   keypoints; no row holds B's: B's keypoints are never returned *)
Theorem gt_match_mixed_refuted :
  tg_eff (td_geom wit_co) == 1 # 2 /\
  exists r, In r (co_frame false wit_co [wit_A; wit_B]) /\
    Qabs (fst (cr_cent r) - 42) <= 2 /\ Qabs (snd (cr_cent r) - 32) <= 2 /\
    cr_match r = Some 0%nat /\ Forall2 kp_eq (cr_pts r) (an_kps wit_A) /\
    (forall r', In r' (co_frame false wit_co [wit_A; wit_B]) -> cr_match r' <> Some 1%nat).
Proof.
  split; [vm_compute; reflexivity|].
  eexists. split; [left; reflexivity|].
  split; [vm_compute; discriminate|]. split; [vm_compute; discriminate|].
  split; [vm_compute; reflexivity|].
  split.
  - vm_compute. repeat constructor.
  - intros r' [H|[H|[]]]; subst r'; vm_compute; discriminate.
Qed.

(* the same frame with the comparison made in one coordinate system: both animals come back *)
Theorem gt_match_fixed_witness :
  map cr_match (co_frame true wit_co [wit_A; wit_B]) = [Some 1%nat; Some 0%nat].
Proof. vm_compute. reflexivity. Qed.

(* ------------------------------------------------------------------ channels *)
Lemma net_channels_spec : forall is_rgb ch, (ch = 1 \/ ch = 3)%Z ->
  net_channels is_rgb ch = if is_rgb then 3%Z else 1%Z.
Proof. intros is_rgb ch [->| ->]; destruct is_rgb; reflexivity. Qed.
