(* Lemmas.v (C06) — proofs about the model in Peaks.v. *)
From Coq Require Import List ZArith QArith Qabs Bool Arith Lia Lra Psatz.
From SV Require Import C06.Peaks.
Import ListNotations.
Open Scope Q_scope.

(* ------------------------------------------------------------------ *)
(* comparisons                                                         *)

Lemma Qltb_lt : forall a b, Qltb a b = true <-> a < b.
Proof.
  intros a b. unfold Qltb. rewrite negb_true_iff. split; intro H.
  - apply Qnot_le_lt. intro Hle. apply Qle_bool_iff in Hle. congruence.
  - destruct (Qle_bool b a) eqn:E; auto. apply Qle_bool_iff in E.
    exfalso. apply (Qlt_not_le _ _ H E).
Qed.

Lemma Qltb_false : forall a b, Qltb a b = false <-> b <= a.
Proof.
  intros a b. unfold Qltb. rewrite negb_false_iff. apply Qle_bool_iff.
Qed.

Lemma qmax_cases : forall a b, (qmax a b = b /\ a <= b) \/ (qmax a b = a /\ b < a).
Proof.
  intros a b. unfold qmax. destruct (Qle_bool a b) eqn:E.
  - left. split; auto. apply Qle_bool_iff; auto.
  - right. split; auto. apply Qnot_le_lt. intro X. apply Qle_bool_iff in X. congruence.
Qed.

Lemma qmax_lt : forall a b v, qmax a b < v <-> a < v /\ b < v.
Proof.
  intros a b v. destruct (qmax_cases a b) as [[-> H]|[-> H]]; split; intros; try tauto.
  - split; auto. eapply Qle_lt_trans; eauto.
  - split; auto. eapply Qlt_trans; eauto.
Qed.

Lemma fold_qmax_lt : forall l a v,
  fold_left qmax l a < v <-> a < v /\ Forall (fun w => w < v) l.
Proof.
  induction l as [|b l IH]; simpl; intros a v.
  - split; [intro; split; auto | tauto].
  - rewrite IH, qmax_lt. split.
    + intros [[? ?] ?]; auto.
    + intros [? H]; inversion H; subst; auto.
Qed.

(* ------------------------------------------------------------------ *)
(* cell lookup                                                         *)

Lemma getZ_of_nat : forall m a b, getZ m (Z.of_nat a) (Z.of_nat b) = get m a b.
Proof.
  intros. unfold getZ.
  replace (Z.of_nat a <? 0)%Z with false by (symmetry; apply Z.ltb_ge; lia).
  replace (Z.of_nat b <? 0)%Z with false by (symmetry; apply Z.ltb_ge; lia).
  simpl. now rewrite !Nat2Z.id.
Qed.

Lemma getZ_some : forall m a b w, getZ m a b = Some w ->
  (0 <= a)%Z /\ (0 <= b)%Z /\ get m (Z.to_nat a) (Z.to_nat b) = Some w.
Proof.
  intros m a b w. unfold getZ.
  destruct (a <? 0)%Z eqn:Ea; destruct (b <? 0)%Z eqn:Eb; simpl; try discriminate.
  apply Z.ltb_ge in Ea. apply Z.ltb_ge in Eb. auto.
Qed.

(* ------------------------------------------------------------------ *)
(* the brute-force specification of "strict local maximum"             *)

(* (y',x') is one of the up to eight neighbours of (y,x) *)
Definition adjacent (y x y' x' : nat) : Prop :=
  (y' <= y + 1 /\ y <= y' + 1 /\ x' <= x + 1 /\ x <= x' + 1)%nat /\ (y', x') <> (y, x).

Definition strict_local_max (m : cmap) (y x : nat) (v : Q) : Prop :=
  forall y' x' w, adjacent y x y' x' -> get m y' x' = Some w -> w < v.

Definition spec_peak (m : cmap) (thr : Q) (y x : nat) (v : Q) : Prop :=
  get m y x = Some v /\ thr < v /\ strict_local_max m y x v.

Lemma border_below_self : forall v, v + BORDER < v.
Proof. intro v. unfold BORDER. lra. Qed.

Lemma is_peak_iff : forall m thr y x v,
  is_peak m thr y x v = true <->
  Forall (fun d => padded m (Z.of_nat y + fst d) (Z.of_nat x + snd d) < v) nbrs /\ thr < v.
Proof.
  intros. unfold is_peak, dilate_at.
  rewrite andb_true_iff, !Qltb_lt, fold_qmax_lt, Forall_map.
  pose proof (border_below_self v). tauto.
Qed.

Lemma nbrs_adjacent : forall y x y' x', adjacent y x y' x' ->
  In ((Z.of_nat y' - Z.of_nat y)%Z, (Z.of_nat x' - Z.of_nat x)%Z) nbrs.
Proof.
  intros y x y' x' [[H1 [H2 [H3 H4]]] Hne].
  assert (Hy : (Z.of_nat y' - Z.of_nat y = -1 \/ Z.of_nat y' - Z.of_nat y = 0 \/
                Z.of_nat y' - Z.of_nat y = 1)%Z) by lia.
  assert (Hx : (Z.of_nat x' - Z.of_nat x = -1 \/ Z.of_nat x' - Z.of_nat x = 0 \/
                Z.of_nat x' - Z.of_nat x = 1)%Z) by lia.
  assert (Hnz : ~ ((Z.of_nat y' - Z.of_nat y = 0)%Z /\ (Z.of_nat x' - Z.of_nat x = 0)%Z)).
  { intros [A B]. apply Hne. f_equal; lia. }
  destruct Hy as [E1 | [E1 | E1]]; destruct Hx as [E2 | [E2 | E2]];
    try (exfalso; apply Hnz; split; assumption); rewrite E1, E2; simpl; auto 10.
Qed.

Lemma adjacent_nbrs : forall y x dy dx, In (dy, dx) nbrs ->
  (0 <= Z.of_nat y + dy)%Z -> (0 <= Z.of_nat x + dx)%Z ->
  adjacent y x (Z.to_nat (Z.of_nat y + dy)) (Z.to_nat (Z.of_nat x + dx)).
Proof.
  intros y x dy dx Hin Hy Hx. simpl in Hin.
  assert (Hd : (-1 <= dy <= 1)%Z /\ (-1 <= dx <= 1)%Z /\ ~ (dy = 0 /\ dx = 0)%Z).
  { repeat (destruct Hin as [Hin | Hin]; [inversion Hin; subst; lia |]). contradiction. }
  destruct Hd as [Hdy [Hdx Hnz]].
  split; [lia|]. intro E. inversion E. apply Hnz. lia.
Qed.

(* soundness needs no assumption on the values *)
Lemma is_peak_sound : forall m thr y x v,
  is_peak m thr y x v = true -> thr < v /\ strict_local_max m y x v.
Proof.
  intros m thr y x v H. apply is_peak_iff in H. destruct H as [HF Ht]. split; auto.
  intros y' x' w Hadj Hget.
  rewrite Forall_forall in HF. specialize (HF _ (nbrs_adjacent _ _ _ _ Hadj)). simpl in HF.
  unfold padded in HF.
  replace (Z.of_nat y + (Z.of_nat y' - Z.of_nat y))%Z with (Z.of_nat y') in HF by lia.
  replace (Z.of_nat x + (Z.of_nat x' - Z.of_nat x))%Z with (Z.of_nat x') in HF by lia.
  now rewrite getZ_of_nat, Hget in HF.
Qed.

(* completeness needs the peak value to exceed kornia's border value -1e4
   (only when the cell lies on the border of the map) *)
Lemma is_peak_complete : forall m thr y x v,
  BORDER < v -> thr < v -> strict_local_max m y x v -> is_peak m thr y x v = true.
Proof.
  intros m thr y x v Hb Ht Hs. apply is_peak_iff. split; auto.
  apply Forall_forall. intros [dy dx] Hin. simpl. unfold padded.
  destruct (getZ m (Z.of_nat y + dy) (Z.of_nat x + dx)) as [w|] eqn:E; auto.
  apply getZ_some in E. destruct E as [Hy [Hx E]].
  eapply Hs; [|exact E]. apply adjacent_nbrs; auto.
Qed.

(* ------------------------------------------------------------------ *)
(* list helpers                                                        *)

Lemma nodup_app {A} : forall (l1 l2 : list A),
  NoDup l1 -> NoDup l2 -> (forall a, In a l1 -> ~ In a l2) -> NoDup (l1 ++ l2).
Proof.
  induction l1 as [|a l1 IH]; simpl; intros l2 H1 H2 Hd; auto.
  inversion H1; subst. constructor.
  - rewrite in_app_iff. intros [X|X]; [contradiction|]. apply (Hd a); auto.
  - apply IH; auto.
Qed.

Lemma NoDup_flat_map_seq {A} : forall (f : nat -> list A) (key : A -> nat),
  (forall i a, In a (f i) -> key a = i) -> (forall i, NoDup (f i)) ->
  forall n a, NoDup (flat_map f (seq a n)).
Proof.
  intros f key Hk Hn. induction n as [|n IH]; intros a; simpl; [constructor|].
  apply nodup_app; auto.
  intros b Hb Hb'. apply in_flat_map in Hb'. destruct Hb' as [i [Hi Hbi]].
  apply in_seq in Hi. apply Hk in Hb. apply Hk in Hbi. lia.
Qed.

Lemma filter_flat_map {A B} : forall (g : B -> bool) (f : A -> list B) l,
  filter g (flat_map f l) = flat_map (fun a => filter g (f a)) l.
Proof.
  induction l as [|a l IH]; simpl; auto. now rewrite filter_app, IH.
Qed.

Lemma map_flat_map' {A B C} : forall (g : B -> C) (f : A -> list B) l,
  map g (flat_map f l) = flat_map (fun a => map g (f a)) l.
Proof.
  induction l as [|a l IH]; simpl; auto. now rewrite map_app, IH.
Qed.

Lemma flat_map_seq_single {A} : forall (f : nat -> list A) s n a,
  (a <= s < a + n)%nat -> (forall i, i <> s -> f i = []) -> flat_map f (seq a n) = f s.
Proof.
  intros f s. induction n as [|n IH]; intros a Hs Hz; [lia|]. simpl.
  destruct (Nat.eq_dec a s) as [->|Hne].
  - replace (flat_map f (seq (S s) n)) with (@nil A); [now rewrite app_nil_r|].
    symmetry. clear IH Hs. generalize (S s) (Nat.lt_succ_diag_r s). induction n; simpl; auto.
    intros k Hk. rewrite Hz by lia. simpl. apply IHn. lia.
  - rewrite Hz by auto. simpl. apply IH; auto. lia.
Qed.

Lemma filter_all_false {A} : forall (g : A -> bool) l,
  (forall a, In a l -> g a = false) -> filter g l = [].
Proof.
  induction l as [|a l IH]; simpl; intros H; auto.
  rewrite (H a) by auto. apply IH. auto.
Qed.

Lemma filter_all_true {A} : forall (g : A -> bool) l,
  (forall a, In a l -> g a = true) -> filter g l = l.
Proof.
  induction l as [|a l IH]; simpl; intros H; auto.
  rewrite (H a) by auto. f_equal. apply IH. auto.
Qed.

(* ------------------------------------------------------------------ *)
(* rectangular batches                                                 *)

Definition rect_map (H W : nat) (m : cmap) : Prop :=
  length m = H /\ Forall (fun row => length row = W) m.

Definition rect (C H W : nat) (cms : list (list cmap)) : Prop :=
  Forall (fun chans => length chans = C /\ Forall (rect_map H W) chans) cms.

Lemma map_at_rect : forall C H W cms s c m,
  rect C H W cms -> map_at cms s c = Some m ->
  (s < length cms)%nat /\ (c < C)%nat /\ rect_map H W m.
Proof.
  intros C H W cms s c m HR Hm. unfold map_at in Hm.
  destruct (nth_error cms s) as [chans|] eqn:E; [|discriminate].
  assert (Hs : (s < length cms)%nat) by (apply nth_error_Some; congruence).
  unfold rect in HR. rewrite Forall_forall in HR.
  destruct (HR chans (nth_error_In _ _ E)) as [HC HF].
  split; auto. split.
  - rewrite <- HC. apply nth_error_Some. congruence.
  - rewrite Forall_forall in HF. apply HF. eapply nth_error_In; eauto.
Qed.

Lemma get_rect : forall H W m y x v, rect_map H W m -> get m y x = Some v -> (y < H /\ x < W)%nat.
Proof.
  intros H W m y x v [HH HF] Hg. unfold get in Hg.
  destruct (nth_error m y) as [row|] eqn:E; [|discriminate].
  split.
  - rewrite <- HH. apply nth_error_Some. congruence.
  - rewrite Forall_forall in HF. rewrite <- (HF row (nth_error_In _ _ E)).
    apply nth_error_Some. congruence.
Qed.

(* ------------------------------------------------------------------ *)
(* membership                                                          *)

Definition p_x (p : peak) : nat := let '(x, _, _, _, _) := p in x.
Definition p_y (p : peak) : nat := let '(_, y, _, _, _) := p in y.
Definition p_s (p : peak) : nat := let '(_, _, _, s, _) := p in s.
Definition p_c (p : peak) : nat := let '(_, _, _, _, c) := p in c.

Lemma in_cand : forall cms thr s y x c p,
  In p (cand cms thr s y x c) <->
  exists m v, map_at cms s c = Some m /\ get m y x = Some v /\
              is_peak m thr y x v = true /\ p = (x, y, v, s, c).
Proof.
  intros. unfold cand. split.
  - destruct (map_at cms s c) as [m|] eqn:E1; [|contradiction].
    destruct (get m y x) as [v|] eqn:E2; [|contradiction].
    destruct (is_peak m thr y x v) eqn:E; [|contradiction].
    intros [<-|[]]. exists m, v. repeat split; auto.
  - intros [m [v [-> [-> [-> ->]]]]]. left; auto.
Qed.

Lemma cand_idx : forall cms thr s y x c p, In p (cand cms thr s y x c) ->
  p_s p = s /\ p_y p = y /\ p_x p = x /\ p_c p = c.
Proof.
  intros. apply in_cand in H. destruct H as [m [v [_ [_ [_ ->]]]]]. simpl. auto.
Qed.

Lemma cand_nodup : forall cms thr s y x c, NoDup (cand cms thr s y x c).
Proof.
  intros. unfold cand. destruct (map_at cms s c); [|constructor].
  destruct (get c0 y x); [|constructor]. destruct (is_peak c0 thr y x q); repeat constructor.
  intros [].
Qed.

Definition level_c cms thr C s y x := flat_map (fun c => cand cms thr s y x c) (seq 0 C).
Definition level_x cms thr C W s y := flat_map (fun x => level_c cms thr C s y x) (seq 0 W).
Definition level_y cms thr C H W s := flat_map (fun y => level_x cms thr C W s y) (seq 0 H).

Lemma rough_levels : forall cms thr C H W, dims cms = (C, H, W) ->
  local_peaks_rough cms thr = flat_map (fun s => level_y cms thr C H W s) (seq 0 (length cms)).
Proof. intros. unfold local_peaks_rough. rewrite H0. reflexivity. Qed.

Lemma in_level_c : forall cms thr C s y x p,
  In p (level_c cms thr C s y x) <-> exists c, (c < C)%nat /\ In p (cand cms thr s y x c).
Proof.
  intros. unfold level_c. rewrite in_flat_map. split; intros [c [A B]]; exists c.
  - apply in_seq in A. split; auto. lia.
  - split; auto. apply in_seq. lia.
Qed.

Lemma in_level_x : forall cms thr C W s y p,
  In p (level_x cms thr C W s y) <-> exists x, (x < W)%nat /\ In p (level_c cms thr C s y x).
Proof.
  intros. unfold level_x. rewrite in_flat_map. split; intros [c [A B]]; exists c.
  - apply in_seq in A. split; auto. lia.
  - split; auto. apply in_seq. lia.
Qed.

Lemma in_level_y : forall cms thr C H W s p,
  In p (level_y cms thr C H W s) <-> exists y, (y < H)%nat /\ In p (level_x cms thr C W s y).
Proof.
  intros. unfold level_y. rewrite in_flat_map. split; intros [c [A B]]; exists c.
  - apply in_seq in A. split; auto. lia.
  - split; auto. apply in_seq. lia.
Qed.

Lemma level_c_idx : forall cms thr C s y x p, In p (level_c cms thr C s y x) ->
  p_s p = s /\ p_y p = y /\ p_x p = x.
Proof.
  intros. apply in_level_c in H. destruct H as [c [_ H]]. apply cand_idx in H. tauto.
Qed.

Lemma level_x_idx : forall cms thr C W s y p, In p (level_x cms thr C W s y) ->
  p_s p = s /\ p_y p = y.
Proof.
  intros. apply in_level_x in H. destruct H as [x [_ H]]. apply level_c_idx in H. tauto.
Qed.

Lemma level_y_idx : forall cms thr C H W s p, In p (level_y cms thr C H W s) -> p_s p = s.
Proof.
  intros. apply in_level_y in H0. destruct H0 as [y [_ H0]]. apply level_x_idx in H0. tauto.
Qed.

(* raw membership: no well-formedness needed *)
Lemma in_rough_raw : forall cms thr C H W p, dims cms = (C, H, W) ->
  (In p (local_peaks_rough cms thr) <->
   exists s y x c, (s < length cms)%nat /\ (y < H)%nat /\ (x < W)%nat /\ (c < C)%nat /\
                   In p (cand cms thr s y x c)).
Proof.
  intros cms thr C H W p Hd. rewrite (rough_levels _ _ _ _ _ Hd), in_flat_map. split.
  - intros [s [Hs Hp]]. apply in_seq in Hs.
    apply in_level_y in Hp. destruct Hp as [y [Hy Hp]].
    apply in_level_x in Hp. destruct Hp as [x [Hx Hp]].
    apply in_level_c in Hp. destruct Hp as [c [Hc Hp]].
    exists s, y, x, c. repeat split; auto. lia.
  - intros [s [y [x [c [Hs [Hy [Hx [Hc Hp]]]]]]]]. exists s. split; [apply in_seq; lia|].
    apply in_level_y. exists y. split; auto. apply in_level_x. exists x. split; auto.
    apply in_level_c. exists c. split; auto.
Qed.

(* Theorem (a): sound and complete against the brute-force specification *)
Lemma rough_sound : forall cms thr C H W x y v s c, dims cms = (C, H, W) ->
  In (x, y, v, s, c) (local_peaks_rough cms thr) ->
  exists m, map_at cms s c = Some m /\ spec_peak m thr y x v.
Proof.
  intros cms thr C H W x y v s c Hd Hin.
  apply (in_rough_raw _ _ _ _ _ _ Hd) in Hin.
  destruct Hin as [s' [y' [x' [c' [_ [_ [_ [_ Hp]]]]]]]].
  apply in_cand in Hp. destruct Hp as [m [v' [Hm [Hg [Hpk E]]]]]. inversion E; subst.
  exists m. split; auto. apply is_peak_sound in Hpk. unfold spec_peak. tauto.
Qed.

Lemma rough_complete : forall cms thr C H W x y v s c m, dims cms = (C, H, W) ->
  rect C H W cms -> map_at cms s c = Some m -> BORDER < v -> spec_peak m thr y x v ->
  In (x, y, v, s, c) (local_peaks_rough cms thr).
Proof.
  intros cms thr C H W x y v s c m Hd HR Hm Hb [Hg [Ht Hs]].
  apply (in_rough_raw _ _ _ _ _ _ Hd).
  destruct (map_at_rect _ _ _ _ _ _ _ HR Hm) as [Hs' [Hc Hrm]].
  destruct (get_rect _ _ _ _ _ _ Hrm Hg) as [Hy Hx].
  exists s, y, x, c. repeat split; auto.
  apply in_cand. exists m, v. repeat split; auto. apply is_peak_complete; auto.
Qed.

Definition above_border (cms : list (list cmap)) : Prop :=
  forall s c m y x v, map_at cms s c = Some m -> get m y x = Some v -> BORDER < v.

Lemma rough_iff : forall cms thr C H W, dims cms = (C, H, W) -> rect C H W cms ->
  above_border cms ->
  forall x y v s c,
  In (x, y, v, s, c) (local_peaks_rough cms thr) <->
  exists m, map_at cms s c = Some m /\ spec_peak m thr y x v.
Proof.
  intros cms thr C H W Hd HR HB x y v s c. split.
  - apply (rough_sound _ _ _ _ _ _ _ _ _ _ Hd).
  - intros [m [Hm Hs]]. eapply rough_complete; eauto.
    destruct Hs as [Hg _]. eapply HB; eauto.
Qed.

(* Theorem (b): every peak once (even: every index quadruple at most once) *)
Definition p_key (p : peak) : nat * nat * nat * nat := (p_s p, p_y p, p_x p, p_c p).

Lemma level_c_nodup : forall cms thr C s y x, NoDup (level_c cms thr C s y x).
Proof.
  intros. unfold level_c. apply (NoDup_flat_map_seq _ p_c).
  - intros i a Ha. apply cand_idx in Ha. tauto.
  - intro. apply cand_nodup.
Qed.

Lemma level_x_nodup : forall cms thr C W s y, NoDup (level_x cms thr C W s y).
Proof.
  intros. unfold level_x. apply (NoDup_flat_map_seq _ p_x).
  - intros i a Ha. apply level_c_idx in Ha. tauto.
  - intro. apply level_c_nodup.
Qed.

Lemma level_y_nodup : forall cms thr C H W s, NoDup (level_y cms thr C H W s).
Proof.
  intros. unfold level_y. apply (NoDup_flat_map_seq _ p_y).
  - intros i a Ha. apply level_x_idx in Ha. tauto.
  - intro. apply level_x_nodup.
Qed.

Lemma rough_nodup : forall cms thr, NoDup (local_peaks_rough cms thr).
Proof.
  intros. destruct (dims cms) as [[C H] W] eqn:Hd. rewrite (rough_levels _ _ _ _ _ Hd).
  apply (NoDup_flat_map_seq _ p_s).
  - intros i a Ha. apply level_y_idx in Ha. auto.
  - intro. apply level_y_nodup.
Qed.

(* a cell is reported at most once, whatever the value attached to it *)
Lemma rough_key_unique : forall cms thr p q,
  In p (local_peaks_rough cms thr) -> In q (local_peaks_rough cms thr) ->
  p_key p = p_key q -> p = q.
Proof.
  intros cms thr p q Hp Hq Hk. destruct (dims cms) as [[C H] W] eqn:Hd.
  apply (in_rough_raw _ _ _ _ _ _ Hd) in Hp. apply (in_rough_raw _ _ _ _ _ _ Hd) in Hq.
  destruct Hp as [s [y [x [c [_ [_ [_ [_ Hp]]]]]]]].
  destruct Hq as [s' [y' [x' [c' [_ [_ [_ [_ Hq]]]]]]]].
  apply in_cand in Hp. apply in_cand in Hq.
  destruct Hp as [m [v [Hm [Hg [_ ->]]]]]. destruct Hq as [m' [v' [Hm' [Hg' [_ ->]]]]].
  unfold p_key in Hk. simpl in Hk. inversion Hk; subst. congruence.
Qed.

(* ------------------------------------------------------------------ *)
(* Theorem (c): locality                                               *)

Definition on_map (s c : nat) (p : peak) : bool := (p_s p =? s)%nat && (p_c p =? c)%nat.
Definition reindex (s c : nat) (p : peak) : peak := let '(x, y, v, _, _) := p in (x, y, v, s, c).

Lemma dims_single : forall H W m, rect_map H W m -> (0 < H)%nat -> dims [[m]] = (1%nat, H, W).
Proof.
  intros H W m [HH HF] Hpos. unfold dims. simpl. rewrite HH.
  destruct m as [|r m']; simpl in *; [lia|]. inversion HF; subst. reflexivity.
Qed.

Lemma cand_single : forall cms thr s c m y x, map_at cms s c = Some m ->
  map (reindex s c) (cand [[m]] thr 0 y x 0) = cand cms thr s y x c.
Proof.
  intros. unfold cand. rewrite H. simpl.
  destruct (get m y x) as [v|]; auto. destruct (is_peak m thr y x v); auto.
Qed.

Lemma filter_level_c : forall cms thr C s y x c, (c < C)%nat ->
  filter (on_map s c) (level_c cms thr C s y x) = cand cms thr s y x c.
Proof.
  intros. unfold level_c. rewrite filter_flat_map.
  rewrite (flat_map_seq_single _ c C 0); [ | lia | ].
  - apply filter_all_true. intros a Ha. apply cand_idx in Ha. unfold on_map.
    destruct Ha as [-> [_ [_ ->]]]. now rewrite !Nat.eqb_refl.
  - intros i Hi. apply filter_all_false. intros a Ha. apply cand_idx in Ha. unfold on_map.
    destruct Ha as [_ [_ [_ ->]]]. apply andb_false_iff. right. now apply Nat.eqb_neq.
Qed.

Lemma rough_locality : forall cms thr C H W s c m, dims cms = (C, H, W) -> rect C H W cms ->
  map_at cms s c = Some m ->
  filter (on_map s c) (local_peaks_rough cms thr) =
  map (reindex s c) (local_peaks_rough [[m]] thr).
Proof.
  intros cms thr C H W s c m Hd HR Hm.
  destruct (map_at_rect _ _ _ _ _ _ _ HR Hm) as [Hs [Hc Hrm]].
  rewrite (rough_levels _ _ _ _ _ Hd), filter_flat_map.
  rewrite (flat_map_seq_single _ s (length cms) 0); [ | lia | ].
  2:{ intros i Hi. apply filter_all_false. intros a Ha. apply level_y_idx in Ha. unfold on_map.
      rewrite Ha. apply andb_false_iff. left. now apply Nat.eqb_neq. }
  unfold level_y, level_x. rewrite filter_flat_map.
  destruct (Nat.eq_dec H 0) as [->|HH].
  - simpl. unfold local_peaks_rough. destruct Hrm as [Hl _]. apply length_zero_iff_nil in Hl. subst m.
    reflexivity.
  - rewrite (rough_levels [[m]] thr 1 H W) by (apply dims_single; auto; lia).
    simpl. rewrite app_nil_r. unfold level_y, level_x. rewrite map_flat_map'.
    apply flat_map_ext. intro y. rewrite filter_flat_map, map_flat_map'.
    apply flat_map_ext. intro x. rewrite filter_level_c by auto.
    unfold level_c. simpl. rewrite app_nil_r. symmetry. apply cand_single; auto.
Qed.

(* ------------------------------------------------------------------ *)
(* Theorem (d): refinement keeps number, order, values and indices, and
   crops the patch of peak k from the map (s_k, c_k)                    *)

Definition strip_rough (p : peak) : Q * nat * nat := let '(_, _, v, s, c) := p in (v, s, c).
Definition strip_refined (p : rpeak) : Q * nat * nat := let '(_, v, s, c) := p in (v, s, c).

Lemma refine_keeps_indices : forall cms thr r,
  map strip_refined (local_peaks cms thr r) = map strip_rough (local_peaks_rough cms thr).
Proof.
  intros. unfold local_peaks. destruct (dims cms) as [[C H] W]. rewrite map_map.
  apply map_ext. intros [[[[x y] v] s] c]. reflexivity.
Qed.

Lemma refine_length : forall cms thr r,
  length (local_peaks cms thr r) = length (local_peaks_rough cms thr).
Proof.
  intros. unfold local_peaks. destruct (dims cms) as [[C H] W]. apply map_length.
Qed.

Lemma nth_error_concat_rect {A} : forall (ll : list (list A)) C s c l a,
  Forall (fun l => length l = C) ll -> nth_error ll s = Some l -> nth_error l c = Some a ->
  nth_error (concat ll) (s * C + c) = Some a.
Proof.
  induction ll as [|l0 ll IH]; intros C s c l a HF Hs Hc.
  - destruct s; discriminate.
  - inversion HF; subst. destruct s as [|s]; simpl in *.
    + inversion Hs; subst. rewrite nth_error_app1; auto. apply nth_error_Some. congruence.
    + rewrite nth_error_app2 by lia.
      replace (length l0 + s * length l0 + c - length l0)%nat with (s * length l0 + c)%nat by lia.
      eapply IH; eauto.
Qed.

Lemma box_index_correct : forall cms C H W s c m, rect C H W cms -> map_at cms s c = Some m ->
  nth_error (concat cms) (box_index C s c) = Some m.
Proof.
  intros cms C H W s c m HR Hm. unfold map_at in Hm.
  destruct (nth_error cms s) as [chans|] eqn:E; [|discriminate].
  unfold box_index. eapply nth_error_concat_rect; eauto.
  unfold rect in HR. eapply Forall_impl; [|exact HR]. simpl. tauto.
Qed.

Lemma refine_pointwise : forall cms thr r C H W k x y v s c,
  dims cms = (C, H, W) -> rect C H W cms ->
  nth_error (local_peaks_rough cms thr) k = Some (x, y, v, s, c) ->
  exists m, map_at cms s c = Some m /\ get m y x = Some v /\
            nth_error (local_peaks cms thr r) k = Some (refine_at m x y r, v, s, c).
Proof.
  intros cms thr r C H W k x y v s c Hd HR Hk.
  pose proof (nth_error_In _ _ Hk) as Hin.
  destruct (rough_sound _ _ _ _ _ _ _ _ _ _ Hd Hin) as [m [Hm [Hg _]]].
  exists m. split; auto. split; auto.
  unfold local_peaks. rewrite Hd. rewrite nth_error_map, Hk. simpl.
  now rewrite (box_index_correct _ _ _ _ _ _ _ HR Hm).
Qed.

(* ------------------------------------------------------------------ *)
(* Theorem (e): a convex combination stays inside the patch            *)

Lemma qsum_nonneg : forall l, Forall (fun w => 0 <= w) l -> 0 <= qsum l.
Proof.
  induction l as [|a l IH]; simpl; intros H; [lra|]. inversion H; subst. specialize (IH H3). lra.
Qed.

Lemma dot_cons : forall g gs w ws, dot (g :: gs) (w :: ws) = g * w + dot gs ws.
Proof. reflexivity. Qed.

Lemma dot_bounds : forall lo hi gs ws, lo <= 0 -> 0 <= hi ->
  Forall (fun g => lo <= g /\ g <= hi) gs -> Forall (fun w => 0 <= w) ws ->
  lo * qsum ws <= dot gs ws /\ dot gs ws <= hi * qsum ws.
Proof.
  intros lo hi gs ws Hlo Hhi. revert ws.
  induction gs as [|g gs IH]; intros ws Hg Hw.
  - pose proof (qsum_nonneg _ Hw). unfold dot. simpl. split; nra.
  - destruct ws as [|w ws].
    + unfold dot. simpl. split; nra.
    + inversion Hg; subst. inversion Hw; subst. destruct (IH ws H2 H4) as [A B].
      rewrite dot_cons. simpl qsum. destruct H1. split; nra.
Qed.

Lemma numx_bounds : forall lo hi gs P, lo <= 0 -> 0 <= hi ->
  Forall (fun g => lo <= g /\ g <= hi) gs -> Forall (Forall (fun w => 0 <= w)) P ->
  lo * qsum (map qsum P) <= qsum (map (dot gs) P) /\
  qsum (map (dot gs) P) <= hi * qsum (map qsum P).
Proof.
  intros lo hi gs P Hlo Hhi Hg. induction P as [|row P IH]; intros HP; simpl.
  - split; lra.
  - inversion HP; subst. destruct (IH H2) as [A B].
    destruct (dot_bounds lo hi gs row Hlo Hhi Hg H1) as [C D]. split; nra.
Qed.

Lemma gv_range : forall r, Forall (fun g => inject_Z (- Z.of_nat r) <= g /\ g <= inject_Z (Z.of_nat r)) (gv r).
Proof.
  intro r. unfold gv, zrange. rewrite !Forall_map. apply Forall_forall. intros k Hk.
  apply in_seq in Hk. rewrite <- !Zle_Qle. lia.
Qed.

Lemma Qeq_bool_false_neq : forall a b, Qeq_bool a b = false -> ~ a == b.
Proof. intros a b H E. apply Qeq_bool_iff in E. congruence. Qed.

Lemma offset_bound : forall r P dx dy,
  Forall (Forall (fun w => 0 <= w)) P -> 0 < qsum (map qsum P) ->
  integral_offset (gv r) (gv r) P = Some (dx, dy) ->
  Qabs dx <= inject_Z (Z.of_nat r) /\ Qabs dy <= inject_Z (Z.of_nat r).
Proof.
  intros r P dx dy HP Hz Ho. unfold integral_offset in Ho.
  destruct (Qeq_bool (qsum (map qsum P)) 0); [discriminate|]. inversion Ho; subst. clear Ho.
  set (z := qsum (map qsum P)) in *. set (R := inject_Z (Z.of_nat r)).
  assert (Hlo : inject_Z (- Z.of_nat r) <= 0) by (change 0 with (inject_Z 0); rewrite <- Zle_Qle; lia).
  assert (Hhi : 0 <= R) by (change 0 with (inject_Z 0); unfold R; rewrite <- Zle_Qle; lia).
  assert (Hopp : inject_Z (- Z.of_nat r) == - R) by (unfold R; rewrite inject_Z_opp; reflexivity).
  destruct (numx_bounds _ _ _ P Hlo Hhi (gv_range r) HP) as [A B]. fold z in A, B.
  assert (HS : Forall (fun w => 0 <= w) (map qsum P)).
  { rewrite Forall_map. eapply Forall_impl; [|exact HP]. apply qsum_nonneg. }
  destruct (dot_bounds _ _ _ _ Hlo Hhi (gv_range r) HS) as [C D]. fold z in C, D.
  rewrite Hopp in A, C.
  split; apply Qabs_Qle_condition; split.
  - apply Qle_shift_div_l; auto.
  - apply Qle_shift_div_r; auto.
  - apply Qle_shift_div_l; auto.
  - apply Qle_shift_div_r; auto.
Qed.

Lemma qsum_ge_member : forall l a, Forall (fun w => 0 <= w) l -> In a l -> a <= qsum l.
Proof.
  induction l as [|b l IH]; simpl; intros a HF Hin; [contradiction|].
  inversion HF; subst. destruct Hin as [->|Hin].
  - pose proof (qsum_nonneg _ H2). lra.
  - specialize (IH a H2 Hin). lra.
Qed.

Lemma zrange_zero : forall r, In 0%Z (zrange r).
Proof.
  intro r. unfold zrange. apply in_map_iff. exists r. split; [lia|]. apply in_seq. lia.
Qed.

Lemma nonneg_patch_iff : forall P, nonneg_patch P = true <-> Forall (Forall (fun w => 0 <= w)) P.
Proof.
  intro P. unfold nonneg_patch. rewrite forallb_forall, Forall_forall.
  split; intros H row Hr.
  - specialize (H row Hr). rewrite forallb_forall in H. apply Forall_forall. intros w Hw.
    apply Qle_bool_iff. auto.
  - specialize (H row Hr). rewrite Forall_forall in H. apply forallb_forall. intros w Hw.
    apply Qle_bool_iff. auto.
Qed.

Lemma patch_sum_pos : forall m y x r,
  Forall (Forall (fun w => 0 <= w)) (patch m y x r) ->
  0 < cell0 m (Z.of_nat y) (Z.of_nat x) -> 0 < qsum (map qsum (patch m y x r)).
Proof.
  intros m y x r HP Hc.
  set (row0 := map (fun dx => cell0 m (Z.of_nat y + 0) (Z.of_nat x + dx)) (zrange r)).
  assert (Hrow : In row0 (patch m y x r)).
  { unfold patch. apply in_map_iff. exists 0%Z. split; auto. apply zrange_zero. }
  assert (Hcell : In (cell0 m (Z.of_nat y) (Z.of_nat x)) row0).
  { unfold row0. apply in_map_iff. exists 0%Z. split; [now rewrite !Z.add_0_r | apply zrange_zero]. }
  rewrite Forall_forall in HP. pose proof (HP _ Hrow) as Hr0.
  pose proof (qsum_ge_member _ _ Hr0 Hcell) as H1.
  assert (HS : Forall (fun w => 0 <= w) (map qsum (patch m y x r))).
  { rewrite Forall_map. apply Forall_forall. intros row Hr. apply qsum_nonneg. auto. }
  assert (H2 : qsum row0 <= qsum (map qsum (patch m y x r))).
  { apply qsum_ge_member; auto. apply in_map. auto. }
  lra.
Qed.

Lemma refine_at_bound : forall m x y r px py,
  selector_F9 m y x r = false -> refine_at m x y r = Some (px, py) ->
  Qabs (px - inject_Z (Z.of_nat x)) <= inject_Z (Z.of_nat r) /\
  Qabs (py - inject_Z (Z.of_nat y)) <= inject_Z (Z.of_nat r).
Proof.
  intros m x y r px py Hsel Hr. unfold selector_F9 in Hsel.
  apply negb_false_iff, andb_true_iff in Hsel. destruct Hsel as [Hnn Hc].
  apply nonneg_patch_iff in Hnn. apply Qltb_lt in Hc.
  unfold refine_at in Hr.
  destruct (integral_offset (gv r) (gv r) (patch m y x r)) as [[dx dy]|] eqn:E; [|discriminate].
  inversion Hr; subst. clear Hr.
  destruct (offset_bound r _ dx dy Hnn (patch_sum_pos _ _ _ _ Hnn Hc) E) as [A B].
  split.
  - assert (X : inject_Z (Z.of_nat x) + dx - inject_Z (Z.of_nat x) == dx) by ring. now rewrite X.
  - assert (X : inject_Z (Z.of_nat y) + dy - inject_Z (Z.of_nat y) == dy) by ring. now rewrite X.
Qed.

(* outside the selector the refined point also exists (no division by zero) *)
Lemma refine_at_defined : forall m x y r,
  selector_F9 m y x r = false -> exists px py, refine_at m x y r = Some (px, py).
Proof.
  intros m x y r Hsel. unfold selector_F9 in Hsel.
  apply negb_false_iff, andb_true_iff in Hsel. destruct Hsel as [Hnn Hc].
  apply nonneg_patch_iff in Hnn. apply Qltb_lt in Hc.
  pose proof (patch_sum_pos _ _ _ _ Hnn Hc) as Hz.
  unfold refine_at, integral_offset.
  destruct (Qeq_bool (qsum (map qsum (patch m y x r))) 0) eqn:E.
  - apply Qeq_bool_iff in E. rewrite E in Hz. exfalso. apply (Qlt_irrefl 0 Hz).
  - eexists. eexists. reflexivity.
Qed.

Lemma half_patch : forall r, inject_Z (Z.of_nat r) < inject_Z (Z.of_nat (2 * r + 1)) / 2.
Proof.
  intro r. apply Qlt_shift_div_l; [lra|].
  rewrite Nat2Z.inj_add, Nat2Z.inj_mul, inject_Z_plus, inject_Z_mult.
  change (Z.of_nat 2) with 2%Z. change (Z.of_nat 1) with 1%Z.
  change (inject_Z 2) with 2. change (inject_Z 1) with 1. lra.
Qed.

(* a map without negative values has no negative patch value (0 outside) *)
Definition nonneg_map (m : cmap) : Prop := forall y x v, get m y x = Some v -> 0 <= v.

Lemma cell0_nonneg : forall m a b, nonneg_map m -> 0 <= cell0 m a b.
Proof.
  intros m a b H. unfold cell0. destruct (getZ m a b) as [v|] eqn:E; [|lra].
  apply getZ_some in E. destruct E as [_ [_ E]]. eapply H; eauto.
Qed.

Lemma selector_F9_nonneg_map : forall m y x r v,
  nonneg_map m -> get m y x = Some v -> 0 < v -> selector_F9 m y x r = false.
Proof.
  intros m y x r v Hn Hg Hv. unfold selector_F9. apply negb_false_iff, andb_true_iff. split.
  - apply nonneg_patch_iff. unfold patch. rewrite Forall_map. apply Forall_forall. intros dy _.
    rewrite Forall_map. apply Forall_forall. intros dx _. apply cell0_nonneg; auto.
  - apply Qltb_lt. unfold cell0. now rewrite getZ_of_nat, Hg.
Qed.

Lemma refine_bound_outside_F9 : forall m x y r,
  selector_F9 m y x r = false ->
  exists px py, refine_at m x y r = Some (px, py) /\
    Qabs (px - inject_Z (Z.of_nat x)) <= inject_Z (Z.of_nat r) /\
    Qabs (py - inject_Z (Z.of_nat y)) <= inject_Z (Z.of_nat r) /\
    inject_Z (Z.of_nat r) < inject_Z (Z.of_nat (2 * r + 1)) / 2.
Proof.
  intros m x y r Hsel. destruct (refine_at_defined _ _ _ _ Hsel) as [px [py E]].
  exists px, py. split; auto. destruct (refine_at_bound _ _ _ _ _ _ Hsel E) as [A B].
  split; auto. split; auto. apply half_patch.
Qed.

(* finding F9: centre 1, right neighbour -7/8, p = 5: the patch sum is 1/8 and the
   point moves by -7 px *)
Definition f9_witness : cmap :=
  [[0;0;0;0;0];[0;0;0;0;0];[0;0;1;(-7)#8;0];[0;0;0;0;0];[0;0;0;0;0]].

Lemma refine_bound_refuted :
  exists cms thr r x y v s c px py,
    nth_error (local_peaks_rough cms thr) 0 = Some (x, y, v, s, c) /\
    nth_error (local_peaks cms thr r) 0 = Some (Some (px, py), v, s, c) /\
    inject_Z (Z.of_nat (2 * r + 1)) / 2 < Qabs (px - inject_Z (Z.of_nat x)).
Proof.
  exists [[f9_witness]], (1#2), 2%nat.
  do 7 eexists. split; [vm_compute; reflexivity|]. split; [vm_compute; reflexivity|].
  vm_compute. reflexivity.
Qed.

Lemma border_value_matters :
  local_peaks_rough [[ [[ (-20000) # 1 ]] ]] ((-30000) # 1) = [].
Proof. vm_compute. reflexivity. Qed.

Definition above_border_b (cms : list (list cmap)) : bool :=
  forallb (forallb (forallb (forallb (Qltb BORDER)))) cms.

Lemma above_border_b_sound : forall cms, above_border_b cms = true -> above_border cms.
Proof.
  intros cms Hb s c m y x v Hm Hg. unfold above_border_b in Hb.
  unfold map_at in Hm. destruct (nth_error cms s) as [chans|] eqn:E1; [|discriminate].
  unfold get in Hg. destruct (nth_error m y) as [row|] eqn:E2; [|discriminate].
  rewrite forallb_forall in Hb. specialize (Hb _ (nth_error_In _ _ E1)).
  rewrite forallb_forall in Hb. specialize (Hb _ (nth_error_In _ _ Hm)).
  rewrite forallb_forall in Hb. specialize (Hb _ (nth_error_In _ _ E2)).
  rewrite forallb_forall in Hb. specialize (Hb _ (nth_error_In _ _ Hg)).
  now apply Qltb_lt.
Qed.

Lemma ex_hypotheses :
  let cms := [[ [[0;0;0];[0;1;0];[0;0;2]] ; [[3;0;0];[0;0;0];[0;0;0]] ]] in
  dims cms = (2, 3, 3)%nat /\ rect 2 3 3 cms /\ above_border cms.
Proof.
  simpl. split; [reflexivity|]. split.
  - repeat constructor.
  - apply above_border_b_sound. vm_compute. reflexivity.
Qed.

(* ------------------------------------------------------------------ *)
(* order of the output: torch.where on the (B,H,W,C) permutation lists
   the peaks in lexicographic (sample, y, x, channel) order             *)
From Coq Require Import Sorted.

Definition key_lt (p q : peak) : Prop :=
  (p_s p < p_s q)%nat \/
  (p_s p = p_s q /\ ((p_y p < p_y q)%nat \/
  (p_y p = p_y q /\ ((p_x p < p_x q)%nat \/
  (p_x p = p_x q /\ (p_c p < p_c q)%nat))))).

Lemma sorted_app {A} (R : A -> A -> Prop) : forall l1 l2,
  StronglySorted R l1 -> StronglySorted R l2 ->
  (forall a b, In a l1 -> In b l2 -> R a b) -> StronglySorted R (l1 ++ l2).
Proof.
  induction l1 as [|a l1 IH]; simpl; intros l2 H1 H2 Hc; auto.
  inversion H1; subst. constructor.
  - apply IH; auto.
  - apply Forall_app. split; auto. apply Forall_forall. intros b Hb. apply Hc; auto.
Qed.

Lemma sorted_flat_map_seq {A} (R : A -> A -> Prop) (f : nat -> list A) :
  (forall i, StronglySorted R (f i)) ->
  (forall i j a b, (i < j)%nat -> In a (f i) -> In b (f j) -> R a b) ->
  forall n a0, StronglySorted R (flat_map f (seq a0 n)).
Proof.
  intros Hs Hc. induction n as [|n IH]; intros a0; simpl; [constructor|].
  apply sorted_app; auto. intros a b Ha Hb. apply in_flat_map in Hb.
  destruct Hb as [j [Hj Hb]]. apply in_seq in Hj. apply (Hc a0 j a b); auto. lia.
Qed.

Lemma cand_sorted : forall cms thr s y x c, StronglySorted key_lt (cand cms thr s y x c).
Proof.
  intros. unfold cand. destruct (map_at cms s c); [|constructor].
  destruct (get c0 y x); [|constructor]. destruct (is_peak c0 thr y x q); repeat constructor.
Qed.

Lemma rough_sorted : forall cms thr, StronglySorted key_lt (local_peaks_rough cms thr).
Proof.
  intros. destruct (dims cms) as [[C H] W] eqn:Hd. rewrite (rough_levels _ _ _ _ _ Hd).
  apply sorted_flat_map_seq.
  - intro s. unfold level_y. apply sorted_flat_map_seq.
    + intro y. unfold level_x. apply sorted_flat_map_seq.
      * intro x. unfold level_c. apply sorted_flat_map_seq.
        -- intro c. apply cand_sorted.
        -- intros i j a b Hij Ha Hb. apply cand_idx in Ha. apply cand_idx in Hb.
           unfold key_lt. destruct Ha as [-> [-> [-> ->]]]. destruct Hb as [-> [-> [-> ->]]]. lia.
      * intros i j a b Hij Ha Hb. apply level_c_idx in Ha. apply level_c_idx in Hb.
        unfold key_lt. destruct Ha as [-> [-> ->]]. destruct Hb as [-> [-> ->]]. lia.
    + intros i j a b Hij Ha Hb. apply level_x_idx in Ha. apply level_x_idx in Hb.
      unfold key_lt. destruct Ha as [-> ->]. destruct Hb as [-> ->]. lia.
  - intros i j a b Hij Ha Hb. apply level_y_idx in Ha. apply level_y_idx in Hb.
    unfold key_lt. rewrite Ha, Hb. lia.
Qed.

(* ------------------------------------------------------------------ *)
(* round 4 (review): completeness under the per-value domain hypothesis *)

Lemma is_peak_complete_dom : forall m thr y x v,
  in_value_domain v -> thr < v -> strict_local_max m y x v -> is_peak m thr y x v = true.
Proof. intros m thr y x v [Hb _]. now apply is_peak_complete. Qed.

Lemma rough_complete_dom : forall cms thr C H W x y v s c m, dims cms = (C, H, W) ->
  rect C H W cms -> map_at cms s c = Some m -> in_value_domain v -> spec_peak m thr y x v ->
  In (x, y, v, s, c) (local_peaks_rough cms thr).
Proof. intros until m. intros Hd HR Hm [Hb _]. now apply (rough_complete _ _ _ _ _ _ _ _ _ _ _ Hd HR Hm). Qed.

Lemma rough_iff_dom : forall cms thr C H W, dims cms = (C, H, W) -> rect C H W cms ->
  forall x y v s c, in_value_domain v ->
  (In (x, y, v, s, c) (local_peaks_rough cms thr) <->
   exists m, map_at cms s c = Some m /\ spec_peak m thr y x v).
Proof.
  intros cms thr C H W Hd HR x y v s c Hv. split.
  - apply (rough_sound _ _ _ _ _ _ _ _ _ _ Hd).
  - intros [m [Hm Hs]]. eapply rough_complete_dom; eauto.
Qed.

Lemma ex_value_domain : in_value_domain 3 /\ in_value_domain VMAX /\ ~ in_value_domain BORDER.
Proof.
  unfold in_value_domain, VMAX, BORDER. repeat split; unfold Qlt, Qle; simpl; lia.
Qed.
