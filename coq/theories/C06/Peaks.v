(* Peaks.v (C06) — executable model of the multi-peak detector of
   sleap_nn/inference/peak_finding.py (no proofs in this file).

     find_local_peaks_rough(cms, threshold)
        kernel   = [[1,1,1],[1,0,1],[1,1,1]]
        max_img  = kornia.morphology.dilation(cms.reshape(-1,1,H,W), kernel)
        mask     = (cms > max_img) & (cms > threshold)
        subs     = torch.where(mask.permute(0,2,3,1))   -- lexicographic (sample, y, x, channel)
        points   = subs[:, [2,1]]  (x, y);  vals = cms[s, c, y, x];  sample = s;  channel = c
     find_local_peaks(cms, threshold, "integral", p)
        bboxes   = make_centered_bboxes(points, p, p)    -- integer corners for odd p = 2r+1
        crops    = crop_bboxes(cms.reshape(B*C,1,H,W), bboxes, sample*C + channel)
        offsets  = integral_regression(crops, gv, gv),  gv = arange(p) - (p-1)/2
        points  += offsets

   A map is a list of rows (index y) of columns (index x) of exact rationals;
   values are only compared / summed.  A batch is `list (list cmap)` (sample,
   channel).

   kornia.morphology.dilation as used (border_type "geodesic", max_val 1e4,
   engine "unfold"): the input is padded with -1e4; every cell of the 3x3 window
   gets `+ neighborhood`, where neighborhood is 0 where the kernel is 1 and -1e4
   where it is 0 (the centre); the result is the max over the window.  So
      max_img[y][x] = max( v - 1e4 , max over the 8 neighbours (out of bounds = -1e4) ).
   kornia.geometry.transform.crop_and_resize on an integer-cornered box of the
   target size samples exact pixels and yields 0 outside the image (determined
   empirically, re-checked by the harness on every run for H, W >= 2; when H = 1
   or W = 1 kornia replicates the singleton axis instead, which gives the same
   integral offsets — the harness ties those shapes at the find_local_peaks
   level). *)
From Coq Require Import String Ascii List ZArith QArith Bool Arith.
From SV Require Import Base.Render.
Import ListNotations.
Open Scope Q_scope.

Definition cmap := list (list Q).

Definition get (m : cmap) (y x : nat) : option Q :=
  match nth_error m y with
  | Some row => nth_error row x
  | None => None
  end.

Definition getZ (m : cmap) (y x : Z) : option Q :=
  if ((y <? 0) || (x <? 0))%Z then None else get m (Z.to_nat y) (Z.to_nat x).

Definition Qltb (a b : Q) : bool := negb (Qle_bool b a).
Definition qmax (a b : Q) : Q := if Qle_bool a b then b else a.

(* ---- dilation-based non-maximum suppression ---- *)

Definition BORDER : Q := (-10000) # 1.

Definition nbrs : list (Z * Z) :=
  [(-1,-1); (-1,0); (-1,1); (0,-1); (0,1); (1,-1); (1,0); (1,1)]%Z.

Definition padded (m : cmap) (y x : Z) : Q :=
  match getZ m y x with Some v => v | None => BORDER end.

Definition dilate_at (m : cmap) (y x : nat) (v : Q) : Q :=
  fold_left qmax
    (map (fun d => padded m (Z.of_nat y + fst d) (Z.of_nat x + snd d)) nbrs)
    (v + BORDER).

Definition is_peak (m : cmap) (thr : Q) (y x : nat) (v : Q) : bool :=
  Qltb (dilate_at m y x v) v && Qltb thr v.

(* ---- batch layout ---- *)

Definition map_at (cms : list (list cmap)) (s c : nat) : option cmap :=
  match nth_error cms s with
  | Some chans => nth_error chans c
  | None => None
  end.

(* (channels, height, width) = cms.size(1), cms.size(2), cms.size(3) *)
Definition dims (cms : list (list cmap)) : nat * nat * nat :=
  match cms with
  | chans :: _ =>
      match chans with
      | m :: _ => (length chans, length m, match m with r :: _ => length r | [] => 0%nat end)
      | [] => (0, 0, 0)%nat
      end
  | [] => (0, 0, 0)%nat
  end.

(* x, y, value, sample, channel *)
Definition peak := (nat * nat * Q * nat * nat)%type.

Definition cand (cms : list (list cmap)) (thr : Q) (s y x c : nat) : list peak :=
  match map_at cms s c with
  | Some m =>
      match get m y x with
      | Some v => if is_peak m thr y x v then [(x, y, v, s, c)] else []
      | None => []
      end
  | None => []
  end.

Definition local_peaks_rough (cms : list (list cmap)) (thr : Q) : list peak :=
  let '(C, H, W) := dims cms in
  flat_map (fun s =>
    flat_map (fun y =>
      flat_map (fun x =>
        flat_map (fun c => cand cms thr s y x c) (seq 0 C))
      (seq 0 W))
    (seq 0 H))
  (seq 0 (length cms)).

(* ---- integral refinement ---- *)

Definition zrange (r : nat) : list Z :=
  map (fun k => (Z.of_nat k - Z.of_nat r)%Z) (seq 0 (2 * r + 1)).

Definition cell0 (m : cmap) (y x : Z) : Q :=
  match getZ m y x with Some v => v | None => 0 end.

(* crop_bboxes on the box make_centered_bboxes((x,y), 2r+1, 2r+1) *)
Definition patch (m : cmap) (y x : nat) (r : nat) : list (list Q) :=
  map (fun dy => map (fun dx => cell0 m (Z.of_nat y + dy) (Z.of_nat x + dx)) (zrange r))
      (zrange r).

Definition gv (r : nat) : list Q := map inject_Z (zrange r).

Definition qsum (l : list Q) : Q := fold_right Qplus 0 l.
Definition dot (a b : list Q) : Q := qsum (map (fun p => fst p * snd p) (combine a b)).

(* integral_regression on one patch: None = division by a zero sum (NaN / inf) *)
Definition integral_offset (xv yv : list Q) (P : list (list Q)) : option (Q * Q) :=
  let z := qsum (map qsum P) in
  if Qeq_bool z 0 then None
  else Some (qsum (map (dot xv) P) / z, dot yv (map qsum P) / z).

Definition refine_at (m : cmap) (x y r : nat) : option (Q * Q) :=
  match integral_offset (gv r) (gv r) (patch m y x r) with
  | Some (dx, dy) => Some (inject_Z (Z.of_nat x) + dx, inject_Z (Z.of_nat y) + dy)
  | None => None
  end.

(* refined point (None = non-finite), value, sample, channel *)
Definition rpeak := (option (Q * Q) * Q * nat * nat)%type.

Definition box_index (C s c : nat) : nat := (s * C + c)%nat.

Definition refine_peak (flat : list cmap) (C r : nat) (p : peak) : rpeak :=
  let '(x, y, v, s, c) := p in
  (match nth_error flat (box_index C s c) with
   | Some m => refine_at m x y r
   | None => None
   end, v, s, c).

Definition local_peaks (cms : list (list cmap)) (thr : Q) (r : nat) : list rpeak :=
  let '(C, _, _) := dims cms in
  map (refine_peak (concat cms) C r) (local_peaks_rough cms thr).

(* ---- any patch size p >= 1 (integral_patch_size itself, not the radius) ----

   make_centered_bboxes((x,y), p, p) has corners x -+ (p-1)/2, and crop_bboxes asks
   kornia for p x p samples: sample k (0 <= k < p) sits at offset k - (p-1)/2 from the
   grid cell — an integer for odd p, a half-integer for even p = 2h.  kornia's
   crop_and_resize samples bilinearly with zero padding, so a sample at a half-pixel
   position (y + dy - 1/2, x + dx - 1/2) is exactly the mean of the four surrounding
   cells, cells outside the map counting 0 (determined empirically for H, W >= 2, tied
   by the harness on every run; for H = 1 or W = 1 kornia replicates the singleton
   axis, which yields the same offsets — tied at the find_*_peaks level).
   gv = arange(p) - (p-1)/2 = k - h + 1/2 for p = 2h. *)

(* sample offsets dy with position dy - 1/2:  -h+1 .. h *)
Definition ezrange (h : nat) : list Z :=
  map (fun k => (Z.of_nat k - Z.of_nat h + 1)%Z) (seq 0 (2 * h)).

(* bilinear sample at (y - 1/2, x - 1/2): the mean of the 2x2 cells around it *)
Definition samp4 (m : cmap) (y x : Z) : Q :=
  (cell0 m (y - 1) (x - 1) + cell0 m (y - 1) x + cell0 m y (x - 1) + cell0 m y x) / 4.

Definition epatch (m : cmap) (y x : nat) (h : nat) : list (list Q) :=
  map (fun dy => map (fun dx => samp4 m (Z.of_nat y + dy) (Z.of_nat x + dx)) (ezrange h))
      (ezrange h).

Definition egv (h : nat) : list Q := map (fun k => inject_Z k - (1 # 2)) (ezrange h).

Definition patch_p (m : cmap) (y x : nat) (p : nat) : list (list Q) :=
  if Nat.even p then epatch m y x (p / 2) else patch m y x (p / 2).

Definition gv_p (p : nat) : list Q := if Nat.even p then egv (p / 2) else gv (p / 2).

Definition refine_at_p (m : cmap) (x y p : nat) : option (Q * Q) :=
  match integral_offset (gv_p p) (gv_p p) (patch_p m y x p) with
  | Some (dx, dy) => Some (inject_Z (Z.of_nat x) + dx, inject_Z (Z.of_nat y) + dy)
  | None => None
  end.

Definition refine_peak_p (flat : list cmap) (C p : nat) (pk : peak) : rpeak :=
  let '(x, y, v, s, c) := pk in
  (match nth_error flat (box_index C s c) with
   | Some m => refine_at_p m x y p
   | None => None
   end, v, s, c).

(* find_local_peaks(cms, thr, "integral", p) for any integral_patch_size p >= 1 *)
Definition local_peaks_p (cms : list (list cmap)) (thr : Q) (p : nat) : list rpeak :=
  let '(C, _, _) := dims cms in
  map (refine_peak_p (concat cms) C p) (local_peaks_rough cms thr).

Definition crop_all_p (imgs : list cmap) (centres : list (nat * nat)) (inds : list nat) (p : nat)
  : list (list (list Q)) :=
  map (fun ci => match nth_error imgs (snd ci) with
                 | Some m => patch_p m (snd (fst ci)) (fst (fst ci)) p
                 | None => []
                 end) (combine centres inds).

(* make_centered_bboxes for one centroid: tl, tr, br, bl *)
Definition centered_bbox (x y : Q) (bh bw : nat) : list (Q * Q) :=
  let hh := inject_Z (Z.of_nat bh) / 2 in
  let hw := inject_Z (Z.of_nat bw) / 2 in
  let h := 1 # 2 in
  [ (x - hw + h, y - hh + h); (x + hw - h, y - hh + h);
    (x + hw - h, y + hh - h); (x - hw + h, y + hh - h) ].

(* crop_bboxes(images (n,1,H,W), make_centered_bboxes(centres, p, p), inds) *)
Definition crop_all (imgs : list cmap) (centres : list (nat * nat)) (inds : list nat) (r : nat)
  : list (list (list Q)) :=
  map (fun ci => match nth_error imgs (snd ci) with
                 | Some m => patch m (snd (fst ci)) (fst (fst ci)) r
                 | None => []
                 end) (combine centres inds).

(* ---- selector of finding F9 (refinement patch with a negative value, or a
        non-positive peak value): outside it the refinement bound is a theorem ---- *)
Definition nonneg_patch (P : list (list Q)) : bool := forallb (forallb (Qle_bool 0)) P.
Definition selector_F9 (m : cmap) (y x r : nat) : bool :=
  negb (nonneg_patch (patch m y x r) && Qltb 0 (cell0 m (Z.of_nat y) (Z.of_nat x))).

(* the same selector for any patch size p: the cells a p x p patch reads lie within
   radius p/2 of the peak (p/2 = r for p = 2r+1, = h for p = 2h) *)
Definition selector_F9_p (m : cmap) (y x p : nat) : bool := selector_F9 m y x (p / 2).

(* ---- harness interface ---- *)

Inductive case :=
| CRough (cms : list (list cmap)) (thr : Q)
| CRefine (cms : list (list cmap)) (thr : Q) (r : nat)
| CCrop (imgs : list cmap) (centres : list (nat * nat)) (inds : list nat) (r : nat)
| CIntReg (xv yv : list Q) (Ps : list (list (list Q)))
| CBox (x y : Q) (bh bw : nat)
| CRefineP (cms : list (list cmap)) (thr : Q) (p : nat)
| CCropP (imgs : list cmap) (centres : list (nat * nat)) (inds : list nat) (p : nat).

Inductive result :=
| RRough (l : list peak)
| RRefined (l : list rpeak)
| RPatches (l : list (list (list Q)))
| ROffsets (l : list (option (Q * Q)))
| RBox (l : list (Q * Q)).

Definition run (c : case) : result :=
  match c with
  | CRough cms thr => RRough (local_peaks_rough cms thr)
  | CRefine cms thr r => RRefined (local_peaks cms thr r)
  | CCrop imgs cs inds r => RPatches (crop_all imgs cs inds r)
  | CIntReg xv yv Ps => ROffsets (map (integral_offset xv yv) Ps)
  | CBox x y bh bw => RBox (centered_bbox x y bh bw)
  | CRefineP cms thr p => RRefined (local_peaks_p cms thr p)
  | CCropP imgs cs inds p => RPatches (crop_all_p imgs cs inds p)
  end.

Definition rcomma : rdr := rchr ","%char.
Definition rseq5 (a b c d e : rdr) : rdr := fun k =>
  rchr "["%char (a (rcomma (b (rcomma (c (rcomma (d (rcomma (e (rchr "]"%char k)))))))))).
Definition rseq4 (a b c d : rdr) : rdr := fun k =>
  rchr "["%char (a (rcomma (b (rcomma (c (rcomma (d (rchr "]"%char k)))))))).

Definition rpeak_json (p : peak) : rdr :=
  let '(x, y, v, s, c) := p in rseq5 (rnat x) (rnat y) (rQ v) (rnat s) (rnat c).

Definition rrpeak_json (p : rpeak) : rdr :=
  let '(pt, v, s, c) := p in rseq4 (ropt (rpair rQ rQ) pt) (rQ v) (rnat s) (rnat c).

Definition rresult (r : result) : rdr :=
  match r with
  | RRough l => rlist rpeak_json l
  | RRefined l => rlist rrpeak_json l
  | RPatches l => rlist (rlist (rlist rQ)) l
  | ROffsets l => rlist (ropt (rpair rQ rQ)) l
  | RBox l => rlist (rpair rQ rQ) l
  end.

(* ---- round 4 (review) additions: reading of `thr`, value domain ----

   THE THRESHOLD.  `cms > threshold` (and `max_values < threshold` in find_global_peaks_rough)
   compares a float32 / float16 / float64 tensor with a Python float: torch evaluates it IN
   THE TENSOR'S DTYPE, i.e. the Python float is first rounded to that dtype
   (float32(0.2) = 13421773/67108864 > 1/5, float16(0.2) = 0.19995 < 1/5).  Everywhere in
   this development `thr` denotes that ROUNDED threshold, an exact rational: the harness
   passes `Fraction(dtype(float(threshold)))` (c06_maps.thr_in_dtype) to the model and to
   the oracle, and generates thresholds 0.1 / 0.2 / 0.3 / 0.7 with cells exactly at, just
   below and just above dtype(threshold).  A statement about the number the caller wrote
   would be false for cells equal to dtype(threshold) (review C06 finding 1, C07 finding 2).

   THE VALUE DOMAIN.  The centre term of the dilation is computed as v + (-1e4) in the
   tensor's dtype.  In exact arithmetic (this model) it is below v for every v; in float32
   it EQUALS v as soon as half an ulp of v exceeds 1e4, i.e. for v > 2^38 (float64: v >
   2^67; +inf in every dtype), and the code then drops an isolated maximum.  Below, border
   cells <= -1e4 (the geodesic padding value) are never reported.  The completeness
   theorems therefore carry `in_value_domain v` for the reported value v; only its lower
   half is used by the proofs over Q, the upper half is the limit of the tie between this
   exact model and the float code (the harness generates values up to and including 2^38
   and logs the behaviour beyond). *)
Definition VMAX : Q := 274877906944 # 1.      (* 2^38 *)
Definition in_value_domain (v : Q) : Prop := BORDER < v /\ v <= VMAX.
