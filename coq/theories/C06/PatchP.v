(* PatchP.v (C06) — proofs about integral refinement for ANY integral_patch_size
   p >= 1 (Peaks.patch_p / gv_p / refine_at_p / local_peaks_p): odd p = 2r+1 is the
   integer-centred patch of Lemmas.v, even p = 2h is sampled at half-pixel positions
   (each sample = mean of the 2x2 cells around it, 0 outside the map). *)
From Coq Require Import List ZArith QArith Qabs Bool Arith Lia Lra Psatz.
From SV Require Import C06.Peaks C06.Lemmas.
Import ListNotations.
Open Scope Q_scope.

(* ------------------------------------------------------------------ *)
(* index ranges                                                        *)

Lemma In_zrange : forall r d, In d (zrange r) <-> (- Z.of_nat r <= d <= Z.of_nat r)%Z.
Proof.
  intros r d. unfold zrange. rewrite in_map_iff. split.
  - intros [k [E Hk]]. apply in_seq in Hk. lia.
  - intros H. exists (Z.to_nat (d + Z.of_nat r)). split; [lia|]. apply in_seq. lia.
Qed.

Lemma In_ezrange : forall h d, In d (ezrange h) <-> (- Z.of_nat h + 1 <= d <= Z.of_nat h)%Z.
Proof.
  intros h d. unfold ezrange. rewrite in_map_iff. split.
  - intros [k [E Hk]]. apply in_seq in Hk. lia.
  - intros H. exists (Z.to_nat (d + Z.of_nat h - 1)). split; [lia|]. apply in_seq. lia.
Qed.

(* ------------------------------------------------------------------ *)
(* parity plumbing: p = 2r+1 is the old model                          *)

Lemma even_odd_p : forall r, Nat.even (2 * r + 1) = false.
Proof.
  intro r. rewrite Nat.add_1_r, Nat.even_succ. rewrite <- Nat.negb_even, Nat.even_mul. reflexivity.
Qed.

Lemma half_odd_p : forall r, ((2 * r + 1) / 2 = r)%nat.
Proof.
  intro r. rewrite Nat.mul_comm, Nat.div_add_l by lia. simpl. lia.
Qed.

Lemma even_even_p : forall h, Nat.even (2 * h) = true.
Proof. intro h. rewrite Nat.even_mul. reflexivity. Qed.

Lemma half_even_p : forall h, ((2 * h) / 2 = h)%nat.
Proof. intro h. rewrite Nat.mul_comm. apply Nat.div_mul. lia. Qed.

Lemma parity_cases : forall p, (exists r, p = (2 * r + 1)%nat) \/ (exists h, p = (2 * h)%nat).
Proof.
  intro p. destruct (Nat.Even_or_Odd p) as [[h E]|[r E]]; [right; exists h | left; exists r]; lia.
Qed.

Lemma patch_p_odd : forall m y x r, patch_p m y x (2 * r + 1) = patch m y x r.
Proof. intros. unfold patch_p. now rewrite even_odd_p, half_odd_p. Qed.

Lemma gv_p_odd : forall r, gv_p (2 * r + 1) = gv r.
Proof. intros. unfold gv_p. now rewrite even_odd_p, half_odd_p. Qed.

Lemma patch_p_even : forall m y x h, patch_p m y x (2 * h) = epatch m y x h.
Proof. intros. unfold patch_p. now rewrite even_even_p, half_even_p. Qed.

Lemma gv_p_even : forall h, gv_p (2 * h) = egv h.
Proof. intros. unfold gv_p. now rewrite even_even_p, half_even_p. Qed.

Lemma refine_at_p_odd : forall m x y r, refine_at_p m x y (2 * r + 1) = refine_at m x y r.
Proof. intros. unfold refine_at_p, refine_at. now rewrite gv_p_odd, patch_p_odd. Qed.

Lemma local_peaks_p_odd : forall cms thr r, local_peaks_p cms thr (2 * r + 1) = local_peaks cms thr r.
Proof.
  intros. unfold local_peaks_p, local_peaks. destruct (dims cms) as [[C H] W].
  apply map_ext. intros [[[[x y] v] s] c]. unfold refine_peak_p, refine_peak.
  destruct (nth_error (concat cms) (box_index C s c)); auto. now rewrite refine_at_p_odd.
Qed.

(* ------------------------------------------------------------------ *)
(* number, order, values and indices are kept; own map                 *)

Lemma refine_keeps_indices_p : forall cms thr p,
  map strip_refined (local_peaks_p cms thr p) = map strip_rough (local_peaks_rough cms thr).
Proof.
  intros. unfold local_peaks_p. destruct (dims cms) as [[C H] W]. rewrite map_map.
  apply map_ext. intros [[[[x y] v] s] c]. reflexivity.
Qed.

Lemma refine_pointwise_p : forall cms thr p C H W k x y v s c,
  dims cms = (C, H, W) -> rect C H W cms ->
  nth_error (local_peaks_rough cms thr) k = Some (x, y, v, s, c) ->
  exists m, map_at cms s c = Some m /\ get m y x = Some v /\
            nth_error (local_peaks_p cms thr p) k = Some (refine_at_p m x y p, v, s, c).
Proof.
  intros cms thr p C H W k x y v s c Hd HR Hk.
  pose proof (nth_error_In _ _ Hk) as Hin.
  destruct (rough_sound _ _ _ _ _ _ _ _ _ _ Hd Hin) as [m [Hm [Hg _]]].
  exists m. split; auto. split; auto.
  unfold local_peaks_p. rewrite Hd. rewrite nth_error_map, Hk. simpl.
  now rewrite (box_index_correct _ _ _ _ _ _ _ HR Hm).
Qed.

(* ------------------------------------------------------------------ *)
(* convex combination for an arbitrary grid bounded by R               *)

Lemma offset_bound_g : forall R g P dx dy, 0 <= R ->
  Forall (fun a => - R <= a /\ a <= R) g ->
  Forall (Forall (fun w => 0 <= w)) P -> 0 < qsum (map qsum P) ->
  integral_offset g g P = Some (dx, dy) ->
  Qabs dx <= R /\ Qabs dy <= R.
Proof.
  intros R g P dx dy HR Hg HP Hz Ho. unfold integral_offset in Ho.
  destruct (Qeq_bool (qsum (map qsum P)) 0); [discriminate|]. inversion Ho; subst. clear Ho.
  set (z := qsum (map qsum P)) in *.
  assert (Hlo : - R <= 0) by lra.
  destruct (numx_bounds _ _ _ P Hlo HR Hg HP) as [A B]. fold z in A, B.
  assert (HS : Forall (fun w => 0 <= w) (map qsum P)).
  { rewrite Forall_map. eapply Forall_impl; [|exact HP]. apply qsum_nonneg. }
  destruct (dot_bounds _ _ _ _ Hlo HR Hg HS) as [C D]. fold z in C, D.
  split; apply Qabs_Qle_condition; split.
  - apply Qle_shift_div_l; auto.
  - apply Qle_shift_div_r; auto.
  - apply Qle_shift_div_l; auto.
  - apply Qle_shift_div_r; auto.
Qed.

(* largest grid coordinate of a p-patch: (p-1)/2 *)
Definition half_reach (p : nat) : Q := (inject_Z (Z.of_nat p) - 1) / 2.

Lemma half_reach_odd : forall r, half_reach (2 * r + 1) == inject_Z (Z.of_nat r).
Proof.
  intro r. unfold half_reach.
  rewrite Nat2Z.inj_add, Nat2Z.inj_mul, inject_Z_plus, inject_Z_mult.
  change (inject_Z (Z.of_nat 2)) with 2. change (inject_Z (Z.of_nat 1)) with 1. field.
Qed.

Lemma half_reach_even : forall h, half_reach (2 * h) == inject_Z (Z.of_nat h) - (1 # 2).
Proof.
  intro h. unfold half_reach.
  rewrite Nat2Z.inj_mul, inject_Z_mult. change (inject_Z (Z.of_nat 2)) with 2. field.
Qed.

Lemma half_reach_lt : forall p, half_reach p < inject_Z (Z.of_nat p) / 2.
Proof.
  intro p. unfold half_reach, Qdiv. generalize (inject_Z (Z.of_nat p)). intro a.
  apply Qmult_lt_compat_r; [reflexivity | lra].
Qed.

Lemma egv_range : forall h,
  Forall (fun a => - (inject_Z (Z.of_nat h) - (1 # 2)) <= a /\ a <= inject_Z (Z.of_nat h) - (1 # 2)) (egv h).
Proof.
  intro h. unfold egv. rewrite Forall_map. apply Forall_forall. intros k Hk.
  apply In_ezrange in Hk. destruct Hk as [A B].
  rewrite Zle_Qle in A, B. rewrite inject_Z_plus, inject_Z_opp in A. change (inject_Z 1) with 1 in A.
  split; lra.
Qed.

Lemma gv_p_range : forall p, (1 <= p)%nat ->
  0 <= half_reach p /\ Forall (fun a => - half_reach p <= a /\ a <= half_reach p) (gv_p p).
Proof.
  intros p Hp. destruct (parity_cases p) as [[r ->]|[h ->]].
  - rewrite gv_p_odd. pose proof (half_reach_odd r) as E.
    assert (H0 : 0 <= inject_Z (Z.of_nat r)) by (change 0 with (inject_Z 0); rewrite <- Zle_Qle; lia).
    split; [lra|]. eapply Forall_impl; [|apply gv_range]. cbv beta. intros a [A B].
    rewrite inject_Z_opp in A. split; lra.
  - rewrite gv_p_even. pose proof (half_reach_even h) as E.
    assert (H1 : 1 <= inject_Z (Z.of_nat h)) by (change 1 with (inject_Z 1); rewrite <- Zle_Qle; lia).
    split; [lra|]. eapply Forall_impl; [|apply egv_range]. cbv beta. intros a [A B]. split; lra.
Qed.

(* integral regression of ANY non-negative p x p patch with positive sum stays within
   (p-1)/2 < p/2 of the grid cell *)
Lemma offset_bound_p : forall p P dx dy, (1 <= p)%nat ->
  Forall (Forall (fun w => 0 <= w)) P -> 0 < qsum (map qsum P) ->
  integral_offset (gv_p p) (gv_p p) P = Some (dx, dy) ->
  Qabs dx <= half_reach p /\ Qabs dy <= half_reach p.
Proof.
  intros p P dx dy Hp HP Hz Ho. destruct (gv_p_range p Hp) as [H0 Hg].
  eapply offset_bound_g; eauto.
Qed.

(* ------------------------------------------------------------------ *)
(* the half-pixel patch of a window without negative cells             *)

Lemma window_nonneg_cells : forall m y x r,
  nonneg_patch (patch m y x r) = true ->
  forall dy dx, (- Z.of_nat r <= dy <= Z.of_nat r)%Z -> (- Z.of_nat r <= dx <= Z.of_nat r)%Z ->
  0 <= cell0 m (Z.of_nat y + dy) (Z.of_nat x + dx).
Proof.
  intros m y x r Hnn dy dx Hy Hx. apply nonneg_patch_iff in Hnn. unfold patch in Hnn.
  rewrite Forall_map, Forall_forall in Hnn. specialize (Hnn dy (proj2 (In_zrange r dy) Hy)).
  rewrite Forall_map, Forall_forall in Hnn. exact (Hnn dx (proj2 (In_zrange r dx) Hx)).
Qed.

Lemma samp4_nonneg : forall m y x h dy dx,
  nonneg_patch (patch m y x h) = true -> In dy (ezrange h) -> In dx (ezrange h) ->
  0 <= samp4 m (Z.of_nat y + dy) (Z.of_nat x + dx).
Proof.
  intros m y x h dy dx Hnn Hy Hx. apply In_ezrange in Hy. apply In_ezrange in Hx.
  pose proof (window_nonneg_cells m y x h Hnn) as W. unfold samp4.
  replace (Z.of_nat y + dy - 1)%Z with (Z.of_nat y + (dy - 1))%Z by lia.
  replace (Z.of_nat x + dx - 1)%Z with (Z.of_nat x + (dx - 1))%Z by lia.
  pose proof (W (dy - 1)%Z (dx - 1)%Z ltac:(lia) ltac:(lia)).
  pose proof (W (dy - 1)%Z dx ltac:(lia) ltac:(lia)).
  pose proof (W dy (dx - 1)%Z ltac:(lia) ltac:(lia)).
  pose proof (W dy dx ltac:(lia) ltac:(lia)).
  apply Qle_shift_div_l; lra.
Qed.

Lemma epatch_nonneg : forall m y x h, nonneg_patch (patch m y x h) = true ->
  Forall (Forall (fun w => 0 <= w)) (epatch m y x h).
Proof.
  intros m y x h Hnn. unfold epatch. rewrite Forall_map. apply Forall_forall. intros dy Hy.
  rewrite Forall_map. apply Forall_forall. intros dx Hx. now apply samp4_nonneg with (h := h).
Qed.

Lemma epatch_sum_pos : forall m y x h, (1 <= h)%nat ->
  nonneg_patch (patch m y x h) = true -> 0 < cell0 m (Z.of_nat y) (Z.of_nat x) ->
  0 < qsum (map qsum (epatch m y x h)).
Proof.
  intros m y x h Hh Hnn Hc. pose proof (epatch_nonneg m y x h Hnn) as HP.
  assert (H0 : In 0%Z (ezrange h)) by (apply In_ezrange; lia).
  set (row0 := map (fun dx => samp4 m (Z.of_nat y + 0) (Z.of_nat x + dx)) (ezrange h)).
  assert (Hrow : In row0 (epatch m y x h)).
  { unfold epatch. apply in_map_iff. exists 0%Z. split; auto. }
  assert (Hcell : In (samp4 m (Z.of_nat y + 0) (Z.of_nat x + 0)) row0).
  { unfold row0. apply in_map_iff. exists 0%Z. split; auto. }
  assert (Hs : 0 < samp4 m (Z.of_nat y + 0) (Z.of_nat x + 0)).
  { pose proof (window_nonneg_cells m y x h Hnn) as W. unfold samp4. rewrite !Z.add_0_r.
    pose proof (W (-1)%Z (-1)%Z ltac:(lia) ltac:(lia)) as A.
    pose proof (W (-1)%Z 0%Z ltac:(lia) ltac:(lia)) as B.
    pose proof (W 0%Z (-1)%Z ltac:(lia) ltac:(lia)) as C.
    rewrite ?Z.add_0_r in *.
    replace (Z.of_nat y + -1)%Z with (Z.of_nat y - 1)%Z in * by lia.
    replace (Z.of_nat x + -1)%Z with (Z.of_nat x - 1)%Z in * by lia.
    apply Qlt_shift_div_l; lra. }
  rewrite Forall_forall in HP. pose proof (HP _ Hrow) as Hr0.
  pose proof (qsum_ge_member _ _ Hr0 Hcell) as H1.
  assert (HS : Forall (fun w => 0 <= w) (map qsum (epatch m y x h))).
  { rewrite Forall_map. apply Forall_forall. intros row Hr. apply qsum_nonneg. auto. }
  assert (H2 : qsum row0 <= qsum (map qsum (epatch m y x h))).
  { apply qsum_ge_member; auto. apply in_map. auto. }
  lra.
Qed.

(* ------------------------------------------------------------------ *)
(* the refinement bound for every patch size p >= 1, outside F9         *)

Lemma patch_p_window : forall m y x p, (1 <= p)%nat -> selector_F9_p m y x p = false ->
  Forall (Forall (fun w => 0 <= w)) (patch_p m y x p) /\ 0 < qsum (map qsum (patch_p m y x p)).
Proof.
  intros m y x p Hp Hsel. unfold selector_F9_p, selector_F9 in Hsel.
  apply negb_false_iff, andb_true_iff in Hsel. destruct Hsel as [Hnn Hc]. apply Qltb_lt in Hc.
  destruct (parity_cases p) as [[r ->]|[h ->]].
  - rewrite half_odd_p in Hnn. rewrite patch_p_odd. pose proof (proj1 (nonneg_patch_iff _) Hnn) as HP.
    split; auto. now apply patch_sum_pos.
  - rewrite half_even_p in Hnn. rewrite patch_p_even. split.
    + now apply epatch_nonneg.
    + apply epatch_sum_pos; auto. lia.
Qed.

Lemma refine_bound_p : forall m x y p, (1 <= p)%nat ->
  selector_F9_p m y x p = false ->
  exists px py, refine_at_p m x y p = Some (px, py) /\
    Qabs (px - inject_Z (Z.of_nat x)) <= half_reach p /\
    Qabs (py - inject_Z (Z.of_nat y)) <= half_reach p /\
    half_reach p < inject_Z (Z.of_nat p) / 2.
Proof.
  intros m x y p Hp Hsel. destruct (patch_p_window m y x p Hp Hsel) as [HP Hz].
  unfold refine_at_p.
  destruct (integral_offset (gv_p p) (gv_p p) (patch_p m y x p)) as [[dx dy]|] eqn:E.
  - destruct (offset_bound_p p _ dx dy Hp HP Hz E) as [A B].
    exists (inject_Z (Z.of_nat x) + dx), (inject_Z (Z.of_nat y) + dy). split; auto.
    split; [|split; [|apply half_reach_lt]].
    + assert (X : inject_Z (Z.of_nat x) + dx - inject_Z (Z.of_nat x) == dx) by ring. now rewrite X.
    + assert (X : inject_Z (Z.of_nat y) + dy - inject_Z (Z.of_nat y) == dy) by ring. now rewrite X.
  - exfalso. unfold integral_offset in E.
    destruct (Qeq_bool (qsum (map qsum (patch_p m y x p))) 0) eqn:E0; [|discriminate].
    apply Qeq_bool_iff in E0. rewrite E0 in Hz. apply (Qlt_irrefl 0 Hz).
Qed.

Lemma selector_F9_p_nonneg_map : forall m y x p v,
  nonneg_map m -> get m y x = Some v -> 0 < v -> selector_F9_p m y x p = false.
Proof. intros. unfold selector_F9_p. eapply selector_F9_nonneg_map; eauto. Qed.

(* F9 also with an even patch size: the same witness, p = 4, moves by -7 px *)
Lemma refine_bound_refuted_even :
  exists cms thr p x y v s c px py, Nat.even p = true /\
    nth_error (local_peaks_rough cms thr) 0 = Some (x, y, v, s, c) /\
    nth_error (local_peaks_p cms thr p) 0 = Some (Some (px, py), v, s, c) /\
    inject_Z (Z.of_nat p) / 2 < Qabs (px - inject_Z (Z.of_nat x)).
Proof.
  exists [[f9_witness]], (1#2), 4%nat.
  do 7 eexists. split; [reflexivity|]. split; [vm_compute; reflexivity|].
  split; [vm_compute; reflexivity|]. vm_compute. reflexivity.
Qed.

(* ------------------------------------------------------------------ *)
(* round 4 (review finding 5): locality at the REFINED level, in the filter / map form
   the harness tests on the code: the refined peaks reported for map (s,c), in their
   order, are the refined peaks of that map processed alone, re-indexed. *)
Definition on_map_r (s c : nat) (p : rpeak) : bool :=
  let '(_, _, s', c') := p in (s' =? s)%nat && (c' =? c)%nat.
Definition reindex_r (s c : nat) (p : rpeak) : rpeak := let '(pt, v, _, _) := p in (pt, v, s, c).

Lemma filter_map_comm {A B} : forall (g : B -> bool) (f : A -> B) l,
  filter g (map f l) = map f (filter (fun a => g (f a)) l).
Proof.
  induction l as [|a l IH]; simpl; auto. destruct (g (f a)); simpl; now rewrite IH.
Qed.

Lemma on_map_r_refine : forall flat C p s c pk,
  on_map_r s c (refine_peak_p flat C p pk) = on_map s c pk.
Proof. intros flat C p s c [[[[x y] v] s'] c']. reflexivity. Qed.

Lemma dims_single_C : forall m, fst (fst (dims [[m]])) = 1%nat.
Proof. intro m. destruct m; reflexivity. Qed.

Lemma refined_locality_p : forall cms thr p C H W s c m, dims cms = (C, H, W) -> rect C H W cms ->
  map_at cms s c = Some m ->
  filter (on_map_r s c) (local_peaks_p cms thr p) =
  map (reindex_r s c) (local_peaks_p [[m]] thr p).
Proof.
  intros cms thr p C H W s c m Hd HR Hm.
  unfold local_peaks_p at 1. rewrite Hd. rewrite filter_map_comm.
  rewrite (filter_ext _ (on_map s c)) by (intro pk; apply on_map_r_refine).
  rewrite (rough_locality _ _ _ _ _ _ _ _ Hd HR Hm).
  unfold local_peaks_p. destruct (dims [[m]]) as [[C1 H1] W1] eqn:Hd1.
  assert (HC1 : C1 = 1%nat) by (pose proof (dims_single_C m) as X; rewrite Hd1 in X; exact X).
  subst C1. rewrite !map_map. apply map_ext_in. intros pk Hin.
  apply (in_rough_raw _ _ _ _ _ _ Hd1) in Hin.
  destruct Hin as [s0 [y [x [c0 [Hs0 [_ [_ [Hc0 Hc]]]]]]]].
  apply in_cand in Hc. destruct Hc as [m' [v [_ [_ [_ ->]]]]].
  simpl in Hs0. assert (s0 = 0%nat) by lia. assert (c0 = 0%nat) by lia. subst s0 c0.
  cbn [reindex refine_peak_p reindex_r].
  rewrite (box_index_correct _ _ _ _ _ _ _ HR Hm). reflexivity.
Qed.

(* the same for the radius-indexed model (odd sizes) *)
Lemma refined_locality : forall cms thr r C H W s c m, dims cms = (C, H, W) -> rect C H W cms ->
  map_at cms s c = Some m ->
  filter (on_map_r s c) (local_peaks cms thr r) =
  map (reindex_r s c) (local_peaks [[m]] thr r).
Proof. intros. rewrite <- !local_peaks_p_odd. eapply refined_locality_p; eauto. Qed.
