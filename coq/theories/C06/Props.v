(* Props.v (C06) — statements only.  Proofs: C06/Lemmas.v.

   Reading.  A batch `cms : list (list cmap)` is (sample, channel) -> map; a map is a
   list of rows of exact rationals.  `rect C H W cms` = every sample has C channels and
   every map H rows of W values (a tensor); `dims cms` = the sizes the code reads off
   the tensor.  `above_border cms` = every value exceeds kornia's geodesic border value
   -1e4 (see c06_border_value_observation).  A rough peak is (x, y, value, sample,
   channel).  `spec_peak m thr y x v` is the property's own wording, written without
   reference to the detector: cell (y,x) of m holds v, v > thr, and v is strictly
   greater than every in-bounds cell at Chebyshev distance 1 (`adjacent`).
   `thr` is the threshold AS THE CODE COMPARES IT: the caller's Python float rounded to the
   map's dtype (see the end of Peaks.v); the harness passes that exact rational.
   `in_value_domain v` = -1e4 < v <= 2^38: the values on which the exact model stands for the
   float code (below: kornia's border constant; above: float32 absorbs the centre term
   v - 1e4 and the code drops the maximum).  The proofs use only the lower half. *)
From Coq Require Import List ZArith QArith Qabs Bool Arith Sorted.
Import ListNotations.
From SV Require Import C06.Peaks C06.Lemmas C06.PatchP.
Local Open Scope Q_scope.

(* (a) exactly the strict local maxima above threshold, with the correct sample index,
       channel index and value — for every value v of the value domain (round 4: the
       hypothesis is on the reported value only, no longer on every cell of the batch, and
       names the upper end of the domain as well) *)
Theorem c06_sound_complete :
  forall cms thr C H W, dims cms = (C, H, W) -> rect C H W cms ->
  forall x y v s c, in_value_domain v ->
  (In (x, y, v, s, c) (local_peaks_rough cms thr) <->
   exists m, map_at cms s c = Some m /\ spec_peak m thr y x v).
Proof. exact rough_iff_dom. Qed.
Print Assumptions c06_sound_complete.

(* completeness alone *)
Theorem c06_complete :
  forall cms thr C H W x y v s c m, dims cms = (C, H, W) -> rect C H W cms ->
  map_at cms s c = Some m -> in_value_domain v -> spec_peak m thr y x v ->
  In (x, y, v, s, c) (local_peaks_rough cms thr).
Proof. exact rough_complete_dom. Qed.
Print Assumptions c06_complete.

(* the round-1 form (every cell of the batch above -1e4, no upper end): a statement about
   the exact-rational MODEL only — it does not carry over to float32 maps holding values
   above 2^38 (use c06_sound_complete) *)
Theorem c06_sound_complete_model_def :
  forall cms thr C H W, dims cms = (C, H, W) -> rect C H W cms -> above_border cms ->
  forall x y v s c,
  In (x, y, v, s, c) (local_peaks_rough cms thr) <->
  exists m, map_at cms s c = Some m /\ spec_peak m thr y x v.
Proof. exact rough_iff. Qed.
Print Assumptions c06_sound_complete_model_def.

(* soundness alone needs no assumption on shapes or values *)
Theorem c06_sound :
  forall cms thr C H W x y v s c, dims cms = (C, H, W) ->
  In (x, y, v, s, c) (local_peaks_rough cms thr) ->
  exists m, map_at cms s c = Some m /\ spec_peak m thr y x v.
Proof. exact rough_sound. Qed.
Print Assumptions c06_sound.

(* the detector's per-cell test is the brute-force neighbour scan *)
Theorem c06_cell_test_sound : forall m thr y x v,
  is_peak m thr y x v = true -> thr < v /\ strict_local_max m y x v.
Proof. exact is_peak_sound. Qed.
Print Assumptions c06_cell_test_sound.

Theorem c06_cell_test_complete : forall m thr y x v,
  in_value_domain v -> thr < v -> strict_local_max m y x v -> is_peak m thr y x v = true.
Proof. exact is_peak_complete_dom. Qed.
Print Assumptions c06_cell_test_complete.

(* (b) each once: no repeated entry, and no cell (sample, y, x, channel) reported twice *)
Theorem c06_nodup : forall cms thr, NoDup (local_peaks_rough cms thr).
Proof. exact rough_nodup. Qed.
Print Assumptions c06_nodup.

Theorem c06_cell_reported_once : forall cms thr p q,
  In p (local_peaks_rough cms thr) -> In q (local_peaks_rough cms thr) ->
  p_key p = p_key q -> p = q.
Proof. exact rough_key_unique. Qed.
Print Assumptions c06_cell_reported_once.

(* the output order is that of torch.where on the (B,H,W,C) permutation: strictly
   increasing in (sample, y, x, channel), lexicographically *)
Theorem c06_output_order : forall cms thr, StronglySorted key_lt (local_peaks_rough cms thr).
Proof. exact rough_sorted. Qed.
Print Assumptions c06_output_order.

(* (c) locality: the peaks reported for map (s,c), in their order, are the peaks of
       that map processed alone, re-indexed — whatever the other samples/channels hold *)
Theorem c06_locality :
  forall cms thr C H W s c m, dims cms = (C, H, W) -> rect C H W cms ->
  map_at cms s c = Some m ->
  filter (on_map s c) (local_peaks_rough cms thr) =
  map (reindex s c) (local_peaks_rough [[m]] thr).
Proof. exact rough_locality. Qed.
Print Assumptions c06_locality.

(* (c) at the REFINED level, in the form the harness tests on the code (oracle_refine): the
       refined peaks of map (s,c) in the batch = the refined peaks of the map alone,
       re-indexed, for every patch size p (and for the radius model) *)
Theorem c06_refined_locality_any_patch :
  forall cms thr p C H W s c m, dims cms = (C, H, W) -> rect C H W cms ->
  map_at cms s c = Some m ->
  filter (on_map_r s c) (local_peaks_p cms thr p) =
  map (reindex_r s c) (local_peaks_p [[m]] thr p).
Proof. exact refined_locality_p. Qed.
Print Assumptions c06_refined_locality_any_patch.

Theorem c06_refined_locality :
  forall cms thr r C H W s c m, dims cms = (C, H, W) -> rect C H W cms ->
  map_at cms s c = Some m ->
  filter (on_map_r s c) (local_peaks cms thr r) =
  map (reindex_r s c) (local_peaks [[m]] thr r).
Proof. exact refined_locality. Qed.
Print Assumptions c06_refined_locality.

(* (d) integral refinement keeps number, order, values, sample and channel indices
       (`_def` in spirit: local_peaks is a `map` over the rough peaks that copies (v,s,c), so
       this holds by construction of the model; the content — that the CODE keeps them — is
       carried by the correspondence run, which compares length, values and indices exactly) *)
Theorem c06_refine_keeps_indices : forall cms thr r,
  map strip_refined (local_peaks cms thr r) = map strip_rough (local_peaks_rough cms thr).
Proof. exact refine_keeps_indices. Qed.
Print Assumptions c06_refine_keeps_indices.

(* ... and the k-th peak is refined on the patch of its own map: the crop index
   sample*channels+channel into the flattened batch selects map (s_k, c_k) *)
Theorem c06_refine_uses_own_map :
  forall cms thr r C H W k x y v s c,
  dims cms = (C, H, W) -> rect C H W cms ->
  nth_error (local_peaks_rough cms thr) k = Some (x, y, v, s, c) ->
  exists m, map_at cms s c = Some m /\ get m y x = Some v /\
            nth_error (local_peaks cms thr r) k = Some (refine_at m x y r, v, s, c).
Proof. exact refine_pointwise. Qed.
Print Assumptions c06_refine_uses_own_map.

Theorem c06_box_index : forall cms C H W s c m, rect C H W cms -> map_at cms s c = Some m ->
  nth_error (concat cms) (box_index C s c) = Some m.
Proof. exact box_index_correct. Qed.
Print Assumptions c06_box_index.

(* (e) "each point moves by at most half a patch": FALSE in general (finding F9) ... *)
Theorem c06_refine_bound_refuted :
  exists cms thr r x y v s c px py,
    nth_error (local_peaks_rough cms thr) 0 = Some (x, y, v, s, c) /\
    nth_error (local_peaks cms thr r) 0 = Some (Some (px, py), v, s, c) /\
    inject_Z (Z.of_nat (2 * r + 1)) / 2 < Qabs (px - inject_Z (Z.of_nat x)).
Proof. exact refine_bound_refuted. Qed.
Print Assumptions c06_refine_bound_refuted.

(* ... and TRUE outside the selector of F9 (no negative value in the patch and a
   positive peak value): the refined point exists and lies within r = (p-1)/2 < p/2 of
   its grid cell on each axis, for the patch size p = 2r+1 *)
Theorem c06_refine_bound_partial : forall m x y r,
  selector_F9 m y x r = false ->
  exists px py, refine_at m x y r = Some (px, py) /\
    Qabs (px - inject_Z (Z.of_nat x)) <= inject_Z (Z.of_nat r) /\
    Qabs (py - inject_Z (Z.of_nat y)) <= inject_Z (Z.of_nat r) /\
    inject_Z (Z.of_nat r) < inject_Z (Z.of_nat (2 * r + 1)) / 2.
Proof. exact refine_bound_outside_F9. Qed.
Print Assumptions c06_refine_bound_partial.

(* maps without negative values (confidence maps proper) are outside the selector at
   every positive peak *)
Theorem c06_nonneg_map_outside_F9 : forall m y x r v,
  nonneg_map m -> get m y x = Some v -> 0 < v -> selector_F9 m y x r = false.
Proof. exact selector_F9_nonneg_map. Qed.
Print Assumptions c06_nonneg_map_outside_F9.

(* integral regression of any non-negative patch with positive sum is a convex
   combination of the grid coordinates *)
Theorem c06_offset_convex : forall r P dx dy,
  Forall (Forall (fun w => 0 <= w)) P -> 0 < qsum (map qsum P) ->
  integral_offset (gv r) (gv r) P = Some (dx, dy) ->
  Qabs dx <= inject_Z (Z.of_nat r) /\ Qabs dy <= inject_Z (Z.of_nat r).
Proof. exact offset_bound. Qed.
Print Assumptions c06_offset_convex.

(* ------------------------------------------------------------------------------------
   EVERY integral_patch_size p >= 1, odd or even (proofs: C06/PatchP.v).
   `local_peaks_p cms thr p` is find_local_peaks(cms, thr, "integral", p) with the patch
   taken by its size: `patch_p` / `gv_p` are the integer-centred window for odd p and,
   for even p = 2h, the 2h x 2h samples at half-pixel positions, each the mean of the
   2x2 cells around it (0 outside the map) — kornia's bilinear crop, exact over Q.
   The largest grid coordinate is (p-1)/2 for both parities. *)

(* for odd p = 2r+1 the size-indexed model IS the radius-indexed model above *)
Theorem c06_patch_model_odd : forall cms thr r,
  local_peaks_p cms thr (2 * r + 1) = local_peaks cms thr r.
Proof. exact local_peaks_p_odd. Qed.
Print Assumptions c06_patch_model_odd.

(* (d) number, order, values, sample and channel indices are kept, for every p *)
Theorem c06_refine_keeps_indices_any_patch : forall cms thr p,
  map strip_refined (local_peaks_p cms thr p) = map strip_rough (local_peaks_rough cms thr).
Proof. exact refine_keeps_indices_p. Qed.
Print Assumptions c06_refine_keeps_indices_any_patch.

Theorem c06_refine_uses_own_map_any_patch :
  forall cms thr p C H W k x y v s c,
  dims cms = (C, H, W) -> rect C H W cms ->
  nth_error (local_peaks_rough cms thr) k = Some (x, y, v, s, c) ->
  exists m, map_at cms s c = Some m /\ get m y x = Some v /\
            nth_error (local_peaks_p cms thr p) k = Some (refine_at_p m x y p, v, s, c).
Proof. exact refine_pointwise_p. Qed.
Print Assumptions c06_refine_uses_own_map_any_patch.

(* (e) half-patch bound, on EACH AXIS (a decision: a Euclidean reading fails even on
       non-negative maps, e.g. 0.01 at (3,3) and 100 at (5,5) with p = 5 moves by 2.83 > 2.5).
       Stated for p >= 1; the tie covers p in 2..7 — for p = 1 the code raises inside kornia
       (degenerate box), so the p = 1 instance is a statement about the model only.
       For every p >= 1 outside the selector of F9 (window of radius p/2
       around the peak without a negative cell, positive peak value): the refined point
       exists and lies within (p-1)/2 < p/2 of its grid cell on each axis *)
Theorem c06_refine_bound_any_patch_partial : forall m x y p, (1 <= p)%nat ->
  selector_F9_p m y x p = false ->
  exists px py, refine_at_p m x y p = Some (px, py) /\
    Qabs (px - inject_Z (Z.of_nat x)) <= (inject_Z (Z.of_nat p) - 1) / 2 /\
    Qabs (py - inject_Z (Z.of_nat y)) <= (inject_Z (Z.of_nat p) - 1) / 2 /\
    (inject_Z (Z.of_nat p) - 1) / 2 < inject_Z (Z.of_nat p) / 2.
Proof. exact refine_bound_p. Qed.
Print Assumptions c06_refine_bound_any_patch_partial.

(* F9 is not an artefact of odd sizes: the same witness with p = 4 moves by -7 px *)
Theorem c06_refine_bound_refuted_even :
  exists cms thr p x y v s c px py, Nat.even p = true /\
    nth_error (local_peaks_rough cms thr) 0 = Some (x, y, v, s, c) /\
    nth_error (local_peaks_p cms thr p) 0 = Some (Some (px, py), v, s, c) /\
    inject_Z (Z.of_nat p) / 2 < Qabs (px - inject_Z (Z.of_nat x)).
Proof. exact refine_bound_refuted_even. Qed.
Print Assumptions c06_refine_bound_refuted_even.

Theorem c06_nonneg_map_outside_F9_any_patch : forall m y x p v,
  nonneg_map m -> get m y x = Some v -> 0 < v -> selector_F9_p m y x p = false.
Proof. exact selector_F9_p_nonneg_map. Qed.
Print Assumptions c06_nonneg_map_outside_F9_any_patch.

(* integral regression of ANY non-negative patch with positive sum on the grid of a
   p-patch is a convex combination of grid coordinates: within (p-1)/2 *)
Theorem c06_offset_convex_any_patch : forall p P dx dy, (1 <= p)%nat ->
  Forall (Forall (fun w => 0 <= w)) P -> 0 < qsum (map qsum P) ->
  integral_offset (gv_p p) (gv_p p) P = Some (dx, dy) ->
  Qabs dx <= (inject_Z (Z.of_nat p) - 1) / 2 /\ Qabs dy <= (inject_Z (Z.of_nat p) - 1) / 2.
Proof. exact offset_bound_p. Qed.
Print Assumptions c06_offset_convex_any_patch.

(* observation on the modelled kornia behaviour (outside the property's domain): a
   border cell whose value does not exceed -1e4 is not reported *)
Theorem c06_border_value_observation :
  local_peaks_rough [[ [[ (-20000) # 1 ]] ]] ((-30000) # 1) = [].
Proof. exact border_value_matters. Qed.
Print Assumptions c06_border_value_observation.

(* non-vacuity *)
Example ex_c06_peaks :
  local_peaks_rough [[ [[0;0;0];[0;1;0];[0;0;2]] ; [[3;0;0];[0;0;0];[0;0;0]] ]] (1#2)
  = [(0%nat,0%nat,3,0%nat,1%nat); (2%nat,2%nat,2,0%nat,0%nat)].
Proof. vm_compute. reflexivity. Qed.

Example ex_c06_hypotheses :
  let cms := [[ [[0;0;0];[0;1;0];[0;0;2]] ; [[3;0;0];[0;0;0];[0;0;0]] ]] in
  dims cms = (2, 3, 3)%nat /\ rect 2 3 3 cms /\ above_border cms.
Proof. exact ex_hypotheses. Qed.

(* the value domain holds the example's peak values and its own upper end, not -1e4 *)
Example ex_c06_value_domain : in_value_domain 3 /\ in_value_domain VMAX /\ ~ in_value_domain BORDER.
Proof. exact ex_value_domain. Qed.

(* refined locality on two channels: channel 1's refined peak, alone and in the batch *)
Example ex_c06_refined_locality :
  let cms := [[ [[0;0;0];[0;1;0];[0;0;2]] ; [[3;1;0];[0;0;0];[0;0;0]] ]] in
  filter (on_map_r 0 1) (local_peaks_p cms (1#2) 3) = [(Some (1#4, 0#4), 3, 0%nat, 1%nat)] /\
  local_peaks_p [[ [[3;1;0];[0;0;0];[0;0;0]] ]] (1#2) 3 = [(Some (1#4, 0#4), 3, 0%nat, 0%nat)].
Proof. vm_compute. auto. Qed.

Example ex_c06_outside_F9 : selector_F9 [[0;1;0];[1;4;2];[0;1;0]] 1 1 1 = false.
Proof. vm_compute. reflexivity. Qed.

(* even sizes: [[0,0,0,0],[0,1,3,0],[0,0,1,0],[0,0,0,0]], peak (x=2, y=1): p = 2 and p = 4 *)
Example ex_c06_even_patch :
  let m := [[0;0;0;0];[0;1;3;0];[0;0;1;0];[0;0;0;0]] in
  selector_F9_p m 1 2 4 = false /\
  match refine_at_p m 2 1 4 with Some (px, py) => Qeq_bool px (9 # 5) && Qeq_bool py (6 # 5) | None => false end = true /\
  match refine_at_p m 2 1 2 with Some (px, py) => Qeq_bool px (31 # 16) && Qeq_bool py (17 # 16) | None => false end = true /\
  epatch m 1 2 1 = [[(0+0+1+3)/4; (0+0+3+0)/4]; [(1+3+0+1)/4; (3+0+1+0)/4]].
Proof. vm_compute. auto. Qed.
