(* DetectFromC06.v — sample-locality of the peak-finding stage as a THEOREM about modelled code.

   In C12/Batch.v the per-sample peak finder is a parameter `detect : frame -> list peak`, and the batch call
   `find_local_peaks(cms_batch, ...)` is modelled as `flat_peaks detect 0 xs`: that typing IS the assumption that
   the peaks of a sample depend on the sample alone.  Property C06's development (C06/Peaks.v, imported read-only)
   models the BATCH call itself: `local_peaks_p cms thr p` takes the whole (samples x channels x H x W) tensor,
   reads `dims` off the batch, enumerates `torch.where` over (sample, y, x, channel), and refines each rough peak on
   entry `sample * C + channel` of the FLATTENED batch `concat cms` (crop_bboxes) — nothing in its definition is
   per-sample by construction.  It is tied to the real `find_local_peaks` by harness/props/c06.py.

   Here:  detect06 thr p chans  :=  the peaks `local_peaks_p` reports for the one-sample batch [chans], without the
                                    sample index
   and    `batch_peaks_are_per_sample` :  for every rectangular batch
              map untag (local_peaks_p cms thr p)  =  flat_peaks detect06 0 cms
   i.e. C06's model of the code's batch call EQUALS C12's `flat_peaks` of a per-sample function, order included.  So for
   the peak-finding stage (bottom-up `_generate_cms_peaks`, and the same call in CentroidCrop) "depends on the sample
   alone" is proved for the modelled code, not assumed.  `bottomup_batch06` is the bottom-up inference model with the
   C06 batch call in place of `flat_peaks`; its per-frame / batch-mates theorems follow.
   What stays a typing assumption: the network (`cms_of`: the confidence maps of a sample are a function of the
   sample — a CNN in eval mode; not modelled anywhere) and `group` (PAFScorer per sample: C08's model is per-sample,
   its batch wrappers are compared by C08's harness only). *)
From Coq Require Import List Arith Bool ZArith QArith Lia.
Import ListNotations.
From SV Require Import C06.Peaks C06.Lemmas.
From SV Require Import C12.Batch C12.Lemmas.
Open Scope nat_scope.

(* a refined peak without its sample index: (refined point or NaN, value, channel) *)
Definition speak : Type := (option (Q * Q) * Q * nat)%type.
Definition untag (rp : rpeak) : nat * speak := let '(o, v, s, c) := rp in (s, (o, v, c)).

(* the per-sample peak finder, DEFINED from the batch model: run it on the sample alone *)
Definition detect06 (thr : Q) (p : nat) (chans : list cmap) : list speak :=
  map (fun rp => snd (untag rp)) (local_peaks_p [chans] thr p).

Definition set_s (s : nat) (pk : Peaks.peak) : Peaks.peak := let '(x, y, v, _, c) := pk in (x, y, v, s, c).

Lemma cand_of_sample : forall cms thr s chans y x c, nth_error cms s = Some chans ->
  cand cms thr s y x c = map (set_s s) (cand [chans] thr 0 y x c).
Proof.
  intros cms thr s chans y x c Hs. unfold cand, map_at. rewrite Hs. simpl.
  destruct (nth_error chans c) as [m|]; [|reflexivity].
  destruct (get m y x) as [v|]; [|reflexivity]. destruct (is_peak m thr y x v); reflexivity.
Qed.

Lemma flat_map_ext' {A B} (f g : A -> list B) l : (forall a, f a = g a) -> flat_map f l = flat_map g l.
Proof. intros H. induction l as [|a t IH]; simpl; [reflexivity|]. rewrite H, IH. reflexivity. Qed.

Lemma level_y_of_sample : forall cms thr C H W s chans, nth_error cms s = Some chans ->
  level_y cms thr C H W s = map (set_s s) (level_y [chans] thr C H W 0).
Proof.
  intros cms thr C H W s chans Hs. unfold level_y, level_x, level_c.
  rewrite map_flat_map'. apply flat_map_ext'. intros y.
  rewrite map_flat_map'. apply flat_map_ext'. intros x.
  rewrite map_flat_map'. apply flat_map_ext'. intros c.
  apply cand_of_sample. exact Hs.
Qed.

(* every sample of a rectangular batch has the batch's dims *)
Lemma dims_of_sample : forall cms C H W chans, dims cms = (C, H, W) -> rect C H W cms -> In chans cms ->
  dims [chans] = (C, H, W).
Proof.
  intros cms C H W chans Hd HR Hin.
  pose proof (proj1 (Forall_forall _ _) HR chans Hin) as [HC HM].
  destruct cms as [|ch0 rest]; [contradiction|].
  pose proof (proj1 (Forall_forall _ _) HR ch0 (or_introl eq_refl)) as [HC0 HM0].
  unfold dims in *.
  destruct chans as [|m ms].
  - simpl in HC. subst C. destruct ch0; [exact Hd|discriminate HC0].
  - inversion HM as [|? ? [Hm1 Hm2] _]; subst.
    destruct ch0 as [|m0 ms0]; [simpl in HC0; discriminate HC0|].
    inversion HM0 as [|? ? [Hm01 Hm02] _]; subst.
    inversion Hd; subst. f_equal.
    destruct m as [|r rs]; destruct m0 as [|r0 rs0]; simpl in *; try reflexivity; try discriminate.
    inversion Hm2; subst. assumption.
Qed.

Lemma rect_single : forall cms C H W chans, rect C H W cms -> In chans cms -> rect C H W [chans].
Proof.
  intros cms C H W chans HR Hin. constructor; [|constructor].
  exact (proj1 (Forall_forall _ _) HR chans Hin).
Qed.

Lemma in_level_y_map_at : forall cms thr C H W s pk, In pk (level_y cms thr C H W s) ->
  exists x y v c m, pk = (x, y, v, s, c) /\ map_at cms s c = Some m.
Proof.
  intros cms thr C H W s pk Hin.
  apply in_level_y in Hin. destruct Hin as [y [_ Hin]].
  apply in_level_x in Hin. destruct Hin as [x [_ Hin]].
  apply in_level_c in Hin. destruct Hin as [c [_ Hin]].
  apply in_cand in Hin. destruct Hin as [m [v [Hm [_ [_ ->]]]]].
  exists x, y, v, c, m. split; [reflexivity|exact Hm].
Qed.

(* one sample's share of the batch call = the call on the sample alone, tagged with the sample index *)
Lemma sample_share : forall cms thr p C H W s chans,
  dims cms = (C, H, W) -> rect C H W cms -> nth_error cms s = Some chans ->
  map untag (map (refine_peak_p (concat cms) C p) (level_y cms thr C H W s))
  = map (pair s) (detect06 thr p chans).
Proof.
  intros cms thr p C H W s chans Hd HR Hs.
  pose proof (nth_error_In _ _ Hs) as Hin.
  pose proof (dims_of_sample _ _ _ _ _ Hd HR Hin) as Hd1.
  pose proof (rect_single _ _ _ _ _ HR Hin) as HR1.
  unfold detect06, local_peaks_p. rewrite Hd1.
  rewrite (rough_levels [chans] thr C H W Hd1). cbn [length seq flat_map]. rewrite app_nil_r.
  rewrite (level_y_of_sample cms thr C H W s chans Hs).
  rewrite !map_map. apply map_ext_in. intros pk Hpk.
  destruct (in_level_y_map_at _ _ _ _ _ _ _ Hpk) as [x [y [v [c [m [-> Hm1]]]]]].
  assert (Hm : map_at cms s c = Some m).
  { unfold map_at in *. rewrite Hs. simpl in Hm1. exact Hm1. }
  cbn [set_s refine_peak_p].
  rewrite (box_index_correct cms C H W s c m HR Hm).
  rewrite (box_index_correct [chans] C H W 0 c m HR1 Hm1). reflexivity.
Qed.

Section FlatFromShares.
  Variables frame peak : Type.
  Variable detect : frame -> list peak.
  Lemma flat_peaks_from_shares : forall (F : nat -> list (nat * peak)) xs b,
    (forall i x, nth_error xs i = Some x -> F (b + i) = map (pair (b + i)) (detect x)) ->
    flat_map F (seq b (length xs)) = flat_peaks frame peak detect b xs.
  Proof.
    intros F. induction xs as [|x t IH]; intros b HF; [reflexivity|]. simpl.
    rewrite <- (IH (S b)).
    - pose proof (HF 0 x eq_refl) as H0. rewrite Nat.add_0_r in H0. rewrite H0. reflexivity.
    - intros i y Hy. specialize (HF (S i) y Hy). rewrite Nat.add_succ_r in HF. exact HF.
  Qed.
End FlatFromShares.

(* THE THEOREM: C06's model of find_local_peaks on a batch = C12's flat_peaks of the per-sample finder *)
Theorem batch_peaks_are_per_sample : forall cms thr p C H W,
  dims cms = (C, H, W) -> rect C H W cms ->
  map untag (local_peaks_p cms thr p) = flat_peaks (list cmap) speak (detect06 thr p) 0 cms.
Proof.
  intros cms thr p C H W Hd HR. unfold local_peaks_p. rewrite Hd.
  rewrite (rough_levels cms thr C H W Hd).
  rewrite !map_flat_map'.
  apply (flat_peaks_from_shares (list cmap) speak (detect06 thr p)
           (fun s => map untag (map (refine_peak_p (concat cms) C p) (level_y cms thr C H W s))) cms 0).
  intros i chans Hi. simpl. apply (sample_share cms thr p C H W i chans Hd HR Hi).
Qed.

(* `refined_peaks[(peak_sample_inds == b).nonzero()]` of the batch call = the frame's own peaks *)
Theorem batch_peaks_split_by_sample : forall cms thr p C H W b chans,
  dims cms = (C, H, W) -> rect C H W cms -> nth_error cms b = Some chans ->
  split_sample speak (map untag (local_peaks_p cms thr p)) b = detect06 thr p chans.
Proof.
  intros cms thr p C H W b chans Hd HR Hb.
  rewrite (batch_peaks_are_per_sample cms thr p C H W Hd HR).
  apply (split_flat_nth (list cmap) speak (detect06 thr p)). exact Hb.
Qed.

(* ---------------------------------------------------------------- the bottom-up inference model on the C06 batch call *)
Section BottomUp06.
  Variables frame inst : Type.
  Variable cms_of : frame -> list cmap.               (* the network's confidence maps of one sample *)
  Variable group : frame -> list speak -> list inst.  (* PAFScorer on one sample *)
  Variables (thr : Q) (p : nat).

  Definition batch_cms (fs : list (src frame)) : list (list cmap) := map (fun s => cms_of (s_img frame s)) fs.

  (* a batch the code can stack: all samples have the same channels x height x width *)
  Definition stackable (fs : list (src frame)) : Prop :=
    exists C H W, dims (batch_cms fs) = (C, H, W) /\ rect C H W (batch_cms fs).

  Definition bottomup_batch06 (fs : list (src frame)) : list (nat * nat * list inst) :=
    let all := map untag (local_peaks_p (batch_cms fs) thr p) in
    map (fun r : nat * src frame => let '(b, s) := r in
           (s_fidx frame s, s_vidx frame s, group (s_img frame s) (split_sample speak all b)))
        (combine (seq 0 (length fs)) fs).

  Definition bottomup_one06 (s : src frame) : nat * nat * list inst :=
    (s_fidx frame s, s_vidx frame s, group (s_img frame s) (detect06 thr p (cms_of (s_img frame s)))).

  Lemma flat_peaks_batch_cms : forall fs n,
    flat_peaks (list cmap) speak (detect06 thr p) n (batch_cms fs)
    = flat_peaks frame speak (fun x => detect06 thr p (cms_of x)) n (map (s_img frame) fs).
  Proof. induction fs as [|f t IH]; intros n; simpl; [reflexivity|]. rewrite IH. reflexivity. Qed.

  Lemma bottomup_batch06_is_model : forall fs, stackable fs ->
    bottomup_batch06 fs
    = bottomup_batch frame speak inst (fun x => detect06 thr p (cms_of x)) group fs.
  Proof.
    intros fs [C [H [W [Hd HR]]]]. unfold bottomup_batch06, bottomup_batch.
    rewrite (batch_peaks_are_per_sample _ thr p C H W Hd HR).
    rewrite flat_peaks_batch_cms. reflexivity.
  Qed.

  Theorem bottomup_batch06_is_per_frame : forall fs, stackable fs ->
    bottomup_batch06 fs = map bottomup_one06 fs.
  Proof.
    intros fs Hst. rewrite (bottomup_batch06_is_model fs Hst).
    apply (bottomup_batch_is_per_frame frame speak inst).
  Qed.

  (* a frame's record in any stackable batch is a function of the frame alone: its batch-mates appear on the right
     only through their own records *)
  Theorem bottomup_batch06_mates : forall xs1 x xs2, stackable (xs1 ++ [x] ++ xs2) ->
    bottomup_batch06 (xs1 ++ [x] ++ xs2) = map bottomup_one06 xs1 ++ [bottomup_one06 x] ++ map bottomup_one06 xs2.
  Proof.
    intros xs1 x xs2 Hst. rewrite (bottomup_batch06_is_per_frame _ Hst). rewrite !map_app. reflexivity.
  Qed.
End BottomUp06.

(* ---------------------------------------------------------------- the top-down inference model on the C06 batch call
   (CentroidCrop.forward calls the same find_local_peaks on the centroid maps of the batch) *)
Section TopDown06.
  Variables frame inst : Type.
  Variable cms_of : frame -> list cmap.               (* the centroid network's maps of one sample *)
  Variable crop_infer : frame -> speak -> inst.       (* crop around the centroid + FindInstancePeaks *)
  Variables (thr : Q) (p : nat).
  Definition value06 (pk : speak) : Q := snd (fst pk).     (* the centroid confidence = the peak value *)

  (* Batch.centroid_rows with `flat_peaks detect 0 xs` replaced by C06's model of the batch call *)
  Definition centroid_rows06 (maxinst : option nat) (xs : list frame) : option (list (list (option speak))) :=
    let all := map untag (local_peaks_p (map cms_of xs) thr p) in
    match all with
    | [] => None
    | _ :: _ =>
        let M := match maxinst with Some k => k | None => batch_max speak all (length xs) end in
        Some (map (fun b => per_sample speak value06 M (split_sample speak all b)) (seq 0 (length xs)))
    end.

  Definition topdown_batch06 (maxinst : option nat) (fs : list (src frame)) : list (nat * nat * list inst) :=
    let imgs := map (s_img frame) fs in
    match centroid_rows06 maxinst imgs with
    | None => []
    | Some rows => crops_of frame speak inst crop_infer rows imgs (map (s_fidx frame) fs) (map (s_vidx frame) fs)
    end.

  Notation det := (fun x : frame => detect06 thr p (cms_of x)).

  Lemma flat_peaks_map_cms : forall xs n,
    flat_peaks (list cmap) speak (detect06 thr p) n (map cms_of xs) = flat_peaks frame speak det n xs.
  Proof. induction xs as [|x t IH]; intros n; simpl; [reflexivity|]. rewrite IH. reflexivity. Qed.

  Lemma centroid_rows06_is_model : forall mi xs C H W,
    dims (map cms_of xs) = (C, H, W) -> rect C H W (map cms_of xs) ->
    centroid_rows06 mi xs = centroid_rows frame speak det value06 mi xs.
  Proof.
    intros mi xs C H W Hd HR. unfold centroid_rows06, centroid_rows.
    rewrite (batch_peaks_are_per_sample _ thr p C H W Hd HR), flat_peaks_map_cms. reflexivity.
  Qed.

  Lemma batch_cms_map : forall fs, batch_cms frame cms_of fs = map cms_of (map (s_img frame) fs).
  Proof. intros fs. unfold batch_cms. rewrite map_map. reflexivity. Qed.

  Theorem topdown_batch06_is_model : forall mi fs, stackable frame cms_of fs ->
    topdown_batch06 mi fs = topdown_batch frame speak inst det value06 crop_infer mi fs.
  Proof.
    intros mi fs [C [H [W [Hd HR]]]]. rewrite batch_cms_map in Hd, HR.
    unfold topdown_batch06, topdown_batch. rewrite (centroid_rows06_is_model mi _ C H W Hd HR). reflexivity.
  Qed.

  Theorem topdown_batch06_is_per_frame : forall mi fs, stackable frame cms_of fs ->
    topdown_batch06 mi fs = flat_map (topdown_one frame speak inst det value06 crop_infer mi) fs.
  Proof.
    intros mi fs Hst. rewrite (topdown_batch06_is_model mi fs Hst).
    apply (topdown_batch_is_per_frame frame speak inst).
  Qed.
End TopDown06.
