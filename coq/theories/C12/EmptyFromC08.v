(* EmptyFromC08.v — the bottom-up empty-frame clause of C12 WITHOUT the hypothesis `group img [] = []`.

   C12/Props.v `c12_bottomup_empty_frame` assumed that PAFScorer.predict returns no instance for a sample without
   peaks.  C08/Grouping.v is the model of exactly that code (`predict_sample` = PAFScorer.predict on one sample =
   get_connection_candidates -> match_candidates_sample -> group_instances_sample = assign_connections_to_instances
   -> make_predicted_instances; evaluated against the real PAFScorer by harness/props/c08.py, stream `predict`,
   empty frames included).  Here the hypothesis is DERIVED from that model (imported read-only):

     part A  facts about C08's model alone (no C12 definition involved)
       * `predict_no_accepted_match`: whenever no match of the sample passes `>= min_line_scores` (NaN fails), the
         sample yields `Ok ([], [])`: no instance, no score, no exception — whatever peaks, candidates, scores,
         min_instance_peaks;
       * `predict_no_candidates`: a sample whose candidate list is empty (no edge of the skeleton has a peak at
         both ends... in particular: `predict_no_peaks`, no peak at all) yields `Ok ([], [])`, for every assignment
         oracle meeting C08's `lsa_contract` (scipy's linear_sum_assignment on the 0x0 matrix answers "no pair").
     part B  the adapter: C12's `group : frame -> list peak -> list inst` instantiated with
         peak := nat * P (channel, payload)            = C08's peak
         inst := list (option P) * Q (row, score)      = one row of C08's instance table zipped with its score
         group img ps := instances of `predict_sample ... ps (line_scores img ps)`
       where `line_scores img ps` (score_paf_lines: the PAF integral of the candidates of THIS sample, property C03,
       not modelled in C08 either: C08 takes its output as input) is an arbitrary function of the frame and its
       peaks, and an exception of PAFScorer (`Err`: it aborts the whole run in the code, outside C12) is mapped to
       "no instance" — the theorems below show that the empty frame never reaches that branch.
       `visible` := some node of the row is not NaN, `score` := the instance score.
     part C  `bottomup_empty_frame_c08`: the empty-frame theorem of C12 for that instance, hypotheses = the frame has
       no peak, the skeleton passed PAFScorer's construction (`toposort edges = Some _`; otherwise there is no
       PAFScorer), and the oracle contract; `_bf`: with C08's brute-force oracle the contract is a theorem, too. *)
From Coq Require Import List Arith Bool ZArith QArith Lia.
Import ListNotations.
From SV Require Import C17.Toposort C17.Lemmas C08.Grouping C08.Lemmas.
From SV Require Import C12.Batch C12.Flat C12.Lemmas C12.LemmasFlat.
Open Scope nat_scope.

(* ================================================================ part A: C08's model *)
Lemma flat_map_all_nil {A B} (f : A -> list B) l : (forall x, In x l -> f x = []) -> flat_map f l = [].
Proof.
  induction l as [|x t IH]; simpl; intros H; [reflexivity|].
  rewrite (H x (or_introl eq_refl)), IH; auto.
Qed.

(* get_connection_candidates on a sample without peaks: no candidate *)
Lemma candidates_no_peaks edges : candidates edges [] = [].
Proof. unfold candidates. apply flat_map_all_nil. intros ke _. reflexivity. Qed.

(* match_candidates_sample without candidates: every edge's cost matrix is 0x0 ... *)
Lemma edge_matrix_no_cands fx big k : edge_matrix fx big k [] = [].
Proof. reflexivity. Qed.

(* ... on which a contract-abiding oracle answers the empty assignment *)
Lemma contract_on_empty lsa : lsa_contract lsa -> lsa [] = Some [].
Proof.
  intros C. assert (R : rect []) by (intros r []).
  specialize (C [] R). destruct (lsa []) as [a|].
  - destruct C as [[_ [_ [L _]]] _]. simpl in L. destruct a; [reflexivity|discriminate].
  - assert (V : valid_asg (nrows []) (ncols []) []).
    { unfold valid_asg. simpl. split; [constructor|]. split; [constructor|]. split; [reflexivity|]. intros q []. }
    specialize (C [] V). discriminate.
Qed.

Lemma match_edge_no_cands lsa fx big k : lsa_contract lsa -> match_edge lsa fx big k [] = Ok [].
Proof.
  intros C. unfold match_edge. rewrite edge_matrix_no_cands, (contract_on_empty lsa C).
  unfold kept_pairs. destruct fx; reflexivity.
Qed.

Lemma match_edges_no_cands lsa fx big ks : lsa_contract lsa -> match_edges lsa fx big ks [] = Ok [].
Proof.
  intros C. induction ks as [|k t IH]; simpl; [reflexivity|].
  rewrite (match_edge_no_cands lsa fx big k C), IH. reflexivity.
Qed.

Lemma match_sample_no_cands lsa fx big n : lsa_contract lsa -> match_sample lsa fx big n [] = Ok [].
Proof. intros C. apply match_edges_no_cands; assumption. Qed.

(* the order PAFScorer computed at construction indexes the edge list *)
Lemma toposort_indices_in_range edges sorted :
  toposort edges = Some sorted -> exists es, all_some (map (fun k => nth_error edges k) sorted) = Some es.
Proof.
  unfold toposort. destruct (bfs_edges edges) as [se|]; [|discriminate]. intros H.
  apply all_some_Some in H.
  apply all_some_ok. intros k Hk.
  assert (Hk' : In (Some k) (map Some sorted)) by (apply in_map; exact Hk).
  rewrite <- H in Hk'. apply in_map_iff in Hk'. destruct Hk' as [e [He _]].
  exists e. apply index_of_nth. exact He.
Qed.

Lemma flatten_all_empty (ecs : econns) : (forall ec, In ec ecs -> snd ec = []) -> flatten ecs = [].
Proof. intros H. unfold flatten. apply flat_map_all_nil. intros ec Hin. rewrite (H ec Hin). reflexivity. Qed.

Lemma conns_of_edge_nil k : conns_of_edge k [] = [].
Proof. reflexivity. Qed.

(* group_instances_sample when no match is accepted: no connection -> empty assignment dict -> no instance *)
Lemma group_no_accepted_match {P} n_nodes edges sorted m mls (peaks : list (nat * P)) ms es :
  all_some (map (fun k => nth_error edges k) sorted) = Some es ->
  filter (accept mls) ms = [] ->
  group_sample n_nodes edges sorted m mls peaks ms = Ok ([], []).
Proof.
  intros Hes Hf. unfold group_sample, build_econns. rewrite Hes, Hf.
  set (ecs := combine es (map (fun k => conns_of_edge k []) sorted)).
  assert (Hfl : flatten ecs = []).
  { apply flatten_all_empty. intros [e cs] Hin. subst ecs. apply in_combine_r in Hin.
    apply in_map_iff in Hin. destruct Hin as [k [<- _]]. reflexivity. }
  assert (Ha : assign_connections ecs m n_nodes = []).
  { unfold assign_connections, assign_all. rewrite Hfl. simpl.
    destruct (threshold m n_nodes); reflexivity. }
  rewrite Ha. unfold make_instances. rewrite Hfl. reflexivity.
Qed.

Section PredictEmpty.
  Context {P : Type}.
  Variable lsa : matrix -> option asg.
  Variables (fx : bool) (big : Q) (n_nodes : nat) (edges : list edge) (m : mip) (mls : Q).

  (* STRONGER form: whatever the peaks — if the matching stage answers and none of its matches passes the
     min_line_scores filter (NaN scores fail it), PAFScorer.predict yields no instance and raises nothing *)
  Theorem predict_no_accepted_match : forall sorted (peaks : list (nat * P)) scores ms,
    toposort edges = Some sorted ->
    match_sample lsa fx big (length edges) (sample_cands edges peaks scores) = Ok ms ->
    filter (accept mls) ms = [] ->
    predict_sample lsa fx big n_nodes edges m mls peaks scores = Ok ([], []).
  Proof.
    intros sorted peaks scores ms Ht Hm Hf.
    rewrite (predict_unfold _ _ _ _ _ _ _ _ _ _ Ht), Hm. simpl.
    destruct (toposort_indices_in_range _ _ Ht) as [es Hes].
    eapply group_no_accepted_match; eauto.
  Qed.

  (* no candidate (no edge has peaks at both ends; or score_paf_lines returned nothing) *)
  Theorem predict_no_candidates : forall sorted (peaks : list (nat * P)) scores,
    lsa_contract lsa -> toposort edges = Some sorted ->
    sample_cands edges peaks scores = [] ->
    predict_sample lsa fx big n_nodes edges m mls peaks scores = Ok ([], []).
  Proof.
    intros sorted peaks scores C Ht Hc.
    apply (predict_no_accepted_match sorted peaks scores []); auto.
    rewrite Hc. apply match_sample_no_cands; assumption.
  Qed.

  (* no peak at all: the empty frame *)
  Theorem predict_no_peaks : forall sorted scores,
    lsa_contract lsa -> toposort edges = Some sorted ->
    predict_sample lsa fx big n_nodes edges m mls (@nil (nat * P)) scores = Ok ([], []).
  Proof.
    intros sorted scores C Ht. apply (predict_no_candidates sorted); auto.
    unfold sample_cands. simpl. rewrite candidates_no_peaks. reflexivity.
  Qed.
End PredictEmpty.

(* ================================================================ part B: the adapter *)
Section BottomUpFromC08.
  Variables frame P : Type.
  Variable detect : frame -> list (nat * P).                      (* one sample's (channel, payload) peaks *)
  Variable line_scores : frame -> list (nat * P) -> list Grouping.score.   (* score_paf_lines (C03): any function *)
  Variable lsa : matrix -> option asg.
  Variables (fx : bool) (big : Q) (n_nodes : nat) (edges : list edge) (m : mip) (mls : Q).

  Definition inst08 : Type := (list (option P) * Q)%type.

  Definition insts_of (r : res (list (list (option P)) * list Q)) : list inst08 :=
    match r with
    | Ok (rows, scs) => combine rows scs
    | Err _ => []          (* an exception aborts the run: outside C12; not reached by an empty frame (below) *)
    end.

  (* C12's `group`, made of C08's model of PAFScorer.predict *)
  Definition group_c08 (img : frame) (ps : list (nat * P)) : list inst08 :=
    insts_of (predict_sample lsa fx big n_nodes edges m mls ps (line_scores img ps)).

  (* the adapter adds nothing to C08's model: on `Ok` it zips the instance rows with their scores *)
  Lemma group_c08_ok : forall img ps rows scs,
    predict_sample lsa fx big n_nodes edges m mls ps (line_scores img ps) = Ok (rows, scs) ->
    group_c08 img ps = combine rows scs.
  Proof. intros img ps rows scs H. unfold group_c08. rewrite H. reflexivity. Qed.

  Definition visible08 (i : inst08) : bool := existsb (fun o => match o with Some _ => true | None => false end) (fst i).
  Definition score08 (i : inst08) : Q := snd i.

  Notation buf := (bottomup_frames frame (nat * P) inst08 detect group_c08 visible08 score08).

  (* the hypothesis of c12_bottomup_empty_frame, now a theorem about the composed model *)
  Lemma group_c08_no_peaks : forall sorted, lsa_contract lsa -> toposort edges = Some sorted ->
    forall img, group_c08 img [] = [].
  Proof.
    intros sorted C Ht img. unfold group_c08. rewrite (predict_no_peaks lsa fx big n_nodes edges m mls sorted _ C Ht).
    reflexivity.
  Qed.

  (* and PAFScorer raises nothing on the empty sample (so the `Err` branch of the adapter is not what makes it empty) *)
  Lemma group_c08_no_peaks_no_exception : forall sorted, lsa_contract lsa -> toposort edges = Some sorted ->
    forall img, predict_sample lsa fx big n_nodes edges m mls (@nil (nat * P)) (line_scores img []) = Ok ([], []).
  Proof. intros sorted C Ht img. apply (predict_no_peaks lsa fx big n_nodes edges m mls sorted); assumption. Qed.

  (* ============================================================== part C *)
  Theorem bottomup_empty_frame_c08 : forall sorted mi (xs1 : list (src frame)) x xs2,
    lsa_contract lsa -> toposort edges = Some sorted ->
    detect (s_img frame x) = [] ->
    buf mi [x] = [(s_fidx frame x, s_vidx frame x, [])] /\
    buf mi (xs1 ++ [x] ++ xs2) = buf mi xs1 ++ [(s_fidx frame x, s_vidx frame x, [])] ++ buf mi xs2.
  Proof.
    intros sorted mi xs1 x xs2 C Ht Hd.
    apply bottomup_empty_frame; [apply (group_c08_no_peaks sorted C Ht)|exact Hd].
  Qed.

  (* stronger: the frame HAS peaks but none of its matches passes min_line_scores -> same record, mates unchanged *)
  Theorem bottomup_no_accepted_match_c08 : forall sorted mi (xs1 : list (src frame)) x xs2 ms,
    toposort edges = Some sorted ->
    match_sample lsa fx big (length edges)
      (sample_cands edges (detect (s_img frame x)) (line_scores (s_img frame x) (detect (s_img frame x)))) = Ok ms ->
    filter (accept mls) ms = [] ->
    buf mi [x] = [(s_fidx frame x, s_vidx frame x, [])] /\
    buf mi (xs1 ++ [x] ++ xs2) = buf mi xs1 ++ [(s_fidx frame x, s_vidx frame x, [])] ++ buf mi xs2.
  Proof.
    intros sorted mi xs1 x xs2 ms Ht Hm Hf.
    assert (E : bottomup_frames_one frame (nat * P) inst08 detect group_c08 visible08 score08 mi x
                = (s_fidx frame x, s_vidx frame x, [])).
    { unfold bottomup_frames_one, group_c08.
      rewrite (predict_no_accepted_match lsa fx big n_nodes edges m mls sorted _ _ ms Ht Hm Hf).
      unfold bu_frame. simpl. destruct mi; simpl; [rewrite topk_nil|]; reflexivity. }
    rewrite bottomup_frames_mates, !bottomup_frames_is_per_frame. simpl. rewrite E. split; reflexivity.
  Qed.
End BottomUpFromC08.
