(* SortModel.v — Python's `sorted(instances, key=score, reverse=True)` as a list function (definitions only).

   BottomUpPredictor._make_labeled_frames_from_generator: `sorted(..., key=lambda x: x.score, reverse=True)[:k]`.
   CPython's sort is stable, also with reverse=True (equal keys keep their input order).  Insertion from the right:
   the inserted element is EARLIER in the input than everything already in the list, so it is placed before the
   first element whose key is <= its own (before its equals, after everything strictly larger).
   C12/LemmasSort.v: `topk k l = firstn k (sorted_desc l)` — the evaluated `topk` / `bu_limit` of Batch.v / Flat.v
   is this sort followed by the slice, tie-breaking included. *)
From Coq Require Import List QArith.
Import ListNotations.

Section SortModel.
  Variable A : Type.
  Variable key : A -> Q.

  Fixpoint insert_desc (x : A) (l : list A) : list A :=
    match l with
    | [] => [x]
    | y :: t => if Qle_bool (key y) (key x) then x :: l else y :: insert_desc x t
    end.

  Definition sorted_desc (l : list A) : list A := fold_right insert_desc [] l.

  (* the elements whose key equals v (as rationals), in list order *)
  Definition with_key (v : Q) (l : list A) : list A := filter (fun a => Qeq_bool (key a) v) l.
End SortModel.
