(* Flat.v (C12, round 4 — review findings 1-4) — executable models (definitions only) of the paths
   that Batch.v left inside abstract per-sample functions or fixed "by fiat":

     sleap_nn/inference/peak_finding.py  find_global_peaks: rough peaks -> view(samples*channels, 2) ->
        valid_idx = where(~isnan) -> crop_bboxes(cms.reshape(samples*channels, 1, h, w), bboxes, valid_idx)
        -> integral_regression -> refined = rough.clone(); refined[valid_idx] += offsets -> reshape
        (`global_flat`: flatten, gather at valid_idx, scatter at valid_idx, reshape — all explicit);
     find_local_peaks: box_sample_inds = peak_sample_inds * channels + peak_channel_inds, crop from the
        reshaped maps, refined = rough + offsets (`local_flat`);
     sleap_nn/inference/predictors.py  BottomUpPredictor._make_labeled_frames_from_generator: all-NaN
        instances dropped, `sorted(key=score, reverse=True)[:min(k, len)]` per frame (`bu_frame`);
        SingleInstancePredictor._make_labeled_frames_from_generator: ONE PredictedInstance per frame,
        also when every node is NaN (`si_record false`); `si_record true` = proposed repair
        proposed_fixes/C12_F62.diff (a frame whose row is all-NaN gives no record). *)
From Coq Require Import List Arith Bool QArith.
Import ListNotations.
From SV Require Import C12.Batch.

Definition is_some {A} (o : option A) : bool := match o with Some _ => true | None => false end.

(* l[k] = f l[k] *)
Fixpoint upd {A} (l : list A) (k : nat) (f : A -> A) : list A :=
  match l, k with
  | [], _ => []
  | a :: t, O => f a :: t
  | a :: t, S k' => a :: upd t k' f
  end.

(* reshape(B, C, ...) of a flat list *)
Fixpoint reshape {A} (B C : nat) (l : list A) : list (list A) :=
  match B with
  | O => []
  | S b => firstn C l :: reshape b C (skipn C l)
  end.

Section FlatModel.
  Variables frame chan rpeak off peak : Type.
  Variable cmaps : frame -> list chan.              (* the channels (confidence maps) of one sample *)

  (* ------------------------------------------------------------ find_global_peaks *)
  Variable rough : chan -> option rpeak.            (* find_global_peaks_rough on ONE map; None = NaN (below threshold) *)
  Variable plain : rpeak -> peak.                   (* the grid-aligned peak as a returned point *)
  Variable offset : chan -> rpeak -> off.           (* crop around the rough peak on THAT map + integral_regression *)
  Variable add : peak -> off -> peak.               (* refined[i] += offset *)

  (* torch.where(~torch.isnan(rough_peaks[:, 0]))[0] on the flattened (samples*channels) list *)
  Definition valid_idx (flat_r : list (option rpeak)) : list nat :=
    filter (fun k => match nth_error flat_r k with Some (Some _) => true | _ => false end)
           (seq 0%nat (length flat_r)).

  (* t[idx] for an index list (an out-of-range index would be an IndexError; valid_idx never is) *)
  Definition gather {A} (l : list A) (idx : list nat) : list A :=
    flat_map (fun k => match nth_error l k with Some a => [a] | None => [] end) idx.

  Definition gather_valid (flat_r : list (option rpeak)) (idx : list nat) : list rpeak :=
    flat_map (fun k => match nth_error flat_r k with Some (Some p) => [p] | _ => [] end) idx.

  (* refined_peaks[valid_idx] += offsets *)
  Definition scatter (l : list (option peak)) (upds : list (nat * off)) : list (option peak) :=
    fold_left (fun acc u => upd acc (fst u) (option_map (fun p => add p (snd u)))) upds l.

  Definition global_flat (refinement : bool) (C : nat) (xs : list frame) : list (list (option peak)) :=
    let flat_m := flat_chans frame chan cmaps xs in            (* cms.reshape(samples*channels, 1, h, w) *)
    let flat_r := map rough flat_m in                           (* rough_peaks.view(samples*channels, 2) *)
    let plain_out := map (option_map plain) flat_r in
    if negb refinement || forallb (fun o => negb (is_some o)) flat_r   (* refinement is None or isnan(rough).all() *)
    then reshape (length xs) C plain_out
    else
      let vidx := valid_idx flat_r in
      let valid_peaks := gather_valid flat_r vidx in            (* rough_peaks[valid_idx] *)
      let crop_maps := gather flat_m vidx in                    (* crop_bboxes: images[sample_inds] with sample_inds = valid_idx *)
      let offsets := map (fun cp : chan * rpeak => offset (fst cp) (snd cp)) (combine crop_maps valid_peaks) in
      reshape (length xs) C (scatter plain_out (combine vidx offsets)).

  (* the per-frame meaning: every channel of the frame by itself *)
  Definition global_one (refinement : bool) (x : frame) : list (option peak) :=
    map (fun ch => match rough ch with
                   | None => None
                   | Some p => Some (if refinement then add (plain p) (offset ch p) else plain p)
                   end) (cmaps x).

  (* ------------------------------------------------------------ SingleInstancePredictor records
     _make_labeled_frames_from_generator zips video_idx / frame_idx / pred_instance_peaks: one LabeledFrame with ONE
     PredictedInstance per sample.  fx = false: the code of the pinned tree, before fix 8463f22 (also for an all-NaN
     row; historic); fx = true: the CURRENT tree, repair C12_F62 = 8463f22 (all-NaN row: no record). *)
  Definition all_nan (row : list (option peak)) : bool := forallb (fun o => negb (is_some o)) row.

  Definition si_record (fx : bool) (f v : nat) (row : list (option peak)) : list (nat * nat * list (list (option peak))) :=
    if fx && all_nan row then [] else [(f, v, [row])].

  Definition single_frames (fx refinement : bool) (C : nat) (fs : list (src frame))
    : list (nat * nat * list (list (option peak))) :=
    flat_map (fun r : src frame * list (option peak) => si_record fx (s_fidx frame (fst r)) (s_vidx frame (fst r)) (snd r))
             (combine fs (global_flat refinement C (map (s_img frame) fs))).

  Definition single_frames_one (fx refinement : bool) (s : src frame) :=
    si_record fx (s_fidx frame s) (s_vidx frame s) (global_one refinement (s_img frame s)).

  Definition single_frames_stream (fx refinement : bool) (C batch_size : nat) (fs : list (src frame)) :=
    flat_map (single_frames fx refinement C) (chunks (length fs) batch_size fs).

  (* exact selector of finding F62: the frame has no detection (every node NaN) and the code is unrepaired *)
  Definition selector_F62 (fx : bool) (row : list (option peak)) : bool := negb fx && all_nan row.

  (* ------------------------------------------------------------ find_local_peaks with refinement *)
  Variable lpeak : Type.
  Variable lrough : frame -> list (nat * rpeak).    (* find_local_peaks_rough restricted to one sample: (channel, rough peak), torch.where order *)
  Variable lplain : nat -> rpeak -> lpeak.          (* (channel, grid-aligned point) as returned without refinement *)
  Variable lrefine : chan -> nat -> rpeak -> lpeak. (* patch cut from THAT map around the rough peak + integral regression + rough *)

  Definition rough_flat (xs : list frame) : list (nat * (nat * rpeak)) :=
    flat_peaks frame (nat * rpeak)%type lrough 0%nat xs.

  (* box_sample_inds = (peak_sample_inds * channels) + peak_channel_inds *)
  Definition box_sample_inds (C : nat) (all : list (nat * (nat * rpeak))) : list nat :=
    map (fun e => (fst e * C + fst (snd e))%nat) all.

  (* (sample, refined peak); None = the index is outside the reshaped maps (IndexError in the code) *)
  Definition local_flat (refinement : bool) (C : nat) (xs : list frame) : list (nat * option lpeak) :=
    map (fun e : nat * (nat * rpeak) =>
           let '(b, (c, p)) := e in
           (b, if refinement
               then match patch_source frame chan cmaps xs C b c with
                    | Some ch => Some (lrefine ch c p)
                    | None => None
                    end
               else Some (lplain c p)))
        (rough_flat xs).

  (* the per-frame meaning: the sample's own rough peaks, each refined on the sample's own map of that channel *)
  Definition local_one (refinement : bool) (x : frame) : list lpeak :=
    flat_map (fun cp : nat * rpeak =>
                if refinement
                then match nth_error (cmaps x) (fst cp) with
                     | Some ch => [lrefine ch (fst cp) (snd cp)]
                     | None => []
                     end
                else [lplain (fst cp) (snd cp)])
             (lrough x).
End FlatModel.

(* ---------------------------------------------------------------- bottom-up frames with max_instances *)
Section BottomUpFrames.
  Variables frame peak inst : Type.
  Variable detect : frame -> list peak.
  Variable group : frame -> list peak -> list inst.   (* PAFScorer.predict on one sample *)
  Variable visible : inst -> bool.                    (* not np.isnan(pts).all() *)
  Variable score : inst -> Q.                         (* PredictedInstance.score *)

  (* sorted(key=score, reverse=True)[:min(k, len)]: Python's sort is stable, also with reverse=True, so among
     equal scores the earlier instance comes first = Batch.topk (selection of the first maximum, k times).
     With max_instances set the frame's instances are ALWAYS re-ordered by score, also when k >= len. *)
  Definition bu_limit (mi : option nat) (l : list inst) : list inst :=
    match mi with
    | None => l
    | Some k => topk inst score k l
    end.

  Definition bu_frame (mi : option nat) (l : list inst) : list inst := bu_limit mi (filter visible l).

  Definition bottomup_frames (mi : option nat) (fs : list (src frame)) : list (nat * nat * list inst) :=
    map (fun r : nat * nat * list inst => (fst (fst r), snd (fst r), bu_frame mi (snd r)))
        (bottomup_batch frame peak inst detect group fs).

  Definition bottomup_frames_one (mi : option nat) (s : src frame) : nat * nat * list inst :=
    (s_fidx frame s, s_vidx frame s, bu_frame mi (group (s_img frame s) (detect (s_img frame s)))).

  Definition bottomup_frames_stream (mi : option nat) (batch_size : nat) (fs : list (src frame)) :=
    flat_map (bottomup_frames mi) (chunks (length fs) batch_size fs).
End BottomUpFrames.

(* ---------------------------------------------------------------- harness entries
   Bottom-up (`CBu`): a frame = (reference peak ids in _generate_cms_peaks order, reference instances (id, score)
   in PAFScorer order), both from the one-by-one unlimited run.  The grouping stage is instantiated as "given
   exactly the frame's own peak list it returns the frame's instances, given anything else nothing".
   Output per batch: the per-sample peak split (out["peaks"][b] of BottomUpInferenceModel) and the LabeledFrame
   records after max_instances.
   Single instance (`CSi`): a frame = per channel (tag, has a peak); rough returns the tag, the offset is the tag of the
   map the patch was cut from.  Output per batch: valid_idx (= the sample_inds find_global_peaks hands to crop_bboxes;
   [] when no crop call is made) and the records (frame_idx, video_idx, per node None | (tag of rough peak, tag of the
   patch's map)).
   `CBox`: box_sample_inds of find_local_peaks for one batch: a frame = the channels of its rough peaks. *)
Definition bframe := (list nat * list (nat * Q))%type.

Fixpoint nat_list_eqb (a b : list nat) : bool :=
  match a, b with
  | [], [] => true
  | x :: a', y :: b' => (x =? y)%nat && nat_list_eqb a' b'
  | _, _ => false
  end.

Definition sframe := list (nat * bool).

Inductive fcase :=
| CBu (maxinst : option nat) (batch_size : nat) (fs : list (nat * nat * bframe))
| CSi (fx refinement : bool) (C batch_size : nat) (fs : list (nat * nat * sframe))
| CBox (C : nat) (fs : list (list nat)).

Inductive fresult :=
| RBu (out : list (list (nat * nat * list nat * list nat)))
| RSi (out : list (list nat * list (nat * nat * list (list (option (nat * option nat))))))
| RBox (out : list nat).

Definition mk_bsrc (f : nat * nat * bframe) : src bframe :=
  {| s_img := snd f; s_fidx := fst (fst f); s_vidx := snd (fst f) |}.
Definition mk_ssrc (f : nat * nat * sframe) : src sframe :=
  {| s_img := snd f; s_fidx := fst (fst f); s_vidx := snd (fst f) |}.

Definition h_group (x : bframe) (ps : list nat) : list (nat * Q) :=
  if nat_list_eqb ps (fst x) then snd x else [].

Definition h_rough (ch : nat * bool) : option nat := if snd ch then Some (fst ch) else None.

Definition frun (c : fcase) : fresult :=
  match c with
  | CBu mi bs fs =>
      let srcs := map mk_bsrc fs in
      RBu (map (fun batch : list (src bframe) =>
                  let all := flat_peaks bframe nat (@fst _ _) 0%nat (map (s_img bframe) batch) in
                  map (fun r : nat * (nat * nat * list (nat * Q)) =>
                         (fst (fst (snd r)), snd (fst (snd r)), split_sample nat all (fst r), map fst (snd (snd r))))
                      (combine (seq 0%nat (length batch))
                               (bottomup_frames bframe nat (nat * Q) (@fst _ _) h_group (fun _ => true) snd mi batch)))
               (chunks (length srcs) bs srcs))
  | CSi fx rf C bs fs =>
      let srcs := map mk_ssrc fs in
      RSi (map (fun batch : list (src sframe) =>
                  let flat_r := map h_rough (flat_chans sframe (nat * bool) (fun x => x) (map (s_img sframe) batch)) in
                  ((if negb rf || forallb (fun o => negb (is_some o)) flat_r then [] else valid_idx nat flat_r),
                   single_frames sframe (nat * bool) nat nat (nat * option nat) (fun x => x) h_rough
                                 (fun p => (p, None)) (fun ch _ => fst ch) (fun i o => (fst i, Some o))
                                 fx rf C batch))
               (chunks (length srcs) bs srcs))
  | CBox C fs =>
      RBox (box_sample_inds nat C (rough_flat (list nat) nat (map (fun c => (c, 0%nat))) fs))
  end.

From SV Require Import Base.Render.
Definition rfresult (r : fresult) : rdr :=
  match r with
  | RBu out => rlist (rlist (fun r : nat * nat * list nat * list nat =>
                               rlist (fun x => x) [rnat (fst (fst (fst r))); rnat (snd (fst (fst r)));
                                                   rlist rnat (snd (fst r)); rlist rnat (snd r)])) out
  | RSi out => rlist (fun b : list nat * list (nat * nat * list (list (option (nat * option nat)))) =>
                        rlist (fun x => x)
                          [rlist rnat (fst b);
                           rlist (rtriple rnat rnat (rlist (rlist (ropt (rpair rnat (ropt rnat)))))) (snd b)]) out
  | RBox out => rlist rnat out
  end.
