(* LemmasFlat.v (C12) — proofs about C12/Flat.v. *)
From Coq Require Import List Arith Bool QArith Lia Permutation.
Import ListNotations.
From SV Require Import C12.Batch C12.Lemmas C12.Flat.

Lemma upd_nth_same : forall (A : Type) (l : list A) k f, nth_error (upd l k f) k = option_map f (nth_error l k).
Proof. intros A. induction l as [|a t IH]; intros [|k] f; simpl; auto. Qed.

Lemma upd_nth_other : forall (A : Type) (l : list A) k k' f, k <> k' -> nth_error (upd l k f) k' = nth_error l k'.
Proof.
  intros A. induction l as [|a t IH]; intros [|k] [|k'] f H; simpl; auto; try congruence.
Qed.

Lemma nth_error_ext_all : forall (A : Type) (l1 l2 : list A),
  (forall k, nth_error l1 k = nth_error l2 k) -> l1 = l2.
Proof.
  intros A. induction l1 as [|a l1 IH]; intros [|b l2] Hk; auto.
  - specialize (Hk 0%nat). discriminate.
  - specialize (Hk 0%nat). discriminate.
  - pose proof (Hk 0%nat) as H0. simpl in H0. inversion H0; subst. f_equal.
    apply IH. intro k. apply (Hk (S k)).
Qed.

Lemma reshape_concat : forall (A : Type) (ll : list (list A)) C,
  (forall l, In l ll -> length l = C) -> reshape (length ll) C (concat ll) = ll.
Proof.
  intros A. induction ll as [|l ll IH]; intros C HF; simpl; auto.
  assert (Hl : length l = C) by (apply HF; left; reflexivity). subst C.
  rewrite firstn_app, Nat.sub_diag, firstn_all. simpl. rewrite app_nil_r.
  rewrite skipn_app, Nat.sub_diag, skipn_all. simpl. f_equal.
  apply IH. intros l' Hl'. apply HF. right. exact Hl'.
Qed.

Section GlobalProofs.
  Variables frame chan rpeak off peak : Type.
  Variable cmaps : frame -> list chan.
  Variable rough : chan -> option rpeak.
  Variable plain : rpeak -> peak.
  Variable offset : chan -> rpeak -> off.
  Variable add : peak -> off -> peak.

  Notation scatter := (scatter off peak add).
  Notation valid_idx := (valid_idx rpeak).
  Notation gather_valid := (gather_valid rpeak).
  Notation global_flat := (global_flat frame chan rpeak off peak cmaps rough plain offset add).
  Notation global_one := (global_one frame chan rpeak off peak cmaps rough plain offset add).

  Lemma scatter_notin : forall upds l k, ~ In k (map fst upds) -> nth_error (scatter l upds) k = nth_error l k.
  Proof.
    induction upds as [|u t IH]; intros l k H; [reflexivity|].
    unfold Flat.scatter. simpl. fold (scatter (upd l (fst u) (option_map (fun p => add p (snd u)))) t).
    rewrite IH by (intro Hin; apply H; right; exact Hin).
    apply upd_nth_other. intro E. apply H. left. exact E.
  Qed.

  Lemma scatter_in : forall upds l k o, NoDup (map fst upds) -> In (k, o) upds ->
    nth_error (scatter l upds) k = option_map (option_map (fun p => add p o)) (nth_error l k).
  Proof.
    induction upds as [|u t IH]; intros l k o Hnd Hin; [destruct Hin|].
    simpl in Hnd. inversion Hnd as [|? ? Hnotin Hnd']; subst.
    unfold Flat.scatter. simpl. fold (scatter (upd l (fst u) (option_map (fun p => add p (snd u)))) t).
    destruct Hin as [->|Hin].
    - simpl in *. rewrite scatter_notin by exact Hnotin. apply upd_nth_same.
    - rewrite (IH _ _ _ Hnd' Hin). f_equal. apply upd_nth_other.
      intro E. apply Hnotin. rewrite E. change k with (fst (k, o)). apply in_map. exact Hin.
  Qed.

  Section Plumbing.
    Variable flat_m : list chan.
    Let flat_r := map rough flat_m.
    Let G := fun ch => match rough ch with None => None | Some p => Some (add (plain p) (offset ch p)) end.
    Let U := fun k => match nth_error flat_m k with
                      | Some ch => match rough ch with Some p => [(k, offset ch p)] | None => [] end
                      | None => []
                      end.
    Let isvalid := fun k => exists ch p, nth_error flat_m k = Some ch /\ rough ch = Some p.

    Lemma in_valid_idx : forall k, In k (valid_idx flat_r) <-> isvalid k.
    Proof.
      intro k. unfold Flat.valid_idx. rewrite filter_In, in_seq. unfold flat_r. rewrite nth_error_map. split.
      - intros [_ H]. destruct (nth_error flat_m k) as [ch|] eqn:Em; simpl in H; [|discriminate].
        destruct (rough ch) as [p|] eqn:E; [|discriminate]. exists ch, p. auto.
      - intros [ch [p [E1 E2]]]. rewrite E1. simpl. rewrite E2. split; [|reflexivity].
        split; [lia|]. simpl. rewrite map_length. apply nth_error_Some. congruence.
    Qed.

    Lemma valid_idx_nodup : NoDup (valid_idx flat_r).
    Proof. unfold Flat.valid_idx. apply NoDup_filter. apply seq_NoDup. Qed.

    Lemma upds_eq : forall ks, (forall k, In k ks -> isvalid k) ->
      combine ks (map (fun cp : chan * rpeak => offset (fst cp) (snd cp))
                      (combine (gather flat_m ks) (gather_valid flat_r ks)))
      = flat_map U ks.
    Proof.
      induction ks as [|k t IH]; intros H; [reflexivity|].
      destruct (H k (or_introl eq_refl)) as [ch [p [E1 E2]]].
      unfold gather, Flat.gather_valid. simpl. unfold U at 1. unfold flat_r. rewrite nth_error_map, E1. simpl. rewrite E2.
      simpl. f_equal. apply IH. intros k' Hk'. apply H. right. exact Hk'.
    Qed.

    Lemma flat_map_U_fst : forall ks, (forall k, In k ks -> isvalid k) -> map fst (flat_map U ks) = ks.
    Proof.
      induction ks as [|k t IH]; intros H; [reflexivity|].
      destruct (H k (or_introl eq_refl)) as [ch [p [E1 E2]]].
      simpl. unfold U at 1. rewrite E1, E2. simpl. f_equal. apply IH. intros k' Hk'. apply H. right. exact Hk'.
    Qed.

    Lemma in_flat_map_U : forall ks k ch p, In k ks -> nth_error flat_m k = Some ch -> rough ch = Some p ->
      In (k, offset ch p) (flat_map U ks).
    Proof.
      intros ks k ch p Hin E1 E2. apply in_flat_map. exists k. split; [exact Hin|].
      unfold U. rewrite E1, E2. left. reflexivity.
    Qed.

    Let upds := combine (valid_idx flat_r)
                        (map (fun cp : chan * rpeak => offset (fst cp) (snd cp))
                             (combine (gather flat_m (valid_idx flat_r)) (gather_valid flat_r (valid_idx flat_r)))).
    Let plain_out := map (option_map plain) flat_r.

    Lemma refined_nth : forall k, nth_error (scatter plain_out upds) k = option_map G (nth_error flat_m k).
    Proof.
      intro k.
      assert (HV : forall k, In k (valid_idx flat_r) -> isvalid k) by (intros k' Hk'; apply in_valid_idx; exact Hk').
      assert (Hu : upds = flat_map U (valid_idx flat_r)) by (apply upds_eq; exact HV).
      assert (Hf : map fst upds = valid_idx flat_r) by (rewrite Hu; apply flat_map_U_fst; exact HV).
      assert (Hb : nth_error plain_out k = option_map (fun ch => option_map plain (rough ch)) (nth_error flat_m k)).
      { unfold plain_out, flat_r. rewrite map_map. apply nth_error_map. }
      destruct (nth_error flat_m k) as [ch|] eqn:Em; simpl.
      - unfold G. destruct (rough ch) as [p|] eqn:Er.
        + assert (Hin : In (k, offset ch p) upds).
          { rewrite Hu. apply (in_flat_map_U _ k ch p); auto. apply in_valid_idx. exists ch, p. auto. }
          rewrite (scatter_in upds plain_out k (offset ch p)); [|rewrite Hf; apply valid_idx_nodup|exact Hin].
          rewrite Hb. simpl. rewrite Er. reflexivity.
        + rewrite scatter_notin.
          * rewrite Hb. simpl. rewrite Er. reflexivity.
          * rewrite Hf. intro Hin. apply in_valid_idx in Hin. destruct Hin as [ch' [p' [E1 E2]]]. congruence.
      - rewrite scatter_notin; [rewrite Hb; reflexivity|].
        rewrite Hf. intro Hin. apply in_valid_idx in Hin. destruct Hin as [ch' [p' [E1 E2]]]. congruence.
    Qed.

    Lemma refined_eq : scatter plain_out upds = map G flat_m.
    Proof. apply nth_error_ext_all. intro k. rewrite refined_nth. symmetry. apply nth_error_map. Qed.
  End Plumbing.

  (* find_global_peaks on a batch = every (sample, channel) by itself: the entry (b, c) of the reshaped result
     is the rough peak of channel c of sample b, refined on a patch cut from THAT map — whatever the NaN
     pattern of the other samples (which decides every position of valid_idx) *)
  Theorem global_flat_is_per_frame : forall refinement C xs,
    (forall y, In y xs -> length (cmaps y) = C) ->
    global_flat refinement C xs = map (global_one refinement) xs.
  Proof.
    intros rf C xs Hlen. unfold Flat.global_flat.
    set (flat_m := flat_chans frame chan cmaps xs).
    assert (Hres : forall (F : chan -> option peak),
              reshape (length xs) C (map F flat_m) = map (fun x => map F (cmaps x)) xs).
    { intro F. unfold flat_m, Batch.flat_chans. rewrite concat_map, map_map.
      rewrite <- (map_length (fun x => map F (cmaps x)) xs). apply reshape_concat.
      intros l Hl. apply in_map_iff in Hl. destruct Hl as [y [E Hy]]. subst l. rewrite map_length. apply Hlen. exact Hy. }
    destruct (negb rf || forallb (fun o => negb (is_some o)) (map rough flat_m)) eqn:Eb.
    - rewrite map_map. rewrite Hres. apply map_ext_in. intros x Hx. unfold Flat.global_one.
      apply map_ext_in. intros ch Hch.
      apply orb_true_iff in Eb. destruct Eb as [Eb|Eb].
      + destruct rf; [discriminate|]. destruct (rough ch); reflexivity.
      + rewrite forallb_forall in Eb.
        assert (Hin : In (rough ch) (map rough flat_m)).
        { apply in_map. unfold flat_m, Batch.flat_chans. apply in_concat. exists (cmaps x). split; [|exact Hch].
          apply in_map. exact Hx. }
        specialize (Eb _ Hin). destruct (rough ch); [discriminate|reflexivity].
    - apply orb_false_iff in Eb. destruct Eb as [Erf _]. destruct rf; [|discriminate].
      rewrite (refined_eq flat_m). rewrite Hres. reflexivity.
  Qed.

  (* the closed form of Batch.v (`single_batch`: the patch index b * C + c "by fiat") IS what the explicit
     flatten / valid_idx / gather / scatter / reshape path computes *)
  Theorem global_flat_is_single_batch : forall C xs,
    (forall y, In y xs -> length (cmaps y) = C) ->
    global_flat true C xs
    = single_batch frame rpeak peak chan cmaps rough (fun ch p => add (plain p) (offset ch p)) C xs.
  Proof.
    intros C xs Hlen. rewrite global_flat_is_per_frame by exact Hlen.
    rewrite (single_batch_is_per_frame frame rpeak peak chan cmaps rough _ C xs Hlen). reflexivity.
  Qed.

  Theorem global_flat_entry : forall C xs b c x ch p,
    (forall y, In y xs -> length (cmaps y) = C) ->
    nth_error xs b = Some x -> nth_error (cmaps x) c = Some ch -> rough ch = Some p ->
    exists row, nth_error (global_flat true C xs) b = Some row /\
                nth_error row c = Some (Some (add (plain p) (offset ch p))).
  Proof.
    intros C xs b c x ch p Hlen Hb Hc Hr. rewrite global_flat_is_per_frame by exact Hlen.
    exists (global_one true x). split; [apply map_nth_error; exact Hb|].
    unfold Flat.global_one. rewrite nth_error_map, Hc. simpl. rewrite Hr. reflexivity.
  Qed.

  (* ------------------------------------------------------------ records of the single-instance predictor *)
  Notation single_frames := (single_frames frame chan rpeak off peak cmaps rough plain offset add).
  Notation single_frames_one := (single_frames_one frame chan rpeak off peak cmaps rough plain offset add).
  Notation single_frames_stream := (single_frames_stream frame chan rpeak off peak cmaps rough plain offset add).
  Notation src := (src frame).

  Lemma combine_map_r : forall (A B : Type) (f : A -> B) (l : list A), combine l (map f l) = map (fun a => (a, f a)) l.
  Proof. induction l; simpl; auto. now rewrite IHl. Qed.

  Theorem single_frames_is_per_frame : forall fx rf C (fs : list src),
    (forall s, In s fs -> length (cmaps (s_img frame s)) = C) ->
    single_frames fx rf C fs = flat_map (single_frames_one fx rf) fs.
  Proof.
    intros fx rf C fs Hlen. unfold Flat.single_frames.
    rewrite global_flat_is_per_frame.
    - rewrite map_map, combine_map_r.
      rewrite (flat_map_concat_map _ (map _ fs)), map_map, <- flat_map_concat_map. reflexivity.
    - intros y Hy. apply in_map_iff in Hy. destruct Hy as [s [E Hs]]. subst y. apply Hlen. exact Hs.
  Qed.

  Theorem single_frames_mates : forall fx rf C (xs1 : list src) x xs2,
    (forall s, In s (xs1 ++ [x] ++ xs2) -> length (cmaps (s_img frame s)) = C) ->
    single_frames fx rf C (xs1 ++ [x] ++ xs2)
    = single_frames fx rf C xs1 ++ single_frames fx rf C [x] ++ single_frames fx rf C xs2.
  Proof.
    intros fx rf C xs1 x xs2 H.
    rewrite !single_frames_is_per_frame; try (intros s Hs; apply H; rewrite !in_app_iff in *; tauto).
    rewrite !flat_map_app. reflexivity.
  Qed.

  Theorem single_frames_perm : forall fx rf C (fs fs' : list src),
    (forall s, In s fs -> length (cmaps (s_img frame s)) = C) -> Permutation fs fs' ->
    Permutation (single_frames fx rf C fs) (single_frames fx rf C fs').
  Proof.
    intros fx rf C fs fs' H P. rewrite !single_frames_is_per_frame.
    - apply Permutation_flat_map. exact P.
    - intros s Hs. apply H. apply (Permutation_in _ (Permutation_sym P)). exact Hs.
    - exact H.
  Qed.

  Lemma chunks_in : forall (A : Type) fuel n (l : list A) c a, In c (chunks fuel n l) -> In a c -> In a l.
  Proof.
    intros A. induction fuel as [|f IH]; intros n l c a Hc Ha; [destruct Hc|].
    simpl in Hc. destruct l as [|x t]; [destruct Hc|]. destruct Hc as [<-|Hc].
    - rewrite <- (firstn_skipn n (x :: t)). apply in_or_app. left. exact Ha.
    - specialize (IH _ _ _ _ Hc Ha). rewrite <- (firstn_skipn n (x :: t)). apply in_or_app. right. exact IH.
  Qed.

  Theorem single_frames_any_batch_size : forall fx rf C n (fs : list src), (0 < n)%nat ->
    (forall s, In s fs -> length (cmaps (s_img frame s)) = C) ->
    single_frames_stream fx rf C n fs = flat_map (single_frames_one fx rf) fs.
  Proof.
    intros fx rf C n fs Hn Hlen. unfold Flat.single_frames_stream.
    rewrite (flat_map_ext_in _ _ (single_frames fx rf C) (fun c => flat_map (single_frames_one fx rf) c)).
    - rewrite flat_map_concat. rewrite concat_chunks by (auto; lia). reflexivity.
    - intros c Hc. apply single_frames_is_per_frame. intros s Hs. apply Hlen. eapply chunks_in; eassumption.
  Qed.

  Theorem single_frames_indices : forall fx rf C (fs : list src) f v insts,
    (forall s, In s fs -> length (cmaps (s_img frame s)) = C) ->
    In (f, v, insts) (single_frames fx rf C fs) ->
    exists s, In s fs /\ f = s_fidx frame s /\ v = s_vidx frame s /\ insts = [global_one rf (s_img frame s)].
  Proof.
    intros fx rf C fs f v insts Hlen Hin. rewrite single_frames_is_per_frame in Hin by exact Hlen.
    apply in_flat_map in Hin. destruct Hin as [s [Hs Hin]]. exists s. split; [exact Hs|].
    unfold Flat.single_frames_one, Flat.si_record in Hin.
    destruct (fx && _); [destruct Hin|]. destruct Hin as [E|[]]. inversion E. auto.
  Qed.

  Lemma global_one_all_nan : forall rf x, (forall ch, In ch (cmaps x) -> rough ch = None) ->
    all_nan peak (global_one rf x) = true.
  Proof.
    intros rf x H. unfold Flat.all_nan, Flat.global_one. rewrite forallb_forall. intros o Ho.
    apply in_map_iff in Ho. destruct Ho as [ch [E Hch]]. rewrite (H ch Hch) in E. subst o. reflexivity.
  Qed.

  (* empty frame, repaired variant: no record, the batch-mates' records unchanged *)
  Theorem single_empty_frame_repaired : forall rf C (xs1 : list src) x xs2,
    (forall s, In s (xs1 ++ [x] ++ xs2) -> length (cmaps (s_img frame s)) = C) ->
    (forall ch, In ch (cmaps (s_img frame x)) -> rough ch = None) ->
    single_frames true rf C [x] = [] /\
    single_frames true rf C (xs1 ++ [x] ++ xs2) = single_frames true rf C (xs1 ++ xs2).
  Proof.
    intros rf C xs1 x xs2 Hlen Hx.
    assert (E : single_frames_one true rf x = []).
    { unfold Flat.single_frames_one, Flat.si_record. rewrite global_one_all_nan by exact Hx. reflexivity. }
    rewrite !single_frames_is_per_frame; try (intros s Hs; apply Hlen; rewrite !in_app_iff in *; simpl in *; tauto).
    rewrite !flat_map_app. simpl. rewrite E. simpl. split; reflexivity.
  Qed.

  (* unrepaired code: one instance per frame, whose nodes are all NaN when the frame has no detection;
     under the complement of the selector the clause holds *)
  Theorem single_empty_frame_partial : forall fx rf C (fs : list src) f v insts,
    (forall s, In s fs -> length (cmaps (s_img frame s)) = C) ->
    In (f, v, insts) (single_frames fx rf C fs) ->
    exists s, In s fs /\ f = s_fidx frame s /\ v = s_vidx frame s /\
      (selector_F62 peak fx (global_one rf (s_img frame s)) = false ->
       exists ch p, In ch (cmaps (s_img frame s)) /\ rough ch = Some p).
  Proof.
    intros fx rf C fs f v insts Hlen Hin. rewrite single_frames_is_per_frame in Hin by exact Hlen.
    apply in_flat_map in Hin. destruct Hin as [s [Hs Hin]]. exists s. split; [exact Hs|].
    unfold Flat.single_frames_one, Flat.si_record in Hin.
    destruct (fx && all_nan peak (global_one rf (s_img frame s))) eqn:E; [destruct Hin|].
    destruct Hin as [E'|[]]. inversion E'. subst. repeat split; auto.
    unfold Flat.selector_F62. intro Hsel.
    assert (Hn : all_nan peak (global_one rf (s_img frame s)) = false) by (destruct fx; simpl in *; auto).
    unfold Flat.all_nan, Flat.global_one in Hn.
    destruct (forallb _ _) eqn:Ef in Hn; [discriminate|]. clear Hn.
    assert (Hex : existsb (fun o : option peak => is_some o)
                    (map (fun ch => match rough ch with None => None
                                    | Some p => Some (if rf then add (plain p) (offset ch p) else plain p) end)
                         (cmaps (s_img frame s))) = true).
    { clear -Ef. induction (cmaps (s_img frame s)) as [|ch t IH]; simpl in *; [discriminate|].
      destruct (rough ch); simpl in *; [reflexivity|]. apply IH. exact Ef. }
    apply existsb_exists in Hex. destruct Hex as [o [Ho Hs']]. apply in_map_iff in Ho. destruct Ho as [ch [E1 Hch]].
    destruct (rough ch) as [p|] eqn:Er; [|subst o; discriminate]. exists ch, p. auto.
  Qed.

  (* ------------------------------------------------------------ find_local_peaks with refinement *)
  Variable lpeak : Type.
  Variable lrough : frame -> list (nat * rpeak).
  Variable lplain : nat -> rpeak -> lpeak.
  Variable lrefine : chan -> nat -> rpeak -> lpeak.
  Notation local_flat := (local_flat frame chan rpeak cmaps lpeak lrough lplain lrefine).
  Notation local_one := (local_one frame chan rpeak cmaps lpeak lrough lplain lrefine).

  Lemma local_flat_gen : forall (rf : bool) C (xs pre : list frame),
    (forall y, In y (pre ++ xs) -> length (cmaps y) = C) ->
    (forall y c p, In y xs -> In (c, p) (lrough y) -> (c < C)%nat) ->
    map (fun e : nat * (nat * rpeak) =>
           let '(b, (c, p)) := e in
           (b, if rf then match patch_source frame chan cmaps (pre ++ xs) C b c with
                          | Some ch => Some (lrefine ch c p) | None => None end
               else Some (lplain c p)))
        (flat_peaks frame (nat * rpeak)%type lrough (length pre) xs)
    = map (fun e => (fst e, Some (snd e))) (flat_peaks frame lpeak (local_one rf) (length pre) xs).
  Proof.
    intros rf C. induction xs as [|x t IH]; intros pre Hlen Hc; [reflexivity|].
    simpl. rewrite !map_app. f_equal.
    - rewrite !map_map. unfold Flat.local_one.
      assert (Hx : nth_error (pre ++ x :: t) (length pre) = Some x).
      { rewrite nth_error_app2 by lia. rewrite Nat.sub_diag. reflexivity. }
      assert (Hcx : forall c p, In (c, p) (lrough x) -> (c < C)%nat) by (intros c p H; apply (Hc x c p); [left; reflexivity|exact H]).
      assert (Hlx : length (cmaps x) = C) by (apply Hlen; apply in_or_app; right; left; reflexivity).
      clear Hc IH. induction (lrough x) as [|[c p] l IHl]; [reflexivity|].
      simpl. destruct rf.
      + rewrite (patch_source_own frame chan cmaps (pre ++ x :: t) C (length pre) c x Hlen
                   (Hcx c p (or_introl eq_refl)) Hx).
        destruct (nth_error (cmaps x) c) as [ch|] eqn:Ec.
        * simpl. f_equal. apply IHl. intros c' p' H'. apply (Hcx c' p'). right. exact H'.
        * apply nth_error_None in Ec. specialize (Hcx c p (or_introl eq_refl)). lia.
      + simpl. f_equal. apply IHl. intros c' p' H'. apply (Hcx c' p'). right. exact H'.
    - specialize (IH (pre ++ [x])). rewrite app_length in IH. simpl in IH.
      replace (length pre + 1)%nat with (S (length pre)) in IH by lia.
      rewrite <- app_assoc in IH. simpl in IH. apply IH.
      + exact Hlen.
      + intros y c p Hy. apply Hc. right. exact Hy.
  Qed.

  (* the refined flat peak list of the batch = the flat list of every sample's own peaks, each refined on the
     sample's own map of the peak's channel (box_sample_inds = sample * channels + channel addresses that map) *)
  Theorem local_flat_is_per_sample : forall rf C xs,
    (forall y, In y xs -> length (cmaps y) = C) ->
    (forall y c p, In y xs -> In (c, p) (lrough y) -> (c < C)%nat) ->
    local_flat rf C xs = map (fun e => (fst e, Some (snd e))) (flat_peaks frame lpeak (local_one rf) 0%nat xs).
  Proof. intros rf C xs H1 H2. exact (local_flat_gen rf C xs (@nil frame) H1 H2). Qed.

  Theorem local_flat_split : forall rf C xs b x,
    (forall y, In y xs -> length (cmaps y) = C) ->
    (forall y c p, In y xs -> In (c, p) (lrough y) -> (c < C)%nat) ->
    nth_error xs b = Some x ->
    map snd (filter (fun e => fst e =? b) (local_flat rf C xs)) = map Some (local_one rf x).
  Proof.
    intros rf C xs b x H1 H2 Hb. rewrite local_flat_is_per_sample by assumption.
    rewrite <- (split_flat_nth frame lpeak (local_one rf) xs b x Hb). unfold Batch.split_sample.
    induction (flat_peaks frame lpeak (local_one rf) 0%nat xs) as [|e l IH]; [reflexivity|].
    simpl. destruct (fst e =? b); simpl; rewrite IH; reflexivity.
  Qed.
End GlobalProofs.

(* ---------------------------------------------------------------- bottom-up frames with max_instances *)
Section BottomUpProofs.
  Variables frame peak inst : Type.
  Variable detect : frame -> list peak.
  Variable group : frame -> list peak -> list inst.
  Variable visible : inst -> bool.
  Variable score : inst -> Q.
  Notation bu_limit := (bu_limit inst score).
  Notation bu_frame := (bu_frame inst visible score).
  Notation bottomup_frames := (bottomup_frames frame peak inst detect group visible score).
  Notation bottomup_frames_one := (bottomup_frames_one frame peak inst detect group visible score).
  Notation bottomup_frames_stream := (bottomup_frames_stream frame peak inst detect group visible score).
  Notation src := (src frame).

  Theorem bottomup_frames_is_per_frame : forall mi (fs : list src),
    bottomup_frames mi fs = map (bottomup_frames_one mi) fs.
  Proof.
    intros. unfold Flat.bottomup_frames. rewrite bottomup_batch_is_per_frame, map_map. reflexivity.
  Qed.

  Theorem bottomup_frames_mates : forall mi (xs1 : list src) x xs2,
    bottomup_frames mi (xs1 ++ [x] ++ xs2) = bottomup_frames mi xs1 ++ bottomup_frames mi [x] ++ bottomup_frames mi xs2.
  Proof. intros. rewrite !bottomup_frames_is_per_frame, !map_app. reflexivity. Qed.

  Theorem bottomup_frames_perm : forall mi (fs fs' : list src), Permutation fs fs' ->
    Permutation (bottomup_frames mi fs) (bottomup_frames mi fs').
  Proof. intros. rewrite !bottomup_frames_is_per_frame. now apply Permutation_map. Qed.

  Theorem bottomup_frames_any_batch_size : forall mi n (fs : list src), (0 < n)%nat ->
    bottomup_frames_stream mi n fs = map (bottomup_frames_one mi) fs.
  Proof.
    intros mi n fs Hn. unfold Flat.bottomup_frames_stream.
    rewrite (flat_map_ext _ (fun c => map (bottomup_frames_one mi) c)) by (intro; apply bottomup_frames_is_per_frame).
    rewrite flat_map_concat_map.
    change (fun c : list src => map (bottomup_frames_one mi) c) with (map (bottomup_frames_one mi)).
    rewrite <- concat_map. rewrite concat_chunks by (auto; lia). reflexivity.
  Qed.

  Theorem bottomup_frames_indices : forall mi (fs : list src) b s, nth_error fs b = Some s ->
    nth_error (bottomup_frames mi fs) b
    = Some (s_fidx frame s, s_vidx frame s, bu_frame mi (group (s_img frame s) (detect (s_img frame s)))).
  Proof. intros. rewrite bottomup_frames_is_per_frame. now apply (map_nth_error (bottomup_frames_one mi)). Qed.

  (* max_instances = k: the k highest-scoring visible instances, in decreasing order of score *)
  Theorem bu_limit_keeps_highest : forall k l,
    exists dropped,
      Permutation l (bu_limit (Some k) l ++ dropped) /\ length (bu_limit (Some k) l) = Nat.min k (length l) /\
      (forall a b, In a (bu_limit (Some k) l) -> In b dropped -> Qle (score b) (score a)).
  Proof.
    intros k l. simpl. destruct (topk_spec inst score k l) as [d [P [L Len]]]. exists d. auto.
  Qed.

  Theorem bu_limit_sorted : forall k l a b t1 t2, bu_limit (Some k) l = t1 ++ a :: b :: t2 -> Qle (score b) (score a).
  Proof. intros k l. simpl. apply (topk_sorted inst score). Qed.

  Theorem bu_limit_all : forall k l, (length l <= k)%nat -> Permutation l (bu_limit (Some k) l).
  Proof.
    intros k l H. destruct (bu_limit_keeps_highest k l) as [d [P [Len _]]].
    assert (d = []).
    { apply Permutation_length in P. rewrite app_length, Len in P. destruct d; [reflexivity|simpl in P; lia]. }
    subst d. rewrite app_nil_r in P. exact P.
  Qed.

  Lemma topk_nil : forall k, topk inst score k [] = [].
  Proof. destruct k; reflexivity. Qed.

  (* a frame without peaks: no instance, whatever max_instances, the batch-mates' records unchanged.
     The hypothesis on `group` (PAFScorer returns no instance for no peaks) is about the per-sample code and is
     observed by the harness, not proved. *)
  Theorem bottomup_empty_frame : forall mi (xs1 : list src) x xs2,
    (forall img, group img [] = []) -> detect (s_img frame x) = [] ->
    bottomup_frames mi [x] = [(s_fidx frame x, s_vidx frame x, [])] /\
    bottomup_frames mi (xs1 ++ [x] ++ xs2)
    = bottomup_frames mi xs1 ++ [(s_fidx frame x, s_vidx frame x, [])] ++ bottomup_frames mi xs2.
  Proof.
    intros mi xs1 x xs2 Hg Hd.
    assert (E : bottomup_frames_one mi x = (s_fidx frame x, s_vidx frame x, [])).
    { unfold Flat.bottomup_frames_one. rewrite Hd, Hg. unfold Flat.bu_frame. simpl.
      destruct mi; simpl; [rewrite topk_nil|]; reflexivity. }
    rewrite bottomup_frames_mates, !bottomup_frames_is_per_frame. simpl. rewrite E. split; reflexivity.
  Qed.
End BottomUpProofs.

(* ---------------------------------------------------------------- centroid-only top-down: the empty frame *)
Section CentroidOnlyEmpty.
  Variables frame peak : Type.
  Variable detect : frame -> list peak.
  Variable value : peak -> Q.
  Variable ginst : Type.
  Variable gmatch : frame -> peak -> option ginst.

  (* a frame without detections: an all-NaN centroid row and M all-NaN instance rows under its own indices, at any
     position of any batch (its batch-mates' entries are their own by centroid_only_indices / _mates) *)
  Theorem centroid_only_empty_frame : forall mi M (fs : list (src frame)) b s,
    nth_error fs b = Some s -> detect (s_img frame s) = [] ->
    exists row, nth_error (centroid_only_batch frame peak detect value ginst gmatch mi M fs) b
                = Some (s_fidx frame s, s_vidx frame s, row, repeat None M)
                /\ somes row = [].
  Proof.
    intros mi M fs b s Hb Hd.
    destruct (centroid_only_indices frame peak detect value ginst gmatch mi M fs b s Hb) as [row [E1 E2]].
    exists row. rewrite Hd in E1, E2. rewrite (kept_nil peak value) in E1, E2. simpl in E1.
    rewrite (pad_to_nil ginst) in E1. auto.
  Qed.
End CentroidOnlyEmpty.
