(* Batch.v — executable list-level model (definitions only) of how the three
   inference models of /repo treat a BATCH of frames, with the per-sample
   computations abstract:

     sleap_nn/inference/topdown.py   CentroidCrop.forward (find_local_peaks over the
        whole batch -> (peak_sample_inds == b) split, per-batch max_instances,
        torch.topk by value, NaN padding), _generate_crops (zip of peaks / images /
        frame_idx / video_idx / ..., skip of all-NaN samples, NaN rows dropped),
        TopDownInferenceModel.forward (FindInstancePeaks per sample's crops)
     sleap_nn/inference/bottomup.py  _generate_cms_peaks (split by sample index),
        PAFScorer.predict per sample, zip with frame_idx / video_idx
     sleap_nn/inference/peak_finding.py  crop index sample * channels + channel
     sleap_nn/inference/predictors.py    _predict_generator: frames are taken from
        the queue in chunks of batch_size; imgs / fidxs / vidxs lists built in step

   A frame is whatever the network sees; what the per-sample code does with it
   (`detect`, `value`, `crop_infer`, `group`, ...) is a parameter. *)
From Coq Require Import List Arith Bool QArith.
Import ListNotations.

Section BatchModel.
  Variables frame peak inst : Type.
  Variable detect : frame -> list peak.        (* local peaks of one sample, in torch.where order *)
  Variable value : peak -> Q.                  (* confidence value of a peak *)
  Variable crop_infer : frame -> peak -> inst. (* crop around the peak + FindInstancePeaks *)

  (* find_local_peaks on the batch: one flat list of (sample index, peak), sample-major *)
  Fixpoint flat_peaks (b : nat) (xs : list frame) : list (nat * peak) :=
    match xs with
    | [] => []
    | x :: t => map (pair b) (detect x) ++ flat_peaks (S b) t
    end.

  (* refined_peaks[(peak_sample_inds == b).nonzero()] *)
  Definition split_sample (all : list (nat * peak)) (b : nat) : list peak :=
    map snd (filter (fun p => fst p =? b) all).

  (* max(num_instances.values()): the largest per-sample count in this batch *)
  Definition batch_max (all : list (nat * peak)) (n : nat) : nat :=
    fold_right Nat.max 0%nat (map (fun b => length (split_sample all b)) (seq 0%nat n)).

  (* torch.topk(vals, k): k largest by value, in decreasing order.  Selection
     of the maximum (first index among equal values) k times. *)
  Fixpoint select_max (l : list peak) : option (peak * list peak) :=
    match l with
    | [] => None
    | x :: t =>
        match select_max t with
        | None => Some (x, [])
        | Some (m, rest) =>
            if Qle_bool (value m) (value x) then Some (x, t) else Some (m, x :: rest)
        end
    end.

  Fixpoint topk (k : nat) (l : list peak) : list peak :=
    match k with
    | O => []
    | S k' => match select_max l with
              | None => []
              | Some (m, rest) => m :: topk k' rest
              end
    end.

  (* one sample's row of the (batch, max_instances) table: None = NaN row *)
  Definition per_sample (M : nat) (cur : list peak) : list (option peak) :=
    if M <? length cur then map Some (topk M cur)
    else map Some cur ++ repeat None (M - length cur).

  (* CentroidCrop.forward up to the table; None = `if num_instances:` false (no
     detection in the whole batch) *)
  Definition centroid_rows (maxinst : option nat) (xs : list frame) : option (list (list (option peak))) :=
    let all := flat_peaks 0%nat xs in
    match all with
    | [] => None
    | _ :: _ =>
        let M := match maxinst with Some k => k | None => batch_max all (length xs) end in
        Some (map (fun b => per_sample M (split_sample all b)) (seq 0%nat (length xs)))
    end.

  Fixpoint somes {A} (l : list (option A)) : list A :=
    match l with
    | [] => []
    | Some a :: t => a :: somes t
    | None :: t => somes t
    end.

  (* what the reader thread put in the queue for one frame *)
  Record src := { s_img : frame; s_fidx : nat; s_vidx : nat }.

  (* _generate_crops + FindInstancePeaks: zip(rows, images, frame_idx, video_idx);
     all-NaN rows skipped, NaN rows dropped; one output record per remaining sample *)
  Definition crops_of (rows : list (list (option peak))) (imgs : list frame) (fi vi : list nat)
    : list (nat * nat * list inst) :=
    flat_map (fun r : list (option peak) * (frame * (nat * nat)) =>
                let '(row, (img, (f, v))) := r in
                match somes row with
                | [] => []
                | ps => [(f, v, map (crop_infer img) ps)]
                end)
             (combine rows (combine imgs (combine fi vi))).

  (* TopDownInferenceModel.forward on one batch as assembled by _predict_generator *)
  Definition topdown_batch (maxinst : option nat) (fs : list src) : list (nat * nat * list inst) :=
    let imgs := map s_img fs in
    match centroid_rows maxinst imgs with
    | None => []
    | Some rows => crops_of rows imgs (map s_fidx fs) (map s_vidx fs)
    end.

  (* the per-frame meaning: peaks kept for one frame *)
  Definition kept (maxinst : option nat) (l : list peak) : list peak :=
    match maxinst with
    | Some k => if k <? length l then topk k l else l
    | None => l
    end.

  Definition topdown_one (maxinst : option nat) (s : src) : list (nat * nat * list inst) :=
    match kept maxinst (detect (s_img s)) with
    | [] => []
    | ps => [(s_fidx s, s_vidx s, map (crop_infer (s_img s)) ps)]
    end.

  (* _predict_generator: batches of batch_size frames, the last one shorter *)
  Fixpoint chunks {A} (fuel n : nat) (l : list A) : list (list A) :=
    match fuel with
    | O => []
    | S f => match l with
             | [] => []
             | _ :: _ => firstn n l :: chunks f n (skipn n l)
             end
    end.

  Definition topdown_stream (maxinst : option nat) (batch_size : nat) (fs : list src) :=
    flat_map (topdown_batch maxinst) (chunks (length fs) batch_size fs).

  (* ---- bottom-up: _generate_cms_peaks splits by sample; grouping per sample *)
  Variable group : frame -> list peak -> list inst.

  Definition bottomup_batch (fs : list src) : list (nat * nat * list inst) :=
    let all := flat_peaks 0%nat (map s_img fs) in
    map (fun r : nat * src => let '(b, s) := r in
           (s_fidx s, s_vidx s, group (s_img s) (split_sample all b)))
        (combine (seq 0%nat (length fs)) fs).

  Definition bottomup_one (s : src) : nat * nat * list inst :=
    (s_fidx s, s_vidx s, group (s_img s) (detect (s_img s))).

  (* ---- crop index sample * channels + channel (find_local_peaks / find_global_peaks
     with integral refinement): the confidence maps are reshaped to
     (samples * channels, 1, h, w) and the patch for a peak of sample b, channel c is
     cut from entry b * channels + c *)
  Variable chan : Type.
  Variable cmaps : frame -> list chan.         (* the channels of one sample *)

  Definition flat_chans (xs : list frame) : list chan := concat (map cmaps xs).
  Definition patch_source (xs : list frame) (C b c : nat) : option chan :=
    nth_error (flat_chans xs) (b * C + c).

  (* ---- single instance: find_global_peaks is per (sample, channel); with
     refinement the rough peaks are flattened, refined from patch_source and
     reshaped back.  This is the CLOSED FORM (the patch index of entry (b, c) is
     written as b * C + c directly); the code's flatten -> valid_idx -> gather ->
     scatter -> reshape path is C12/Flat.v `global_flat`, proved equal to this
     (LemmasFlat.global_flat_is_single_batch). *)
  Variable rough : chan -> option peak.        (* global maximum of one channel, None below threshold *)
  Variable refine : chan -> peak -> inst.      (* integral refinement on the patch cut from that channel *)

  Definition single_batch (C : nat) (xs : list frame) : list (list (option inst)) :=
    map (fun b =>
           map (fun c =>
                  match patch_source xs C b c with
                  | None => None
                  | Some ch => match rough ch with
                               | None => None
                               | Some p => match patch_source xs C b c with   (* cms[valid_idx] *)
                                           | Some ch' => Some (refine ch' p)
                                           | None => None
                                           end
                               end
                  end)
               (seq 0%nat C))
        (seq 0%nat (length xs)).

  Definition single_one (x : frame) : list (option inst) :=
    map (fun ch => match rough ch with None => None | Some p => Some (refine ch p) end) (cmaps x).

  (* ---- centroid-only top-down (centered-instance model = None): CentroidCrop with
     return_crops = False returns the NaN-padded (batch, M) table for EVERY batch (a
     batch without any detection gives one all-NaN row per sample, max_instances or 1
     wide), and FindInstancePeaksGroundTruth matches every centroid to the nearest
     labelled instance of its own sample:
       subs = argwhere(finite match)            -> flat (sample, instance) list, sample-major
       counts = bincount(matched_batch_inds)    -> gt_count
       for i in range(b): `if i not in matched_batch_inds` NaN rows, else
           peaks_list[parsed : parsed + c] padded with NaN / cut to max_inst; parsed += c *)
  Variable ginst : Type.
  Variable gmatch : frame -> peak -> option ginst.   (* None = every distance is inf *)

  Definition centroid_table (maxinst : option nat) (xs : list frame) : list (list (option peak)) :=
    match centroid_rows maxinst xs with
    | Some rows => rows
    | None => map (fun _ => repeat None (match maxinst with Some k => k | None => 1%nat end)) xs
    end.

  Definition row_matches (img : frame) (row : list (option peak)) : list ginst :=
    somes (map (fun o => match o with Some p => gmatch img p | None => None end) row).

  Fixpoint gt_flat (b : nat) (rows : list (list (option peak))) (imgs : list frame) : list (nat * ginst) :=
    match rows, imgs with
    | row :: rt, img :: it => map (pair b) (row_matches img row) ++ gt_flat (S b) rt it
    | _, _ => []
    end.

  Definition gt_count (all : list (nat * ginst)) (i : nat) : nat :=
    length (filter (fun p => fst p =? i) all).

  Definition pad_to (M : nat) (l : list ginst) : list (option ginst) :=
    if length l <? M then map Some l ++ repeat None (M - length l) else map Some (firstn M l).

  Fixpoint gt_parse (M : nat) (all : list (nat * ginst)) (parsed i n : nat) : list (list (option ginst)) :=
    match n with
    | O => []
    | S n' =>
        if existsb (fun p => fst p =? i) all
        then let c := gt_count all i in
             pad_to M (map snd (firstn c (skipn parsed all))) :: gt_parse M all (parsed + c) (S i) n'
        else repeat None M :: gt_parse M all parsed (S i) n'
    end.

  (* The walk in closed form.  `gt_pointer all i` = the value of `parsed` when the loop reaches sample i:
     the number of entries of the flat list that belong to EARLIER samples, every one of them counted
     (the TRUE per-sample counts: a sample with more matches than the M instance rows still moves the
     pointer past ALL its matches, although only M of them are emitted).  `gt_turn M all i` = what loop
     turn i appends. *)
  Definition gt_pointer (all : list (nat * ginst)) (i : nat) : nat :=
    length (filter (fun p => fst p <? i) all).

  Definition gt_turn (M : nat) (all : list (nat * ginst)) (i : nat) : list (option ginst) :=
    if existsb (fun p => fst p =? i) all
    then pad_to M (map snd (firstn (gt_count all i) (skipn (gt_pointer all i) all)))
    else repeat None M.

  (* NOT the code — a walk whose pointer advances by the count CLAMPED to M (`c = min(counts[i], M)`),
     kept only to show that the theorems about `gt_parse` tell the two apart (Props.v,
     c12_clamped_pointer_reads_batch_mates). *)
  Fixpoint gt_parse_clamped (M : nat) (all : list (nat * ginst)) (parsed i n : nat) : list (list (option ginst)) :=
    match n with
    | O => []
    | S n' =>
        if existsb (fun p => fst p =? i) all
        then let c := Nat.min (gt_count all i) M in
             pad_to M (map snd (firstn c (skipn parsed all))) :: gt_parse_clamped M all (parsed + c) (S i) n'
        else repeat None M :: gt_parse_clamped M all parsed (S i) n'
    end.

  (* one batch through TopDownInferenceModel(CentroidCrop(return_crops=False),
     FindInstancePeaksGroundTruth): ONE output dictionary whose b-th entries are
     (frame_idx, video_idx, centroid row, matched-instance rows) *)
  Definition centroid_only_batch (maxinst : option nat) (M : nat) (fs : list src)
    : list (nat * nat * list (option peak) * list (option ginst)) :=
    let imgs := map s_img fs in
    let rows := centroid_table maxinst imgs in
    let peaks := gt_parse M (gt_flat 0%nat rows imgs) 0%nat 0%nat (length imgs) in
    map (fun r : src * (list (option peak) * list (option ginst)) =>
           (s_fidx (fst r), s_vidx (fst r), fst (snd r), snd (snd r)))
        (combine fs (combine rows peaks)).

  (* _predict_generator: one such dictionary per chunk of batch_size frames *)
  Definition centroid_only_stream (maxinst : option nat) (M batch_size : nat) (fs : list src) :=
    flat_map (centroid_only_batch maxinst M) (chunks (length fs) batch_size fs).

  (* the per-frame meaning *)
  Definition centroid_only_one (maxinst : option nat) (M : nat) (s : src) : nat * nat * list peak * list (option ginst) :=
    let ps := kept maxinst (detect (s_img s)) in
    (s_fidx s, s_vidx s, ps,
     pad_to M (somes (map (gmatch (s_img s)) ps))).
End BatchModel.

(* ---- harness entry: peaks are (id, value); the instance stage is the identity *)
Definition hpeak := (nat * Q)%type.
Definition hframe := list hpeak.

Definition mpeak := (nat * Q * option nat)%type.

Inductive case :=
| CStream (maxinst : option nat) (batch_size : nat) (fs : list (nat * nat * hframe))   (* (frame_idx, video_idx, peaks) *)
| CRows (maxinst : option nat) (fs : list hframe)
| CGt (maxinst : option nat) (M batch_size : nat) (fs : list (nat * nat * hframe))   (* centroid-only: peak id = id of the labelled instance it matches *)
| CGtM (maxinst : option nat) (M batch_size : nat) (fs : list (nat * nat * list mpeak)).
  (* centroid-only, peaks (id, value, match): match = index of the labelled instance of the SAME frame the
     centroid is nearest to (several centroids may share one; a centroid that is detected but not labelled
     has the index of some labelled neighbour), None = the frame has no labelled instance.  A frame may hold
     MORE peaks than the M instance rows. *)

Inductive result :=
| RStream (out : list (nat * nat * list nat))
| RRows (rows : option (list (list (option nat))))
| RGt (out : list (nat * nat * list (option nat) * list (option nat))).

Definition mk_src (f : nat * nat * hframe) : src hframe :=
  {| s_img := snd f; s_fidx := fst (fst f); s_vidx := snd (fst f) |}.

Definition mk_msrc (f : nat * nat * list mpeak) : src (list mpeak) :=
  {| s_img := snd f; s_fidx := fst (fst f); s_vidx := snd (fst f) |}.

Definition run (c : case) : result :=
  match c with
  | CStream mi bs fs =>
      RStream (map (fun r : nat * nat * list hpeak => (fst (fst r), snd (fst r), map fst (snd r)))
                   (topdown_stream hframe hpeak hpeak (fun x => x) snd (fun _ p => p) mi bs (map mk_src fs)))
  | CRows mi fs =>
      RRows (match centroid_rows hframe hpeak (fun x => x) snd mi fs with
             | None => None
             | Some rows => Some (map (map (option_map fst)) rows)
             end)
  | CGt mi M bs fs =>
      RGt (map (fun r : nat * nat * list (option hpeak) * list (option nat) =>
                  (fst (fst (fst r)), snd (fst (fst r)), map (option_map fst) (snd (fst r)), snd r))
               (centroid_only_stream hframe hpeak (fun x => x) snd nat (fun _ p => Some (fst p)) mi M bs (map mk_src fs)))
  | CGtM mi M bs fs =>
      RGt (map (fun r : nat * nat * list (option mpeak) * list (option nat) =>
                  (fst (fst (fst r)), snd (fst (fst r)), map (option_map (fun p : mpeak => fst (fst p))) (snd (fst r)), snd r))
               (centroid_only_stream (list mpeak) mpeak (fun x => x) (fun p => snd (fst p)) nat (fun _ p => snd p)
                                     mi M bs (map mk_msrc fs)))
  end.

From SV Require Import Base.Render.
Definition rresult (r : result) : rdr :=
  match r with
  | RStream out => rlist (rtriple rnat rnat (rlist rnat)) out
  | RRows rows => ropt (rlist (rlist (ropt rnat))) rows
  | RGt out => rlist (fun r : nat * nat * list (option nat) * list (option nat) =>
                        rlist (fun x => x) [rnat (fst (fst (fst r))); rnat (snd (fst (fst r)));
                                            rlist (ropt rnat) (snd (fst r)); rlist (ropt rnat) (snd r)]) out
  end.
