(* SingleFromC07.v — single-instance models: sample-locality and the empty-frame clause from C07's model of the
   BATCH call find_global_peaks.

   C12/Flat.v `global_flat` models the valid_idx gather/scatter of find_global_peaks over abstract per-channel
   functions (`rough`, `offset`: "what is computed from one channel" is their typing).  Property C07's
   `global_peaks_p fixed cms thr refine` (C07/Global.v, imported read-only; tied to the real find_global_peaks by
   harness/props/c07.py) is the CONCRETE batch call: per-map argmax (`global_rough`), maps flattened to
   samples*channels, `valid` = the non-NaN positions, patches cut from `concat cms` at those positions, integral
   regression, `scatter`, `chunks` back to (samples, channels); `refine` = None | Some integral_patch_size.
   C07 proves `global_peaks_p … cms … = map (map (global_single_p …)) cms` (c07_channel_independence_any_patch).
   Here the SingleInstancePredictor records (`Flat.si_record`, the evaluated record constructor of `frun CSi`) are
   built on C07's batch call and shown to be a function of each frame alone; a frame whose every map stays below the
   threshold yields no record in the current tree (fx = true, /repo since 8463f22) and one all-NaN instance in the
   pinned tree (fx = false: finding F62).
   Remaining typing assumption: the network (`cms_of`). *)
From Coq Require Import List Arith Bool ZArith QArith Lia.
Import ListNotations.
From SV Require Import C06.Peaks C07.Global C07.PatchP.
From SV Require Import C12.Batch C12.Flat.
Open Scope nat_scope.

(* a node of the record: (x, y, value), None = NaN point *)
Definition npeak : Type := (Q * Q * Q)%type.
Definition node_of (g : gpoint) : option npeak :=
  match fst g with Some xy => Some (fst xy, snd xy, snd g) | None => None end.

Section Single07.
  Variable frame : Type.
  Variable cms_of : frame -> list cmap.                (* the network's confidence maps of one sample *)
  Variables (fixed : bool) (thr : Q) (refine : option nat).

  Definition cms07 (fs : list (src frame)) : list (list cmap) := map (fun s => cms_of (s_img frame s)) fs.

  (* torch.stack: every sample has the same number of channels (what C07's theorem needs) *)
  Definition same_channels (fs : list (src frame)) : Prop :=
    Forall (fun chans => length chans = length (hd [] (cms07 fs))) (cms07 fs).

  (* SingleInstanceInferenceModel.forward + _make_labeled_frames_from_generator on one batch *)
  Definition single_frames07 (fx : bool) (fs : list (src frame)) : list (nat * nat * list (list (option npeak))) :=
    flat_map (fun r : src frame * list gpoint =>
                si_record npeak fx (s_fidx frame (fst r)) (s_vidx frame (fst r)) (map node_of (snd r)))
             (combine fs (global_peaks_p fixed (cms07 fs) thr refine)).

  (* the per-frame meaning: every map of the frame by itself *)
  Definition row07 (x : frame) : list (option npeak) :=
    map (fun m => node_of (global_single_p fixed thr refine m)) (cms_of x).
  Definition single_one07 (fx : bool) (s : src frame) : list (nat * nat * list (list (option npeak))) :=
    si_record npeak fx (s_fidx frame s) (s_vidx frame s) (row07 (s_img frame s)).

  Lemma combine_map_self {A B} (h : A -> B) (l : list A) : combine l (map h l) = map (fun a => (a, h a)) l.
  Proof. induction l as [|a t IH]; simpl; [reflexivity|]. rewrite IH. reflexivity. Qed.

  Theorem single_frames07_is_per_frame : forall fx fs, same_channels fs ->
    single_frames07 fx fs = flat_map (single_one07 fx) fs.
  Proof.
    intros fx fs HC. unfold single_frames07.
    rewrite (global_peaks_p_pointwise fixed (cms07 fs) thr refine HC).
    unfold cms07. rewrite map_map, combine_map_self, flat_map_concat_map, map_map, <- flat_map_concat_map.
    apply flat_map_ext. intros s. unfold single_one07, row07. simpl. rewrite map_map. reflexivity.
  Qed.

  Theorem single_frames07_mates : forall fx xs1 x xs2, same_channels (xs1 ++ [x] ++ xs2) ->
    single_frames07 fx (xs1 ++ [x] ++ xs2)
    = flat_map (single_one07 fx) xs1 ++ single_one07 fx x ++ flat_map (single_one07 fx) xs2.
  Proof.
    intros fx xs1 x xs2 HC. rewrite (single_frames07_is_per_frame fx _ HC).
    rewrite !flat_map_app. simpl. rewrite app_nil_r. reflexivity.
  Qed.

  (* a frame none of whose maps reaches the threshold: every node NaN *)
  Lemma row07_all_nan : forall x,
    (forall m, In m (cms_of x) -> fst (global_rough fixed m thr) = None) ->
    all_nan npeak (row07 x) = true.
  Proof.
    intros x H. unfold row07, all_nan. rewrite forallb_forall. intros o Ho.
    apply in_map_iff in Ho. destruct Ho as [m [<- Hm]]. specialize (H m Hm).
    unfold global_single_p, node_of. destruct (global_rough fixed m thr) as [pt v]. simpl in H. subst pt.
    destruct refine; reflexivity.
  Qed.

  (* the empty-frame clause, current tree (fx = true): no record for that frame, its batch-mates' records are their own *)
  Theorem single07_empty_frame : forall xs1 x xs2, same_channels (xs1 ++ [x] ++ xs2) ->
    (forall m, In m (cms_of (s_img frame x)) -> fst (global_rough fixed m thr) = None) ->
    single_one07 true x = [] /\
    single_frames07 true (xs1 ++ [x] ++ xs2) = flat_map (single_one07 true) xs1 ++ flat_map (single_one07 true) xs2.
  Proof.
    intros xs1 x xs2 HC H.
    assert (E : single_one07 true x = []).
    { unfold single_one07, si_record. rewrite (row07_all_nan _ H). reflexivity. }
    split; [exact E|]. rewrite (single_frames07_mates true _ _ _ HC), E. reflexivity.
  Qed.

  (* pinned tree (fx = false): exactly one all-NaN instance for that frame — finding F62 on the concrete model *)
  Theorem single07_empty_frame_pinned : forall x,
    (forall m, In m (cms_of (s_img frame x)) -> fst (global_rough fixed m thr) = None) ->
    single_one07 false x = [(s_fidx frame x, s_vidx frame x, [row07 (s_img frame x)])] /\
    all_nan npeak (row07 (s_img frame x)) = true.
  Proof. intros x H. split; [reflexivity|apply row07_all_nan; exact H]. Qed.
End Single07.
