(* LemmasScale.v (C12) — proofs about C12/Scale.v: the eff_scale list is built in step with the image
   and index lists, so every sample is processed with the factor of its OWN frame. *)
From Coq Require Import List Arith Bool QArith Lia Permutation.
Import ListNotations.
From SV Require Import C12.Batch C12.Lemmas C12.Scale.

Lemma flat_map_map : forall (A B C : Type) (g : A -> B) (f : B -> list C) l,
  flat_map f (map g l) = flat_map (fun a => f (g a)) l.
Proof. intros. induction l as [|a t IH]; simpl; [reflexivity|now rewrite IH]. Qed.

Section ScaleProofs.
  Variables image frame size : Type.
  Variable sizematch : image -> frame * Q.
  Variable orig_size : image -> size.

  Notation qitem := (qitem image).
  Notation batch := (batch frame size).
  Notation push := (push image frame size sizematch orig_size).
  Notation assemble := (assemble image frame size sizematch orig_size).
  Notation assemble_last_eff := (assemble_last_eff image frame size sizematch orig_size).
  Notation samples := (samples frame size).
  Notation sample_of := (sample_of image frame sizematch).
  Notation eff_entries := (eff_entries frame size).

  (* ---------------------------------------------------------------- the five lists grow in step *)
  Lemma fold_push : forall (qs : list qitem) (b0 : batch),
    let b := fold_left push qs b0 in
    b_imgs _ _ b = b_imgs _ _ b0 ++ map (fun q => fst (sizematch (q_img _ q))) qs /\
    b_fidx _ _ b = b_fidx _ _ b0 ++ map (q_fidx _) qs /\
    b_vidx _ _ b = b_vidx _ _ b0 ++ map (q_vidx _) qs /\
    b_size _ _ b = b_size _ _ b0 ++ map (fun q => orig_size (q_img _ q)) qs /\
    b_eff _ _ b = b_eff _ _ b0 ++ map (fun q => snd (sizematch (q_img _ q))) qs.
  Proof.
    induction qs as [|q t IH]; intros b0; simpl.
    - rewrite !app_nil_r. repeat split; reflexivity.
    - destruct (IH (push b0 q)) as [A [B [C [D E]]]]. cbn [Scale.push b_imgs b_fidx b_vidx b_size b_eff] in *.
      rewrite A, B, C, D, E, <- !app_assoc. repeat split; reflexivity.
  Qed.

  Theorem assemble_lists : forall qs : list qitem,
    b_imgs _ _ (assemble qs) = map (fun q => fst (sizematch (q_img _ q))) qs /\
    b_fidx _ _ (assemble qs) = map (q_fidx _) qs /\
    b_vidx _ _ (assemble qs) = map (q_vidx _) qs /\
    b_size _ _ (assemble qs) = map (fun q => orig_size (q_img _ q)) qs /\
    b_eff _ _ (assemble qs) = map (fun q => snd (sizematch (q_img _ q))) qs.
  Proof. intros qs. exact (fold_push qs (empty_batch frame size)). Qed.

  (* the zips of the inference models pair every image with the factor and the indices of its own frame *)
  Theorem samples_assemble : forall qs : list qitem, samples (assemble qs) = map sample_of qs.
  Proof.
    intros qs. unfold Scale.samples. destruct (assemble_lists qs) as [A [B [C [_ E]]]]. rewrite A, B, C, E.
    clear. induction qs as [|q t IH]; simpl; [reflexivity|]. rewrite IH. f_equal.
    unfold Scale.sample_of. cbn [fst snd]. now rewrite <- surjective_pairing.
  Qed.

  Theorem eff_entries_assemble : forall qs : list qitem,
    eff_entries (assemble qs) = map (fun q => (q_fidx _ q, q_vidx _ q, snd (sizematch (q_img _ q)))) qs.
  Proof. intros. unfold Scale.eff_entries. rewrite samples_assemble, map_map. reflexivity. Qed.

  Lemma assemble_length : forall qs : list qitem, length (samples (assemble qs)) = length qs.
  Proof. intros. rewrite samples_assemble. apply map_length. Qed.

  (* ---------------------------------------------------------------- the inference models *)
  Variables peak inst : Type.
  Variable detect : frame -> list peak.
  Variable value : peak -> Q.
  Variable crop_infer_s : frame -> Q -> peak -> inst.
  Variable group_s : frame -> Q -> list peak -> list inst.
  Variable decode_s : frame -> Q -> inst.
  Variable ginst : Type.
  Variable gmatch_s : frame -> Q -> peak -> option ginst.

  Notation td := (topdown_scaled frame size peak inst detect value crop_infer_s).
  Notation td1 := (topdown_scaled_one image frame sizematch peak inst detect value crop_infer_s).
  Notation bu := (bottomup_scaled frame size peak inst detect group_s).
  Notation bu1 := (bottomup_scaled_one image frame sizematch peak inst detect group_s).
  Notation si := (single_scaled frame size inst decode_s).
  Notation si1 := (single_scaled_one image frame sizematch inst decode_s).
  Notation co := (centroid_only_scaled frame size peak detect value ginst gmatch_s).
  Notation co1 := (centroid_only_scaled_one image frame sizematch peak detect value ginst gmatch_s).
  Notation strip := (strip_padding peak ginst).

  Theorem topdown_scaled_is_per_frame : forall mi (qs : list qitem),
    td mi (assemble qs) = flat_map (td1 mi) qs.
  Proof.
    intros. unfold topdown_scaled. rewrite samples_assemble, topdown_batch_is_per_frame, flat_map_map. reflexivity.
  Qed.

  Theorem bottomup_scaled_is_per_frame : forall qs : list qitem, bu (assemble qs) = map bu1 qs.
  Proof.
    intros. unfold bottomup_scaled. rewrite samples_assemble, bottomup_batch_is_per_frame, map_map. reflexivity.
  Qed.

  Theorem single_scaled_is_per_frame : forall qs : list qitem, si (assemble qs) = map si1 qs.
  Proof. intros. unfold single_scaled. rewrite samples_assemble, map_map. reflexivity. Qed.

  Theorem centroid_only_scaled_is_per_frame : forall mi M (qs : list qitem),
    map strip (co mi M (assemble qs)) = map (co1 mi M) qs.
  Proof.
    intros. unfold centroid_only_scaled. rewrite samples_assemble.
    unfold strip_padding. rewrite centroid_only_batch_is_per_frame, map_map. reflexivity.
  Qed.

  (* ---- batch-mates *)
  Theorem topdown_scaled_mates : forall mi (xs1 : list qitem) x xs2,
    td mi (assemble (xs1 ++ [x] ++ xs2)) = td mi (assemble xs1) ++ td mi (assemble [x]) ++ td mi (assemble xs2).
  Proof. intros. rewrite !topdown_scaled_is_per_frame, !flat_map_app. reflexivity. Qed.

  Theorem bottomup_scaled_mates : forall (xs1 : list qitem) x xs2,
    bu (assemble (xs1 ++ [x] ++ xs2)) = bu (assemble xs1) ++ bu (assemble [x]) ++ bu (assemble xs2).
  Proof. intros. rewrite !bottomup_scaled_is_per_frame, !map_app. reflexivity. Qed.

  Theorem single_scaled_mates : forall (xs1 : list qitem) x xs2,
    si (assemble (xs1 ++ [x] ++ xs2)) = si (assemble xs1) ++ si (assemble [x]) ++ si (assemble xs2).
  Proof. intros. rewrite !single_scaled_is_per_frame, !map_app. reflexivity. Qed.

  Theorem centroid_only_scaled_mates : forall mi M (xs1 : list qitem) x xs2,
    map strip (co mi M (assemble (xs1 ++ [x] ++ xs2)))
    = map strip (co mi M (assemble xs1)) ++ map strip (co mi M (assemble [x])) ++ map strip (co mi M (assemble xs2)).
  Proof. intros. rewrite !centroid_only_scaled_is_per_frame, !map_app. reflexivity. Qed.

  (* ---- order within the batch *)
  Theorem topdown_scaled_perm : forall mi (qs qs' : list qitem), Permutation qs qs' ->
    Permutation (td mi (assemble qs)) (td mi (assemble qs')).
  Proof. intros. rewrite !topdown_scaled_is_per_frame. now apply Permutation_flat_map. Qed.

  Theorem bottomup_scaled_perm : forall (qs qs' : list qitem), Permutation qs qs' ->
    Permutation (bu (assemble qs)) (bu (assemble qs')).
  Proof. intros. rewrite !bottomup_scaled_is_per_frame. now apply Permutation_map. Qed.

  Theorem single_scaled_perm : forall (qs qs' : list qitem), Permutation qs qs' ->
    Permutation (si (assemble qs)) (si (assemble qs')).
  Proof. intros. rewrite !single_scaled_is_per_frame. now apply Permutation_map. Qed.

  (* ---- batch size: the chunking of _predict_generator *)
  Lemma stream_flat : forall (R : Type) (run_batch : batch -> list R) (one : qitem -> list R) n (qs : list qitem),
    (0 < n)%nat -> (forall ch, run_batch (assemble ch) = flat_map one ch) ->
    scaled_stream image frame size sizematch orig_size run_batch n qs = flat_map one qs.
  Proof.
    intros R run_batch one n qs Hn H. unfold scaled_stream.
    rewrite (flat_map_ext_in _ _ _ (fun l => flat_map one l)) by (intros; apply H).
    rewrite flat_map_concat, concat_chunks by lia. reflexivity.
  Qed.

  Lemma flat_map_singleton : forall (A B : Type) (f : A -> B) l, flat_map (fun a => [f a]) l = map f l.
  Proof. intros. induction l as [|a t IH]; simpl; [reflexivity|now rewrite IH]. Qed.

  Theorem topdown_scaled_any_batch_size : forall mi n (qs : list qitem), (0 < n)%nat ->
    scaled_stream image frame size sizematch orig_size (td mi) n qs = flat_map (td1 mi) qs.
  Proof. intros. apply stream_flat; [assumption|]. intros. apply topdown_scaled_is_per_frame. Qed.

  Theorem bottomup_scaled_any_batch_size : forall n (qs : list qitem), (0 < n)%nat ->
    scaled_stream image frame size sizematch orig_size bu n qs = map bu1 qs.
  Proof.
    intros. rewrite <- flat_map_singleton. apply stream_flat; [assumption|].
    intros. rewrite bottomup_scaled_is_per_frame, flat_map_singleton. reflexivity.
  Qed.

  Theorem single_scaled_any_batch_size : forall n (qs : list qitem), (0 < n)%nat ->
    scaled_stream image frame size sizematch orig_size si n qs = map si1 qs.
  Proof.
    intros. rewrite <- flat_map_singleton. apply stream_flat; [assumption|].
    intros. rewrite single_scaled_is_per_frame, flat_map_singleton. reflexivity.
  Qed.

  Theorem eff_entries_any_batch_size : forall n (qs : list qitem), (0 < n)%nat ->
    scaled_stream image frame size sizematch orig_size eff_entries n qs
    = map (fun q => (q_fidx _ q, q_vidx _ q, snd (sizematch (q_img _ q)))) qs.
  Proof.
    intros. rewrite <- flat_map_singleton. apply stream_flat; [assumption|].
    intros. rewrite eff_entries_assemble, flat_map_singleton. reflexivity.
  Qed.

  (* ---- every record carries the indices of one queued frame and was computed with THAT frame's
     size-matched image and THAT frame's factor *)
  Theorem topdown_scaled_indices : forall mi (qs : list qitem) f v insts,
    In (f, v, insts) (td mi (assemble qs)) ->
    exists q, In q qs /\ f = q_fidx _ q /\ v = q_vidx _ q /\
      insts = map (crop_infer_s (fst (sizematch (q_img _ q))) (snd (sizematch (q_img _ q))))
                  (kept peak value mi (detect (fst (sizematch (q_img _ q))))) /\
      kept peak value mi (detect (fst (sizematch (q_img _ q)))) <> [].
  Proof.
    intros mi qs f v insts H. unfold topdown_scaled in H. rewrite samples_assemble in H.
    apply topdown_indices in H. destruct H as [s [Hs [Hf [Hv [Hi Hk]]]]].
    apply in_map_iff in Hs. destruct Hs as [q [Hq Hin]]. subst s. exists q. split; [exact Hin|].
    repeat split; assumption.
  Qed.

  Theorem single_scaled_indices : forall (qs : list qitem) b q, nth_error qs b = Some q ->
    nth_error (si (assemble qs)) b
    = Some (q_fidx _ q, q_vidx _ q, decode_s (fst (sizematch (q_img _ q))) (snd (sizematch (q_img _ q)))).
  Proof. intros. rewrite single_scaled_is_per_frame. now apply (map_nth_error si1). Qed.

  Theorem bottomup_scaled_indices : forall (qs : list qitem) b q, nth_error qs b = Some q ->
    nth_error (bu (assemble qs)) b
    = Some (q_fidx _ q, q_vidx _ q,
            group_s (fst (sizematch (q_img _ q))) (snd (sizematch (q_img _ q))) (detect (fst (sizematch (q_img _ q))))).
  Proof. intros. rewrite bottomup_scaled_is_per_frame. now apply (map_nth_error bu1). Qed.
End ScaleProofs.

(* ---------------------------------------------------------------- one factor for the whole batch: refuted.
   Images are numbers, apply_sizematcher returns the number as the factor: frames 2 and 3. *)
Definition toy_sizematch (n : nat) : nat * Q := (n, inject_Z (Z.of_nat n)).
Definition toy_q (n f : nat) : qitem nat := {| q_img := n; q_fidx := f; q_vidx := 0%nat |}.

Theorem last_eff_depends_on_batch_mates :
  let ents := fun qs => eff_entries nat nat (assemble_last_eff nat nat nat toy_sizematch (fun n => n) qs) in
  ents [toy_q 2 7] = [(7%nat, 0%nat, inject_Z 2)] /\
  ents [toy_q 2 7; toy_q 3 8] = [(7%nat, 0%nat, inject_Z 3); (8%nat, 0%nat, inject_Z 3)] /\
  eff_entries nat nat (assemble nat nat nat toy_sizematch (fun n => n) [toy_q 2 7; toy_q 3 8])
  = [(7%nat, 0%nat, inject_Z 2); (8%nat, 0%nat, inject_Z 3)].
Proof. repeat split; vm_compute; reflexivity. Qed.
