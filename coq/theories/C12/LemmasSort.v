(* LemmasSort.v — max_instances = stable descending sort + slice, with the tie-breaking (proofs). *)
From Coq Require Import List Arith QArith Permutation Lia.
Import ListNotations.
From SV Require Import C12.Batch C12.Lemmas C12.Flat C12.LemmasFlat C12.SortModel.

Section SortProofs.
  Variable A : Type.
  Variable key : A -> Q.
  Notation topk := (topk A key).
  Notation select_max := (select_max A key).
  Notation sorted_desc := (sorted_desc A key).
  Notation insert_desc := (insert_desc A key).
  Notation with_key := (with_key A key).

  Lemma select_max_sorted : forall l m rest,
    select_max l = Some (m, rest) -> sorted_desc l = m :: sorted_desc rest.
  Proof.
    induction l as [|x t IH]; intros m rest H; simpl in H; [discriminate|].
    destruct (select_max t) as [[m' r']|] eqn:E.
    - specialize (IH _ _ eq_refl). simpl. rewrite IH.
      destruct (Qle_bool (key m') (key x)) eqn:C; inversion H; subst; clear H.
      + simpl. rewrite C. rewrite <- IH. reflexivity.
      + simpl. rewrite C. reflexivity.
    - apply select_max_none in E. subst t. inversion H; subst. reflexivity.
  Qed.

  (* the selection model of Batch.v IS the sort-and-slice of the code *)
  Theorem topk_is_sorted_prefix : forall k l, topk k l = firstn k (sorted_desc l).
  Proof.
    induction k as [|k IH]; intros l; [reflexivity|]. simpl.
    destruct (select_max l) as [[m rest]|] eqn:E.
    - rewrite (select_max_sorted _ _ _ E). simpl. rewrite IH. reflexivity.
    - apply select_max_none in E. subst l. reflexivity.
  Qed.

  Lemma sorted_desc_length : forall l, length (sorted_desc l) = length l.
  Proof.
    assert (I : forall x l, length (insert_desc x l) = S (length l)).
    { intros x. induction l as [|y t IH]; simpl; [reflexivity|]. destruct (Qle_bool _ _); simpl; auto. }
    induction l as [|x t IH]; simpl; [reflexivity|]. rewrite I, IH. reflexivity.
  Qed.

  Lemma sorted_desc_is_topk_all : forall l, sorted_desc l = topk (length l) l.
  Proof.
    intros l. rewrite topk_is_sorted_prefix. rewrite <- (sorted_desc_length l). symmetry. apply firstn_all.
  Qed.

  (* sorted_desc is a sort: a permutation ... *)
  Theorem sorted_desc_perm : forall l, Permutation l (sorted_desc l).
  Proof.
    intros l. rewrite sorted_desc_is_topk_all.
    destruct (topk_spec A key (length l) l) as [d [P [_ Len]]].
    assert (d = []).
    { pose proof (Permutation_length P) as PL. rewrite app_length, Len, Nat.min_id in PL.
      destruct d; [reflexivity|simpl in PL; lia]. }
    subst d. rewrite app_nil_r in P. exact P.
  Qed.

  (* ... in decreasing order of key ... *)
  Theorem sorted_desc_decreasing : forall l a b t1 t2, sorted_desc l = t1 ++ a :: b :: t2 -> Qle (key b) (key a).
  Proof. intros l a b t1 t2. rewrite sorted_desc_is_topk_all. apply (topk_sorted A key). Qed.

  (* ... and stable: the elements of any one key value keep their input order *)
  Lemma with_key_insert : forall v x l,
    with_key v (insert_desc x l) = (if Qeq_bool (key x) v then [x] else []) ++ with_key v l.
  Proof.
    intros v x. induction l as [|y t IH].
    { unfold SortModel.with_key. simpl. destruct (Qeq_bool (key x) v); reflexivity. }
    simpl. destruct (Qle_bool (key y) (key x)) eqn:C.
    { unfold SortModel.with_key. simpl. destruct (Qeq_bool (key x) v); reflexivity. }
    unfold SortModel.with_key in *. simpl. rewrite IH.
    destruct (Qeq_bool (key x) v) eqn:Ex; destruct (Qeq_bool (key y) v) eqn:Ey; try reflexivity.
    exfalso. apply Qeq_bool_iff in Ex. apply Qeq_bool_iff in Ey.
    assert (Q : Qle (key y) (key x)) by (rewrite Ex, Ey; apply Qle_refl).
    apply Qle_bool_iff in Q. congruence.
  Qed.

  Theorem sorted_desc_stable : forall v l, with_key v (sorted_desc l) = with_key v l.
  Proof.
    intros v. induction l as [|x t IH]; [reflexivity|]. simpl. rewrite with_key_insert, IH.
    unfold SortModel.with_key. simpl. destruct (Qeq_bool (key x) v); reflexivity.
  Qed.

  Lemma filter_firstn_prefix : forall (p : A -> bool) k l, exists j, filter p (firstn k l) = firstn j (filter p l).
  Proof.
    intros p k l. revert k. induction l as [|x t IH]; intros k.
    - exists 0%nat. destruct k; reflexivity.
    - destruct k as [|k]; [exists 0%nat; reflexivity|]. simpl. destruct (IH k) as [j Hj].
      destruct (p x); [exists (S j); simpl; rewrite Hj; reflexivity|exists j; exact Hj].
  Qed.

  (* the tie-breaking: among the elements of one key value, the kept ones are the FIRST ones of the input, in order *)
  Theorem topk_ties_keep_earliest : forall v k l, exists j, with_key v (topk k l) = firstn j (with_key v l).
  Proof.
    intros v k l. rewrite topk_is_sorted_prefix.
    destruct (filter_firstn_prefix (fun a => Qeq_bool (key a) v) k (sorted_desc l)) as [j Hj].
    exists j. unfold SortModel.with_key in *. rewrite Hj. f_equal. apply sorted_desc_stable.
  Qed.
End SortProofs.

(* the bottom-up LabeledFrame record: visible instances, sorted, sliced *)
Section BottomUpSort.
  Variables inst : Type.
  Variable visible : inst -> bool.
  Variable score : inst -> Q.

  Theorem bu_limit_is_sorted_slice : forall k l, bu_limit inst score (Some k) l = firstn k (sorted_desc inst score l).
  Proof. intros k l. simpl. apply topk_is_sorted_prefix. Qed.

  Theorem bu_frame_is_sorted_slice : forall k l,
    bu_frame inst visible score (Some k) l = firstn k (sorted_desc inst score (filter visible l)).
  Proof. intros k l. unfold bu_frame. apply bu_limit_is_sorted_slice. Qed.
End BottomUpSort.
