(* Lemmas.v (C12) — proofs about C12/Batch.v. *)
From Coq Require Import List Arith Bool QArith Lia Permutation.
Import ListNotations.
From SV Require Import C12.Batch.

Lemma nth_error_seq : forall n s i, (i < n)%nat -> nth_error (seq s n) i = Some (s + i)%nat.
Proof.
  induction n as [|n IH]; intros s i H; [lia|]. destruct i as [|i]; simpl.
  - f_equal. lia.
  - rewrite IH by lia. f_equal. lia.
Qed.

Lemma nth_error_ext_len : forall (A : Type) (l1 l2 : list A),
  length l1 = length l2 -> (forall i, (i < length l1)%nat -> nth_error l1 i = nth_error l2 i) -> l1 = l2.
Proof.
  intros A. induction l1 as [|a t IH]; intros [|b u] Hl H; simpl in Hl; try discriminate; [reflexivity|].
  pose proof (H 0%nat ltac:(simpl; lia)) as H0. simpl in H0. inversion H0; subst. f_equal.
  apply IH; [lia|]. intros i Hi. apply (H (S i)). simpl. lia.
Qed.

Section Proofs.
  Variables frame peak inst : Type.
  Variable detect : frame -> list peak.
  Variable value : peak -> Q.
  Variable crop_infer : frame -> peak -> inst.

  Notation flat_peaks := (flat_peaks frame peak detect).
  Notation split_sample := (split_sample peak).
  Notation batch_max := (batch_max peak).
  Notation select_max := (select_max peak value).
  Notation topk := (topk peak value).
  Notation per_sample := (per_sample peak value).
  Notation centroid_rows := (centroid_rows frame peak detect value).
  Notation crops_of := (crops_of frame peak inst crop_infer).
  Notation topdown_batch := (topdown_batch frame peak inst detect value crop_infer).
  Notation topdown_one := (topdown_one frame peak inst detect value crop_infer).
  Notation topdown_stream := (topdown_stream frame peak inst detect value crop_infer).
  Notation kept := (kept peak value).
  Notation src := (src frame).

  (* ---------------------------------------------------------------- the split by sample index *)
  Lemma split_app : forall a1 a2 b, split_sample (a1 ++ a2) b = split_sample a1 b ++ split_sample a2 b.
  Proof. intros. unfold Batch.split_sample. rewrite filter_app, map_app. reflexivity. Qed.

  Lemma split_pair_same : forall b (l : list peak), split_sample (map (pair b) l) b = l.
  Proof.
    intros b l. unfold Batch.split_sample. induction l as [|x t IH]; simpl; [reflexivity|].
    rewrite Nat.eqb_refl. simpl. rewrite IH. reflexivity.
  Qed.

  Lemma split_pair_other : forall b b' (l : list peak), b <> b' -> split_sample (map (pair b) l) b' = [].
  Proof.
    intros b b' l Hne. unfold Batch.split_sample. induction l as [|x t IH]; simpl; [reflexivity|].
    destruct (Nat.eqb_spec b b'); [contradiction|exact IH].
  Qed.

  Lemma split_flat_lt : forall xs s b, (b < s)%nat -> split_sample (flat_peaks s xs) b = [].
  Proof.
    induction xs as [|x t IH]; intros s b Hlt; simpl; [reflexivity|].
    rewrite split_app, split_pair_other by lia. rewrite IH by lia. reflexivity.
  Qed.

  (* the peaks attributed to sample s + i of the batch are exactly that frame's own peaks *)
  Lemma map_split_flat : forall (B : Type) (F : list peak -> B) xs s,
    map (fun b => F (split_sample (flat_peaks s xs) b)) (seq s (length xs)) = map (fun x => F (detect x)) xs.
  Proof.
    intros B F. induction xs as [|x t IH]; intros s; simpl; [reflexivity|].
    rewrite split_app, split_pair_same, split_flat_lt, app_nil_r by lia. f_equal.
    rewrite <- (IH (S s)). apply map_ext_in. intros b Hb. apply in_seq in Hb.
    rewrite split_app, split_pair_other by lia. reflexivity.
  Qed.

  Theorem split_flat_nth : forall xs b x, nth_error xs b = Some x ->
    split_sample (flat_peaks 0%nat xs) b = detect x.
  Proof.
    intros xs b x H.
    pose proof (map_split_flat _ (fun l => l) xs 0%nat) as M.
    assert (Hb : (b < length xs)%nat) by (apply nth_error_Some; congruence).
    apply (f_equal (fun l => nth_error l b)) in M.
    rewrite !nth_error_map in M. rewrite H in M.
    rewrite (nth_error_seq _ _ _ Hb) in M. simpl in M. congruence.
  Qed.

  Lemma batch_max_eq : forall xs,
    batch_max (flat_peaks 0%nat xs) (length xs) = fold_right Nat.max 0%nat (map (fun x => length (detect x)) xs).
  Proof. intros. unfold Batch.batch_max. rewrite (map_split_flat _ (@length peak)). reflexivity. Qed.

  Lemma fold_max_ge : forall (l : list nat) n, In n l -> (n <= fold_right Nat.max 0%nat l)%nat.
  Proof.
    induction l as [|a t IH]; simpl; intros n H; [contradiction|].
    destruct H as [H|H]; [subst; lia|specialize (IH _ H); lia].
  Qed.

  Lemma flat_nil_iff : forall xs s, flat_peaks s xs = [] <-> (forall x, In x xs -> detect x = []).
  Proof.
    induction xs as [|x t IH]; intros s; simpl.
    - split; [intros _ y []|reflexivity].
    - split.
      + intros H. apply app_eq_nil in H. destruct H as [H1 H2]. apply map_eq_nil in H1.
        intros y [Hy|Hy]; [subst; exact H1|]. apply (proj1 (IH (S s)) H2 y Hy).
      + intros H. rewrite (H x (or_introl eq_refl)). simpl. apply IH. intros y Hy. apply H. right. exact Hy.
  Qed.

  (* ---------------------------------------------------------------- NaN padding *)
  Lemma somes_map_Some : forall (A : Type) (l : list A), somes (map Some l) = l.
  Proof. induction l as [|a t IH]; simpl; [reflexivity|rewrite IH; reflexivity]. Qed.

  Lemma somes_app : forall (A : Type) (l1 l2 : list (option A)), somes (l1 ++ l2) = somes l1 ++ somes l2.
  Proof. induction l1 as [|[a|] t IH]; intros; simpl; [reflexivity|rewrite IH; reflexivity|apply IH]. Qed.

  Lemma somes_repeat_None : forall (A : Type) k, somes (repeat (@None A) k) = [].
  Proof. induction k; simpl; [reflexivity|assumption]. Qed.

  Lemma somes_per_sample : forall M l,
    somes (per_sample M l) = if (M <? length l)%nat then topk M l else l.
  Proof.
    intros. unfold Batch.per_sample. destruct (M <? length l)%nat.
    - apply somes_map_Some.
    - rewrite somes_app, somes_map_Some, somes_repeat_None, app_nil_r. reflexivity.
  Qed.

  Lemma per_sample_length : forall M l, (forall k l', length (topk k l') = Nat.min k (length l')) ->
    length (per_sample M l) = M.
  Proof.
    intros M l HT. unfold Batch.per_sample. destruct (Nat.ltb_spec M (length l)).
    - rewrite map_length, HT. lia.
    - rewrite app_length, map_length, repeat_length. lia.
  Qed.

  (* ---------------------------------------------------------------- _generate_crops alignment *)
  Lemma crops_of_maps : forall (R : frame -> list (option peak)) (fs : list src),
    crops_of (map (fun s => R (s_img frame s)) fs) (map (s_img frame) fs)
             (map (s_fidx frame) fs) (map (s_vidx frame) fs)
    = flat_map (fun s => match somes (R (s_img frame s)) with
                         | [] => []
                         | ps => [(s_fidx frame s, s_vidx frame s, map (crop_infer (s_img frame s)) ps)]
                         end) fs.
  Proof.
    intros R fs. unfold Batch.crops_of. induction fs as [|s t IH]; [reflexivity|].
    simpl. apply (f_equal2 (@app _)); [reflexivity|exact IH].
  Qed.

  Lemma flat_map_ext_in : forall (A B : Type) (f g : A -> list B) l,
    (forall a, In a l -> f a = g a) -> flat_map f l = flat_map g l.
  Proof.
    intros A B f g l H. induction l as [|a t IH]; simpl; [reflexivity|].
    rewrite (H a (or_introl eq_refl)), IH; [reflexivity|]. intros b Hb. apply H. right. exact Hb.
  Qed.

  Lemma flat_map_nil : forall (A B : Type) (l : list A), flat_map (fun _ => @nil B) l = [].
  Proof. induction l; simpl; auto. Qed.

  (* ---------------------------------------------------------------- the main theorem *)
  Theorem topdown_batch_is_per_frame : forall mi (fs : list src),
    topdown_batch mi fs = flat_map (topdown_one mi) fs.
  Proof.
    intros mi fs. unfold Batch.topdown_batch, Batch.centroid_rows.
    destruct (flat_peaks 0%nat (map (s_img frame) fs)) as [|p0 rest] eqn:E.
    - (* no detection in the whole batch: CentroidCrop returns None *)
      pose proof (proj1 (flat_nil_iff _ _) E) as Hall.
      symmetry. rewrite (flat_map_ext_in _ _ _ (fun _ => [])).
      + apply flat_map_nil.
      + intros s Hs. unfold Batch.topdown_one.
        rewrite (Hall (s_img frame s)) by (apply in_map; exact Hs).
        destruct mi as [k|]; simpl; [|reflexivity]. destruct (k <? 0)%nat eqn:K; [|reflexivity].
        apply Nat.ltb_lt in K. lia.
    - rewrite <- E. clear E p0 rest.
      set (M := match mi with Some k => k | None => _ end).
      rewrite map_length.
      rewrite <- (map_length (s_img frame) fs) at 1.
      rewrite (map_split_flat _ (per_sample M)).
      rewrite map_map.
      rewrite (crops_of_maps (fun img => per_sample M (detect img))).
      apply flat_map_ext_in. intros s Hs. unfold Batch.topdown_one.
      rewrite somes_per_sample.
      assert (Hk : (if (M <? length (detect (s_img frame s)))%nat then topk M (detect (s_img frame s))
                    else detect (s_img frame s)) = kept mi (detect (s_img frame s))).
      { unfold Batch.kept, M. destruct mi as [k|]; [reflexivity|].
        rewrite map_length. rewrite <- (map_length (s_img frame) fs), batch_max_eq.
        assert (Hle : (length (detect (s_img frame s))
                       <= fold_right Nat.max 0%nat (map (fun x => length (detect x)) (map (s_img frame) fs)))%nat).
        { apply fold_max_ge. apply in_map_iff. exists (s_img frame s). split; [reflexivity|].
          apply in_map. exact Hs. }
        destruct (Nat.ltb_spec (fold_right Nat.max 0%nat (map (fun x => length (detect x)) (map (s_img frame) fs)))
                               (length (detect (s_img frame s)))); [lia|reflexivity]. }
      rewrite Hk. reflexivity.
  Qed.

  (* ---------------------------------------------------------------- corollaries *)
  Theorem topdown_batch_app : forall mi a b,
    topdown_batch mi (a ++ b) = topdown_batch mi a ++ topdown_batch mi b.
  Proof. intros. rewrite !topdown_batch_is_per_frame. apply flat_map_app. Qed.

  Theorem topdown_batch_mates : forall mi xs1 x xs2,
    topdown_batch mi (xs1 ++ [x] ++ xs2)
    = topdown_batch mi xs1 ++ topdown_batch mi [x] ++ topdown_batch mi xs2.
  Proof. intros. rewrite !topdown_batch_app. reflexivity. Qed.

  Theorem topdown_batch_single : forall mi x, topdown_batch mi [x] = topdown_one mi x.
  Proof. intros. rewrite topdown_batch_is_per_frame. simpl. apply app_nil_r. Qed.

  Theorem topdown_batch_perm : forall mi fs fs',
    Permutation fs fs' -> Permutation (topdown_batch mi fs) (topdown_batch mi fs').
  Proof. intros. rewrite !topdown_batch_is_per_frame. apply Permutation_flat_map. assumption. Qed.

  Theorem topdown_empty_frame : forall mi xs1 x xs2,
    detect (s_img frame x) = [] ->
    topdown_batch mi [x] = [] /\
    topdown_batch mi (xs1 ++ [x] ++ xs2) = topdown_batch mi (xs1 ++ xs2).
  Proof.
    intros mi xs1 x xs2 H.
    assert (E : topdown_batch mi [x] = []).
    { rewrite topdown_batch_single. unfold Batch.topdown_one. rewrite H.
      destruct mi as [k|]; simpl; [|reflexivity]. destruct (k <? 0)%nat eqn:K; [|reflexivity].
      apply Nat.ltb_lt in K. lia. }
    split; [exact E|]. rewrite topdown_batch_mates, E, topdown_batch_app. reflexivity.
  Qed.

  Theorem topdown_indices : forall mi fs f v insts,
    In (f, v, insts) (topdown_batch mi fs) ->
    exists s, In s fs /\ f = s_fidx frame s /\ v = s_vidx frame s /\
              insts = map (crop_infer (s_img frame s)) (kept mi (detect (s_img frame s))) /\
              kept mi (detect (s_img frame s)) <> [].
  Proof.
    intros mi fs f v insts H. rewrite topdown_batch_is_per_frame in H.
    apply in_flat_map in H. destruct H as [s [Hs Hi]]. exists s. split; [exact Hs|].
    unfold Batch.topdown_one in Hi.
    destruct (kept mi (detect (s_img frame s))) as [|p ps] eqn:K; [contradiction|].
    destruct Hi as [Hi|[]]. inversion Hi; subst. repeat split; try reflexivity. discriminate.
  Qed.

  (* ---------------------------------------------------------------- _predict_generator chunks *)
  Lemma concat_chunks : forall (A : Type) fuel n (l : list A),
    (0 < n)%nat -> (length l <= fuel)%nat -> concat (chunks fuel n l) = l.
  Proof.
    intros A. induction fuel as [|f IH]; intros n l Hn Hl.
    - destruct l; [reflexivity|simpl in Hl; lia].
    - destruct l as [|a t]; [reflexivity|].
      change (chunks (S f) n (a :: t)) with (firstn n (a :: t) :: chunks f n (skipn n (a :: t))).
      simpl concat. rewrite IH.
      + apply firstn_skipn.
      + exact Hn.
      + rewrite skipn_length. simpl length in *. lia.
  Qed.

  Lemma flat_map_concat : forall (A B : Type) (f : A -> list B) ls,
    flat_map (fun l => flat_map f l) ls = flat_map f (concat ls).
  Proof.
    intros. induction ls as [|l t IH]; simpl; [reflexivity|]. rewrite IH, flat_map_app. reflexivity.
  Qed.

  Theorem topdown_stream_any_batch_size : forall mi n fs,
    (0 < n)%nat -> topdown_stream mi n fs = flat_map (topdown_one mi) fs.
  Proof.
    intros mi n fs Hn. unfold Batch.topdown_stream.
    rewrite (flat_map_ext_in _ _ (topdown_batch mi) (fun l => flat_map (topdown_one mi) l)).
    - rewrite flat_map_concat, concat_chunks by lia. reflexivity.
    - intros l _. apply topdown_batch_is_per_frame.
  Qed.

  (* ---------------------------------------------------------------- top-k by value *)
  Lemma select_max_spec : forall l m rest,
    select_max l = Some (m, rest) ->
    Permutation l (m :: rest) /\ (forall y, In y rest -> Qle (value y) (value m)).
  Proof.
    induction l as [|x t IH]; intros m rest H; simpl in H; [discriminate|].
    destruct (select_max t) as [[m' rest']|] eqn:E.
    - destruct (IH _ _ eq_refl) as [P L].
      destruct (Qle_bool (value m') (value x)) eqn:C; inversion H; subst; clear H.
      + split; [apply Permutation_refl|].
        intros y Hy. apply Qle_bool_iff in C.
        apply (Permutation_in _ P) in Hy. destruct Hy as [Hy|Hy]; [subst; exact C|].
        eapply Qle_trans; [apply L; exact Hy|exact C].
      + split.
        * eapply Permutation_trans; [apply perm_skip; exact P|apply perm_swap].
        * intros y [Hy|Hy]; [subst|apply L; exact Hy].
          apply Qlt_le_weak. apply Qnot_le_lt. intro Q. apply Qle_bool_iff in Q. congruence.
    - inversion H; subst. destruct t; [|simpl in E; destruct (select_max t) as [[? ?]|]; try discriminate;
        destruct (Qle_bool _ _); discriminate].
      split; [apply Permutation_refl|intros y []].
  Qed.

  Lemma select_max_none : forall l, select_max l = None -> l = [].
  Proof.
    destruct l as [|x t]; [reflexivity|]. simpl.
    destruct (select_max t) as [[m r]|]; [destruct (Qle_bool _ _)|]; discriminate.
  Qed.

  Theorem topk_spec : forall k l,
    exists dropped,
      Permutation l (topk k l ++ dropped) /\
      (forall a b, In a (topk k l) -> In b dropped -> Qle (value b) (value a)) /\
      length (topk k l) = Nat.min k (length l).
  Proof.
    induction k as [|k IH]; intros l.
    - exists l. simpl. split; [apply Permutation_refl|]. split; [intros a b []|reflexivity].
    - simpl. destruct (select_max l) as [[m rest]|] eqn:E.
      + destruct (select_max_spec _ _ _ E) as [P L].
        destruct (IH rest) as [dr [P2 [L2 Len]]].
        exists dr. split; [|split].
        * eapply Permutation_trans; [exact P|]. simpl. apply perm_skip. exact P2.
        * intros a b [Ha|Ha] Hb.
          -- subst a. apply L. apply (Permutation_in _ (Permutation_sym P2)). apply in_or_app. right. exact Hb.
          -- apply L2; assumption.
        * simpl. rewrite Len. rewrite (Permutation_length P). simpl. reflexivity.
      + apply select_max_none in E. subst l. exists []. simpl.
        split; [apply Permutation_refl|]. split; [intros a b []|reflexivity].
  Qed.

  Lemma topk_length : forall k l, length (topk k l) = Nat.min k (length l).
  Proof. intros. destruct (topk_spec k l) as [d [_ [_ H]]]. exact H. Qed.

  Theorem topk_sorted : forall k l a b t1 t2, topk k l = t1 ++ a :: b :: t2 -> Qle (value b) (value a).
  Proof.
    induction k as [|k IH]; intros l a b t1 t2 H; simpl in H.
    - destruct t1; discriminate.
    - destruct (select_max l) as [[m rest]|] eqn:E; [|destruct t1; discriminate].
      destruct t1 as [|c t1]; simpl in H; inversion H; subst.
      + destruct (select_max_spec _ _ _ E) as [P L]. apply L.
        destruct (topk_spec k rest) as [d [P2 _]].
        apply (Permutation_in _ (Permutation_sym P2)). apply in_or_app. left.
        match goal with H2 : topk k rest = _ |- _ => rewrite H2 end. left. reflexivity.
      + eapply IH. eassumption.
  Qed.

  (* with max_instances = k a frame keeps the k highest-valued detections *)
  Theorem kept_topk : forall k l, (k < length l)%nat ->
    exists dropped,
      Permutation l (kept (Some k) l ++ dropped) /\ length (kept (Some k) l) = k /\
      (forall a b, In a (kept (Some k) l) -> In b dropped -> Qle (value b) (value a)).
  Proof.
    intros k l H. unfold Batch.kept. apply Nat.ltb_lt in H. rewrite H. apply Nat.ltb_lt in H.
    destruct (topk_spec k l) as [d [P [L Len]]]. exists d. split; [exact P|]. split; [lia|exact L].
  Qed.

  Theorem kept_all : forall mi l,
    match mi with Some k => (length l <= k)%nat | None => True end -> kept mi l = l.
  Proof.
    intros [k|] l H; simpl; [|reflexivity].
    destruct (Nat.ltb_spec k (length l)); [lia|reflexivity].
  Qed.

  (* centroid-only output (return_crops = False): the (batch, max_instances) table
     holds, for every frame, its own kept peaks followed by NaN rows only *)
  Theorem centroid_rows_up_to_padding : forall mi xs rows,
    centroid_rows mi xs = Some rows ->
    length rows = length xs /\
    map (@somes peak) rows = map (fun x => kept mi (detect x)) xs.
  Proof.
    intros mi xs rows H. unfold Batch.centroid_rows in H.
    destruct (flat_peaks 0%nat xs) as [|p0 rest] eqn:E; [discriminate|].
    rewrite <- E in H. clear E p0 rest. inversion H; subst; clear H.
    set (M := match mi with Some k => k | None => _ end).
    rewrite (map_split_flat _ (per_sample M)). split; [apply map_length|].
    rewrite map_map. apply map_ext_in. intros x Hx. rewrite somes_per_sample.
    unfold Batch.kept, M. destruct mi as [k|]; [reflexivity|].
    rewrite batch_max_eq.
    assert (Hle : (length (detect x) <= fold_right Nat.max 0%nat (map (fun x => length (detect x)) xs))%nat).
    { apply fold_max_ge. apply in_map_iff. exists x. split; [reflexivity|exact Hx]. }
    destruct (Nat.ltb_spec (fold_right Nat.max 0%nat (map (fun x => length (detect x)) xs)) (length (detect x)));
      [lia|reflexivity].
  Qed.

  (* ---------------------------------------------------------------- bottom-up *)
  Variable group : frame -> list peak -> list inst.
  Notation bottomup_batch := (bottomup_batch frame peak inst detect group).
  Notation bottomup_one := (bottomup_one frame peak inst detect group).

  Lemma bottomup_gen : forall (fs : list src) st,
    map (fun r : nat * src => let '(b, s) := r in
           (s_fidx frame s, s_vidx frame s,
            group (s_img frame s) (split_sample (flat_peaks st (map (s_img frame) fs)) b)))
        (combine (seq st (length fs)) fs)
    = map bottomup_one fs.
  Proof.
    induction fs as [|s t IH]; intros st; simpl; [reflexivity|].
    rewrite split_app, split_pair_same, split_flat_lt, app_nil_r by lia. f_equal.
    rewrite <- (IH (S st)). apply map_ext_in. intros [b s'] Hb.
    apply in_combine_l in Hb. apply in_seq in Hb.
    rewrite split_app, split_pair_other by lia. reflexivity.
  Qed.

  Theorem bottomup_batch_is_per_frame : forall fs, bottomup_batch fs = map bottomup_one fs.
  Proof. intros. unfold Batch.bottomup_batch. apply bottomup_gen. Qed.

  Theorem bottomup_batch_mates : forall xs1 x xs2,
    bottomup_batch (xs1 ++ [x] ++ xs2) = bottomup_batch xs1 ++ bottomup_batch [x] ++ bottomup_batch xs2.
  Proof. intros. rewrite !bottomup_batch_is_per_frame, !map_app. reflexivity. Qed.

  Theorem bottomup_batch_perm : forall fs fs',
    Permutation fs fs' -> Permutation (bottomup_batch fs) (bottomup_batch fs').
  Proof. intros. rewrite !bottomup_batch_is_per_frame. apply Permutation_map. assumption. Qed.

  (* ---------------------------------------------------------------- crop index sample * channels + channel *)
  Variable chan : Type.
  Variable cmaps : frame -> list chan.
  Notation patch_source := (patch_source frame chan cmaps).

  Lemma nth_error_concat_uniform : forall (A : Type) (ls : list (list A)) C b c,
    (forall l, In l ls -> length l = C) -> (c < C)%nat ->
    nth_error (concat ls) (b * C + c) = match nth_error ls b with Some l => nth_error l c | None => None end.
  Proof.
    intros A. induction ls as [|l t IH]; intros C b c Hlen Hc.
    - simpl. destruct (b * C + c)%nat; destruct b; reflexivity.
    - destruct b as [|b]; simpl.
      + rewrite nth_error_app1; [reflexivity|]. rewrite (Hlen l (or_introl eq_refl)). exact Hc.
      + rewrite nth_error_app2 by (rewrite (Hlen l (or_introl eq_refl)); lia).
        rewrite (Hlen l (or_introl eq_refl)).
        replace (C + b * C + c - C)%nat with (b * C + c)%nat by lia.
        apply IH; [|exact Hc]. intros l' Hl'. apply Hlen. right. exact Hl'.
  Qed.

  Theorem patch_source_own : forall xs C b c x,
    (forall y, In y xs -> length (cmaps y) = C) -> (c < C)%nat -> nth_error xs b = Some x ->
    patch_source xs C b c = nth_error (cmaps x) c.
  Proof.
    intros xs C b c x Hlen Hc Hb. unfold Batch.patch_source, Batch.flat_chans.
    rewrite nth_error_concat_uniform with (C := C); [|
      intros l Hl; apply in_map_iff in Hl; destruct Hl as [y [E Hy]]; subst; apply Hlen; exact Hy|exact Hc].
    rewrite nth_error_map, Hb. reflexivity.
  Qed.

  Variable rough : chan -> option peak.
  Variable refine : chan -> peak -> inst.
  Notation single_batch := (single_batch frame peak inst chan cmaps rough refine).
  Notation single_one := (single_one frame peak inst chan cmaps rough refine).

  Theorem single_batch_is_per_frame : forall C xs,
    (forall y, In y xs -> length (cmaps y) = C) -> single_batch C xs = map single_one xs.
  Proof.
    intros C xs Hlen. unfold Batch.single_batch.
    apply nth_error_ext_len.
    - rewrite !map_length, seq_length. reflexivity.
    - intros b Hb. rewrite map_length, seq_length in Hb.
      destruct (nth_error xs b) as [x|] eqn:Ex; [|apply nth_error_None in Ex; lia].
      rewrite !nth_error_map, Ex. rewrite (nth_error_seq _ _ _ Hb). simpl. f_equal.
      unfold Batch.single_one.
      apply nth_error_ext_len.
      + rewrite !map_length, seq_length. symmetry. apply Hlen. eapply nth_error_In; eassumption.
      + intros c Hc. rewrite map_length, seq_length in Hc.
        rewrite !nth_error_map. rewrite (nth_error_seq _ _ _ Hc). simpl.
        rewrite (patch_source_own xs C b c x Hlen Hc Ex).
        destruct (nth_error (cmaps x) c) as [ch|] eqn:Ec; simpl.
        * destruct (rough ch); reflexivity.
        * apply nth_error_None in Ec. rewrite (Hlen x) in Ec by (eapply nth_error_In; eassumption). lia.
  Qed.
  (* ---------------------------------------------------------------- centroid-only top-down:
     CentroidCrop(return_crops = False) + FindInstancePeaksGroundTruth *)
  Variable ginst : Type.
  Variable gmatch : frame -> peak -> option ginst.
  Notation centroid_table := (centroid_table frame peak detect value).
  Notation row_matches := (row_matches frame peak ginst gmatch).
  Notation gt_flat := (gt_flat frame peak ginst gmatch).
  Notation gt_count := (gt_count ginst).
  Notation pad_to := (pad_to ginst).
  Notation gt_parse := (gt_parse ginst).
  Notation centroid_only_batch := (centroid_only_batch frame peak detect value ginst gmatch).
  Notation centroid_only_one := (centroid_only_one frame peak detect value ginst gmatch).

  Lemma kept_nil : forall mi, kept mi [] = [].
  Proof.
    intros [k|]; simpl; [|reflexivity]. destruct (k <? 0)%nat eqn:K; [|reflexivity].
    apply Nat.ltb_lt in K. lia.
  Qed.

  Theorem centroid_table_up_to_padding : forall mi xs,
    length (centroid_table mi xs) = length xs /\
    map (@somes peak) (centroid_table mi xs) = map (fun x => kept mi (detect x)) xs.
  Proof.
    intros mi xs. unfold Batch.centroid_table.
    destruct (centroid_rows mi xs) as [rows|] eqn:E.
    - apply centroid_rows_up_to_padding. exact E.
    - split; [apply map_length|].
      unfold Batch.centroid_rows in E.
      destruct (flat_peaks 0%nat xs) as [|p0 rest] eqn:F; [|discriminate].
      pose proof (proj1 (flat_nil_iff _ _) F) as Hall.
      rewrite map_map. apply map_ext_in. intros x Hx.
      rewrite somes_repeat_None, (Hall x Hx), kept_nil. reflexivity.
  Qed.

  Lemma row_matches_somes : forall img row,
    row_matches img row = somes (map (gmatch img) (somes row)).
  Proof.
    intros img row. unfold Batch.row_matches. induction row as [|[p|] t IH]; simpl; [reflexivity| |exact IH].
    destruct (gmatch img p); simpl; rewrite IH; reflexivity.
  Qed.

  Lemma gt_flat_ge : forall rows imgs s p, In p (gt_flat s rows imgs) -> (s <= fst p)%nat.
  Proof.
    induction rows as [|row rt IH]; intros imgs s p H; simpl in H; [contradiction|].
    destruct imgs as [|img it]; [contradiction|].
    apply in_app_or in H. destruct H as [H|H].
    - apply in_map_iff in H. destruct H as [g [E _]]. subst. simpl. lia.
    - specialize (IH _ _ _ H). lia.
  Qed.

  Lemma filter_none : forall (A : Type) (f : A -> bool) l, (forall a, In a l -> f a = false) -> filter f l = [].
  Proof.
    induction l as [|a t IH]; intros H; simpl; [reflexivity|].
    rewrite (H a (or_introl eq_refl)). apply IH. intros b Hb. apply H. right. exact Hb.
  Qed.

  Lemma filter_all : forall (A : Type) (f : A -> bool) l, (forall a, In a l -> f a = true) -> filter f l = l.
  Proof.
    induction l as [|a t IH]; intros H; simpl; [reflexivity|].
    rewrite (H a (or_introl eq_refl)). f_equal. apply IH. intros b Hb. apply H. right. exact Hb.
  Qed.

  Lemma pad_to_nil : forall M, pad_to M [] = repeat None M.
  Proof.
    intros M. unfold Batch.pad_to. simpl. destruct (Nat.ltb_spec 0 M).
    - rewrite Nat.sub_0_r. reflexivity.
    - assert (M = 0)%nat by lia. subst. reflexivity.
  Qed.

  (* the sequential parse (counts / parsed) returns to every sample the matches of its own row *)
  Lemma gt_parse_gen : forall M rows imgs pre b,
    length rows = length imgs ->
    (forall p, In p pre -> (fst p < b)%nat) ->
    gt_parse M (pre ++ gt_flat b rows imgs) (length pre) b (length imgs)
    = map (fun r : list (option peak) * frame => pad_to M (row_matches (snd r) (fst r))) (combine rows imgs).
  Proof.
    intros M. induction rows as [|row rt IH]; intros imgs pre b Hl Hpre.
    - destruct imgs; [reflexivity|discriminate].
    - destruct imgs as [|img it]; [discriminate|]. simpl in Hl. injection Hl as Hl.
      cbn [Batch.gt_flat length combine map fst snd Batch.gt_parse].
      set (L := row_matches img row).
      set (all := pre ++ map (pair b) L ++ gt_flat (S b) rt it).
      assert (Hfilt : filter (fun p : nat * ginst => fst p =? b) all = map (pair b) L).
      { unfold all. rewrite !filter_app.
        rewrite (filter_none _ _ pre), (filter_all _ _ (map (pair b) L)), (filter_none _ _ (gt_flat (S b) rt it)).
        - simpl. apply app_nil_r.
        - intros p Hp. apply gt_flat_ge in Hp. apply Nat.eqb_neq. lia.
        - intros p Hp. apply in_map_iff in Hp. destruct Hp as [g [E _]]. subst. simpl. apply Nat.eqb_refl.
        - intros p Hp. specialize (Hpre _ Hp). apply Nat.eqb_neq. lia. }
      assert (Hcnt : gt_count all b = length L).
      { unfold Batch.gt_count. rewrite Hfilt, map_length. reflexivity. }
      assert (Hrec : gt_parse M all (length pre + length L) (S b) (length it)
                     = map (fun r : list (option peak) * frame => pad_to M (row_matches (snd r) (fst r))) (combine rt it)).
      { unfold all. rewrite app_assoc.
        replace (length pre + length L)%nat with (length (pre ++ map (pair b) L))
          by (rewrite app_length, map_length; reflexivity).
        apply IH; [exact Hl|].
        intros p Hp. apply in_app_or in Hp. destruct Hp as [Hp|Hp].
        - specialize (Hpre _ Hp). lia.
        - apply in_map_iff in Hp. destruct Hp as [g [E _]]. subst. simpl. lia. }
      destruct (existsb (fun p : nat * ginst => fst p =? b) all) eqn:Ex.
      + rewrite Hcnt. f_equal; [|exact Hrec].
        f_equal. unfold all. rewrite skipn_app, Nat.sub_diag, skipn_all. simpl.
        rewrite firstn_app, map_length, Nat.sub_diag. simpl. rewrite app_nil_r.
        rewrite <- (map_length (pair b) L) at 1. rewrite firstn_all, map_map. simpl. apply map_id.
      + assert (HL : L = []).
        { destruct L as [|g gt] eqn:EL; [reflexivity|]. exfalso.
          assert (In (b, g) all) by (unfold all; apply in_or_app; right; apply in_or_app; left; left; reflexivity).
          assert (existsb (fun p : nat * ginst => fst p =? b) all = true).
          { apply existsb_exists. exists (b, g). split; [assumption|apply Nat.eqb_refl]. }
          congruence. }
        rewrite HL in *. rewrite pad_to_nil. f_equal. simpl in Hrec. rewrite Nat.add_0_r in Hrec. exact Hrec.
  Qed.

  Theorem gt_parse_is_per_row : forall M rows imgs, length rows = length imgs ->
    gt_parse M (gt_flat 0%nat rows imgs) 0%nat 0%nat (length imgs)
    = map (fun r : list (option peak) * frame => pad_to M (row_matches (snd r) (fst r))) (combine rows imgs).
  Proof.
    intros M rows imgs Hl. apply (gt_parse_gen M rows imgs [] 0%nat Hl). intros p [].
  Qed.

  Lemma combine_map_same : forall (A B C : Type) (f : A -> B) (g : A -> C) (l : list A),
    combine (map f l) (map g l) = map (fun a => (f a, g a)) l.
  Proof. induction l as [|a t IH]; simpl; [reflexivity|rewrite IH; reflexivity]. Qed.

  (* the batch result, read up to the NaN padding of the centroid table, is the list of per-frame results *)
  Theorem centroid_only_batch_is_per_frame : forall mi M (fs : list src),
    map (fun r : nat * nat * list (option peak) * list (option ginst) =>
           (fst (fst (fst r)), snd (fst (fst r)), somes (snd (fst r)), snd r))
        (centroid_only_batch mi M fs)
    = map (centroid_only_one mi M) fs.
  Proof.
    intros mi M fs. unfold Batch.centroid_only_batch.
    destruct (centroid_table_up_to_padding mi (map (s_img frame) fs)) as [Hlen Hs].
    set (rows := centroid_table mi (map (s_img frame) fs)) in *.
    rewrite gt_parse_is_per_row by exact Hlen.
    rewrite map_length in Hlen. rewrite map_map in Hs.
    clearbody rows. revert rows Hlen Hs.
    induction fs as [|s t IH]; intros rows Hlen Hs.
    - reflexivity.
    - destruct rows as [|row rt]; [discriminate|].
      simpl in Hlen. injection Hlen as Hlen. simpl in Hs. injection Hs as Hrow Hs.
      cbn [map combine fst snd]. f_equal; [|apply IH; assumption].
      unfold Batch.centroid_only_one. rewrite row_matches_somes, Hrow. reflexivity.
  Qed.

  Theorem centroid_only_batch_length : forall mi M (fs : list src),
    length (centroid_only_batch mi M fs) = length fs.
  Proof.
    intros. rewrite <- (map_length (centroid_only_one mi M) fs), <- centroid_only_batch_is_per_frame.
    rewrite map_length. reflexivity.
  Qed.

  Lemma pad_to_length : forall M l, length (pad_to M l) = M.
  Proof.
    intros M l. unfold Batch.pad_to. destruct (Nat.ltb_spec (length l) M).
    - rewrite app_length, map_length, repeat_length. lia.
    - rewrite map_length, firstn_length. lia.
  Qed.

  Lemma somes_pad_to : forall M l, somes (pad_to M l) = firstn M l.
  Proof.
    intros M l. unfold Batch.pad_to. destruct (Nat.ltb_spec (length l) M).
    - rewrite somes_app, somes_map_Some, somes_repeat_None, app_nil_r. rewrite firstn_all2; [reflexivity|lia].
    - apply somes_map_Some.
  Qed.
  Definition strip_padding (r : nat * nat * list (option peak) * list (option ginst))
    : nat * nat * list peak * list (option ginst) :=
    (fst (fst (fst r)), snd (fst (fst r)), somes (snd (fst r)), snd r).

  Theorem centroid_only_mates : forall mi M xs1 x xs2,
    map strip_padding (centroid_only_batch mi M (xs1 ++ [x] ++ xs2))
    = map strip_padding (centroid_only_batch mi M xs1) ++ map strip_padding (centroid_only_batch mi M [x])
      ++ map strip_padding (centroid_only_batch mi M xs2).
  Proof.
    intros. unfold strip_padding. rewrite !centroid_only_batch_is_per_frame, !map_app. reflexivity.
  Qed.

  Theorem centroid_only_perm : forall mi M fs fs', Permutation fs fs' ->
    Permutation (map strip_padding (centroid_only_batch mi M fs)) (map strip_padding (centroid_only_batch mi M fs')).
  Proof.
    intros. unfold strip_padding. rewrite !centroid_only_batch_is_per_frame. apply Permutation_map. assumption.
  Qed.

  (* record b of the batch output carries the indices of frame b and the matches of frame b's
     own kept centroids with frame b's own labelled instances *)
  Theorem centroid_only_indices : forall mi M fs b s,
    nth_error fs b = Some s ->
    exists row, nth_error (centroid_only_batch mi M fs) b
                = Some (s_fidx frame s, s_vidx frame s, row,
                        pad_to M (somes (map (gmatch (s_img frame s)) (kept mi (detect (s_img frame s))))))
                /\ somes row = kept mi (detect (s_img frame s)).
  Proof.
    intros mi M fs b s Hb.
    pose proof (centroid_only_batch_is_per_frame mi M fs) as E.
    apply (f_equal (fun l => nth_error l b)) in E. rewrite !nth_error_map, Hb in E.
    destruct (nth_error (centroid_only_batch mi M fs) b) as [[[[f v] row] pk]|] eqn:N; [|discriminate].
    simpl in E. unfold Batch.centroid_only_one in E. injection E as E1 E2 E3 E4. subst.
    exists row. split; [reflexivity|exact E3].
  Qed.
  Theorem centroid_only_stream_any_batch_size : forall mi M n (fs : list src), (0 < n)%nat ->
    map strip_padding (centroid_only_stream frame peak detect value ginst gmatch mi M n fs)
    = map (centroid_only_one mi M) fs.
  Proof.
    intros mi M n fs Hn. unfold Batch.centroid_only_stream.
    rewrite <- (concat_chunks _ (length fs) n fs Hn (Nat.le_refl _)) at 3.
    generalize (chunks (length fs) n fs). intros ls.
    induction ls as [|l t IH]; simpl; [reflexivity|].
    rewrite !map_app, IH. f_equal. unfold strip_padding. apply centroid_only_batch_is_per_frame.
  Qed.

  (* ---------------------------------------------------------------- the walk itself (round 4):
     frames whose number of matches EXCEEDS the M instance rows *)
  Notation gt_pointer := (gt_pointer ginst).
  Notation gt_turn := (gt_turn ginst).

  (* the pointer moves by the TRUE count of the sample just read (not by what was emitted) *)
  Lemma gt_pointer_step : forall (all : list (nat * ginst)) i,
    gt_pointer all (S i) = (gt_pointer all i + gt_count all i)%nat.
  Proof.
    intros all i. unfold Batch.gt_pointer, Batch.gt_count.
    induction all as [|p t IH]; [reflexivity|]. cbn [filter].
    destruct (Nat.ltb_spec (fst p) (S i)); destruct (Nat.ltb_spec (fst p) i); destruct (Nat.eqb_spec (fst p) i);
      cbn [length]; try lia.
  Qed.

  Lemma gt_pointer_0 : forall (all : list (nat * ginst)), gt_pointer all 0%nat = 0%nat.
  Proof.
    intros all. unfold Batch.gt_pointer. rewrite (filter_none _ _ all); [reflexivity|].
    intros a _. apply Nat.ltb_ge. lia.
  Qed.

  Lemma gt_count_absent : forall (all : list (nat * ginst)) i,
    existsb (fun p => fst p =? i) all = false -> gt_count all i = 0%nat.
  Proof.
    intros all i H. unfold Batch.gt_count. rewrite (filter_none _ _ all); [reflexivity|].
    intros a Ha. destruct (fst a =? i) eqn:E; [|reflexivity].
    assert (existsb (fun p : nat * ginst => fst p =? i) all = true)
      by (apply existsb_exists; exists a; split; assumption).
    congruence.
  Qed.

  (* closed form of the loop, for ANY flat list: turn i reads `counts[i]` entries at the position
     reached by counting every entry of the earlier samples, and emits exactly M rows *)
  Theorem gt_parse_closed_form_gen : forall M (all : list (nat * ginst)) n i,
    gt_parse M all (gt_pointer all i) i n = map (gt_turn M all) (seq i n).
  Proof.
    intros M all n. induction n as [|n IH]; intros i; [reflexivity|].
    cbn [Batch.gt_parse seq map]. unfold Batch.gt_turn at 1.
    destruct (existsb (fun p : nat * ginst => fst p =? i) all) eqn:Ex.
    - f_equal. rewrite <- gt_pointer_step. apply IH.
    - f_equal. rewrite <- (IH (S i)), gt_pointer_step, (gt_count_absent all i Ex), Nat.add_0_r. reflexivity.
  Qed.

  Theorem gt_parse_closed_form : forall M (all : list (nat * ginst)) n,
    gt_parse M all 0%nat 0%nat n = map (gt_turn M all) (seq 0%nat n).
  Proof. intros. rewrite <- (gt_pointer_0 all) at 1. apply gt_parse_closed_form_gen. Qed.

  Lemma gt_turn_length : forall M (all : list (nat * ginst)) i, length (gt_turn M all i) = M.
  Proof.
    intros. unfold Batch.gt_turn. destruct (existsb _ all); [apply pad_to_length|apply repeat_length].
  Qed.

  (* what the walk emits for sample b: exactly M rows, whose non-NaN part is a PREFIX (the first M) of
     sample b's own matches, whatever the rows (and so the counts) of the other samples are *)
  Theorem gt_walk_emits_own_prefix : forall M rows imgs b row img,
    length rows = length imgs -> nth_error rows b = Some row -> nth_error imgs b = Some img ->
    exists out, nth_error (gt_parse M (gt_flat 0%nat rows imgs) 0%nat 0%nat (length imgs)) b = Some out
                /\ length out = M /\ somes out = firstn M (row_matches img row)
                /\ out = pad_to M (row_matches img row).
  Proof.
    intros M rows imgs b row img Hl Hr Hi.
    rewrite (gt_parse_is_per_row M rows imgs Hl).
    assert (Hc : nth_error (combine rows imgs) b = Some (row, img)).
    { clear Hl. revert rows imgs Hr Hi. induction b as [|b IH]; intros [|r rt] [|im it] Hr Hi; try discriminate.
      - simpl in *. congruence.
      - simpl in *. apply IH; assumption. }
    exists (pad_to M (row_matches img row)). split.
    - rewrite nth_error_map, Hc. reflexivity.
    - split; [apply pad_to_length|]. split; [apply somes_pad_to|reflexivity].
  Qed.

  (* the same as an independence statement: two batches that agree on sample b (same centroid row, same
     image) give sample b the same instance rows, however many matches the OTHER samples have *)
  Theorem gt_walk_independent_of_other_counts : forall M rows imgs rows' imgs' b b' row img,
    length rows = length imgs -> length rows' = length imgs' ->
    nth_error rows b = Some row -> nth_error imgs b = Some img ->
    nth_error rows' b' = Some row -> nth_error imgs' b' = Some img ->
    nth_error (gt_parse M (gt_flat 0%nat rows imgs) 0%nat 0%nat (length imgs)) b
    = nth_error (gt_parse M (gt_flat 0%nat rows' imgs') 0%nat 0%nat (length imgs')) b'.
  Proof.
    intros M rows imgs rows' imgs' b b' row img Hl Hl' Hr Hi Hr' Hi'.
    destruct (gt_walk_emits_own_prefix M rows imgs b row img Hl Hr Hi) as [o [E [_ [_ Eo]]]].
    destruct (gt_walk_emits_own_prefix M rows' imgs' b' row img Hl' Hr' Hi') as [o' [E' [_ [_ Eo']]]].
    rewrite E, E', Eo, Eo'. reflexivity.
  Qed.

  (* a frame of the centroid-only batch with MORE matched centroids than instance rows: its record holds
     the first M of its own matches and no padding *)
  Theorem centroid_only_overdetecting_frame : forall mi M fs b s,
    nth_error fs b = Some s ->
    (M <= length (somes (map (gmatch (s_img frame s)) (kept mi (detect (s_img frame s))))))%nat ->
    exists row, nth_error (centroid_only_batch mi M fs) b
                = Some (s_fidx frame s, s_vidx frame s, row,
                        map Some (firstn M (somes (map (gmatch (s_img frame s)) (kept mi (detect (s_img frame s)))))))
                /\ somes row = kept mi (detect (s_img frame s)).
  Proof.
    intros mi M fs b s Hb Hm.
    destruct (centroid_only_indices mi M fs b s Hb) as [row [E Hs]].
    exists row. split; [|exact Hs]. rewrite E. f_equal. f_equal.
    unfold Batch.pad_to. destruct (Nat.ltb_spec (length (somes (map (gmatch (s_img frame s)) (kept mi (detect (s_img frame s)))))) M); [lia|reflexivity].
  Qed.
End Proofs.
